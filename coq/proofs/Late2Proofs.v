(* C04, late reports, continued (C04d): the engine commands queued by a late task and with-items tasks.
   Forward computation of the command's own call on a workflow that is done. *)
From Coq Require Import String List Bool ZArith Arith Lia.
From Orq Require Import GenStatuses GenEvents GenTables Base State Machines Conductor Api.
From Orq Require Import F_tables Hoare ValuePost StatusReach C04Proofs C05Proofs InertProofs RetryProofs RetryBoundProofs
  FrozenProofs NoInternalProofs CancelProofs RerunProofs SysProofs LateProofs.
Import ListNotations.
Open Scope string_scope.
Open Scope monad_scope.

(* ------------------------------------------------------------------ the engine commands *)

(* a startable command's own event takes a record without status to succeeded (noop, continue) or failed (fail) *)
Lemma F_cmd_start : forall n name st s, engine_event n = Some (EvEngine name st) ->
  task_process_event empty_ws (fresh_rec n 0) (EvEngine name st) = Val (Some s) -> In s [S_SUCCEEDED; S_FAILED].
Proof.
  intros n name st s He Ht. unfold engine_event in He.
  destruct (aget String.eqb n ENGINE_EVENT_MAP) as [[nm st']|] eqn:E; [|discriminate]. inversion He; subst nm st'. clear He.
  apply aget_In in E. unfold ENGINE_EVENT_MAP in E.
  repeat (destruct E as [E|E]; [inversion E; subst; vm_compute in Ht; inversion Ht; subst; simpl; tauto|]). destruct E.
Qed.

Lemma engine_event_shape : forall n e, engine_event n = Some e -> exists name st, e = EvEngine name st.
Proof.
  intros n e H. unfold engine_event in H. destruct (aget String.eqb n ENGINE_EVENT_MAP) as [[nm st]|]; [|discriminate].
  inversion H. eauto.
Qed.

(* every status but timeout, abandoned and the unset one gives a task event the workflow machine knows *)
Lemma F_task_event_vocab2 : forall st b1 b2 b3 b4 b5, ~ In st [S_EXPIRED; S_ABANDONED; S_UNSET] ->
  string_in (task_event_name_of st b1 b2 b3 b4 b5) TASK_EXECUTION_EVENTS = true.
Proof.
  intros st b1 b2 b3 b4 b5 H.
  destruct st; try (exfalso; apply H; simpl; tauto); destruct b1, b2, b3, b4, b5; vm_compute; reflexivity.
Qed.
Lemma wf_task_event_done2 : forall t route st c, done c -> ~ In st [S_EXPIRED; S_ABANDONED; S_UNSET] ->
  wf_task_event_M t route st c = (c, Val []).
Proof.
  intros t route st c Hd Hst. unfold wf_task_event_M, wf_process_task_event.
  assert (Hv : string_in (wf_task_event_name (c_graph c) (c_ws c) t route st) TASK_EXECUTION_EVENTS = true)
    by (unfold wf_task_event_name; apply F_task_event_vocab2; exact Hst).
  rewrite Hv. cbn [negb]. destruct (F_done_task_event _ _ Hd Hv) as [row [Hrow Hag]]. rewrite Hrow, Hag.
  rewrite set_status_same. reflexivity.
Qed.

Section WithEval.
Variable ev : string -> dict -> evalres.
Hypothesis Hev : eval_no_internal ev.

(* the command's call, forwards: a new record is appended for it, takes the command's status, and nothing else
   happens -- the workflow, being done, does not move (also `fail` on a succeeded workflow leaves it succeeded) *)
Lemma cmd_call_done : forall fuel n rt e sf c,
  WF c -> static_ok (c_spec c) (c_graph c) -> done c ->
  is_engine_command n = true -> engine_event n = Some e -> cmd_startable n -> g_has_task (c_graph c) n = true ->
  get_staged_task (c_ws c) n rt = Some sf -> ws_task_idx (c_ws c) n rt = None ->
  exists c', update_task_state_fuel ev (S fuel) n rt e c = (c', Val tt) /\
    wstatus (c_ws c') = wstatus (c_ws c) /\
    (forall j, j < length (sequence (c_ws c)) -> nth_error (sequence (c_ws c')) j = nth_error (sequence (c_ws c)) j) /\
    (forall k, k <> (n, rt) -> aget tkey_eqb k (tasks (c_ws c')) = aget tkey_eqb k (tasks (c_ws c))) /\
    (exists rn s, nth_error (sequence (c_ws c')) (length (sequence (c_ws c))) = Some rn /\ r_id rn = n /\ r_route rn = rt /\
                  r_status rn = Some s /\ In s [S_SUCCEEDED; S_FAILED]).
Proof.
  intros fuel n rt e sf c Wc Hso Hd Hcmd He Hstart Hg Hsf Hno.
  destruct (engine_event_shape n e He) as [name [st ->]].
  destruct Hstart as [name' [st' [s [He' Hfresh]]]]. rewrite He in He'. inversion He'; subst name' st'. clear He'.
  pose proof (F_cmd_start n name st s He Hfresh) as Hs.
  assert (Hsc : status_in s COMPLETED_STATUSES = true /\ status_eqb s S_RETRYING = false /\ status_eqb s S_UNSET = false /\
                In s [S_SUCCEEDED; S_FAILED; S_CANCELED; S_RUNNING; S_PAUSING; S_CANCELING])
    by (destruct Hs as [<-|[<-|[]]]; repeat split; try reflexivity; simpl; tauto).
  destruct Hsc as [Hsc [Hsr [Hsu Hsg]]].
  destruct (so_inert _ _ Hso n Hcmd) as [Htr Hnr].
  destruct (get_staged_matches _ _ _ _ Hsf) as [Hid Hrt].
  assert (Hin : In sf (staged (c_ws c))) by (unfold get_staged_task in Hsf; apply find_some in Hsf; tauto).
  destruct (wf_stg _ Wc sf Hin) as [Hroute Hctx].
  assert (Hne : s_in sf <> []) by (destruct Hctx as [H0 _]; destruct (s_in sf); [destruct H0|discriminate]).
  set (ins := s_in sf).
  set (r0 := {| r_id := n; r_route := rt; r_in := ins; r_out := None; r_prev := s_prev sf; r_next := []; r_status := None;
                r_term := false; r_retry := None |}).
  set (idx := length (sequence (c_ws c))).
  set (cA := set_ws c (ws_set_tasks (ws_set_sequence (c_ws c) (app (sequence (c_ws c)) [r0]))
                                     (aset tkey_eqb (n, rt) idx (tasks (c_ws c))))).
  rewrite uts_unfold, body_eq.
  (* ---- the prefix ---- *)
  assert (Ea : add_task_state ev n (s_route sf) (s_in sf) (s_prev sf) c = (cA, Val idx)).
  { unfold add_task_state. rewrite (bind_step _ _ _ _ _ _ _ (eq_refl : get c = (c, Val c))). rewrite Hg. cbn [negb]. cbv zeta.
    rewrite Hnr. rewrite (bind_step _ _ _ _ _ _ _ (eq_refl : ret None c = (c, Val None))).
    rewrite (bind_step _ _ _ _ _ _ _ (eq_refl : getws c = (c, Val (c_ws c)))).
    unfold bind, modws, ret. unfold cA, r0, ins, idx. rewrite Hrt. destruct (s_in sf) as [|i0 l0]; [contradiction|]. reflexivity. }
  assert (HrA : nth_error (sequence (c_ws cA)) idx = Some r0).
  { unfold cA. cbn [c_ws set_ws sequence ws_set_tasks ws_set_sequence]. unfold idx. rewrite nth_error_app2 by lia.
    rewrite Nat.sub_diag. reflexivity. }
  (* unstage *)
  set (cU := match s_items sf with None => set_ws cA (ws_remove_staged_task (c_ws cA) n rt) | Some _ => cA end).
  assert (E3 : uts_unstage n rt (EvEngine name st) (Some sf) cA = (cU, Val tt)) by (unfold uts_unstage, cU; destruct (s_items sf); reflexivity).
  assert (SU : sequence (c_ws cU) = sequence (c_ws cA) /\ tasks (c_ws cU) = tasks (c_ws cA) /\ contexts (c_ws cU) = contexts (c_ws cA)
               /\ wstatus (c_ws cU) = wstatus (c_ws cA) /\ c_graph cU = c_graph cA).
  { unfold cU. destruct (s_items sf); [repeat split|]. cbn [c_ws set_ws c_graph].
    rewrite seq_remove_staged, tasks_remove_staged, contexts_remove_staged, ws_remove_staged_status. repeat split. }
  destruct SU as [SU [TU [CU [StU GU]]]].
  assert (E5 : exists cL, uts_logfail n (EvEngine name st) cU = (cL, Val tt) /\ c_ws cL = c_ws cU /\ c_graph cL = c_graph cU).
  { unfold uts_logfail. destruct (status_eqb (ev_status (EvEngine name st)) S_FAILED); [|exists cU; repeat split].
    unfold log_entry_error, modify. cbv zeta. eexists. split; [reflexivity|]. destruct (existsb _ _); repeat split. }
  destruct E5 as [cL [E5 [WL GL]]].
  assert (HrL : nth_error (sequence (c_ws cL)) idx = Some r0) by (rewrite WL, SU; exact HrA).
  (* the machine *)
  assert (Ht : task_process_event (c_ws cL) r0 (EvEngine name st) = Val (Some s)).
  { rewrite <- Hfresh. apply tpe_congr; [reflexivity|exact I]. }
  set (r' := r_set_status r0 (Some s)).
  set (c6 := set_ws cL (ws_update_rec (c_ws cL) idx (fun x => r_set_status x (Some s)))).
  assert (Hr6 : nth_error (sequence (c_ws c6)) idx = Some r')
    by (exact (nth_update_rec_same (c_ws cL) idx (fun x => r_set_status x (Some s)) r0 HrL)).
  set (c7 := set_ws c6 (ws_remove_staged_task (c_ws c6) n rt)).
  assert (Hr7 : nth_error (sequence (c_ws c7)) idx = Some r') by (unfold c7; cbn [c_ws set_ws]; rewrite seq_remove_staged; exact Hr6).
  assert (C7 : contexts (c_ws c7) = contexts (c_ws c)).
  { unfold c7, c6. cbn [c_ws set_ws]. rewrite contexts_remove_staged, contexts_update_rec, WL, CU. reflexivity. }
  assert (S7 : wstatus (c_ws c7) = wstatus (c_ws c)).
  { unfold c7, c6. cbn [c_ws set_ws]. rewrite ws_remove_staged_status, ws_update_rec_status, WL, StU. reflexivity. }
  assert (G7 : c_graph c7 = c_graph c) by (unfold c7, c6; cbn [c_graph set_ws]; rewrite GL, GU; reflexivity).
  destruct (get_task_context_ok (r_in r') c7) as [d Ed].
  { eapply ctx_ok_mono; [|exact Hctx]. rewrite C7. lia. }
  assert (Ec : exists ctx, uts_completion ev n rt (EvEngine name st) empty_task_spec idx s S_UNSET c6 = (c7, Val (Some (ctx, false)))).
  { unfold uts_completion. rewrite Hsc. change (task_has_items empty_task_spec) with false. cbn [andb negb]. cbv iota.
    rewrite (bind_step _ _ _ _ _ _ _ (eq_refl : modws (fun w => ws_remove_staged_task w n rt) c6 = (c7, Val tt))). cbv zeta.
    assert (Eg7 : get_rec idx c7 = (c7, Val r')) by (unfold get_rec, bind, getws; rewrite Hr7; reflexivity).
    rewrite (bind_step _ _ _ _ _ _ _ Eg7). rewrite (bind_step _ _ _ _ _ _ _ Ed).
    rewrite (bind_step _ _ _ _ _ _ _ (eq_refl : getws c7 = (c7, Val (c_ws c7)))).
    rewrite S7, (F_done_not_active _ Hd). rewrite andb_false_r. cbn [andb].
    eexists. unfold try_catch, bind, ret. reflexivity. }
  destruct Ec as [ctx Ec].
  assert (Ep : uts_prefix ev n rt (EvEngine name st) c =
               (c7, Val {| po_ts := empty_task_spec; po_idx := idx; po_old := S_UNSET; po_new := s; po_compl := Some (ctx, false) |})).
  { unfold uts_prefix. rewrite (bind_step _ _ _ _ _ _ _ (ensure_ws_inited ev c (wf_init _ Wc))).
    rewrite (bind_step _ _ _ _ _ _ _ (eq_refl : get c = (c, Val c))). rewrite Hg. cbn [negb]. cbv zeta.
    rewrite (cmd_reserved (c_spec c) n Hcmd).
    rewrite (bind_step _ _ _ _ _ _ _ (eq_refl : ret empty_task_spec c = (c, Val empty_task_spec))). rewrite Hsf, Hno.
    unfold pre_main.
    assert (E1 : uts_sel1 ev n (Some sf) None c = (cA, Val idx)).
    { unfold uts_sel1, uts_need_staged. rewrite (bind_step _ _ _ _ _ _ _ (eq_refl : ret sf c = (c, Val sf))). exact Ea. }
    rewrite (bind_step _ _ _ _ _ _ _ E1).
    assert (Eg : get_rec idx cA = (cA, Val r0)) by (unfold get_rec, bind, getws; rewrite HrA; reflexivity).
    rewrite (bind_step _ _ _ _ _ _ _ Eg).
    assert (E2 : uts_sel2 ev n (EvEngine name st) (Some sf) r0 idx cA = (cA, Val idx)) by reflexivity.
    rewrite (bind_step _ _ _ _ _ _ _ E2). rewrite (bind_step _ _ _ _ _ _ _ E3).
    rewrite (bind_step _ _ _ _ _ _ _ (eq_refl : uts_item n rt (EvEngine name st) (Some sf) cU = (cU, Val tt))).
    rewrite (bind_step _ _ _ _ _ _ _ E5).
    unfold pre_machine.
    assert (EgL : get_rec idx cL = (cL, Val r0)) by (unfold get_rec, bind, getws; rewrite HrL; reflexivity).
    rewrite (bind_step _ _ _ _ _ _ _ EgL). rewrite (bind_step _ _ _ _ _ _ _ (eq_refl : getws cL = (cL, Val (c_ws cL)))).
    rewrite Ht. rewrite (bind_step _ _ _ _ _ _ _ (eq_refl : lift_res (Val (Some s)) cL = (cL, Val (Some s)))).
    rewrite (bind_step _ _ _ _ _ _ _ (eq_refl : uts_setst idx (Some s) cL = (c6, Val tt))).
    assert (Eg6 : get_rec idx c6 = (c6, Val r')) by (unfold get_rec, bind, getws; rewrite Hr6; reflexivity).
    rewrite (bind_step _ _ _ _ _ _ _ Eg6).
    assert (Hst' : rstatus r' = s) by reflexivity. rewrite Hst'.
    assert (E7 : uts_retrying n rt idx r' s c6 = (c6, Val tt)) by (unfold uts_retrying; rewrite Hsr; reflexivity).
    rewrite (bind_step _ _ _ _ _ _ _ E7).
    assert (Hold : rstatus r0 = S_UNSET) by reflexivity. rewrite Hold.
    rewrite (bind_step _ _ _ _ _ _ _ Ec). reflexivity. }
  rewrite (bind_step _ _ _ _ _ _ _ Ep). unfold tail_of. cbn [po_ts po_idx po_old po_new po_compl]. unfold uts_tail.
  (* ---- the tail: no transition, the workflow machine does not move ---- *)
  set (c8 := set_ws c7 (ws_update_rec (c_ws c7) idx (fun x => r_set_term x true))).
  assert (Hr8 : nth_error (sequence (c_ws c8)) idx = Some (r_set_term r' true))
    by (exact (nth_update_rec_same (c_ws c7) idx (fun x => r_set_term x true) r' Hr7)).
  assert (Eq : uts_queue ev n rt idx empty_task_spec S_UNSET s (Some (ctx, false)) c7 = (c8, Val [])).
  { unfold uts_queue. rewrite Hsu. cbn [negb]. rewrite (bind_step _ _ _ _ _ _ _ (eq_refl : get c7 = (c7, Val c7))). cbv zeta.
    rewrite G7, Htr.
    rewrite (bind_step _ _ _ _ _ _ _ (eq_refl : upd_rec idx (fun x => r_set_term x true) c7 = (c8, Val tt))).
    cbn [mapM]. rewrite (bind_step _ _ _ _ _ _ _ (eq_refl : ret [] c8 = (c8, Val []))). cbn [flat_map existsb].
    rewrite (bind_step _ _ _ _ _ _ _ (eq_refl : ret tt c8 = (c8, Val tt))).
    assert (Eg8 : get_rec idx c8 = (c8, Val (r_set_term r' true))) by (unfold get_rec, bind, getws; rewrite Hr8; reflexivity).
    rewrite (bind_step _ _ _ _ _ _ _ Eg8). unfold bind, ret. reflexivity. }
  rewrite (bind_step _ _ _ _ _ _ _ Eq).
  assert (Eg8 : get_rec idx c8 = (c8, Val (r_set_term r' true))) by (unfold get_rec, bind, getws; rewrite Hr8; reflexivity).
  rewrite (bind_step _ _ _ _ _ _ _ Eg8).
  assert (Hst8 : r_status (r_set_term r' true) = Some s) by reflexivity. rewrite Hst8.
  rewrite (bind_step _ _ _ _ _ _ _ (eq_refl : ret s c8 = (c8, Val s))).
  assert (S8 : wstatus (c_ws c8) = wstatus (c_ws c)) by (unfold c8; cbn [c_ws set_ws]; rewrite ws_update_rec_status; exact S7).
  assert (D8 : done c8) by (unfold done; rewrite S8; exact Hd).
  rewrite (bind_step _ _ _ _ _ _ _ (wf_task_event_done n rt s c8 D8 Hsg)).
  unfold log_unreachable. cbn [forM_].
  rewrite (bind_step _ _ _ _ _ _ _ (eq_refl : ret tt c8 = (c8, Val tt))).
  rewrite (bind_step _ _ _ _ _ _ _ (eq_refl : ret tt c8 = (c8, Val tt))).
  rewrite (bind_step _ _ _ _ _ _ _ (eq_refl : getws c8 = (c8, Val (c_ws c8)))).
  rewrite (F_done_completed _ D8).
  eexists. split; [unfold upd_rec, modws; reflexivity|].
  cbn [c_ws set_ws]. rewrite ws_update_rec_status.
  split; [exact S8|].
  assert (Seq : forall j, j <> idx -> nth_error (sequence (ws_update_rec (c_ws c8) idx (fun x => r_set_term x true))) j
                                       = nth_error (sequence (c_ws cA)) j).
  { intros j Hj. rewrite nth_update_rec_other by (intro E; apply Hj; symmetry; exact E).
    unfold c8. cbn [c_ws set_ws]. rewrite nth_update_rec_other by (intro E; apply Hj; symmetry; exact E).
    unfold c7. cbn [c_ws set_ws]. rewrite seq_remove_staged. unfold c6. cbn [c_ws set_ws].
    rewrite nth_update_rec_other by (intro E; apply Hj; symmetry; exact E). rewrite WL, SU. reflexivity. }
  split.
  { intros j Hj. rewrite Seq by (unfold idx; lia). unfold cA. cbn [c_ws set_ws sequence ws_set_tasks ws_set_sequence].
    apply nth_error_app1; exact Hj. }
  split.
  { intros k Hk. rewrite tasks_update_rec. unfold c8. cbn [c_ws set_ws]. rewrite tasks_update_rec.
    unfold c7. cbn [c_ws set_ws]. rewrite tasks_remove_staged. unfold c6. cbn [c_ws set_ws]. rewrite tasks_update_rec, WL, TU.
    unfold cA. cbn [c_ws set_ws tasks ws_set_tasks]. rewrite aget_aset_t.
    destruct (tkey_eqb k (n, rt)) eqn:E; [apply tkey_eqb_eq in E; contradiction|reflexivity]. }
  exists (r_set_term (r_set_term r' true) true), s.
  split; [exact (nth_update_rec_same (c_ws c8) idx (fun x => r_set_term x true) _ Hr8)|]. repeat split; [exact Hs].
Qed.

(* the queued commands, delivered one after the other *)
Definition cmd_ready (c : cstate) (p : string * nat) : Prop :=
  queued_ok c p /\ g_has_task (c_graph c) (fst p) = true /\ ws_task_idx (c_ws c) (fst p) (snd p) = None.

Lemma cmd_loop_done : forall fuel q c,
  WF c -> static_ok (c_spec c) (c_graph c) -> done c -> NoDup q -> Forall (cmd_ready c) q ->
  exists c', forM_ q (uts_call (update_task_state_fuel ev (S fuel))) c = (c', Val tt) /\
    WF c' /\ wstatus (c_ws c') = wstatus (c_ws c) /\
    length (sequence (c_ws c)) <= length (sequence (c_ws c')) /\
    (forall j, j < length (sequence (c_ws c)) -> nth_error (sequence (c_ws c')) j = nth_error (sequence (c_ws c)) j).
Proof.
  intros fuel q; induction q as [|[n rt] q IH]; intros c Wc Hso Hd Hnd Hq.
  - exists c. split; [reflexivity|]. split; [exact Wc|]. split; [reflexivity|]. split; [lia|auto].
  - inversion Hq as [|x l [[Hcmd [Hpres Hstart]] [Hg Hno]] Hq']; subst. simpl in Hcmd, Hpres, Hstart, Hg, Hno.
    apply NoDup_cons_iff in Hnd. destruct Hnd as [Hn1 Hn2].
    destruct (cmd_engine_event n Hcmd) as [e Ee].
    unfold present in Hpres. destruct (get_staged_task (c_ws c) n rt) as [sf|] eqn:Esf; [|contradiction].
    destruct (cmd_call_done fuel n rt e sf c Wc Hso Hd Hcmd Ee Hstart Hg Esf Hno) as [c1 [E1 [S1 [F1 [T1 [rn [s1 [Hrn _]]]]]]]].
    destruct (uts_fuel_callW ev Hev (S fuel) n rt e c c1 (Val tt) Wc Hso) as [W1 [_ [G1 [Sp1 Q1]]]]; [|exact E1|].
    { right. split; [exact Hcmd|]. split; [unfold present; rewrite Esf; discriminate|]. split; [exact Ee|exact Hstart]. }
    destruct (Q1 Hcmd) as [P1 _].
    assert (L1 : length (sequence (c_ws c)) < length (sequence (c_ws c1))) by (apply nth_error_Some; rewrite Hrn; discriminate).
    destruct (IH c1 W1) as [c' [E' [W' [S' [L' F']]]]].
    + rewrite G1, Sp1; exact Hso.
    + unfold done; rewrite S1; exact Hd.
    + exact Hn2.
    + rewrite Forall_forall in Hq' |- *. intros [n' rt'] Hin. destruct (Hq' _ Hin) as [[A [B C]] [D E]]. simpl in *.
      assert (Hne : (n', rt') <> (n, rt)) by (intro X; inversion X; subst; apply Hn1; exact Hin).
      split; [split; [exact A|split; [apply P1; [exact Hne|exact B]|exact C]]|]. simpl.
      split; [rewrite G1; exact D|]. unfold ws_task_idx in *. rewrite (T1 _ Hne). exact E.
    + exists c'. split.
      { cbn [forM_]. unfold uts_call at 1. rewrite Ee. rewrite (bind_step _ _ _ _ _ _ _ E1). exact E'. }
      split; [exact W'|]. split; [congruence|]. split; [lia|].
      intros j Hj. rewrite F' by lia. apply F1; exact Hj.
Qed.

(* where the queued commands sit: on the task's route by an edge that keeps it, or on a route opened since *)
Lemma queue_kinds : forall t route idx ts o n compl c c' q,
  uts_queue ev t route idx ts o n compl c = (c', Val q) ->
  WF c -> static_ok (c_spec c) (c_graph c) -> spec_get_task (c_spec c) t = Some ts ->
  route < length (routes (c_ws c)) -> idx < length (sequence (c_ws c)) ->
  forall p, In p q ->
    exists e, In e (g_next_transitions (c_graph c) t) /\ e_dst e = fst p /\
              ((snd p = route /\ stays c route e = true) \/ length (routes (c_ws c)) <= snd p).
Proof.
  intros t route idx ts o n compl c c' q H Wc Hso Hts Hroute Hidx p Hp. unfold uts_queue in H.
  destruct compl as [[ctx b]|]; [|inversion H; subst; destruct Hp].
  destruct (negb (status_eqb n o)); [|inversion H; subst; destruct Hp].
  apply bind_val_inv' in H. destruct H as [c0 [cst [E0 H]]]. inversion E0; subst c0 cst; clear E0. cbv zeta in H.
  apply bind_val_inv' in H. destruct H as [c1 [u1 [E1 H]]].
  apply bind_val_inv' in H. destruct H as [c2 [rs [E2 H]]].
  apply bind_val_inv' in H. destruct H as [c3 [u3 [_ H]]].
  apply bind_val_inv' in H. destruct H as [c4 [r4 [_ H]]].
  apply bind_val_inv' in H. destruct H as [c5 [u5 [_ H]]]. inversion H; subst c' q; clear H.
  assert (K1 : NoInternalProofs.Rw c c1 /\ c_graph c1 = c_graph c /\ c_spec c1 = c_spec c).
  { clear -E1. destruct (g_next_transitions (c_graph c) t).
    - unfold upd_rec, modws in E1. inversion E1; subst.
      split; [apply (NoInternalProofs.Rw_update_rec c idx (fun r => r_set_term r true)); intro; repeat split; auto|split; reflexivity].
    - inversion E1; subst. split; [apply NoInternalProofs.Rw_refl|split; reflexivity]. }
  destruct K1 as [Q1 [G1 S1]]. pose proof (WF_Rw _ _ Q1 Wc) as W1.
  destruct Q1 as [_ [_ [_ [O1 [_ [L1 _]]]]]].
  destruct (mapM_pt_wf ev Hev _ _ _ _ _ _ _ _ _ E2 W1) as [_ [_ [_ P2]]].
  { rewrite G1, S1; exact Hso. } { intros e He; rewrite G1; exact He. } { rewrite S1; exact Hts. } { rewrite O1; exact Hroute. }
  { rewrite L1; exact Hidx. }
  destruct (P2 rs eq_refl) as [F2 _]. fold (cmds_of rs) in Hp. rewrite Forall_forall in F2.
  destruct (F2 p Hp) as [_ [_ [e [He [Hde K]]]]]. exists e. split; [exact He|]. split; [exact Hde|].
  destruct K as [[K1 K2]|K]; [left; split; [exact K1|]|right; rewrite <- O1; exact K].
  unfold stays in *. rewrite G1, S1, O1 in K2. exact K2.
Qed.

Hypothesis Hexpr : ev_expr ev.

(* the edges of a task to engine commands lead to nodes of the graph (true of every composed graph) *)
Definition cmd_targets_known (c : cstate) (t : string) : Prop :=
  forall e, In e (g_next_transitions (c_graph c) t) -> is_engine_command (e_dst e) = true -> g_has_task (c_graph c) (e_dst e) = true.
(* the commands reached on the task's own route have no record yet (first visit) *)
Definition cmds_unvisited (c : cstate) (t : string) (route : nat) : Prop :=
  forall e, In e (cmd_edges_on_route c t route) -> ws_task_idx (c_ws c) (e_dst e) route = None.

(* after the completion step, in general: the transitions, the workflow machine, the queued commands, the flag *)
Lemma late_tail2 : forall fuel t route ts idx old new compl c c' res,
  uts_tail ev (update_task_state_fuel ev (S fuel)) t route ts idx old new compl c = (c', res) ->
  (compl = None \/ exists ctx, compl = Some (ctx, false) /\ status_in new COMPLETED_STATUSES = true) ->
  WF c -> static_ok (c_spec c) (c_graph c) -> done c -> spec_get_task (c_spec c) t = Some ts ->
  ws_task_idx (c_ws c) t route = Some idx ->
  (exists r, nth_error (sequence (c_ws c)) idx = Some r /\ r_status r = Some new) ->
  ~ In new [S_EXPIRED; S_ABANDONED; S_UNSET] ->
  cmd_targets_known c t -> cmd_routes_distinct c t route -> cmds_unvisited c t route ->
  (res = Val tt \/ (wstatus (c_ws c') = S_CANCELED /\ res = Exc fail_refused)) /\
  done c' /\ WF c' /\ (exists r', nth_error (sequence (c_ws c')) idx = Some r' /\ r_status r' = Some new).
Proof.
  intros fuel t route ts idx old new compl c c' res H Hcompl Wc Hso Hd Hts Hp [r [Hr Hs]] Hvoc Hknown Hdist Hunv.
  destruct (wf_ptr _ Wc _ _ Hp) as [Hidx Hroute]. simpl in Hroute.
  (* the part after the queue, from a state with everything ready *)
  assert (Rest : forall q c2 r2,
            WF c2 -> static_ok (c_spec c2) (c_graph c2) -> done c2 -> NoDup q -> Forall (cmd_ready c2) q ->
            nth_error (sequence (c_ws c2)) idx = Some r2 -> r_status r2 = Some new ->
            (r <- get_rec idx ;;
             st <- (match r_status r with Some s => ret s | None => raise (exn_key "status") end) ;;
             unreachable <- wf_task_event_M t route st ;;
             log_unreachable unreachable ;;;
             forM_ q (uts_call (update_task_state_fuel ev (S fuel))) ;;;
             w <- getws ;;
             if status_in (wstatus w) COMPLETED_STATUSES then upd_rec idx (fun r => r_set_term r true) else ret tt) c2 = (c', res) ->
            res = Val tt /\ done c' /\ WF c' /\ (exists r', nth_error (sequence (c_ws c')) idx = Some r' /\ r_status r' = Some new)).
  { intros q c2 r2 W2 So2 D2 Hnd Hq Hr2 Hs2 H0.
    assert (Eg : get_rec idx c2 = (c2, Val r2)) by (unfold get_rec, bind, getws; rewrite Hr2; reflexivity).
    rewrite (bind_step _ _ _ _ _ _ _ Eg) in H0. rewrite Hs2 in H0.
    rewrite (bind_step _ _ _ _ _ _ _ (eq_refl : ret new c2 = (c2, Val new))) in H0.
    rewrite (bind_step _ _ _ _ _ _ _ (wf_task_event_done2 t route new c2 D2 Hvoc)) in H0.
    unfold log_unreachable in H0. cbn [forM_] in H0.
    rewrite (bind_step _ _ _ _ _ _ _ (eq_refl : ret tt c2 = (c2, Val tt))) in H0.
    destruct (cmd_loop_done fuel q c2 W2 So2 D2 Hnd Hq) as [c5 [E5 [W5 [S5 [L5 F5]]]]].
    rewrite (bind_step _ _ _ _ _ _ _ E5) in H0.
    rewrite (bind_step _ _ _ _ _ _ _ (eq_refl : getws c5 = (c5, Val (c_ws c5)))) in H0.
    assert (D5 : done c5) by (unfold done; rewrite S5; exact D2).
    rewrite (F_done_completed _ D5) in H0. unfold upd_rec, modws in H0. inversion H0; subst c' res; clear H0.
    assert (Hi2 : idx < length (sequence (c_ws c2))) by (apply nth_error_Some; rewrite Hr2; discriminate).
    assert (Hr5 : nth_error (sequence (c_ws c5)) idx = Some r2) by (rewrite F5 by exact Hi2; exact Hr2).
    split; [reflexivity|]. split; [unfold done; cbn [c_ws set_ws]; rewrite ws_update_rec_status; exact D5|].
    split; [eapply WF_Rw; [|exact W5]; apply NoInternalProofs.Rw_update_rec; intro; repeat split; auto|].
    exact (Rcs_update idx new c5 idx (fun r0 => r_set_term r0 true) (fun _ => eq_refl) r2 Hr5 Hs2). }
  unfold uts_tail in H.
  destruct Hcompl as [->|[ctx [-> Hnc]]].
  - (* nothing completed: no transition is looked at *)
    rewrite (bind_step _ _ _ _ _ _ _ (eq_refl : uts_queue ev t route idx ts old new None c = (c, Val []))) in H.
    destruct (Rest [] c r Wc Hso Hd (NoDup_nil _) (Forall_nil _) Hr Hs H) as [A B]. split; [left; exact A|exact B].
  - apply bind_inv in H. destruct H as [[c2 [q [E1 H]]]|[x [E1 ->]]].
    2: { destruct (queue_wf ev Hev _ _ _ _ _ _ _ _ _ _ E1 Wc Hso Hts Hroute Hidx Hdist) as [Wx [_ [N1 _]]].
         destruct (hx_queue ev Hexpr _ _ _ _ _ _ _ c c' (Exc x) Hd E1) as [D1 Q1].
         split; [|split; [exact D1|split; [exact Wx|exact (pcs_queue ev idx new Hnc _ _ _ _ _ _ _ _ _ _ E1 r Hr Hs)]]].
         right. destruct (Q1 x eq_refl) as [X|[X1 X2]]; [exfalso; exact (N1 x eq_refl X)|]. subst x. split; [exact X1|reflexivity]. }
    destruct (queue_wf ev Hev _ _ _ _ _ _ _ _ _ _ E1 Wc Hso Hts Hroute Hidx Hdist) as [W2 [G2 [_ Q2]]].
    destruct (Q2 q eq_refl) as [Qok Qnd].
    destruct (hx_queue ev Hexpr _ _ _ _ _ _ _ c c2 (Val q) Hd E1) as [D2 _].
    destruct (pcs_queue ev idx new Hnc _ _ _ _ _ _ _ _ _ _ E1 r Hr Hs) as [r2 [Hr2 Hs2]].
    pose proof (vfr_queue ev _ _ _ _ _ _ _ _ _ _ E1) as [F1 [_ [_ [F4 [F5 _]]]]].
    assert (Hq : Forall (cmd_ready c2) q).
    { rewrite Forall_forall in Qok |- *. intros p Hin. split; [apply Qok; exact Hin|].
      destruct (queue_from_edges ev _ _ _ _ _ _ _ _ _ _ E1 p Hin) as [e [He [Hde Hc]]].
      split; [rewrite F4, <- Hde; apply Hknown; [exact He|rewrite Hde; exact Hc]|].
      unfold ws_task_idx. rewrite F1.
      destruct (queue_kinds _ _ _ _ _ _ _ _ _ _ E1 Wc Hso Hts Hroute Hidx p Hin) as [e' [He' [Hde' [[K1 K2]|K]]]].
      + rewrite K1, <- Hde'. apply Hunv. unfold cmd_edges_on_route. apply filter_In. split; [exact He'|].
        rewrite Hde', Hc, K2. reflexivity.
      + destruct (aget tkey_eqb (fst p, snd p) (tasks (c_ws c))) as [i|] eqn:E; [|reflexivity].
        destruct (wf_ptr _ Wc _ _ E) as [_ Hlt]. simpl in Hlt. lia. }
    destruct (Rest q c2 r2 W2) as [A B]; try assumption.
    + rewrite F4, F5; exact Hso.
    + split; [left; exact A|exact B].
Qed.

Lemma kept_cmd_edges : forall c c1 t route, kept c c1 -> cmd_edges_on_route c1 t route = cmd_edges_on_route c t route.
Proof.
  intros c c1 t route [_ [_ [K3 [_ [K5 [K6 _]]]]]]. unfold cmd_edges_on_route, stays. rewrite K3, K5, K6. reflexivity.
Qed.

(* C04d (1): the late completion report of a plain task, engine commands among its transitions' targets *)
Theorem late_report_absorbed_cmds : forall t route st res ts idx r s c c' r',
  WF c -> static_ok (c_spec c) (c_graph c) -> done c ->
  is_engine_command t = false -> g_has_task (c_graph c) t = true ->
  spec_get_task (c_spec c) t = Some ts -> task_has_items ts = false ->
  cmd_targets_known c t -> cmd_routes_distinct c t route -> cmds_unvisited c t route ->
  ws_task_idx (c_ws c) t route = Some idx -> nth_error (sequence (c_ws c)) idx = Some r ->
  r_status r = Some s -> In s [S_RUNNING; S_PAUSING; S_CANCELING] -> status_in st COMPLETED_STATUSES = true ->
  update_task_state ev t route (EvAction st res) c = (c', r') ->
  (r' = Val tt \/ (wstatus (c_ws c') = S_CANCELED /\ r' = Exc fail_refused)) /\
  WF c' /\
  (wstatus (c_ws c') = wstatus (c_ws c) \/ (wstatus (c_ws c) = S_SUCCEEDED /\ wstatus (c_ws c') = S_FAILED)) /\
  (exists r1, nth_error (sequence (c_ws c')) idx = Some r1 /\ r_status r1 = Some (reported st)).
Proof.
  intros t route st res ts idx r s c c' r' Wc Hso Hd Hcmd Hg Hts Hit Hknown Hdist Hunv Hp Hr Hs Hin Hst H.
  pose proof (pres_update_task_state ev _ _ _ _ _ _ H) as Hreach.
  unfold update_task_state in H. rewrite uts_unfold, body_eq in H.
  destruct (late_prefix ev t route st res ts idx r s c Wc (or_introl Hd) Hcmd Hg Hts Hit Hp Hr Hs Hin Hst) as [c1 [ctx [E1 [K [Hr1 W1]]]]].
  rewrite (bind_step _ _ _ _ _ _ _ E1) in H. unfold tail_of in H. cbn [po_ts po_idx po_old po_new po_compl] in H.
  pose proof (kept_cmd_edges c c1 t route K) as Ke.
  destruct K as [K1 [K2 [K3 [K4 [K5 [K6 [K7 K8]]]]]]].
  destruct (F_reported_completed st) as [Hrc [Hgood _]].
  destruct (late_tail2 1 _ _ _ _ _ _ _ _ _ _ H) as [A [B [C D]]].
  - right. exists ctx. split; [reflexivity|exact Hrc].
  - exact W1.
  - rewrite K5, K6; exact Hso.
  - unfold done; rewrite K4; exact Hd.
  - rewrite K6; exact Hts.
  - unfold ws_task_idx in *; rewrite K1; exact Hp.
  - eexists; split; [exact Hr1|reflexivity].
  - intros [E|[E|[E|[]]]]; unfold reported in E;
      destruct (status_eqb st S_SUCCEEDED); try discriminate; destruct (status_eqb st S_CANCELED); discriminate.
  - unfold cmd_targets_known. rewrite K5. exact Hknown.
  - unfold cmd_routes_distinct. rewrite Ke. exact Hdist.
  - unfold cmds_unvisited, ws_task_idx. rewrite Ke, K1. exact Hunv.
  - split; [exact A|]. split; [exact C|]. split; [|exact D]. apply reach_done_exact; [exact Hd|exact Hreach].
Qed.

(* ------------------------------------------------------------------ with-items tasks: an item's completion report *)

(* the items table with the reported item's status written in *)
Definition item_upd (i : nat) (st : status) (e : stg) : stg :=
  s_set_items e (match s_items e with Some l => Some (list_set_nth i st l) | None => None end).
Definition items_written (w : wstate) (t : string) (route : nat) (i : nat) (st : status) : wstate :=
  ws_set_staged w (staged_update (item_upd i st) t route (staged w)).

Lemma late_item_pre_main : forall t route i st res acc ts sI its idx r s ns c,
  WF c -> done c -> is_engine_command t = false -> task_has_items ts = true ->
  get_staged_task (c_ws c) t route = Some sI -> s_items sI = Some its -> i < length its ->
  nth_error (sequence (c_ws c)) idx = Some r -> r_status r = Some s -> status_in s COMPLETED_STATUSES = false ->
  task_process_event (items_written (c_ws c) t route i st) r (EvItem i st res acc) = Val ns ->
  rstatus (stepped r ns) <> S_RETRYING ->
  exists c1 compl,
    pre_main ev t route (EvItem i st res acc) ts (Some sI) (Some idx) c =
      (c1, Val {| po_ts := ts; po_idx := idx; po_old := s; po_new := rstatus (stepped r ns); po_compl := compl |}) /\
    ((compl = None /\ status_in (rstatus (stepped r ns)) COMPLETED_STATUSES = false /\
      staged (c_ws c1) = staged (items_written (c_ws c) t route i st)) \/
     (exists ctx, compl = Some (ctx, false) /\ status_in (rstatus (stepped r ns)) COMPLETED_STATUSES = true)) /\
    kept c c1 /\ nth_error (sequence (c_ws c1)) idx = Some (stepped r ns) /\ WF c1.
Proof.
  intros t route i st res acc ts sI its idx r s ns c Wc Hd Hcmd Hit HsI Hits Hi Hr Hs Hnc Hm Hnr.
  set (evt := EvItem i st res acc). set (new := rstatus (stepped r ns)) in *.
  unfold pre_main.
  assert (E1 : uts_sel1 ev t (Some sI) (Some idx) c = (c, Val idx)) by (unfold uts_sel1; rewrite Hcmd; reflexivity).
  rewrite (bind_step _ _ _ _ _ _ _ E1).
  assert (Eg : get_rec idx c = (c, Val r)) by (unfold get_rec, bind, getws; rewrite Hr; reflexivity).
  rewrite (bind_step _ _ _ _ _ _ _ Eg).
  assert (E2 : uts_sel2 ev t evt (Some sI) r idx c = (c, Val idx)) by (unfold uts_sel2, ostatus_in; rewrite Hs, Hnc; reflexivity).
  rewrite (bind_step _ _ _ _ _ _ _ E2).
  assert (E3 : uts_unstage t route evt (Some sI) c = (c, Val tt)) by (unfold uts_unstage; rewrite Hits; reflexivity).
  rewrite (bind_step _ _ _ _ _ _ _ E3).
  set (cI := set_ws c (items_written (c_ws c) t route i st)).
  assert (E4 : uts_item t route evt (Some sI) c = (cI, Val tt)).
  { unfold uts_item, evt. rewrite Hits. apply Nat.ltb_lt in Hi. rewrite Hi. reflexivity. }
  rewrite (bind_step _ _ _ _ _ _ _ E4).
  assert (WI : WF cI).
  { eapply WF_Rw; [|exact Wc]. apply NoInternalProofs.Rw_staged_update. intro; repeat split; reflexivity. }
  assert (E5 : exists cL, uts_logfail t evt cI = (cL, Val tt) /\ c_ws cL = c_ws cI /\ c_graph cL = c_graph cI /\
                          c_spec cL = c_spec cI /\ c_init cL = c_init cI).
  { unfold uts_logfail. destruct (status_eqb (ev_status evt) S_FAILED); [|exists cI; repeat split].
    unfold log_entry_error, modify. cbv zeta. eexists. split; [reflexivity|]. destruct (existsb _ _); repeat split. }
  destruct E5 as [cL [E5 [WL [GL [SL IL]]]]]. rewrite (bind_step _ _ _ _ _ _ _ E5).
  assert (WfL : WF cL) by (eapply WF_Rw; [eapply pw_logfail; exact E5|exact WI]).
  assert (HrL : nth_error (sequence (c_ws cL)) idx = Some r) by (rewrite WL; exact Hr).
  unfold pre_machine.
  assert (EgL : get_rec idx cL = (cL, Val r)) by (unfold get_rec, bind, getws; rewrite HrL; reflexivity).
  rewrite (bind_step _ _ _ _ _ _ _ EgL). rewrite (bind_step _ _ _ _ _ _ _ (eq_refl : getws cL = (cL, Val (c_ws cL)))).
  assert (Ht : task_process_event (c_ws cL) r evt = Val ns) by (rewrite WL; exact Hm).
  rewrite Ht. rewrite (bind_step _ _ _ _ _ _ _ (eq_refl : lift_res (Val ns) cL = (cL, Val ns))).
  set (c6 := match ns with Some s' => set_ws cL (ws_update_rec (c_ws cL) idx (fun x => r_set_status x (Some s'))) | None => cL end).
  assert (E6 : uts_setst idx ns cL = (c6, Val tt)) by (unfold uts_setst, c6; destruct ns; reflexivity).
  rewrite (bind_step _ _ _ _ _ _ _ E6).
  assert (Hr6 : nth_error (sequence (c_ws c6)) idx = Some (stepped r ns)).
  { unfold c6, stepped. destruct ns as [s'|]; [|exact HrL].
    exact (nth_update_rec_same (c_ws cL) idx (fun x => r_set_status x (Some s')) r HrL). }
  assert (W6 : WF c6).
  { unfold c6. destruct ns as [s'|]; [|exact WfL]. apply WF_update_rec; [exact WfL|].
    intros r0 Hr0. rewrite HrL in Hr0; inversion Hr0; subst r0. split; [reflexivity|]. intro E. exfalso. apply Hnr. exact E. }
  assert (K6 : tasks (c_ws c6) = tasks (c_ws c) /\ contexts (c_ws c6) = contexts (c_ws c) /\ routes (c_ws c6) = routes (c_ws c) /\
               wstatus (c_ws c6) = wstatus (c_ws c) /\ c_graph c6 = c_graph c /\ c_spec c6 = c_spec c /\ c_init c6 = c_init c /\
               length (sequence (c_ws c6)) = length (sequence (c_ws c)) /\ staged (c_ws c6) = staged (items_written (c_ws c) t route i st)).
  { assert (L6 : forall s', length (sequence (ws_update_rec (c_ws cL) idx (fun x => r_set_status x (Some s')))) = length (sequence (c_ws cL)))
      by (intro s'; unfold ws_update_rec; rewrite HrL; cbn [sequence ws_set_sequence]; apply length_set_nth).
    unfold c6. destruct ns as [s'|]; cbn [c_ws set_ws c_graph c_spec c_init];
      rewrite ?tasks_update_rec, ?contexts_update_rec, ?routes_update_rec, ?ws_update_rec_status, ?L6, ?staged_update_rec, ?WL, ?GL, ?SL, ?IL;
      repeat split. }
  destruct K6 as [T6 [C6 [R6 [S6 [G6 [Sp6 [I6 [L6 St6]]]]]]]].
  assert (Eg6 : get_rec idx c6 = (c6, Val (stepped r ns))) by (unfold get_rec, bind, getws; rewrite Hr6; reflexivity).
  rewrite (bind_step _ _ _ _ _ _ _ Eg6). fold new.
  assert (E7 : uts_retrying t route idx (stepped r ns) new c6 = (c6, Val tt)).
  { unfold uts_retrying. destruct (status_eqb new S_RETRYING) eqn:E; [|reflexivity]. apply status_eqb_eq in E. contradiction. }
  rewrite (bind_step _ _ _ _ _ _ _ E7).
  assert (Hold : rstatus r = s) by (unfold rstatus; rewrite Hs; reflexivity). rewrite Hold.
  destruct (status_in new COMPLETED_STATUSES) eqn:Hc.
  2: { (* the task goes on: other items are still out *)
       exists c6, None. split.
       { unfold uts_completion. rewrite Hc. rewrite (bind_step _ _ _ _ _ _ _ (eq_refl : ret None c6 = (c6, Val None))). reflexivity. }
       split; [left; split; [reflexivity|split; [reflexivity|exact St6]]|].
       split; [unfold kept; repeat split; assumption|]. split; [exact Hr6|exact W6]. }
  (* the last item: the task completes *)
  assert (Hpres : get_staged_task (c_ws c6) t route <> None).
  { unfold get_staged_task. rewrite St6. unfold items_written. cbn [staged ws_set_staged].
    apply find_staged_update_present; [intro; split; reflexivity|]. unfold get_staged_task in HsI. rewrite HsI. discriminate. }
  assert (Stage : exists c7, (if negb (task_has_items ts && status_in new ABENDED_STATUSES)
                              then modws (fun w => ws_remove_staged_task w t route)
                              else (w <- getws ;;
                                    match get_staged_task w t route with
                                    | None => raise (exn_type "'NoneType' object does not support item assignment")
                                    | Some _ => modws (fun w => ws_set_staged w (staged_update (fun s => s_set_completed s true) t route (staged w)))
                                    end)) c6 = (c7, Val tt) /\
                             WF c7 /\ sequence (c_ws c7) = sequence (c_ws c6) /\ tasks (c_ws c7) = tasks (c_ws c6) /\
                             contexts (c_ws c7) = contexts (c_ws c6) /\ routes (c_ws c7) = routes (c_ws c6) /\
                             wstatus (c_ws c7) = wstatus (c_ws c6) /\ c_graph c7 = c_graph c6 /\ c_spec c7 = c_spec c6 /\ c_init c7 = c_init c6).
  { destruct (negb (task_has_items ts && status_in new ABENDED_STATUSES)).
    - eexists. split; [reflexivity|]. split; [eapply WF_Rw; [apply NoInternalProofs.Rw_remove_staged|exact W6]|].
      cbn [c_ws set_ws c_graph c_spec c_init].
      rewrite seq_remove_staged, tasks_remove_staged, contexts_remove_staged, routes_remove_staged, ws_remove_staged_status. repeat split.
    - rewrite (bind_step _ _ _ _ _ _ _ (eq_refl : getws c6 = (c6, Val (c_ws c6)))).
      destruct (get_staged_task (c_ws c6) t route) as [sx|]; [|contradiction].
      eexists. split; [reflexivity|]. split; [eapply WF_Rw; [apply NoInternalProofs.Rw_staged_update; intro; repeat split; reflexivity|exact W6]|].
      repeat split. }
  destruct Stage as [c7 [E8 [W7 [Sq7 [T7 [C7 [R7 [S7 [G7 [Sp7 I7]]]]]]]]]].
  assert (Hr7 : nth_error (sequence (c_ws c7)) idx = Some (stepped r ns)) by (rewrite Sq7; exact Hr6).
  destruct (get_task_context_ok (r_in (stepped r ns)) c7) as [d Ed].
  { apply (wf_rec _ W7). eapply nth_error_In; exact Hr7. }
  assert (Ec : exists ctx, uts_completion ev t route evt ts idx new s c6 = (c7, Val (Some (ctx, false)))).
  { unfold uts_completion. rewrite Hc. rewrite (bind_step _ _ _ _ _ _ _ E8). cbv zeta.
    assert (Eg7 : get_rec idx c7 = (c7, Val (stepped r ns))) by (unfold get_rec, bind, getws; rewrite Hr7; reflexivity).
    rewrite (bind_step _ _ _ _ _ _ _ Eg7). rewrite (bind_step _ _ _ _ _ _ _ Ed).
    rewrite (bind_step _ _ _ _ _ _ _ (eq_refl : getws c7 = (c7, Val (c_ws c7)))).
    rewrite S7, S6, (F_done_not_active _ Hd). rewrite andb_false_r. cbn [andb].
    eexists. unfold try_catch, bind, ret. reflexivity. }
  destruct Ec as [ctx Ec]. exists c7, (Some (ctx, false)).
  split; [rewrite (bind_step _ _ _ _ _ _ _ Ec); reflexivity|].
  split; [right; exists ctx; split; reflexivity|].
  split; [unfold kept; rewrite T7, C7, R7, S7, G7, Sp7, I7, Sq7; repeat split; assumption|]. split; [exact Hr7|exact W7].
Qed.

(* the tail when nothing completed, exactly: only the terminal flag of the record is written *)
Lemma late_tail_none_exact : forall rec t route ts idx old new c r,
  done c -> nth_error (sequence (c_ws c)) idx = Some r -> r_status r = Some new ->
  ~ In new [S_EXPIRED; S_ABANDONED; S_UNSET] ->
  uts_tail ev rec t route ts idx old new None c
  = (set_ws c (ws_update_rec (c_ws c) idx (fun r0 => r_set_term r0 true)), Val tt).
Proof.
  intros rec t route ts idx old new c r Hd Hr Hs Hvoc. unfold uts_tail.
  rewrite (bind_step _ _ _ _ _ _ _ (eq_refl : uts_queue ev t route idx ts old new None c = (c, Val []))).
  assert (Eg : get_rec idx c = (c, Val r)) by (unfold get_rec, bind, getws; rewrite Hr; reflexivity).
  rewrite (bind_step _ _ _ _ _ _ _ Eg). rewrite Hs.
  rewrite (bind_step _ _ _ _ _ _ _ (eq_refl : ret new c = (c, Val new))).
  rewrite (bind_step _ _ _ _ _ _ _ (wf_task_event_done2 t route new c Hd Hvoc)).
  unfold log_unreachable. cbn [forM_].
  rewrite (bind_step _ _ _ _ _ _ _ (eq_refl : ret tt c = (c, Val tt))).
  rewrite (bind_step _ _ _ _ _ _ _ (eq_refl : ret tt c = (c, Val tt))).
  rewrite (bind_step _ _ _ _ _ _ _ (eq_refl : getws c = (c, Val (c_ws c)))).
  rewrite (F_done_completed _ Hd). reflexivity.
Qed.

(* C04d (2): the completion report of an item that is still out, for a with-items task of a workflow that is done *)
Theorem late_item_report_absorbed : forall t route i st res acc ts sI its idx r s ns c c' r',
  WF c -> static_ok (c_spec c) (c_graph c) -> done c ->
  is_engine_command t = false -> g_has_task (c_graph c) t = true ->
  spec_get_task (c_spec c) t = Some ts -> task_has_items ts = true ->
  get_staged_task (c_ws c) t route = Some sI -> s_items sI = Some its -> i < length its ->
  ws_task_idx (c_ws c) t route = Some idx -> nth_error (sequence (c_ws c)) idx = Some r ->
  r_status r = Some s -> status_in s COMPLETED_STATUSES = false ->
  task_process_event (items_written (c_ws c) t route i st) r (EvItem i st res acc) = Val ns ->
  ~ In (rstatus (stepped r ns)) [S_RETRYING; S_EXPIRED; S_ABANDONED; S_UNSET] ->
  cmd_targets_known c t -> cmd_routes_distinct c t route -> cmds_unvisited c t route ->
  update_task_state ev t route (EvItem i st res acc) c = (c', r') ->
  (r' = Val tt \/ (wstatus (c_ws c') = S_CANCELED /\ r' = Exc fail_refused)) /\
  WF c' /\
  (wstatus (c_ws c') = wstatus (c_ws c) \/ (wstatus (c_ws c) = S_SUCCEEDED /\ wstatus (c_ws c') = S_FAILED)) /\
  (exists r1, nth_error (sequence (c_ws c')) idx = Some r1 /\ r_status r1 = Some (rstatus (stepped r ns))) /\
  (status_in (rstatus (stepped r ns)) COMPLETED_STATUSES = false ->
     r' = Val tt /\ staged (c_ws c') = staged (items_written (c_ws c) t route i st)).
Proof.
  intros t route i st res acc ts sI its idx r s ns c c' r' Wc Hso Hd Hcmd Hg Hts Hit HsI Hits Hi Hp Hr Hs Hnc Hm Hnew
         Hknown Hdist Hunv H.
  pose proof (pres_update_task_state ev _ _ _ _ _ _ H) as Hreach.
  assert (Hnr : rstatus (stepped r ns) <> S_RETRYING) by (intro E; apply Hnew; rewrite E; simpl; tauto).
  assert (Hvoc : ~ In (rstatus (stepped r ns)) [S_EXPIRED; S_ABANDONED; S_UNSET]) by (intro E; apply Hnew; simpl in *; tauto).
  assert (Hst1 : r_status (stepped r ns) = Some (rstatus (stepped r ns))).
  { unfold stepped, rstatus. destruct ns as [s'|]; [reflexivity|]. rewrite Hs. reflexivity. }
  unfold update_task_state in H. rewrite uts_unfold, body_eq in H.
  destruct (late_item_pre_main t route i st res acc ts sI its idx r s ns c Wc Hd Hcmd Hit HsI Hits Hi Hr Hs Hnc Hm Hnr)
    as [c1 [compl [E1 [Hcompl [K [Hr1 W1]]]]]].
  assert (Ep : uts_prefix ev t route (EvItem i st res acc) c =
               (c1, Val {| po_ts := ts; po_idx := idx; po_old := s; po_new := rstatus (stepped r ns); po_compl := compl |})).
  { unfold uts_prefix. rewrite (bind_step _ _ _ _ _ _ _ (ensure_ws_inited ev c (wf_init _ Wc))).
    rewrite (bind_step _ _ _ _ _ _ _ (eq_refl : get c = (c, Val c))). rewrite Hg. cbn [negb]. cbv zeta. rewrite Hts.
    rewrite (bind_step _ _ _ _ _ _ _ (eq_refl : ret ts c = (c, Val ts))). rewrite HsI, Hp. exact E1. }
  rewrite (bind_step _ _ _ _ _ _ _ Ep) in H. unfold tail_of in H. cbn [po_ts po_idx po_old po_new po_compl] in H.
  pose proof (kept_cmd_edges c c1 t route K) as Ke.
  destruct K as [K1 [K2 [K3 [K4 [K5 [K6 [K7 K8]]]]]]].
  assert (D1 : done c1) by (unfold done; rewrite K4; exact Hd).
  destruct (late_tail2 1 _ _ _ _ _ _ _ _ _ _ H) as [A [B [C D]]].
  - destruct Hcompl as [[-> _]|[ctx [-> Hc]]]; [left; reflexivity|right; exists ctx; split; [reflexivity|exact Hc]].
  - exact W1.
  - rewrite K5, K6; exact Hso.
  - exact D1.
  - rewrite K6; exact Hts.
  - unfold ws_task_idx in *; rewrite K1; exact Hp.
  - eexists; split; [exact Hr1|exact Hst1].
  - exact Hvoc.
  - unfold cmd_targets_known. rewrite K5. exact Hknown.
  - unfold cmd_routes_distinct. rewrite Ke. exact Hdist.
  - unfold cmds_unvisited, ws_task_idx. rewrite Ke, K1. exact Hunv.
  - split; [exact A|]. split; [exact C|]. split; [apply reach_done_exact; [exact Hd|exact Hreach]|]. split; [exact D|].
    intro Hnc'. destruct Hcompl as [[-> [_ Hst]]|[ctx [_ Hc]]]; [|congruence].
    rewrite (late_tail_none_exact _ t route ts idx s _ c1 _ D1 Hr1 Hst1 Hvoc) in H. inversion H; subst c' r'.
    split; [reflexivity|]. cbn [c_ws set_ws]. rewrite staged_update_rec. exact Hst.
Qed.

(* the machine's answer to the report of an item, from the OTHER items of the table: the task completes when the
   last item reports, and goes on while others are out *)
Lemma del_set_nth : forall A (l : list A) i x, list_del_nth i (list_set_nth i x l) = list_del_nth i l.
Proof. intros A l; induction l as [|h l IH]; intros [|i] x; simpl; try reflexivity. rewrite IH. reflexivity. Qed.
Lemma length_set_nth' : forall A (l : list A) i x, length (list_set_nth i x l) = length l.
Proof. intros A l; induction l as [|h l IH]; intros [|i] x; simpl; try reflexivity. rewrite IH. reflexivity. Qed.

Lemma find_item_upd : forall t route i st l sI, find (stg_matches t route) l = Some sI ->
  find (stg_matches t route) (staged_update (item_upd i st) t route l) = Some (item_upd i st sI).
Proof.
  intros t route i st l; induction l as [|x l IH]; intros sI H; simpl in *; [discriminate|].
  destruct (stg_matches t route x) eqn:E.
  - inversion H; subst. simpl. assert (M : stg_matches t route (item_upd i st sI) = stg_matches t route sI) by reflexivity.
    rewrite M, E. reflexivity.
  - simpl. rewrite E. apply IH; exact H.
Qed.

Lemma item_event_name_written : forall w t route i st sI its,
  get_staged_task w t route = Some sI -> s_items sI = Some its -> i < length its -> status_in st COMPLETED_STATUSES = true ->
  item_event_name (items_written w t route i st) t route i st =
    (let base := ACTION_EVENT_PREFIX ++ status_name st in
     let others := list_del_nth i its in
     let active := existsb (fun x => status_in x ACTIVE_STATUSES) others in
     let incomplete := existsb (fun x => negb (status_in x COMPLETED_STATUSES)) others in
     let paused := existsb (fun x => status_in x [S_PENDING; S_PAUSED]) others in
     let canceled := existsb (fun x => status_eqb x S_CANCELED) others in
     let failed := existsb (fun x => status_in x ABENDED_STATUSES) others in
     let e1 := base ++ (if active then "_task_active" else "_task_dormant") in
     if negb active && paused then Val (e1 ++ "_items_paused")
     else if negb active && canceled then Val (e1 ++ "_items_canceled")
     else if negb active && failed then Val (e1 ++ "_items_failed")
     else Val (e1 ++ (if incomplete then "_items_incomplete" else "_items_completed"))).
Proof.
  intros w t route i st sI its HsI Hits Hi Hst. unfold item_event_name.
  assert (Hreq : status_in st item_requirements = true).
  { apply status_in_In in Hst. repeat (destruct Hst as [<-|Hst]; [reflexivity|]). destruct Hst. }
  rewrite Hreq. cbn [negb]. unfold get_staged_task, items_written in *. cbn [staged ws_set_staged].
  rewrite (find_item_upd t route i st _ sI HsI). unfold item_upd at 1. cbn [s_items s_set_items]. rewrite Hits.
  rewrite length_set_nth'. apply Nat.ltb_lt in Hi. rewrite Hi. cbn [negb]. rewrite del_set_nth. reflexivity.
Qed.

(* the last item: every other item succeeded and this one succeeds -- a running (pausing, canceling) task succeeds *)
Lemma last_item_completes : forall w t route i res acc sI its r s,
  get_staged_task w t route = Some sI -> s_items sI = Some its -> i < length its ->
  r_id r = t -> r_route r = route -> r_status r = Some s -> In s [S_RUNNING; S_PAUSING; S_CANCELING] ->
  forallb (fun x => status_eqb x S_SUCCEEDED) (list_del_nth i its) = true ->
  task_process_event (items_written w t route i S_SUCCEEDED) r (EvItem i S_SUCCEEDED res acc) = Val (Some S_SUCCEEDED).
Proof.
  intros w t route i res acc sI its r s HsI Hits Hi Hid Hrt Hs Hin Hall.
  unfold task_process_event. cbn [ev_name]. change (status_name S_SUCCEEDED) with "succeeded".
  change (string_in (ACTION_EVENT_PREFIX ++ "succeeded") (app ACTION_EXECUTION_EVENTS ENGINE_OPERATION_EVENTS)) with true.
  cbn [negb]. rewrite Hid, Hrt. rewrite (item_event_name_written w t route i S_SUCCEEDED sI its HsI Hits Hi eq_refl). cbv zeta.
  assert (Ex : forall (P : status -> bool), (forall x, status_eqb x S_SUCCEEDED = true -> P x = false) ->
                existsb P (list_del_nth i its) = false).
  { intros P HP. apply not_true_is_false. intro E. apply existsb_exists in E. destruct E as [x [Hx Px]].
    rewrite forallb_forall in Hall. rewrite (HP x (Hall x Hx)) in Px. discriminate. }
  rewrite !Ex by (intros x Hx; apply status_eqb_eq in Hx; subst; reflexivity). cbn [negb andb].
  unfold task_table_step, rstatus. rewrite Hs.
  repeat (destruct Hin as [<-|Hin]; [vm_compute; reflexivity|]). destruct Hin.
Qed.

(* not the last: another item is still active -- a running task stays running *)
Lemma item_with_others_out : forall w t route i res acc sI its r,
  get_staged_task w t route = Some sI -> s_items sI = Some its -> i < length its ->
  r_id r = t -> r_route r = route -> r_status r = Some S_RUNNING ->
  existsb (fun x => status_in x ACTIVE_STATUSES) (list_del_nth i its) = true ->
  task_process_event (items_written w t route i S_SUCCEEDED) r (EvItem i S_SUCCEEDED res acc) = Val (Some S_RUNNING).
Proof.
  intros w t route i res acc sI its r HsI Hits Hi Hid Hrt Hs Hact.
  unfold task_process_event. cbn [ev_name]. change (status_name S_SUCCEEDED) with "succeeded".
  change (string_in (ACTION_EVENT_PREFIX ++ "succeeded") (app ACTION_EXECUTION_EVENTS ENGINE_OPERATION_EVENTS)) with true.
  cbn [negb]. rewrite Hid, Hrt. rewrite (item_event_name_written w t route i S_SUCCEEDED sI its HsI Hits Hi eq_refl). cbv zeta.
  rewrite Hact. cbn [negb andb].
  assert (Hinc : existsb (fun x => negb (status_in x COMPLETED_STATUSES)) (list_del_nth i its) = true).
  { apply existsb_exists in Hact. destruct Hact as [x [Hx Ax]]. apply existsb_exists. exists x. split; [exact Hx|].
    destruct (status_in x COMPLETED_STATUSES) eqn:E; [exfalso; exact (F_active_not_completed x Ax E)|reflexivity]. }
  rewrite Hinc. unfold task_table_step, rstatus. rewrite Hs. vm_compute. reflexivity.
Qed.

End WithEval.
