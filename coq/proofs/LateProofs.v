(* C04, third clause: late completion reports of still-running actions are absorbed.
   A provider's completion report (EvAction with a completed status) for a plain task whose record is still
   running / pausing / canceling, delivered when the workflow is already failed, canceled or succeeded:
   the call returns normally -- with ONE exception, stated exactly: in a CANCELED workflow, when an expression of one
   of the task's transitions fails, the engine's attempt to fail the workflow is refused and the refusal
   (InvalidWorkflowStatusTransition) escapes update_task_state; the workflow status does not move (succeeded may
   become failed, by such an expression failure only); the record takes the reported status; what the transitions
   stage is never offered (C04).
   Scope of this file: tasks without with-items, whose transitions lead to no engine command (see the report). *)
From Coq Require Import String List Bool ZArith Arith Lia.
From Orq Require Import GenStatuses GenEvents GenTables Base State Machines Conductor Api.
From Orq Require Import F_tables Hoare ValuePost StatusReach C04Proofs C05Proofs InertProofs RetryProofs RetryBoundProofs
  FrozenProofs NoInternalProofs CancelProofs.
Import ListNotations.
Open Scope string_scope.
Open Scope monad_scope.

(* ------------------------------------------------------------------ finite facts *)

Definition done_status (s : status) : Prop := In s [S_FAILED; S_CANCELED; S_SUCCEEDED].
Definition done (c : cstate) : Prop := done_status (wstatus (c_ws c)).

Lemma F_done_not_active : forall s, done_status s -> status_in s ACTIVE_STATUSES = false.
Proof. intros s [<-|[<-|[<-|[]]]]; vm_compute; reflexivity. Qed.
Lemma F_done_completed : forall s, done_status s -> status_in s COMPLETED_STATUSES = true.
Proof. intros s [<-|[<-|[<-|[]]]]; vm_compute; reflexivity. Qed.
Lemma F_done_lifecycle : forall s, done_status s -> In s wf_statuses.
Proof. intros s [<-|[<-|[<-|[]]]]; vm_compute; tauto. Qed.
Lemma reach_done : forall s u, done_status s -> wf_reach s u -> done_status u.
Proof.
  intros s u [<-|[<-|[<-|[]]]] H.
  - rewrite (reach_from_failed _ H). left; reflexivity.
  - rewrite (reach_from_canceled _ H). right; left; reflexivity.
  - destruct (reach_from_succeeded _ H) as [->| ->]; [right; right; left|left]; reflexivity.
Qed.
Lemma reach_done_exact : forall s u, done_status s -> wf_reach s u -> u = s \/ (s = S_SUCCEEDED /\ u = S_FAILED).
Proof.
  intros s u [<-|[<-|[<-|[]]]] H.
  - left; apply (reach_from_failed _ H).
  - left; apply (reach_from_canceled _ H).
  - destruct (reach_from_succeeded _ H) as [->| ->]; [left; reflexivity|right; split; reflexivity].
Qed.

(* a task event never moves a workflow that is done, and reports no join *)
Lemma F_done_task_event : forall s n, done_status s -> string_in n TASK_EXECUTION_EVENTS = true ->
  exists row, tbl_row wf_table s = Some row /\ aget String.eqb n row = None.
Proof.
  intros s n Hs Hn. destruct Hs as [<-|[<-|[<-|[]]]].
  - exists []. split; vm_compute; reflexivity.
  - exists []. split; vm_compute; reflexivity.
  - exists [("workflow_failed", S_FAILED)]. split; [vm_compute; reflexivity|].
    simpl. destruct (String.eqb n "workflow_failed") eqn:E; [|reflexivity].
    apply String.eqb_eq in E. exfalso. exact (task_event_not_failure_request n Hn E).
Qed.

(* the statuses a task can reach by an action event: their task events are in the vocabulary *)
Lemma F_task_event_vocab : forall st b1 b2 b3 b4 b5, In st [S_SUCCEEDED; S_FAILED; S_CANCELED; S_RUNNING; S_PAUSING; S_CANCELING] ->
  string_in (task_event_name_of st b1 b2 b3 b4 b5) TASK_EXECUTION_EVENTS = true.
Proof.
  intros st b1 b2 b3 b4 b5 H.
  repeat (destruct H as [<-|H]; [destruct b1, b2, b3, b4, b5; vm_compute; reflexivity|]). destruct H.
Qed.

(* a completion report on a running / pausing / canceling record: the machine's answer *)
Definition still_running (r : trec) : Prop :=
  exists s, r_status r = Some s /\ In s [S_RUNNING; S_PAUSING; S_CANCELING].
Definition reported (st : status) : status :=
  if status_eqb st S_SUCCEEDED then S_SUCCEEDED else if status_eqb st S_CANCELED then S_CANCELED else S_FAILED.
Lemma F_completion_step : forall s st, In s [S_RUNNING; S_PAUSING; S_CANCELING] -> status_in st COMPLETED_STATUSES = true ->
  tbl_step task_table s (ACTION_EVENT_PREFIX ++ status_name st) = Some (reported st) /\
  string_in (ACTION_EVENT_PREFIX ++ status_name st) (app ACTION_EXECUTION_EVENTS ENGINE_OPERATION_EVENTS) = true.
Proof.
  intros s st Hs Hst. apply status_in_In in Hst.
  repeat (destruct Hs as [<-|Hs]; [repeat (destruct Hst as [<-|Hst]; [split; vm_compute; reflexivity|]); destruct Hst|]).
  destruct Hs.
Qed.
Lemma F_reported_completed : forall st, status_in (reported st) COMPLETED_STATUSES = true /\
  In (reported st) [S_SUCCEEDED; S_FAILED; S_CANCELED; S_RUNNING; S_PAUSING; S_CANCELING] /\
  reported st <> S_RETRYING.
Proof.
  intro st. unfold reported. destruct (status_eqb st S_SUCCEEDED); [|destruct (status_eqb st S_CANCELED)];
    (split; [vm_compute; reflexivity|split; [simpl; tauto|discriminate]]).
Qed.
Lemma F_running_not_completed : forall s, In s [S_RUNNING; S_PAUSING; S_CANCELING] ->
  status_in s COMPLETED_STATUSES = false /\ s <> S_RETRYING /\ (forall st, s <> reported st).
Proof.
  intros s H. repeat (destruct H as [<-|H]; [split; [vm_compute; reflexivity|split; [discriminate|]];
    intro st; unfold reported; destruct (status_eqb st S_SUCCEEDED); [discriminate|destruct (status_eqb st S_CANCELED); discriminate]|]).
  destruct H.
Qed.

(* ------------------------------------------------------------------ the engine's request to fail a done workflow *)

Definition fail_refused : exn := exn_invalid_wf_transition S_CANCELED (WORKFLOW_EVENT_PREFIX ++ status_name S_FAILED).

Lemma wpwe_failed_done : forall g w, done_status (wstatus w) ->
  wf_process_workflow_event g w S_FAILED = Val (if status_eqb (wstatus w) S_SUCCEEDED then S_FAILED else wstatus w, []).
Proof.
  intros g w Hd. unfold wf_process_workflow_event, wf_workflow_event_name.
  assert (Hp : status_eqb (wstatus w) S_PAUSED = false) by (destruct Hd as [<-|[<-|[<-|[]]]]; reflexivity).
  rewrite Hp. cbn [andb].
  change (status_in S_FAILED (app PAUSE_STATUSES CANCEL_STATUSES)) with false. cbv iota.
  destruct Hd as [E|[E|[E|[]]]]; rewrite <- E; vm_compute; reflexivity.
Qed.

Section WithEval.
Variable ev : string -> dict -> evalres.

(* exactly what happens: failed stays failed, succeeded becomes failed, canceled REFUSES (and then nothing changed) *)
Lemma rsc_failed_done : forall c c' res, done c -> request_status_core S_FAILED c = (c', res) ->
  (res = Val tt /\ wstatus (c_ws c') = (if status_eqb (wstatus (c_ws c)) S_SUCCEEDED then S_FAILED else wstatus (c_ws c))) \/
  (wstatus (c_ws c) = S_CANCELED /\ c' = c /\ res = Exc fail_refused).
Proof.
  intros c c' res Hd H. rewrite request_status_core_eq in H.
  pose proof (push_loop_outcome S_FAILED c) as Ho. cbv zeta in Ho.
  assert (HL : forall i r, In (i, r) (ws_tasks_by_status (c_ws c) ACTIVE_STATUSES) -> nth_error (sequence (c_ws c)) i = Some r)
    by (intros i r Hin; apply tasks_by_status_In in Hin; tauto).
  remember (ws_tasks_by_status (c_ws c) ACTIVE_STATUSES) as active eqn:Eact.
  unfold bind at 1 in H.
  destruct Ho as [[e0 Hl]|[s2 [Hl [Hm _]]]].
  { exfalso. destruct active as [|[i r] l]; [cbn [forM_] in Hl; inversion Hl|].
    cbn [forM_] in Hl. unfold bind in Hl.
    assert (Hv : wev_in_vocab S_FAILED = true) by (vm_compute; reflexivity).
    destruct (tasks_by_status_In (c_ws c) ACTIVE_STATUSES i r) as [Hn Ha]; [rewrite <- Eact; left; reflexivity|].
    destruct (active_record_has_row r Ha) as [row Hrow].
    destruct (tpe_workflow_val (c_ws c) r S_FAILED row Hv Hrow) as [ns Hns].
    rewrite (push_body_run S_FAILED i r c r ns Hn Hns) in Hl.
    (* the loop went on: it cannot have raised with the state untouched unless ... use the run lemma instead *)
    destruct (push_loop_run S_FAILED ((i, r) :: l) (sequence (c_ws c)) Hv) with (l := (i, r) :: l) (c := c) as [s3 [Hrun _]].
    - intros i0 r0 Hin. apply tasks_by_status_In. rewrite <- Eact. exact Hin.
    - apply incl_refl.
    - rewrite Eact. apply tasks_by_status_NoDup.
    - intros i0 r0 Hin. apply HL. exact Hin.
    - apply moved_refl.
    - cbn [forM_] in Hrun. unfold bind in Hrun. rewrite (push_body_run S_FAILED i r c r ns Hn Hns) in Hrun.
      rewrite Hrun in Hl. discriminate. }
  rewrite Hl in H. unfold request_tail, bind at 1 in H. unfold wf_workflow_event_M in H.
  change (c_graph (with_seq c s2)) with (c_graph c) in H.
  change (c_ws (with_seq c s2)) with (ws_set_sequence (c_ws c) s2) in H.
  rewrite (wpwe_failed_done (c_graph c) (ws_set_sequence (c_ws c) s2) Hd) in H.
  change (wstatus (ws_set_sequence (c_ws c) s2)) with (wstatus (c_ws c)) in H.
  unfold bind at 1 in H. unfold log_unreachable at 1 in H. cbn [forM_] in H. unfold ret at 1 in H. cbv beta iota in H.
  unfold bind at 1, getws in H. cbv beta iota zeta in H. cbn [c_ws set_ws wstatus ws_set_status] in H.
  change (status_eqb S_FAILED S_PAUSED) with false in H. change (status_eqb S_FAILED S_CANCELED) with false in H.
  cbn [andb] in H.
  destruct Hd as [E|[E|[E|[]]]]; rewrite <- E in H |- *.
  - (* failed *) change (status_eqb S_FAILED S_FAILED) with true in H. cbn [negb andb] in H.
    change (status_eqb S_FAILED S_SUCCEEDED) with false in H. cbv iota in H. inversion H; subst. left. split; reflexivity.
  - (* canceled *) right. change (status_eqb S_CANCELED S_SUCCEEDED) with false in H. cbv iota in H.
    change (status_eqb S_FAILED S_CANCELED) with false in H. change (status_eqb S_CANCELED S_CANCELED) with true in H.
    cbn [negb andb] in H. unfold bind in H. rewrite restore_loop_run in H. inversion H; subst c' res. clear H.
    split; [reflexivity|]. split; [|reflexivity].
    cbn [c_ws set_ws sequence ws_set_status ws_set_sequence].
    rewrite (restore_moved active (sequence (c_ws c)) s2 HL Hm).
    destruct c as [sp g inp par ini w er lg out]; destruct w; simpl in *; subst; reflexivity.
  - (* succeeded *) change (status_eqb S_SUCCEEDED S_SUCCEEDED) with true in H. cbv iota in H.
    change (status_eqb S_FAILED S_SUCCEEDED) with false in H. change (status_eqb S_SUCCEEDED S_FAILED) with false in H.
    cbn [negb andb] in H. inversion H; subst. left. split; reflexivity.
Qed.

End WithEval.

(* ------------------------------------------------------------------ invariant + exception postcondition *)

(* from a state satisfying I, m ends in a state satisfying I -- also when it raises -- and an exception it raises
   satisfies Q in the state it is raised in *)
Definition hx (I : cstate -> Prop) (Q : cstate -> exn -> Prop) {A} (m : M A) : Prop :=
  forall c c' r, I c -> m c = (c', r) -> I c' /\ (forall e, r = Exc e -> Q c' e).

Section HX.
Variable I : cstate -> Prop.
Lemma hx_weaken : forall (Q Q' : cstate -> exn -> Prop) A (m : M A), (forall c e, Q c e -> Q' c e) -> hx I Q m -> hx I Q' m.
Proof. intros Q Q' A m HQ H c c' r Hi E. destruct (H c c' r Hi E) as [A1 A2]. split; [exact A1|]. intros e He; apply HQ; apply A2; exact He. Qed.
Variable Q : cstate -> exn -> Prop.
Lemma hx_ret : forall A (a : A), hx I Q (ret a).
Proof. intros A a c c' r Hi H; inversion H; subst. split; [exact Hi|discriminate]. Qed.
Lemma hx_raise : forall A e, (forall c, I c -> Q c e) -> hx I Q (@raise A e).
Proof. intros A e Hq c c' r Hi H; inversion H; subst. split; [exact Hi|]. intros e0 E; inversion E; subst; apply Hq; exact Hi. Qed.
Lemma hx_get : hx I Q get.
Proof. intros c c' r Hi H; inversion H; subst. split; [exact Hi|discriminate]. Qed.
Lemma hx_getws : hx I Q getws.
Proof. intros c c' r Hi H; inversion H; subst. split; [exact Hi|discriminate]. Qed.
Lemma hx_modify : forall f, (forall c, I c -> I (f c)) -> hx I Q (modify f).
Proof. intros f Hf c c' r Hi H; inversion H; subst. split; [apply Hf; exact Hi|discriminate]. Qed.
Lemma hx_modws : forall f, (forall c, I c -> I (set_ws c (f (c_ws c)))) -> hx I Q (modws f).
Proof. intros f Hf c c' r Hi H; inversion H; subst. split; [apply Hf; exact Hi|discriminate]. Qed.
Lemma hx_bind : forall A B (m : M A) (f : A -> M B), hx I Q m -> (forall a, hx I Q (f a)) -> hx I Q (bind m f).
Proof.
  intros A B m f Hm Hf c c' r Hi H. unfold bind in H. destruct (m c) as [c1 [a|x]] eqn:E.
  - destruct (Hm c c1 (Val a) Hi E) as [I1 _]. eapply Hf; [exact I1|exact H].
  - inversion H; subst. destruct (Hm c c' (Exc x) Hi E) as [I1 Q1]. split; [exact I1|].
    intros e He; inversion He; subst. apply Q1; reflexivity.
Qed.
Lemma hx_try_catch : forall Q0 A (m : M A) h, hx I Q0 m -> (forall e, hx I Q (h e)) -> hx I Q (try_catch m h).
Proof.
  intros Q0 A m h Hm Hh c c' r Hi H. unfold try_catch in H. destruct (m c) as [c1 [a|x]] eqn:E.
  - inversion H; subst. destruct (Hm c c' (Val a) Hi E) as [I1 _]. split; [exact I1|discriminate].
  - destruct (Hm c c1 (Exc x) Hi E) as [I1 _]. eapply Hh; [exact I1|exact H].
Qed.
Lemma hx_try_catch_expr : forall A (m : M A) h,
  hx I (fun c e => x_expr e = true \/ Q c e) m -> (forall e, hx I Q (h e)) -> hx I Q (try_catch_expr m h).
Proof.
  intros A m h Hm Hh c c' r Hi H. unfold try_catch_expr in H. destruct (m c) as [c1 [a|x]] eqn:E.
  - inversion H; subst. destruct (Hm c c' (Val a) Hi E) as [I1 _]. split; [exact I1|discriminate].
  - destruct (Hm c c1 (Exc x) Hi E) as [I1 Q1]. destruct (x_expr x) eqn:Ex.
    + eapply Hh; [exact I1|exact H].
    + inversion H; subst. split; [exact I1|]. intros e He; inversion He; subst.
      destruct (Q1 e eq_refl) as [X|X]; [congruence|exact X].
Qed.
Lemma hx_mapM : forall A B (f : A -> M B) l, (forall a, hx I Q (f a)) -> hx I Q (mapM f l).
Proof.
  intros A B f l Hf; induction l as [|x l IH]; simpl; [apply hx_ret|].
  apply hx_bind; [apply Hf|intro]. apply hx_bind; [exact IH|intro; apply hx_ret].
Qed.
Lemma hx_forM : forall A (l : list A) f, (forall a, hx I Q (f a)) -> hx I Q (forM_ l f).
Proof.
  intros A l f Hf; induction l as [|x l IH]; simpl; [apply hx_ret|].
  apply hx_bind; [apply Hf|intro; exact IH].
Qed.
Lemma hx_lift_res : forall A (r : result A), (forall e c, r = Exc e -> I c -> Q c e) -> hx I Q (lift_res r).
Proof.
  intros A r H c c' r0 Hi E. destruct r; inversion E; subst; (split; [exact Hi|]); [discriminate|].
  intros e0 He; inversion He; subst. apply H; [reflexivity|exact Hi].
Qed.
(* a computation that never touches the state *)
Lemma hx_pure : forall A (m : M A), state_pure m -> (forall c c' e, m c = (c', Exc e) -> Q c' e) -> hx I Q m.
Proof.
  intros A m Hp Hq c c' r Hi E. pose proof (Hp c) as P. rewrite E in P. simpl in P. subst c'.
  split; [exact Hi|]. intros e He; subst r. eapply Hq; exact E.
Qed.
End HX.

(* the walk: [qr] closes the goal "Q c e" of a raise, [dn] the goal "I (new state)" of a state update *)
Ltac hxw qr dn leaf :=
  lazymatch goal with
  | |- hx _ _ (ret _) => apply hx_ret
  | |- hx _ _ (raise _) => apply hx_raise; intros; qr
  | |- hx _ _ get => apply hx_get
  | |- hx _ _ getws => apply hx_getws
  | |- hx _ _ (modify _) => apply hx_modify; intros; dn
  | |- hx _ _ (modws _) => apply hx_modws; intros; dn
  | |- hx _ _ (bind _ _) => apply hx_bind; [ hxw qr dn leaf | intro; hxw qr dn leaf ]
  | |- hx _ _ (mapM _ _) => apply hx_mapM; intro; hxw qr dn leaf
  | |- hx _ _ (forM_ _ _) => apply hx_forM; intro; hxw qr dn leaf
  | |- hx _ _ (match ?x with _ => _ end) => destruct x; hxw qr dn leaf
  | |- hx _ _ ?m =>
      first [ solve [leaf]
            | let h := head_of m in progress (unfold h); hxw qr dn leaf
            | progress (cbv beta); hxw qr dn leaf
            | idtac ]
  end.

(* ------------------------------------------------------------------ the evaluator *)

(* the evaluator's own errors are expression-evaluation errors (the class the engine's renderers contain) *)
Definition ev_expr (ev : string -> dict -> evalres) : Prop := forall s ctx e, ev s ctx = EvErr e -> x_expr e = true.

Lemma internal_type_error : forall m, internal_cls (mkexn "TypeError" m).
Proof. intro; reflexivity. Qed.

Lemma evaluate_raises : forall ev, ev_expr ev -> forall stmt ctx,
  raises_only (fun e => x_expr e = true \/ internal_cls e) (evaluate ev stmt ctx).
Proof.
  intros ev He. set (P := fun e : exn => x_expr e = true \/ internal_cls e).
  assert (Hl : forall s ctx, raises_only P (lift_eval (ev s ctx))).
  { intros s ctx c c' e H. destruct (ev s ctx) as [v|x] eqn:E; inversion H; subst. left. eapply He; exact E. }
  intro stmt; induction stmt as [| | | |s|l IH|kv IH] using json_ind'; intro ctx; try (simpl; apply ro_ret).
  - simpl; apply Hl.
  - simpl. apply ro_bind; [|intro; apply ro_ret].
    induction IH as [|x l Hx Hl' IHl]; [apply ro_ret|].
    apply ro_bind; [apply Hx|intro y]. apply ro_bind; [exact IHl|intro; apply ro_ret].
  - simpl. apply ro_bind; [|intro; apply ro_ret].
    generalize (@nil (string * json)) as acc.
    induction IH as [|[k v] kv' Hx Hl' IHl]; intro acc; [apply ro_ret|].
    apply ro_bind; [apply Hl|intro k'].
    apply ro_bind; [destruct k'; first [apply ro_raise; left; reflexivity|apply ro_ret]|intros _].
    apply ro_bind; [apply Hx|intro v'].
    destruct k'; try (apply ro_raise; right; reflexivity). apply IHl.
Qed.

(* ------------------------------------------------------------------ the transitions of a late task *)

Definition Qd (c : cstate) (e : exn) : Prop :=
  internal_cls e \/ (wstatus (c_ws c) = S_CANCELED /\ e = fail_refused).

Ltac dn :=
  unfold done in *; cbn [c_ws set_ws wstatus ws_set_contexts ws_set_routes ws_set_staged ws_add_staged ws_set_sequence ws_set_tasks];
  rewrite ?ws_update_rec_status, ?ws_remove_staged_status;
  first [ assumption
        | match goal with |- context [if ?b then _ else _] => destruct b end; assumption ].
Ltac qr := first [ left; reflexivity | exact Logic.I ].

Section Transitions.
Variable ev : string -> dict -> evalres.
Hypothesis Hexpr : ev_expr ev.

Lemma hx_rsc_failed : hx done Qd (request_status_core S_FAILED).
Proof.
  intros c c' r Hd H. destruct (rsc_failed_done c c' r Hd H) as [[-> Hs]|[Hc [-> ->]]].
  - split; [|discriminate]. unfold done. rewrite Hs. destruct Hd as [E|[E|[E|[]]]]; rewrite <- E; vm_compute; auto.
  - split; [exact Hd|]. intros e E; inversion E; subst. right. split; [exact Hc|reflexivity].
Qed.

Lemma hx_log_entry_error : forall Q m t r tr res, hx done Q (log_entry_error m t r tr res).
Proof. intros; unfold log_entry_error. apply hx_modify. intros c Hc. cbv zeta. destruct (existsb _ _); exact Hc. Qed.
Lemma hx_log_error : forall Q e t r tr, hx done Q (log_error e t r tr).
Proof. intros; unfold log_error; apply hx_log_entry_error. Qed.
Lemma hx_log_errors : forall Q es t r tr, hx done Q (log_errors es t r tr).
Proof. intros; unfold log_errors; apply hx_forM; intro; apply hx_log_error. Qed.

Lemma hx_evaluate : forall stmt ctx, hx done (fun c e => x_expr e = true \/ Qd c e) (evaluate ev stmt ctx).
Proof.
  intros stmt ctx. apply hx_pure; [apply evaluate_pure|].
  intros c c' e H. destruct (evaluate_raises ev Hexpr stmt ctx c c' e H) as [X|X]; [left; exact X|right; left; exact X].
Qed.
Lemma hx_evaluate_any : forall stmt ctx, hx done (fun _ _ => True) (evaluate ev stmt ctx).
Proof. intros stmt ctx. apply hx_pure; [apply evaluate_pure|intros; exact Logic.I]. Qed.

Lemma hx_render_vars : forall specs rolling rendered errs, hx done Qd (render_vars ev specs rolling rendered errs).
Proof.
  induction specs as [|[n d] specs IH]; intros; simpl; [apply hx_ret|].
  apply hx_bind.
  - apply hx_try_catch_expr; [|intro; apply hx_ret].
    apply hx_bind; [apply hx_evaluate|intro; apply hx_ret].
  - intros [x|e]; apply IH.
Qed.

Lemma hx_finalize_context : forall ts e ctx, hx done Qd (finalize_context ev ts e ctx).
Proof.
  intros. unfold finalize_context. destruct (nth_error (ts_next ts) (e_ref e)); [|apply hx_raise; intros; left; reflexivity].
  destruct (string_in (e_dst e) (tr_do t)); [apply hx_render_vars|apply hx_ret].
Qed.

Lemma hx_get_rec : forall i, hx done Qd (get_rec i).
Proof. intros; unfold get_rec. hxw qr dn fail. Qed.
Lemma hx_upd_rec : forall Q i f, hx done Q (upd_rec i f).
Proof. intros; unfold upd_rec. apply hx_modws; intros; dn. Qed.
Lemma hx_evaluate_route : forall e r, hx done Qd (evaluate_route e r).
Proof. intros; unfold evaluate_route. hxw qr dn fail. Qed.

Lemma hx_process_transition : forall t route idx ts ctx e, hx done Qd (process_transition ev t route idx ts ctx e).
Proof.
  intros. unfold process_transition. cbv zeta.
  apply hx_bind.
  - apply (hx_try_catch done Qd (fun _ _ => True)).
    + apply hx_bind; [apply hx_mapM; intro; apply hx_evaluate_any|intro vs].
      apply hx_bind; [apply hx_upd_rec|intro; apply hx_ret].
    + intro x. apply hx_bind; [apply hx_log_error|intros _]. apply hx_bind; [apply hx_rsc_failed|intros _; apply hx_ret].
  - intros [[|]|]; try apply hx_ret.
    apply hx_bind; [apply hx_finalize_context|intros [new_ctx errors]].
    destruct errors as [|x xs].
    2: { apply hx_bind; [apply hx_log_errors|intros _]. apply hx_bind; [apply hx_rsc_failed|intros _; apply hx_ret]. }
    hxw qr dn ltac:(first [apply hx_get_rec|apply hx_upd_rec|apply hx_evaluate_route]).
Qed.

(* ------------------------------------------------------------------ the call up to the completion step, forwards *)

Lemma tpe_completion_report : forall w r s st res, r_status r = Some s -> In s [S_RUNNING; S_PAUSING; S_CANCELING] ->
  status_in st COMPLETED_STATUSES = true ->
  task_process_event w r (EvAction st res) = Val (Some (reported st)).
Proof.
  intros w r s st res Hs Hin Hst. destruct (F_completion_step s st Hin Hst) as [Hstep Hv].
  unfold task_process_event. cbn [ev_name]. rewrite Hv. cbn [negb]. unfold task_table_step, rstatus. rewrite Hs.
  unfold tbl_step in Hstep. destruct (tbl_row task_table s) as [row|]; [rewrite Hstep; reflexivity|discriminate].
Qed.

(* the task has no retry to spend: no policy, or the tally has reached the count *)
Definition no_retry_left (r : trec) : Prop :=
  r_retry r = None \/
  exists rr, r_retry r = Some rr /\ py_is_int (rr_count rr) = true /\ (py_int_value (rr_count rr) <= Z.of_nat (rr_tally rr))%Z.
Lemma no_retry_left_false : forall r ctx c, no_retry_left r -> evaluate_task_retry ev r ctx c = (c, Val false).
Proof.
  intros r ctx c [H|[rr [H [Hi Hle]]]]; unfold evaluate_task_retry; rewrite H; [reflexivity|].
  rewrite Hi. cbn [negb]. apply Z.leb_le in Hle. rewrite Hle. reflexivity.
Qed.

(* what stays of the state up to the completion step *)
Definition kept (c c' : cstate) : Prop :=
  tasks (c_ws c') = tasks (c_ws c) /\ contexts (c_ws c') = contexts (c_ws c) /\ routes (c_ws c') = routes (c_ws c) /\
  wstatus (c_ws c') = wstatus (c_ws c) /\ c_graph c' = c_graph c /\ c_spec c' = c_spec c /\ c_init c' = c_init c /\
  length (sequence (c_ws c')) = length (sequence (c_ws c)).

Lemma late_pre_main : forall t route st res ts s0 idx r s c,
  WF c -> (done c \/ no_retry_left r) -> is_engine_command t = false -> task_has_items ts = false ->
  nth_error (sequence (c_ws c)) idx = Some r -> r_status r = Some s -> In s [S_RUNNING; S_PAUSING; S_CANCELING] ->
  status_in st COMPLETED_STATUSES = true ->
  exists c1 ctx,
    pre_main ev t route (EvAction st res) ts s0 (Some idx) c =
      (c1, Val {| po_ts := ts; po_idx := idx; po_old := s; po_new := reported st; po_compl := Some (ctx, false) |}) /\
    kept c c1 /\ nth_error (sequence (c_ws c1)) idx = Some (r_set_status r (Some (reported st))) /\
    (forall j, j <> idx -> nth_error (sequence (c_ws c1)) j = nth_error (sequence (c_ws c)) j) /\ WF c1.
Proof.
  intros t route st res ts s0 idx r s c Wc Hd Hcmd Hit Hr Hs Hin Hst.
  destruct (F_running_not_completed s Hin) as [Hnc [Hnr Hne]].
  destruct (F_reported_completed st) as [Hrc [_ Hrr]].
  unfold pre_main.
  (* selection *)
  assert (E1 : uts_sel1 ev t s0 (Some idx) c = (c, Val idx)) by (unfold uts_sel1; rewrite Hcmd; reflexivity).
  rewrite (bind_step _ _ _ _ _ _ _ E1).
  assert (Eg : get_rec idx c = (c, Val r)) by (unfold get_rec, bind, getws; rewrite Hr; reflexivity).
  rewrite (bind_step _ _ _ _ _ _ _ Eg).
  assert (E2 : uts_sel2 ev t (EvAction st res) s0 r idx c = (c, Val idx)).
  { unfold uts_sel2. unfold ostatus_in. rewrite Hs, Hnc. reflexivity. }
  rewrite (bind_step _ _ _ _ _ _ _ E2).
  (* unstage *)
  set (cU := match s0 with
             | Some s' => match s_items s' with None => set_ws c (ws_remove_staged_task (c_ws c) t route) | Some _ => c end
             | None => c end).
  assert (E3 : uts_unstage t route (EvAction st res) s0 c = (cU, Val tt)).
  { unfold uts_unstage, cU. destruct s0 as [s'|]; [|reflexivity]. destruct (s_items s'); reflexivity. }
  rewrite (bind_step _ _ _ _ _ _ _ E3).
  assert (KU : kept c cU /\ sequence (c_ws cU) = sequence (c_ws c)).
  { unfold cU. destruct s0 as [s'|]; [|repeat split].
    destruct (s_items s'); [repeat split|]. unfold kept. cbn [c_ws set_ws c_graph c_spec c_init].
    rewrite tasks_remove_staged, contexts_remove_staged, routes_remove_staged, ws_remove_staged_status, seq_remove_staged.
    repeat split. }
  destruct KU as [KU SU].
  assert (E4 : uts_item t route (EvAction st res) s0 cU = (cU, Val tt)) by (unfold uts_item; destruct s0; reflexivity).
  rewrite (bind_step _ _ _ _ _ _ _ E4).
  (* the note of a failed action *)
  assert (E5 : exists cL, uts_logfail t (EvAction st res) cU = (cL, Val tt) /\ c_ws cL = c_ws cU /\ c_graph cL = c_graph cU /\
                          c_spec cL = c_spec cU /\ c_init cL = c_init cU).
  { unfold uts_logfail. destruct (status_eqb (ev_status (EvAction st res)) S_FAILED); [|exists cU; repeat split].
    unfold log_entry_error, modify. cbv zeta. eexists. split; [reflexivity|].
    destruct (existsb _ _); repeat split. }
  destruct E5 as [cL [E5 [WL [GL [SL IL]]]]]. rewrite (bind_step _ _ _ _ _ _ _ E5).
  assert (WfL : WF cL).
  { eapply WF_Rw; [|exact Wc]. eapply Rw_trans; [eapply pw_unstage; exact E3|]. eapply pw_logfail; exact E5. }
  assert (HrL : nth_error (sequence (c_ws cL)) idx = Some r) by (rewrite WL, SU; exact Hr).
  (* the task machine *)
  unfold pre_machine.
  assert (EgL : get_rec idx cL = (cL, Val r)) by (unfold get_rec, bind, getws; rewrite HrL; reflexivity).
  rewrite (bind_step _ _ _ _ _ _ _ EgL).
  rewrite (bind_step _ _ _ _ _ _ _ (eq_refl : getws cL = (cL, Val (c_ws cL)))).
  rewrite (tpe_completion_report (c_ws cL) r s st res Hs Hin Hst).
  rewrite (bind_step _ _ _ _ _ _ _ (eq_refl : lift_res (Val (Some (reported st))) cL = (cL, Val (Some (reported st))))).
  set (r' := r_set_status r (Some (reported st))).
  set (c6 := set_ws cL (ws_update_rec (c_ws cL) idx (fun r0 => r_set_status r0 (Some (reported st))))).
  assert (E6 : uts_setst idx (Some (reported st)) cL = (c6, Val tt)) by reflexivity.
  rewrite (bind_step _ _ _ _ _ _ _ E6).
  assert (Hr6 : nth_error (sequence (c_ws c6)) idx = Some r')
    by (exact (nth_update_rec_same (c_ws cL) idx (fun r0 => r_set_status r0 (Some (reported st))) r HrL)).
  assert (Eg6 : get_rec idx c6 = (c6, Val r')) by (unfold get_rec, bind, getws; rewrite Hr6; reflexivity).
  rewrite (bind_step _ _ _ _ _ _ _ Eg6).
  assert (Hst' : rstatus r' = reported st) by reflexivity. rewrite Hst'.
  assert (E7 : uts_retrying t route idx r' (reported st) c6 = (c6, Val tt)).
  { unfold uts_retrying. destruct (status_eqb (reported st) S_RETRYING) eqn:E; [|reflexivity].
    apply status_eqb_eq in E. contradiction. }
  rewrite (bind_step _ _ _ _ _ _ _ E7).
  assert (Hold : rstatus r = s) by (unfold rstatus; rewrite Hs; reflexivity). rewrite Hold.
  (* completion *)
  assert (W6 : WF c6).
  { apply WF_update_rec; [exact WfL|]. intros r0 Hr0. rewrite HrL in Hr0; inversion Hr0; subst r0.
    split; [reflexivity|]. intro E. exfalso. apply Hrr. exact E. }
  set (c7 := set_ws c6 (ws_remove_staged_task (c_ws c6) t route)).
  assert (W7 : WF c7) by (eapply WF_Rw; [apply Rw_remove_staged|exact W6]).
  assert (Hr7 : nth_error (sequence (c_ws c7)) idx = Some r') by (unfold c7; cbn [c_ws set_ws]; rewrite seq_remove_staged; exact Hr6).
  assert (Hs7 : wstatus (c_ws c7) = wstatus (c_ws c)).
  { unfold c7, c6. cbn [c_ws set_ws]. rewrite ws_remove_staged_status, ws_update_rec_status, WL.
    destruct KU as [_ [_ [_ [X _]]]]. exact X. }
  destruct (get_task_context_ok (r_in r') c7) as [d Ed].
  { apply (wf_rec _ W7). eapply nth_error_In; exact Hr7. }
  assert (Ec : exists ctx, uts_completion ev t route (EvAction st res) ts idx (reported st) s c6 = (c7, Val (Some (ctx, false)))).
  { unfold uts_completion. rewrite Hrc, Hit. cbn [andb negb]. cbv iota.
    rewrite (bind_step _ _ _ _ _ _ _ (eq_refl : modws (fun w => ws_remove_staged_task w t route) c6 = (c7, Val tt))).
    cbv zeta.
    assert (Eg7 : get_rec idx c7 = (c7, Val r')) by (unfold get_rec, bind, getws; rewrite Hr7; reflexivity).
    rewrite (bind_step _ _ _ _ _ _ _ Eg7). rewrite (bind_step _ _ _ _ _ _ _ Ed).
    rewrite (bind_step _ _ _ _ _ _ _ (eq_refl : getws c7 = (c7, Val (c_ws c7)))).
    destruct Hd as [Hd|Hd].
    - rewrite Hs7, (F_done_not_active _ Hd). rewrite andb_false_r. cbn [andb].
      eexists. unfold try_catch, bind, ret. reflexivity.
    - eexists. match goal with |- context [if ?g then _ else _] => destruct g end.
      + assert (Hd' : no_retry_left r') by exact Hd.
        unfold bind, try_catch. rewrite (no_retry_left_false r' _ c7 Hd'). reflexivity.
      + unfold try_catch, bind, ret. reflexivity. }
  destruct Ec as [ctx Ec].
  exists c7, ctx.
  split; [rewrite (bind_step _ _ _ _ _ _ _ Ec); reflexivity|].
  split.
  { assert (L6 : length (sequence (ws_update_rec (c_ws cL) idx (fun r0 => r_set_status r0 (Some (reported st))))) = length (sequence (c_ws cL)))
      by (unfold ws_update_rec; rewrite HrL; cbn [sequence ws_set_sequence]; apply length_set_nth).
    unfold kept, c7, c6. cbn [c_ws set_ws c_graph c_spec c_init].
    rewrite tasks_remove_staged, contexts_remove_staged, routes_remove_staged, ws_remove_staged_status, seq_remove_staged.
    rewrite tasks_update_rec, contexts_update_rec, routes_update_rec, ws_update_rec_status, L6.
    destruct KU as [K1 [K2 [K3 [K4 [K5 [K6 [K7 K8]]]]]]]. rewrite WL, GL, SL, IL. repeat split; assumption. }
  split; [exact Hr7|]. split; [|exact W7].
  intros j Hj. unfold c7, c6. cbn [c_ws set_ws]. rewrite seq_remove_staged.
  rewrite nth_update_rec_other by (intro E; apply Hj; symmetry; exact E). rewrite WL, SU. reflexivity.
Qed.

Lemma hx_queue : forall t route idx ts o n compl, hx done Qd (uts_queue ev t route idx ts o n compl).
Proof.
  intros. unfold uts_queue.
  hxw qr dn ltac:(first [apply hx_upd_rec|apply hx_process_transition|apply hx_get_rec]).
Qed.

(* ------------------------------------------------------------------ a completed record keeps its status *)

Definition Rcs (idx : nat) (s : status) (c c' : cstate) : Prop :=
  forall r, nth_error (sequence (c_ws c)) idx = Some r -> r_status r = Some s ->
    exists r', nth_error (sequence (c_ws c')) idx = Some r' /\ r_status r' = Some s.
Lemma Rcs_refl : forall idx s c, Rcs idx s c c.
Proof. intros idx s c r H1 H2; exists r; auto. Qed.
Lemma Rcs_trans : forall idx s a b c, Rcs idx s a b -> Rcs idx s b c -> Rcs idx s a c.
Proof. intros idx s a b c H1 H2 r Hr Hs. destruct (H1 r Hr Hs) as [r1 [A B]]. exact (H2 r1 A B). Qed.
Lemma Rcs_same_seq : forall idx s c c', sequence (c_ws c') = sequence (c_ws c) -> Rcs idx s c c'.
Proof. intros idx s c c' E r H1 H2; exists r; rewrite E; auto. Qed.
Lemma Rcs_update : forall idx s c j f, (forall r, r_status (f r) = r_status r) ->
  Rcs idx s c (set_ws c (ws_update_rec (c_ws c) j f)).
Proof.
  intros idx s c j f Hf r Hr Hs. cbn [c_ws set_ws]. destruct (Nat.eq_dec j idx) as [->|Hn].
  - exists (f r). split; [apply nth_update_rec_same; exact Hr|rewrite Hf; exact Hs].
  - exists r. split; [rewrite nth_update_rec_other by exact Hn; exact Hr|exact Hs].
Qed.

Section StatusKept.
Variable idx : nat.
Variable s : status.
Hypothesis Hcs : status_in s COMPLETED_STATUSES = true.

Ltac leaf :=
  first
    [ apply (preserves_modws (Rcs idx s)); intro; apply Rcs_same_seq; reflexivity
    | apply (preserves_modws (Rcs idx s)); intro; apply Rcs_update; intro; reflexivity
    | apply (preserves_modify (Rcs idx s)); intro; apply Rcs_same_seq; cbv zeta;
      try match goal with |- context [if ?b then _ else _] => destruct b end; reflexivity
    | assumption
    | match goal with IH : forall _ _ _, preserves _ _ |- _ => apply IH end ].
Ltac walk := pw (Rcs_refl idx s) (Rcs_trans idx s) leaf.

Lemma pcs_request_status_core : forall st, preserves (Rcs idx s) (request_status_core st).
Proof.
  intros st c c' res H r Hr Hs. pose proof (pmod_request_status_core st c c' res H) as Hm.
  exists r. split; [|exact Hs]. rewrite Hm; [exact Hr|].
  intro Hin. apply in_map_iff in Hin. destruct Hin as [[j rj] [Ej Hin]]. simpl in Ej; subst j.
  apply tasks_by_status_In in Hin. destruct Hin as [Hn' Ha]. rewrite Hr in Hn'; inversion Hn'; subst rj.
  unfold ostatus_in in Ha. rewrite Hs in Ha. exact (F_active_not_completed s Ha Hcs).
Qed.
Lemma pcs_log_error : forall e t r tr, preserves (Rcs idx s) (log_error e t r tr).
Proof. intros; unfold log_error, log_entry_error; walk. Qed.
Lemma pcs_log_errors : forall es t r tr, preserves (Rcs idx s) (log_errors es t r tr).
Proof. intros; unfold log_errors. apply (preserves_forM _ (Rcs_refl idx s) (Rcs_trans idx s)); intro; apply pcs_log_error. Qed.
Lemma pcs_render_vars : forall specs rolling rendered errs, preserves (Rcs idx s) (render_vars ev specs rolling rendered errs).
Proof. induction specs as [|[n d] specs IH]; intros; simpl; walk. Qed.
Lemma pcs_process_transition : forall t route i ts ctx e, preserves (Rcs idx s) (process_transition ev t route i ts ctx e).
Proof.
  intros. unfold process_transition, finalize_context, get_rec, upd_rec, evaluate_route.
  pw (Rcs_refl idx s) (Rcs_trans idx s)
     ltac:(first [apply pcs_request_status_core|apply pcs_log_error|apply pcs_log_errors|apply pcs_render_vars|leaf]).
Qed.
Lemma pcs_queue : forall t route i ts o n compl, preserves (Rcs idx s) (uts_queue ev t route i ts o n compl).
Proof.
  intros. unfold uts_queue, get_rec, upd_rec.
  pw (Rcs_refl idx s) (Rcs_trans idx s) ltac:(first [apply pcs_process_transition|leaf]).
Qed.
End StatusKept.

(* what the queue holds comes from the edges of the task *)
Lemma queue_from_edges : forall t route idx ts o n compl c c' q,
  uts_queue ev t route idx ts o n compl c = (c', Val q) ->
  forall p, In p q -> exists e, In e (g_next_transitions (c_graph c) t) /\ e_dst e = fst p /\ is_engine_command (fst p) = true.
Proof.
  intros t route idx ts o n compl c c' q H p Hp. unfold uts_queue in H.
  destruct compl as [[ctx b]|]; [|inversion H; subst; destruct Hp].
  destruct (negb (status_eqb n o)); [|inversion H; subst; destruct Hp].
  apply bind_val_inv' in H. destruct H as [c0 [cst [E0 H]]]. inversion E0; subst c0 cst; clear E0. cbv zeta in H.
  apply bind_val_inv' in H. destruct H as [c1 [u1 [_ H]]].
  apply bind_val_inv' in H. destruct H as [c2 [rs [E2 H]]].
  apply bind_val_inv' in H. destruct H as [c3 [u3 [_ H]]].
  apply bind_val_inv' in H. destruct H as [c4 [r4 [_ H]]].
  apply bind_val_inv' in H. destruct H as [c5 [u5 [_ H]]]. inversion H; subst c' q; clear H.
  assert (V : vpost (Forall2 (fun e (v : option (string * nat) * option (string * nat)) =>
                                forall x, fst v = Some x -> fst x = e_dst e /\ is_engine_command (fst x) = true)
                             (g_next_transitions (c_graph c) t))
                    (mapM (process_transition ev t route idx ts ctx) (g_next_transitions (c_graph c) t))).
  { apply vpost_mapM. intro e. unfold process_transition. apply vpost_bind; intros [[|]|];
      try (apply vpost_ret; intros x Hx; discriminate).
    apply vpost_bind; intros [new_ctx errors]. destruct errors as [|e1 errs].
    2: { repeat (apply vpost_bind; intro). apply vpost_ret; intros x Hx; discriminate. }
    repeat (apply vpost_bind; intro).
    destruct (is_engine_command (e_dst e)) eqn:E.
    - apply vpost_ret; intros x Hx; inversion Hx; subst; split; [reflexivity|exact E].
    - match goal with |- vpost _ (if ?b then _ else _) => destruct b end; apply vpost_ret; intros x Hx; discriminate. }
  specialize (V _ _ _ E2). clear -V Hp.
  induction V as [|e [q0 q1] l rs Hq Hl IH]; simpl in Hp; [destruct Hp|].
  destruct q0 as [x|]; simpl in Hp.
  - destruct Hp as [<-|Hp].
    + destruct (Hq x eq_refl) as [A B]. exists e. split; [left; reflexivity|split; [symmetry; exact A|exact B]].
    + destruct (IH Hp) as [e' [A B]]. exists e'. split; [right; exact A|exact B].
  - destruct (IH Hp) as [e' [A B]]. exists e'. split; [right; exact A|exact B].
Qed.

Lemma wf_task_event_done : forall t route st c, done c ->
  In st [S_SUCCEEDED; S_FAILED; S_CANCELED; S_RUNNING; S_PAUSING; S_CANCELING] ->
  wf_task_event_M t route st c = (c, Val []).
Proof.
  intros t route st c Hd Hst. unfold wf_task_event_M, wf_process_task_event.
  assert (Hv : string_in (wf_task_event_name (c_graph c) (c_ws c) t route st) TASK_EXECUTION_EVENTS = true)
    by (unfold wf_task_event_name; apply F_task_event_vocab; exact Hst).
  rewrite Hv. cbn [negb]. destruct (F_done_task_event _ _ Hd Hv) as [row [Hrow Hag]]. rewrite Hrow, Hag.
  rewrite set_status_same. reflexivity.
Qed.

(* the whole call up to and including the completion step *)
Lemma late_prefix : forall t route st res ts idx r s c,
  WF c -> (done c \/ no_retry_left r) -> is_engine_command t = false -> g_has_task (c_graph c) t = true ->
  spec_get_task (c_spec c) t = Some ts -> task_has_items ts = false ->
  ws_task_idx (c_ws c) t route = Some idx -> nth_error (sequence (c_ws c)) idx = Some r ->
  r_status r = Some s -> In s [S_RUNNING; S_PAUSING; S_CANCELING] -> status_in st COMPLETED_STATUSES = true ->
  exists c1 ctx,
    uts_prefix ev t route (EvAction st res) c =
      (c1, Val {| po_ts := ts; po_idx := idx; po_old := s; po_new := reported st; po_compl := Some (ctx, false) |}) /\
    kept c c1 /\ nth_error (sequence (c_ws c1)) idx = Some (r_set_status r (Some (reported st))) /\ WF c1.
Proof.
  intros t route st res ts idx r s c Wc Hd Hcmd Hg Hts Hit Hp Hr Hs Hin Hst.
  unfold uts_prefix. rewrite (bind_step _ _ _ _ _ _ _ (ensure_ws_inited ev c (wf_init _ Wc))).
  rewrite (bind_step _ _ _ _ _ _ _ (eq_refl : get c = (c, Val c))). rewrite Hg. cbn [negb]. cbv zeta. rewrite Hts.
  rewrite (bind_step _ _ _ _ _ _ _ (eq_refl : ret ts c = (c, Val ts))). rewrite Hp.
  destruct (late_pre_main t route st res ts (get_staged_task (c_ws c) t route) idx r s c Wc Hd Hcmd Hit Hr Hs Hin Hst)
    as [c1 [ctx [E [K [Hr1 [_ W1]]]]]].
  exists c1, ctx. split; [destruct (get_staged_task (c_ws c) t route); exact E|]. split; [exact K|]. split; [exact Hr1|exact W1].
Qed.

Hypothesis Hev : eval_no_internal ev.

(* after the completion step: the transitions, the workflow machine, the terminal flag *)
Lemma late_tail : forall rec t route ts idx s st ctx c c' res,
  uts_tail ev rec t route ts idx s (reported st) (Some (ctx, false)) c = (c', res) ->
  WF c -> static_ok (c_spec c) (c_graph c) -> done c -> spec_get_task (c_spec c) t = Some ts ->
  ws_task_idx (c_ws c) t route = Some idx ->
  (exists r, nth_error (sequence (c_ws c)) idx = Some r /\ r_status r = Some (reported st)) ->
  (forall e, In e (g_next_transitions (c_graph c) t) -> is_engine_command (e_dst e) = false) ->
  (res = Val tt \/ (wstatus (c_ws c') = S_CANCELED /\ res = Exc fail_refused)) /\
  done c' /\ (exists r', nth_error (sequence (c_ws c')) idx = Some r' /\ r_status r' = Some (reported st)) /\ WF c'.
Proof.
  intros rec t route ts idx s st ctx c c' res H Wc Hso Hd Hts Hp [r [Hr Hs]] Hnc. unfold uts_tail in H.
  destruct (F_reported_completed st) as [Hrc [Hgood _]].
  destruct (wf_ptr _ Wc _ _ Hp) as [Hidx Hroute]. simpl in Hroute.
  assert (Hdist : cmd_routes_distinct c t route).
  { unfold cmd_routes_distinct, cmd_edges_on_route.
    assert (E : filter (fun e => is_engine_command (e_dst e) && stays c route e) (g_next_transitions (c_graph c) t) = []).
    { induction (g_next_transitions (c_graph c) t) as [|e l IH]; [reflexivity|]. simpl.
      rewrite (Hnc e (or_introl eq_refl)). simpl. apply IH. intros e0 He0; apply Hnc; right; exact He0. }
    rewrite E. constructor. }
  apply bind_inv in H. destruct H as [[c2 [q [E1 H]]]|[x [E1 ->]]].
  2: { destruct (queue_wf ev Hev _ _ _ _ _ _ _ _ _ _ E1 Wc Hso Hts Hroute Hidx Hdist) as [Wx [_ [N1 _]]].
       destruct (hx_queue _ _ _ _ _ _ _ c c' (Exc x) Hd E1) as [D1 Q1].
       split; [|split; [exact D1|split; [exact (pcs_queue idx (reported st) Hrc _ _ _ _ _ _ _ _ _ _ E1 r Hr Hs)|exact Wx]]].
       right. destruct (Q1 x eq_refl) as [X|[X1 X2]]; [exfalso; exact (N1 x eq_refl X)|]. subst x. split; [exact X1|reflexivity]. }
  destruct (queue_wf ev Hev _ _ _ _ _ _ _ _ _ _ E1 Wc Hso Hts Hroute Hidx Hdist) as [W2 [G2 _]].
  destruct (hx_queue _ _ _ _ _ _ _ c c2 (Val q) Hd E1) as [D2 _].
  destruct (pcs_queue idx (reported st) Hrc _ _ _ _ _ _ _ _ _ _ E1 r Hr Hs) as [r2 [Hr2 Hs2]].
  assert (Hq : q = []).
  { destruct q as [|p q]; [reflexivity|exfalso].
    destruct (queue_from_edges _ _ _ _ _ _ _ _ _ _ E1 p (or_introl eq_refl)) as [e [He [Hde Hc]]].
    rewrite <- Hde, (Hnc e He) in Hc. discriminate. }
  subst q.
  assert (Eg : get_rec idx c2 = (c2, Val r2)) by (unfold get_rec, bind, getws; rewrite Hr2; reflexivity).
  rewrite (bind_step _ _ _ _ _ _ _ Eg) in H. rewrite Hs2 in H.
  rewrite (bind_step _ _ _ _ _ _ _ (eq_refl : ret (reported st) c2 = (c2, Val (reported st)))) in H.
  rewrite (bind_step _ _ _ _ _ _ _ (wf_task_event_done t route (reported st) c2 D2 Hgood)) in H.
  unfold log_unreachable in H. cbn [forM_] in H.
  rewrite (bind_step _ _ _ _ _ _ _ (eq_refl : ret tt c2 = (c2, Val tt))) in H.
  rewrite (bind_step _ _ _ _ _ _ _ (eq_refl : ret tt c2 = (c2, Val tt))) in H.
  rewrite (bind_step _ _ _ _ _ _ _ (eq_refl : getws c2 = (c2, Val (c_ws c2)))) in H.
  rewrite (F_done_completed _ D2) in H. unfold upd_rec, modws in H. inversion H; subst c' res; clear H.
  split; [left; reflexivity|]. split; [unfold done; cbn [c_ws set_ws]; rewrite ws_update_rec_status; exact D2|].
  split; [exact (Rcs_update idx (reported st) c2 idx (fun r0 => r_set_term r0 true) (fun _ => eq_refl) r2 Hr2 Hs2)|].
  eapply WF_Rw; [|exact W2]. apply Rw_update_rec. intro; repeat split; auto.
Qed.

(* ------------------------------------------------------------------ the theorem *)

Theorem late_report_absorbed : forall t route st res ts idx r s c c' r',
  WF c -> static_ok (c_spec c) (c_graph c) -> done c ->
  is_engine_command t = false -> g_has_task (c_graph c) t = true ->
  spec_get_task (c_spec c) t = Some ts -> task_has_items ts = false ->
  (forall e, In e (g_next_transitions (c_graph c) t) -> is_engine_command (e_dst e) = false) ->
  ws_task_idx (c_ws c) t route = Some idx -> nth_error (sequence (c_ws c)) idx = Some r ->
  r_status r = Some s -> In s [S_RUNNING; S_PAUSING; S_CANCELING] -> status_in st COMPLETED_STATUSES = true ->
  update_task_state ev t route (EvAction st res) c = (c', r') ->
  (r' = Val tt \/ (wstatus (c_ws c') = S_CANCELED /\ r' = Exc fail_refused)) /\
  WF c' /\
  (wstatus (c_ws c') = wstatus (c_ws c) \/ (wstatus (c_ws c) = S_SUCCEEDED /\ wstatus (c_ws c') = S_FAILED)) /\
  (exists r1, nth_error (sequence (c_ws c')) idx = Some r1 /\ r_status r1 = Some (reported st)).
Proof.
  intros t route st res ts idx r s c c' r' Wc Hso Hd Hcmd Hg Hts Hit Hnc Hp Hr Hs Hin Hst H.
  pose proof (pres_update_task_state ev _ _ _ _ _ _ H) as Hreach.
  unfold update_task_state in H. rewrite uts_unfold, body_eq in H.
  destruct (late_prefix t route st res ts idx r s c Wc (or_introl Hd) Hcmd Hg Hts Hit Hp Hr Hs Hin Hst) as [c1 [ctx [E1 [K [Hr1 W1]]]]].
 rewrite (bind_step _ _ _ _ _ _ _ E1) in H.
  unfold tail_of in H. cbn [po_ts po_idx po_old po_new po_compl] in H.
  destruct K as [K1 [K2 [K3 [K4 [K5 [K6 [K7 K8]]]]]]].
  destruct (late_tail _ _ _ _ _ _ _ _ _ _ _ H W1) as [A [B [C D]]].
  - rewrite K5, K6; exact Hso.
  - unfold done; rewrite K4; exact Hd.
  - rewrite K6; exact Hts.
  - unfold ws_task_idx in *; rewrite K1; exact Hp.
  - eexists; split; [exact Hr1|reflexivity].
  - rewrite K5; exact Hnc.
  - split; [exact A|]. split; [exact D|]. split; [|exact C].
    apply reach_done_exact; [exact Hd|exact Hreach].
Qed.

End Transitions.

(* what the late task's transitions staged is not offered: nothing is, in a canceled or succeeded workflow (in a failed
   one only entries flagged run_on_fail are, C04_failed_offers_only_cleanup) *)
Theorem late_report_no_offers : forall ev c', WF c' -> In (wstatus (c_ws c')) [S_SUCCEEDED; S_CANCELED] ->
  get_next_tasks ev c' = (c', Val []).
Proof. intros ev c' W H. apply no_offers_when_done; [apply (wf_init _ W)|exact H]. Qed.
