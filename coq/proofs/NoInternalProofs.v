(* NoInternalProofs.v -- "no internal error": from a well-formed conductor state, an API call that is
   not malformed never raises one of the Python exception classes that signal a bug of the engine
   (KeyError, IndexError, TypeError, ValueError, AttributeError), and leaves the state well-formed
   -- whether it returns or raises one of the documented refusals.
   Scope: serialize, request_workflow_status, get_next_tasks, update_task_state with provider events,
   render_workflow_output, persist.  request_workflow_rerun is out of scope (known findings D8,
   C15-rerun-of-inflight break the invariants).  See props/C15b.v for the statements, the malformed-call
   classification and the refuting witnesses found on the way. *)
From Coq Require Import String List Bool ZArith Arith Lia.
From Orq Require Import GenStatuses GenEvents GenTables GenSpecMeta Base State Machines Codec Conductor Decode Api.
From Orq Require Import F_tables Hoare ValuePost C13Proofs C05Proofs C18Proofs RetryProofs RetryBoundProofs.
Import ListNotations.
Open Scope string_scope.
Open Scope monad_scope.

(* ------------------------------------------------------------------ internal classes *)

(* classes the model raises where the engine has no documented refusal: they mirror Python errors of the
   engine's own code.  Documented (not internal): InvalidTask, InvalidTaskStateEntry, InvalidEvent,
   InvalidTaskStatusTransition, InvalidWorkflowStatusTransition, WorkflowIsActiveAndNotRerunableError,
   InvalidTaskRerunRequest; OutOfFuel and PersistFailed are model artefacts with their own theorems. *)
Definition internal_names : list string := ["KeyError"; "IndexError"; "TypeError"; "ValueError"; "AttributeError"].
Definition internal_cls (e : exn) : Prop := string_in (x_cls e) internal_names = true.

Definition ni {A} (m : M A) : Prop := forall c c' e, m c = (c', Exc e) -> ~ internal_cls e.

Lemma ni_ret : forall A (a : A), ni (ret a).
Proof. intros A a c c' e H; inversion H. Qed.
Lemma ni_raise : forall A e, ~ internal_cls e -> ni (@raise A e).
Proof. intros A e He c c' e' H; inversion H; subst; exact He. Qed.
Lemma ni_get : ni get.
Proof. intros c c' e H; inversion H. Qed.
Lemma ni_getws : ni getws.
Proof. intros c c' e H; inversion H. Qed.
Lemma ni_modify : forall f, ni (modify f).
Proof. intros f c c' e H; inversion H. Qed.
Lemma ni_modws : forall f, ni (modws f).
Proof. intros f c c' e H; inversion H. Qed.
Lemma ni_bind : forall A B (m : M A) (f : A -> M B), ni m -> (forall a, ni (f a)) -> ni (bind m f).
Proof.
  intros A B m f Hm Hf c c' e H. unfold bind in H. destruct (m c) as [c1 [a|x]] eqn:E.
  - eapply Hf; exact H.
  - inversion H; subst. eapply Hm; exact E.
Qed.
Lemma ni_try_catch : forall A (m : M A) h, (forall e, ni (h e)) -> ni (try_catch m h).
Proof.
  intros A m h Hh c c' e H. unfold try_catch in H. destruct (m c) as [c1 [a|x]] eqn:E; [inversion H|].
  eapply Hh; exact H.
Qed.
Lemma ni_try_catch_expr : forall A (m : M A) h, ni m -> (forall e, ni (h e)) -> ni (try_catch_expr m h).
Proof.
  intros A m h Hm Hh c c' e H. unfold try_catch_expr in H. destruct (m c) as [c1 [a|x]] eqn:E; [inversion H|].
  destruct (x_expr x); [eapply Hh; exact H|inversion H; subst; eapply Hm; exact E].
Qed.
Lemma ni_mapM : forall A B (f : A -> M B) l, (forall a, ni (f a)) -> ni (mapM f l).
Proof.
  intros A B f l Hf; induction l as [|x l IH]; simpl; [apply ni_ret|].
  apply ni_bind; [apply Hf|intro]. apply ni_bind; [exact IH|intro; apply ni_ret].
Qed.
Lemma ni_forM : forall A (l : list A) f, (forall a, ni (f a)) -> ni (forM_ l f).
Proof.
  intros A l f Hf; induction l as [|x l IH]; simpl; [apply ni_ret|].
  apply ni_bind; [apply Hf|intro; exact IH].
Qed.
Lemma ni_lift_res : forall A (r : result A), (forall e, r = Exc e -> ~ internal_cls e) -> ni (lift_res r).
Proof. intros A r H c c' e E. destruct r; inversion E; subst. apply H; reflexivity. Qed.

Ltac not_internal := unfold internal_cls; cbn; discriminate.

Ltac niw leaf :=
  lazymatch goal with
  | |- ni (ret _) => apply ni_ret
  | |- ni (raise _) => apply ni_raise; not_internal
  | |- ni get => apply ni_get
  | |- ni getws => apply ni_getws
  | |- ni (modify _) => apply ni_modify
  | |- ni (modws _) => apply ni_modws
  | |- ni (bind _ _) => apply ni_bind; [ niw leaf | intro; niw leaf ]
  | |- ni (try_catch _ _) => apply ni_try_catch; intro; niw leaf
  | |- ni (try_catch_expr _ _) => apply ni_try_catch_expr; [ niw leaf | intro; niw leaf ]
  | |- ni (mapM _ _) => apply ni_mapM; intro; niw leaf
  | |- ni (forM_ _ _) => apply ni_forM; intro; niw leaf
  | |- ni (match ?x with _ => _ end) => destruct x; niw leaf
  | |- ni ?m =>
      first [ solve [leaf]
            | let h := head_of m in progress (unfold h); niw leaf
            | progress (cbv beta); niw leaf
            | idtac ]
  end.

Create HintDb nidb.
Create HintDb preswf.
Create HintDb presst.

(* the evaluator (with the model's recursion over containers) never fails with an internal class.  Real
   evaluators violate this for an expression in dictionary-key position whose value is unhashable
   (witness W-C in props/C15b.v): the hypothesis marks that defect's boundary. *)
Definition eval_no_internal (ev : string -> dict -> evalres) : Prop := forall stmt ctx, ni (evaluate ev stmt ctx).

Section Unconditional.
Variable ev : string -> dict -> evalres.
Hypothesis Hev : eval_no_internal ev.

Ltac leaf :=
  first
    [ assumption
    | apply Hev
    | match goal with IH : forall _ _ _, ni _ |- _ => apply IH end
    | match goal with IH : forall _ _, ni _ |- _ => apply IH end
    | match goal with IH : forall _ _ _ _, ni _ |- _ => apply IH end
    | eauto 3 with nidb ].
Ltac walk := niw leaf.

Lemma ni_wf_workflow_event : forall st, ni (wf_workflow_event_M st).
Proof.
  intros st c c' e H. unfold wf_workflow_event_M in H.
  destruct (wf_process_workflow_event (c_graph c) (c_ws c) st) as [[new unr]|x] eqn:E; inversion H; subst.
  unfold wf_process_workflow_event in E.
  destruct (negb (string_in _ _)); [inversion E; not_internal|].
  destruct (tbl_row wf_table _); [|inversion E; not_internal].
  destruct (aget _ _ _); [|discriminate]. destruct (_ && _); discriminate.
Qed.
Hint Resolve ni_wf_workflow_event : nidb.
Lemma ni_wf_task_event : forall t route st, ni (wf_task_event_M t route st).
Proof.
  intros t route st c c' e H. unfold wf_task_event_M in H.
  destruct (wf_process_task_event (c_graph c) (c_ws c) t route st) as [[new unr]|x] eqn:E; inversion H; subst.
  unfold wf_process_task_event in E.
  destruct (negb (string_in _ _)); [inversion E; not_internal|].
  destruct (tbl_row wf_table _); [|inversion E; not_internal].
  destruct (aget _ _ _); [|discriminate]. destruct (_ && _); discriminate.
Qed.
Hint Resolve ni_wf_task_event : nidb.

Lemma task_table_step_ni : forall cur n e, task_table_step cur n = Exc e -> ~ internal_cls e.
Proof. intros cur n e H; unfold task_table_step in H. destruct (tbl_row task_table cur); inversion H; not_internal. Qed.

(* the task machine raises an internal class only for an item index outside the items table *)
Lemma tpe_ni : forall w r evt e, task_process_event w r evt = Exc e ->
  match evt with
  | EvItem item st _ _ =>
      match get_staged_task w (r_id r) (r_route r) with
      | Some s => match s_items s with Some its => Nat.ltb item (length its) = true | None => True end
      | None => True
      end
  | _ => True
  end -> ~ internal_cls e.
Proof.
  intros w r evt e H Hr; unfold task_process_event in H. destruct evt.
  - destruct (negb _); [inversion H; not_internal|eapply task_table_step_ni; exact H].
  - destruct (negb _); [inversion H; not_internal|eapply task_table_step_ni; exact H].
  - destruct (negb _); [inversion H; not_internal|].
    destruct (item_event_name w (r_id r) (r_route r) item st) as [n|x] eqn:En; [eapply task_table_step_ni; exact H|].
    inversion H; subst x. unfold item_event_name in En. cbv zeta in En.
    destruct (negb (status_in st item_requirements)); [discriminate|].
    destruct (get_staged_task w (r_id r) (r_route r)); [|discriminate].
    destruct (s_items s); [|discriminate]. rewrite Hr in En. cbn [negb] in En.
    repeat match type of En with (if ?b then _ else _) = _ => destruct b end; discriminate.
  - destruct (negb _); [inversion H; not_internal|eapply task_table_step_ni; exact H].
Qed.

Lemma ni_tpe_workflow : forall w r st, ni (lift_res (task_process_event w r (EvWorkflow st))).
Proof. intros; apply ni_lift_res; intros e H; eapply tpe_ni; [exact H|exact I]. Qed.
Hint Resolve ni_tpe_workflow : nidb.

Lemma ni_log_entry_error : forall m t r tr res, ni (log_entry_error m t r tr res).
Proof. intros; unfold log_entry_error; walk. Qed.
Hint Resolve ni_log_entry_error : nidb.
Lemma ni_log_error : forall e t r tr, ni (log_error e t r tr).
Proof. intros; unfold log_error; auto with nidb. Qed.
Hint Resolve ni_log_error : nidb.
Lemma ni_log_errors : forall es t r tr, ni (log_errors es t r tr).
Proof. intros; unfold log_errors; walk. Qed.
Hint Resolve ni_log_errors : nidb.
Lemma ni_log_unreachable : forall l, ni (log_unreachable l).
Proof. intros; unfold log_unreachable; walk. Qed.
Hint Resolve ni_log_unreachable : nidb.
Lemma ni_set_rec_status : forall i s, ni (set_rec_status i s).
Proof. intros; unfold set_rec_status; walk. Qed.
Hint Resolve ni_set_rec_status : nidb.
Lemma ni_upd_rec : forall i f, ni (upd_rec i f).
Proof. intros; unfold upd_rec; walk. Qed.
Hint Resolve ni_upd_rec : nidb.
Lemma ni_request_status_core : forall st, ni (request_status_core st).
Proof. intros; unfold request_status_core; walk. Qed.
Hint Resolve ni_request_status_core : nidb.
Lemma ni_render_input : forall specs rt rolling errs, ni (render_input ev specs rt rolling errs).
Proof. induction specs as [|[n d] specs IH]; intros; simpl; walk. Qed.
Hint Resolve ni_render_input : nidb.
Lemma ni_render_vars : forall specs rolling rendered errs, ni (render_vars ev specs rolling rendered errs).
Proof. induction specs as [|[n d] specs IH]; intros; simpl; walk. Qed.
Hint Resolve ni_render_vars : nidb.
Lemma ni_ensure_ws : ni (ensure_ws ev).
Proof. unfold ensure_ws; walk. Qed.
Hint Resolve ni_ensure_ws : nidb.
Theorem ni_request_workflow_status : forall st, ni (request_workflow_status ev st).
Proof. intros; unfold request_workflow_status; walk. Qed.
(* get_next_tasks: whatever goes wrong while preparing one task is caught and fails the workflow *)
Theorem ni_get_next_tasks : ni (get_next_tasks ev).
Proof. unfold get_next_tasks; walk. Qed.
(* a new record: the retry set-up is guarded; only the documented InvalidTask escapes *)
Lemma ni_add_task_state : forall t r i p, ni (add_task_state ev t r i p).
Proof. intros; unfold add_task_state; walk. Qed.
Hint Resolve ni_add_task_state : nidb.

End Unconditional.

(* ------------------------------------------------------------------ the definition never changes *)

Definition Rs (c c' : cstate) : Prop := c_spec c' = c_spec c.
Lemma Rs_refl : forall c, Rs c c.
Proof. intro; reflexivity. Qed.
Lemma Rs_trans : forall a b c, Rs a b -> Rs b c -> Rs a c.
Proof. unfold Rs; intros; congruence. Qed.

Create HintDb press.

Section SpecKept.
Variable ev : string -> dict -> evalres.

Ltac leaf :=
  first
    [ apply (preserves_modws Rs); intro; reflexivity
    | apply (preserves_modify Rs); intro; unfold Rs; simpl; reflexivity
    | apply (preserves_modify Rs); intro; unfold Rs;
      match goal with |- context [if ?b then _ else _] => destruct b end; reflexivity
    | assumption
    | match goal with IH : forall _ _ _, preserves _ _ |- _ => apply IH end
    | match goal with IH : forall _ _, preserves _ _ |- _ => apply IH end
    | match goal with IH : forall _ _ _ _, preserves _ _ |- _ => apply IH end
    | eauto 3 with press ].
Ltac walk := pw Rs_refl Rs_trans leaf.

Lemma ps_wf_workflow_event : forall st, preserves Rs (wf_workflow_event_M st).
Proof.
  intros st c c' r H. unfold wf_workflow_event_M in H.
  destruct (wf_process_workflow_event (c_graph c) (c_ws c) st) as [[new unr]|e]; inversion H; subst; reflexivity.
Qed.
Hint Resolve ps_wf_workflow_event : press.
Lemma ps_wf_task_event : forall t route st, preserves Rs (wf_task_event_M t route st).
Proof.
  intros t route st c c' r H. unfold wf_task_event_M in H.
  destruct (wf_process_task_event (c_graph c) (c_ws c) t route st) as [[new unr]|e]; inversion H; subst; reflexivity.
Qed.
Hint Resolve ps_wf_task_event : press.

Lemma ps_log_entry_error : forall m t r tr res, preserves Rs (log_entry_error m t r tr res).
Proof. intros; unfold log_entry_error; walk. Qed.
Hint Resolve ps_log_entry_error : press.
Lemma ps_log_error : forall e t r tr, preserves Rs (log_error e t r tr).
Proof. intros; unfold log_error; auto with press. Qed.
Hint Resolve ps_log_error : press.
Lemma ps_log_errors : forall es t r tr, preserves Rs (log_errors es t r tr).
Proof. intros; unfold log_errors; walk. Qed.
Hint Resolve ps_log_errors : press.
Lemma ps_log_unreachable : forall l, preserves Rs (log_unreachable l).
Proof. intros; unfold log_unreachable; walk. Qed.
Hint Resolve ps_log_unreachable : press.
Lemma ps_set_rec_status : forall i s, preserves Rs (set_rec_status i s).
Proof. intros; unfold set_rec_status; walk. Qed.
Hint Resolve ps_set_rec_status : press.
Lemma ps_upd_rec : forall i f, preserves Rs (upd_rec i f).
Proof. intros; unfold upd_rec; walk. Qed.
Hint Resolve ps_upd_rec : press.
Lemma ps_get_rec : forall i, preserves Rs (get_rec i).
Proof. intros; unfold get_rec; walk. Qed.
Hint Resolve ps_get_rec : press.
Lemma ps_request_status_core : forall st, preserves Rs (request_status_core st).
Proof. intros; unfold request_status_core; walk. Qed.
Hint Resolve ps_request_status_core : press.
Lemma ps_render_input : forall specs rt rolling errs, preserves Rs (render_input ev specs rt rolling errs).
Proof. induction specs as [|[n d] specs IH]; intros; simpl; walk. Qed.
Hint Resolve ps_render_input : press.
Lemma ps_render_vars : forall specs rolling rendered errs, preserves Rs (render_vars ev specs rolling rendered errs).
Proof. induction specs as [|[n d] specs IH]; intros; simpl; walk. Qed.
Hint Resolve ps_render_vars : press.
Lemma ps_ensure_ws : preserves Rs (ensure_ws ev).
Proof. unfold ensure_ws; walk. Qed.
Hint Resolve ps_ensure_ws : press.
Lemma ps_get_task_context : forall idxs, preserves Rs (get_task_context idxs).
Proof. intros; unfold get_task_context; walk. Qed.
Hint Resolve ps_get_task_context : press.
Lemma ps_setup_retry : forall t idxs, preserves Rs (setup_retry ev t idxs).
Proof. intros; unfold setup_retry; walk. Qed.
Hint Resolve ps_setup_retry : press.
Lemma ps_add_task_state : forall t r i p, preserves Rs (add_task_state ev t r i p).
Proof. intros; unfold add_task_state; walk. Qed.
Hint Resolve ps_add_task_state : press.
Lemma ps_evaluate_route : forall e r, preserves Rs (evaluate_route e r).
Proof. intros; unfold evaluate_route; walk. Qed.
Hint Resolve ps_evaluate_route : press.
Lemma ps_evaluate_task_retry : forall r ctx, preserves Rs (evaluate_task_retry ev r ctx).
Proof. intros; unfold evaluate_task_retry; walk. Qed.
Hint Resolve ps_evaluate_task_retry : press.
Lemma ps_finalize_context : forall ts e ctx, preserves Rs (finalize_context ev ts e ctx).
Proof. intros; unfold finalize_context; walk. Qed.
Hint Resolve ps_finalize_context : press.
Lemma ps_process_transition : forall t route idx ts ctx e, preserves Rs (process_transition ev t route idx ts ctx e).
Proof. intros; unfold process_transition; walk. Qed.
Hint Resolve ps_process_transition : press.

Lemma ps_need_staged : forall s0, preserves Rs (uts_need_staged s0).
Proof. intros; unfold uts_need_staged; walk. Qed.
Hint Resolve ps_need_staged : press.
Lemma ps_sel1 : forall t s0 e0, preserves Rs (uts_sel1 ev t s0 e0).
Proof. intros; unfold uts_sel1; walk. Qed.
Hint Resolve ps_sel1 : press.
Lemma ps_sel2 : forall t evt s0 r1 i, preserves Rs (uts_sel2 ev t evt s0 r1 i).
Proof. intros; unfold uts_sel2; walk. Qed.
Hint Resolve ps_sel2 : press.
Lemma ps_unstage : forall t route evt s0, preserves Rs (uts_unstage t route evt s0).
Proof. intros; unfold uts_unstage; walk. Qed.
Hint Resolve ps_unstage : press.
Lemma ps_item : forall t route evt s0, preserves Rs (uts_item t route evt s0).
Proof. intros; unfold uts_item; walk. Qed.
Hint Resolve ps_item : press.
Lemma ps_logfail : forall t evt, preserves Rs (uts_logfail t evt).
Proof. intros; unfold uts_logfail; walk. Qed.
Hint Resolve ps_logfail : press.
Lemma ps_setst : forall i ns, preserves Rs (uts_setst i ns).
Proof. intros; unfold uts_setst; walk. Qed.
Hint Resolve ps_setst : press.
Lemma ps_retrying : forall t route idx r ns, preserves Rs (uts_retrying t route idx r ns).
Proof. intros; unfold uts_retrying; walk. Qed.
Hint Resolve ps_retrying : press.
Lemma ps_completion : forall t route evt ts idx ns, preserves Rs (uts_completion ev t route evt ts idx ns).
Proof. intros; unfold uts_completion; walk. Qed.
Hint Resolve ps_completion : press.
Lemma ps_queue : forall t route idx ts o n compl, preserves Rs (uts_queue ev t route idx ts o n compl).
Proof. intros; unfold uts_queue; walk. Qed.
Hint Resolve ps_queue : press.
Lemma ps_pre_machine : forall t route evt ts idx, preserves Rs (pre_machine ev t route evt ts idx).
Proof. intros; unfold pre_machine; walk. Qed.
Hint Resolve ps_pre_machine : press.
Lemma ps_pre_main : forall t route evt ts s0 e0, preserves Rs (pre_main ev t route evt ts s0 e0).
Proof. intros; unfold pre_main; walk. Qed.
Hint Resolve ps_pre_main : press.
Lemma ps_prefix : forall t route evt, preserves Rs (uts_prefix ev t route evt).
Proof. intros; unfold uts_prefix; walk. Qed.

Lemma ps_tail : forall rec, (forall t route evt, preserves Rs (rec t route evt)) ->
  forall t route ts idx o n compl, preserves Rs (uts_tail ev rec t route ts idx o n compl).
Proof. intros rec Hrec; intros; unfold uts_tail, uts_call; walk. Qed.

Lemma ps_body : forall rec, (forall t route evt, preserves Rs (rec t route evt)) ->
  forall t route evt, preserves Rs (uts_body ev rec t route evt).
Proof.
  intros rec Hrec t route evt c c' r H. rewrite body_eq in H.
  revert c c' r H. apply (preserves_bind _ Rs_trans); [apply ps_prefix|intro p; apply ps_tail; exact Hrec].
Qed.

Lemma ps_uts_fuel : forall fuel t route evt, preserves Rs (update_task_state_fuel ev fuel t route evt).
Proof.
  induction fuel as [|fuel IH]; intros; [apply (preserves_raise _ Rs_refl)|].
  rewrite uts_unfold. apply ps_body; exact IH.
Qed.

Lemma ps_render_task : forall ts ctx, preserves Rs (render_task ev ts ctx).
Proof. intros; unfold render_task; walk. Qed.
Hint Resolve ps_render_task : press.
Lemma ps_next_task_for : forall s, preserves Rs (next_task_for ev s).
Proof. intros; unfold next_task_for; walk. Qed.
Hint Resolve ps_next_task_for : press.
Lemma ps_get_next_tasks : preserves Rs (get_next_tasks ev).
Proof. unfold get_next_tasks; walk. Qed.
Lemma ps_request_workflow_status : forall st, preserves Rs (request_workflow_status ev st).
Proof. intros; unfold request_workflow_status; walk. Qed.
Lemma ps_merge_term_contexts : forall l acc, preserves Rs (merge_term_contexts l acc).
Proof. induction l as [|[i r] l IH]; intros; simpl; walk. Qed.
Hint Resolve ps_merge_term_contexts : press.
Lemma ps_render_workflow_output : preserves Rs (render_workflow_output ev).
Proof. unfold render_workflow_output, get_workflow_terminal_context; walk. Qed.

End SpecKept.

(* ------------------------------------------------------------------ well-formed conductor states *)

Definition ctx_ok (w : wstate) (l : list nat) : Prop := In 0 l /\ forall i, In i l -> i < length (contexts w).

(* what the raise sites of the in-scope operations need of a state:
   - the lazy workflow state exists;
   - every pointer names an existing record and an existing route;
   - every staged entry sits on an existing route and reads existing contexts, the initial one among them;
   - every record reads existing contexts (the initial one among them), and a retrying record has a retry policy *)
Record WF (c : cstate) : Prop := {
  wf_init : c_init c = true;
  wf_ptr : forall k i, aget tkey_eqb k (tasks (c_ws c)) = Some i ->
             i < length (sequence (c_ws c)) /\ snd k < length (routes (c_ws c));
  wf_stg : forall s, In s (staged (c_ws c)) -> s_route s < length (routes (c_ws c)) /\ ctx_ok (c_ws c) (s_in s);
  wf_rec : forall r, In r (sequence (c_ws c)) ->
             ctx_ok (c_ws c) (r_in r) /\ (rstatus r = S_RETRYING -> r_retry r <> None) }.

(* changes that cannot hurt: statuses other than into retrying, staged entries modified or removed,
   flags, logs *)
Definition Rw (c c' : cstate) : Prop :=
  (c_init c = true -> c_init c' = true) /\
  tasks (c_ws c') = tasks (c_ws c) /\ contexts (c_ws c') = contexts (c_ws c) /\ routes (c_ws c') = routes (c_ws c) /\
  (forall s', In s' (staged (c_ws c')) ->
     exists s, In s (staged (c_ws c)) /\ s_id s' = s_id s /\ s_route s' = s_route s /\ s_in s' = s_in s) /\
  length (sequence (c_ws c')) = length (sequence (c_ws c)) /\
  (forall i r', nth_error (sequence (c_ws c')) i = Some r' ->
     exists r, nth_error (sequence (c_ws c)) i = Some r /\ r_in r' = r_in r /\ r_retry r' = r_retry r /\
               (rstatus r' = S_RETRYING -> rstatus r = S_RETRYING) /\ (r_status r <> None -> r_status r' <> None)).

Lemma Rw_refl : forall c, Rw c c.
Proof.
  intro c. repeat split; auto.
  - intros s Hs; exists s; auto.
  - intros i r H; exists r; auto.
Qed.
Lemma Rw_trans : forall a b c, Rw a b -> Rw b c -> Rw a c.
Proof.
  intros a b c [I1 [T1 [C1 [O1 [S1 [L1 Q1]]]]]] [I2 [T2 [C2 [O2 [S2 [L2 Q2]]]]]].
  split; [auto|]. split; [congruence|]. split; [congruence|]. split; [congruence|]. split; [|split; [congruence|]].
  - intros s2 H2. destruct (S2 _ H2) as [s1 [H1 [A1 [A2 A3]]]]. destruct (S1 _ H1) as [s0 [H0 [B1 [B2 B3]]]].
    exists s0; repeat split; congruence.
  - intros i r2 H2. destruct (Q2 _ _ H2) as [r1 [H1 [A1 [A2 [A3 A4]]]]]. destruct (Q1 _ _ H1) as [r0 [H0 [B1 [B2 [B3 B4]]]]].
    exists r0. split; [exact H0|]. split; [congruence|]. split; [congruence|]. split; auto.
Qed.

Lemma WF_Rw : forall c c', Rw c c' -> WF c -> WF c'.
Proof.
  intros c c' [I [T [C [O [S [L Q]]]]]] [Wi Wp Ws Wr]. constructor.
  - auto.
  - intros k i H. rewrite T in H. rewrite L, O. apply Wp; exact H.
  - intros s' H. destruct (S _ H) as [s [Hs [_ [E1 E2]]]]. unfold ctx_ok. rewrite E1, E2, O, C. apply Ws; exact Hs.
  - intros r' H. apply In_nth_error in H. destruct H as [i H]. destruct (Q _ _ H) as [r [Hr [E1 [E2 [E3 _]]]]].
    apply nth_error_In in Hr. destruct (Wr _ Hr) as [W1 W2]. unfold ctx_ok. rewrite E1, E2, C. split; [exact W1|auto].
Qed.

Lemma Rw_same : forall c c', c_init c' = c_init c -> tasks (c_ws c') = tasks (c_ws c) ->
  contexts (c_ws c') = contexts (c_ws c) -> routes (c_ws c') = routes (c_ws c) ->
  staged (c_ws c') = staged (c_ws c) -> sequence (c_ws c') = sequence (c_ws c) -> Rw c c'.
Proof.
  intros c c' I T C O S Q. unfold Rw. rewrite I, T, C, O, S, Q. apply Rw_refl.
Qed.

(* staged-only changes that keep the entries' identity *)
Lemma Rw_staged : forall c l', 
  (forall s', In s' l' -> exists s, In s (staged (c_ws c)) /\ s_id s' = s_id s /\ s_route s' = s_route s /\ s_in s' = s_in s) ->
  Rw c (set_ws c (ws_set_staged (c_ws c) l')).
Proof.
  intros c l' H. unfold Rw; simpl. repeat split; auto. intros i r Hr; exists r; auto.
Qed.

Lemma In_staged_update : forall f t r l s', In s' (staged_update f t r l) -> In s' l \/ exists s, In s l /\ s' = f s.
Proof.
  intros f t r l; induction l as [|s l IH]; simpl; intros s' H; [tauto|].
  destruct (stg_matches t r s).
  - destruct H as [H|H]; [right; exists s; auto|left; auto].
  - destruct H as [H|H]; [left; auto|]. destruct (IH _ H) as [E|[s0 [E1 E2]]]; [left; auto|right; exists s0; auto].
Qed.
Lemma In_staged_remove : forall t r l s', In s' (staged_remove_first t r l) -> In s' l.
Proof.
  intros t r l; induction l as [|s l IH]; simpl; intros s' H; [tauto|].
  destruct (stg_matches t r s); [right; exact H|]. destruct H as [H|H]; [left; exact H|right; apply IH; exact H].
Qed.

Lemma Rw_staged_update : forall c f t r,
  (forall s, s_id (f s) = s_id s /\ s_route (f s) = s_route s /\ s_in (f s) = s_in s) ->
  Rw c (set_ws c (ws_set_staged (c_ws c) (staged_update f t r (staged (c_ws c))))).
Proof.
  intros c f t r Hf. apply Rw_staged. intros s' H. apply In_staged_update in H.
  destruct H as [H|[s [H ->]]]; [exists s'; auto|exists s; split; [exact H|apply Hf]].
Qed.

Lemma Rw_remove_staged : forall c t r, Rw c (set_ws c (ws_remove_staged_task (c_ws c) t r)).
Proof.
  intros c t r. unfold ws_remove_staged_task. destruct (get_staged_task (c_ws c) t r) as [s|]; [|destruct c; apply Rw_refl].
  destruct (items_any_active s); [destruct c; apply Rw_refl|].
  apply Rw_staged. intros s' H. apply In_staged_remove in H. exists s'; auto.
Qed.

Definition wquiet (f : trec -> trec) : Prop :=
  forall r, r_in (f r) = r_in r /\ r_retry (f r) = r_retry r /\ (rstatus (f r) = S_RETRYING -> rstatus r = S_RETRYING) /\
            (r_status r <> None -> r_status (f r) <> None).

Lemma length_set_nth : forall A (l : list A) i x, length (list_set_nth i x l) = length l.
Proof. induction l as [|a l IH]; intros [|i] x; simpl; auto. Qed.

Lemma Rw_update_rec : forall c i f, wquiet f -> Rw c (set_ws c (ws_update_rec (c_ws c) i f)).
Proof.
  intros c i f Hf. unfold Rw; simpl. rewrite tasks_update_rec.
  assert (E : contexts (ws_update_rec (c_ws c) i f) = contexts (c_ws c) /\ routes (ws_update_rec (c_ws c) i f) = routes (c_ws c)
              /\ staged (ws_update_rec (c_ws c) i f) = staged (c_ws c)
              /\ length (sequence (ws_update_rec (c_ws c) i f)) = length (sequence (c_ws c))).
  { unfold ws_update_rec. destruct (nth_error (sequence (c_ws c)) i); simpl; repeat split; auto. apply length_set_nth. }
  destruct E as [E1 [E2 [E3 E4]]]. rewrite E1, E2, E3, E4. repeat split; auto.
  - intros s Hs; exists s; auto.
  - intros j r' Hj. destruct (Nat.eq_dec i j) as [<-|Hn].
    + destruct (nth_error (sequence (c_ws c)) i) as [r|] eqn:Er.
      * rewrite (nth_update_rec_same _ _ f _ Er) in Hj. inversion Hj; subst. exists r. destruct (Hf r) as [A [B [C D]]]. auto.
      * rewrite update_rec_absent in Hj by exact Er. congruence.
    + rewrite nth_update_rec_other in Hj by exact Hn. exists r'; auto.
Qed.

Section QuietWF.
Variable ev : string -> dict -> evalres.

Ltac wq_side := intro; repeat split; auto.

Ltac leaf :=
  first
    [ apply (preserves_modws Rw); intro; apply Rw_same; reflexivity
    | apply (preserves_modws Rw); intro; apply Rw_remove_staged
    | apply (preserves_modws Rw); intro; apply Rw_staged_update; intro; repeat split; reflexivity
    | apply (preserves_modify Rw); intro; apply Rw_same; reflexivity
    | apply (preserves_modify Rw); intro;
      match goal with |- context [if ?b then _ else _] => destruct b end; apply Rw_same; reflexivity
    | assumption
    | match goal with IH : forall _ _ _, preserves _ _ |- _ => apply IH end
    | match goal with IH : forall _ _, preserves _ _ |- _ => apply IH end
    | match goal with IH : forall _ _ _ _, preserves _ _ |- _ => apply IH end
    | eauto 3 with preswf ].
Ltac walk := pw Rw_refl Rw_trans leaf.

Lemma pw_upd_rec : forall i f, wquiet f -> preserves Rw (upd_rec i f).
Proof. intros i f Hf; unfold upd_rec. apply (preserves_modws Rw); intro c. apply Rw_update_rec; exact Hf. Qed.
Lemma pw_upd_term : forall i b, preserves Rw (upd_rec i (fun r => r_set_term r b)).
Proof. intros; apply pw_upd_rec; wq_side. Qed.
Hint Resolve pw_upd_term : preswf.
Lemma pw_upd_next : forall i (g : trec -> list (trid * bool)), preserves Rw (upd_rec i (fun r => r_set_next r (g r))).
Proof. intros; apply pw_upd_rec; wq_side. Qed.
Hint Resolve pw_upd_next : preswf.
Lemma pw_upd_out : forall i o, preserves Rw (upd_rec i (fun r => r_set_out r o)).
Proof. intros; apply pw_upd_rec; wq_side. Qed.
Hint Resolve pw_upd_out : preswf.
Lemma pw_set_status : forall i s, s <> S_RETRYING -> preserves Rw (set_rec_status i (Some s)).
Proof.
  intros i s Hs; unfold set_rec_status. apply (preserves_modws Rw); intro c. apply Rw_update_rec.
  intro r; repeat split; auto; simpl; [intro; contradiction|discriminate].
Qed.
Lemma pw_wf_workflow_event : forall st, preserves Rw (wf_workflow_event_M st).
Proof.
  intros st c c' r H. unfold wf_workflow_event_M in H.
  destruct (wf_process_workflow_event (c_graph c) (c_ws c) st) as [[new unr]|e]; inversion H; subst;
    [apply Rw_same; reflexivity|apply Rw_refl].
Qed.
Hint Resolve pw_wf_workflow_event : preswf.
Lemma pw_wf_task_event : forall t route st, preserves Rw (wf_task_event_M t route st).
Proof.
  intros t route st c c' r H. unfold wf_task_event_M in H.
  destruct (wf_process_task_event (c_graph c) (c_ws c) t route st) as [[new unr]|e]; inversion H; subst;
    [apply Rw_same; reflexivity|apply Rw_refl].
Qed.
Hint Resolve pw_wf_task_event : preswf.
Lemma pw_log_entry_error : forall m t r tr res, preserves Rw (log_entry_error m t r tr res).
Proof. intros; unfold log_entry_error; walk. Qed.
Hint Resolve pw_log_entry_error : preswf.
Lemma pw_log_error : forall e t r tr, preserves Rw (log_error e t r tr).
Proof. intros; unfold log_error; auto with preswf. Qed.
Hint Resolve pw_log_error : preswf.
Lemma pw_log_errors : forall es t r tr, preserves Rw (log_errors es t r tr).
Proof. intros; unfold log_errors; walk. Qed.
Hint Resolve pw_log_errors : preswf.
Lemma pw_log_unreachable : forall l, preserves Rw (log_unreachable l).
Proof. intros; unfold log_unreachable; walk. Qed.
Hint Resolve pw_log_unreachable : preswf.
Lemma pw_get_rec : forall i, preserves Rw (get_rec i).
Proof. intros; unfold get_rec; walk. Qed.
Hint Resolve pw_get_rec : preswf.

Lemma pw_request_status_core : forall st, preserves Rw (request_status_core st).
Proof.
  intros st; unfold request_status_core.
  apply (preserves_bind _ Rw_trans); [apply (preserves_getws _ Rw_refl)|intro w0]. cbv zeta.
  apply (preserves_bind _ Rw_trans).
  { apply (preserves_forM _ Rw_refl Rw_trans); intros [i r0].
    apply (preserves_bind _ Rw_trans); [apply (preserves_getws _ Rw_refl)|intro w].
    destruct (nth_error (sequence w) i) as [r|]; [|apply (preserves_ret _ Rw_refl)].
    apply (preserves_bind_v _ Rw_trans _ _ (fun ns => forall s, ns = Some s -> s <> S_RETRYING)).
    - intros c c' ns H s Hs; subst ns. apply lift_res_inv in H; destruct H as [_ H].
      eapply workflow_event_never_retrying; symmetry; exact H.
    - apply (preserves_lift_res _ Rw_refl).
    - intros [s|] Hns; [apply pw_set_status; apply Hns; reflexivity|apply (preserves_ret _ Rw_refl)]. }
  intros _.
  apply (preserves_bind _ Rw_trans); [apply pw_wf_workflow_event|intro unr].
  apply (preserves_bind _ Rw_trans); [apply pw_log_unreachable|intros _].
  apply (preserves_bind _ Rw_trans); [apply (preserves_getws _ Rw_refl)|intro w1].
  destruct (_ && _ && _); [apply (preserves_ret _ Rw_refl)|].
  destruct (_ && _ && _); [apply (preserves_ret _ Rw_refl)|].
  destruct (_ && _); [|apply (preserves_ret _ Rw_refl)].
  apply (preserves_bind _ Rw_trans); [|intro; apply (preserves_raise _ Rw_refl)].
  apply (preserves_forM_In _ Rw_refl Rw_trans). intros [i r] Hin.
  unfold ws_tasks_by_status in Hin. apply filter_In in Hin. destruct Hin as [_ Hin].
  apply andb_prop in Hin; destruct Hin as [Hin _].
  destruct (r_status r) as [s|]; [|discriminate].
  apply pw_set_status. intro; subst s. discriminate Hin.
Qed.
Hint Resolve pw_request_status_core : preswf.

Lemma pw_render_input : forall specs rt rolling errs, preserves Rw (render_input ev specs rt rolling errs).
Proof. induction specs as [|[n d] specs IH]; intros; simpl; walk. Qed.
Hint Resolve pw_render_input : preswf.
Lemma pw_render_vars : forall specs rolling rendered errs, preserves Rw (render_vars ev specs rolling rendered errs).
Proof. induction specs as [|[n d] specs IH]; intros; simpl; walk. Qed.
Hint Resolve pw_render_vars : preswf.
Lemma pw_get_task_context : forall idxs, preserves Rw (get_task_context idxs).
Proof. intros; unfold get_task_context; walk. Qed.
Hint Resolve pw_get_task_context : preswf.
Lemma pw_render_task : forall ts ctx, preserves Rw (render_task ev ts ctx).
Proof. intros; unfold render_task; walk. Qed.
Hint Resolve pw_render_task : preswf.
Lemma pw_next_task_for : forall s, preserves Rw (next_task_for ev s).
Proof. intros; unfold next_task_for; walk. Qed.
Hint Resolve pw_next_task_for : preswf.
Lemma pw_merge_term_contexts : forall l acc, preserves Rw (merge_term_contexts l acc).
Proof. induction l as [|[i r] l IH]; intros; simpl; walk. Qed.
Hint Resolve pw_merge_term_contexts : preswf.
Lemma pw_evaluate_task_retry : forall r ctx, preserves Rw (evaluate_task_retry ev r ctx).
Proof. intros; unfold evaluate_task_retry; walk. Qed.
Hint Resolve pw_evaluate_task_retry : preswf.
Lemma pw_finalize_context : forall ts e ctx, preserves Rw (finalize_context ev ts e ctx).
Proof. intros; unfold finalize_context; walk. Qed.
Hint Resolve pw_finalize_context : preswf.
Lemma pw_setup_retry : forall t idxs, preserves Rw (setup_retry ev t idxs).
Proof. intros; unfold setup_retry; walk. Qed.
Hint Resolve pw_setup_retry : preswf.

Lemma pw_unstage : forall t route evt s0, preserves Rw (uts_unstage t route evt s0).
Proof. intros; unfold uts_unstage; walk. Qed.
Lemma pw_item : forall t route evt s0, preserves Rw (uts_item t route evt s0).
Proof. intros; unfold uts_item; walk. Qed.
Lemma pw_logfail : forall t evt, preserves Rw (uts_logfail t evt).
Proof. intros; unfold uts_logfail; walk. Qed.
Lemma pw_completion : forall t route evt ts idx ns, preserves Rw (uts_completion ev t route evt ts idx ns).
Proof. intros; unfold uts_completion; walk. Qed.

(* the quiet API operations on an initialised state *)
Lemma get_next_tasks_Rw : forall c c' r, c_init c = true -> get_next_tasks ev c = (c', r) -> Rw c c'.
Proof.
  intros c c' r Hi H. unfold get_next_tasks in H. rewrite (bind_step _ _ _ _ _ _ _ (ensure_ws_inited ev c Hi)) in H.
  match type of H with ?m _ = _ => assert (P : preserves Rw m) by walk end. eapply P; exact H.
Qed.
Lemma request_workflow_status_Rw : forall st c c' r, c_init c = true -> request_workflow_status ev st c = (c', r) -> Rw c c'.
Proof.
  intros st c c' r Hi H. unfold request_workflow_status in H.
  rewrite (bind_step _ _ _ _ _ _ _ (ensure_ws_inited ev c Hi)) in H. eapply pw_request_status_core; exact H.
Qed.
Lemma render_workflow_output_Rw : forall c c' r, c_init c = true -> render_workflow_output ev c = (c', r) -> Rw c c'.
Proof.
  intros c c' r Hi H. unfold render_workflow_output in H.
  rewrite (bind_step _ _ _ _ _ _ _ (ensure_ws_inited ev c Hi)) in H.
  match type of H with ?m _ = _ => assert (P : preserves Rw m) by (unfold get_workflow_terminal_context; walk) end.
  eapply P; exact H.
Qed.

End QuietWF.

(* ------------------------------------------------------------------ staging, graph and definition untouched *)

Definition Rst (c c' : cstate) : Prop :=
  staged (c_ws c') = staged (c_ws c) /\ c_graph c' = c_graph c /\ c_spec c' = c_spec c.
Lemma Rst_refl : forall c, Rst c c.
Proof. intro; repeat split. Qed.
Lemma Rst_trans : forall a b c, Rst a b -> Rst b c -> Rst a c.
Proof. unfold Rst; intros a b c [A1 [A2 A3]] [B1 [B2 B3]]; repeat split; congruence. Qed.

Lemma staged_update_rec : forall w i f, staged (ws_update_rec w i f) = staged w.
Proof. intros; unfold ws_update_rec; destruct (nth_error (sequence w) i); reflexivity. Qed.

Section StagedKept.
Variable ev : string -> dict -> evalres.

Ltac leaf :=
  first
    [ apply (preserves_modws Rst); intro; repeat split; simpl; apply staged_update_rec
    | apply (preserves_modify Rst); intro; cbv zeta;
      try match goal with |- context [if ?b then _ else _] => destruct b end; repeat split; reflexivity
    | assumption
    | eauto 3 with presst ].
Ltac walk := pw Rst_refl Rst_trans leaf.

Lemma pst_wf_workflow_event : forall st, preserves Rst (wf_workflow_event_M st).
Proof.
  intros st c c' r H. unfold wf_workflow_event_M in H.
  destruct (wf_process_workflow_event (c_graph c) (c_ws c) st) as [[new unr]|e]; inversion H; subst; repeat split.
Qed.
Hint Resolve pst_wf_workflow_event : presst.
Lemma pst_wf_task_event : forall t route st, preserves Rst (wf_task_event_M t route st).
Proof.
  intros t route st c c' r H. unfold wf_task_event_M in H.
  destruct (wf_process_task_event (c_graph c) (c_ws c) t route st) as [[new unr]|e]; inversion H; subst; repeat split.
Qed.
Lemma pst_log_error : forall e t r tr, preserves Rst (log_error e t r tr).
Proof. intros; unfold log_error, log_entry_error; walk. Qed.
Hint Resolve pst_log_error : presst.
Lemma pst_log_unreachable : forall l, preserves Rst (log_unreachable l).
Proof. intros; unfold log_unreachable; walk. Qed.
Hint Resolve pst_log_unreachable : presst.
Lemma pst_request_status_core : forall st, preserves Rst (request_status_core st).
Proof. intros; unfold request_status_core, set_rec_status; walk. Qed.
Hint Resolve pst_request_status_core : presst.
Lemma pst_setup_retry : forall t idxs, preserves Rst (setup_retry ev t idxs).
Proof. intros; unfold setup_retry, get_task_context; walk. Qed.
Hint Resolve pst_setup_retry : presst.
Lemma pst_render_vars : forall specs rolling rendered errs, preserves Rst (render_vars ev specs rolling rendered errs).
Proof. induction specs as [|[n d] specs IH]; intros; simpl; walk. Qed.
Hint Resolve pst_render_vars : presst.
Lemma pst_finalize_context : forall ts e ctx, preserves Rst (finalize_context ev ts e ctx).
Proof. intros; unfold finalize_context; walk. Qed.
Lemma pst_log_errors : forall es t r tr, preserves Rst (log_errors es t r tr).
Proof. intros; unfold log_errors; walk. Qed.
Lemma pst_get_rec : forall i, preserves Rst (get_rec i).
Proof. intros; unfold get_rec; walk. Qed.
Lemma pst_upd_rec : forall i f, preserves Rst (upd_rec i f).
Proof. intros; unfold upd_rec; walk. Qed.

End StagedKept.

(* ------------------------------------------------------------------ a new record *)

Lemma aget_aset_inv : forall K V (keqb : K -> K -> bool) k0 (v : V) d k i,
  (forall a b, keqb a b = true -> a = b) ->
  aget keqb k (aset keqb k0 v d) = Some i -> (k = k0 /\ i = v) \/ aget keqb k d = Some i.
Proof.
  intros K V keqb k0 v d k i Hk; induction d as [|[k' v'] d IH]; simpl.
  - destruct (keqb k k0) eqn:E; [|discriminate]. intro H; inversion H; left; split; [apply Hk; exact E|reflexivity].
  - destruct (keqb k0 k') eqn:E0; simpl.
    + destruct (keqb k k') eqn:E; [|auto]. intro H; inversion H; subst. left; split; [|reflexivity].
      apply Hk in E0; apply Hk in E; congruence.
    + destruct (keqb k k') eqn:E; [auto|]. exact IH.
Qed.

Lemma tkey_eqb_eq : forall a b, tkey_eqb a b = true -> a = b.
Proof.
  intros [t r] [t' r']; unfold tkey_eqb; simpl. intro H. apply andb_prop in H; destruct H as [H1 H2].
  apply String.eqb_eq in H1; apply Nat.eqb_eq in H2; congruence.
Qed.

Lemma ctx_ok_mono : forall w w' l, length (contexts w) <= length (contexts w') -> ctx_ok w l -> ctx_ok w' l.
Proof. intros w w' l H [H0 H1]; split; [exact H0|]. intros i Hi; specialize (H1 _ Hi); lia. Qed.

Section NewRecord.
Variable ev : string -> dict -> evalres.
Hypothesis Hev : eval_no_internal ev.

Lemma add_task_state_wf : forall t rt ins prev c c' res,
  add_task_state ev t rt ins prev c = (c', res) ->
  WF c -> rt < length (routes (c_ws c)) -> ctx_ok (c_ws c) (match ins with [] => [0] | _ => ins end) ->
  WF c' /\ Rst c c' /\ contexts (c_ws c') = contexts (c_ws c) /\ routes (c_ws c') = routes (c_ws c) /\
  (forall e, res = Exc e -> ~ internal_cls e).
Proof.
  intros t rt ins prev c c' res H Wc Hrt Hctx.
  assert (Hni : forall e, res = Exc e -> ~ internal_cls e) by (intros e ->; eapply ni_add_task_state; exact H).
  unfold add_task_state in H.
  apply bind_inv in H. destruct H as [[c0 [cst [E0 H]]]|[e [E0 ->]]]; [|inversion E0]. inversion E0; subst c0 cst; clear E0.
  destruct (negb (g_has_task (c_graph c) t)).
  { inversion H; subst. split; [exact Wc|]. split; [apply Rst_refl|]. split; [reflexivity|]. split; [reflexivity|exact Hni]. }
  cbv zeta in H.
  apply bind_inv in H. destruct H as [[cm [retry [Er H]]]|[e [Er ->]]].
  2: { match type of Er with ?m _ = _ =>
         assert (P1 : preserves Rw m) by (pw Rw_refl Rw_trans ltac:(first [apply pw_setup_retry|apply pw_log_error|apply pw_request_status_core]));
         assert (P2 : preserves Rst m) by (pw Rst_refl Rst_trans ltac:(first [apply pst_setup_retry|apply pst_log_error|apply pst_request_status_core])) end.
       pose proof (P1 _ _ _ Er) as Q1. destruct Q1 as [_ [_ [Q3 [Q4 _]]]].
       split; [eapply WF_Rw; [eapply P1; exact Er|exact Wc]|]. split; [eapply P2; exact Er|].
       split; [exact Q3|]. split; [exact Q4|exact Hni]. }
  match type of Er with ?m _ = _ =>
    assert (P1 : preserves Rw m) by (pw Rw_refl Rw_trans ltac:(first [apply pw_setup_retry|apply pw_log_error|apply pw_request_status_core]));
    assert (P2 : preserves Rst m) by (pw Rst_refl Rst_trans ltac:(first [apply pst_setup_retry|apply pst_log_error|apply pst_request_status_core])) end.
  pose proof (P1 _ _ _ Er) as Q1. pose proof (P2 _ _ _ Er) as Q2. pose proof (WF_Rw _ _ Q1 Wc) as Wm.
  destruct Q1 as [_ [_ [Q3 [Q4 _]]]]. destruct Q2 as [Q5 [Q6 Q7]].
  apply bind_inv in H. destruct H as [[c0 [w [E0 H]]]|[e [E0 ->]]]; [|inversion E0]. inversion E0; subst c0 w; clear E0.
  apply bind_inv in H. destruct H as [[c1 [u [E1 H]]]|[e [E1 ->]]]; [|inversion E1]. inversion E1; subst c1; clear E1.
  inversion H; subst c' res; clear H.
  split; [|split; [repeat split; simpl; assumption|split; [simpl; exact Q3|split; [simpl; exact Q4|exact Hni]]]].
  destruct Wm as [Wi Wp Ws Wr]. constructor; simpl.
  - exact Wi.
  - intros k i Hk. rewrite app_length; simpl. apply aget_aset_inv in Hk; [|exact tkey_eqb_eq].
    destruct Hk as [[-> ->]|Hk]; [split; [lia|simpl; rewrite Q4; exact Hrt]|]. destruct (Wp _ _ Hk); split; [lia|assumption].
  - intros s Hs. apply Ws; exact Hs.
  - intros r Hr. apply in_app_or in Hr. destruct Hr as [Hr|[<-|[]]]; [apply Wr; exact Hr|]. simpl. split.
    + eapply ctx_ok_mono; [|exact Hctx]. simpl. rewrite Q3. apply Nat.le_refl.
    + unfold rstatus; simpl. discriminate.
Qed.

End NewRecord.

(* ------------------------------------------------------------------ one transition *)

(* growth: what a transition may do to the state *)
Definition present (c : cstate) (t : string) (r : nat) : Prop := get_staged_task (c_ws c) t r <> None.

Definition Rgrow (c c' : cstate) : Prop :=
  c_graph c' = c_graph c /\ c_spec c' = c_spec c /\ (c_init c = true -> c_init c' = true) /\
  tasks (c_ws c') = tasks (c_ws c) /\
  length (routes (c_ws c)) <= length (routes (c_ws c')) /\ length (contexts (c_ws c)) <= length (contexts (c_ws c')) /\
  length (sequence (c_ws c')) = length (sequence (c_ws c)) /\
  (forall i r, nth_error (sequence (c_ws c)) i = Some r ->
     exists r', nth_error (sequence (c_ws c')) i = Some r' /\ (r_status r <> None -> r_status r' <> None)) /\
  (forall t r, present c t r -> present c' t r).

Lemma Rgrow_refl : forall c, Rgrow c c.
Proof. intro c. repeat split; auto. intros i r H; exists r; auto. Qed.
Lemma Rgrow_trans : forall a b c, Rgrow a b -> Rgrow b c -> Rgrow a c.
Proof.
  intros a b c [G1 [S1 [I1 [T1 [O1 [C1 [L1 [Q1 P1]]]]]]]] [G2 [S2 [I2 [T2 [O2 [C2 [L2 [Q2 P2]]]]]]]].
  split; [congruence|]. split; [congruence|]. split; [auto|]. split; [congruence|]. split; [lia|]. split; [lia|].
  split; [congruence|]. split; [|auto].
  intros i r H. destruct (Q1 _ _ H) as [r1 [H1 A1]]. destruct (Q2 _ _ H1) as [r2 [H2 A2]]. exists r2; split; auto.
Qed.

Lemma Rw_Rst_Rgrow : forall c c', Rw c c' -> Rst c c' -> Rgrow c c'.
Proof.
  intros c c' [I [T [C [O [S [L Q]]]]]] [St [G Sp]]. unfold Rgrow, present, get_staged_task. rewrite St, C, O. repeat split; auto.
  intros i r H. assert (Hl : i < length (sequence (c_ws c'))) by (rewrite L; apply nth_error_Some; congruence).
  destruct (nth_error (sequence (c_ws c')) i) as [r'|] eqn:E; [|apply nth_error_None in E; lia].
  exists r'; split; [reflexivity|]. destruct (Q _ _ E) as [r0 [H0 [_ [_ [_ A]]]]]. rewrite H in H0; inversion H0; subst; exact A.
Qed.

Lemma find_app_present : forall A (P : A -> bool) l x, find P l <> None -> find P (app l x) <> None.
Proof. intros A P l x; induction l as [|a l IH]; simpl; [congruence|]. destruct (P a); [congruence|exact IH]. Qed.
Lemma find_app_new : forall A (P : A -> bool) l s, P s = true -> find P (app l [s]) <> None.
Proof. intros A P l s H; induction l as [|a l IH]; simpl; [rewrite H; discriminate|]. destruct (P a); [discriminate|exact IH]. Qed.
Lemma stg_matches_refl : forall s, stg_matches (s_id s) (s_route s) s = true.
Proof. intro s; unfold stg_matches. rewrite String.eqb_refl, Nat.eqb_refl; reflexivity. Qed.
Lemma find_staged_update_present : forall f t r t' r' l,
  (forall s, s_id (f s) = s_id s /\ s_route (f s) = s_route s) ->
  find (stg_matches t' r') l <> None -> find (stg_matches t' r') (staged_update f t r l) <> None.
Proof.
  intros f t r t' r' l Hf; induction l as [|s l IH]; simpl; [congruence|].
  assert (E : stg_matches t' r' (f s) = stg_matches t' r' s) by (unfold stg_matches; destruct (Hf s) as [-> ->]; reflexivity).
  destruct (stg_matches t r s); simpl.
  - rewrite E. destruct (stg_matches t' r' s); [discriminate|auto].
  - destruct (stg_matches t' r' s); [discriminate|exact IH].
Qed.

Lemma nat_remove_first_in : forall n l, In n l -> exists l', nat_remove_first n l = Some l' /\ forall i, In i l' -> In i l.
Proof.
  intros n l; induction l as [|m l IH]; simpl; [tauto|]. intros H.
  destruct (Nat.eqb n m) eqn:E; [exists l; split; [reflexivity|auto]|].
  destruct H as [H|H]; [subst; rewrite Nat.eqb_refl in E; discriminate|].
  destruct (IH H) as [l' [E' Hl']]. rewrite E'. exists (m :: l'); split; [reflexivity|].
  intros i [Hi|Hi]; [left; exact Hi|right; apply Hl'; exact Hi].
Qed.

Lemma In_next_transitions : forall g t e, In e (g_next_transitions g t) -> In e (g_edges g) /\ e_src e = t.
Proof.
  intros g t e H. unfold g_next_transitions in H. apply In_sort_by in H. apply filter_In in H.
  destruct H as [H1 H2]. apply String.eqb_eq in H2. split; assumption.
Qed.

(* what the definition and the composed graph must agree on (decidable, see static_ok_b) *)
Definition cmd_startable (n : string) : Prop :=
  exists name st s, engine_event n = Some (EvEngine name st) /\ tbl_step task_table S_UNSET name = Some s.

Record static_ok (sp : wf_spec) (g : graph) : Prop := {
  so_spec : forall t, g_has_task g t = true -> spec_get_task sp t <> None;
  so_ref : forall e ts, In e (g_edges g) -> spec_get_task sp (e_src e) = Some ts -> e_ref e < length (ts_next ts);
  so_inert : graph_commands_inert g;
  so_start : forall e, In e (g_edges g) -> is_engine_command (e_dst e) = true -> cmd_startable (e_dst e);
  so_le1 : forall t, length (filter (fun e => is_engine_command (e_dst e)) (g_next_transitions g t)) <= 1 }.

Section Transition.
Variable ev : string -> dict -> evalres.
Hypothesis Hev : eval_no_internal ev.

Ltac binv H c1 a E :=
  apply bind_inv in H; destruct H as [[c1 [a [E H]]]|[?e [E ->]]].

Lemma WF_grow_lengths : forall c w', WF c ->
  tasks w' = tasks (c_ws c) -> sequence w' = sequence (c_ws c) -> staged w' = staged (c_ws c) ->
  length (routes (c_ws c)) <= length (routes w') -> length (contexts (c_ws c)) <= length (contexts w') ->
  WF (set_ws c w').
Proof.
  intros c w' [Wi Wp Ws Wr] T Q S O C. constructor; simpl.
  - exact Wi.
  - intros k i H. rewrite T in H. rewrite Q. destruct (Wp _ _ H); split; [assumption|lia].
  - intros s H. rewrite S in H. destruct (Ws _ H) as [A B]. split; [lia|]. destruct B as [B1 B2]. split; [exact B1|].
    intros i Hi; specialize (B2 _ Hi); lia.
  - intros r H. rewrite Q in H. destruct (Wr _ H) as [[B1 B2] B]. split; [|exact B]. split; [exact B1|].
    intros i Hi; specialize (B2 _ Hi); lia.
Qed.

Lemma WF_staged : forall c l', WF c ->
  (forall s, In s l' -> s_route s < length (routes (c_ws c)) /\ ctx_ok (c_ws c) (s_in s)) ->
  WF (set_ws c (ws_set_staged (c_ws c) l')).
Proof. intros c l' [Wi Wp Ws Wr] H. constructor; simpl; auto. Qed.

Definition pt_post (e : gedge) (c' : cstate) (res : option (string * nat) * option (string * nat)) : Prop :=
  forall n rt, fst res = Some (n, rt) -> n = e_dst e /\ is_engine_command n = true /\ present c' n rt.

Lemma process_transition_wf : forall t route idx ts ctx e c c' res,
  process_transition ev t route idx ts ctx e c = (c', res) ->
  WF c -> static_ok (c_spec c) (c_graph c) -> In e (g_next_transitions (c_graph c) t) ->
  spec_get_task (c_spec c) t = Some ts -> route < length (routes (c_ws c)) ->
  idx < length (sequence (c_ws c)) ->
  WF c' /\ Rgrow c c' /\ (forall x, res = Exc x -> ~ internal_cls x) /\ (forall v, res = Val v -> pt_post e c' v).
Proof.
  intros t route idx ts ctx e c c' res H Wc Hso Hin Hts Hroute Hidx. unfold process_transition in H.
  destruct (In_next_transitions _ _ _ Hin) as [Hedge Hsrc].
  assert (Quiet : forall c0 c1 (m : M unit), preserves Rw m -> preserves Rst m -> ni m -> WF c0 -> Rgrow c c0 ->
            forall r0, m c0 = (c1, r0) -> WF c1 /\ Rgrow c c1 /\ (forall x, r0 = Exc x -> ~ internal_cls x)).
  { intros c0 c1 m P1 P2 P3 W0 G0 r0 E. split; [eapply WF_Rw; [eapply P1; exact E|exact W0]|].
    split; [eapply Rgrow_trans; [exact G0|apply Rw_Rst_Rgrow; [eapply P1; exact E|eapply P2; exact E]]|].
    intros x ->. eapply P3; exact E. }
  set (tid := (e_dst e, e_key e)) in *.
  binv H c1 ok E1.
  2: { match type of E1 with ?m _ = _ =>
         assert (P1 : preserves Rw m) by (pw Rw_refl Rw_trans ltac:(first [apply pw_upd_next|apply pw_log_error|apply pw_request_status_core]));
         assert (P2 : preserves Rst m) by (pw Rst_refl Rst_trans ltac:(first [apply pst_upd_rec|apply pst_log_error|apply pst_request_status_core]));
         assert (P3 : ni m) by (apply ni_try_catch; intro; niw ltac:(first [apply ni_log_error|apply ni_request_status_core])) end.
       split; [eapply WF_Rw; [eapply P1; exact E1|exact Wc]|].
       split; [apply Rw_Rst_Rgrow; [eapply P1; exact E1|eapply P2; exact E1]|]. split; [|discriminate].
       intros x Hx; inversion Hx; subst. eapply P3; exact E1. }
  match type of E1 with ?m _ = _ =>
    assert (P1 : preserves Rw m) by (pw Rw_refl Rw_trans ltac:(first [apply pw_upd_next|apply pw_log_error|apply pw_request_status_core]));
    assert (P2 : preserves Rst m) by (pw Rst_refl Rst_trans ltac:(first [apply pst_upd_rec|apply pst_log_error|apply pst_request_status_core])) end.
  pose proof (WF_Rw _ _ (P1 _ _ _ E1) Wc) as W1.
  pose proof (Rw_Rst_Rgrow _ _ (P1 _ _ _ E1) (P2 _ _ _ E1)) as G1. clear P1 P2.
  assert (Done : forall cz, WF cz -> Rgrow c cz ->
            WF cz /\ Rgrow c cz /\ (forall x, Val (@None (string * nat), @None (string * nat)) = Exc x -> ~ internal_cls x) /\
            (forall v, Val (@None (string * nat), @None (string * nat)) = Val v -> pt_post e cz v)).
  { intros cz Wz Gz. split; [exact Wz|]. split; [exact Gz|]. split; [discriminate|].
    intros v Hv; inversion Hv; subst. intros n rt Hn; discriminate. }
  destruct ok as [[|]|]; [|inversion H; subst; apply Done; assumption|inversion H; subst; apply Done; assumption].
  (* the criteria hold *)
  admit.
Admitted.

End Transition.
