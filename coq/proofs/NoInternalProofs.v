(* NoInternalProofs.v -- "no internal error": from a well-formed conductor state, an API call that is
   not malformed never raises one of the Python exception classes that signal a bug of the engine
   (KeyError, IndexError, TypeError, ValueError, AttributeError), and leaves the state well-formed
   -- whether it returns or raises one of the documented refusals.
   Scope: serialize, request_workflow_status, get_next_tasks, update_task_state with provider events,
   render_workflow_output, persist.  request_workflow_rerun is out of scope (known findings D8,
   C15-rerun-of-inflight break the invariants).  See props/C15b.v for the statements, the malformed-call
   classification and the refuting witnesses found on the way. *)
From Coq Require Import String List Bool ZArith Arith Lia.
From Orq Require Import GenStatuses GenEvents GenTables GenSpecMeta Base State Machines Codec Conductor Decode Api.
From Orq Require Import F_tables Hoare ValuePost C13Proofs C05Proofs C18Proofs RetryProofs RetryBoundProofs.
Import ListNotations.
Open Scope string_scope.
Open Scope monad_scope.

(* ------------------------------------------------------------------ internal classes *)

(* classes the model raises where the engine has no documented refusal: they mirror Python errors of the
   engine's own code.  Documented (not internal): InvalidTask, InvalidTaskStateEntry, InvalidEvent,
   InvalidTaskStatusTransition, InvalidWorkflowStatusTransition, WorkflowIsActiveAndNotRerunableError,
   InvalidTaskRerunRequest; OutOfFuel and PersistFailed are model artefacts with their own theorems. *)
Definition internal_names : list string := ["KeyError"; "IndexError"; "TypeError"; "ValueError"; "AttributeError"].
Definition internal_cls (e : exn) : Prop := string_in (x_cls e) internal_names = true.

Definition ni {A} (m : M A) : Prop := forall c c' e, m c = (c', Exc e) -> ~ internal_cls e.

Lemma ni_ret : forall A (a : A), ni (ret a).
Proof. intros A a c c' e H; inversion H. Qed.
Lemma ni_raise : forall A e, ~ internal_cls e -> ni (@raise A e).
Proof. intros A e He c c' e' H; inversion H; subst; exact He. Qed.
Lemma ni_get : ni get.
Proof. intros c c' e H; inversion H. Qed.
Lemma ni_getws : ni getws.
Proof. intros c c' e H; inversion H. Qed.
Lemma ni_modify : forall f, ni (modify f).
Proof. intros f c c' e H; inversion H. Qed.
Lemma ni_modws : forall f, ni (modws f).
Proof. intros f c c' e H; inversion H. Qed.
Lemma ni_bind : forall A B (m : M A) (f : A -> M B), ni m -> (forall a, ni (f a)) -> ni (bind m f).
Proof.
  intros A B m f Hm Hf c c' e H. unfold bind in H. destruct (m c) as [c1 [a|x]] eqn:E.
  - eapply Hf; exact H.
  - inversion H; subst. eapply Hm; exact E.
Qed.
Lemma ni_try_catch : forall A (m : M A) h, (forall e, ni (h e)) -> ni (try_catch m h).
Proof.
  intros A m h Hh c c' e H. unfold try_catch in H. destruct (m c) as [c1 [a|x]] eqn:E; [inversion H|].
  eapply Hh; exact H.
Qed.
Lemma ni_try_catch_expr : forall A (m : M A) h, ni m -> (forall e, ni (h e)) -> ni (try_catch_expr m h).
Proof.
  intros A m h Hm Hh c c' e H. unfold try_catch_expr in H. destruct (m c) as [c1 [a|x]] eqn:E; [inversion H|].
  destruct (x_expr x); [eapply Hh; exact H|inversion H; subst; eapply Hm; exact E].
Qed.
Lemma ni_mapM : forall A B (f : A -> M B) l, (forall a, ni (f a)) -> ni (mapM f l).
Proof.
  intros A B f l Hf; induction l as [|x l IH]; simpl; [apply ni_ret|].
  apply ni_bind; [apply Hf|intro]. apply ni_bind; [exact IH|intro; apply ni_ret].
Qed.
Lemma ni_forM : forall A (l : list A) f, (forall a, ni (f a)) -> ni (forM_ l f).
Proof.
  intros A l f Hf; induction l as [|x l IH]; simpl; [apply ni_ret|].
  apply ni_bind; [apply Hf|intro; exact IH].
Qed.
Lemma ni_lift_res : forall A (r : result A), (forall e, r = Exc e -> ~ internal_cls e) -> ni (lift_res r).
Proof. intros A r H c c' e E. destruct r; inversion E; subst. apply H; reflexivity. Qed.

Ltac not_internal := unfold internal_cls; cbn; discriminate.

Ltac niw leaf :=
  lazymatch goal with
  | |- ni (ret _) => apply ni_ret
  | |- ni (raise _) => apply ni_raise; not_internal
  | |- ni get => apply ni_get
  | |- ni getws => apply ni_getws
  | |- ni (modify _) => apply ni_modify
  | |- ni (modws _) => apply ni_modws
  | |- ni (bind _ _) => apply ni_bind; [ niw leaf | intro; niw leaf ]
  | |- ni (try_catch _ _) => apply ni_try_catch; intro; niw leaf
  | |- ni (try_catch_expr _ _) => apply ni_try_catch_expr; [ niw leaf | intro; niw leaf ]
  | |- ni (mapM _ _) => apply ni_mapM; intro; niw leaf
  | |- ni (forM_ _ _) => apply ni_forM; intro; niw leaf
  | |- ni (match ?x with _ => _ end) => destruct x; niw leaf
  | |- ni ?m =>
      first [ solve [leaf]
            | let h := head_of m in progress (unfold h); niw leaf
            | progress (cbv beta); niw leaf
            | idtac ]
  end.

Create HintDb nidb.
Create HintDb preswf.
Create HintDb presst.

(* the evaluator (with the model's recursion over containers) never fails with an internal class.  Real
   evaluators violate this for an expression in dictionary-key position whose value is unhashable
   (witness W-C in props/C15b.v): the hypothesis marks that defect's boundary. *)
Definition eval_no_internal (ev : string -> dict -> evalres) : Prop := forall stmt ctx, ni (evaluate ev stmt ctx).

Section Unconditional.
Variable ev : string -> dict -> evalres.
Hypothesis Hev : eval_no_internal ev.

Ltac leaf :=
  first
    [ assumption
    | apply Hev
    | match goal with IH : forall _ _ _, ni _ |- _ => apply IH end
    | match goal with IH : forall _ _, ni _ |- _ => apply IH end
    | match goal with IH : forall _ _ _ _, ni _ |- _ => apply IH end
    | eauto 3 with nidb ].
Ltac walk := niw leaf.

Lemma ni_wf_workflow_event : forall st, ni (wf_workflow_event_M st).
Proof.
  intros st c c' e H. unfold wf_workflow_event_M in H.
  destruct (wf_process_workflow_event (c_graph c) (c_ws c) st) as [[new unr]|x] eqn:E; inversion H; subst.
  unfold wf_process_workflow_event in E.
  destruct (negb (string_in _ _)); [inversion E; not_internal|].
  destruct (tbl_row wf_table _); [|inversion E; not_internal].
  destruct (aget _ _ _); [|discriminate]. destruct (_ && _); discriminate.
Qed.
Hint Resolve ni_wf_workflow_event : nidb.
Lemma ni_wf_task_event : forall t route st, ni (wf_task_event_M t route st).
Proof.
  intros t route st c c' e H. unfold wf_task_event_M in H.
  destruct (wf_process_task_event (c_graph c) (c_ws c) t route st) as [[new unr]|x] eqn:E; inversion H; subst.
  unfold wf_process_task_event in E.
  destruct (negb (string_in _ _)); [inversion E; not_internal|].
  destruct (tbl_row wf_table _); [|inversion E; not_internal].
  destruct (aget _ _ _); [|discriminate]. destruct (_ && _); discriminate.
Qed.
Hint Resolve ni_wf_task_event : nidb.

Lemma task_table_step_ni : forall cur n e, task_table_step cur n = Exc e -> ~ internal_cls e.
Proof. intros cur n e H; unfold task_table_step in H. destruct (tbl_row task_table cur); inversion H; not_internal. Qed.

(* the task machine raises an internal class only for an item index outside the items table *)
Lemma tpe_ni : forall w r evt e, task_process_event w r evt = Exc e ->
  match evt with
  | EvItem item st _ _ =>
      match get_staged_task w (r_id r) (r_route r) with
      | Some s => match s_items s with Some its => Nat.ltb item (length its) = true | None => True end
      | None => True
      end
  | _ => True
  end -> ~ internal_cls e.
Proof.
  intros w r evt e H Hr; unfold task_process_event in H. destruct evt.
  - destruct (negb _); [inversion H; not_internal|eapply task_table_step_ni; exact H].
  - destruct (negb _); [inversion H; not_internal|eapply task_table_step_ni; exact H].
  - destruct (negb _); [inversion H; not_internal|].
    destruct (item_event_name w (r_id r) (r_route r) item st) as [n|x] eqn:En; [eapply task_table_step_ni; exact H|].
    inversion H; subst x. unfold item_event_name in En. cbv zeta in En.
    destruct (negb (status_in st item_requirements)); [discriminate|].
    destruct (get_staged_task w (r_id r) (r_route r)); [|discriminate].
    destruct (s_items s); [|discriminate]. rewrite Hr in En. cbn [negb] in En.
    repeat match type of En with (if ?b then _ else _) = _ => destruct b end; discriminate.
  - destruct (negb _); [inversion H; not_internal|eapply task_table_step_ni; exact H].
Qed.

Lemma ni_tpe_workflow : forall w r st, ni (lift_res (task_process_event w r (EvWorkflow st))).
Proof. intros; apply ni_lift_res; intros e H; eapply tpe_ni; [exact H|exact I]. Qed.
Hint Resolve ni_tpe_workflow : nidb.

Lemma ni_log_entry_error : forall m t r tr res, ni (log_entry_error m t r tr res).
Proof. intros; unfold log_entry_error; walk. Qed.
Hint Resolve ni_log_entry_error : nidb.
Lemma ni_log_error : forall e t r tr, ni (log_error e t r tr).
Proof. intros; unfold log_error; auto with nidb. Qed.
Hint Resolve ni_log_error : nidb.
Lemma ni_log_errors : forall es t r tr, ni (log_errors es t r tr).
Proof. intros; unfold log_errors; walk. Qed.
Hint Resolve ni_log_errors : nidb.
Lemma ni_log_unreachable : forall l, ni (log_unreachable l).
Proof. intros; unfold log_unreachable; walk. Qed.
Hint Resolve ni_log_unreachable : nidb.
Lemma ni_set_rec_status : forall i s, ni (set_rec_status i s).
Proof. intros; unfold set_rec_status; walk. Qed.
Hint Resolve ni_set_rec_status : nidb.
Lemma ni_upd_rec : forall i f, ni (upd_rec i f).
Proof. intros; unfold upd_rec; walk. Qed.
Hint Resolve ni_upd_rec : nidb.
Lemma ni_request_status_core : forall st, ni (request_status_core st).
Proof. intros; unfold request_status_core; walk. Qed.
Hint Resolve ni_request_status_core : nidb.
Lemma ni_render_input : forall specs rt rolling errs, ni (render_input ev specs rt rolling errs).
Proof. induction specs as [|[n d] specs IH]; intros; simpl; walk. Qed.
Hint Resolve ni_render_input : nidb.
Lemma ni_render_vars : forall specs rolling rendered errs, ni (render_vars ev specs rolling rendered errs).
Proof. induction specs as [|[n d] specs IH]; intros; simpl; walk. Qed.
Hint Resolve ni_render_vars : nidb.
Lemma ni_ensure_ws : ni (ensure_ws ev).
Proof. unfold ensure_ws; walk. Qed.
Hint Resolve ni_ensure_ws : nidb.
Theorem ni_request_workflow_status : forall st, ni (request_workflow_status ev st).
Proof. intros; unfold request_workflow_status; walk. Qed.
(* get_next_tasks: whatever goes wrong while preparing one task is caught and fails the workflow *)
Theorem ni_get_next_tasks : ni (get_next_tasks ev).
Proof. unfold get_next_tasks; walk. Qed.
(* a new record: the retry set-up is guarded; only the documented InvalidTask escapes *)
Lemma ni_add_task_state : forall t r i p, ni (add_task_state ev t r i p).
Proof. intros; unfold add_task_state; walk. Qed.
Hint Resolve ni_add_task_state : nidb.

End Unconditional.

(* ------------------------------------------------------------------ the definition never changes *)

Definition Rs (c c' : cstate) : Prop := c_spec c' = c_spec c.
Lemma Rs_refl : forall c, Rs c c.
Proof. intro; reflexivity. Qed.
Lemma Rs_trans : forall a b c, Rs a b -> Rs b c -> Rs a c.
Proof. unfold Rs; intros; congruence. Qed.

Create HintDb press.

Section SpecKept.
Variable ev : string -> dict -> evalres.

Ltac leaf :=
  first
    [ apply (preserves_modws Rs); intro; reflexivity
    | apply (preserves_modify Rs); intro; unfold Rs; simpl; reflexivity
    | apply (preserves_modify Rs); intro; unfold Rs;
      match goal with |- context [if ?b then _ else _] => destruct b end; reflexivity
    | assumption
    | match goal with IH : forall _ _ _, preserves _ _ |- _ => apply IH end
    | match goal with IH : forall _ _, preserves _ _ |- _ => apply IH end
    | match goal with IH : forall _ _ _ _, preserves _ _ |- _ => apply IH end
    | eauto 3 with press ].
Ltac walk := pw Rs_refl Rs_trans leaf.

Lemma ps_wf_workflow_event : forall st, preserves Rs (wf_workflow_event_M st).
Proof.
  intros st c c' r H. unfold wf_workflow_event_M in H.
  destruct (wf_process_workflow_event (c_graph c) (c_ws c) st) as [[new unr]|e]; inversion H; subst; reflexivity.
Qed.
Hint Resolve ps_wf_workflow_event : press.
Lemma ps_wf_task_event : forall t route st, preserves Rs (wf_task_event_M t route st).
Proof.
  intros t route st c c' r H. unfold wf_task_event_M in H.
  destruct (wf_process_task_event (c_graph c) (c_ws c) t route st) as [[new unr]|e]; inversion H; subst; reflexivity.
Qed.
Hint Resolve ps_wf_task_event : press.

Lemma ps_log_entry_error : forall m t r tr res, preserves Rs (log_entry_error m t r tr res).
Proof. intros; unfold log_entry_error; walk. Qed.
Hint Resolve ps_log_entry_error : press.
Lemma ps_log_error : forall e t r tr, preserves Rs (log_error e t r tr).
Proof. intros; unfold log_error; auto with press. Qed.
Hint Resolve ps_log_error : press.
Lemma ps_log_errors : forall es t r tr, preserves Rs (log_errors es t r tr).
Proof. intros; unfold log_errors; walk. Qed.
Hint Resolve ps_log_errors : press.
Lemma ps_log_unreachable : forall l, preserves Rs (log_unreachable l).
Proof. intros; unfold log_unreachable; walk. Qed.
Hint Resolve ps_log_unreachable : press.
Lemma ps_set_rec_status : forall i s, preserves Rs (set_rec_status i s).
Proof. intros; unfold set_rec_status; walk. Qed.
Hint Resolve ps_set_rec_status : press.
Lemma ps_upd_rec : forall i f, preserves Rs (upd_rec i f).
Proof. intros; unfold upd_rec; walk. Qed.
Hint Resolve ps_upd_rec : press.
Lemma ps_get_rec : forall i, preserves Rs (get_rec i).
Proof. intros; unfold get_rec; walk. Qed.
Hint Resolve ps_get_rec : press.
Lemma ps_request_status_core : forall st, preserves Rs (request_status_core st).
Proof. intros; unfold request_status_core; walk. Qed.
Hint Resolve ps_request_status_core : press.
Lemma ps_render_input : forall specs rt rolling errs, preserves Rs (render_input ev specs rt rolling errs).
Proof. induction specs as [|[n d] specs IH]; intros; simpl; walk. Qed.
Hint Resolve ps_render_input : press.
Lemma ps_render_vars : forall specs rolling rendered errs, preserves Rs (render_vars ev specs rolling rendered errs).
Proof. induction specs as [|[n d] specs IH]; intros; simpl; walk. Qed.
Hint Resolve ps_render_vars : press.
Lemma ps_ensure_ws : preserves Rs (ensure_ws ev).
Proof. unfold ensure_ws; walk. Qed.
Hint Resolve ps_ensure_ws : press.
Lemma ps_get_task_context : forall idxs, preserves Rs (get_task_context idxs).
Proof. intros; unfold get_task_context; walk. Qed.
Hint Resolve ps_get_task_context : press.
Lemma ps_setup_retry : forall t idxs, preserves Rs (setup_retry ev t idxs).
Proof. intros; unfold setup_retry; walk. Qed.
Hint Resolve ps_setup_retry : press.
Lemma ps_add_task_state : forall t r i p, preserves Rs (add_task_state ev t r i p).
Proof. intros; unfold add_task_state; walk. Qed.
Hint Resolve ps_add_task_state : press.
Lemma ps_evaluate_route : forall e r, preserves Rs (evaluate_route e r).
Proof. intros; unfold evaluate_route; walk. Qed.
Hint Resolve ps_evaluate_route : press.
Lemma ps_evaluate_task_retry : forall r ctx, preserves Rs (evaluate_task_retry ev r ctx).
Proof. intros; unfold evaluate_task_retry; walk. Qed.
Hint Resolve ps_evaluate_task_retry : press.
Lemma ps_finalize_context : forall ts e ctx, preserves Rs (finalize_context ev ts e ctx).
Proof. intros; unfold finalize_context; walk. Qed.
Hint Resolve ps_finalize_context : press.
Lemma ps_process_transition : forall t route idx ts ctx e, preserves Rs (process_transition ev t route idx ts ctx e).
Proof. intros; unfold process_transition; walk. Qed.
Hint Resolve ps_process_transition : press.

Lemma ps_need_staged : forall s0, preserves Rs (uts_need_staged s0).
Proof. intros; unfold uts_need_staged; walk. Qed.
Hint Resolve ps_need_staged : press.
Lemma ps_sel1 : forall t s0 e0, preserves Rs (uts_sel1 ev t s0 e0).
Proof. intros; unfold uts_sel1; walk. Qed.
Hint Resolve ps_sel1 : press.
Lemma ps_sel2 : forall t evt s0 r1 i, preserves Rs (uts_sel2 ev t evt s0 r1 i).
Proof. intros; unfold uts_sel2; walk. Qed.
Hint Resolve ps_sel2 : press.
Lemma ps_unstage : forall t route evt s0, preserves Rs (uts_unstage t route evt s0).
Proof. intros; unfold uts_unstage; walk. Qed.
Hint Resolve ps_unstage : press.
Lemma ps_item : forall t route evt s0, preserves Rs (uts_item t route evt s0).
Proof. intros; unfold uts_item; walk. Qed.
Hint Resolve ps_item : press.
Lemma ps_logfail : forall t evt, preserves Rs (uts_logfail t evt).
Proof. intros; unfold uts_logfail; walk. Qed.
Hint Resolve ps_logfail : press.
Lemma ps_setst : forall i ns, preserves Rs (uts_setst i ns).
Proof. intros; unfold uts_setst; walk. Qed.
Hint Resolve ps_setst : press.
Lemma ps_retrying : forall t route idx r ns, preserves Rs (uts_retrying t route idx r ns).
Proof. intros; unfold uts_retrying; walk. Qed.
Hint Resolve ps_retrying : press.
Lemma ps_completion : forall t route evt ts idx ns o0, preserves Rs (uts_completion ev t route evt ts idx ns o0).
Proof. intros; unfold uts_completion; walk. Qed.
Hint Resolve ps_completion : press.
Lemma ps_queue : forall t route idx ts o n compl, preserves Rs (uts_queue ev t route idx ts o n compl).
Proof. intros; unfold uts_queue; walk. Qed.
Hint Resolve ps_queue : press.
Lemma ps_pre_machine : forall t route evt ts idx, preserves Rs (pre_machine ev t route evt ts idx).
Proof. intros; unfold pre_machine; walk. Qed.
Hint Resolve ps_pre_machine : press.
Lemma ps_pre_main : forall t route evt ts s0 e0, preserves Rs (pre_main ev t route evt ts s0 e0).
Proof. intros; unfold pre_main; walk. Qed.
Hint Resolve ps_pre_main : press.
Lemma ps_prefix : forall t route evt, preserves Rs (uts_prefix ev t route evt).
Proof. intros; unfold uts_prefix; walk. Qed.

Lemma ps_tail : forall rec, (forall t route evt, preserves Rs (rec t route evt)) ->
  forall t route ts idx o n compl, preserves Rs (uts_tail ev rec t route ts idx o n compl).
Proof. intros rec Hrec; intros; unfold uts_tail, uts_call; walk. Qed.

Lemma ps_body : forall rec, (forall t route evt, preserves Rs (rec t route evt)) ->
  forall t route evt, preserves Rs (uts_body ev rec t route evt).
Proof.
  intros rec Hrec t route evt c c' r H. rewrite body_eq in H.
  revert c c' r H. apply (preserves_bind _ Rs_trans); [apply ps_prefix|intro p; apply ps_tail; exact Hrec].
Qed.

Lemma ps_uts_fuel : forall fuel t route evt, preserves Rs (update_task_state_fuel ev fuel t route evt).
Proof.
  induction fuel as [|fuel IH]; intros; [apply (preserves_raise _ Rs_refl)|].
  rewrite uts_unfold. apply ps_body; exact IH.
Qed.

Lemma ps_render_task : forall ts ctx, preserves Rs (render_task ev ts ctx).
Proof. intros; unfold render_task; walk. Qed.
Hint Resolve ps_render_task : press.
Lemma ps_next_task_for : forall s, preserves Rs (next_task_for ev s).
Proof. intros; unfold next_task_for; walk. Qed.
Hint Resolve ps_next_task_for : press.
Lemma ps_get_next_tasks : preserves Rs (get_next_tasks ev).
Proof. unfold get_next_tasks; walk. Qed.
Lemma ps_request_workflow_status : forall st, preserves Rs (request_workflow_status ev st).
Proof. intros; unfold request_workflow_status; walk. Qed.
Lemma ps_merge_term_contexts : forall l acc, preserves Rs (merge_term_contexts l acc).
Proof. induction l as [|[i r] l IH]; intros; simpl; walk. Qed.
Hint Resolve ps_merge_term_contexts : press.
Lemma ps_render_workflow_output : preserves Rs (render_workflow_output ev).
Proof. unfold render_workflow_output, get_workflow_terminal_context; walk. Qed.

End SpecKept.

(* ------------------------------------------------------------------ well-formed conductor states *)

Definition ctx_ok (w : wstate) (l : list nat) : Prop := In 0 l /\ forall i, In i l -> i < length (contexts w).

(* what the raise sites of the in-scope operations need of a state:
   - the lazy workflow state exists;
   - every pointer names an existing record and an existing route;
   - every staged entry sits on an existing route and reads existing contexts, the initial one among them;
   - every record reads existing contexts (the initial one among them), and a retrying record has a retry policy *)
Record WF (c : cstate) : Prop := {
  wf_init : c_init c = true;
  wf_ptr : forall k i, aget tkey_eqb k (tasks (c_ws c)) = Some i ->
             i < length (sequence (c_ws c)) /\ snd k < length (routes (c_ws c));
  wf_stg : forall s, In s (staged (c_ws c)) -> s_route s < length (routes (c_ws c)) /\ ctx_ok (c_ws c) (s_in s);
  wf_rec : forall r, In r (sequence (c_ws c)) ->
             ctx_ok (c_ws c) (r_in r) /\ (rstatus r = S_RETRYING -> r_retry r <> None) }.

(* changes that cannot hurt: statuses other than into retrying, staged entries modified or removed,
   flags, logs *)
Definition Rw (c c' : cstate) : Prop :=
  (c_init c = true -> c_init c' = true) /\
  tasks (c_ws c') = tasks (c_ws c) /\ contexts (c_ws c') = contexts (c_ws c) /\ routes (c_ws c') = routes (c_ws c) /\
  (forall s', In s' (staged (c_ws c')) ->
     exists s, In s (staged (c_ws c)) /\ s_id s' = s_id s /\ s_route s' = s_route s /\ s_in s' = s_in s) /\
  length (sequence (c_ws c')) = length (sequence (c_ws c)) /\
  (forall i r', nth_error (sequence (c_ws c')) i = Some r' ->
     exists r, nth_error (sequence (c_ws c)) i = Some r /\ r_in r' = r_in r /\ r_retry r' = r_retry r /\
               (rstatus r' = S_RETRYING -> rstatus r = S_RETRYING) /\ (r_status r <> None -> r_status r' <> None)).

Lemma Rw_refl : forall c, Rw c c.
Proof.
  intro c. repeat split; auto.
  - intros s Hs; exists s; auto.
  - intros i r H; exists r; auto.
Qed.
Lemma Rw_trans : forall a b c, Rw a b -> Rw b c -> Rw a c.
Proof.
  intros a b c [I1 [T1 [C1 [O1 [S1 [L1 Q1]]]]]] [I2 [T2 [C2 [O2 [S2 [L2 Q2]]]]]].
  split; [auto|]. split; [congruence|]. split; [congruence|]. split; [congruence|]. split; [|split; [congruence|]].
  - intros s2 H2. destruct (S2 _ H2) as [s1 [H1 [A1 [A2 A3]]]]. destruct (S1 _ H1) as [s0 [H0 [B1 [B2 B3]]]].
    exists s0; repeat split; congruence.
  - intros i r2 H2. destruct (Q2 _ _ H2) as [r1 [H1 [A1 [A2 [A3 A4]]]]]. destruct (Q1 _ _ H1) as [r0 [H0 [B1 [B2 [B3 B4]]]]].
    exists r0. split; [exact H0|]. split; [congruence|]. split; [congruence|]. split; auto.
Qed.

Lemma WF_Rw : forall c c', Rw c c' -> WF c -> WF c'.
Proof.
  intros c c' [I [T [C [O [S [L Q]]]]]] [Wi Wp Ws Wr]. constructor.
  - auto.
  - intros k i H. rewrite T in H. rewrite L, O. apply Wp; exact H.
  - intros s' H. destruct (S _ H) as [s [Hs [_ [E1 E2]]]]. unfold ctx_ok. rewrite E1, E2, O, C. apply Ws; exact Hs.
  - intros r' H. apply In_nth_error in H. destruct H as [i H]. destruct (Q _ _ H) as [r [Hr [E1 [E2 [E3 _]]]]].
    apply nth_error_In in Hr. destruct (Wr _ Hr) as [W1 W2]. unfold ctx_ok. rewrite E1, E2, C. split; [exact W1|auto].
Qed.

Lemma Rw_same : forall c c', c_init c' = c_init c -> tasks (c_ws c') = tasks (c_ws c) ->
  contexts (c_ws c') = contexts (c_ws c) -> routes (c_ws c') = routes (c_ws c) ->
  staged (c_ws c') = staged (c_ws c) -> sequence (c_ws c') = sequence (c_ws c) -> Rw c c'.
Proof.
  intros c c' I T C O S Q. unfold Rw. rewrite I, T, C, O, S, Q. apply Rw_refl.
Qed.

(* staged-only changes that keep the entries' identity *)
Lemma Rw_staged : forall c l', 
  (forall s', In s' l' -> exists s, In s (staged (c_ws c)) /\ s_id s' = s_id s /\ s_route s' = s_route s /\ s_in s' = s_in s) ->
  Rw c (set_ws c (ws_set_staged (c_ws c) l')).
Proof.
  intros c l' H. unfold Rw; simpl. repeat split; auto. intros i r Hr; exists r; auto.
Qed.

Lemma In_staged_update : forall f t r l s', In s' (staged_update f t r l) -> In s' l \/ exists s, In s l /\ s' = f s.
Proof.
  intros f t r l; induction l as [|s l IH]; simpl; intros s' H; [tauto|].
  destruct (stg_matches t r s).
  - destruct H as [H|H]; [right; exists s; auto|left; auto].
  - destruct H as [H|H]; [left; auto|]. destruct (IH _ H) as [E|[s0 [E1 E2]]]; [left; auto|right; exists s0; auto].
Qed.
Lemma In_staged_remove : forall t r l s', In s' (staged_remove_first t r l) -> In s' l.
Proof.
  intros t r l; induction l as [|s l IH]; simpl; intros s' H; [tauto|].
  destruct (stg_matches t r s); [right; exact H|]. destruct H as [H|H]; [left; exact H|right; apply IH; exact H].
Qed.

Lemma Rw_staged_update : forall c f t r,
  (forall s, s_id (f s) = s_id s /\ s_route (f s) = s_route s /\ s_in (f s) = s_in s) ->
  Rw c (set_ws c (ws_set_staged (c_ws c) (staged_update f t r (staged (c_ws c))))).
Proof.
  intros c f t r Hf. apply Rw_staged. intros s' H. apply In_staged_update in H.
  destruct H as [H|[s [H ->]]]; [exists s'; auto|exists s; split; [exact H|apply Hf]].
Qed.

Lemma Rw_remove_staged : forall c t r, Rw c (set_ws c (ws_remove_staged_task (c_ws c) t r)).
Proof.
  intros c t r. unfold ws_remove_staged_task. destruct (get_staged_task (c_ws c) t r) as [s|]; [|destruct c; apply Rw_refl].
  destruct (items_any_active s); [destruct c; apply Rw_refl|].
  apply Rw_staged. intros s' H. apply In_staged_remove in H. exists s'; auto.
Qed.

Definition wquiet (f : trec -> trec) : Prop :=
  forall r, r_in (f r) = r_in r /\ r_retry (f r) = r_retry r /\ (rstatus (f r) = S_RETRYING -> rstatus r = S_RETRYING) /\
            (r_status r <> None -> r_status (f r) <> None).

Lemma length_set_nth : forall A (l : list A) i x, length (list_set_nth i x l) = length l.
Proof. induction l as [|a l IH]; intros [|i] x; simpl; auto. Qed.

Lemma Rw_update_rec : forall c i f, wquiet f -> Rw c (set_ws c (ws_update_rec (c_ws c) i f)).
Proof.
  intros c i f Hf. unfold Rw; simpl. rewrite tasks_update_rec.
  assert (E : contexts (ws_update_rec (c_ws c) i f) = contexts (c_ws c) /\ routes (ws_update_rec (c_ws c) i f) = routes (c_ws c)
              /\ staged (ws_update_rec (c_ws c) i f) = staged (c_ws c)
              /\ length (sequence (ws_update_rec (c_ws c) i f)) = length (sequence (c_ws c))).
  { unfold ws_update_rec. destruct (nth_error (sequence (c_ws c)) i); simpl; repeat split; auto. apply length_set_nth. }
  destruct E as [E1 [E2 [E3 E4]]]. rewrite E1, E2, E3, E4. repeat split; auto.
  - intros s Hs; exists s; auto.
  - intros j r' Hj. destruct (Nat.eq_dec i j) as [<-|Hn].
    + destruct (nth_error (sequence (c_ws c)) i) as [r|] eqn:Er.
      * rewrite (nth_update_rec_same _ _ f _ Er) in Hj. inversion Hj; subst. exists r. destruct (Hf r) as [A [B [C D]]]. auto.
      * rewrite update_rec_absent in Hj by exact Er. congruence.
    + rewrite nth_update_rec_other in Hj by exact Hn. exists r'; auto.
Qed.

Section QuietWF.
Variable ev : string -> dict -> evalres.

Ltac wq_side := intro; repeat split; auto.

Ltac leaf :=
  first
    [ apply (preserves_modws Rw); intro; apply Rw_same; reflexivity
    | apply (preserves_modws Rw); intro; apply Rw_remove_staged
    | apply (preserves_modws Rw); intro; apply Rw_staged_update; intro; repeat split; reflexivity
    | apply (preserves_modify Rw); intro; apply Rw_same; reflexivity
    | apply (preserves_modify Rw); intro;
      match goal with |- context [if ?b then _ else _] => destruct b end; apply Rw_same; reflexivity
    | assumption
    | match goal with IH : forall _ _ _, preserves _ _ |- _ => apply IH end
    | match goal with IH : forall _ _, preserves _ _ |- _ => apply IH end
    | match goal with IH : forall _ _ _ _, preserves _ _ |- _ => apply IH end
    | eauto 3 with preswf ].
Ltac walk := pw Rw_refl Rw_trans leaf.

Lemma pw_upd_rec : forall i f, wquiet f -> preserves Rw (upd_rec i f).
Proof. intros i f Hf; unfold upd_rec. apply (preserves_modws Rw); intro c. apply Rw_update_rec; exact Hf. Qed.
Lemma pw_upd_term : forall i b, preserves Rw (upd_rec i (fun r => r_set_term r b)).
Proof. intros; apply pw_upd_rec; wq_side. Qed.
Hint Resolve pw_upd_term : preswf.
Lemma pw_upd_next : forall i (g : trec -> list (trid * bool)), preserves Rw (upd_rec i (fun r => r_set_next r (g r))).
Proof. intros; apply pw_upd_rec; wq_side. Qed.
Hint Resolve pw_upd_next : preswf.
Lemma pw_upd_out : forall i o, preserves Rw (upd_rec i (fun r => r_set_out r o)).
Proof. intros; apply pw_upd_rec; wq_side. Qed.
Hint Resolve pw_upd_out : preswf.
Lemma pw_set_status : forall i s, s <> S_RETRYING -> preserves Rw (set_rec_status i (Some s)).
Proof.
  intros i s Hs; unfold set_rec_status. apply (preserves_modws Rw); intro c. apply Rw_update_rec.
  intro r; repeat split; auto; simpl; [intro; contradiction|discriminate].
Qed.
Lemma pw_wf_workflow_event : forall st, preserves Rw (wf_workflow_event_M st).
Proof.
  intros st c c' r H. unfold wf_workflow_event_M in H.
  destruct (wf_process_workflow_event (c_graph c) (c_ws c) st) as [[new unr]|e]; inversion H; subst;
    [apply Rw_same; reflexivity|apply Rw_refl].
Qed.
Hint Resolve pw_wf_workflow_event : preswf.
Lemma pw_wf_task_event : forall t route st, preserves Rw (wf_task_event_M t route st).
Proof.
  intros t route st c c' r H. unfold wf_task_event_M in H.
  destruct (wf_process_task_event (c_graph c) (c_ws c) t route st) as [[new unr]|e]; inversion H; subst;
    [apply Rw_same; reflexivity|apply Rw_refl].
Qed.
Hint Resolve pw_wf_task_event : preswf.
Lemma pw_log_entry_error : forall m t r tr res, preserves Rw (log_entry_error m t r tr res).
Proof. intros; unfold log_entry_error; walk. Qed.
Hint Resolve pw_log_entry_error : preswf.
Lemma pw_log_error : forall e t r tr, preserves Rw (log_error e t r tr).
Proof. intros; unfold log_error; auto with preswf. Qed.
Hint Resolve pw_log_error : preswf.
Lemma pw_log_errors : forall es t r tr, preserves Rw (log_errors es t r tr).
Proof. intros; unfold log_errors; walk. Qed.
Hint Resolve pw_log_errors : preswf.
Lemma pw_log_unreachable : forall l, preserves Rw (log_unreachable l).
Proof. intros; unfold log_unreachable; walk. Qed.
Hint Resolve pw_log_unreachable : preswf.
Lemma pw_get_rec : forall i, preserves Rw (get_rec i).
Proof. intros; unfold get_rec; walk. Qed.
Hint Resolve pw_get_rec : preswf.

Lemma pw_request_status_core : forall st, preserves Rw (request_status_core st).
Proof.
  intros st; unfold request_status_core.
  apply (preserves_bind _ Rw_trans); [apply (preserves_getws _ Rw_refl)|intro w0]. cbv zeta.
  apply (preserves_bind _ Rw_trans).
  { apply (preserves_forM _ Rw_refl Rw_trans); intros [i r0].
    apply (preserves_bind _ Rw_trans); [apply (preserves_getws _ Rw_refl)|intro w].
    destruct (nth_error (sequence w) i) as [r|]; [|apply (preserves_ret _ Rw_refl)].
    apply (preserves_bind_v _ Rw_trans _ _ (fun ns => forall s, ns = Some s -> s <> S_RETRYING)).
    - intros c c' ns H s Hs; subst ns. apply lift_res_inv in H; destruct H as [_ H].
      eapply workflow_event_never_retrying; symmetry; exact H.
    - apply (preserves_lift_res _ Rw_refl).
    - intros [s|] Hns; [apply pw_set_status; apply Hns; reflexivity|apply (preserves_ret _ Rw_refl)]. }
  intros _.
  apply (preserves_bind _ Rw_trans); [apply pw_wf_workflow_event|intro unr].
  apply (preserves_bind _ Rw_trans); [apply pw_log_unreachable|intros _].
  apply (preserves_bind _ Rw_trans); [apply (preserves_getws _ Rw_refl)|intro w1].
  destruct (_ && _ && _); [apply (preserves_ret _ Rw_refl)|].
  destruct (_ && _ && _); [apply (preserves_ret _ Rw_refl)|].
  destruct (_ && _); [|apply (preserves_ret _ Rw_refl)].
  apply (preserves_bind _ Rw_trans); [|intro; apply (preserves_raise _ Rw_refl)].
  apply (preserves_forM_In _ Rw_refl Rw_trans). intros [i r] Hin.
  unfold ws_tasks_by_status in Hin. apply filter_In in Hin. destruct Hin as [_ Hin].
  apply andb_prop in Hin; destruct Hin as [Hin _].
  destruct (r_status r) as [s|]; [|discriminate].
  apply pw_set_status. intro; subst s. discriminate Hin.
Qed.
Hint Resolve pw_request_status_core : preswf.

Lemma pw_render_input : forall specs rt rolling errs, preserves Rw (render_input ev specs rt rolling errs).
Proof. induction specs as [|[n d] specs IH]; intros; simpl; walk. Qed.
Hint Resolve pw_render_input : preswf.
Lemma pw_render_vars : forall specs rolling rendered errs, preserves Rw (render_vars ev specs rolling rendered errs).
Proof. induction specs as [|[n d] specs IH]; intros; simpl; walk. Qed.
Hint Resolve pw_render_vars : preswf.
Lemma pw_get_task_context : forall idxs, preserves Rw (get_task_context idxs).
Proof. intros; unfold get_task_context; walk. Qed.
Hint Resolve pw_get_task_context : preswf.
Lemma pw_render_task : forall ts ctx, preserves Rw (render_task ev ts ctx).
Proof. intros; unfold render_task; walk. Qed.
Hint Resolve pw_render_task : preswf.
Lemma pw_next_task_for : forall s, preserves Rw (next_task_for ev s).
Proof. intros; unfold next_task_for; walk. Qed.
Hint Resolve pw_next_task_for : preswf.
Lemma pw_merge_term_contexts : forall l acc, preserves Rw (merge_term_contexts l acc).
Proof. induction l as [|[i r] l IH]; intros; simpl; walk. Qed.
Hint Resolve pw_merge_term_contexts : preswf.
Lemma pw_evaluate_task_retry : forall r ctx, preserves Rw (evaluate_task_retry ev r ctx).
Proof. intros; unfold evaluate_task_retry; walk. Qed.
Hint Resolve pw_evaluate_task_retry : preswf.
Lemma pw_finalize_context : forall ts e ctx, preserves Rw (finalize_context ev ts e ctx).
Proof. intros; unfold finalize_context; walk. Qed.
Hint Resolve pw_finalize_context : preswf.
Lemma pw_setup_retry : forall t idxs, preserves Rw (setup_retry ev t idxs).
Proof. intros; unfold setup_retry; walk. Qed.
Hint Resolve pw_setup_retry : preswf.

Lemma pw_unstage : forall t route evt s0, preserves Rw (uts_unstage t route evt s0).
Proof. intros; unfold uts_unstage; walk. Qed.
Lemma pw_item : forall t route evt s0, preserves Rw (uts_item t route evt s0).
Proof. intros; unfold uts_item; walk. Qed.
Lemma pw_logfail : forall t evt, preserves Rw (uts_logfail t evt).
Proof. intros; unfold uts_logfail; walk. Qed.
Lemma pw_completion : forall t route evt ts idx ns o0, preserves Rw (uts_completion ev t route evt ts idx ns o0).
Proof. intros; unfold uts_completion; walk. Qed.

(* the quiet API operations on an initialised state *)
Lemma get_next_tasks_Rw : forall c c' r, c_init c = true -> get_next_tasks ev c = (c', r) -> Rw c c'.
Proof.
  intros c c' r Hi H. unfold get_next_tasks in H. rewrite (bind_step _ _ _ _ _ _ _ (ensure_ws_inited ev c Hi)) in H.
  match type of H with ?m _ = _ => assert (P : preserves Rw m) by walk end. eapply P; exact H.
Qed.
Lemma request_workflow_status_Rw : forall st c c' r, c_init c = true -> request_workflow_status ev st c = (c', r) -> Rw c c'.
Proof.
  intros st c c' r Hi H. unfold request_workflow_status in H.
  rewrite (bind_step _ _ _ _ _ _ _ (ensure_ws_inited ev c Hi)) in H. eapply pw_request_status_core; exact H.
Qed.
Lemma render_workflow_output_Rw : forall c c' r, c_init c = true -> render_workflow_output ev c = (c', r) -> Rw c c'.
Proof.
  intros c c' r Hi H. unfold render_workflow_output in H.
  rewrite (bind_step _ _ _ _ _ _ _ (ensure_ws_inited ev c Hi)) in H.
  match type of H with ?m _ = _ => assert (P : preserves Rw m) by (unfold get_workflow_terminal_context; walk) end.
  eapply P; exact H.
Qed.

End QuietWF.

(* ------------------------------------------------------------------ staging, graph and definition untouched *)

Definition Rst (c c' : cstate) : Prop :=
  staged (c_ws c') = staged (c_ws c) /\ c_graph c' = c_graph c /\ c_spec c' = c_spec c.
Lemma Rst_refl : forall c, Rst c c.
Proof. intro; repeat split. Qed.
Lemma Rst_trans : forall a b c, Rst a b -> Rst b c -> Rst a c.
Proof. unfold Rst; intros a b c [A1 [A2 A3]] [B1 [B2 B3]]; repeat split; congruence. Qed.

Lemma staged_update_rec : forall w i f, staged (ws_update_rec w i f) = staged w.
Proof. intros; unfold ws_update_rec; destruct (nth_error (sequence w) i); reflexivity. Qed.

Section StagedKept.
Variable ev : string -> dict -> evalres.

Ltac leaf :=
  first
    [ apply (preserves_modws Rst); intro; repeat split; simpl; apply staged_update_rec
    | apply (preserves_modify Rst); intro; cbv zeta;
      try match goal with |- context [if ?b then _ else _] => destruct b end; repeat split; reflexivity
    | assumption
    | eauto 3 with presst ].
Ltac walk := pw Rst_refl Rst_trans leaf.

Lemma pst_wf_workflow_event : forall st, preserves Rst (wf_workflow_event_M st).
Proof.
  intros st c c' r H. unfold wf_workflow_event_M in H.
  destruct (wf_process_workflow_event (c_graph c) (c_ws c) st) as [[new unr]|e]; inversion H; subst; repeat split.
Qed.
Hint Resolve pst_wf_workflow_event : presst.
Lemma pst_wf_task_event : forall t route st, preserves Rst (wf_task_event_M t route st).
Proof.
  intros t route st c c' r H. unfold wf_task_event_M in H.
  destruct (wf_process_task_event (c_graph c) (c_ws c) t route st) as [[new unr]|e]; inversion H; subst; repeat split.
Qed.
Lemma pst_log_error : forall e t r tr, preserves Rst (log_error e t r tr).
Proof. intros; unfold log_error, log_entry_error; walk. Qed.
Hint Resolve pst_log_error : presst.
Lemma pst_log_unreachable : forall l, preserves Rst (log_unreachable l).
Proof. intros; unfold log_unreachable; walk. Qed.
Hint Resolve pst_log_unreachable : presst.
Lemma pst_request_status_core : forall st, preserves Rst (request_status_core st).
Proof. intros; unfold request_status_core, set_rec_status; walk. Qed.
Hint Resolve pst_request_status_core : presst.
Lemma pst_setup_retry : forall t idxs, preserves Rst (setup_retry ev t idxs).
Proof. intros; unfold setup_retry, get_task_context; walk. Qed.
Hint Resolve pst_setup_retry : presst.
Lemma pst_render_vars : forall specs rolling rendered errs, preserves Rst (render_vars ev specs rolling rendered errs).
Proof. induction specs as [|[n d] specs IH]; intros; simpl; walk. Qed.
Hint Resolve pst_render_vars : presst.
Lemma pst_finalize_context : forall ts e ctx, preserves Rst (finalize_context ev ts e ctx).
Proof. intros; unfold finalize_context; walk. Qed.
Lemma pst_log_errors : forall es t r tr, preserves Rst (log_errors es t r tr).
Proof. intros; unfold log_errors; walk. Qed.
Lemma pst_get_rec : forall i, preserves Rst (get_rec i).
Proof. intros; unfold get_rec; walk. Qed.
Lemma pst_upd_rec : forall i f, preserves Rst (upd_rec i f).
Proof. intros; unfold upd_rec; walk. Qed.

End StagedKept.

(* ------------------------------------------------------------------ a new record *)

Lemma aget_aset_inv : forall K V (keqb : K -> K -> bool) k0 (v : V) d k i,
  (forall a b, keqb a b = true -> a = b) ->
  aget keqb k (aset keqb k0 v d) = Some i -> (k = k0 /\ i = v) \/ aget keqb k d = Some i.
Proof.
  intros K V keqb k0 v d k i Hk; induction d as [|[k' v'] d IH]; simpl.
  - destruct (keqb k k0) eqn:E; [|discriminate]. intro H; inversion H; left; split; [apply Hk; exact E|reflexivity].
  - destruct (keqb k0 k') eqn:E0; simpl.
    + destruct (keqb k k') eqn:E; [|auto]. intro H; inversion H; subst. left; split; [|reflexivity].
      apply Hk in E0; apply Hk in E; congruence.
    + destruct (keqb k k') eqn:E; [auto|]. exact IH.
Qed.

Lemma tkey_eqb_eq : forall a b, tkey_eqb a b = true -> a = b.
Proof.
  intros [t r] [t' r']; unfold tkey_eqb; simpl. intro H. apply andb_prop in H; destruct H as [H1 H2].
  apply String.eqb_eq in H1; apply Nat.eqb_eq in H2; congruence.
Qed.

Lemma ctx_ok_mono : forall w w' l, length (contexts w) <= length (contexts w') -> ctx_ok w l -> ctx_ok w' l.
Proof. intros w w' l H [H0 H1]; split; [exact H0|]. intros i Hi; specialize (H1 _ Hi); lia. Qed.

Section NewRecord.
Variable ev : string -> dict -> evalres.
Hypothesis Hev : eval_no_internal ev.

Lemma add_task_state_wf : forall t rt ins prev c c' res,
  add_task_state ev t rt ins prev c = (c', res) ->
  WF c -> rt < length (routes (c_ws c)) -> ctx_ok (c_ws c) (match ins with [] => [0] | _ => ins end) ->
  WF c' /\ Rst c c' /\ contexts (c_ws c') = contexts (c_ws c) /\ routes (c_ws c') = routes (c_ws c) /\
  (forall e, res = Exc e -> ~ internal_cls e).
Proof.
  intros t rt ins prev c c' res H Wc Hrt Hctx.
  assert (Hni : forall e, res = Exc e -> ~ internal_cls e) by (intros e ->; eapply ni_add_task_state; exact H).
  unfold add_task_state in H.
  apply bind_inv in H. destruct H as [[c0 [cst [E0 H]]]|[e [E0 ->]]]; [|inversion E0]. inversion E0; subst c0 cst; clear E0.
  destruct (negb (g_has_task (c_graph c) t)).
  { inversion H; subst. split; [exact Wc|]. split; [apply Rst_refl|]. split; [reflexivity|]. split; [reflexivity|exact Hni]. }
  cbv zeta in H.
  apply bind_inv in H. destruct H as [[cm [retry [Er H]]]|[e [Er ->]]].
  2: { match type of Er with ?m _ = _ =>
         assert (P1 : preserves Rw m) by (pw Rw_refl Rw_trans ltac:(first [apply pw_setup_retry|apply pw_log_error|apply pw_request_status_core]));
         assert (P2 : preserves Rst m) by (pw Rst_refl Rst_trans ltac:(first [apply pst_setup_retry|apply pst_log_error|apply pst_request_status_core])) end.
       pose proof (P1 _ _ _ Er) as Q1. destruct Q1 as [_ [_ [Q3 [Q4 _]]]].
       split; [eapply WF_Rw; [eapply P1; exact Er|exact Wc]|]. split; [eapply P2; exact Er|].
       split; [exact Q3|]. split; [exact Q4|exact Hni]. }
  match type of Er with ?m _ = _ =>
    assert (P1 : preserves Rw m) by (pw Rw_refl Rw_trans ltac:(first [apply pw_setup_retry|apply pw_log_error|apply pw_request_status_core]));
    assert (P2 : preserves Rst m) by (pw Rst_refl Rst_trans ltac:(first [apply pst_setup_retry|apply pst_log_error|apply pst_request_status_core])) end.
  pose proof (P1 _ _ _ Er) as Q1. pose proof (P2 _ _ _ Er) as Q2. pose proof (WF_Rw _ _ Q1 Wc) as Wm.
  destruct Q1 as [_ [_ [Q3 [Q4 _]]]]. destruct Q2 as [Q5 [Q6 Q7]].
  apply bind_inv in H. destruct H as [[c0 [w [E0 H]]]|[e [E0 ->]]]; [|inversion E0]. inversion E0; subst c0 w; clear E0.
  apply bind_inv in H. destruct H as [[c1 [u [E1 H]]]|[e [E1 ->]]]; [|inversion E1]. inversion E1; subst c1; clear E1.
  inversion H; subst c' res; clear H.
  split; [|split; [repeat split; simpl; assumption|split; [simpl; exact Q3|split; [simpl; exact Q4|exact Hni]]]].
  destruct Wm as [Wi Wp Ws Wr]. constructor; simpl.
  - exact Wi.
  - intros k i Hk. rewrite app_length; simpl. apply aget_aset_inv in Hk; [|exact tkey_eqb_eq].
    destruct Hk as [[-> ->]|Hk]; [split; [lia|simpl; rewrite Q4; exact Hrt]|]. destruct (Wp _ _ Hk); split; [lia|assumption].
  - intros s Hs. apply Ws; exact Hs.
  - intros r Hr. apply in_app_or in Hr. destruct Hr as [Hr|[<-|[]]]; [apply Wr; exact Hr|]. simpl. split.
    + eapply ctx_ok_mono; [|exact Hctx]. simpl. rewrite Q3. apply Nat.le_refl.
    + unfold rstatus; simpl. discriminate.
Qed.

End NewRecord.

(* ------------------------------------------------------------------ one transition *)

(* growth: what a transition may do to the state *)
Definition present (c : cstate) (t : string) (r : nat) : Prop := get_staged_task (c_ws c) t r <> None.

Definition Rgrow (c c' : cstate) : Prop :=
  c_graph c' = c_graph c /\ c_spec c' = c_spec c /\ (c_init c = true -> c_init c' = true) /\
  tasks (c_ws c') = tasks (c_ws c) /\
  length (routes (c_ws c)) <= length (routes (c_ws c')) /\ length (contexts (c_ws c)) <= length (contexts (c_ws c')) /\
  length (sequence (c_ws c')) = length (sequence (c_ws c)) /\
  (forall i r, nth_error (sequence (c_ws c)) i = Some r ->
     exists r', nth_error (sequence (c_ws c')) i = Some r' /\ (r_status r <> None -> r_status r' <> None)) /\
  (forall t r, present c t r -> present c' t r) /\
  (exists l, routes (c_ws c') = app (routes (c_ws c)) l).

Lemma Rgrow_refl : forall c, Rgrow c c.
Proof.
  intro c. split; [reflexivity|]. split; [reflexivity|]. split; [auto|]. split; [reflexivity|]. split; [lia|]. split; [lia|].
  split; [reflexivity|]. split; [intros i r H; exists r; auto|]. split; [auto|]. exists []. symmetry; apply app_nil_r.
Qed.
Lemma Rgrow_trans : forall a b c, Rgrow a b -> Rgrow b c -> Rgrow a c.
Proof.
  intros a b c [G1 [S1 [I1 [T1 [O1 [C1 [L1 [Q1 [P1 [l1 X1]]]]]]]]]] [G2 [S2 [I2 [T2 [O2 [C2 [L2 [Q2 [P2 [l2 X2]]]]]]]]]].
  split; [congruence|]. split; [congruence|]. split; [auto|]. split; [congruence|]. split; [lia|]. split; [lia|].
  split; [congruence|]. split; [|split; [auto|exists (app l1 l2); rewrite X2, X1, app_assoc; reflexivity]].
  intros i r H. destruct (Q1 _ _ H) as [r1 [H1 A1]]. destruct (Q2 _ _ H1) as [r2 [H2 A2]]. exists r2; split; auto.
Qed.

Lemma Rw_Rst_Rgrow : forall c c', Rw c c' -> Rst c c' -> Rgrow c c'.
Proof.
  intros c c' [I [T [C [O [S [L Q]]]]]] [St [G Sp]]. unfold Rgrow, present, get_staged_task. rewrite St, C, O.
  split; [exact G|]. split; [exact Sp|]. split; [exact I|]. split; [exact T|]. split; [lia|]. split; [lia|]. split; [exact L|].
  split; [|split; [auto|exists []; symmetry; apply app_nil_r]].
  intros i r H. assert (Hl : i < length (sequence (c_ws c'))) by (rewrite L; apply nth_error_Some; congruence).
  destruct (nth_error (sequence (c_ws c')) i) as [r'|] eqn:E; [|apply nth_error_None in E; lia].
  exists r'; split; [reflexivity|]. destruct (Q _ _ E) as [r0 [H0 [_ [_ [_ A]]]]]. rewrite H in H0; inversion H0; subst; exact A.
Qed.

Lemma find_app_present : forall A (P : A -> bool) l x, find P l <> None -> find P (app l x) <> None.
Proof. intros A P l x; induction l as [|a l IH]; simpl; [congruence|]. destruct (P a); [congruence|exact IH]. Qed.
Lemma find_app_new : forall A (P : A -> bool) l s, P s = true -> find P (app l [s]) <> None.
Proof. intros A P l s H; induction l as [|a l IH]; simpl; [rewrite H; discriminate|]. destruct (P a); [discriminate|exact IH]. Qed.
Lemma stg_matches_refl : forall s, stg_matches (s_id s) (s_route s) s = true.
Proof. intro s; unfold stg_matches. rewrite String.eqb_refl, Nat.eqb_refl; reflexivity. Qed.
Lemma find_staged_update_present : forall f t r t' r' l,
  (forall s, s_id (f s) = s_id s /\ s_route (f s) = s_route s) ->
  find (stg_matches t' r') l <> None -> find (stg_matches t' r') (staged_update f t r l) <> None.
Proof.
  intros f t r t' r' l Hf; induction l as [|s l IH]; simpl; [congruence|].
  assert (E : stg_matches t' r' (f s) = stg_matches t' r' s) by (unfold stg_matches; destruct (Hf s) as [-> ->]; reflexivity).
  destruct (stg_matches t r s); simpl.
  - rewrite E. destruct (stg_matches t' r' s); [discriminate|auto].
  - destruct (stg_matches t' r' s); [discriminate|exact IH].
Qed.

Lemma nat_remove_first_in : forall n l, In n l -> exists l', nat_remove_first n l = Some l' /\ forall i, In i l' -> In i l.
Proof.
  intros n l; induction l as [|m l IH]; simpl; [tauto|]. intros H.
  destruct (Nat.eqb n m) eqn:E; [exists l; split; [reflexivity|auto]|].
  destruct H as [H|H]; [subst; rewrite Nat.eqb_refl in E; discriminate|].
  destruct (IH H) as [l' [E' Hl']]. rewrite E'. exists (m :: l'); split; [reflexivity|].
  intros i [Hi|Hi]; [left; exact Hi|right; apply Hl'; exact Hi].
Qed.

Lemma In_next_transitions : forall g t e, In e (g_next_transitions g t) -> In e (g_edges g) /\ e_src e = t.
Proof.
  intros g t e H. unfold g_next_transitions in H. apply In_sort_by in H. apply filter_In in H.
  destruct H as [H1 H2]. apply String.eqb_eq in H2. split; assumption.
Qed.

(* what the definition and the composed graph must agree on (decidable, see static_ok_b) *)
Definition fresh_rec (t : string) (route : nat) : trec :=
  {| r_id := t; r_route := route; r_in := []; r_out := None; r_prev := []; r_next := []; r_status := None;
     r_term := false; r_retry := None |}.

(* the command's own event takes a record without status to a status *)
Definition cmd_startable (n : string) : Prop :=
  exists name st s, engine_event n = Some (EvEngine name st) /\
                    task_process_event empty_ws (fresh_rec n 0) (EvEngine name st) = Val (Some s).

Record static_ok (sp : wf_spec) (g : graph) : Prop := {
  so_spec : forall t, g_has_task g t = true -> spec_get_task sp t <> None;
  so_ref : forall e ts, In e (g_edges g) -> spec_get_task sp (e_src e) = Some ts -> e_ref e < length (ts_next ts);
  so_inert : graph_commands_inert g;
  so_start : forall e, In e (g_edges g) -> is_engine_command (e_dst e) = true -> cmd_startable (e_dst e) }.

(* a followed edge keeps the route of its source (no new route is opened for it) *)
Definition stays (c : cstate) (route : nat) (e : gedge) : bool :=
  negb (spec_is_split_task (c_spec c) (e_dst e)) || g_in_cycle (c_graph c) (e_dst e) ||
  match nth_error (routes (c_ws c)) route with
  | Some old => existsb (trid_eqb (e_src e, e_key e)) old
  | None => true
  end.

(* the edges of t to engine commands that keep the route lead to different commands: the commands queued by one
   completion of (t, route) are then different (task, route) keys.  (Edges that open a route get one each.) *)
Definition cmd_edges_on_route (c : cstate) (t : string) (route : nat) : list gedge :=
  filter (fun e => is_engine_command (e_dst e) && stays c route e) (g_next_transitions (c_graph c) t).
Definition cmd_routes_distinct (c : cstate) (t : string) (route : nat) : Prop :=
  NoDup (map e_dst (cmd_edges_on_route c t route)).

Lemma stays_mono : forall c c' route e, c_graph c' = c_graph c -> c_spec c' = c_spec c ->
  (exists l, routes (c_ws c') = app (routes (c_ws c)) l) -> stays c' route e = true -> stays c route e = true.
Proof.
  intros c c' route e G S [l R] H. unfold stays in *. rewrite G, S, R in H.
  destruct (negb (spec_is_split_task (c_spec c) (e_dst e)) || g_in_cycle (c_graph c) (e_dst e)); [reflexivity|]. simpl in *.
  destruct (nth_error (routes (c_ws c)) route) as [old|] eqn:E; [|reflexivity].
  rewrite nth_error_app1 in H by (apply nth_error_Some; congruence). rewrite E in H. exact H.
Qed.

Lemma NoDup_map_filter_mono : forall A B (f : A -> B) (P Q : A -> bool) l,
  (forall x, Q x = true -> P x = true) -> NoDup (map f (filter P l)) -> NoDup (map f (filter Q l)).
Proof.
  intros A B f P Q l PQ; induction l as [|x l IH]; simpl; intro H; [constructor|].
  assert (Sub : forall y, In y (map f (filter Q l)) -> In y (map f (filter P l))).
  { intros y Hy. apply in_map_iff in Hy. destruct Hy as [z [<- Hz]]. apply filter_In in Hz. destruct Hz as [Hz1 Hz2].
    apply in_map. apply filter_In. split; [exact Hz1|apply PQ; exact Hz2]. }
  destruct (Q x) eqn:Eq.
  - rewrite (PQ _ Eq) in H. simpl in *. inversion H; subst. constructor; [intro Hy; apply H2; apply Sub; exact Hy|apply IH; exact H3].
  - destruct (P x); [simpl in H; inversion H; subst|]; apply IH; assumption.
Qed.

Lemma distinct_mono : forall c c' t route, c_graph c' = c_graph c -> c_spec c' = c_spec c ->
  (exists l, routes (c_ws c') = app (routes (c_ws c)) l) -> cmd_routes_distinct c t route -> cmd_routes_distinct c' t route.
Proof.
  intros c c' t route G S R H. unfold cmd_routes_distinct, cmd_edges_on_route in *. rewrite G.
  eapply NoDup_map_filter_mono; [|exact H]. intros e He. apply andb_prop in He. destruct He as [A B].
  rewrite A. simpl. eapply stays_mono; eassumption.
Qed.

Section Transition.
Variable ev : string -> dict -> evalres.
Hypothesis Hev : eval_no_internal ev.

Ltac binv H c1 a E :=
  apply bind_inv in H; destruct H as [[c1 [a [E H]]]|[?e [E ->]]].

Lemma WF_grow_lengths : forall c w', WF c ->
  tasks w' = tasks (c_ws c) -> sequence w' = sequence (c_ws c) -> staged w' = staged (c_ws c) ->
  length (routes (c_ws c)) <= length (routes w') -> length (contexts (c_ws c)) <= length (contexts w') ->
  WF (set_ws c w').
Proof.
  intros c w' [Wi Wp Ws Wr] T Q S O C. constructor; simpl.
  - exact Wi.
  - intros k i H. rewrite T in H. rewrite Q. destruct (Wp _ _ H); split; [assumption|lia].
  - intros s H. rewrite S in H. destruct (Ws _ H) as [A B]. split; [lia|]. destruct B as [B1 B2]. split; [exact B1|].
    intros i Hi; specialize (B2 _ Hi); lia.
  - intros r H. rewrite Q in H. destruct (Wr _ H) as [[B1 B2] B]. split; [|exact B]. split; [exact B1|].
    intros i Hi; specialize (B2 _ Hi); lia.
Qed.

Lemma WF_staged : forall c l', WF c ->
  (forall s, In s l' -> s_route s < length (routes (c_ws c)) /\ ctx_ok (c_ws c) (s_in s)) ->
  WF (set_ws c (ws_set_staged (c_ws c) l')).
Proof. intros c l' [Wi Wp Ws Wr] H. constructor; simpl; auto. Qed.

Lemma Rgrow_ws : forall c w',
  tasks w' = tasks (c_ws c) -> sequence w' = sequence (c_ws c) ->
  (exists l, routes w' = app (routes (c_ws c)) l) -> length (contexts (c_ws c)) <= length (contexts w') ->
  (forall t r, find (stg_matches t r) (staged (c_ws c)) <> None -> find (stg_matches t r) (staged w') <> None) ->
  Rgrow c (set_ws c w').
Proof.
  intros c w' T Q O C P. unfold Rgrow, present, get_staged_task; simpl. rewrite T, Q.
  split; [reflexivity|]. split; [reflexivity|]. split; [auto|]. split; [reflexivity|].
  split; [destruct O as [l ->]; rewrite app_length; lia|]. split; [exact C|]. split; [reflexivity|].
  split; [intros i r H; exists r; auto|]. split; [exact P|exact O].
Qed.
Lemma routes_same : forall (l : list (list trid)), exists l0, l = app l l0.
Proof. intro l; exists []; symmetry; apply app_nil_r. Qed.

Lemma get_rec_ok : forall idx c, idx < length (sequence (c_ws c)) ->
  exists r, get_rec idx c = (c, Val r) /\ nth_error (sequence (c_ws c)) idx = Some r.
Proof.
  intros idx c H. destruct (nth_error (sequence (c_ws c)) idx) as [r|] eqn:E; [|apply nth_error_None in E; lia].
  exists r; split; [unfold get_rec, bind, getws; rewrite E; reflexivity|reflexivity].
Qed.

Lemma ni_finalize_context : forall ts e ctx, e_ref e < length (ts_next ts) -> ni (finalize_context ev ts e ctx).
Proof.
  intros ts e ctx H. unfold finalize_context. destruct (nth_error (ts_next ts) (e_ref e)) eqn:E; [|apply nth_error_None in E; lia].
  destruct (string_in (e_dst e) (tr_do t)); [apply ni_render_vars; exact Hev|apply ni_ret].
Qed.

Lemma evaluate_route_wf : forall e route c c' res, evaluate_route e route c = (c', res) ->
  WF c -> route < length (routes (c_ws c)) ->
  WF c' /\ Rgrow c c' /\ (forall x, res = Exc x -> ~ internal_cls x) /\
  (forall nr, res = Val nr -> nr < length (routes (c_ws c')) /\
     ((nr = route /\ stays c route e = true) \/ length (routes (c_ws c)) <= nr)).
Proof.
  intros e route c c' res H Wc Hr. unfold evaluate_route in H.
  apply bind_inv in H. destruct H as [[c0 [cst [E0 H]]]|[x [E0 ->]]]; [|inversion E0]. inversion E0; subst c0 cst; clear E0.
  assert (Same : (c', res) = (c, Val route) -> stays c route e = true ->
     WF c' /\ Rgrow c c' /\ (forall x, res = Exc x -> ~ internal_cls x) /\
     (forall nr, res = Val nr -> nr < length (routes (c_ws c')) /\
        ((nr = route /\ stays c route e = true) \/ length (routes (c_ws c)) <= nr))).
  { intros E Hs; inversion E; subst. split; [exact Wc|]. split; [apply Rgrow_refl|]. split; [discriminate|].
    intros nr Hn; inversion Hn; subst. split; [exact Hr|left; split; [reflexivity|exact Hs]]. }
  destruct (negb (spec_is_split_task (c_spec c) (e_dst e)) || g_in_cycle (c_graph c) (e_dst e)) eqn:E1;
    [apply Same; [symmetry; exact H|unfold stays; rewrite E1; reflexivity]|].
  destruct (nth_error (routes (c_ws c)) route) as [old|] eqn:Eo; [|apply nth_error_None in Eo; lia].
  destruct (existsb (trid_eqb (e_src e, e_key e)) old) eqn:E2;
    [apply Same; [symmetry; exact H|unfold stays; rewrite E1, Eo, E2; reflexivity]|].
  unfold bind, modws, ret in H. inversion H; subst c' res; clear H.
  split; [apply WF_grow_lengths; simpl; auto; rewrite app_length; lia|].
  split; [apply Rgrow_ws; simpl; auto; try apply routes_same; try (eexists; reflexivity); rewrite app_length; lia|]. split; [discriminate|].
  intros nr Hn; inversion Hn; subst. simpl. rewrite app_length; simpl. split; [lia|right; lia].
Qed.

Definition pt_post (route : nat) (e : gedge) (c c' : cstate) (res : option (string * nat) * option (string * nat)) : Prop :=
  forall n rt, fst res = Some (n, rt) ->
    n = e_dst e /\ is_engine_command n = true /\ present c' n rt /\ rt < length (routes (c_ws c')) /\
    ((rt = route /\ stays c route e = true) \/ length (routes (c_ws c)) <= rt).

Lemma process_transition_wf : forall t route idx ts ctx e c c' res,
  process_transition ev t route idx ts ctx e c = (c', res) ->
  WF c -> static_ok (c_spec c) (c_graph c) -> In e (g_next_transitions (c_graph c) t) ->
  spec_get_task (c_spec c) t = Some ts -> route < length (routes (c_ws c)) ->
  idx < length (sequence (c_ws c)) ->
  WF c' /\ Rgrow c c' /\ (forall x, res = Exc x -> ~ internal_cls x) /\ (forall v, res = Val v -> pt_post route e c c' v).
Proof.
  intros t route idx ts ctx e c c' res H Wc Hso Hin Hts Hroute Hidx. unfold process_transition in H.
  destruct (In_next_transitions _ _ _ Hin) as [Hedge Hsrc].
  assert (Href : e_ref e < length (ts_next ts)) by (eapply so_ref; [exact Hso|exact Hedge|rewrite Hsrc; exact Hts]).
  assert (Quiet : forall A c0 c1 (m : M A), preserves Rw m -> preserves Rst m -> ni m -> WF c0 -> Rgrow c c0 ->
            forall r0, m c0 = (c1, r0) -> WF c1 /\ Rgrow c c1 /\ (forall x, r0 = Exc x -> ~ internal_cls x)).
  { intros A c0 c1 m P1 P2 P3 W0 G0 r0 E. split; [eapply WF_Rw; [eapply P1; exact E|exact W0]|].
    split; [eapply Rgrow_trans; [exact G0|apply Rw_Rst_Rgrow; [eapply P1; exact E|eapply P2; exact E]]|].
    intros x ->. eapply P3; exact E. }
  assert (NoCmd : forall cz (v : option (string * nat) * option (string * nat)), fst v = None -> pt_post route e c cz v)
    by (intros cz v Hv n rt Hn; rewrite Hv in Hn; discriminate).
  set (tid := (e_dst e, e_key e)) in *.
  binv H c1 ok E1.
  { match type of E1 with ?m _ = _ =>
      assert (P1 : preserves Rw m) by (pw Rw_refl Rw_trans ltac:(first [apply pw_upd_next|apply pw_log_error|apply pw_request_status_core]));
      assert (P2 : preserves Rst m) by (pw Rst_refl Rst_trans ltac:(first [apply pst_upd_rec|apply pst_log_error|apply pst_request_status_core]));
      assert (P3 : ni m) by (apply ni_try_catch; intro; niw ltac:(first [apply ni_log_error|apply ni_request_status_core])) end.
    destruct (Quiet _ _ _ _ P1 P2 P3 Wc (Rgrow_refl c) _ E1) as [W1 [G1 _]]. clear P1 P2 P3.
    destruct ok as [[|]|];
      [|inversion H; subst; split; [exact W1|split; [exact G1|split; [discriminate|intros v Hv; inversion Hv; subst; apply NoCmd; reflexivity]]]
       |inversion H; subst; split; [exact W1|split; [exact G1|split; [discriminate|intros v Hv; inversion Hv; subst; apply NoCmd; reflexivity]]]].
    (* the criteria hold *)
    binv H c2 fc E2.
    { destruct (Quiet _ _ _ _ (pw_finalize_context ev ts e ctx) (pst_finalize_context ev ts e ctx)
                  (ni_finalize_context ts e ctx Href) W1 G1 _ E2) as [W2 [G2 _]].
      destruct fc as [new_ctx errors]. destruct errors as [|x xs].
      2: { match type of H with ?m _ = _ =>
             assert (P1 : preserves Rw m) by (pw Rw_refl Rw_trans ltac:(first [apply pw_log_errors|apply pw_request_status_core]));
             assert (P2 : preserves Rst m) by (pw Rst_refl Rst_trans ltac:(first [apply pst_log_errors|apply pst_request_status_core]));
             assert (P3 : ni m) by (niw ltac:(first [apply ni_log_errors|apply ni_request_status_core]));
             assert (P4 : vpost (fun v => fst v = None) m) by (apply vpost_bind; intro; apply vpost_bind; intro; apply vpost_ret; reflexivity) end.
           destruct (Quiet _ _ _ _ P1 P2 P3 W2 G2 _ H) as [W3 [G3 N3]].
           split; [exact W3|]. split; [exact G3|]. split; [exact N3|]. intros v Hv; subst res. apply NoCmd. eapply P4; exact H. }
      (* no publish error: stage the next task *)
      assert (Hidx2 : idx < length (sequence (c_ws c2))) by (destruct G2 as [_ [_ [_ [_ [_ [_ [L _]]]]]]]; rewrite L; exact Hidx).
      destruct (get_rec_ok idx c2 Hidx2) as [r [Eg Hr]]. rewrite (bind_step _ _ _ _ _ _ _ Eg) in H.
      rewrite (bind_step _ _ _ _ _ _ _ (eq_refl : getws c2 = (c2, Val (c_ws c2)))) in H.
      assert (Hrin : ctx_ok (c_ws c2) (r_in r)) by (apply (wf_rec _ W2); eapply nth_error_In; exact Hr).
      assert (Hroute2 : route < length (routes (c_ws c2))) by (destruct G2 as [_ [_ [_ [_ [O _]]]]]; lia).
      (* the outgoing context list *)
      assert (Out : exists c3 out, WF c3 /\ Rgrow c c3 /\ ctx_ok (c_ws c3) out /\ route < length (routes (c_ws c3)) /\
                forall (k : list nat -> M (option (string * nat) * option (string * nat))),
                  (out_idxs <- (match new_ctx with
                                | [] => ret (r_in r)
                                | _ => let ci := length (contexts (c_ws c2)) in
                                       modws (fun w => ws_set_contexts w (app (contexts w) [new_ctx])) ;;;
                                       upd_rec idx (fun r => r_set_out r (Some (tid, ci))) ;;;
                                       ret (app (r_in r) [ci])
                                end) ;; k out_idxs) c2 = k out c3).
      { destruct new_ctx as [|kv nc].
        - exists c2, (r_in r). split; [exact W2|]. split; [exact G2|]. split; [exact Hrin|]. split; [exact Hroute2|].
          intro k; reflexivity.
        - set (ca := set_ws c2 (ws_set_contexts (c_ws c2) (app (contexts (c_ws c2)) [kv :: nc]))).
          set (fo := fun r0 : trec => r_set_out r0 (Some (tid, length (contexts (c_ws c2))))).
          assert (Wa : WF ca) by (apply WF_grow_lengths; simpl; auto; rewrite app_length; lia).
          assert (Ga : Rgrow c2 ca) by (apply Rgrow_ws; simpl; auto; try apply routes_same; try (eexists; reflexivity); rewrite app_length; lia).
          assert (Qb : Rw ca (set_ws ca (ws_update_rec (c_ws ca) idx fo))) by (apply Rw_update_rec; intro; repeat split; auto).
          exists (set_ws ca (ws_update_rec (c_ws ca) idx fo)), (app (r_in r) [length (contexts (c_ws c2))]).
          split; [eapply WF_Rw; [exact Qb|exact Wa]|].
          split; [eapply Rgrow_trans; [exact G2|]; eapply Rgrow_trans; [exact Ga|];
                  apply Rw_Rst_Rgrow; [exact Qb|repeat split; simpl; try rewrite staged_update_rec; reflexivity]|].
          destruct Qb as [_ [_ [Qc [Qo _]]]]. simpl in Qc, Qo.
          split; [|split; [simpl; rewrite Qo; exact Hroute2|intro k; reflexivity]].
          destruct Hrin as [A B]. split; [apply in_or_app; left; exact A|].
          intros i Hi. simpl. rewrite Qc, app_length; simpl.
          apply in_app_or in Hi. destruct Hi as [Hi|[<-|[]]]; [specialize (B _ Hi); lia|lia]. }
      destruct Out as [c3 [out [W3 [G3 [Hout [Hroute3 Ek]]]]]]. rewrite Ek in H. clear Ek.
      binv H c4 nr E4.
      { destruct (evaluate_route_wf _ _ _ _ _ E4 W3 Hroute3) as [W4 [G4 [_ Hnr]]]. destruct (Hnr nr eq_refl) as [Hnr' Hkind]. clear Hnr. rename Hnr' into Hnr.
        assert (Hout4 : ctx_ok (c_ws c4) out) by (eapply ctx_ok_mono; [|exact Hout]; destruct G4 as [_ [_ [_ [_ [_ [C _]]]]]]; exact C).
        rewrite (bind_step _ _ _ _ _ _ _ (eq_refl : getws c4 = (c4, Val (c_ws c4)))) in H.
        (* staging *)
        assert (Stg : exists c5, WF c5 /\ Rgrow c4 c5 /\ present c5 (e_dst e) nr /\
                  forall (k : M (option (string * nat) * option (string * nat))),
                    ((match get_staged_task (c_ws c4) (e_dst e) nr with
                      | Some _ =>
                          match nat_remove_first 0 out with
                          | None => raise (mkexn "ValueError" "list.remove(x): x not in list")
                          | Some out' =>
                              modws (fun w => ws_set_staged w
                                       (staged_update
                                          (fun s => s_set_completed
                                                      (s_set_items (s_set_in_prev s (app (s_in s) out')
                                                                                  (aset trid_eqb (t, e_key e) idx (s_prev s)))
                                                                   None) false)
                                          (e_dst e) nr (staged w)))
                          end
                      | None =>
                          modws (fun w => ws_add_staged w (mk_staged (e_dst e) nr out [((t, e_key e), idx)] false None))
                      end) ;;; k) c4 = k c5).
        { destruct (get_staged_task (c_ws c4) (e_dst e) nr) as [s0|] eqn:Es.
          - destruct (nat_remove_first_in 0 out (proj1 Hout4)) as [out' [Eo Hsub]]. rewrite Eo.
            eexists. split; [|split; [|split; [|intro k; unfold bind, modws; cbv beta iota; reflexivity]]].
            + apply WF_staged; [exact W4|]. intros s Hs. apply In_staged_update in Hs.
              destruct Hs as [Hs|[s1 [Hs ->]]]; [apply (wf_stg _ W4); exact Hs|]. destruct (wf_stg _ W4 _ Hs) as [A [B1 B2]].
              simpl. split; [exact A|]. split; [apply in_or_app; left; exact B1|].
              intros i Hi. apply in_app_or in Hi. destruct Hi as [Hi|Hi]; [apply B2; exact Hi|apply (proj2 Hout4); apply Hsub; exact Hi].
            + apply Rgrow_ws; simpl; auto; try apply routes_same. intros t0 r0 Hp. apply find_staged_update_present; [intro; split; reflexivity|exact Hp].
            + unfold present, get_staged_task; simpl. apply find_staged_update_present; [intro; split; reflexivity|].
              unfold get_staged_task in Es. rewrite Es; discriminate.
          - eexists. split; [|split; [|split; [|intro k; unfold bind, modws; cbv beta iota; reflexivity]]].
            + apply WF_staged; [exact W4|]. intros s Hs. apply in_app_or in Hs.
              destruct Hs as [Hs|[<-|[]]]; [apply (wf_stg _ W4); exact Hs|]. simpl. split; [exact Hnr|].
              destruct out as [|o out0]; [destruct (proj1 Hout4)|exact Hout4].
            + apply Rgrow_ws; simpl; auto; try apply routes_same. intros t0 r0 Hp. apply find_app_present; exact Hp.
            + unfold present, get_staged_task, ws_add_staged; simpl. apply find_app_new.
              unfold stg_matches, mk_staged; simpl. rewrite String.eqb_refl, Nat.eqb_refl; reflexivity. }
        destruct Stg as [c5 [W5 [G5 [P5 Ek]]]]. rewrite Ek in H. clear Ek.
        rewrite (bind_step _ _ _ _ _ _ _ (eq_refl : get c5 = (c5, Val c5))) in H. cbv zeta in H.
        unfold bind at 1 in H. unfold modws at 1 in H. cbv beta iota in H.
        match type of H with _ ?cz = _ => set (c6 := cz) in * end.
        assert (W6 : WF c6).
        { eapply WF_Rw; [|exact W5]. apply Rw_staged_update. intro; repeat split; reflexivity. }
        assert (G6 : Rgrow c5 c6).
        { apply Rgrow_ws; simpl; auto; try apply routes_same. intros t0 r0 Hp. apply find_staged_update_present; [intro; split; reflexivity|exact Hp]. }
        assert (Gall : Rgrow c c6) by (eapply Rgrow_trans; [exact G3|]; eapply Rgrow_trans; [exact G4|]; eapply Rgrow_trans; [exact G5|exact G6]).
        assert (P6 : present c6 (e_dst e) nr) by (destruct G6 as [_ [_ [_ [_ [_ [_ [_ [_ [P _]]]]]]]]]; apply P; exact P5).
        destruct (is_engine_command (e_dst e)) eqn:Ecmd.
        - inversion H; subst c' res. split; [exact W6|]. split; [exact Gall|]. split; [discriminate|].
          intros v Hv; inversion Hv; subst v. intros n rt Hn; simpl in Hn; inversion Hn; subst.
          split; [reflexivity|]. split; [exact Ecmd|]. split; [exact P6|].
          split.
          + assert (G46 : Rgrow c4 c6) by (eapply Rgrow_trans; [exact G5|exact G6]).
            destruct G46 as [_ [_ [_ [_ [O46 _]]]]]. lia.
          + destruct G3 as [Gg3 [Gs3 [_ [_ [O3 [_ [_ [_ [_ X3]]]]]]]]].
            destruct Hkind as [[-> Hst]|Hge]; [left; split; [reflexivity|eapply stays_mono; eassumption]|right; lia].
        - match type of H with (if ?b then _ else _) _ = _ => destruct b end; inversion H; subst c' res;
            (split; [exact W6|]; split; [exact Gall|]; split; [discriminate|]; intros v Hv; inversion Hv; subst v; apply NoCmd; reflexivity). }
      { destruct (evaluate_route_wf _ _ _ _ _ E4 W3 Hroute3) as [W4 [G4 [N4 _]]].
        split; [exact W4|]. split; [eapply Rgrow_trans; [exact G3|exact G4]|]. split; [intros x Hx; inversion Hx; subst; apply N4; reflexivity|discriminate]. } }
    { destruct (Quiet _ _ _ _ (pw_finalize_context ev ts e ctx) (pst_finalize_context ev ts e ctx)
                  (ni_finalize_context ts e ctx Href) W1 G1 _ E2) as [W2 [G2 N2]].
      split; [exact W2|]. split; [exact G2|]. split; [intros x Hx; inversion Hx; subst; apply N2; reflexivity|discriminate]. } }
  { match type of E1 with ?m _ = _ =>
      assert (P1 : preserves Rw m) by (pw Rw_refl Rw_trans ltac:(first [apply pw_upd_next|apply pw_log_error|apply pw_request_status_core]));
      assert (P2 : preserves Rst m) by (pw Rst_refl Rst_trans ltac:(first [apply pst_upd_rec|apply pst_log_error|apply pst_request_status_core]));
      assert (P3 : ni m) by (apply ni_try_catch; intro; niw ltac:(first [apply ni_log_error|apply ni_request_status_core])) end.
    destruct (Quiet _ _ _ _ P1 P2 P3 Wc (Rgrow_refl c) _ E1) as [W1 [G1 N1]].
    split; [exact W1|]. split; [exact G1|]. split; [intros x Hx; inversion Hx; subst; apply N1; reflexivity|discriminate]. }
Qed.

End Transition.

(* ------------------------------------------------------------------ the machine step, the increment, completion *)

Lemma WF_update_rec : forall c i f, WF c ->
  (forall r, nth_error (sequence (c_ws c)) i = Some r ->
     r_in (f r) = r_in r /\ (rstatus (f r) = S_RETRYING -> r_retry (f r) <> None)) ->
  WF (set_ws c (ws_update_rec (c_ws c) i f)).
Proof.
  intros c i f [Wi Wp Ws Wr] Hf. destruct (nth_error (sequence (c_ws c)) i) as [r0|] eqn:E.
  2: { rewrite update_rec_absent by exact E. destruct c; constructor; assumption. }
  assert (L : length (sequence (ws_update_rec (c_ws c) i f)) = length (sequence (c_ws c)))
    by (unfold ws_update_rec; rewrite E; simpl; apply length_set_nth).
  assert (C : contexts (ws_update_rec (c_ws c) i f) = contexts (c_ws c)) by (unfold ws_update_rec; rewrite E; reflexivity).
  assert (O : routes (ws_update_rec (c_ws c) i f) = routes (c_ws c)) by (unfold ws_update_rec; rewrite E; reflexivity).
  constructor; simpl.
  - exact Wi.
  - intros k j H. rewrite tasks_update_rec in H. rewrite L, O. apply Wp; exact H.
  - intros s H. rewrite staged_update_rec in H. unfold ctx_ok. rewrite O, C. apply Ws; exact H.
  - intros r H. unfold ws_update_rec in H. rewrite E in H. simpl in H. apply In_set_nth in H. unfold ctx_ok. rewrite C.
    destruct H as [->|H]; [|apply Wr; exact H]. destruct (Hf r0 eq_refl) as [A B]. rewrite A. split; [|exact B].
    apply Wr. eapply nth_error_In; exact E.
Qed.

Lemma get_task_context_from_ok : forall ctxs l acc, (forall i, In i l -> i < length ctxs) ->
  exists d, get_task_context_from ctxs l acc = Val d.
Proof.
  intros ctxs l; induction l as [|i l IH]; intros acc H; simpl; [eexists; reflexivity|].
  destruct (nth_error ctxs i) as [d|] eqn:E; [apply IH; intros j Hj; apply H; right; exact Hj|].
  apply nth_error_None in E. specialize (H i (or_introl eq_refl)). lia.
Qed.

Lemma get_task_context_ok : forall l c, ctx_ok (c_ws c) l -> exists d, get_task_context l c = (c, Val d).
Proof.
  intros l c [_ H]. unfold get_task_context, bind, getws. destruct (get_task_context_from_ok (contexts (c_ws c)) l [] H) as [d E].
  rewrite E. exists d; reflexivity.
Qed.

Lemma find_remove_other : forall t r t' r' l, stg_matches t r = stg_matches t r -> (t', r') <> (t, r) ->
  find (stg_matches t' r') l <> None -> find (stg_matches t' r') (staged_remove_first t r l) <> None.
Proof.
  intros t r t' r' l _ Hne; induction l as [|s l IH]; simpl; [congruence|].
  destruct (stg_matches t r s) eqn:E1.
  - destruct (stg_matches t' r' s) eqn:E2; [|auto]. exfalso. apply Hne.
    unfold stg_matches in E1, E2. apply andb_prop in E1; apply andb_prop in E2. destruct E1 as [A1 A2], E2 as [B1 B2].
    apply String.eqb_eq in A1, B1. apply Nat.eqb_eq in A2, B2. congruence.
  - simpl. destruct (stg_matches t' r' s); [discriminate|exact IH].
Qed.

Lemma routes_update_rec : forall w i f, routes (ws_update_rec w i f) = routes w.
Proof. intros; unfold ws_update_rec; destruct (nth_error (sequence w) i); reflexivity. Qed.
Lemma contexts_update_rec : forall w i f, contexts (ws_update_rec w i f) = contexts w.
Proof. intros; unfold ws_update_rec; destruct (nth_error (sequence w) i); reflexivity. Qed.
Lemma routes_remove_staged : forall w t r, routes (ws_remove_staged_task w t r) = routes w.
Proof. intros; unfold ws_remove_staged_task. destruct (get_staged_task w t r); [|reflexivity]. destruct (items_any_active s); reflexivity. Qed.
Lemma contexts_remove_staged : forall w t r, contexts (ws_remove_staged_task w t r) = contexts w.
Proof. intros; unfold ws_remove_staged_task. destruct (get_staged_task w t r); [|reflexivity]. destruct (items_any_active s); reflexivity. Qed.

Section MachineWF.
Variable ev : string -> dict -> evalres.
Hypothesis Hev : eval_no_internal ev.

Ltac binv H c1 a E :=
  apply bind_inv in H; destruct H as [[c1 [a [E H]]]|[?e [E ->]]].

(* completion raises an internal class only when an abended with-items task is not staged *)
Lemma completion_ni : forall t route evt ts idx new old c c' x,
  uts_completion ev t route evt ts idx new old c = (c', Exc x) -> WF c -> idx < length (sequence (c_ws c)) ->
  (task_has_items ts = true -> status_in new ABENDED_STATUSES = true -> present c t route) -> ~ internal_cls x.
Proof.
  intros t route evt ts idx new old c c' x H Wc Hidx Hp. unfold uts_completion in H.
  destruct (status_in new COMPLETED_STATUSES); [|inversion H].
  apply bind_inv in H; destruct H as [[c1 [u1 [E1 H]]]|[x0 [E1 Hx]]]; [|inversion Hx; subst x0; clear Hx].
  - assert (Q : Rw c c1).
    { match type of E1 with ?m _ = _ => assert (P1 : preserves Rw m)
        by (pw Rw_refl Rw_trans ltac:(first [apply (preserves_modws Rw); intro; apply Rw_remove_staged
             | apply (preserves_modws Rw); intro; apply Rw_staged_update; intro; repeat split; reflexivity])) end.
      eapply P1; exact E1. }
    pose proof (WF_Rw _ _ Q Wc) as W1. destruct Q as [_ [_ [_ [_ [_ [L _]]]]]].
    assert (Hidx1 : idx < length (sequence (c_ws c1))) by (rewrite L; exact Hidx).
    destruct (get_rec_ok idx c1 Hidx1) as [r [Eg Hr]]. cbv zeta in H. rewrite (bind_step _ _ _ _ _ _ _ Eg) in H.
    assert (Hc : ctx_ok (c_ws c1) (r_in r)) by (apply (wf_rec _ W1); eapply nth_error_In; exact Hr).
    destruct (get_task_context_ok _ _ Hc) as [d Ed]. rewrite (bind_step _ _ _ _ _ _ _ Ed) in H.
    rewrite (bind_step _ _ _ _ _ _ _ (eq_refl : getws c1 = (c1, Val (c_ws c1)))) in H.
    apply bind_inv in H; destruct H as [[c2 [b [E2 H]]]|[x0 [E2 Hx]]]; [inversion H|inversion Hx; subst x0; clear Hx].
    revert E2. apply ni_try_catch. intro. niw ltac:(first [apply ni_log_error|apply ni_request_status_core]).
  - destruct (negb (task_has_items ts && status_in new ABENDED_STATUSES)) eqn:En; [inversion E1|].
    apply negb_false_iff in En. apply andb_prop in En. destruct En as [A B]. specialize (Hp A B).
    unfold bind, getws in E1. unfold present in Hp. destruct (get_staged_task (c_ws c) t route); [inversion E1|congruence].
Qed.

(* the decision of a retry, as the tail will use it *)
Definition decided3 (c : cstate) (t : string) (route : nat) (p : pre_out) : Prop :=
  forall ctx, po_compl p = Some (ctx, true) ->
    exists r, rec_at c (po_idx p) = Some r /\ allowed r /\
              tbl_step task_table (rstatus r) EV_TASK_RETRY_REQUESTED = Some S_RETRYING.

Definition post_machine (c : cstate) (t : string) (route idx : nat) (ts : task_spec) (p : pre_out) : Prop :=
  po_idx p = idx /\ po_ts p = ts /\ ws_task_idx (c_ws c) t route = Some idx /\
  (exists r, rec_at c idx = Some r /\ r_status r <> None) /\ decided3 c t route p.

Lemma machine_wf : forall t route evt ts idx c c' res,
  pre_machine ev t route evt ts idx c = (c', res) ->
  WF c -> ws_task_idx (c_ws c) t route = Some idx ->
  (forall r, rec_at c idx = Some r -> rec_ok2 evt r) ->
  (forall r x, rec_at c idx = Some r -> task_process_event (c_ws c) r evt = Exc x -> ~ internal_cls x) ->
  (forall r ns, rec_at c idx = Some r -> task_process_event (c_ws c) r evt = Val ns -> r_status (stepped r ns) <> None) ->
  (forall r ns, rec_at c idx = Some r -> task_process_event (c_ws c) r evt = Val ns -> task_has_items ts = true ->
     status_in (rstatus (stepped r ns)) ABENDED_STATUSES = true -> present c t route) ->
  WF c' /\ (forall x, res = Exc x -> ~ internal_cls x) /\ (forall p, res = Val p -> post_machine c' t route idx ts p).
Proof.
  intros t route evt ts idx c c' res H Wc Hp Hok Htpe Hst Hitems. unfold pre_machine in H.
  destruct (wf_ptr _ Wc _ _ Hp) as [Hidx Hroute]. simpl in Hroute.
  destruct (get_rec_ok idx c Hidx) as [r [Eg Hr]]. rewrite (bind_step _ _ _ _ _ _ _ Eg) in H.
  rewrite (bind_step _ _ _ _ _ _ _ (eq_refl : getws c = (c, Val (c_ws c)))) in H.
  binv H c0 ns E0.
  2: { apply lift_res_inv in E0; destruct E0 as [-> E0]. split; [exact Wc|]. split; [|discriminate].
       intros x Hx; inversion Hx; subst. eapply Htpe; [exact Hr|symmetry; exact E0]. }
  apply lift_res_inv in E0; destruct E0 as [-> Ens]. symmetry in Ens.
  assert (Hretry : rstatus (stepped r ns) = S_RETRYING -> r_retry (stepped r ns) <> None).
  { intro Hs. rewrite stepped_retry. rewrite stepped_status in Hs. destruct ns as [s|].
    - subst s. destruct (machine_enters_allowed _ _ _ (Hok _ Hr) Ens eq_refl) as [rr [Hrr _]]. congruence.
    - apply (wf_rec _ Wc r); [eapply nth_error_In; exact Hr|exact Hs]. }
  binv H c1 u1 E1; [|destruct (setst_inv _ _ _ _ _ _ E1 Hr) as [F _]; discriminate F].
  destruct (setst_inv _ _ _ _ _ _ E1 Hr) as [_ [Ht1 [_ Hn1]]]. fold (stepped r ns) in Hn1.
  assert (W1 : WF c1).
  { unfold uts_setst in E1. destruct ns as [s|]; [|inversion E1; subst; exact Wc].
    unfold set_rec_status, modws in E1. inversion E1; subst c1. apply WF_update_rec; [exact Wc|].
    intros r0 Hr0. rewrite Hr in Hr0; inversion Hr0; subst r0. split; [reflexivity|exact Hretry]. }
  assert (Hidx1 : idx < length (sequence (c_ws c1))) by (apply nth_error_Some; rewrite Hn1; discriminate).
  destruct (get_rec_ok idx c1 Hidx1) as [r' [Eg1 Hr']]. rewrite (bind_step _ _ _ _ _ _ _ Eg1) in H.
  rewrite Hn1 in Hr'; inversion Hr'; subst r'; clear Hr'.
  (* the increment *)
  assert (Inc : exists c2, uts_retrying t route idx (stepped r ns) (rstatus (stepped r ns)) c1 = (c2, Val tt) /\
                           WF c2 /\ tasks (c_ws c2) = tasks (c_ws c1) /\ length (sequence (c_ws c2)) = length (sequence (c_ws c1)) /\
                           (present c1 t route -> present c2 t route) /\
                           (exists r2, rec_at c2 idx = Some r2 /\ r_status r2 = r_status (stepped r ns) /\
                                       (r_retry (stepped r ns) = None -> r_retry r2 = None))).
  { unfold uts_retrying. destruct (status_eqb (rstatus (stepped r ns)) S_RETRYING) eqn:Es.
    2: { exists c1. split; [reflexivity|]. split; [exact W1|]. repeat split; auto. exists (stepped r ns); auto. }
    apply status_eqb_eq in Es. destruct (r_retry (stepped r ns)) as [rr|] eqn:Err; [|exfalso; exact (Hretry Es eq_refl)].
    eexists. split; [unfold bind, upd_rec, modws; cbv beta iota zeta; reflexivity|].
    set (rr' := {| rr_when := rr_when rr; rr_count := rr_count rr; rr_delay := rr_delay rr; rr_tally := S (rr_tally rr) |}).
    set (ca := set_ws c1 (ws_update_rec (c_ws c1) idx (fun r0 => r_set_retry r0 (Some rr')))).
    assert (Wa : WF ca) by (apply WF_update_rec; [exact W1|]; intros r0 _; split; [reflexivity|simpl; discriminate]).
    set (cb := set_ws ca (ws_remove_staged_task (c_ws ca) t route)).
    assert (Wb : WF cb) by (eapply WF_Rw; [apply Rw_remove_staged|exact Wa]).
    assert (Hra : nth_error (sequence (c_ws ca)) idx = Some (r_set_retry (stepped r ns) (Some rr')))
      by (simpl; exact (nth_update_rec_same (c_ws c1) idx (fun r0 => r_set_retry r0 (Some rr')) _ Hn1)).
    assert (Hseqb : sequence (c_ws cb) = sequence (c_ws ca)) by (simpl; apply seq_remove_staged).
    split; [|split; [|split; [|split]]].
    - apply (WF_staged cb); [exact Wb|]. intros s Hs. apply in_app_or in Hs.
      destruct Hs as [Hs|[<-|[]]]; [apply (wf_stg _ Wb); exact Hs|]. simpl.
      unfold ctx_ok; simpl. rewrite routes_remove_staged, contexts_remove_staged; simpl.
      rewrite routes_update_rec, contexts_update_rec.
      destruct (wf_ptr _ W1 (t, route) idx) as [_ Hro]; [unfold ws_task_idx in Hp; rewrite Ht1; exact Hp|].
      split; [exact Hro|]. assert (Hc : ctx_ok (c_ws c1) (r_in (stepped r ns))) by (apply (wf_rec _ W1); eapply nth_error_In; exact Hn1).
      destruct (r_in (stepped r ns)) as [|i0 l0] eqn:Ein; [destruct (proj1 Hc)|exact Hc].
    - simpl. rewrite tasks_remove_staged. simpl. apply tasks_update_rec.
    - simpl. rewrite seq_remove_staged. simpl. unfold ws_update_rec. rewrite Hn1. simpl. apply length_set_nth.
    - intros _. unfold present, get_staged_task, ws_add_staged; simpl. apply find_app_new.
      unfold stg_matches, mk_staged; simpl. rewrite String.eqb_refl, Nat.eqb_refl; reflexivity.
    - exists (r_set_retry (stepped r ns) (Some rr')). split; [unfold rec_at; simpl; rewrite seq_remove_staged; exact Hra|].
      split; [reflexivity|intro; discriminate]. }
  destruct Inc as [c2 [E2 [W2 [Ht2 [Hl2 [Hpr2 [r2 [Hr2 [Hs2 _]]]]]]]]].
  rewrite (bind_step _ _ _ _ _ _ _ E2) in H.
  assert (Hidx2 : idx < length (sequence (c_ws c2))) by (rewrite Hl2; exact Hidx1).
  assert (Hpres : task_has_items ts = true -> status_in (rstatus (stepped r ns)) ABENDED_STATUSES = true -> present c2 t route).
  { intros A B. apply Hpr2. specialize (Hitems _ _ Hr Ens A B). unfold present, get_staged_task in *.
    unfold uts_setst in E1. destruct ns as [s|]; [|inversion E1; subst; exact Hitems].
    unfold set_rec_status, modws in E1. inversion E1; subst c1. simpl. rewrite staged_update_rec. exact Hitems. }
  binv H c3 compl E3.
  2: { split; [eapply WF_Rw; [eapply pw_completion; exact E3|exact W2]|]. split; [|discriminate].
       intros x Hx; inversion Hx; subst. eapply completion_ni; [exact E3|exact W2|exact Hidx2|exact Hpres]. }
  pose proof (pw_completion ev _ _ _ _ _ _ _ _ _ _ E3) as Q3. pose proof (WF_Rw _ _ Q3 W2) as W3.
  inversion H; subst c' res; clear H. split; [exact W3|]. split; [discriminate|].
  intros p Hpv; inversion Hpv; subst p; clear Hpv. unfold post_machine; simpl.
  destruct Q3 as [_ [T3 [_ [_ [_ [L3 Q3]]]]]].
  split; [reflexivity|]. split; [reflexivity|].
  split; [unfold ws_task_idx in *; rewrite T3, Ht2, Ht1; exact Hp|].
  split.
  - assert (Hidx3 : idx < length (sequence (c_ws c3))) by (rewrite L3; exact Hidx2).
    destruct (nth_error (sequence (c_ws c3)) idx) as [r3|] eqn:E; [|apply nth_error_None in E; lia].
    exists r3. split; [exact E|]. destruct (Q3 _ _ E) as [r2' [Hr2' [_ [_ [_ A]]]]]. unfold rec_at in Hr2. rewrite Hr2 in Hr2'; inversion Hr2'; subst r2'.
    apply A. rewrite Hs2. eapply Hst; [exact Hr|exact Ens].
  - intros ctx Hc; simpl in Hc.
    destruct (completion_inv _ _ _ _ _ _ _ _ _ _ _ E3) as [[_ [Hn0 _]]|[Hcomp [c4 [r4 [ctx4 [b4 [[Ks Kt] [_ [Hr4 [Hc4 [Hb4 _]]]]]]]]]]].
    + rewrite Hn0 in Hc; discriminate.
    + rewrite Hc4 in Hc; inversion Hc; subst ctx4 b4. destruct (Hb4 eq_refl) as [-> [Hv Hal]].
      exists r4. split; [exact Hr4|]. split; [exact Hal|].
      assert (Hst4 : rstatus r4 = rstatus (stepped r ns)).
      { rewrite Ks in Hr4. unfold rec_at in Hr2. rewrite Hr2 in Hr4; inversion Hr4; subst r4. unfold rstatus; rewrite Hs2; reflexivity. }
      rewrite Hst4. destruct (F_task_retry_valid _ Hv) as [E|E]; [|exact E].
      rewrite E in Hcomp. discriminate Hcomp.
Qed.

End MachineWF.

(* ------------------------------------------------------------------ malformed calls, decidably *)

Definition is_item (evt : event) : bool := match evt with EvItem _ _ _ _ => true | _ => false end.

(* the staging list as the item-recording step leaves it (when the index is in range) *)
Definition staged_item (l : list stg) (t : string) (route : nat) (evt : event) : list stg :=
  match evt with
  | EvItem item st _ _ =>
      match find (stg_matches t route) l with
      | Some s => match s_items s with
                  | Some its => if Nat.ltb item (length its)
                                then staged_update (fun e => s_set_items e (match s_items e with
                                                                            | Some l0 => Some (list_set_nth item st l0)
                                                                            | None => None end)) t route l
                                else l
                  | None => l
                  end
      | None => l
      end
  | _ => l
  end.

(* the record (as far as the task machine looks at it) that the call will step *)
Definition eff_rec (c : cstate) (t : string) (route : nat) (evt : event) : trec :=
  match ws_task_idx (c_ws c) t route with
  | None => fresh_rec t route
  | Some i =>
      match nth_error (sequence (c_ws c)) i with
      | None => fresh_rec t route
      | Some r =>
          if ostatus_in (r_status r) COMPLETED_STATUSES && status_in (ev_status evt) STARTING_STATUSES
             && match get_staged_task (c_ws c) t route with Some s0 => negb (s_completed s0) | None => false end
          then fresh_rec t route else r
      end
  end.

Definition item_in_range_b (w : wstate) (t : string) (route : nat) (evt : event) : bool :=
  match evt with
  | EvItem item _ _ _ =>
      match get_staged_task w t route with
      | Some s => match s_items s with Some its => Nat.ltb item (length its) | None => true end
      | None => true
      end
  | _ => true
  end.

(* A provider call is WELL-FORMED in a state when none of the following holds (each is a way of calling
   the engine that no provider following the offer/acknowledge/report protocol produces):
   M1 the task is an engine command (those are never offered);
   M2 an item event whose index is outside the items table of the staged task;
   M3 a plain action event for a with-items task that is staged but has not been offered yet (no items table);
   M4 the event is not accepted by the task machine from "no status" although the call would step a record
      that has no status -- the first report for an execution is not a start report (W-A), or a start report
      arrives for an execution that already completed and is re-staged uncompleted (cycle heuristic);
      this includes machine refusals (InvalidEvent ...) on such a record, which would leave it behind;
   M5 the event abends a with-items task that is not staged (the engine wants to flag the staged entry);
   M6 the machine itself answers with an internal class (cannot happen beyond M2; kept for decidability). *)
Definition wellformed_call_b (c : cstate) (t : string) (route : nat) (evt : event) : bool :=
  let w := c_ws c in
  negb (is_engine_command t) && item_in_range_b w t route evt &&
  match spec_get_task (c_spec c) t with
  | None => true
  | Some ts =>
      let items := task_has_items ts in
      (negb items || is_item evt ||
       match get_staged_task w t route with
       | Some s => match s_items s with None => false | Some _ => true end
       | None => true
       end) &&
      let r := eff_rec c t route evt in
      match task_process_event (ws_set_staged w (staged_item (staged w) t route evt)) r evt with
      | Val ns =>
          match r_status r with None => match ns with Some _ => true | None => false end | Some _ => true end
          && (negb items || negb (status_in (rstatus (stepped r ns)) ABENDED_STATUSES)
              || match get_staged_task w t route with Some _ => true | None => false end)
      | Exc x => negb (string_in (x_cls x) internal_names)
                 && match r_status r with None => false | Some _ => true end
      end
  end.

(* the machine looks at the record's status, id and route, and -- for item and workflow events -- at staging *)
Lemma tpe_congr : forall w w' r r' evt,
  rstatus r = rstatus r' ->
  (match evt with
   | EvItem _ _ _ _ | EvWorkflow _ => r_id r = r_id r' /\ r_route r = r_route r' /\ staged w = staged w'
   | _ => True end) ->
  task_process_event w r evt = task_process_event w' r' evt.
Proof.
  intros w w' r r' evt Hs Hw. unfold task_process_event. rewrite Hs. destruct evt; try reflexivity.
  - destruct Hw as [Hi [Hr Hw]]. unfold task_workflow_event_name, get_staged_task. rewrite Hi, Hr, Hw. reflexivity.
  - destruct Hw as [Hi [Hr Hw]]. unfold item_event_name, get_staged_task. rewrite Hi, Hr, Hw. reflexivity.
Qed.

Lemma cmd_engine_event : forall n, is_engine_command n = true -> exists e, engine_event n = Some e.
Proof.
  intros n H. unfold is_engine_command, ahas in H. unfold engine_event.
  destruct (aget String.eqb n ENGINE_EVENT_MAP) as [[name st]|]; [eexists; reflexivity|discriminate].
Qed.

Lemma cmd_reserved : forall sp n, is_engine_command n = true -> spec_get_task sp n = Some empty_task_spec.
Proof.
  intros sp n H. unfold spec_get_task.
  assert (T : forallb (fun '(k, _) => string_in k RESERVED_TASK_NAMES) ENGINE_EVENT_MAP = true) by (vm_compute; reflexivity).
  unfold is_engine_command, ahas in H. destruct (aget String.eqb n ENGINE_EVENT_MAP) as [v|] eqn:E; [|discriminate].
  apply aget_In in E. rewrite forallb_forall in T. specialize (T _ E). cbv beta iota in T. rewrite T. reflexivity.
Qed.

(* ------------------------------------------------------------------ other staged keys kept, routes only appended *)

(* what a step on the key k leaves alone: the staged entries under every other key stay (possibly modified), and the
   route table is only appended to *)
Definition Rq (k : string * nat) (c c' : cstate) : Prop :=
  (forall t r, (t, r) <> k -> present c t r -> present c' t r) /\
  (exists l, routes (c_ws c') = app (routes (c_ws c)) l).
Lemma Rq_refl : forall k c, Rq k c c.
Proof. intros k c; split; [auto|apply routes_same]. Qed.
Lemma Rq_trans : forall k a b c, Rq k a b -> Rq k b c -> Rq k a c.
Proof.
  intros k a b c [P1 [l1 X1]] [P2 [l2 X2]]. split; [auto|]. exists (app l1 l2). rewrite X2, X1, app_assoc; reflexivity.
Qed.
Lemma Rq_ws : forall k c w',
  (forall t r, (t, r) <> k -> find (stg_matches t r) (staged (c_ws c)) <> None -> find (stg_matches t r) (staged w') <> None) ->
  (exists l, routes w' = app (routes (c_ws c)) l) -> Rq k c (set_ws c w').
Proof. intros k c w' P X. split; [exact P|exact X]. Qed.
Lemma Rq_same : forall k c c', c_ws c' = c_ws c -> Rq k c c'.
Proof. intros k c c' E. unfold Rq, present. rewrite E. split; [auto|apply routes_same]. Qed.
Lemma Rq_remove : forall t r c, Rq (t, r) c (set_ws c (ws_remove_staged_task (c_ws c) t r)).
Proof.
  intros t r c. unfold ws_remove_staged_task. destruct (get_staged_task (c_ws c) t r) as [s|]; [|apply Rq_same; destruct c; reflexivity].
  destruct (items_any_active s); [apply Rq_same; destruct c; reflexivity|].
  apply Rq_ws; [|apply routes_same]. intros t' r' Hne Hp. simpl. apply find_remove_other; [reflexivity|exact Hne|exact Hp].
Qed.

Create HintDb presq.

Section OthersKept.
Variable ev : string -> dict -> evalres.
Variable k : string * nat.

Ltac q_staged :=
  intros ?t ?r ?Hne ?Hp; simpl;
  first [ exact Hp
        | rewrite staged_update_rec; exact Hp
        | apply find_staged_update_present; [intro; split; reflexivity|exact Hp]
        | apply find_app_present; exact Hp ].
Ltac q_routes :=
  simpl; first [ apply routes_same | rewrite routes_update_rec; apply routes_same | eexists; reflexivity ].
Ltac leaf :=
  first
    [ apply (preserves_modws (Rq k)); intro; apply Rq_ws; [q_staged|q_routes]
    | apply (preserves_modify (Rq k)); intro; apply Rq_same; reflexivity
    | apply (preserves_modify (Rq k)); intro; apply Rq_same;
      match goal with |- context [if ?b then _ else _] => destruct b end; reflexivity
    | assumption
    | match goal with IH : forall _ _ _, preserves _ _ |- _ => apply IH end
    | match goal with IH : forall _ _, preserves _ _ |- _ => apply IH end
    | match goal with IH : forall _ _ _ _, preserves _ _ |- _ => apply IH end
    | eauto 3 with presq ].
Ltac walk := pw (Rq_refl k) (Rq_trans k) leaf.

Lemma pq_wf_workflow_event : forall st, preserves (Rq k) (wf_workflow_event_M st).
Proof.
  intros st c c' r H. unfold wf_workflow_event_M in H.
  destruct (wf_process_workflow_event (c_graph c) (c_ws c) st) as [[new unr]|e]; inversion H; subst;
    [apply Rq_ws; [intros ? ? _ Hp; exact Hp|apply routes_same]|apply Rq_refl].
Qed.
Hint Resolve pq_wf_workflow_event : presq.
Lemma pq_wf_task_event : forall t route st, preserves (Rq k) (wf_task_event_M t route st).
Proof.
  intros t route st c c' r H. unfold wf_task_event_M in H.
  destruct (wf_process_task_event (c_graph c) (c_ws c) t route st) as [[new unr]|e]; inversion H; subst;
    [apply Rq_ws; [intros ? ? _ Hp; exact Hp|apply routes_same]|apply Rq_refl].
Qed.
Hint Resolve pq_wf_task_event : presq.

Lemma pq_log_entry_error : forall m t r tr res, preserves (Rq k) (log_entry_error m t r tr res).
Proof. intros; unfold log_entry_error; walk. Qed.
Hint Resolve pq_log_entry_error : presq.
Lemma pq_log_error : forall e t r tr, preserves (Rq k) (log_error e t r tr).
Proof. intros; unfold log_error; auto with presq. Qed.
Hint Resolve pq_log_error : presq.
Lemma pq_log_errors : forall es t r tr, preserves (Rq k) (log_errors es t r tr).
Proof. intros; unfold log_errors; walk. Qed.
Hint Resolve pq_log_errors : presq.
Lemma pq_log_unreachable : forall l, preserves (Rq k) (log_unreachable l).
Proof. intros; unfold log_unreachable; walk. Qed.
Hint Resolve pq_log_unreachable : presq.
Lemma pq_set_rec_status : forall i s, preserves (Rq k) (set_rec_status i s).
Proof. intros; unfold set_rec_status; walk. Qed.
Hint Resolve pq_set_rec_status : presq.
Lemma pq_upd_rec : forall i f, preserves (Rq k) (upd_rec i f).
Proof. intros; unfold upd_rec; walk. Qed.
Hint Resolve pq_upd_rec : presq.
Lemma pq_get_rec : forall i, preserves (Rq k) (get_rec i).
Proof. intros; unfold get_rec; walk. Qed.
Hint Resolve pq_get_rec : presq.
Lemma pq_request_status_core : forall st, preserves (Rq k) (request_status_core st).
Proof. intros; unfold request_status_core; walk. Qed.
Hint Resolve pq_request_status_core : presq.
Lemma pq_render_input : forall specs rt rolling errs, preserves (Rq k) (render_input ev specs rt rolling errs).
Proof. induction specs as [|[n d] specs IH]; intros; simpl; walk. Qed.
Hint Resolve pq_render_input : presq.
Lemma pq_render_vars : forall specs rolling rendered errs, preserves (Rq k) (render_vars ev specs rolling rendered errs).
Proof. induction specs as [|[n d] specs IH]; intros; simpl; walk. Qed.
Hint Resolve pq_render_vars : presq.
Lemma pq_ensure_ws : preserves (Rq k) (ensure_ws ev).
Proof. unfold ensure_ws; walk. Qed.
Hint Resolve pq_ensure_ws : presq.
Lemma pq_get_task_context : forall idxs, preserves (Rq k) (get_task_context idxs).
Proof. intros; unfold get_task_context; walk. Qed.
Hint Resolve pq_get_task_context : presq.
Lemma pq_setup_retry : forall t idxs, preserves (Rq k) (setup_retry ev t idxs).
Proof. intros; unfold setup_retry; walk. Qed.
Hint Resolve pq_setup_retry : presq.
Lemma pq_add_task_state : forall t r i p, preserves (Rq k) (add_task_state ev t r i p).
Proof. intros; unfold add_task_state; walk. Qed.
Hint Resolve pq_add_task_state : presq.
Lemma pq_evaluate_route : forall e r, preserves (Rq k) (evaluate_route e r).
Proof. intros; unfold evaluate_route; walk. Qed.
Hint Resolve pq_evaluate_route : presq.
Lemma pq_evaluate_task_retry : forall r ctx, preserves (Rq k) (evaluate_task_retry ev r ctx).
Proof. intros; unfold evaluate_task_retry; walk. Qed.
Hint Resolve pq_evaluate_task_retry : presq.
Lemma pq_finalize_context : forall ts e ctx, preserves (Rq k) (finalize_context ev ts e ctx).
Proof. intros; unfold finalize_context; walk. Qed.
Hint Resolve pq_finalize_context : presq.
Lemma pq_process_transition : forall t route idx ts ctx e, preserves (Rq k) (process_transition ev t route idx ts ctx e).
Proof. intros; unfold process_transition; walk. Qed.
Hint Resolve pq_process_transition : presq.

Lemma pq_need_staged : forall s0, preserves (Rq k) (uts_need_staged s0).
Proof. intros; unfold uts_need_staged; walk. Qed.
Hint Resolve pq_need_staged : presq.
Lemma pq_sel1 : forall t s0 e0, preserves (Rq k) (uts_sel1 ev t s0 e0).
Proof. intros; unfold uts_sel1; walk. Qed.
Hint Resolve pq_sel1 : presq.
Lemma pq_sel2 : forall t evt s0 r1 i, preserves (Rq k) (uts_sel2 ev t evt s0 r1 i).
Proof. intros; unfold uts_sel2; walk. Qed.
Hint Resolve pq_sel2 : presq.
Lemma pq_item : forall t route evt s0, preserves (Rq k) (uts_item t route evt s0).
Proof. intros; unfold uts_item; walk. Qed.
Hint Resolve pq_item : presq.
Lemma pq_logfail : forall t evt, preserves (Rq k) (uts_logfail t evt).
Proof. intros; unfold uts_logfail; walk. Qed.
Hint Resolve pq_logfail : presq.
Lemma pq_setst : forall i ns, preserves (Rq k) (uts_setst i ns).
Proof. intros; unfold uts_setst; walk. Qed.
Hint Resolve pq_setst : presq.
Lemma pq_queue : forall t route idx ts o n compl, preserves (Rq k) (uts_queue ev t route idx ts o n compl).
Proof. intros; unfold uts_queue; walk. Qed.
Hint Resolve pq_queue : presq.

End OthersKept.

Section OthersKeptBody.
Variable ev : string -> dict -> evalres.

Lemma pq_remove_staged : forall t route, preserves (Rq (t, route)) (modws (fun w => ws_remove_staged_task w t route)).
Proof. intros t route. apply (preserves_modws (Rq (t, route))). intro c. apply Rq_remove. Qed.
Lemma pq_unstage : forall t route evt s0, preserves (Rq (t, route)) (uts_unstage t route evt s0).
Proof.
  intros t route evt s0. unfold uts_unstage.
  destruct s0 as [s|]; [|apply (preserves_ret _ (Rq_refl _))].
  destruct (s_items s); [apply (preserves_ret _ (Rq_refl _))|].
  destruct evt; first [apply pq_remove_staged|apply (preserves_ret _ (Rq_refl _))].
Qed.
Lemma pq_retrying : forall t route idx r ns, preserves (Rq (t, route)) (uts_retrying t route idx r ns).
Proof.
  intros t route idx r ns. unfold uts_retrying.
  destruct (status_eqb ns S_RETRYING); [|apply (preserves_ret _ (Rq_refl _))].
  destruct (r_retry r) as [rr|]; [|apply (preserves_raise _ (Rq_refl _))]. cbv zeta.
  apply (preserves_bind _ (Rq_trans _)); [apply pq_upd_rec|intros _].
  apply (preserves_bind _ (Rq_trans _)); [apply pq_remove_staged|intros _].
  apply (preserves_modws (Rq (t, route))). intro c. apply Rq_ws; [|apply routes_same].
  intros t' r' _ Hp. simpl. apply find_app_present; exact Hp.
Qed.
Lemma pq_completion : forall t route evt ts idx ns o0, preserves (Rq (t, route)) (uts_completion ev t route evt ts idx ns o0).
Proof.
  intros. unfold uts_completion.
  pw (Rq_refl (t, route)) (Rq_trans (t, route))
     ltac:(first [apply pq_remove_staged|apply pq_get_rec|apply pq_get_task_context|apply pq_evaluate_task_retry
                 |apply pq_log_error|apply pq_request_status_core
                 |apply (preserves_modws (Rq (t, route))); intro; apply Rq_ws; [|apply routes_same];
                  intros ? ? _ Hp; simpl; apply find_staged_update_present; [intro; split; reflexivity|exact Hp]]).
Qed.
Lemma pq_pre_machine : forall t route evt ts idx, preserves (Rq (t, route)) (pre_machine ev t route evt ts idx).
Proof.
  intros. unfold pre_machine.
  pw (Rq_refl (t, route)) (Rq_trans (t, route))
     ltac:(first [apply pq_get_rec|apply pq_setst|apply pq_retrying|apply pq_completion]).
Qed.
Lemma pq_pre_main : forall t route evt ts s0 e0, preserves (Rq (t, route)) (pre_main ev t route evt ts s0 e0).
Proof.
  intros. unfold pre_main.
  pw (Rq_refl (t, route)) (Rq_trans (t, route))
     ltac:(first [apply pq_sel1|apply pq_get_rec|apply pq_sel2|apply pq_unstage|apply pq_item|apply pq_logfail|apply pq_pre_machine]).
Qed.
Lemma pq_prefix : forall t route evt, preserves (Rq (t, route)) (uts_prefix ev t route evt).
Proof.
  intros. unfold uts_prefix.
  pw (Rq_refl (t, route)) (Rq_trans (t, route)) ltac:(first [apply pq_ensure_ws|apply pq_pre_main]).
Qed.
Lemma pq_tail_norec : forall t route ts idx o n compl,
  preserves (Rq (t, route)) (uts_tail ev (fun _ _ _ => ret tt) t route ts idx o n compl).
Proof.
  intros. unfold uts_tail, uts_call.
  pw (Rq_refl (t, route)) (Rq_trans (t, route))
     ltac:(first [apply pq_queue|apply pq_get_rec|apply pq_wf_task_event|apply pq_log_unreachable|apply pq_upd_rec]).
Qed.
Lemma pq_body_norec : forall t route evt, preserves (Rq (t, route)) (uts_body ev (fun _ _ _ => ret tt) t route evt).
Proof.
  intros t route evt c c' r H. rewrite body_eq in H.
  revert c c' r H. apply (preserves_bind _ (Rq_trans _)); [apply pq_prefix|intro p; apply pq_tail_norec].
Qed.

End OthersKeptBody.

(* ------------------------------------------------------------------ transitions, the queue, the tail *)

Lemma static_transfer : forall c c', c_graph c' = c_graph c -> c_spec c' = c_spec c ->
  static_ok (c_spec c) (c_graph c) -> static_ok (c_spec c') (c_graph c').
Proof. intros c c' G S H; rewrite G, S; exact H. Qed.

Section TailWF.
Variable ev : string -> dict -> evalres.
Hypothesis Hev : eval_no_internal ev.

Definition cmds_of (rs : list (option (string * nat) * option (string * nat))) : list (string * nat) :=
  flat_map (fun '(q, _) => match q with Some x => [x] | None => [] end) rs.

(* a queued command: staged; it comes from an edge of the list, and either kept the route (then that edge is one of
   those that keep it) or sits on a route opened since *)
Definition cmd_post (route : nat) (l : list gedge) (c c' : cstate) (p : string * nat) : Prop :=
  is_engine_command (fst p) = true /\ present c' (fst p) (snd p) /\
  exists e, In e l /\ e_dst e = fst p /\
            ((snd p = route /\ stays c route e = true) \/ length (routes (c_ws c)) <= snd p).

Definition on_route (c : cstate) (route : nat) (e : gedge) : bool := is_engine_command (e_dst e) && stays c route e.

Lemma mapM_pt_wf : forall t route idx ts ctx l c c' res,
  mapM (process_transition ev t route idx ts ctx) l c = (c', res) ->
  WF c -> static_ok (c_spec c) (c_graph c) -> (forall e, In e l -> In e (g_next_transitions (c_graph c) t)) ->
  spec_get_task (c_spec c) t = Some ts -> route < length (routes (c_ws c)) -> idx < length (sequence (c_ws c)) ->
  WF c' /\ Rgrow c c' /\ (forall x, res = Exc x -> ~ internal_cls x) /\
  (forall rs, res = Val rs ->
     Forall (cmd_post route l c c') (cmds_of rs) /\
     (NoDup (map e_dst (filter (on_route c route) l)) -> NoDup (cmds_of rs))).
Proof.
  intros t route idx ts ctx l; induction l as [|e l IH]; intros c c' res H Wc Hso Hl Hts Hroute Hidx.
  - inversion H; subst. split; [exact Wc|]. split; [apply Rgrow_refl|]. split; [discriminate|].
    intros rs Hrs; inversion Hrs; subst rs. simpl. split; [constructor|intros _; constructor].
  - simpl in H. apply bind_inv in H. destruct H as [[c1 [v [E1 H]]]|[x [E1 ->]]].
    + destruct (process_transition_wf ev Hev _ _ _ _ _ _ _ _ _ E1 Wc Hso (Hl e (or_introl eq_refl)) Hts Hroute Hidx)
        as [W1 [G1 [_ P1]]]. specialize (P1 v eq_refl).
      pose proof G1 as [Gg [Gs [_ [_ [Go [_ [Gl [_ [_ Gx]]]]]]]]].
      apply bind_inv in H. destruct H as [[c2 [vs [E2 H]]]|[x [E2 ->]]].
      * assert (IHr := IH c1 c2 (Val vs) E2 W1 (static_transfer _ _ Gg Gs Hso)).
        destruct IHr as [W2 [G2 [_ P2]]].
        { intros e0 He0. rewrite Gg. apply Hl. right; exact He0. }
        { rewrite Gs; exact Hts. } { lia. } { rewrite Gl; exact Hidx. }
        destruct (P2 vs eq_refl) as [F2 N2]. clear P2.
        inversion H; subst c' res. split; [exact W2|]. split; [eapply Rgrow_trans; eassumption|]. split; [discriminate|].
        intros rs Hrs; inversion Hrs; subst rs.
        (* the later commands, seen from the start *)
        assert (F2' : Forall (cmd_post route (e :: l) c c2) (cmds_of vs)).
        { eapply Forall_impl; [|exact F2]. intros p [A [B [e' [He' [Hd' K]]]]]. split; [exact A|]. split; [exact B|].
          exists e'. split; [right; exact He'|]. split; [exact Hd'|].
          destruct K as [[K1 K2]|K]; [left; split; [exact K1|eapply stays_mono; eassumption]|right; lia]. }
        assert (Mono : NoDup (map e_dst (filter (on_route c route) l)) -> NoDup (cmds_of vs)).
        { intro Hn. apply N2. eapply NoDup_map_filter_mono; [|exact Hn]. intros e0 He0. unfold on_route in *.
          apply andb_prop in He0. destruct He0 as [A B]. rewrite A. simpl. eapply stays_mono; eassumption. }
        destruct v as [q q']. unfold cmds_of. simpl. fold (cmds_of vs).
        destruct q as [[n rt]|]; simpl.
        2: { split; [exact F2'|]. intro Hn. apply Mono. destruct (on_route c route e); [simpl in Hn; inversion Hn; assumption|exact Hn]. }
        destruct (P1 n rt eq_refl) as [A [B [C [D K]]]]. subst n.
        split.
        -- constructor; [|exact F2']. split; [exact B|]. split; [destruct G2 as [_ [_ [_ [_ [_ [_ [_ [_ [Pp _]]]]]]]]]; apply Pp; exact C|].
           exists e. split; [left; reflexivity|]. split; [reflexivity|exact K].
        -- intro Hn. constructor.
           2: { apply Mono. destruct (on_route c route e); [simpl in Hn; inversion Hn; assumption|exact Hn]. }
           intro Hin. rewrite Forall_forall in F2. destruct (F2 _ Hin) as [_ [_ [e' [He' [Hd' K']]]]]. simpl in Hd', K'.
           destruct K' as [[K1 K2]|K']; [|lia]. subst rt.
           destruct K as [[_ K]|K]; [|lia].
           assert (On : on_route c route e = true) by (unfold on_route; rewrite B, K; reflexivity).
           rewrite On in Hn. simpl in Hn. apply NoDup_cons_iff in Hn. destruct Hn as [Hn _]. apply Hn.
           rewrite <- Hd'. apply in_map. apply filter_In. split; [exact He'|].
           unfold on_route. rewrite Hd', B. simpl. eapply stays_mono; eassumption.
      * assert (IHr := IH c1 c' (Exc x) E2 W1 (static_transfer _ _ Gg Gs Hso)).
        destruct IHr as [W2 [G2 [N2 _]]].
        { intros e0 He0. rewrite Gg. apply Hl. right; exact He0. }
        { rewrite Gs; exact Hts. } { lia. } { rewrite Gl; exact Hidx. }
        split; [exact W2|]. split; [eapply Rgrow_trans; eassumption|]. split; [exact N2|discriminate].
    + destruct (process_transition_wf ev Hev _ _ _ _ _ _ _ _ _ E1 Wc Hso (Hl e (or_introl eq_refl)) Hts Hroute Hidx)
        as [W1 [G1 [N1 _]]].
      split; [exact W1|]. split; [exact G1|]. split; [intros x0 Hx; inversion Hx; subst; apply N1; reflexivity|discriminate].
Qed.

Definition queued_ok (c : cstate) (p : string * nat) : Prop :=
  is_engine_command (fst p) = true /\ present c (fst p) (snd p) /\ cmd_startable (fst p).

Lemma run_on_fail_loop : forall (readies : list (string * nat)),
  preserves Rw (forM_ readies (fun '(n, rt) =>
     modws (fun w => ws_set_staged w (staged_update (fun s => s_set_run_on_fail s true) n rt (staged w))))) /\
  preserves Rgrow (forM_ readies (fun '(n, rt) =>
     modws (fun w => ws_set_staged w (staged_update (fun s => s_set_run_on_fail s true) n rt (staged w))))).
Proof.
  intro readies; split.
  - apply (preserves_forM _ Rw_refl Rw_trans). intros [n rt]. apply (preserves_modws Rw); intro c.
    apply Rw_staged_update. intro; repeat split; reflexivity.
  - apply (preserves_forM _ Rgrow_refl Rgrow_trans). intros [n rt]. apply (preserves_modws Rgrow); intro c.
    apply Rgrow_ws; simpl; auto; try apply routes_same. intros t0 r0 Hp. apply find_staged_update_present; [intro; split; reflexivity|exact Hp].
Qed.

Lemma queue_wf : forall t route idx ts old new compl c c' res,
  uts_queue ev t route idx ts old new compl c = (c', res) ->
  WF c -> static_ok (c_spec c) (c_graph c) -> spec_get_task (c_spec c) t = Some ts ->
  route < length (routes (c_ws c)) -> idx < length (sequence (c_ws c)) -> cmd_routes_distinct c t route ->
  WF c' /\ Rgrow c c' /\ (forall x, res = Exc x -> ~ internal_cls x) /\
  (forall q, res = Val q -> Forall (queued_ok c') q /\ NoDup q).
Proof.
  intros t route idx ts old new compl c c' res H Wc Hso Hts Hroute Hidx Hd. unfold uts_queue in H.
  assert (Nil : (c', res) = (c, Val []) ->
    WF c' /\ Rgrow c c' /\ (forall x, res = Exc x -> ~ internal_cls x) /\
    (forall q, res = Val q -> Forall (queued_ok c') q /\ NoDup q)).
  { intro E; inversion E; subst. split; [exact Wc|]. split; [apply Rgrow_refl|]. split; [discriminate|].
    intros q Hq; inversion Hq; subst. split; constructor. }
  destruct compl as [[ctx b]|]; [|apply Nil; symmetry; exact H].
  destruct (negb (status_eqb new old)); [|apply Nil; symmetry; exact H].
  rewrite (bind_step _ _ _ _ _ _ _ (eq_refl : get c = (c, Val c))) in H. cbv zeta in H.
  set (trs := g_next_transitions (c_graph c) t) in *.
  assert (QuietU : forall c0 c1 (m : M unit) r0, preserves Rw m -> preserves Rst m -> WF c0 -> Rgrow c c0 ->
            m c0 = (c1, r0) -> WF c1 /\ Rgrow c c1).
  { intros c0 c1 m r0 P1 P2 W0 G0 E. split; [eapply WF_Rw; [eapply P1; exact E|exact W0]|].
    eapply Rgrow_trans; [exact G0|apply Rw_Rst_Rgrow; [eapply P1; exact E|eapply P2; exact E]]. }
  assert (Pterm : preserves Rw (upd_rec idx (fun r => r_set_term r true)) /\ preserves Rst (upd_rec idx (fun r => r_set_term r true))
                  /\ ni (upd_rec idx (fun r => r_set_term r true))).
  { split; [apply pw_upd_term|split; [apply pst_upd_rec|apply ni_upd_rec]]. }
  destruct Pterm as [Pt1 [Pt2 Pt3]].
  apply bind_inv in H. destruct H as [[c1 [u1 [E1 H]]]|[x [E1 ->]]].
  2: { exfalso. destruct trs; [unfold upd_rec, modws in E1|]; inversion E1. }
  assert (Q1 : WF c1 /\ Rgrow c c1).
  { destruct trs; [eapply (QuietU c c1 _ _ Pt1 Pt2 Wc (Rgrow_refl c)); exact E1|inversion E1; subst; split; [exact Wc|apply Rgrow_refl]]. }
  destruct Q1 as [W1 G1]. pose proof G1 as [Gg [Gs [_ [_ [Go [_ [Gl [_ [_ Gx]]]]]]]]].
  apply bind_inv in H. destruct H as [[c2 [rs [E2 H]]]|[x [E2 ->]]].
  2: { destruct (mapM_pt_wf _ _ _ _ _ _ _ _ _ E2 W1 (static_transfer _ _ Gg Gs Hso)) as [W2 [G2 [N2 _]]].
       { intros e He. rewrite Gg. exact He. } { rewrite Gs; exact Hts. } { lia. } { rewrite Gl; exact Hidx. }
       split; [exact W2|]. split; [eapply Rgrow_trans; eassumption|].
       split; [intros x0 Hx; inversion Hx; subst; apply N2; reflexivity|discriminate]. }
  destruct (mapM_pt_wf _ _ _ _ _ _ _ _ _ E2 W1 (static_transfer _ _ Gg Gs Hso)) as [W2 [G2 [_ P2]]].
  { intros e He. rewrite Gg. exact He. } { rewrite Gs; exact Hts. } { lia. } { rewrite Gl; exact Hidx. }
  destruct (P2 rs eq_refl) as [F2 N2]. clear P2. cbv zeta in H. fold (cmds_of rs) in H.
  set (cmds := cmds_of rs) in *.
  apply bind_inv in H. destruct H as [[c3 [u3 [E3 H]]]|[x [E3 ->]]].
  2: { exfalso. destruct (existsb _ cmds); [|inversion E3].
       match type of E3 with forM_ ?l ?f _ = _ => assert (V : forall cx cy ee, forM_ l f cx = (cy, Exc ee) -> False) end; [|eapply V; exact E3].
       intros cx cy ee. match goal with |- forM_ ?l _ _ = _ -> _ => generalize l end. intro l0; revert cx.
       induction l0 as [|[n rt] l0 IHl]; intros cx Hx; [inversion Hx|]. simpl in Hx. unfold bind at 1, modws at 1 in Hx. eapply IHl; exact Hx. }
  assert (Q3 : WF c3 /\ Rgrow c2 c3).
  { destruct (existsb _ cmds); [|inversion E3; subst; split; [exact W2|apply Rgrow_refl]].
    destruct (run_on_fail_loop (flat_map (fun '(_, q) => match q with Some x => [x] | None => [] end) rs)) as [L1 L2].
    split; [eapply WF_Rw; [eapply L1; exact E3|exact W2]|eapply L2; exact E3]. }
  destruct Q3 as [W3 G3].
  assert (G03 : Rgrow c c3) by (eapply Rgrow_trans; [exact G1|]; eapply Rgrow_trans; [exact G2|exact G3]).
  assert (Hidx3 : idx < length (sequence (c_ws c3))) by (destruct G03 as [_ [_ [_ [_ [_ [_ [L _]]]]]]]; rewrite L; exact Hidx).
  destruct (get_rec_ok idx c3 Hidx3) as [r [Eg Hr]]. rewrite (bind_step _ _ _ _ _ _ _ Eg) in H.
  apply bind_inv in H. destruct H as [[c4 [u4 [E4 H]]]|[x [E4 ->]]].
  2: { exfalso. destruct trs; [inversion E4|]. destruct (existsb _ (r_next r)); [inversion E4|unfold upd_rec, modws in E4; inversion E4]. }
  assert (Q4 : WF c4 /\ Rgrow c c4).
  { destruct trs; [inversion E4; subst; split; assumption|].
    destruct (existsb _ (r_next r)); [inversion E4; subst; split; assumption|].
    eapply (QuietU c3 c4 _ _ Pt1 Pt2 W3 G03); exact E4. }
  destruct Q4 as [W4 G4]. inversion H; subst c' res; clear H.
  split; [exact W4|]. split; [exact G4|]. split; [discriminate|].
  intros q Hq; inversion Hq; subst q; clear Hq.
  assert (G24 : forall t0 r0, present c2 t0 r0 -> present c4 t0 r0).
  { intros t0 r0 Hp0. destruct G3 as [_ [_ [_ [_ [_ [_ [_ [_ [Pa _]]]]]]]]]. apply Pa in Hp0.
    destruct trs.
    - inversion E4; subst; exact Hp0.
    - destruct (existsb _ (r_next r)); [inversion E4; subst; exact Hp0|].
      pose proof (pst_upd_rec _ _ _ _ _ E4) as [St _]. unfold present, get_staged_task in *. rewrite St; exact Hp0. }
  split.
  - eapply Forall_impl; [|exact F2]. intros p [A [B [e [He [Hde _]]]]]. split; [exact A|]. split; [apply G24; exact B|].
    rewrite <- Hde. apply (so_start _ _ Hso); [apply (In_next_transitions _ _ _ He)|rewrite Hde; exact A].
  - apply N2. unfold cmd_routes_distinct, cmd_edges_on_route in Hd. fold trs in Hd.
    eapply NoDup_map_filter_mono; [|exact Hd]. intros e0 He0. unfold on_route in He0.
    apply andb_prop in He0. destruct He0 as [A B]. rewrite A. simpl. eapply stays_mono; eassumption.
Qed.

(* calls the body makes to itself: (A) the retry re-entry for a record whose retry was decided, (B) a queued
   engine command that is staged *)
Definition entry_int (evt : event) (c : cstate) (t : string) (route : nat) : Prop :=
  (evt = retry_event /\ is_engine_command t = false /\ cmd_routes_distinct c t route /\
   exists idx r, ws_task_idx (c_ws c) t route = Some idx /\ rec_at c idx = Some r /\ allowed r /\
                 tbl_step task_table (rstatus r) EV_TASK_RETRY_REQUESTED = Some S_RETRYING) \/
  (is_engine_command t = true /\ present c t route /\ engine_event t = Some evt /\ cmd_startable t).

(* such a call keeps the state well-formed and raises nothing internal; it never touches the definition or the
   graph, and a command's call leaves the staged entries of all other keys in place *)
Definition callW (rec : string -> nat -> event -> M unit) : Prop :=
  forall t route evt c c' r, WF c -> static_ok (c_spec c) (c_graph c) -> entry_int evt c t route ->
    rec t route evt c = (c', r) ->
    WF c' /\ (forall x, r = Exc x -> ~ internal_cls x) /\ c_graph c' = c_graph c /\ c_spec c' = c_spec c /\
    (is_engine_command t = true -> Rq (t, route) c c').

Lemma queue_loop_wf : forall rec, callW rec -> forall q c c' r,
  forM_ q (uts_call rec) c = (c', r) ->
  WF c -> static_ok (c_spec c) (c_graph c) -> Forall (queued_ok c) q -> NoDup q ->
  WF c' /\ (forall x, r = Exc x -> ~ internal_cls x).
Proof.
  intros rec Hrec q; induction q as [|[n rt] q IH]; intros c c' r H Wc Hso Hq Hn.
  - inversion H; subst. split; [exact Wc|discriminate].
  - simpl in H. inversion Hq as [|x l Hq1 Hq2]; subst. destruct Hq1 as [A [B C]]. simpl in A, B, C.
    apply NoDup_cons_iff in Hn. destruct Hn as [Hn1 Hn2].
    destruct (cmd_engine_event n A) as [e Ee].
    assert (Ent : entry_int e c n rt) by (right; split; [exact A|split; [exact B|split; [exact Ee|exact C]]]).
    apply bind_inv in H. destruct H as [[c1 [u1 [E1 H]]]|[x [E1 ->]]].
    + unfold uts_call in E1. rewrite Ee in E1.
      destruct (Hrec n rt e c c1 (Val u1) Wc Hso Ent E1) as [W1 [_ [G1 [S1 Q1]]]]. destruct (Q1 A) as [P1 _].
      eapply IH; [exact H|exact W1|apply (static_transfer c c1 G1 S1 Hso)| |exact Hn2].
      rewrite Forall_forall in Hq2 |- *. intros [n' rt'] Hin. destruct (Hq2 _ Hin) as [A' [B' C']].
      split; [exact A'|]. split; [|exact C']. simpl in *. apply P1; [|exact B'].
      intro E; inversion E; subst. apply Hn1; exact Hin.
    + unfold uts_call in E1. rewrite Ee in E1.
      destruct (Hrec n rt e c c' (Exc x) Wc Hso Ent E1) as [W1 [N1 _]]. split; [exact W1|exact N1].
Qed.

Lemma tail_wf : forall rec, callW rec -> forall t route ts idx old new compl c c' res,
  uts_tail ev rec t route ts idx old new compl c = (c', res) ->
  WF c -> static_ok (c_spec c) (c_graph c) -> spec_get_task (c_spec c) t = Some ts ->
  ws_task_idx (c_ws c) t route = Some idx ->
  (exists r, rec_at c idx = Some r /\ r_status r <> None) ->
  cmd_routes_distinct c t route ->
  (forall ctx, compl = Some (ctx, true) ->
     is_engine_command t = false /\
     exists r, rec_at c idx = Some r /\ allowed r /\ tbl_step task_table (rstatus r) EV_TASK_RETRY_REQUESTED = Some S_RETRYING) ->
  WF c' /\ (forall x, res = Exc x -> ~ internal_cls x).
Proof.
  intros rec Hrec t route ts idx old new compl c c' res H Wc Hso Hts Hp Hst Hd Hdec. unfold uts_tail in H.
  destruct (wf_ptr _ Wc _ _ Hp) as [Hidx Hroute]. simpl in Hroute.
  assert (Rest : forall compl',
     (queue <- uts_queue ev t route idx ts old new compl' ;;
      r <- get_rec idx ;;
      st <- (match r_status r with Some s => ret s | None => raise (exn_key "status") end) ;;
      unreachable <- wf_task_event_M t route st ;;
      log_unreachable unreachable ;;;
      forM_ queue (uts_call rec) ;;;
      w <- getws ;;
      if status_in (wstatus w) COMPLETED_STATUSES then upd_rec idx (fun r => r_set_term r true) else ret tt) c = (c', res) ->
     WF c' /\ (forall x, res = Exc x -> ~ internal_cls x)).
  { intros compl' H0.
    apply bind_inv in H0. destruct H0 as [[c1 [q [E1 H0]]]|[x [E1 ->]]].
    2: { destruct (queue_wf _ _ _ _ _ _ _ _ _ _ E1 Wc Hso Hts Hroute Hidx Hd) as [W1 [_ [N1 _]]]. split; [exact W1|].
         intros x0 Hx; inversion Hx; subst; apply N1; reflexivity. }
    destruct (queue_wf _ _ _ _ _ _ _ _ _ _ E1 Wc Hso Hts Hroute Hidx Hd) as [W1 [G1 [_ Q1]]]. destruct (Q1 q eq_refl) as [Qok Qnd].
    pose proof G1 as [Gg [Gs [_ [_ [_ [_ [Gl [Gq _]]]]]]]].
    assert (Hidx1 : idx < length (sequence (c_ws c1))) by (rewrite Gl; exact Hidx).
    destruct (get_rec_ok idx c1 Hidx1) as [r [Eg Hr]]. rewrite (bind_step _ _ _ _ _ _ _ Eg) in H0.
    destruct Hst as [r0 [Hr0 Hs0]]. destruct (Gq _ _ Hr0) as [r1 [Hr1 Hs1]]. rewrite Hr in Hr1; inversion Hr1; subst r1.
    destruct (r_status r) as [st|] eqn:Est; [|exfalso; apply (Hs1 Hs0); reflexivity].
    rewrite (bind_step _ _ _ _ _ _ _ (eq_refl : ret st c1 = (c1, Val st))) in H0.
    apply bind_inv in H0. destruct H0 as [[c2 [unr [E2 H0]]]|[x [E2 ->]]].
    2: { split; [eapply WF_Rw; [eapply pw_wf_task_event; exact E2|exact W1]|]. intros x0 Hx; inversion Hx; subst.
         eapply ni_wf_task_event; exact E2. }
    pose proof (WF_Rw _ _ (pw_wf_task_event _ _ _ _ _ _ E2) W1) as W2. pose proof (pst_wf_task_event _ _ _ _ _ _ E2) as S2.
    apply bind_inv in H0. destruct H0 as [[c3 [u3 [E3 H0]]]|[x [E3 ->]]].
    2: { split; [eapply WF_Rw; [eapply pw_log_unreachable; exact E3|exact W2]|]. intros x0 Hx; inversion Hx; subst.
         eapply ni_log_unreachable; exact E3. }
    pose proof (WF_Rw _ _ (pw_log_unreachable _ _ _ _ E3) W2) as W3. pose proof (pst_log_unreachable _ _ _ _ E3) as S3.
    assert (S13 : Rst c1 c3) by (eapply Rst_trans; eassumption). destruct S13 as [St13 [Sg13 Ss13]].
    (* the queued commands, one after the other *)
    assert (Loop : forall c4 r4, forM_ q (uts_call rec) c3 = (c4, r4) -> WF c4 /\ (forall x, r4 = Exc x -> ~ internal_cls x)).
    { intros c4 r4 E4. eapply (queue_loop_wf rec Hrec); [exact E4|exact W3| | |exact Qnd].
      - apply (static_transfer c c3); [congruence|congruence|exact Hso].
      - eapply Forall_impl; [|exact Qok]. intros p [A [B C]]. split; [exact A|]. split; [|exact C].
        unfold present, get_staged_task in *. rewrite St13. exact B. }
    apply bind_inv in H0. destruct H0 as [[c4 [u4 [E4 H0]]]|[x [E4 ->]]]; [|apply (Loop _ _ E4)].
    destruct (Loop _ _ E4) as [W4 _].
    rewrite (bind_step _ _ _ _ _ _ _ (eq_refl : getws c4 = (c4, Val (c_ws c4)))) in H0.
    destruct (status_in (wstatus (c_ws c4)) COMPLETED_STATUSES); [|inversion H0; subst; split; [exact W4|discriminate]].
    split; [eapply WF_Rw; [eapply pw_upd_term; exact H0|exact W4]|]. intros x ->. eapply ni_upd_rec; exact H0. }
  destruct compl as [[ctx [|]]|]; [|apply (Rest _ H)|apply (Rest _ H)].
  destruct (Hdec ctx eq_refl) as [Hnc [r [Hr [Hal Hstep]]]].
  destruct (Hrec t route retry_event c c' res Wc Hso) as [W' [N' _]]; [|exact H|split; [exact W'|exact N']].
  left. split; [reflexivity|]. split; [exact Hnc|]. split; [exact Hd|]. exists idx, r. auto.
Qed.

End TailWF.

(* ------------------------------------------------------------------ selecting the record, with well-formedness *)

Section SelectWF.
Variable ev : string -> dict -> evalres.
Hypothesis Hev : eval_no_internal ev.

Lemma add_task_state_rec : forall t rt ins prev c c' idx,
  add_task_state ev t rt ins prev c = (c', Val idx) ->
  exists r, nth_error (sequence (c_ws c')) idx = Some r /\ r_id r = t /\ r_route r = rt /\ r_status r = None /\
            ws_task_idx (c_ws c') t rt = Some idx.
Proof.
  intros t rt ins prev c c' idx H. unfold add_task_state in H.
  apply bind_val_inv' in H. destruct H as [c0 [cst [E0 H]]]. inversion E0; subst c0 cst; clear E0.
  destruct (negb (g_has_task (c_graph c) t)); [inversion H|]. cbv zeta in H.
  apply bind_val_inv' in H. destruct H as [cm [retry [Er H]]].
  apply bind_val_inv' in H. destruct H as [c0 [w [E0 H]]]. inversion E0; subst c0 w; clear E0.
  apply bind_val_inv' in H. destruct H as [c1 [u [E1 H]]]. inversion E1; subst c1; clear E1.
  inversion H; subst c' idx; clear H.
  eexists. split.
  - simpl. rewrite nth_error_app2 by apply Nat.le_refl. rewrite Nat.sub_diag. reflexivity.
  - simpl. split; [reflexivity|]. split; [reflexivity|]. split; [reflexivity|].
    unfold ws_task_idx; simpl. apply aget_aset_same. apply tkey_eqb_refl.
Qed.

Definition cycle_cond (evt : event) (s0 : option stg) (r1 : trec) : bool :=
  ostatus_in (r_status r1) COMPLETED_STATUSES && status_in (ev_status evt) STARTING_STATUSES
  && match s0 with Some s => negb (s_completed s) | None => false end.

(* outcome of the selection: the pointer's record, untouched state -- or a record created in this call *)
Definition selected (evt : event) (t : string) (route : nat) (s0 : option stg) (e0 : option nat)
           (c c2 : cstate) (idx : nat) : Prop :=
  ws_task_idx (c_ws c2) t route = Some idx /\
  ((c2 = c /\ e0 = Some idx /\ is_engine_command t = false /\
    forall r1, nth_error (sequence (c_ws c)) idx = Some r1 -> cycle_cond evt s0 r1 = false) \/
   (exists r, nth_error (sequence (c_ws c2)) idx = Some r /\ r_id r = t /\ r_route r = route /\ r_status r = None /\
      (e0 = None \/ is_engine_command t = true \/
       exists i r1, e0 = Some i /\ nth_error (sequence (c_ws c)) i = Some r1 /\ cycle_cond evt s0 r1 = true))).

Lemma select_wf : forall t route evt s0 e0 c c' res,
  (idx1 <- uts_sel1 ev t s0 e0 ;; r1 <- get_rec idx1 ;; uts_sel2 ev t evt s0 r1 idx1) c = (c', res) ->
  WF c -> s0 = get_staged_task (c_ws c) t route -> e0 = ws_task_idx (c_ws c) t route ->
  (s0 <> None \/ (e0 <> None /\ is_engine_command t = false)) ->
  WF c' /\ Rst c c' /\ contexts (c_ws c') = contexts (c_ws c) /\ routes (c_ws c') = routes (c_ws c) /\
  (forall x, res = Exc x -> ~ internal_cls x) /\
  (forall idx, res = Val idx -> selected evt t route s0 e0 c c' idx).
Proof.
  intros t route evt s0 e0 c c' res H Wc Hs0 He0 Hsafe.
  assert (Add : forall s ca cb rb, s0 = Some s -> WF ca -> Rst c ca -> contexts (c_ws ca) = contexts (c_ws c) ->
            routes (c_ws ca) = routes (c_ws c) ->
            add_task_state ev t (s_route s) (s_in s) (s_prev s) ca = (cb, rb) ->
            WF cb /\ Rst c cb /\ contexts (c_ws cb) = contexts (c_ws c) /\ routes (c_ws cb) = routes (c_ws c) /\
            (forall x, rb = Exc x -> ~ internal_cls x) /\
            (forall idx, rb = Val idx -> exists r, nth_error (sequence (c_ws cb)) idx = Some r /\ r_id r = t /\ r_route r = route /\
                                          r_status r = None /\ ws_task_idx (c_ws cb) t route = Some idx)).
  { intros s ca cb rb Es Wa Sa Ca Oa Ea.
    assert (Hin : In s (staged (c_ws c))).
    { rewrite Es in Hs0. symmetry in Hs0. unfold get_staged_task in Hs0. apply find_some in Hs0. apply Hs0. }
    assert (Hr : s_route s = route) by (rewrite Es in Hs0; symmetry in Hs0; apply get_staged_matches in Hs0; apply Hs0).
    destruct (wf_stg _ Wc _ Hin) as [A B].
    destruct (add_task_state_wf ev _ _ _ _ _ _ _ Ea Wa) as [Wb [Sb [Cb [Ob Nb]]]].
    - rewrite Oa. exact A.
    - destruct (s_in s) as [|i0 l0] eqn:Ein; [destruct (proj1 B)|]. unfold ctx_ok in *. rewrite Ca. exact B.
    - split; [exact Wb|]. split; [eapply Rst_trans; eassumption|]. split; [congruence|]. split; [congruence|].
      split; [exact Nb|]. intros idx ->. destruct (add_task_state_rec _ _ _ _ _ _ _ Ea) as [r [H1 [H2 [H3 [H4 H5]]]]].
      exists r. rewrite Hr in *. auto. }
  assert (Ret : forall (s : stg) cx, ret s cx = (cx, Val s)) by reflexivity.
  apply bind_inv in H. destruct H as [[c1 [idx1 [E1 H]]]|[x [E1 ->]]].
  2: { (* the first selection raises *)
       unfold uts_sel1 in E1.
       assert (G : forall s, s0 = Some s -> add_task_state ev t (s_route s) (s_in s) (s_prev s) c = (c', Exc x) ->
                 WF c' /\ Rst c c' /\ contexts (c_ws c') = contexts (c_ws c) /\ routes (c_ws c') = routes (c_ws c) /\
                 (forall x0, @Exc nat x = Exc x0 -> ~ internal_cls x0) /\ (forall idx, @Exc nat x = Val idx -> selected evt t route s0 e0 c c' idx)).
       { intros s Es Ea. destruct (Add s c c' _ Es Wc (Rst_refl c) eq_refl eq_refl Ea) as [A1 [A2 [A3 [A4 [A5 _]]]]].
         split; [exact A1|]. split; [exact A2|]. split; [exact A3|]. split; [exact A4|]. split; [exact A5|discriminate]. }
       destruct s0 as [s|].
       - destruct e0 as [i|]; [destruct (is_engine_command t); [|inversion E1]|];
           (unfold uts_need_staged in E1; rewrite (bind_step _ _ _ _ _ _ _ (Ret s c)) in E1; exact (G s eq_refl E1)).
       - exfalso. destruct Hsafe as [Hsafe|[Hsafe1 Hsafe2]]; [congruence|].
         destruct e0 as [i|]; [|congruence]. rewrite Hsafe2 in E1. inversion E1. }
  (* the first selection returns *)
  assert (S1 : WF c1 /\ Rst c c1 /\ contexts (c_ws c1) = contexts (c_ws c) /\ routes (c_ws c1) = routes (c_ws c) /\
               ((c1 = c /\ e0 = Some idx1 /\ is_engine_command t = false) \/
                (exists r, nth_error (sequence (c_ws c1)) idx1 = Some r /\ r_id r = t /\ r_route r = route /\ r_status r = None /\
                           ws_task_idx (c_ws c1) t route = Some idx1 /\ (e0 = None \/ is_engine_command t = true)))).
  { assert (G : forall s, s0 = Some s -> add_task_state ev t (s_route s) (s_in s) (s_prev s) c = (c1, Val idx1) ->
              (e0 = None \/ is_engine_command t = true) ->
              WF c1 /\ Rst c c1 /\ contexts (c_ws c1) = contexts (c_ws c) /\ routes (c_ws c1) = routes (c_ws c) /\
              ((c1 = c /\ e0 = Some idx1 /\ is_engine_command t = false) \/
               (exists r, nth_error (sequence (c_ws c1)) idx1 = Some r /\ r_id r = t /\ r_route r = route /\ r_status r = None /\
                          ws_task_idx (c_ws c1) t route = Some idx1 /\ (e0 = None \/ is_engine_command t = true)))).
    { intros s Es Ea Hwhy. destruct (Add s c c1 _ Es Wc (Rst_refl c) eq_refl eq_refl Ea) as [A1 [A2 [A3 [A4 [_ A6]]]]].
      split; [exact A1|]. split; [exact A2|]. split; [exact A3|]. split; [exact A4|]. right.
      destruct (A6 idx1 eq_refl) as [r [H1 [H2 [H3 [H4 H5]]]]]. exists r. auto 10. }
    unfold uts_sel1 in E1. destruct e0 as [i|].
    - destruct (is_engine_command t) eqn:Ec.
      + destruct s0 as [s|]; [|inversion E1]. unfold uts_need_staged in E1. rewrite (bind_step _ _ _ _ _ _ _ (Ret s c)) in E1.
        apply (G s eq_refl E1). right; reflexivity.
      + inversion E1; subst. split; [exact Wc|]. split; [apply Rst_refl|]. split; [reflexivity|]. split; [reflexivity|]. left; auto.
    - destruct s0 as [s|]; [|inversion E1]. unfold uts_need_staged in E1. rewrite (bind_step _ _ _ _ _ _ _ (Ret s c)) in E1.
      apply (G s eq_refl E1). left; reflexivity. }
  destruct S1 as [W1 [St1 [C1 [O1 Hsel]]]].
  assert (Hidx1 : idx1 < length (sequence (c_ws c1))).
  { destruct Hsel as [[-> [He _]]|[r [Hr _]]]; [|apply nth_error_Some; rewrite Hr; discriminate].
    apply (wf_ptr _ Wc (t, route) idx1). unfold ws_task_idx in He0. rewrite <- He0. exact He. }
  destruct (get_rec_ok idx1 c1 Hidx1) as [r1 [Eg Hr1]]. rewrite (bind_step _ _ _ _ _ _ _ Eg) in H.
  unfold uts_sel2 in H. fold (cycle_cond evt s0 r1) in H.
  destruct (cycle_cond evt s0 r1) eqn:Ecc.
  - (* a new record for the next turn of a cycle *)
    assert (Es : exists s, s0 = Some s).
    { unfold cycle_cond in Ecc. destruct s0 as [s|]; [exists s; reflexivity|]. rewrite andb_false_r in Ecc. discriminate. }
    destruct Es as [s Es]. rewrite Es in H. unfold uts_need_staged in H. rewrite (bind_step _ _ _ _ _ _ _ (Ret s c1)) in H.
    destruct (Add s c1 c' res Es W1 St1 C1 O1 H) as [A1 [A2 [A3 [A4 [A5 A6]]]]].
    split; [exact A1|]. split; [exact A2|]. split; [exact A3|]. split; [exact A4|]. split; [exact A5|].
    intros idx Hv. destruct (A6 idx Hv) as [r [H1 [H2 [H3 [H4 H5]]]]]. split; [exact H5|]. right.
    exists r. repeat (split; [assumption|]).
    destruct Hsel as [[-> [He Hc]]|[r0 [Hr0 [_ [_ [Hs0' _]]]]]].
    + right; right. exists idx1, r1. auto.
    + exfalso. rewrite Hr1 in Hr0; inversion Hr0; subst r0. unfold cycle_cond in Ecc. rewrite Hs0' in Ecc. discriminate Ecc.
  - inversion H; subst c' res; clear H.
    split; [exact W1|]. split; [exact St1|]. split; [exact C1|]. split; [exact O1|]. split; [discriminate|].
    intros idx Hv; inversion Hv; subst idx; clear Hv.
    destruct Hsel as [[-> [He Hc]]|[r [Hr [H2 [H3 [H4 [H5 Hwhy]]]]]]].
    + split; [unfold ws_task_idx in *; rewrite <- He0; exact He|]. left. split; [reflexivity|]. split; [exact He|]. split; [exact Hc|].
      intros r0 Hr0. rewrite Hr1 in Hr0; inversion Hr0; subst; exact Ecc.
    + split; [exact H5|]. right. exists r. repeat (split; [assumption|]).
      destruct Hwhy as [Hw|Hw]; [left; exact Hw|right; left; exact Hw].
Qed.

End SelectWF.

(* ------------------------------------------------------------------ the whole prefix, for the three kinds of call *)

Lemma unstage_item_noop : forall t route evt s0 c, is_item evt = true -> uts_unstage t route evt s0 c = (c, Val tt).
Proof.
  intros t route evt s0 c H. unfold uts_unstage. destruct s0 as [s|]; [|reflexivity].
  destruct (s_items s); [reflexivity|]. destruct evt; try discriminate; reflexivity.
Qed.

Lemma item_exact : forall t route evt s0 cx cy u, uts_item t route evt s0 cx = (cy, Val u) ->
  s0 = find (stg_matches t route) (staged (c_ws cx)) ->
  staged (c_ws cy) = staged_item (staged (c_ws cx)) t route evt.
Proof.
  intros t route evt s0 cx cy u H Hs. unfold uts_item in H. unfold staged_item.
  destruct evt; try (destruct s0; inversion H; reflexivity).
  rewrite <- Hs. destruct s0 as [s|]; [|inversion H; reflexivity].
  destruct (s_items s); [|inversion H; reflexivity].
  destruct (Nat.ltb item (length l)); [|inversion H]. unfold modws in H. inversion H. reflexivity.
Qed.

Lemma item_in_range_ni : forall w t route evt cx cy x,
  item_in_range_b w t route evt = true -> uts_item t route evt (get_staged_task w t route) cx = (cy, Exc x) -> False.
Proof.
  intros w t route evt cx cy x Hr H. unfold uts_item in H. unfold item_in_range_b in Hr.
  destruct (get_staged_task w t route) as [s|]; [|destruct evt; inversion H].
  destruct evt; try (inversion H; fail). destruct (s_items s); [|inversion H]. rewrite Hr in H. inversion H.
Qed.

Lemma pst_logfail : forall t evt, preserves Rst (uts_logfail t evt).
Proof.
  intros t evt c c' r H. unfold uts_logfail in H. destruct (status_eqb (ev_status evt) S_FAILED); [|inversion H; apply Rst_refl].
  unfold log_entry_error, modify in H. inversion H. cbv zeta. destruct (existsb _ _); repeat split.
Qed.

Lemma provider_not_workflow : forall evt, provider_event evt = true ->
  match evt with EvItem _ _ _ _ | EvWorkflow _ => is_item evt = true | _ => True end.
Proof. intros [| | |]; simpl; intro H; try exact I; try reflexivity; discriminate. Qed.

Section BodyWF.
Variable ev : string -> dict -> evalres.
Hypothesis Hev : eval_no_internal ev.

Definition entry_any (evt : event) (c : cstate) (t : string) (route : nat) : Prop :=
  (provider_event evt = true /\ wellformed_call_b c t route evt = true) \/ entry_int evt c t route.

Lemma pre_main_split : forall t route evt ts s0 e0 c,
  pre_main ev t route evt ts s0 e0 c =
  bind (idx1 <- uts_sel1 ev t s0 e0 ;; r1 <- get_rec idx1 ;; uts_sel2 ev t evt s0 r1 idx1)
       (fun idx => uts_unstage t route evt s0 ;;; uts_item t route evt s0 ;;; uts_logfail t evt ;;;
                   pre_machine ev t route evt ts idx) c.
Proof.
  intros. unfold pre_main. symmetry. rewrite bind_assoc_pt. apply bind_congr; intros c1 idx1 _.
  rewrite bind_assoc_pt. reflexivity.
Qed.

Lemma main_wf : forall t route evt ts c c' res,
  pre_main ev t route evt ts (get_staged_task (c_ws c) t route) (ws_task_idx (c_ws c) t route) c = (c', res) ->
  WF c -> static_ok (c_spec c) (c_graph c) -> spec_get_task (c_spec c) t = Some ts ->
  (get_staged_task (c_ws c) t route <> None \/ ws_task_idx (c_ws c) t route <> None) ->
  entry_any evt c t route ->
  WF c' /\ (forall x, res = Exc x -> ~ internal_cls x) /\
  (forall p, res = Val p -> exists idx, post_machine c' t route idx ts p).
Proof.
  intros t route evt ts c c' res H Wc Hso Hts Hex Hent. rewrite pre_main_split in H.
  set (s0 := get_staged_task (c_ws c) t route) in *. set (e0 := ws_task_idx (c_ws c) t route) in *.
  (* what each kind of call says about the task *)
  assert (Hcmd_ext : forall Hp : provider_event evt = true /\ wellformed_call_b c t route evt = true, is_engine_command t = false).
  { intros [_ Hw]. unfold wellformed_call_b in Hw. cbv zeta in Hw. apply andb_prop in Hw; destruct Hw as [Hw _].
    apply andb_prop in Hw; destruct Hw as [Hw _]. apply negb_true_iff in Hw. exact Hw. }
  assert (Hsafe : s0 <> None \/ (e0 <> None /\ is_engine_command t = false)).
  { destruct Hent as [Hp|[[_ [Hc [_ [idx [r [Hpt _]]]]]]|[_ [Hpr _]]]].
    - specialize (Hcmd_ext Hp). destruct Hex as [A|A]; [left; exact A|right; split; assumption].
    - right. split; [unfold e0; rewrite Hpt; discriminate|exact Hc].
    - left. exact Hpr. }
  apply bind_inv in H. destruct H as [[c2 [idx [E2 H]]]|[x [E2 ->]]].
  2: { destruct (select_wf ev _ _ _ _ _ _ _ _ E2 Wc eq_refl eq_refl Hsafe) as [W2 [_ [_ [_ [N2 _]]]]].
       split; [exact W2|]. split; [intros x0 Hx; inversion Hx; subst; apply N2; reflexivity|discriminate]. }
  destruct (select_wf ev _ _ _ _ _ _ _ _ E2 Wc eq_refl eq_refl Hsafe) as [W2 [St2 [C2 [O2 [_ Hsel]]]]].
  specialize (Hsel idx eq_refl). destruct Hsel as [Hp2 Hsel].
  (* unstage, item status, failure log *)
  apply bind_inv in H. destruct H as [[c3 [u3 [E3 H]]]|[x [E3 ->]]].
  2: { exfalso. unfold uts_unstage in E3. destruct s0 as [s|]; [|inversion E3]. destruct (s_items s); [inversion E3|].
       destruct evt; inversion E3. }
  apply bind_inv in H. destruct H as [[c4 [u4 [E4 H]]]|[x [E4 ->]]].
  2: { exfalso. destruct Hent as [[Hpe Hw]|[[-> _]|[_ [_ [Hee _]]]]].
       - unfold wellformed_call_b in Hw. cbv zeta in Hw. apply andb_prop in Hw; destruct Hw as [Hw _].
         apply andb_prop in Hw; destruct Hw as [_ Hw]. eapply item_in_range_ni; [exact Hw|exact E4].
       - unfold uts_item, retry_event in E4. destruct s0; inversion E4.
       - unfold engine_event in Hee. destruct (aget String.eqb t ENGINE_EVENT_MAP) as [[nm st]|]; [|discriminate].
         inversion Hee; subst evt. unfold uts_item in E4. destruct s0; inversion E4. }
  apply bind_inv in H. destruct H as [[c5 [u5 [E5 H]]]|[x [E5 ->]]].
  2: { exfalso. unfold uts_logfail in E5. destruct (status_eqb _ _); [unfold log_entry_error, modify in E5|]; inversion E5. }
  assert (Q25 : Rw c2 c5).
  { eapply Rw_trans; [eapply pw_unstage; exact E3|]. eapply Rw_trans; [eapply pw_item; exact E4|eapply pw_logfail; exact E5]. }
  assert (K25 : Rk c2 c5).
  { eapply Rk_trans; [eapply pk_unstage; exact E3|]. eapply Rk_trans; [eapply pk_item; exact E4|eapply pk_logfail; exact E5]. }
  pose proof (WF_Rw _ _ Q25 W2) as W5. destruct K25 as [Ks Kt].
  assert (Hp5 : ws_task_idx (c_ws c5) t route = Some idx) by (unfold ws_task_idx in *; rewrite Kt; exact Hp2).
  (* staging as the machine step sees it, for item events *)
  assert (Hstg5 : is_item evt = true -> staged (c_ws c5) = staged_item (staged (c_ws c)) t route evt).
  { intro Hi. rewrite (unstage_item_noop _ _ _ _ _ Hi) in E3. inversion E3; subst c3.
    destruct (pst_logfail _ _ _ _ _ E5) as [S5 _]. rewrite S5.
    destruct St2 as [S2 _]. rewrite <- S2. eapply item_exact; [exact E4|]. unfold s0, get_staged_task. rewrite S2. reflexivity. }
  (* presence of the staged entry survives, for a with-items task of a well-formed provider call and in general
     whenever the unstage step does nothing *)
  assert (Hpres5 : uts_unstage t route evt s0 c2 = (c2, Val tt) -> present c t route -> present c5 t route).
  { intros Hno Hpr. rewrite Hno in E3. inversion E3; subst c3.
    destruct (pst_logfail _ _ _ _ _ E5) as [S5 _]. unfold present, get_staged_task in *. rewrite S5.
    destruct St2 as [S2 _].
    unfold uts_item in E4. destruct s0 as [s|]; [|inversion E4; subst; rewrite S2; exact Hpr].
    destruct evt; try (inversion E4; subst; rewrite S2; exact Hpr).
    destruct (s_items s); [|inversion E4; subst; rewrite S2; exact Hpr].
    destruct (Nat.ltb item (length l)); [|inversion E4]. unfold modws in E4. inversion E4; subst c4. simpl.
    apply find_staged_update_present; [intro; split; reflexivity|]. rewrite S2; exact Hpr. }
  set (r_eff := eff_rec c t route evt) in *.
  set (wI := ws_set_staged (c_ws c) (staged_item (staged (c_ws c)) t route evt)) in *.
  assert (Mach :
    (forall r, rec_at c5 idx = Some r -> rec_ok2 evt r) /\
    (forall r x, rec_at c5 idx = Some r -> task_process_event (c_ws c5) r evt = Exc x -> ~ internal_cls x) /\
    (forall r ns, rec_at c5 idx = Some r -> task_process_event (c_ws c5) r evt = Val ns -> r_status (stepped r ns) <> None) /\
    (forall r ns, rec_at c5 idx = Some r -> task_process_event (c_ws c5) r evt = Val ns -> task_has_items ts = true ->
        status_in (rstatus (stepped r ns)) ABENDED_STATUSES = true -> present c5 t route)).
  { unfold rec_at. rewrite Ks.
    destruct Hent as [[Hpe Hw]|[[Hevt [Hnc [_ [i [r0 [Hpt [Hr0 [Hal Hstep]]]]]]]]|[Hc [Hpr [Hee Hsta]]]]].
    - (* a provider call that is well-formed *)
      pose proof (Hcmd_ext (conj Hpe Hw)) as Hnc.
      unfold wellformed_call_b in Hw. cbv zeta in Hw. rewrite Hts in Hw. fold r_eff wI in Hw.
      apply andb_prop in Hw; destruct Hw as [Hw Hw4]. apply andb_prop in Hw4; destruct Hw4 as [Hw3 Hw4].
      assert (Ceq : forall r, nth_error (sequence (c_ws c2)) idx = Some r ->
                 r_status r = r_status r_eff /\ task_process_event (c_ws c5) r evt = task_process_event wI r_eff evt).
      { intros r Hr.
        assert (Hf : r_status r = r_status r_eff /\ r_id r = r_id r_eff /\ r_route r = r_route r_eff).
        { destruct Hsel as [[-> [He [_ Hcc]]]|[r' [Hr' [Hi' [Hro' [Hs' Hwhy]]]]]].
          - assert (r_eff = r); [|subst; auto]. unfold r_eff, eff_rec. fold e0. rewrite He, Hr.
            specialize (Hcc r Hr). unfold cycle_cond, s0 in Hcc. rewrite Hcc. reflexivity.
          - rewrite Hr in Hr'; inversion Hr'; subst r'.
            assert (r_eff = fresh_rec t route); [|subst r_eff; rewrite H0; simpl; auto].
            unfold r_eff, eff_rec. fold e0. destruct Hwhy as [->|[Hcm|[i [r1 [-> [Hr1 Hcc]]]]]]; [reflexivity|congruence|].
            rewrite Hr1. unfold cycle_cond, s0 in Hcc. rewrite Hcc. reflexivity. }
        destruct Hf as [F1 [F2 F3]]. split; [exact F1|]. apply tpe_congr; [unfold rstatus; rewrite F1; reflexivity|].
        pose proof (provider_not_workflow evt Hpe) as Hpi. destruct evt; try exact I; (split; [exact F2|split; [exact F3|apply Hstg5; exact Hpi]]). }
      split; [intros r _; right; left; apply provider_external; exact Hpe|].
      split; [|split].
      + intros r x Hr Hx. destruct (Ceq r Hr) as [_ Et]. rewrite Et in Hx. rewrite Hx in Hw4.
        apply andb_prop in Hw4; destruct Hw4 as [Hw4 _]. apply negb_true_iff in Hw4. unfold internal_cls. rewrite Hw4. discriminate.
      + intros r ns Hr Hn. destruct (Ceq r Hr) as [Es Et]. rewrite Et in Hn. rewrite Hn in Hw4.
        apply andb_prop in Hw4; destruct Hw4 as [Hw4 _]. destruct ns as [s|]; [discriminate|]. simpl. rewrite Es.
        destruct (r_status r_eff); [discriminate|discriminate Hw4].
      + intros r ns Hr Hn Hit Hab. destruct (Ceq r Hr) as [Es Et]. rewrite Et in Hn. rewrite Hn in Hw4.
        apply andb_prop in Hw4; destruct Hw4 as [_ Hw4]. rewrite Hit in Hw4, Hw3. cbn [negb orb] in Hw4, Hw3.
        assert (Hab' : status_in (rstatus (stepped r_eff ns)) ABENDED_STATUSES = true).
        { rewrite stepped_status in *. unfold rstatus in *. rewrite <- Es. exact Hab. }
        rewrite Hab' in Hw4. cbn [negb orb] in Hw4.
        assert (Hpr : present c t route) by (unfold present; destruct (get_staged_task (c_ws c) t route); [discriminate|discriminate Hw4]).
        apply Hpres5; [|exact Hpr].
        destruct (is_item evt) eqn:Eit; [apply unstage_item_noop; exact Eit|]. cbn [orb] in Hw3.
        unfold uts_unstage, s0. destruct (get_staged_task (c_ws c) t route) as [s|]; [|reflexivity].
        destruct (s_items s); [reflexivity|discriminate Hw3].
    - (* the retry re-entry *)
      subst evt.
      assert (Old : c2 = c /\ idx = i).
      { destruct Hsel as [[-> [He _]]|[r' [_ [_ [_ [_ Hwhy]]]]]].
        - split; [reflexivity|]. unfold e0 in He. rewrite Hpt in He. inversion He; reflexivity.
        - exfalso. destruct Hwhy as [Hw|[Hw|[j [r1 [_ [_ Hcc]]]]]].
          + unfold e0 in Hw. rewrite Hpt in Hw. discriminate.
          + congruence.
          + unfold cycle_cond in Hcc. simpl in Hcc. rewrite andb_false_r in Hcc. discriminate. }
      destruct Old as [-> ->]. unfold rec_at in Hr0.
      split; [intros r Hr; rewrite Hr0 in Hr; inversion Hr; subst; right; right; exact Hal|].
      split; [intros r x _ Hx; eapply tpe_ni; [exact Hx|exact I]|].
      split.
      + intros r ns Hr Hn. rewrite Hr0 in Hr; inversion Hr; subst r. apply tpe_engine in Hn. rewrite Hstep in Hn. subst ns. discriminate.
      + intros r ns Hr Hn _ Hab. rewrite Hr0 in Hr; inversion Hr; subst r. apply tpe_engine in Hn. rewrite Hstep in Hn. subst ns.
        discriminate Hab.
    - (* a queued engine command *)
      destruct Hsta as [name [st [s [Hee' Hstart]]]]. rewrite Hee in Hee'. inversion Hee'; subst evt.
      assert (Fresh : forall r, nth_error (sequence (c_ws c2)) idx = Some r -> r_status r = None).
      { intros r Hr. destruct Hsel as [[_ [_ [Hn _]]]|[r' [Hr' [_ [_ [Hs' _]]]]]]; [congruence|].
        rewrite Hr in Hr'; inversion Hr'; subst; exact Hs'. }
      split; [intros r Hr; left; apply Fresh; exact Hr|].
      split; [intros r x _ Hx; eapply tpe_ni; [exact Hx|exact I]|].
      split.
      + intros r ns Hr Hn. rewrite (tpe_congr _ empty_ws _ (fresh_rec t 0)) in Hn; [|unfold rstatus; rewrite (Fresh r Hr); reflexivity|exact I].
        rewrite Hstart in Hn. inversion Hn; subst. discriminate.
      + intros r ns _ _ Hit _. rewrite (cmd_reserved _ _ Hc) in Hts. inversion Hts; subst ts. discriminate Hit. }
  destruct Mach as [P6 [P5 [P4 P7]]].
  destruct (machine_wf ev t route evt ts idx c5 c' res H W5 Hp5 P6 P5 P4 P7) as [W' [N' Post]].
  split; [exact W'|]. split; [exact N'|]. intros p Hpv. exists idx. apply Post; exact Hpv.
Qed.

Lemma prefix_wf : forall t route evt c c' res,
  uts_prefix ev t route evt c = (c', res) ->
  WF c -> static_ok (c_spec c) (c_graph c) -> entry_any evt c t route ->
  WF c' /\ (forall x, res = Exc x -> ~ internal_cls x) /\
  (forall p, res = Val p -> spec_get_task (c_spec c) t = Some (po_ts p) /\
                            exists idx, post_machine c' t route idx (po_ts p) p).
Proof.
  intros t route evt c c' res H Wc Hso Hent. unfold uts_prefix in H.
  rewrite (bind_step _ _ _ _ _ _ _ (ensure_ws_inited ev c (wf_init _ Wc))) in H.
  rewrite (bind_step _ _ _ _ _ _ _ (eq_refl : get c = (c, Val c))) in H.
  destruct (negb (g_has_task (c_graph c) t)) eqn:Eg.
  { inversion H; subst. split; [exact Wc|]. split; [intros x Hx; inversion Hx; subst; not_internal|discriminate]. }
  apply negb_false_iff in Eg. cbv zeta in H.
  destruct (spec_get_task (c_spec c) t) as [ts|] eqn:Ets; [|exfalso; exact (so_spec _ _ Hso t Eg Ets)].
  rewrite (bind_step _ _ _ _ _ _ _ (eq_refl : ret ts c = (c, Val ts))) in H.
  assert (G : (get_staged_task (c_ws c) t route <> None \/ ws_task_idx (c_ws c) t route <> None) ->
              pre_main ev t route evt ts (get_staged_task (c_ws c) t route) (ws_task_idx (c_ws c) t route) c = (c', res) ->
              WF c' /\ (forall x, res = Exc x -> ~ internal_cls x) /\
              (forall p, res = Val p -> Some ts = Some (po_ts p) /\ exists idx, post_machine c' t route idx (po_ts p) p)).
  { intros Hex Hm. destruct (main_wf _ _ _ _ _ _ _ Hm Wc Hso Ets Hex Hent) as [W' [N' P']].
    split; [exact W'|]. split; [exact N'|]. intros p Hp. destruct (P' p Hp) as [idx Hpost].
    assert (E : po_ts p = ts) by (destruct Hpost as [_ [E _]]; exact E). rewrite E. split; [reflexivity|exists idx; exact Hpost]. }
  destruct (get_staged_task (c_ws c) t route) as [s|] eqn:Es0; destruct (ws_task_idx (c_ws c) t route) as [i|] eqn:Ee0.
  - apply G; [left; discriminate|exact H].
  - apply G; [left; discriminate|exact H].
  - apply G; [right; discriminate|exact H].
  - inversion H; subst. split; [exact Wc|]. split; [intros x Hx; inversion Hx; subst; not_internal|discriminate].
Qed.

Lemma body_wf : forall rec, callW rec -> forall t route evt c c' r,
  WF c -> static_ok (c_spec c) (c_graph c) -> entry_any evt c t route -> cmd_routes_distinct c t route ->
  uts_body ev rec t route evt c = (c', r) -> WF c' /\ (forall x, r = Exc x -> ~ internal_cls x).
Proof.
  intros rec Hrec t route evt c c' r Wc Hso Hent Hd H. rewrite body_eq in H.
  apply bind_inv in H. destruct H as [[c1 [p [E1 H]]]|[x [E1 ->]]].
  2: { destruct (prefix_wf _ _ _ _ _ _ E1 Wc Hso Hent) as [W1 [N1 _]]. split; [exact W1|].
       intros x0 Hx; inversion Hx; subst; apply N1; reflexivity. }
  destruct (prefix_wf _ _ _ _ _ _ E1 Wc Hso Hent) as [W1 [_ P1]]. destruct (P1 p eq_refl) as [Hts [idx Hpost]].
  pose proof (pg_prefix ev _ _ _ _ _ _ E1) as Gg. pose proof (ps_prefix ev _ _ _ _ _ _ E1) as Gs.
  pose proof (pq_prefix ev _ _ _ _ _ _ E1) as [_ Gx].
  unfold Rg in Gg. unfold Rs in Gs.
  destruct Hpost as [Hi [_ [Hp [Hst Hdec]]]]. unfold tail_of in H. rewrite Hi in H.
  eapply (tail_wf ev Hev rec Hrec); [exact H|exact W1|apply (static_transfer c c1 Gg Gs Hso)|rewrite Gs; exact Hts|exact Hp|exact Hst
                                    |apply (distinct_mono c c1 t route Gg Gs Gx Hd)|].
  intros ctx Hc. unfold decided3 in Hdec. rewrite Hi in Hdec. split; [|apply (Hdec ctx Hc)].
  destruct (is_engine_command t) eqn:Ecmd; [|reflexivity]. exfalso.
  assert (Hnr : g_task_has_retry (c_graph c) t = false) by (apply (so_inert _ _ Hso t Ecmd)).
  pose proof (prefix_cmd_no_retry ev _ _ _ _ _ _ Ecmd Hnr E1 ctx true Hc). discriminate.
Qed.

(* a command has no edge *)
Lemma cmd_distinct : forall c t route, graph_commands_inert (c_graph c) -> is_engine_command t = true ->
  cmd_routes_distinct c t route.
Proof.
  intros c t route Hi Ht. unfold cmd_routes_distinct, cmd_edges_on_route. rewrite (proj1 (Hi t Ht)). constructor.
Qed.

Lemma uts_fuel_callW : forall fuel, callW (update_task_state_fuel ev fuel).
Proof.
  induction fuel as [|fuel IH]; intros t route evt c c' r Wc Hso Hent H.
  - inversion H; subst. split; [exact Wc|]. split; [intros x Hx; inversion Hx; subst; not_internal|].
    split; [reflexivity|]. split; [reflexivity|]. intros _. apply Rq_refl.
  - pose proof (pg_uts_fuel ev _ _ _ _ _ _ _ H) as Gg. pose proof (ps_uts_fuel ev _ _ _ _ _ _ _ H) as Gs.
    unfold Rg in Gg. unfold Rs in Gs.
    rewrite uts_unfold in H.
    assert (Hd : cmd_routes_distinct c t route).
    { destruct Hent as [[_ [_ [Hd _]]]|[Hc _]]; [exact Hd|apply cmd_distinct; [apply (so_inert _ _ Hso)|exact Hc]]. }
    destruct (body_wf _ IH _ _ _ _ _ _ Wc Hso (or_intror Hent) Hd H) as [W' N'].
    split; [exact W'|]. split; [exact N'|]. split; [exact Gg|]. split; [exact Gs|].
    intro Hc. rewrite (body_norec_cmd ev _ (fun _ _ _ => ret tt) t route evt c (so_inert _ _ Hso) Hc) in H.
    eapply pq_body_norec; exact H.
Qed.

(* update_task_state, provider events, well-formed calls *)
Theorem update_task_state_wf : forall t route evt c c' r,
  WF c -> static_ok (c_spec c) (c_graph c) -> provider_event evt = true -> wellformed_call_b c t route evt = true ->
  cmd_routes_distinct c t route ->
  update_task_state ev t route evt c = (c', r) ->
  WF c' /\ (forall x, r = Exc x -> ~ internal_cls x).
Proof.
  intros t route evt c c' r Wc Hso Hp Hw Hd H. unfold update_task_state in H. rewrite uts_unfold in H.
  exact (body_wf _ (uts_fuel_callW 2) _ _ _ _ _ _ Wc Hso (or_introl (conj Hp Hw)) Hd H).
Qed.

End BodyWF.

(* ------------------------------------------------------------------ output rendering reads existing contexts *)

Lemma In_enumerate_from_snd : forall A (l : list A) n i x, In (i, x) (enumerate_from n l) -> In x l.
Proof.
  induction l as [|a l IH]; intros n i x H; simpl in *; [tauto|].
  destruct H as [H|H]; [inversion H; left; reflexivity|right; eapply IH; exact H].
Qed.

Section RenderNI.
Variable ev : string -> dict -> evalres.
Hypothesis Hev : eval_no_internal ev.

Lemma merge_term_ok : forall l acc c c' x, (forall i r, In (i, r) l -> ctx_ok (c_ws c) (r_in r)) ->
  merge_term_contexts l acc c = (c', Exc x) -> False.
Proof.
  induction l as [|[i r] l IH]; intros acc c c' x Hl H; simpl in H; [inversion H|].
  destruct (Hl i r (or_introl eq_refl)) as [H0 Hr].
  destruct (nat_remove_first_in 0 (r_in r) H0) as [l' [E Hsub]]. rewrite E in H.
  destruct (get_task_context_from_ok (contexts (c_ws c)) l' [] (fun j Hj => Hr j (Hsub j Hj))) as [d Ed].
  assert (Eg : get_task_context l' c = (c, Val d)) by (unfold get_task_context, bind, getws; rewrite Ed; reflexivity).
  rewrite (bind_step _ _ _ _ _ _ _ Eg) in H. eapply IH; [|exact H]. intros j r0 Hj. apply (Hl j). right; exact Hj.
Qed.

Lemma terminal_context_ok : forall c c' x, WF c -> get_workflow_terminal_context c = (c', Exc x) -> False.
Proof.
  intros c c' x Wc H. unfold get_workflow_terminal_context in H.
  rewrite (bind_step _ _ _ _ _ _ _ (eq_refl : getws c = (c, Val (c_ws c)))) in H.
  assert (Hterm : forall i r, In (i, r) (get_terminal_tasks (c_ws c)) -> ctx_ok (c_ws c) (r_in r)).
  { intros i r Hin. unfold get_terminal_tasks in Hin. apply filter_In in Hin. destruct Hin as [Hin _].
    apply In_enumerate_from_snd in Hin. apply (wf_rec _ Wc); exact Hin. }
  destruct (get_terminal_tasks (c_ws c)) as [|[i first] others]; [inversion H|].
  destruct (get_task_context_ok _ _ (Hterm i first (or_introl eq_refl))) as [d Ed].
  rewrite (bind_step _ _ _ _ _ _ _ Ed) in H. eapply merge_term_ok; [|exact H].
  intros j r Hj. apply (Hterm j). right; exact Hj.
Qed.

Lemma render_workflow_output_ni : forall c c' x, WF c -> render_workflow_output ev c = (c', Exc x) -> ~ internal_cls x.
Proof.
  intros c c' x Wc H. unfold render_workflow_output in H.
  rewrite (bind_step _ _ _ _ _ _ _ (ensure_ws_inited ev c (wf_init _ Wc))) in H.
  rewrite (bind_step _ _ _ _ _ _ _ (eq_refl : get c = (c, Val c))) in H. cbv zeta in H.
  destruct (status_in (wstatus (c_ws c)) COMPLETED_STATUSES && match c_output c with None => true | Some _ => false end); [|inversion H].
  apply bind_inv in H. destruct H as [[c1 [tctx [E1 H]]]|[x0 [E1 Hx]]].
  - revert H. match goal with |- ?m _ = _ -> _ => assert (P : ni m) end; [|apply P].
    niw ltac:(first [apply ni_render_vars; exact Hev|apply ni_log_errors|apply ni_request_status_core]).
  - exfalso. eapply terminal_context_ok; [exact Wc|exact E1].
Qed.

End RenderNI.

(* ------------------------------------------------------------------ every in-scope API operation; histories *)

Section ApiWF.
Variable ev : string -> dict -> evalres.
Hypothesis Hev : eval_no_internal ev.

(* graph and definition constancy for the operations not covered in RetryProofs *)
Lemma api_exec_static : forall op c c' r, (forall reqs, op <> OpRerun reqs) -> api_exec ev op c = (c', r) ->
  c_graph c' = c_graph c /\ c_spec c' = c_spec c.
Proof.
  intros op c c' r Hnr H.
  assert (Gn : preserves Rg (get_next_tasks ev)).
  { unfold get_next_tasks, next_task_for, render_task.
    pw Rg_refl Rg_trans ltac:(first [apply (preserves_modws Rg); intro; reflexivity | apply pg_ensure_ws | apply pg_get_task_context
                                    | apply pg_log_error | apply pg_request_status_core | assumption]). }
  assert (Gr : preserves Rg (render_workflow_output ev)).
  { unfold render_workflow_output, get_workflow_terminal_context.
    assert (Pm : forall l acc, preserves Rg (merge_term_contexts l acc)).
    { induction l as [|[i r0] l IH]; intros; simpl;
        pw Rg_refl Rg_trans ltac:(first [apply pg_get_task_context | apply IH]). }
    pw Rg_refl Rg_trans ltac:(first [apply (preserves_modify Rg); intro; reflexivity | apply pg_ensure_ws | apply pg_get_task_context
                                    | apply Pm | apply pg_render_vars | apply pg_log_errors | apply pg_request_status_core]). }
  assert (K : forall A (m : M A) (k : A -> api_result), preserves Rg m -> preserves Rs m ->
              (a <- m ;; ret (k a)) c = (c', r) -> c_graph c' = c_graph c /\ c_spec c' = c_spec c).
  { intros A m k P1 P2 E. apply bind_inv in E. destruct E as [[c1 [a [E1 E]]]|[x [E1 _]]].
    - inversion E; subst. split; [eapply P1; exact E1|eapply P2; exact E1].
    - split; [eapply P1; exact E1|eapply P2; exact E1]. }
  destruct op; cbn [api_exec] in H.
  - apply (K _ _ (fun _ => RUnit) (pg_ensure_ws ev) (ps_ensure_ws ev) H).
  - refine (K _ _ (fun _ => RUnit) _ (ps_request_workflow_status ev st) H).
    unfold request_workflow_status. apply (preserves_bind _ Rg_trans); [apply pg_ensure_ws|intro; apply pg_request_status_core].
  - apply (K _ _ ROffers Gn (ps_get_next_tasks ev) H).
  - refine (K _ _ (fun _ => RUnit) _ _ H); unfold update_task_state; [apply pg_uts_fuel|apply ps_uts_fuel].
  - apply (K _ _ (fun _ => RUnit) Gr (ps_render_workflow_output ev) H).
  - exfalso; eapply Hnr; reflexivity.
  - change (api_exec ev OpPersist c = (c', r)) in H. rewrite persist_is_serialize in H. cbn [api_exec] in H.
    apply (K _ _ (fun _ => RUnit) (pg_ensure_ws ev) (ps_ensure_ws ev) H).
Qed.

(* operations in scope, and what is asked of them in the state they meet.  For a provider event, beside the call
   being well-formed: the edges of the task to engine commands that keep its route lead to different commands
   (cmd_routes_distinct; decidable).  A command reached by several transitions of one task is a split, and the engine
   opens a route per edge; the clause only excludes a graph that has more edges to the command than the definition
   has transitions naming it, or a task running on a route that already carries its own transition ids -- then the
   same (command, route) key is queued twice and the second call finds nothing staged (TypeError; C15b example). *)
Definition op_in_scope (c : cstate) (op : api_op) : Prop :=
  match op with
  | OpRerun _ => False
  | OpEvent t route evt => provider_event evt = true /\ wellformed_call_b c t route evt = true /\
                           cmd_routes_distinct c t route
  | _ => True
  end.

Theorem api_exec_wf : forall op c c' r, WF c -> static_ok (c_spec c) (c_graph c) -> op_in_scope c op ->
  api_exec ev op c = (c', r) ->
  WF c' /\ static_ok (c_spec c') (c_graph c') /\ (forall x, r = Exc x -> ~ internal_cls x).
Proof.
  intros op c c' r Wc Hso Hop H.
  assert (Hst : static_ok (c_spec c') (c_graph c')).
  { destruct (api_exec_static op c c' r) as [G S]; [intros reqs ->; exact Hop|exact H|]. rewrite G, S; exact Hso. }
  assert (K : forall A (m : M A) (k : A -> api_result),
              (forall c1 a, m c = (c1, a) -> WF c1 /\ (forall x, a = Exc x -> ~ internal_cls x)) ->
              (a <- m ;; ret (k a)) c = (c', r) -> WF c' /\ (forall x, r = Exc x -> ~ internal_cls x)).
  { intros A m k P E. apply bind_inv in E. destruct E as [[c1 [a [E1 E]]]|[x [E1 ->]]].
    - inversion E; subst. split; [apply (P _ _ E1)|discriminate].
    - destruct (P _ _ E1) as [P1 P2]. split; [exact P1|]. intros x0 Hx; inversion Hx; subst. apply P2; reflexivity. }
  pose proof (wf_init _ Wc) as Hi.
  assert (G : WF c' /\ (forall x, r = Exc x -> ~ internal_cls x)); [|destruct G; auto].
  destruct op; cbn [api_exec] in H.
  - refine (K _ _ (fun _ => RUnit) _ H). intros c1 a E. rewrite (ensure_ws_inited ev c Hi) in E. inversion E; subst.
    split; [exact Wc|discriminate].
  - refine (K _ _ (fun _ => RUnit) _ H). intros c1 a E.
    split; [eapply WF_Rw; [eapply request_workflow_status_Rw; [exact Hi|exact E]|exact Wc]|].
    intros x ->. eapply ni_request_workflow_status; [exact Hev|exact E].
  - refine (K _ _ ROffers _ H). intros c1 a E.
    split; [eapply WF_Rw; [eapply get_next_tasks_Rw; [exact Hi|exact E]|exact Wc]|].
    intros x ->. eapply ni_get_next_tasks; [exact Hev|exact E].
  - destruct Hop as [Hp [Hw Hd]]. refine (K _ _ (fun _ => RUnit) _ H). intros c1 a E.
    eapply update_task_state_wf; [exact Hev|exact Wc|exact Hso|exact Hp|exact Hw|exact Hd|exact E].
  - refine (K _ _ (fun _ => RUnit) _ H). intros c1 a E.
    split; [eapply WF_Rw; [eapply render_workflow_output_Rw; [exact Hi|exact E]|exact Wc]|].
    intros x ->. eapply render_workflow_output_ni; [exact Hev|exact Wc|exact E].
  - destruct Hop.
  - refine (K _ _ (fun _ => RUnit) _ H). intros c1 a E. rewrite (persist_identity ev c Hi) in E. inversion E; subst.
    split; [exact Wc|discriminate].
Qed.

Fixpoint hist_in_scope (ops : list api_op) (c : cstate) : Prop :=
  match ops with
  | [] => True
  | op :: ops' => op_in_scope c op /\ hist_in_scope ops' (fst (api_exec ev op c))
  end.

Fixpoint no_internal_run (ops : list api_op) (c : cstate) : Prop :=
  match ops with
  | [] => True
  | op :: ops' => (forall x, snd (api_exec ev op c) = Exc x -> ~ internal_cls x) /\ no_internal_run ops' (fst (api_exec ev op c))
  end.

Theorem run_ops_no_internal : forall ops c, WF c -> static_ok (c_spec c) (c_graph c) -> hist_in_scope ops c ->
  no_internal_run ops c /\ WF (run_ops ev ops c) /\ static_ok (c_spec (run_ops ev ops c)) (c_graph (run_ops ev ops c)).
Proof.
  induction ops as [|op ops IH]; intros c Wc Hso Hh; simpl; [auto|].
  destruct Hh as [Hop Hh]. destruct (api_exec ev op c) as [c' r] eqn:E. simpl in *.
  destruct (api_exec_wf _ _ _ _ Wc Hso Hop E) as [W' [S' N']].
  destruct (IH c' W' S' Hh) as [A [B C]]. unfold run_ops in *. simpl. rewrite ?E. simpl. auto.
Qed.

(* the state a fresh conductor is in after its lazy initialisation is well-formed *)
Theorem fresh_wf : forall c c1 r, c_init c = false -> c_ws c = empty_ws -> ensure_ws ev c = (c1, r) -> WF c1.
Proof.
  intros c c1 r Hi Hw H. unfold ensure_ws in H.
  rewrite (bind_step _ _ _ _ _ _ _ (eq_refl : get c = (c, Val c))) in H. rewrite Hi in H.
  unfold bind at 1 in H. unfold modify at 1 in H. cbv beta iota in H. cbv zeta in H.
  set (ci := set_init c true) in *.
  assert (Wi : WF ci).
  { constructor; unfold ci; simpl; rewrite ?Hw; simpl; [reflexivity|intros k i Hk; discriminate|intros s []|intros r0 []]. }
  assert (QuietA : forall A cx cy (m : M A) rr, preserves Rw m -> WF cx -> m cx = (cy, rr) -> WF cy).
  { intros A cx cy m rr P W E. eapply WF_Rw; [eapply P; exact E|exact W]. }
  apply bind_inv in H. destruct H as [[c2 [ri [E2 H]]]|[x [E2 ->]]]; [|eapply QuietA; [apply pw_render_input|exact Wi|exact E2]].
  pose proof (QuietA _ _ _ _ _ (pw_render_input ev _ _ _ _) Wi E2) as W2. destruct ri as [rin ierrs].
  apply bind_inv in H. destruct H as [[c3 [rv [E3 H]]]|[x [E3 ->]]]; [|eapply QuietA; [apply pw_render_vars|exact W2|exact E3]].
  pose proof (QuietA _ _ _ _ _ (pw_render_vars ev _ _ _ _) W2 E3) as W3. destruct rv as [rvars verrs].
  apply bind_inv in H. destruct H as [[c4 [u4 [E4 H]]]|[x [E4 ->]]].
  2: { destruct (app ierrs verrs); [inversion E4|]. eapply QuietA; [|exact W3|exact E4].
       apply (preserves_bind _ Rw_trans); [apply pw_log_errors|intro; apply pw_request_status_core]. }
  assert (W4 : WF c4).
  { destruct (app ierrs verrs); [inversion E4; subst; exact W3|]. eapply QuietA; [|exact W3|exact E4].
    apply (preserves_bind _ Rw_trans); [apply pw_log_errors|intro; apply pw_request_status_core]. }
  rewrite (bind_step _ _ _ _ _ _ _ (eq_refl : getws c4 = (c4, Val (c_ws c4)))) in H.
  destruct (status_in (wstatus (c_ws c4)) ABENDED_STATUSES); [inversion H; subst; exact W4|].
  unfold bind at 1 in H. unfold modws at 1 in H. cbv beta iota in H.
  match type of H with forM_ _ _ ?cz = _ => set (c5 := cz) in * end.
  assert (W5 : WF c5 /\ 0 < length (routes (c_ws c5)) /\ 0 < length (contexts (c_ws c5))).
  { split; [|unfold c5; simpl; rewrite !app_length; simpl; lia].
    apply WF_grow_lengths; simpl; auto; rewrite app_length; lia. }
  revert H. generalize (g_roots (c_graph c)). intro roots. revert W5. generalize c5. clear.
  induction roots as [|t roots IH]; intros cx [Wx [Hr Hc]] H; [inversion H; subst; exact Wx|].
  simpl in H. unfold bind at 1 in H. unfold modws at 1 in H. cbv beta iota in H. eapply IH; [|exact H].
  split; [|simpl; split; assumption].
  apply WF_staged; [exact Wx|]. intros s Hs. apply in_app_or in Hs. destruct Hs as [Hs|[<-|[]]]; [apply (wf_stg _ Wx); exact Hs|].
  simpl. split; [exact Hr|]. split; [left; reflexivity|]. intros i [<-|[]]; exact Hc.
Qed.

End ApiWF.

(* ------------------------------------------------------------------ decidable forms *)

Definition cmd_startable_b (n : string) : bool :=
  match engine_event n with
  | Some (EvEngine name st) =>
      match task_process_event empty_ws (fresh_rec n 0) (EvEngine name st) with Val (Some _) => true | _ => false end
  | _ => false
  end.

Definition static_ok_b (sp : wf_spec) (g : graph) : bool :=
  forallb (fun n => match spec_get_task sp (n_id n) with Some _ => true | None => false end) (g_nodes g) &&
  forallb (fun e => match spec_get_task sp (e_src e) with Some ts => Nat.ltb (e_ref e) (length (ts_next ts)) | None => true end
                    && (negb (is_engine_command (e_dst e)) || cmd_startable_b (e_dst e)))
          (g_edges g) &&
  inert_b g.

Lemma static_ok_b_sound : forall sp g, static_ok_b sp g = true -> static_ok sp g.
Proof.
  intros sp g H. unfold static_ok_b in H. apply andb_prop in H; destruct H as [H Hinert].
  apply andb_prop in H; destruct H as [Hn He]. rewrite forallb_forall in Hn, He. constructor.
  - intros t Ht. unfold g_has_task, g_get_node in Ht. destruct (find (fun n => String.eqb (n_id n) t) (g_nodes g)) as [n|] eqn:E; [|discriminate].
    apply find_some in E. destruct E as [E1 E2]. apply String.eqb_eq in E2. subst t. specialize (Hn _ E1).
    destruct (spec_get_task sp (n_id n)); [discriminate|discriminate Hn].
  - intros e ts Hin Hts. specialize (He _ Hin). apply andb_prop in He; destruct He as [He _].
    rewrite Hts in He. apply Nat.ltb_lt; exact He.
  - apply inert_b_sound; exact Hinert.
  - intros e Hin Hc. specialize (He _ Hin). apply andb_prop in He; destruct He as [_ He].
    rewrite Hc in He. cbn [negb orb] in He. unfold cmd_startable_b in He. unfold cmd_startable.
    destruct (engine_event (e_dst e)) as [[| | |name st]|]; try discriminate.
    destruct (task_process_event empty_ws (fresh_rec (e_dst e) 0) (EvEngine name st)) as [[s|]|] eqn:Et; try discriminate.
    exists name, st, s. split; [reflexivity|exact Et].
Qed.

Fixpoint str_nodup_b (l : list string) : bool :=
  match l with [] => true | x :: l' => negb (string_in x l') && str_nodup_b l' end.
Lemma str_nodup_b_sound : forall l, str_nodup_b l = true -> NoDup l.
Proof.
  induction l as [|x l IH]; simpl; intro H; [constructor|]. apply andb_prop in H; destruct H as [H1 H2].
  constructor; [|apply IH; exact H2]. intro Hin. apply negb_true_iff in H1.
  assert (T : string_in x l = true); [|congruence].
  unfold string_in. apply existsb_exists. exists x. split; [exact Hin|apply String.eqb_refl].
Qed.
Definition cmd_routes_distinct_b (c : cstate) (t : string) (route : nat) : bool :=
  str_nodup_b (map e_dst (cmd_edges_on_route c t route)).
Lemma cmd_routes_distinct_b_sound : forall c t route, cmd_routes_distinct_b c t route = true -> cmd_routes_distinct c t route.
Proof. intros c t route H. apply str_nodup_b_sound; exact H. Qed.

Definition wf_ctx_ok_b (w : wstate) (l : list nat) : bool :=
  nat_in 0 l && forallb (fun i => Nat.ltb i (length (contexts w))) l.

Definition WF_b (c : cstate) : bool :=
  let w := c_ws c in
  c_init c &&
  forallb (fun '(k, i) => Nat.ltb i (length (sequence w)) && Nat.ltb (snd k) (length (routes w))) (tasks w) &&
  forallb (fun s => Nat.ltb (s_route s) (length (routes w)) && wf_ctx_ok_b w (s_in s)) (staged w) &&
  forallb (fun r => wf_ctx_ok_b w (r_in r)
                    && (negb (status_eqb (rstatus r) S_RETRYING) || match r_retry r with Some _ => true | None => false end))
          (sequence w).

Lemma nat_in_In : forall n l, nat_in n l = true -> In n l.
Proof.
  intros n l; induction l as [|m l IH]; simpl; [discriminate|]. intro H. apply orb_prop in H.
  destruct H as [H|H]; [left; symmetry; apply Nat.eqb_eq; exact H|right; apply IH; exact H].
Qed.

Lemma ctx_ok_b_sound : forall w l, wf_ctx_ok_b w l = true -> ctx_ok w l.
Proof.
  intros w l H. unfold wf_ctx_ok_b in H. apply andb_prop in H; destruct H as [H1 H2]. split; [apply nat_in_In; exact H1|].
  rewrite forallb_forall in H2. intros i Hi. apply Nat.ltb_lt. apply H2; exact Hi.
Qed.

Lemma aget_tkey_In : forall k (d : list (tkey * nat)) i, aget tkey_eqb k d = Some i -> In (k, i) d.
Proof.
  intros k d; induction d as [|[k' v'] d IH]; simpl; intros i H; [discriminate|].
  destruct (tkey_eqb k k') eqn:E; [apply tkey_eqb_eq in E; subst; inversion H; left; reflexivity|right; apply IH; exact H].
Qed.

Lemma WF_b_sound : forall c, WF_b c = true -> WF c.
Proof.
  intros c H. unfold WF_b in H. cbv zeta in H.
  apply andb_prop in H; destruct H as [H Hr]. apply andb_prop in H; destruct H as [H Hs]. apply andb_prop in H; destruct H as [Hi Hp].
  rewrite forallb_forall in Hp, Hs, Hr. constructor.
  - exact Hi.
  - intros k i Hk. apply aget_tkey_In in Hk. specialize (Hp _ Hk). cbv beta iota in Hp.
    apply andb_prop in Hp; destruct Hp as [A B]. split; apply Nat.ltb_lt; assumption.
  - intros s Hin. specialize (Hs _ Hin). apply andb_prop in Hs; destruct Hs as [A B].
    split; [apply Nat.ltb_lt; exact A|apply ctx_ok_b_sound; exact B].
  - intros r Hin. specialize (Hr _ Hin). apply andb_prop in Hr; destruct Hr as [A B].
    split; [apply ctx_ok_b_sound; exact A|]. intros Hst. rewrite Hst in B. cbn [status_eqb negb orb] in B.
    destruct (r_retry r); [discriminate|discriminate B].
Qed.

Definition op_in_scope_b (c : cstate) (op : api_op) : bool :=
  match op with
  | OpRerun _ => false
  | OpEvent t route evt => provider_event evt && wellformed_call_b c t route evt && cmd_routes_distinct_b c t route
  | _ => true
  end.

Section HistB.
Variable ev : string -> dict -> evalres.
Fixpoint hist_in_scope_b (ops : list api_op) (c : cstate) : bool :=
  match ops with
  | [] => true
  | op :: ops' => op_in_scope_b c op && hist_in_scope_b ops' (fst (api_exec ev op c))
  end.
Lemma hist_in_scope_b_sound : forall ops c, hist_in_scope_b ops c = true -> hist_in_scope ev ops c.
Proof.
  induction ops as [|op ops IH]; intros c H; simpl in *; [exact I|].
  apply andb_prop in H; destruct H as [H1 H2]. split; [|apply IH; exact H2].
  destruct op; simpl in *; try exact I; try discriminate. apply andb_prop in H1; destruct H1 as [H1 Hd].
  apply andb_prop in H1; destruct H1 as [Hp Hw]. split; [exact Hp|]. split; [exact Hw|apply cmd_routes_distinct_b_sound; exact Hd].
Qed.
End HistB.

(* a crude sufficient condition for the evaluator hypothesis: no internal class among its errors, and
   every answer is a string or a container (so that no key position yields a non-string scalar) *)
Lemma eval_no_internal_of : forall ev,
  (forall s ctx e, ev s ctx = EvErr e -> ~ internal_cls e) ->
  (forall s ctx v, ev s ctx = EvOk v -> match v with JStr _ | JList _ | JDict _ => True | _ => False end) ->
  eval_no_internal ev.
Proof.
  intros ev He Hv. unfold eval_no_internal.
  assert (Hl : forall s ctx, ni (lift_eval (ev s ctx))).
  { intros s ctx c c' e H. destruct (ev s ctx) as [v|x] eqn:E; inversion H; subst. eapply He; exact E. }
  intro stmt; induction stmt as [| | | |s|l IH|kv IH] using json_ind'; intro ctx; try (simpl; apply ni_ret).
  - simpl; apply Hl.
  - simpl. apply ni_bind; [|intro; apply ni_ret].
    induction IH as [|x l Hx Hl' IHl]; [apply ni_ret|].
    apply ni_bind; [apply Hx|intro y]. apply ni_bind; [exact IHl|intro; apply ni_ret].
  - simpl. apply ni_bind; [|intro; apply ni_ret].
    generalize (@nil (string * json)) as acc.
    induction IH as [|[k v] kv' Hx Hl' IHl]; intro acc; [apply ni_ret|].
    destruct (ev k ctx) as [k'|x] eqn:Ek.
    2: { intros c c' e H. cbv [bind lift_eval raise] in H. inversion H; subst. eapply He; exact Ek. }
    specialize (Hv _ _ _ Ek).
    assert (Br : forall A (a : json) (f : json -> M A), ni (f a) -> ni (bind (lift_eval (EvOk a)) f))
      by (intros A a f Hf c c' e H; exact (Hf c c' e H)).
    assert (Rr : forall A B e0 (f : A -> M B), ~ internal_cls e0 -> ni (bind (@raise A e0) f))
      by (intros A B e0 f Hn c c' e H; cbv [bind raise] in H; inversion H; subst; exact Hn).
    apply Br. destruct k'; try contradiction.
    + apply ni_bind; [apply ni_ret|intro]. apply ni_bind; [apply Hx|intro v']. apply IHl.
    + apply Rr; not_internal.
    + apply Rr; not_internal.
Qed.
