(* OffersProofs.v -- what get_next_tasks may offer: only ready, not-completed staged entries (C01);
   with-items actions within the concurrency window, unset items only, in index order (C12); a
   re-offered retry carries the configured retry delay (C13). *)
From Coq Require Import String List Bool ZArith Arith Lia.
From Orq Require Import GenStatuses GenEvents GenTables GenSpecMeta Base State Machines Codec Conductor Decode Api.
From Orq Require Import F_tables Hoare ValuePost C04Proofs.
Import ListNotations.
Open Scope monad_scope.

Section WithEval.
Variable ev : string -> dict -> evalres.

(* ---------------------------------------------------------------- C01: offers come from staging *)

Definition offer_of (s : stg) (r : option offer) : Prop :=
  forall o, r = Some o -> o_id o = s_id s /\ o_route o = s_route s.

Lemma next_task_for_id : forall s, vpost (offer_of s) (next_task_for ev s).
Proof.
  intro s. unfold next_task_for.
  vw ltac:(intros o H;
           repeat match goal with H : context [match ?x with _ => _ end] |- _ => destruct x end;
           first [discriminate | inversion H; subst; simpl; auto]).
Qed.

Definition offers_from (todo : list stg) (l : list offer) : Prop :=
  forall o, In o l -> exists s, In s todo /\ o_id o = s_id s /\ o_route o = s_route s.

Lemma Forall2_offers : forall todo (rs : list (option offer * bool)),
  Forall2 (fun s (r : option offer * bool) => offer_of s (fst r)) todo rs ->
  offers_from todo (flat_map (fun '(o, _) => match o with Some x => [x] | None => [] end) rs).
Proof.
  intros todo rs H; induction H as [|s [o b] todo rs Hs Hr IH]; intros x Hx; simpl in Hx; [contradiction|].
  apply in_app_or in Hx; destruct Hx as [Hx|Hx].
  - destruct o as [o|]; simpl in Hx; [|contradiction]. destruct Hx as [Hx|[]]; subst.
    exists s; split; [left; reflexivity|]. apply (Hs x); reflexivity.
  - destruct (IH x Hx) as [s' [Hin Hs']]. exists s'; split; [right; exact Hin|exact Hs'].
Qed.

Theorem offers_are_staged : forall c c' l, c_init c = true -> get_next_tasks ev c = (c', Val l) ->
  forall o, In o l -> exists s, In s (staged (c_ws c)) /\ s_ready s = true /\ s_completed s = false /\
                                o_id o = s_id s /\ o_route o = s_route s.
Proof.
  intros c c' l Hi H o Ho.
  unfold get_next_tasks, bind in H. rewrite (ensure_ws_inited ev c Hi) in H.
  unfold getws in H. cbv beta iota in H.
  set (w := c_ws c) in *.
  set (staged_tasks := staged_filtered w) in *.
  set (remediation := if status_eqb (wstatus w) S_FAILED then filter s_run_on_fail staged_tasks else []) in *.
  destruct (negb (status_in (wstatus w) RUNNING_STATUSES) && match remediation with [] => true | _ => false end).
  { inversion H; subst; contradiction. }
  set (todo := match remediation with [] => staged_tasks | _ => remediation end) in *.
  (* every element of todo is a ready, not-completed staged entry *)
  assert (Htodo : forall s, In s todo -> In s (staged w) /\ s_ready s = true /\ s_completed s = false).
  { intros s Hs. assert (Hsf : In s staged_tasks).
    { unfold todo in Hs. destruct remediation as [|r rem] eqn:Er; [exact Hs|].
      unfold remediation in Er. destruct (status_eqb (wstatus w) S_FAILED); [|discriminate].
      rewrite <- Er in Hs. apply filter_In in Hs; tauto. }
    unfold staged_tasks, staged_filtered in Hsf. apply filter_In in Hsf. destruct Hsf as [Hin Hb].
    apply andb_prop in Hb; destruct Hb as [Hr Hc]. apply negb_true_iff in Hc. tauto. }
  match type of H with
  | (match ?m c with _ => _ end) = _ => destruct (m c) as [c1 [rs|e]] eqn:Em
  end; [|inversion H].
  assert (Hrs : Forall2 (fun s (r : option offer * bool) => offer_of s (fst r)) todo rs).
  { eapply (vpost_mapM _ _ (fun s (r : option offer * bool) => offer_of s (fst r))); [|exact Em].
    intro s. apply vpost_try_catch.
    - apply (vpost_bind_strong _ _ (offer_of s)); [apply next_task_for_id|intros r Hr].
      apply vpost_ret; exact Hr.
    - intro e. apply vpost_bind; intro. apply vpost_ret. intros o' Ho'; discriminate. }
  destruct (existsb snd rs).
  - (* a rendering error: nothing is returned *)
    unfold bind in H. destruct (request_status_core S_FAILED c1) as [c2 [u|e]]; inversion H; subst; contradiction.
  - inversion H; subst. apply In_sort_by in Ho.
    destruct (Forall2_offers _ _ Hrs o Ho) as [s [Hin [Hid Hrt]]].
    destruct (Htodo s Hin) as [H1 [H2 H3]]. exists s; tauto.
Qed.

(* ---------------------------------------------------------------- C12: the concurrency window *)

Lemma firstn_length_le : forall A n (l : list A), length (firstn n l) <= n.
Proof. intros; rewrite firstn_length; lia. Qed.

(* with a concurrency k (<= 0 counts as 1): offered + already active <= k, whenever anything is offered *)
Theorem window_respected : forall A conc (items : list (A * status)) acts conc',
  choose_items conc items = Val (acts, conc') -> py_is_int conc = true -> acts <> [] ->
  (Z.of_nat (length acts) + Z.of_nat (items_nactive items) <= effective_concurrency conc)%Z.
Proof.
  intros A conc items acts conc' H Hint Hne. unfold choose_items in H.
  destruct conc; simpl in Hint; try discriminate; inversion H; subst; clear H.
  - destruct (Z.ltb 0 (effective_concurrency (JBool b) - Z.of_nat (items_nactive items))) eqn:E; [|congruence].
    apply Z.ltb_lt in E. rewrite map_length.
    pose proof (firstn_length_le _ (Z.to_nat (effective_concurrency (JBool b) - Z.of_nat (items_nactive items)))
                                 (items_notrun items)). lia.
  - destruct (Z.ltb 0 (effective_concurrency (JInt z) - Z.of_nat (items_nactive items))) eqn:E; [|congruence].
    apply Z.ltb_lt in E. rewrite map_length.
    pose proof (firstn_length_le _ (Z.to_nat (effective_concurrency (JInt z) - Z.of_nat (items_nactive items)))
                                 (items_notrun items)). lia.
Qed.

(* what is offered is a prefix (in item order) of the items that have not run: never an item that is
   active or finished, never out of order, never twice in one offer *)
Theorem offered_items_are_first_unset : forall A conc (items : list (A * status)) acts conc',
  choose_items conc items = Val (acts, conc') ->
  exists n, acts = map fst (firstn n (items_notrun items)).
Proof.
  intros A conc items acts conc' H. unfold choose_items in H.
  destruct conc; inversion H; subst; clear H.
  - exists (length (items_notrun items)). rewrite firstn_all; reflexivity.
  - destruct (Z.ltb 0 _); [eexists; reflexivity|exists 0; reflexivity].
  - destruct (Z.ltb 0 _); [eexists; reflexivity|exists 0; reflexivity].
Qed.

Lemma items_notrun_unset : forall A (items : list (A * status)) a st,
  In (a, st) (items_notrun items) -> st = S_UNSET /\ In (a, st) items.
Proof.
  intros A items a st H. unfold items_notrun in H. apply filter_In in H. destruct H as [Hin Hb].
  apply status_eqb_eq in Hb. tauto.
Qed.

(* without a concurrency value every unset item is offered *)
Theorem no_concurrency_offers_all_unset : forall A (items : list (A * status)) acts conc',
  choose_items JNull items = Val (acts, conc') -> acts = map fst (items_notrun items).
Proof. intros A items acts conc' H; inversion H; reflexivity. Qed.

(* a full window offers nothing *)
Theorem full_window_offers_nothing : forall A conc (items : list (A * status)) acts conc',
  choose_items conc items = Val (acts, conc') -> py_is_int conc = true ->
  (effective_concurrency conc <= Z.of_nat (items_nactive items))%Z -> acts = [].
Proof.
  intros A conc items acts conc' H Hint Hfull. unfold choose_items in H.
  destruct conc; simpl in Hint; try discriminate; inversion H; subst; clear H.
  - destruct (Z.ltb 0 _) eqn:E; [apply Z.ltb_lt in E; lia|reflexivity].
  - destruct (Z.ltb 0 _) eqn:E; [apply Z.ltb_lt in E; lia|reflexivity].
Qed.

(* ---------------------------------------------------------------- C13: the retry delay *)

Definition retry_delay_of (s : stg) (r : option offer) : Prop :=
  forall o rr, r = Some o -> s_retry s = Some rr ->
    o_delay o = Some (match rr_delay rr with Some d => if truthy d then d else JInt 0 | None => JInt 0 end).

Lemma next_task_for_retry_delay : forall s, vpost (retry_delay_of s) (next_task_for ev s).
Proof.
  intro s. unfold next_task_for.
  vw ltac:(intros o rr H Hr; try rewrite Hr in H;
           repeat match goal with H : context [match ?x with _ => _ end] |- _ => destruct x end;
           first [discriminate | inversion H; subst; simpl; try rewrite Hr; try reflexivity; congruence]).
Qed.

End WithEval.
