(* C01, second sentence, the staging half: what one followed transition does to the staged list, exactly. *)
From Coq Require Import String List Bool ZArith Arith Lia.
From Orq Require Import GenStatuses GenEvents GenTables Base State Machines Conductor Api.
From Orq Require Import F_tables Hoare ValuePost StatusReach C04Proofs C05Proofs InertProofs RetryProofs FrozenProofs NoInternalProofs RerunProofs.
Import ListNotations.
Open Scope string_scope.
Open Scope monad_scope.

(* the key of a staged entry *)
Definition skey (s : stg) : string * nat := (s_id s, s_route s).

Lemma keys_staged_update : forall f n r l, (forall s, s_id (f s) = s_id s /\ s_route (f s) = s_route s) ->
  map skey (staged_update f n r l) = map skey l.
Proof.
  intros f n r l Hf; induction l as [|s l IH]; simpl; [reflexivity|].
  destruct (stg_matches n r s); simpl; [|rewrite IH; reflexivity].
  unfold skey at 1. destruct (Hf s) as [-> ->]. reflexivity.
Qed.
Lemma find_existsb : forall A (P : A -> bool) l, existsb P l = match find P l with Some _ => true | None => false end.
Proof. intros A P l; induction l as [|a l IH]; simpl; [reflexivity|]. destruct (P a); [reflexivity|exact IH]. Qed.

Section WithEval.
Variable ev : string -> dict -> evalres.

(* ONE followed transition and the staged list.  Either nothing is staged (the condition is false or failed to
   evaluate, or the publish failed), or the target is staged under the route nr that evaluate_route answers -- the
   task's own route, or the route just opened -- and then the list of staged KEYS is the old one, with (target, nr)
   appended at the end if and only if no entry with that key was staged before (otherwise the existing entry is
   updated in place: one staged entry, whatever the number of satisfied transitions that reached it) *)
Theorem pt_staging_keys : forall t route idx ts ctx e c c' v,
  process_transition ev t route idx ts ctx e c = (c', Val v) ->
  (staged (c_ws c') = staged (c_ws c) /\ v = (None, None)) \/
  exists nr,
    (nr = route \/ nr = length (routes (c_ws c))) /\
    map skey (staged (c_ws c')) =
      (if existsb (stg_matches (e_dst e) nr) (staged (c_ws c)) then map skey (staged (c_ws c))
       else app (map skey (staged (c_ws c))) [(e_dst e, nr)]) /\
    get_staged_task (c_ws c') (e_dst e) nr <> None /\
    (is_engine_command (e_dst e) = true -> v = (Some (e_dst e, nr), None)) /\
    (is_engine_command (e_dst e) = false -> fst v = None).
Proof.
  intros t route idx ts ctx e c c' v H. unfold process_transition in H.
  apply bind_val_inv' in H. destruct H as [c1 [ok [E1 H]]].
  assert (K1 : staged (c_ws c1) = staged (c_ws c) /\ routes (c_ws c1) = routes (c_ws c)).
  { match type of E1 with ?m _ = _ =>
      assert (P1 : preserves NoInternalProofs.Rw m) by (pw NoInternalProofs.Rw_refl NoInternalProofs.Rw_trans ltac:(first [apply pw_upd_next|apply pw_log_error|apply pw_request_status_core]));
      assert (P2 : preserves NoInternalProofs.Rst m) by (pw NoInternalProofs.Rst_refl NoInternalProofs.Rst_trans ltac:(first [apply pst_upd_rec|apply pst_log_error|apply pst_request_status_core])) end.
    destruct (P1 _ _ _ E1) as [_ [_ [_ [O _]]]]. destruct (P2 _ _ _ E1) as [S _]. split; assumption. }
  destruct K1 as [S1 O1].
  destruct ok as [[|]|]; [|inversion H; subst; left; split; [exact S1|reflexivity]|inversion H; subst; left; split; [exact S1|reflexivity]].
  apply bind_val_inv' in H. destruct H as [c2 [[new_ctx errors] [E2 H]]].
  destruct (pst_finalize_context ev _ _ _ _ _ _ E2) as [S2 _].
  destruct (pw_finalize_context ev _ _ _ _ _ _ E2) as [_ [_ [_ [O2 _]]]].
  destruct errors as [|x xs].
  2: { apply bind_val_inv' in H. destruct H as [c3 [u3 [E3 H]]]. apply bind_val_inv' in H. destruct H as [c4 [u4 [E4 H]]].
       inversion H; subst c' v. left. split; [|reflexivity].
       destruct (pst_log_errors _ _ _ _ _ _ _ E3) as [S3 _]. destruct (pst_request_status_core _ _ _ _ E4) as [S4 _]. congruence. }
  apply bind_val_inv' in H. destruct H as [cx [r [Eg H]]]. apply get_rec_inv in Eg. destruct Eg as [-> _].
  apply bind_val_inv' in H. destruct H as [cx [w [Ew H]]]. inversion Ew; subst cx w; clear Ew.
  apply bind_val_inv' in H. destruct H as [c3 [out [E3 H]]].
  assert (K3 : staged (c_ws c3) = staged (c_ws c2) /\ routes (c_ws c3) = routes (c_ws c2)).
  { destruct new_ctx as [|kv nc]; [inversion E3; subst; split; reflexivity|].
    unfold bind, modws, upd_rec, ret in E3. inversion E3; subst c3. cbn [c_ws set_ws]. rewrite staged_update_rec, routes_update_rec. split; reflexivity. }
  destruct K3 as [S3 O3].
  apply bind_val_inv' in H. destruct H as [c4 [nr [E4 H]]].
  assert (K4 : staged (c_ws c4) = staged (c_ws c3) /\ (nr = route \/ nr = length (routes (c_ws c3)))).
  { unfold evaluate_route in E4. apply bind_val_inv' in E4. destruct E4 as [c0 [cst [E0 E4]]]. inversion E0; subst c0 cst; clear E0.
    destruct (negb _ || _); [inversion E4; subst; split; [reflexivity|left; reflexivity]|].
    destruct (nth_error (routes (c_ws c3)) route) as [old|]; [|inversion E4].
    destruct (existsb _ old); [inversion E4; subst; split; [reflexivity|left; reflexivity]|].
    unfold bind, modws, ret in E4. inversion E4; subst. split; [reflexivity|right; reflexivity]. }
  destruct K4 as [S4 Hnr].
  assert (Sall : staged (c_ws c4) = staged (c_ws c)) by congruence.
  apply bind_val_inv' in H. destruct H as [cx [w [Ew H]]]. inversion Ew; subst cx w; clear Ew.
  apply bind_val_inv' in H. destruct H as [c5 [u5 [E5 H]]].
  apply bind_val_inv' in H. destruct H as [cx [cst [Ec H]]]. inversion Ec; subst cx cst; clear Ec. cbv zeta in H.
  apply bind_val_inv' in H. destruct H as [c6 [u6 [E6 H]]].
  unfold modws in E6. inversion E6; subst c6. clear E6.
  match type of H with _ ?cz = _ => set (c6 := cz) in * end.
  assert (Hfin : c' = c6 /\ (is_engine_command (e_dst e) = true -> v = (Some (e_dst e, nr), None)) /\
                 (is_engine_command (e_dst e) = false -> fst v = None)).
  { destruct (is_engine_command (e_dst e)); [inversion H; subst; split; [reflexivity|split; [reflexivity|discriminate]]|].
    match type of H with (if ?b then _ else _) _ = _ => destruct b end; inversion H; subst;
      (split; [reflexivity|split; [discriminate|reflexivity]]). }
  destruct Hfin as [-> [Hv1 Hv2]]. clear H.
  right. exists nr. split; [rewrite O3, O2, O1 in Hnr; exact Hnr|].
  assert (K5 : map skey (staged (c_ws c5)) =
               (if existsb (stg_matches (e_dst e) nr) (staged (c_ws c)) then map skey (staged (c_ws c))
                else app (map skey (staged (c_ws c))) [(e_dst e, nr)]) /\ get_staged_task (c_ws c5) (e_dst e) nr <> None).
  { rewrite find_existsb. unfold get_staged_task in E5. rewrite Sall in E5.
    destruct (find (stg_matches (e_dst e) nr) (staged (c_ws c))) as [s0|] eqn:Ef.
    - destruct (nat_remove_first 0 out) as [out'|]; [|inversion E5]. unfold modws in E5. inversion E5; subst c5. cbn [c_ws set_ws staged ws_set_staged].
      rewrite Sall. split; [apply keys_staged_update; intro; split; reflexivity|].
      unfold get_staged_task. cbn [staged ws_set_staged]. apply find_staged_update_present; [intro; split; reflexivity|rewrite Ef; discriminate].
    - unfold modws in E5. inversion E5; subst c5. unfold ws_add_staged. cbn [c_ws set_ws staged ws_set_staged]. rewrite Sall, map_app.
      split; [reflexivity|]. unfold get_staged_task. cbn [staged ws_set_staged]. apply find_app_new.
      unfold stg_matches, mk_staged; simpl. rewrite String.eqb_refl, Nat.eqb_refl; reflexivity. }
  destruct K5 as [K5 P5]. unfold c6. cbn [c_ws set_ws staged ws_set_staged].
  split; [rewrite keys_staged_update by (intro; split; reflexivity); exact K5|].
  split; [unfold get_staged_task; cbn [staged ws_set_staged]; apply find_staged_update_present; [intro; split; reflexivity|exact P5]|].
  split; [exact Hv1|exact Hv2].
Qed.

(* ------------------------------------------------------------------ records are created by add_task_state only *)

(* the number of records and the pointer map are kept *)
Definition Rlt (c c' : cstate) : Prop :=
  length (sequence (c_ws c')) = length (sequence (c_ws c)) /\ tasks (c_ws c') = tasks (c_ws c).
Lemma Rlt_refl : forall c, Rlt c c.
Proof. intro; split; reflexivity. Qed.
Lemma Rlt_trans : forall a b c, Rlt a b -> Rlt b c -> Rlt a c.
Proof. intros a b c [A1 A2] [B1 B2]; split; congruence. Qed.
Lemma length_update_rec : forall w i f, length (sequence (ws_update_rec w i f)) = length (sequence w).
Proof. intros; unfold ws_update_rec. destruct (nth_error (sequence w) i); [cbn [sequence ws_set_sequence]; apply length_set_nth|reflexivity]. Qed.
Lemma Rlt_update : forall c i f, Rlt c (set_ws c (ws_update_rec (c_ws c) i f)).
Proof. intros; split; cbn [c_ws set_ws]; [apply length_update_rec|apply tasks_update_rec]. Qed.
Lemma Rlt_remove : forall c t r, Rlt c (set_ws c (ws_remove_staged_task (c_ws c) t r)).
Proof. intros; split; cbn [c_ws set_ws]; [rewrite seq_remove_staged; reflexivity|apply tasks_remove_staged]. Qed.

Ltac lleaf :=
  first
    [ apply (preserves_modws Rlt); intro; first [apply Rlt_update|apply Rlt_remove|split; reflexivity]
    | apply (preserves_modify Rlt); intro; cbv zeta;
      try match goal with |- context [if ?b then _ else _] => destruct b end; split; reflexivity
    | assumption
    | match goal with IH : forall _ _ _, preserves _ _ |- _ => apply IH end
    | match goal with IH : forall _ _ _ _, preserves _ _ |- _ => apply IH end ].
Ltac lwalk := pw Rlt_refl Rlt_trans lleaf.

Lemma pl_wf_workflow_event : forall st, preserves Rlt (wf_workflow_event_M st).
Proof.
  intros st c c' r H. unfold wf_workflow_event_M in H.
  destruct (wf_process_workflow_event (c_graph c) (c_ws c) st) as [[new unr]|e]; inversion H; subst; split; reflexivity.
Qed.
Lemma pl_wf_task_event : forall t route st, preserves Rlt (wf_task_event_M t route st).
Proof.
  intros t route st c c' r H. unfold wf_task_event_M in H.
  destruct (wf_process_task_event (c_graph c) (c_ws c) t route st) as [[new unr]|e]; inversion H; subst; split; reflexivity.
Qed.
Lemma pl_log_error : forall e t r tr, preserves Rlt (log_error e t r tr).
Proof. intros; unfold log_error, log_entry_error; lwalk. Qed.
Lemma pl_log_errors : forall es t r tr, preserves Rlt (log_errors es t r tr).
Proof. intros; unfold log_errors. apply (preserves_forM _ Rlt_refl Rlt_trans); intro; apply pl_log_error. Qed.
Lemma pl_log_unreachable : forall l, preserves Rlt (log_unreachable l).
Proof. intros; unfold log_unreachable. apply (preserves_forM _ Rlt_refl Rlt_trans); intro; apply pl_log_error. Qed.
Lemma pl_request_status_core : forall st, preserves Rlt (request_status_core st).
Proof.
  intros; unfold request_status_core, set_rec_status.
  pw Rlt_refl Rlt_trans ltac:(first [apply pl_wf_workflow_event|apply pl_log_unreachable|lleaf]).
Qed.
Lemma pl_render_vars : forall specs rolling rendered errs, preserves Rlt (render_vars ev specs rolling rendered errs).
Proof. induction specs as [|[n d] specs IH]; intros; simpl; lwalk. Qed.
Lemma pl_process_transition : forall t route i ts ctx e, preserves Rlt (process_transition ev t route i ts ctx e).
Proof.
  intros. unfold process_transition, finalize_context, get_rec, upd_rec, evaluate_route.
  pw Rlt_refl Rlt_trans ltac:(first [apply pl_request_status_core|apply pl_log_error|apply pl_log_errors|apply pl_render_vars|lleaf]).
Qed.
Lemma pl_queue : forall t route i ts o n compl, preserves Rlt (uts_queue ev t route i ts o n compl).
Proof. intros. unfold uts_queue, get_rec, upd_rec. pw Rlt_refl Rlt_trans ltac:(first [apply pl_process_transition|lleaf]). Qed.
Lemma pl_completion : forall t route evt ts i n o, preserves Rlt (uts_completion ev t route evt ts i n o).
Proof.
  intros. unfold uts_completion, get_rec, get_task_context, evaluate_task_retry.
  pw Rlt_refl Rlt_trans ltac:(first [apply pl_request_status_core|apply pl_log_error|lleaf]).
Qed.
Lemma pl_pre_machine : forall t route evt ts i, preserves Rlt (pre_machine ev t route evt ts i).
Proof.
  intros. unfold pre_machine, uts_setst, uts_retrying, set_rec_status, upd_rec, get_rec.
  pw Rlt_refl Rlt_trans ltac:(first [apply pl_completion|lleaf]).
Qed.
Lemma pl_before_machine : forall t route evt s0,
  preserves Rlt (uts_unstage t route evt s0 ;;; uts_item t route evt s0 ;;; uts_logfail t evt).
Proof. intros. unfold uts_unstage, uts_item, uts_logfail, log_entry_error. lwalk. Qed.

(* add_task_state appends exactly one record and points the key at it *)
Lemma add_task_state_one : forall t rt ins prev c c' idx,
  add_task_state ev t rt ins prev c = (c', Val idx) ->
  idx = length (sequence (c_ws c)) /\ length (sequence (c_ws c')) = S (length (sequence (c_ws c))) /\
  ws_task_idx (c_ws c') t rt = Some idx /\
  (forall k, k <> (t, rt) -> aget tkey_eqb k (tasks (c_ws c')) = aget tkey_eqb k (tasks (c_ws c))).
Proof.
  intros t rt ins prev c c' idx H. unfold add_task_state in H.
  apply bind_val_inv' in H. destruct H as [c0 [cst [E0 H]]]. inversion E0; subst c0 cst; clear E0.
  destruct (negb (g_has_task (c_graph c) t)); [inversion H|]. cbv zeta in H.
  apply bind_val_inv' in H. destruct H as [cm [retry [Er H]]].
  assert (Lm : Rlt c cm).
  { revert Er. match goal with |- ?m c = _ -> _ => assert (P : preserves Rlt m) end; [|intro Er; eapply P; exact Er].
    destruct (g_task_has_retry (c_graph c) t); [|apply (preserves_ret _ Rlt_refl)].
    unfold setup_retry, get_task_context.
    pw Rlt_refl Rlt_trans ltac:(first [apply pl_request_status_core|apply pl_log_error|lleaf]). }
  destruct Lm as [L1 L2].
  apply bind_val_inv' in H. destruct H as [c0 [w [E0 H]]]. inversion E0; subst c0 w; clear E0.
  apply bind_val_inv' in H. destruct H as [c1 [u [E1 H]]]. unfold modws in E1. inversion E1; subst c1; clear E1.
  inversion H; subst c' idx; clear H. cbn [c_ws set_ws sequence tasks ws_set_tasks ws_set_sequence].
  split; [exact L1|]. split; [rewrite app_length; simpl; lia|].
  split; [unfold ws_task_idx; cbn [tasks ws_set_tasks]; apply aget_aset_same; apply tkey_eqb_refl|].
  intros k Hk. rewrite RerunProofs.aget_aset_t. destruct (tkey_eqb k (t, rt)) eqn:E; [apply tkey_eqb_eq in E; contradiction|rewrite L2; reflexivity].
Qed.

Lemma pl_unstage : forall t route evt s0, preserves Rlt (uts_unstage t route evt s0).
Proof. intros. unfold uts_unstage. lwalk. Qed.
Lemma pl_item : forall t route evt s0, preserves Rlt (uts_item t route evt s0).
Proof. intros. unfold uts_item. lwalk. Qed.
Lemma pl_logfail : forall t evt, preserves Rlt (uts_logfail t evt).
Proof. intros. unfold uts_logfail, log_entry_error. lwalk. Qed.

(* what follows the selection of the record in the prefix creates no record *)
Lemma after_selection : forall t route evt ts s0 idx c c' p,
  (uts_unstage t route evt s0 ;;; uts_item t route evt s0 ;;; uts_logfail t evt ;;; pre_machine ev t route evt ts idx) c = (c', Val p) ->
  Rlt c c' /\ po_idx p = idx.
Proof.
  intros t route evt ts s0 idx c c' p H.
  apply bind_val_inv' in H. destruct H as [c3 [u3 [E3 H]]].
  apply bind_val_inv' in H. destruct H as [c4 [u4 [E4 H]]].
  apply bind_val_inv' in H. destruct H as [c5 [u5 [E5 H]]].
  split.
  - eapply Rlt_trans; [eapply pl_unstage; exact E3|]. eapply Rlt_trans; [eapply pl_item; exact E4|].
    eapply Rlt_trans; [eapply pl_logfail; exact E5|eapply pl_pre_machine; exact H].
  - destruct (pre_machine_inv ev _ _ _ _ _ _ _ _ H) as [r [ns [c1 [c2 X]]]]. decompose [and] X. assumption.
Qed.

(* the first event for a staged task that has no record: exactly one record is created, and the key points to it *)
Theorem first_event_creates_one_record : forall t route evt c c' p,
  c_init c = true -> is_engine_command t = false -> ws_task_idx (c_ws c) t route = None ->
  uts_prefix ev t route evt c = (c', Val p) ->
  length (sequence (c_ws c')) = S (length (sequence (c_ws c))) /\
  ws_task_idx (c_ws c') t route = Some (length (sequence (c_ws c))) /\ po_idx p = length (sequence (c_ws c)).
Proof.
  intros t route evt c c' p Hi Hcmd Hno H.
  destruct (prefix_inv ev _ _ _ _ _ _ H) as [cE [ts [EE Hm]]]. rewrite (ensure_ws_inited ev c Hi) in EE. inversion EE; subst cE. clear EE.
  rewrite Hno in Hm. unfold pre_main in Hm.
  apply bind_val_inv' in Hm. destruct Hm as [ca [idx1 [E1 Hm]]].
  unfold uts_sel1 in E1. apply bind_val_inv' in E1. destruct E1 as [cx [s [Es Ea]]].
  assert (cx = c) by (unfold uts_need_staged in Es; destruct (get_staged_task (c_ws c) t route); inversion Es; reflexivity). subst cx.
  assert (Hrt : s_route s = route).
  { unfold uts_need_staged in Es. destruct (get_staged_task (c_ws c) t route) as [s'|] eqn:E; inversion Es; subst s'.
    apply (get_staged_matches _ _ _ _ E). }
  rewrite Hrt in Ea.
  destruct (add_task_state_one _ _ _ _ _ _ _ Ea) as [Hidx [Hlen [Hptr _]]].
  destruct (add_task_state_inv ev _ _ _ _ _ _ _ Ea) as [r1 [Hr1 [Hst1 _]]].
  apply bind_val_inv' in Hm. destruct Hm as [cy [r1' [Eg Hm]]]. apply get_rec_inv in Eg. destruct Eg as [-> Hr1'].
  rewrite Hr1 in Hr1'. inversion Hr1'; subst r1'. clear Hr1'.
  apply bind_val_inv' in Hm. destruct Hm as [cb [idx [E2 Hm]]].
  unfold uts_sel2, ostatus_in in E2. rewrite Hst1 in E2. cbn [andb] in E2. inversion E2; subst cb idx. clear E2.
  destruct (after_selection _ _ _ _ _ _ _ _ _ Hm) as [[L T] Hpi].
  split; [congruence|]. split; [unfold ws_task_idx in *; rewrite T, Hptr, Hidx; reflexivity|congruence].
Qed.

(* a later event for a task whose record is not completed creates no record *)
Theorem later_event_creates_no_record : forall t route evt idx r c c' p,
  c_init c = true -> is_engine_command t = false -> ws_task_idx (c_ws c) t route = Some idx ->
  nth_error (sequence (c_ws c)) idx = Some r -> ostatus_in (r_status r) COMPLETED_STATUSES = false ->
  uts_prefix ev t route evt c = (c', Val p) ->
  length (sequence (c_ws c')) = length (sequence (c_ws c)) /\ tasks (c_ws c') = tasks (c_ws c) /\ po_idx p = idx.
Proof.
  intros t route evt idx r c c' p Hi Hcmd Hp Hr Hnc H.
  destruct (prefix_inv ev _ _ _ _ _ _ H) as [cE [ts [EE Hm]]]. rewrite (ensure_ws_inited ev c Hi) in EE. inversion EE; subst cE. clear EE.
  rewrite Hp in Hm. unfold pre_main in Hm.
  apply bind_val_inv' in Hm. destruct Hm as [ca [idx1 [E1 Hm]]].
  unfold uts_sel1 in E1. rewrite Hcmd in E1. inversion E1; subst ca idx1. clear E1.
  apply bind_val_inv' in Hm. destruct Hm as [cy [r1 [Eg Hm]]]. apply get_rec_inv in Eg. destruct Eg as [-> Hr1].
  rewrite Hr in Hr1. inversion Hr1; subst r1. clear Hr1.
  apply bind_val_inv' in Hm. destruct Hm as [cb [idx' [E2 Hm]]].
  unfold uts_sel2 in E2. rewrite Hnc in E2. cbn [andb] in E2. inversion E2; subst cb idx'. clear E2.
  destruct (after_selection _ _ _ _ _ _ _ _ _ Hm) as [[L T] Hpi]. repeat split; assumption.
Qed.

(* (b) the engine's call of a command: exactly one record is created for it, whether or not the (command, route)
   was visited before -- a command always gets a record of its own *)
Theorem command_call_creates_one_record : forall fuel n rt e c c',
  c_init c = true -> is_engine_command n = true -> graph_commands_inert (c_graph c) ->
  update_task_state_fuel ev (S fuel) n rt e c = (c', Val tt) ->
  length (sequence (c_ws c')) = S (length (sequence (c_ws c))) /\
  ws_task_idx (c_ws c') n rt = Some (length (sequence (c_ws c))) /\
  (forall k, k <> (n, rt) -> aget tkey_eqb k (tasks (c_ws c')) = aget tkey_eqb k (tasks (c_ws c))).
Proof.
  intros fuel n rt e c c' Hi Hcmd Hin H. rewrite uts_unfold, body_eq in H.
  apply bind_val_inv' in H. destruct H as [c1 [p [Ep H]]].
  destruct (Hin n Hcmd) as [Htr Hnr].
  pose proof (pg_prefix ev _ _ _ _ _ _ Ep) as G1. unfold Rg in G1.
  (* the prefix: a record is added *)
  assert (Pre : length (sequence (c_ws c1)) = S (length (sequence (c_ws c))) /\
                ws_task_idx (c_ws c1) n rt = Some (length (sequence (c_ws c))) /\
                (forall k, k <> (n, rt) -> aget tkey_eqb k (tasks (c_ws c1)) = aget tkey_eqb k (tasks (c_ws c))) /\
                po_idx p = length (sequence (c_ws c))).
  { destruct (prefix_inv ev _ _ _ _ _ _ Ep) as [cE [ts [EE Hm]]]. rewrite (ensure_ws_inited ev c Hi) in EE. inversion EE; subst cE. clear EE.
    unfold pre_main in Hm. apply bind_val_inv' in Hm. destruct Hm as [ca [idx1 [E1 Hm]]].
    assert (Ea : exists s, get_staged_task (c_ws c) n rt = Some s /\ add_task_state ev n (s_route s) (s_in s) (s_prev s) c = (ca, Val idx1)).
    { unfold uts_sel1 in E1. rewrite Hcmd in E1.
      assert (G : (s <- uts_need_staged (get_staged_task (c_ws c) n rt) ;; add_task_state ev n (s_route s) (s_in s) (s_prev s)) c = (ca, Val idx1))
        by (destruct (ws_task_idx (c_ws c) n rt); exact E1).
      apply bind_val_inv' in G. destruct G as [cx [s [Es Ea]]]. unfold uts_need_staged in Es.
      destruct (get_staged_task (c_ws c) n rt) as [s'|]; inversion Es; subst. exists s. split; [reflexivity|exact Ea]. }
    destruct Ea as [s [Hs Ea]]. destruct (get_staged_matches _ _ _ _ Hs) as [_ Hrt]. rewrite Hrt in Ea.
    destruct (add_task_state_one _ _ _ _ _ _ _ Ea) as [Hidx [Hlen [Hptr Hoth]]].
    destruct (add_task_state_inv ev _ _ _ _ _ _ _ Ea) as [r1 [Hr1 [Hst1 _]]].
    apply bind_val_inv' in Hm. destruct Hm as [cy [r1' [Eg Hm]]]. apply get_rec_inv in Eg. destruct Eg as [-> Hr1'].
    rewrite Hr1 in Hr1'. inversion Hr1'; subst r1'. clear Hr1'.
    apply bind_val_inv' in Hm. destruct Hm as [cb [idx [E2 Hm]]].
    unfold uts_sel2, ostatus_in in E2. rewrite Hst1 in E2. cbn [andb] in E2. inversion E2; subst cb idx. clear E2.
    destruct (after_selection _ _ _ _ _ _ _ _ _ Hm) as [[L T] Hpi].
    split; [congruence|]. split; [unfold ws_task_idx in *; rewrite T, Hptr, Hidx; reflexivity|].
    split; [intros k Hk; rewrite T; apply Hoth; exact Hk|congruence]. }
  destruct Pre as [P1 [P2 [P3 P4]]].
  (* the tail: no retry, no transition, no command *)
  assert (Tl : Rlt c1 c').
  { unfold tail_of, uts_tail in H.
    assert (Hb : forall ctx b, po_compl p = Some (ctx, b) -> b = false)
      by (intros ctx b Hc; exact (prefix_cmd_no_retry ev _ _ _ _ _ _ Hcmd Hnr Ep ctx b Hc)).
    assert (Rest : (queue <- uts_queue ev n rt (po_idx p) (po_ts p) (po_old p) (po_new p) (po_compl p) ;;
                    r <- get_rec (po_idx p) ;;
                    st <- (match r_status r with Some s => ret s | None => raise (exn_key "status") end) ;;
                    unreachable <- wf_task_event_M n rt st ;;
                    log_unreachable unreachable ;;;
                    forM_ queue (uts_call (update_task_state_fuel ev fuel)) ;;;
                    w <- getws ;;
                    if status_in (wstatus w) COMPLETED_STATUSES then upd_rec (po_idx p) (fun r => r_set_term r true) else ret tt) c1
                   = (c', Val tt)).
    { destruct (po_compl p) as [[ctx b]|] eqn:Ec; [|exact H]. rewrite (Hb ctx b eq_refl) in H. exact H. }
    clear H. apply bind_val_inv' in Rest. destruct Rest as [c2 [q [E2 H]]].
    assert (Hq : q = []) by (eapply queue_nil; [exact E2|right; rewrite G1; exact Htr]). subst q.
    apply bind_val_inv' in H. destruct H as [cx [r2 [Eg H]]]. apply get_rec_inv in Eg. destruct Eg as [-> _].
    apply bind_val_inv' in H. destruct H as [cx [st [Es H]]].
    assert (cx = c2) by (destruct (r_status r2); inversion Es; reflexivity). subst cx.
    apply bind_val_inv' in H. destruct H as [c3 [unr [E3 H]]].
    apply bind_val_inv' in H. destruct H as [c4 [u4 [E4 H]]].
    cbn [forM_] in H. apply bind_val_inv' in H. destruct H as [cx [u [Er H]]]. inversion Er; subst cx. clear Er.
    apply bind_val_inv' in H. destruct H as [cx [w [Ew H]]]. inversion Ew; subst cx w. clear Ew.
    eapply Rlt_trans; [eapply pl_queue; exact E2|]. eapply Rlt_trans; [eapply pl_wf_task_event; exact E3|].
    eapply Rlt_trans; [eapply pl_log_unreachable; exact E4|].
    destruct (status_in (wstatus (c_ws c4)) COMPLETED_STATUSES); [|inversion H; apply Rlt_refl].
    unfold upd_rec, modws in H. inversion H; subst. apply Rlt_update. }
  destruct Tl as [L T]. split; [congruence|]. split; [unfold ws_task_idx in *; rewrite T; exact P2|].
  intros k Hk. rewrite T. apply P3; exact Hk.
Qed.

(* the delivery of a queue of commands: one record each *)
Theorem delivery_creates_one_record_each : forall fuel q c c',
  c_init c = true -> graph_commands_inert (c_graph c) -> Forall cmd_pair q ->
  forM_ q (uts_call (update_task_state_fuel ev (S fuel))) c = (c', Val tt) ->
  length (sequence (c_ws c')) = length (sequence (c_ws c)) + length q.
Proof.
  intros fuel q; induction q as [|[n rt] q IH]; intros c c' Hi Hin Hq H.
  - inversion H; subst. simpl. lia.
  - cbn [forM_] in H. apply bind_val_inv' in H. destruct H as [c1 [[] [E1 H]]].
    inversion Hq as [|x l Hc Hq']; subst. unfold cmd_pair in Hc. simpl in Hc.
    unfold uts_call in E1. destruct (engine_event n) as [e|]; [|inversion E1].
    destruct (command_call_creates_one_record fuel n rt e c c1 Hi Hc Hin E1) as [L _].
    assert (Hi1 : c_init c1 = true) by (exact (C05Proofs.presi_update_task_state_fuel ev _ _ _ _ _ _ _ E1 Hi)).
    assert (G1 : c_graph c1 = c_graph c) by (exact (pg_uts_fuel ev _ _ _ _ _ _ _ E1)).
    rewrite (IH c1 c' Hi1) by (try exact Hq'; try exact H; rewrite G1; exact Hin). simpl. lia.
Qed.

Lemma presi_queue : forall t route i ts o n compl, preserves C05Proofs.Rinit (uts_queue ev t route i ts o n compl).
Proof.
  intros. unfold uts_queue.
  pw C05Proofs.Rinit_refl C05Proofs.Rinit_trans
     ltac:(first [apply C05Proofs.presi_process_transition|apply C05Proofs.presi_upd_rec|apply C05Proofs.presi_get_rec
                 |apply (preserves_modws C05Proofs.Rinit); intro; unfold C05Proofs.Rinit; simpl; intro; assumption]).
Qed.

(* after the completion step of a call (no retry taken): the records created are exactly those of the queued commands *)
Theorem tail_record_count : forall fuel t route ts idx o n compl c c',
  c_init c = true -> graph_commands_inert (c_graph c) -> (forall ctx, compl <> Some (ctx, true)) ->
  uts_tail ev (update_task_state_fuel ev (S fuel)) t route ts idx o n compl c = (c', Val tt) ->
  exists c2 q, uts_queue ev t route idx ts o n compl c = (c2, Val q) /\
               length (sequence (c_ws c')) = length (sequence (c_ws c)) + length q.
Proof.
  intros fuel t route ts idx o n compl c c' Hi Hin Hnr H. unfold uts_tail in H.
  assert (Rest : (queue <- uts_queue ev t route idx ts o n compl ;;
                  r <- get_rec idx ;;
                  st <- (match r_status r with Some s => ret s | None => raise (exn_key "status") end) ;;
                  unreachable <- wf_task_event_M t route st ;;
                  log_unreachable unreachable ;;;
                  forM_ queue (uts_call (update_task_state_fuel ev (S fuel))) ;;;
                  w <- getws ;;
                  if status_in (wstatus w) COMPLETED_STATUSES then upd_rec idx (fun r => r_set_term r true) else ret tt) c
                 = (c', Val tt)).
  { destruct compl as [[ctx [|]]|]; [exfalso; exact (Hnr ctx eq_refl)|exact H|exact H]. }
  clear H. apply bind_val_inv' in Rest. destruct Rest as [c2 [q [E2 H]]]. exists c2, q. split; [exact E2|].
  pose proof (queue_cmds ev _ _ _ _ _ _ _ _ _ _ E2) as Hq.
  destruct (pl_queue _ _ _ _ _ _ _ _ _ _ E2) as [L2 _].
  apply bind_val_inv' in H. destruct H as [cx [r2 [Eg H]]]. apply get_rec_inv in Eg. destruct Eg as [-> _].
  apply bind_val_inv' in H. destruct H as [cx [st [Es H]]].
  assert (cx = c2) by (destruct (r_status r2); inversion Es; reflexivity). subst cx.
  apply bind_val_inv' in H. destruct H as [c3 [unr [E3 H]]].
  apply bind_val_inv' in H. destruct H as [c4 [u4 [E4 H]]].
  apply bind_val_inv' in H. destruct H as [c5 [u5 [E5 H]]].
  apply bind_val_inv' in H. destruct H as [cx [w [Ew H]]]. inversion Ew; subst cx w. clear Ew.
  destruct (pl_wf_task_event _ _ _ _ _ _ E3) as [L3 _]. destruct (pl_log_unreachable _ _ _ _ E4) as [L4 _].
  assert (Hi4 : c_init c4 = true).
  { apply (C05Proofs.presi_log_unreachable _ _ _ _ E4). apply (C05Proofs.presi_wf_task_event _ _ _ _ _ _ E3).
    apply (presi_queue _ _ _ _ _ _ _ _ _ _ E2). exact Hi. }
  assert (G4 : c_graph c4 = c_graph c).
  { pose proof (pg_queue ev _ _ _ _ _ _ _ _ _ _ E2) as A. pose proof (pg_wf_task_event _ _ _ _ _ _ E3) as B.
    pose proof (pg_log_unreachable _ _ _ _ E4) as C. unfold Rg in *. congruence. }
  destruct u5. rewrite <- G4 in Hin.
  pose proof (delivery_creates_one_record_each fuel q c4 c5 Hi4 Hin Hq E5) as L5.
  assert (L' : length (sequence (c_ws c')) = length (sequence (c_ws c5))).
  { destruct (status_in (wstatus (c_ws c5)) COMPLETED_STATUSES); [|inversion H; reflexivity].
    unfold upd_rec, modws in H. inversion H; subst. cbn [c_ws set_ws]. apply length_update_rec. }
  lia.
Qed.

End WithEval.
