(* PauseCommute2Proofs.v -- C09: the whole-call commutation of a report with the pause request, extended to
   tasks whose transitions target ENGINE COMMANDS (noop / fail / continue / retry as a transition target).

   PauseCommuteProofs proves the commutation for tasks with no command target.  With a command queued, the
   nested update_task_state calls run AFTER the workflow-machine step of the reporting task, when the
   statuses of the two runs have parted (typically running vs paused).  Part A redoes the relational
   judgement for ANY pair of statuses from which the workflow can still be failed ([PairF]); the only piece
   that reads the workflow status besides the machine -- the retry gate -- is moot for command records,
   which are always fresh and carry no retry policy ([graph_commands_inert], true of every composed graph).
   Part B runs the reporting task's call in the old judgement up to the machine step, then the queue. *)
From Coq Require Import String List Bool ZArith Arith Lia.
From Orq Require Import GenStatuses GenEvents GenTables GenSpecMeta Base State Machines Codec Conductor Decode Api.
From Orq Require Import F_tables Hoare ValuePost StatusReach C04Proofs C05Proofs C09C10Proofs RetryProofs InertProofs QueryProofs PauseProofs PauseCommuteProofs.
Import ListNotations.
Open Scope string_scope.
Open Scope monad_scope.

(* ================================================================== Part A: the judgement over failable pairs *)

(* a workflow status from which request_status_core S_FAILED fails the workflow *)
Definition failable (y : status) : Prop := tbl_step wf_table y "workflow_failed" = Some S_FAILED /\ y <> S_FAILED.
Definition PairF (s x : status) : Prop := s = x \/ (failable s /\ failable x).

Lemma PairOK_PairF : forall s x, PairOK s x -> PairF s x.
Proof.
  intros s x [E|[-> [->| ->]]]; [left; exact E| |]; right; split; split; try reflexivity; discriminate.
Qed.

Definition Jc {A} (VR : status -> A -> A -> Prop) (m1 m2 : M A) : Prop :=
  forall s a, c_init a = true -> PairF s (wstatus (c_ws a)) ->
    exists s', fst (m1 (so s a)) = so s' (fst (m2 a)) /\
               c_init (fst (m2 a)) = true /\ PairF s' (wstatus (c_ws (fst (m2 a)))) /\
               rrel (VR s') (snd (m1 (so s a))) (snd (m2 a)).


Lemma Jc_ret : forall A (VR : status -> A -> A -> Prop) x y, (forall s, VR s x y) -> Jc VR (ret x) (ret y).
Proof. intros A VR x y H s a Hi Hp. exists s. cbn. repeat split; auto. Qed.

Lemma Jc_raise : forall A (VR : status -> A -> A -> Prop) e, Jc VR (raise e) (raise e).
Proof. intros A VR e s a Hi Hp. exists s. cbn. repeat split; auto. Qed.

Lemma Jc_bind : forall A B (VR1 : status -> A -> A -> Prop) (VR2 : status -> B -> B -> Prop)
  (m1 m2 : M A) (f1 f2 : A -> M B),
  Jc VR1 m1 m2 -> (forall s x y, VR1 s x y -> Jc VR2 (f1 x) (f2 y)) -> Jc VR2 (bind m1 f1) (bind m2 f2).
Proof.
  intros A B VR1 VR2 m1 m2 f1 f2 Hm Hf s a Hi Hp. unfold bind.
  destruct (Hm s a Hi Hp) as [s1 [E1 [I1 [P1 R1]]]].
  destruct (m1 (so s a)) as [b1 r1], (m2 a) as [a1 r2]. cbn [fst snd] in *. subst b1.
  destruct r1 as [x|e1], r2 as [y|e2]; cbn in R1; try contradiction.
  - destruct (Hf s1 x y R1 s1 a1 I1 P1) as [s2 [E2 [I2 [P2 R2]]]]. exists s2. repeat split; assumption.
  - subst e2. exists s1. cbn. repeat split; auto.
Qed.

(* values read from the state *)
Definition VRwsF : status -> wstate -> wstate -> Prop :=
  fun s w1 w2 => w1 = ws_set_status w2 s /\ PairF s (wstatus w2).
Definition VRcsF : status -> cstate -> cstate -> Prop :=
  fun s c1 c2 => c1 = so s c2 /\ PairF s (wstatus (c_ws c2)) /\ c_init c2 = true.

Lemma Jc_getws : Jc VRwsF getws getws.
Proof. intros s a Hi Hp. exists s. cbn. repeat split; auto. Qed.

Lemma Jc_get : Jc VRcsF get get.
Proof. intros s a Hi Hp. exists s. cbn. repeat split; auto. Qed.

(* a state update that does not look at the workflow status *)
Lemma Jc_modws : forall f, (forall w s, f (ws_set_status w s) = ws_set_status (f w) s) ->
  (forall w, wstatus (f w) = wstatus w) -> Jc Veq (modws f) (modws f).
Proof.
  intros f Hf Hs s a Hi Hp. exists s. unfold modws, so. cbn [fst snd c_ws set_ws c_init].
  rewrite Hf, Hs. repeat split; auto.
Qed.

Lemma Jc_modify : forall f, (forall c s, f (so s c) = so s (f c)) ->
  (forall c, wstatus (c_ws (f c)) = wstatus (c_ws c)) -> (forall c, c_init (f c) = c_init c) ->
  Jc Veq (modify f) (modify f).
Proof.
  intros f Hf Hs Hi' s a Hi Hp. exists s. unfold modify. cbn [fst snd].
  rewrite Hf, Hs, Hi'. repeat split; auto.
Qed.

Lemma Jc_lift_res : forall A (VR : status -> A -> A -> Prop) (r1 r2 : result A),
  (forall s, rrel (VR s) r1 r2) -> Jc VR (lift_res r1) (lift_res r2).
Proof.
  intros A VR r1 r2 H s a Hi Hp. exists s. specialize (H s).
  destruct r1, r2; cbn in *; try contradiction; repeat split; auto.
Qed.

(* pure computations with equal results (QueryProofs.same) *)
Lemma Jc_same : forall A (m1 m2 : M A), state_pure m1 -> state_pure m2 -> same m1 m2 -> Jc Veq m1 m2.
Proof.
  intros A m1 m2 H1 H2 Hs s a Hi Hp. exists s. rewrite (H1 (so s a)), (H2 a).
  specialize (Hs (so s a) a). split; [reflexivity|]. split; [exact Hi|]. split; [exact Hp|].
  rewrite Hs. destruct (snd (m2 a)); cbn; reflexivity.
Qed.

Lemma Jc_weaken : forall A (VR VR' : status -> A -> A -> Prop) m1 m2,
  (forall s x y, VR s x y -> VR' s x y) -> Jc VR m1 m2 -> Jc VR' m1 m2.
Proof.
  intros A VR VR' m1 m2 H Hm s a Hi Hp. destruct (Hm s a Hi Hp) as [s' [E [I [P R]]]]. exists s'.
  repeat split; auto. destruct (snd (m1 (so s a))), (snd (m2 a)); cbn in *; auto.
Qed.

Lemma Jc_try_catch : forall A (VR : status -> A -> A -> Prop) (m1 m2 : M A) h1 h2,
  Jc VR m1 m2 -> (forall e, Jc VR (h1 e) (h2 e)) -> Jc VR (try_catch m1 h1) (try_catch m2 h2).
Proof.
  intros A VR m1 m2 h1 h2 Hm Hh s a Hi Hp. unfold try_catch.
  destruct (Hm s a Hi Hp) as [s1 [E1 [I1 [P1 R1]]]].
  destruct (m1 (so s a)) as [b1 r1], (m2 a) as [a1 r2]. cbn [fst snd] in *. subst b1.
  destruct r1 as [x|e1], r2 as [y|e2]; cbn in R1; try contradiction.
  - exists s1. cbn. repeat split; auto.
  - subst e2. destruct (Hh e1 s1 a1 I1 P1) as [s2 [E2 [I2 [P2 R2]]]]. exists s2. repeat split; assumption.
Qed.

Lemma Jc_try_catch_expr : forall A (VR : status -> A -> A -> Prop) (m1 m2 : M A) h1 h2,
  Jc VR m1 m2 -> (forall e, Jc VR (h1 e) (h2 e)) -> Jc VR (try_catch_expr m1 h1) (try_catch_expr m2 h2).
Proof.
  intros A VR m1 m2 h1 h2 Hm Hh s a Hi Hp. unfold try_catch_expr.
  destruct (Hm s a Hi Hp) as [s1 [E1 [I1 [P1 R1]]]].
  destruct (m1 (so s a)) as [b1 r1], (m2 a) as [a1 r2]. cbn [fst snd] in *. subst b1.
  destruct r1 as [x|e1], r2 as [y|e2]; cbn in R1; try contradiction.
  - exists s1. cbn. repeat split; auto.
  - subst e2. destruct (x_expr e1).
    + destruct (Hh e1 s1 a1 I1 P1) as [s2 [E2 [I2 [P2 R2]]]]. exists s2. repeat split; assumption.
    + exists s1. cbn. repeat split; auto.
Qed.

Lemma Jc_mapM : forall A B (R : B -> B -> Prop) (f1 f2 : A -> M B) l,
  (forall x, Jc (Vconst R) (f1 x) (f2 x)) -> Jc (Vconst (Forall2 R)) (mapM f1 l) (mapM f2 l).
Proof.
  intros A B R f1 f2 l Hf; induction l as [|x l IH]; cbn [mapM].
  - apply Jc_ret. intro; constructor.
  - eapply Jc_bind; [apply Hf|]. intros s y1 y2 Hy.
    eapply Jc_bind; [exact IH|]. intros s' l1 l2 Hl. apply Jc_ret. intro. constructor; assumption.
Qed.

Lemma Jc_forM : forall A (f1 f2 : A -> M unit) l, (forall x, Jc Veq (f1 x) (f2 x)) -> Jc Veq (forM_ l f1) (forM_ l f2).
Proof.
  intros A f1 f2 l Hf; induction l as [|x l IH]; cbn [forM_].
  - apply Jc_ret. intro; reflexivity.
  - eapply Jc_bind; [apply Hf|]. intros s u1 u2 _. exact IH.
Qed.

Lemma Jc_mapM_eq : forall A B (f1 f2 : A -> M B) l, (forall x, Jc Veq (f1 x) (f2 x)) -> Jc Veq (mapM f1 l) (mapM f2 l).
Proof.
  intros A B f1 f2 l Hf. eapply Jc_weaken; [|apply (Jc_mapM _ _ eq); exact Hf].
  intros s x y H. apply Forall2_eq_eq. exact H.
Qed.


Lemma PairF_failed_row : forall s x, PairF s x -> s <> x ->
  tbl_step wf_table x "workflow_failed" = Some S_FAILED /\ tbl_step wf_table s "workflow_failed" = Some S_FAILED /\
  x <> S_FAILED /\ s <> S_FAILED.
Proof. intros s x [E|[[A1 A2] [B1 B2]]] Hne; [contradiction|]. repeat split; assumption. Qed.

Lemma Jc_rsc_failed : Jc Veq (request_status_core S_FAILED) (request_status_core S_FAILED).
Proof.
  intros s a Hi Hp. destruct (status_eqb s (wstatus (c_ws a))) eqn:Es.
  - apply status_eqb_eq in Es. subst s. rewrite so_same.
    exists (wstatus (c_ws (fst (request_status_core S_FAILED a)))). rewrite so_same.
    split; [reflexivity|]. split; [|split; [left; reflexivity|]].
    + destruct (request_status_core S_FAILED a) as [a1 r] eqn:E. cbn [fst].
      pose proof (presi_request_status_core S_FAILED a a1 r E Hi) as X. exact X.
    + destruct (snd (request_status_core S_FAILED a)); cbn; reflexivity.
  - assert (Hne : s <> wstatus (c_ws a)) by (intro E; subst; rewrite status_eqb_refl in Es; discriminate).
    destruct (PairF_failed_row _ _ Hp Hne) as [T1 [T2 [N1 N2]]].
    rewrite (rsc_failed_value a T1 N1). rewrite (rsc_failed_value (so s a) T2 N2).
    exists S_FAILED. cbn [fst snd]. split; [reflexivity|]. split; [exact Hi|]. split; [left; reflexivity|reflexivity].
Qed.

(* ------------------------------------------------------------------ state updates commute with the override *)

Ltac jcleaf :=
  first
    [ apply Jc_modws; [intros; first [reflexivity|apply upd_comm|apply rem_comm]
                      |intros; first [reflexivity|apply ws_update_rec_status|apply ws_remove_staged_status]]
    | apply Jc_modify; [intros; unfold so; cbn [c_errors set_ws c_ws]; try reflexivity;
                        match goal with |- context [if ?b then _ else _] => destruct b end; reflexivity
                       |intros; try reflexivity; match goal with |- context [if ?b then _ else _] => destruct b end; reflexivity
                       |intros; try reflexivity; match goal with |- context [if ?b then _ else _] => destruct b end; reflexivity]
    | apply Jc_rsc_failed
    | assumption
    | solve [eauto 3 with presjc] ].

Ltac jcw :=
  jnorm;
  lazymatch goal with
  | |- Jc _ (ret _) (ret _) => apply Jc_ret; intro; first [reflexivity|idtac]
  | |- Jc _ (raise _) (raise _) => apply Jc_raise
  | |- Jc _ (bind getws _) (bind getws _) =>
      eapply Jc_bind; [apply Jc_getws|]; let s := fresh "s" in let w1 := fresh "w1" in let w2 := fresh "w2" in
      let E := fresh "E" in let P := fresh "Pw" in intros s w1 w2 [E P]; subst w1; jcw
  | |- Jc _ (bind get _) (bind get _) =>
      eapply Jc_bind; [apply Jc_get|]; let s := fresh "s" in let c1 := fresh "c1" in let c2 := fresh "c2" in
      let E := fresh "E" in let P := fresh "Pc" in let I := fresh "Ic" in intros s c1 c2 [E [P I]]; subst c1; jcw
  | |- Jc _ (bind _ _) (bind _ _) =>
      eapply (Jc_bind _ _ Veq); [jcw|]; let s := fresh "s" in let x := fresh "x" in let y := fresh "y" in
      let E := fresh "E" in intros s x y E; unfold Veq in E; subst x; jcw
  | |- Jc _ (try_catch _ _) (try_catch _ _) => apply Jc_try_catch; [jcw|intro; jcw]
  | |- Jc _ (try_catch_expr _ _) (try_catch_expr _ _) => apply Jc_try_catch_expr; [jcw|intro; jcw]
  | |- Jc _ (forM_ _ _) (forM_ _ _) => apply Jc_forM; intro; jcw
  | |- Jc _ (mapM _ _) (mapM _ _) => apply Jc_mapM_eq; intro; jcw
  | |- Jc _ (lift_res _) (lift_res _) => apply Jc_lift_res; intro;
      match goal with |- rrel _ ?r1 ?r2 => replace r1 with r2 by reflexivity; destruct r2; cbn; reflexivity end
  | |- Jc _ (match ?x with _ => _ end) (match ?y with _ => _ end) =>
      first [unify x y | replace x with y by reflexivity]; destruct y; jcw
  | |- Jc _ ?m1 ?m2 =>
      first [ solve [jcleaf]
            | let h := head_of m1 in progress (unfold h); jcw
            | progress (cbv beta); jcw
            | idtac ]
  end.

Create HintDb presjc.

Section Commute2.
Variable ev : string -> dict -> evalres.
Hypothesis Hblind : state_blind ev.

Lemma Jc_eval : forall stmt c1 c2, sim c1 c2 -> Jc Veq (evaluate ev stmt c1) (evaluate ev stmt c2).
Proof. intros. apply Jc_same; [apply evaluate_pure|apply evaluate_pure|apply evaluate_same; assumption]. Qed.

Lemma Jc_eval_same : forall stmt c, Jc Veq (evaluate ev stmt c) (evaluate ev stmt c).
Proof. intros. apply Jc_eval. apply sim_refl. Qed.
Hint Resolve Jc_eval_same : presjc.

Lemma jc_log_entry_error : forall m t r tr res, Jc Veq (log_entry_error m t r tr res) (log_entry_error m t r tr res).
Proof. intros; unfold log_entry_error; jcw. Qed.
Hint Resolve jc_log_entry_error : presjc.
Lemma jc_log_error : forall e t r tr, Jc Veq (log_error e t r tr) (log_error e t r tr).
Proof. intros; unfold log_error; auto with presjc. Qed.
Hint Resolve jc_log_error : presjc.
Lemma jc_log_errors : forall es t r tr, Jc Veq (log_errors es t r tr) (log_errors es t r tr).
Proof. intros; unfold log_errors; jcw. Qed.
Hint Resolve jc_log_errors : presjc.
Lemma jc_set_rec_status : forall j st, Jc Veq (set_rec_status j st) (set_rec_status j st).
Proof. intros; unfold set_rec_status; jcw. Qed.
Hint Resolve jc_set_rec_status : presjc.
Lemma jc_upd_rec : forall j f, Jc Veq (upd_rec j f) (upd_rec j f).
Proof. intros; unfold upd_rec; jcw. Qed.
Hint Resolve jc_upd_rec : presjc.
Lemma jc_get_rec : forall j, Jc Veq (get_rec j) (get_rec j).
Proof. intros; unfold get_rec; jcw. Qed.
Hint Resolve jc_get_rec : presjc.
Lemma jc_get_task_context : forall idxs, Jc Veq (get_task_context idxs) (get_task_context idxs).
Proof. intros; unfold get_task_context; jcw. Qed.
Hint Resolve jc_get_task_context : presjc.
Lemma jc_setup_retry : forall t idxs, Jc Veq (setup_retry ev t idxs) (setup_retry ev t idxs).
Proof. intros; unfold setup_retry; jcw. Qed.
Hint Resolve jc_setup_retry : presjc.
Lemma jc_add_task_state : forall t r ins p, Jc Veq (add_task_state ev t r ins p) (add_task_state ev t r ins p).
Proof. intros; unfold add_task_state; jcw. Qed.
Hint Resolve jc_add_task_state : presjc.


Hint Resolve sim_refl sim_dset sim_state_ctx : presjc.
Lemma Jc_eval_hint : forall stmt c1 c2, sim c1 c2 -> Jc Veq (evaluate ev stmt c1) (evaluate ev stmt c2).
Proof. exact Jc_eval. Qed.
Hint Resolve Jc_eval_hint : presjc.

Lemma jc_render_vars : forall specs r1 r2 rendered errs, sim r1 r2 ->
  Jc Veq (render_vars ev specs r1 rendered errs) (render_vars ev specs r2 rendered errs).
Proof.
  induction specs as [|[n d] specs IH]; intros r1 r2 rendered errs Hs; cbn [render_vars]; [apply Jc_ret; intro; reflexivity|].
  eapply (Jc_bind _ _ Veq).
  - apply Jc_try_catch_expr; [|intro; apply Jc_ret; intro; reflexivity].
    eapply (Jc_bind _ _ Veq); [apply Jc_eval; exact Hs|]. intros s x y E; unfold Veq in E; subst. apply Jc_ret; intro; reflexivity.
  - intros s x y E; unfold Veq in E; subst x. destruct y as [v|e]; apply IH; [apply sim_dset|]; exact Hs.
Qed.

Lemma jc_finalize_context : forall ts e c1 c2, sim c1 c2 -> Jc Veq (finalize_context ev ts e c1) (finalize_context ev ts e c2).
Proof.
  intros ts e c1 c2 Hs. unfold finalize_context. destruct (nth_error (ts_next ts) (e_ref e)) as [tr|]; [|apply Jc_raise].
  destruct (string_in (e_dst e) (tr_do tr)); [apply jc_render_vars; exact Hs|apply Jc_ret; intro; reflexivity].
Qed.

Lemma jc_evaluate_route : forall e r, Jc Veq (evaluate_route e r) (evaluate_route e r).
Proof. intros; unfold evaluate_route; jcw. Qed.
Hint Resolve jc_evaluate_route : presjc.

Lemma jc_evaluate_task_retry : forall r c1 c2, sim c1 c2 -> Jc Veq (evaluate_task_retry ev r c1) (evaluate_task_retry ev r c2).
Proof.
  intros r c1 c2 Hs. unfold evaluate_task_retry. destruct (r_retry r) as [rr|]; [|apply Jc_ret; intro; reflexivity].
  destruct (negb (py_is_int (rr_count rr))); [apply Jc_raise|].
  destruct (Z.leb _ _); [apply Jc_ret; intro; reflexivity|].
  destruct (status_in (rstatus r) ABENDED_STATUSES && is_jnull (rr_when rr)); [apply Jc_ret; intro; reflexivity|].
  eapply (Jc_bind _ _ Veq); [apply Jc_eval; exact Hs|]. intros s x y E; unfold Veq in E; subst. apply Jc_ret; intro; reflexivity.
Qed.

(* one transition, on contexts that differ at __state only *)
Lemma jc_process_transition : forall t route idx ts c1 c2 e, sim c1 c2 ->
  Jc Veq (process_transition ev t route idx ts c1 e) (process_transition ev t route idx ts c2 e).
Proof.
  intros t route idx ts c1 c2 e Hs. unfold process_transition. cbv zeta.
  eapply (Jc_bind _ _ Veq).
  - apply Jc_try_catch.
    + eapply (Jc_bind _ _ Veq); [apply Jc_mapM_eq; intro cr; apply Jc_eval; exact Hs|].
      intros s x y E; unfold Veq in E; subst x. jcw.
    + intro x. jcw.
  - intros s x y E; unfold Veq in E; subst x. destruct y as [[|]|]; try (apply Jc_ret; intro; reflexivity).
    eapply (Jc_bind _ _ Veq); [apply jc_finalize_context; exact Hs|].
    intros s0 x y E; unfold Veq in E; subst x. destruct y as [new_ctx errors]. destruct errors as [|x0 errs]; jcw.
Qed.


(* ---- the pieces of update_task_state ---- *)
Lemma jc_need_staged : forall s0, Jc Veq (uts_need_staged s0) (uts_need_staged s0).
Proof. intros; unfold uts_need_staged; jcw. Qed.
Hint Resolve jc_need_staged : presjc.
Lemma jc_sel1 : forall t s0 e0, Jc Veq (uts_sel1 ev t s0 e0) (uts_sel1 ev t s0 e0).
Proof. intros; unfold uts_sel1; jcw. Qed.
Hint Resolve jc_sel1 : presjc.
Lemma jc_sel2 : forall t evt s0 r1 j, Jc Veq (uts_sel2 ev t evt s0 r1 j) (uts_sel2 ev t evt s0 r1 j).
Proof. intros; unfold uts_sel2; jcw. Qed.
Hint Resolve jc_sel2 : presjc.
Lemma jc_unstage : forall t route evt s0, Jc Veq (uts_unstage t route evt s0) (uts_unstage t route evt s0).
Proof. intros; unfold uts_unstage; jcw. Qed.
Hint Resolve jc_unstage : presjc.
Lemma jc_item : forall t route evt s0, Jc Veq (uts_item t route evt s0) (uts_item t route evt s0).
Proof. intros; unfold uts_item; jcw. Qed.
Hint Resolve jc_item : presjc.
Lemma jc_logfail : forall t evt, Jc Veq (uts_logfail t evt) (uts_logfail t evt).
Proof. intros; unfold uts_logfail; jcw. Qed.
Hint Resolve jc_logfail : presjc.
Lemma jc_setst : forall idx ns, Jc Veq (uts_setst idx ns) (uts_setst idx ns).
Proof. intros; unfold uts_setst; jcw. Qed.
Hint Resolve jc_setst : presjc.
Lemma jc_retrying : forall t route idx r ns, Jc Veq (uts_retrying t route idx r ns) (uts_retrying t route idx r ns).
Proof. intros; unfold uts_retrying; jcw. Qed.
Hint Resolve jc_retrying : presjc.


Lemma Jc_ensure_ws : Jc Veq (ensure_ws ev) (ensure_ws ev).
Proof.
  intros s a Hi Hp. assert (Hi' : c_init (so s a) = true) by exact Hi.
  rewrite (ensure_ws_inited ev a Hi), (ensure_ws_inited ev (so s a) Hi'). exists s. cbn. repeat split; auto.
Qed.

Lemma jc_queue : forall t route idx ts old new c1 c2, compl_sim c1 c2 ->
  Jc Veq (uts_queue ev t route idx ts old new c1) (uts_queue ev t route idx ts old new c2).
Proof.
  intros t route idx ts old new c1 c2 Hc. unfold uts_queue.
  destruct c1 as [[x1 b1]|], c2 as [[x2 b2]|]; cbn in Hc; try contradiction; [|apply Jc_ret; intro; reflexivity].
  destruct Hc as [Hs _]. destruct (negb (status_eqb new old)); [|apply Jc_ret; intro; reflexivity].
  eapply Jc_bind; [apply Jc_get|]. intros s1 cc1 cc2 [E [Pc Ic]]; subst cc1. jnorm.
  eapply (Jc_bind _ _ Veq); [jcw|]. intros s2 u u' _.
  eapply (Jc_bind _ _ Veq); [apply Jc_mapM_eq; intro e; apply jc_process_transition; exact Hs|].
  intros s3 rs rs' E; unfold Veq in E; subst rs'. jcw.
Qed.


(* ---- a judgement with a precondition on the plain state ---- *)
Definition Jcq {A} (Q : cstate -> Prop) (VR : status -> A -> A -> Prop) (m1 m2 : M A) : Prop :=
  forall s a, c_init a = true -> PairF s (wstatus (c_ws a)) -> Q a ->
    exists s', fst (m1 (so s a)) = so s' (fst (m2 a)) /\
               c_init (fst (m2 a)) = true /\ PairF s' (wstatus (c_ws (fst (m2 a)))) /\
               rrel (VR s') (snd (m1 (so s a))) (snd (m2 a)).

Lemma Jcq_of_Jc : forall A (Q : cstate -> Prop) (VR : status -> A -> A -> Prop) m1 m2, Jc VR m1 m2 -> Jcq Q VR m1 m2.
Proof. intros A Q VR m1 m2 H s a Hi Hp _. exact (H s a Hi Hp). Qed.

Lemma Jcq_weaken_pre : forall A (Q Q' : cstate -> Prop) (VR : status -> A -> A -> Prop) m1 m2,
  (forall a, Q' a -> Q a) -> Jcq Q VR m1 m2 -> Jcq Q' VR m1 m2.
Proof. intros A Q Q' VR m1 m2 H Hm s a Hi Hp Hq. exact (Hm s a Hi Hp (H a Hq)). Qed.

(* bind, the continuation learning how the plain run of the first part went *)
Lemma Jcq_bind_run : forall A B (Q : cstate -> Prop) (Q' : A -> cstate -> Prop)
  (VR1 : status -> A -> A -> Prop) (VR2 : status -> B -> B -> Prop) (m1 m2 : M A) (f1 f2 : A -> M B),
  Jcq Q VR1 m1 m2 -> (forall a a1 y, Q a -> m2 a = (a1, Val y) -> Q' y a1) ->
  (forall s x y, VR1 s x y -> Jcq (Q' y) VR2 (f1 x) (f2 y)) -> Jcq Q VR2 (bind m1 f1) (bind m2 f2).
Proof.
  intros A B Q Q' VR1 VR2 m1 m2 f1 f2 Hm Hq Hf s a Hi Hp HQ. unfold bind.
  destruct (Hm s a Hi Hp HQ) as [s1 [E1 [I1 [P1 R1]]]].
  destruct (m2 a) as [a1 r2] eqn:E2. destruct (m1 (so s a)) as [b1 r1]. cbn [fst snd] in *. subst b1.
  destruct r1 as [x|e1], r2 as [y|e2]; cbn in R1; try contradiction.
  - destruct (Hf s1 x y R1 s1 a1 I1 P1 (Hq a a1 y HQ E2)) as [s2 [E3 [I2 [P2 R2]]]]. exists s2. repeat split; assumption.
  - subst e2. exists s1. cbn. repeat split; auto.
Qed.

Lemma Jcq_assume : forall A (P : Prop) (Q : cstate -> Prop) (VR : status -> A -> A -> Prop) m1 m2,
  (P -> Jcq Q VR m1 m2) -> Jcq (fun a => Q a /\ P) VR m1 m2.
Proof. intros A P Q VR m1 m2 H s a Hi Hp [Hq HP]. exact (H HP s a Hi Hp Hq). Qed.

(* ---- the record the call works on carries no retry policy: the retry gate is moot ---- *)
Definition NR (idx : nat) (a : cstate) : Prop :=
  exists r, nth_error (sequence (c_ws a)) idx = Some r /\ r_retry r = None.

Definition compl_nf (c1 c2 : option (dict * bool)) : Prop :=
  compl_sim c1 c2 /\ (forall x b, c2 = Some (x, b) -> b = false).

Lemma seq_remove_staged : forall w t r, sequence (ws_remove_staged_task w t r) = sequence w.
Proof.
  intros. unfold ws_remove_staged_task. destruct (get_staged_task w t r) as [s|]; [|reflexivity].
  destruct (items_any_active s); reflexivity.
Qed.

Lemma evaluate_task_retry_none : forall r ctx, r_retry r = None -> evaluate_task_retry ev r ctx = ret false.
Proof. intros r ctx H. unfold evaluate_task_retry. rewrite H. reflexivity. Qed.

Lemma jcq_completion : forall t route evt ts idx new old,
  Jcq (NR idx) (Vconst compl_nf) (uts_completion ev t route evt ts idx new old) (uts_completion ev t route evt ts idx new old).
Proof.
  intros t route evt ts idx new old. unfold uts_completion.
  destruct (status_in new COMPLETED_STATUSES).
  2: { apply Jcq_of_Jc. apply Jc_ret. intro. split; [exact I|]. intros x b H; discriminate H. }
  eapply (Jcq_bind_run _ _ _ (fun _ => NR idx) Veq).
  { apply Jcq_of_Jc. jcw. }
  { intros a a1 y [r [Hn Hr]] H. exists r. split; [|exact Hr].
    destruct (negb (task_has_items ts && status_in new ABENDED_STATUSES)).
    - unfold modws in H. inversion H; subst. cbn [c_ws set_ws]. rewrite seq_remove_staged. exact Hn.
    - unfold bind, getws in H. destruct (get_staged_task (c_ws a) t route); [|discriminate H].
      unfold modws in H. inversion H; subst. exact Hn. }
  intros s0 u1 u2 _. cbv zeta.
  eapply (Jcq_bind_run _ _ _ (fun r a1 => True /\ r_retry r = None) Veq).
  { apply Jcq_of_Jc. apply jc_get_rec. }
  { intros a a1 y [r [Hn Hr]] H. apply get_rec_inv in H. destruct H as [-> Hy]. rewrite Hn in Hy. inversion Hy; subst y.
    split; [exact I|exact Hr]. }
  intros s1 r r' E; unfold Veq in E; subst r'. apply (Jcq_assume _ _ (fun _ => True)). intro Hr. apply Jcq_of_Jc.
  eapply (Jc_bind _ _ Veq); [apply jc_get_task_context|]. intros s2 in_ctx in_ctx' E; unfold Veq in E; subst in_ctx'.
  eapply Jc_bind; [apply Jc_getws|]. intros s3 w1 w2 [E Pw]; subst w1.
  rewrite !(evaluate_task_retry_none r _ Hr).
  eapply (Jc_bind _ _ (Vconst (fun x y : bool => x = y /\ y = false))).
  - apply Jc_try_catch.
    + match goal with |- Jc _ (if ?g1 then _ else _) (if ?g2 then _ else _) => destruct g1, g2 end;
        apply Jc_ret; intro; split; reflexivity.
    + intro x. eapply (Jc_bind _ _ Veq); [apply jc_log_error|]. intros s4 u3 u4 _.
      eapply (Jc_bind _ _ Veq); [apply Jc_rsc_failed|]. intros s5 u5 u6 _. apply Jc_ret; intro; split; reflexivity.
  - intros s4 b b' [E Eb]; subst b b'.
    apply Jc_ret. intro. split; [split; [apply sim_state_ctx|reflexivity]|].
    intros x0 b0 H; inversion H; subst. reflexivity.
Qed.

Definition pre_nf (p1 p2 : pre_out) : Prop :=
  pre_sim p1 p2 /\ (forall x b, po_compl p2 = Some (x, b) -> b = false).

Lemma jcq_pre_machine : forall t route evt ts idx,
  Jcq (NR idx) (Vconst pre_nf) (pre_machine ev t route evt ts idx) (pre_machine ev t route evt ts idx).
Proof.
  intros t route evt ts idx. unfold pre_machine.
  eapply (Jcq_bind_run _ _ _ (fun r a1 => nth_error (sequence (c_ws a1)) idx = Some r /\ r_retry r = None) Veq).
  { apply Jcq_of_Jc. apply jc_get_rec. }
  { intros a a1 y [r [Hn Hr]] H. apply get_rec_inv in H. destruct H as [-> Hy]. rewrite Hn in Hy. inversion Hy; subst y.
    split; assumption. }
  intros s0 r r' E; unfold Veq in E; subst r'.
  eapply (Jcq_bind_run _ _ _ (fun _ a1 => nth_error (sequence (c_ws a1)) idx = Some r /\ r_retry r = None)).
  { apply Jcq_of_Jc. apply Jc_getws. }
  { intros a a1 y Hq H. unfold getws in H. inversion H; subst. exact Hq. }
  intros s1 w1 w2 [E Pw]; subst w1. rewrite q_tpe_so.
  eapply (Jcq_bind_run _ _ _ (fun _ a1 => nth_error (sequence (c_ws a1)) idx = Some r /\ r_retry r = None) Veq).
  { apply Jcq_of_Jc. apply Jc_lift_res; intro; destruct (task_process_event w2 r evt); cbn; reflexivity. }
  { intros a a1 y Hq H. apply lift_res_inv in H. destruct H as [-> _]. exact Hq. }
  intros s2 ns ns' E; unfold Veq in E; subst ns'.
  eapply (Jcq_bind_run _ _ _ (fun _ a1 => nth_error (sequence (c_ws a1)) idx = Some (stepped r ns) /\ r_retry r = None) Veq).
  { apply Jcq_of_Jc. apply jc_setst. }
  { intros a a1 y [Hn Hr] H. destruct (setst_inv _ _ _ _ _ _ H Hn) as [_ [_ [_ Hn']]]. split; [exact Hn'|exact Hr]. }
  intros s3 u u' _.
  eapply (Jcq_bind_run _ _ _ (fun r1 a1 => (nth_error (sequence (c_ws a1)) idx = Some r1 /\ r_retry r1 = None)) Veq).
  { apply Jcq_of_Jc. apply jc_get_rec. }
  { intros a a1 y [Hn Hr] H. apply get_rec_inv in H. destruct H as [-> Hy]. rewrite Hn in Hy. inversion Hy; subst y.
    split; [exact Hn|]. rewrite stepped_retry. exact Hr. }
  intros s4 r1 r1' E; unfold Veq in E; subst r1'.
  eapply (Jcq_bind_run _ _ _ (fun _ a1 => NR idx a1) Veq).
  { apply Jcq_of_Jc. apply jc_retrying. }
  { intros a a1 y [Hn Hr] H. exists r1. unfold uts_retrying in H.
    destruct (status_eqb (rstatus r1) S_RETRYING).
    - rewrite Hr in H. discriminate H.
    - inversion H; subst. split; assumption. }
  intros s5 u1 u1' _.
  eapply (Jcq_bind_run _ _ _ (fun _ _ => True)); [apply jcq_completion|trivial|].
  intros s6 c1 c2 [Hc Hf]. apply Jcq_of_Jc. apply Jc_ret. intro. split; [repeat split; assumption|exact Hf].
Qed.

(* the calls delivering an engine command: the record is fresh, and without retry policy when the graph has none for it *)
Definition cmd_pre (t : string) (a : cstate) : Prop :=
  is_engine_command t = true /\ g_task_has_retry (c_graph a) t = false.

Lemma jcq_pre_main : forall t route evt ts s0 e0,
  Jcq (fun a => cmd_pre t a /\ (forall s, s0 = Some s -> s_route s = route) /\ e0 = ws_task_idx (c_ws a) t route)
      (Vconst pre_nf) (pre_main ev t route evt ts s0 e0) (pre_main ev t route evt ts s0 e0).
Proof.
  intros t route evt ts s0 e0. unfold pre_main.
  set (Q0 := fun a => cmd_pre t a /\ (forall s, s0 = Some s -> s_route s = route) /\ e0 = ws_task_idx (c_ws a) t route).
  eapply (Jcq_bind_run _ _ _ (fun i1 a1 => exists a0, Q0 a0 /\ uts_sel1 ev t s0 e0 a0 = (a1, Val i1)) Veq).
  { apply Jcq_of_Jc. apply jc_sel1. }
  { intros a a1 y Hq H. exists a. split; assumption. }
  intros s1 i1 i1' E; unfold Veq in E; subst i1'.
  eapply (Jcq_bind_run _ _ _ (fun r1 a1 => (exists a0, Q0 a0 /\ uts_sel1 ev t s0 e0 a0 = (a1, Val i1)) /\
                                           nth_error (sequence (c_ws a1)) i1 = Some r1) Veq).
  { apply Jcq_of_Jc. apply jc_get_rec. }
  { intros a a1 y Hq H. apply get_rec_inv in H. destruct H as [-> Hy]. split; assumption. }
  intros s2 r1 r1' E; unfold Veq in E; subst r1'.
  eapply (Jcq_bind_run _ _ _ (fun i a2 => exists a0 a1, Q0 a0 /\ uts_sel1 ev t s0 e0 a0 = (a1, Val i1) /\
                                           nth_error (sequence (c_ws a1)) i1 = Some r1 /\
                                           uts_sel2 ev t evt s0 r1 i1 a1 = (a2, Val i) /\ Rk a2 a2) Veq).
  { apply Jcq_of_Jc. apply jc_sel2. }
  { intros a a1 y [[a0 [Hq0 E1]] Hr1] H. exists a0, a. split; [exact Hq0|]. split; [exact E1|]. split; [exact Hr1|]. split; [exact H|apply Rk_refl]. }
  intros s3 i i' E; unfold Veq in E; subst i'.
  (* unstage, item, logfail keep the records and the pointers *)
  assert (Step : forall (m : M unit), preserves Rk m -> Jc Veq m m ->
            forall (k1 k2 : M pre_out),
            Jcq (fun a5 => exists a0 a1 a2, Q0 a0 /\ uts_sel1 ev t s0 e0 a0 = (a1, Val i1) /\
                             nth_error (sequence (c_ws a1)) i1 = Some r1 /\
                             uts_sel2 ev t evt s0 r1 i1 a1 = (a2, Val i) /\ Rk a2 a5) (Vconst pre_nf) k1 k2 ->
            Jcq (fun a5 => exists a0 a1 a2, Q0 a0 /\ uts_sel1 ev t s0 e0 a0 = (a1, Val i1) /\
                             nth_error (sequence (c_ws a1)) i1 = Some r1 /\
                             uts_sel2 ev t evt s0 r1 i1 a1 = (a2, Val i) /\ Rk a2 a5) (Vconst pre_nf)
                (m ;;; k1) (m ;;; k2)).
  { intros m Hk Hm k1 k2 Hkk.
    eapply (Jcq_bind_run _ _ _ (fun _ a5 => exists a0 a1 a2, Q0 a0 /\ uts_sel1 ev t s0 e0 a0 = (a1, Val i1) /\
                             nth_error (sequence (c_ws a1)) i1 = Some r1 /\
                             uts_sel2 ev t evt s0 r1 i1 a1 = (a2, Val i) /\ Rk a2 a5) Veq).
    - apply Jcq_of_Jc. exact Hm.
    - intros a a' y [a0 [a1 [a2 [H0 [H1 [H2 [H3 H4]]]]]]] H. exists a0, a1, a2. repeat (split; [assumption|]).
      eapply Rk_trans; [exact H4|]. eapply Hk; exact H.
    - intros. exact Hkk. }
  eapply Jcq_weaken_pre.
  2: { apply Step; [apply pk_unstage|apply jc_unstage|]. apply Step; [apply pk_item|apply jc_item|].
       apply Step; [apply pk_logfail|apply jc_logfail|].
       eapply Jcq_weaken_pre; [|apply jcq_pre_machine].
       intros a5 [a0 [a1 [a2 [[[Hc Hg] [Hroute He0]] [E1 [Hr1 [E2 K]]]]]]].
       destruct (select_inv ev t route evt s0 e0 a0 a1 i1 r1 a2 i a5 Hroute He0 E1 Hr1 E2 K) as [r [Hn [_ [[_ [Hf _]]|[_ [_ Hnr]]]]]].
       - rewrite Hc in Hf. discriminate Hf.
       - exists r. split; [exact Hn|]. apply Hnr. exact Hg. }
  intros a5 [a0 [a1 [H0 [H1 [H2 [H3 H4]]]]]]. exists a0, a1, a5. repeat (split; [assumption|]). assumption.
Qed.

Lemma jcq_prefix : forall t route evt,
  Jcq (cmd_pre t) (Vconst pre_nf) (uts_prefix ev t route evt) (uts_prefix ev t route evt).
Proof.
  intros t route evt. unfold uts_prefix.
  eapply (Jcq_bind_run _ _ _ (fun _ a1 => cmd_pre t a1) Veq).
  { apply Jcq_of_Jc. apply Jc_ensure_ws. }
  { intros a a1 y Hq H. assert (G : c_graph a1 = c_graph a) by (eapply pg_ensure_ws; exact H).
    unfold cmd_pre in *. rewrite G. exact Hq. }
  intros s0 u u' _.
  eapply (Jcq_bind_run _ _ _ (fun c a1 => cmd_pre t a1 /\ c = a1)).
  { apply Jcq_of_Jc. apply Jc_get. }
  { intros a a1 y Hq H. unfold get in H. inversion H; subst. split; [exact Hq|reflexivity]. }
  intros s1 c1 c2 [E [Pc Ic]]; subst c1. jnorm.
  destruct (negb (g_has_task (c_graph c2) t)); [apply Jcq_of_Jc; apply Jc_raise|].
  eapply (Jcq_bind_run _ _ _ (fun _ a1 => cmd_pre t a1 /\ c2 = a1) Veq).
  { apply Jcq_of_Jc. destruct (spec_get_task (c_spec c2) t); [apply Jc_ret; intro; reflexivity|apply Jc_raise]. }
  { intros a a1 y Hq H. destruct (spec_get_task (c_spec c2) t); inversion H; subst. exact Hq. }
  intros s2 ts ts' E; unfold Veq in E; subst ts'.
  destruct (get_staged_task (c_ws c2) t route) as [sg|] eqn:Eg, (ws_task_idx (c_ws c2) t route) as [ix|] eqn:Ei;
    try (eapply Jcq_weaken_pre; [|apply jcq_pre_main];
         intros a [Hc <-]; split; [exact Hc|]; split;
         [intros s Hs; first [inversion Hs; subst; apply (get_staged_matches _ _ _ _ Eg)|discriminate Hs]
         |symmetry; exact Ei]).
  apply Jcq_of_Jc. apply Jc_raise.
Qed.

(* ================================================================== the end of a call, for any failable pair *)

Definition failable_b (y : status) : bool :=
  match tbl_step wf_table y "workflow_failed" with Some z => status_eqb z S_FAILED | None => false end
  && negb (status_eqb y S_FAILED).
Lemma failable_b_ok : forall y, failable_b y = true -> failable y.
Proof.
  intros y H. unfold failable_b in H. apply andb_prop in H. destruct H as [H1 H2]. split.
  - destruct (tbl_step wf_table y "workflow_failed") as [z|]; [|discriminate H1]. apply status_eqb_eq in H1. subst z. reflexivity.
  - intro E. subst y. discriminate H2.
Qed.

(* every status the workflow machine can move to is completed or can still be failed *)
Lemma F_targets : forall s e y, tbl_step wf_table s e = Some y -> done y = true \/ failable y.
Proof.
  intros s e y H.
  assert (T : table_forall wf_table (fun _ _ y => done y || failable_b y) = true) by (vm_compute; reflexivity).
  pose proof (table_forall_step _ _ T _ _ _ H) as P. cbv beta in P.
  destruct (done y); [left; reflexivity|right; apply failable_b_ok; exact P].
Qed.

Lemma failable_row : forall y, failable y -> exists r, tbl_row wf_table y = Some r.
Proof.
  intros y [H _]. unfold tbl_step in H. destruct (tbl_row wf_table y) as [r|]; [exists r; reflexivity|discriminate H].
Qed.

(* what the two runs leave: equal up to status, terminal flags and error log; EQUAL when the statuses are;
   and differing by the status alone while neither has completed the workflow *)
Definition Tri (b a : cstate) : Prop :=
  c_init a = true /\ strip_tl b = strip_tl a /\
  (wstatus (c_ws b) = wstatus (c_ws a) -> b = a) /\
  (done (wstatus (c_ws b)) = false -> done (wstatus (c_ws a)) = false ->
     b = so (wstatus (c_ws b)) a /\ PairF (wstatus (c_ws b)) (wstatus (c_ws a))).

Lemma Tri_so : forall s a, c_init a = true -> PairF s (wstatus (c_ws a)) -> Tri (so s a) a.
Proof.
  intros s a Hi Hp. split; [exact Hi|]. split; [apply strip_tl_so|]. split.
  - intro E. change (wstatus (c_ws (so s a))) with s in E. subst s. apply so_same.
  - intros _ _. split; [reflexivity|exact Hp].
Qed.

Lemma Tri_refl : forall a, c_init a = true -> Tri a a.
Proof. intros a Hi. rewrite <- (so_same a) at 1. apply Tri_so; [exact Hi|left; reflexivity]. Qed.

(* the unreachable-join check does not look at the status it is given, beyond passing it on *)
Lemma adj_cases : forall g w n,
  adj g w n = (n, []) \/ (done n = true /\ n <> S_CANCELED /\ exists l, l <> [] /\ adj g w n = (S_FAILED, l) /\
                          forall n', done n' = true -> n' <> S_CANCELED -> adj g w n' = (S_FAILED, l)).
Proof.
  intros g w n. unfold adj. destruct (status_in n COMPLETED_STATUSES && negb (status_eqb n S_CANCELED)) eqn:E; [|left; reflexivity].
  apply andb_prop in E. destruct E as [E1 E2]. unfold fail_on_unreachable.
  change (get_unreachable_barriers g (ws_set_status w n)) with (get_unreachable_barriers g w).
  change (wstatus (ws_set_status w n)) with n.
  destruct (get_unreachable_barriers g w) as [|x l] eqn:U; [left; reflexivity|].
  right. split; [exact E1|]. split; [intro X; subst n; discriminate E2|]. exists (x :: l). split; [discriminate|]. split; [reflexivity|].
  intros n' D1 D2. unfold done in D1. rewrite D1.
  assert (X : negb (status_eqb n' S_CANCELED) = true).
  { destruct (status_eqb n' S_CANCELED) eqn:Y; [apply status_eqb_eq in Y; contradiction|reflexivity]. }
  rewrite X. cbn [andb]. unfold fail_on_unreachable.
  change (get_unreachable_barriers g (ws_set_status w n')) with (get_unreachable_barriers g w). rewrite U. reflexivity.
Qed.

Lemma adj_fst_open : forall g w n, done (fst (adj g w n)) = false -> adj g w n = (n, []) /\ done n = false.
Proof.
  intros g w n H. destruct (done n) eqn:D.
  - unfold done in H. rewrite (adj_closed g w n D) in H. discriminate H.
  - split; [apply adj_open; exact D|reflexivity].
Qed.

Lemma adj_fst_inj : forall g w n1 n2, fst (adj g w n1) = fst (adj g w n2) -> adj g w n1 = adj g w n2.
Proof.
  intros g w n1 n2 H.
  destruct (adj_cases g w n1) as [A1|[D1 [C1 [l1 [L1 [A1 X1]]]]]], (adj_cases g w n2) as [A2|[D2 [C2 [l2 [L2 [A2 X2]]]]]].
  - rewrite A1, A2 in H |- *. cbn in H. subst. reflexivity.
  - rewrite A1, A2 in H. cbn [fst] in H. subst n1.
    (* n1 = failed: completed and not canceled, so it is failed by the same joins *)
    assert (Z : adj g w S_FAILED = (S_FAILED, l2)) by (apply X2; [reflexivity|discriminate]).
    rewrite A1 in Z. inversion Z; subst l2. contradiction.
  - rewrite A1, A2 in H. cbn [fst] in H. subst n2.
    assert (Z : adj g w S_FAILED = (S_FAILED, l1)) by (apply X1; [reflexivity|discriminate]).
    rewrite A2 in Z. inversion Z; subst l1. contradiction.
  - rewrite A1. rewrite (X1 n2 D2 C2). reflexivity.
Qed.

Lemma adj_fst_plain : forall g w n y, y <> S_FAILED -> fst (adj g w n) = y -> adj g w n = (y, []).
Proof.
  intros g w n y Hy H. destruct (adj_cases g w n) as [A|[_ [_ [l [_ [A _]]]]]]; rewrite A in H |- *; cbn [fst] in H; subst.
  - reflexivity.
  - contradiction.
Qed.

Lemma wf_end_Tri : forall t route idx st s a, c_init a = true -> PairF s (wstatus (c_ws a)) ->
  snd (wf_end t route idx st (so s a)) = snd (wf_end t route idx st a) /\
  Tri (fst (wf_end t route idx st (so s a))) (fst (wf_end t route idx st a)).
Proof.
  intros t route idx st s a Hi Hp. destruct (status_eqb s (wstatus (c_ws a))) eqn:Es.
  { apply status_eqb_eq in Es. subst s. rewrite so_same. split; [reflexivity|]. apply Tri_refl.
    rewrite <- Hi. apply strip_tl_init. rewrite wf_end_run. cbv zeta.
    destruct (negb _); [reflexivity|]. destruct (tbl_row wf_table (wstatus (c_ws a))); [|reflexivity].
    cbn [fst]. apply land_strip. }
  assert (Hne : s <> wstatus (c_ws a)) by (intro E; subst; rewrite status_eqb_refl in Es; discriminate).
  destruct Hp as [E|[Fs Fx]]; [contradiction|].
  destruct (failable_row _ Fs) as [r2 R2]. destruct (failable_row _ Fx) as [r1 R1].
  rewrite !wf_end_run. cbv zeta. change (c_graph (so s a)) with (c_graph a).
  change (c_ws (so s a)) with (ws_set_status (c_ws a) s). rewrite q_wfname_so.
  change (wstatus (ws_set_status (c_ws a) s)) with s.
  set (evn := wf_task_event_name (c_graph a) (c_ws a) t route st).
  destruct (negb (string_in evn TASK_EXECUTION_EVENTS)) eqn:Ev.
  { cbn [fst snd]. split; [reflexivity|apply Tri_so; [exact Hi|right; split; assumption]]. }
  rewrite R1, R2. cbn [fst snd]. split; [reflexivity|]. rewrite land_so.
  set (pb := match aget String.eqb evn r2 with Some new => adj (c_graph a) (ws_set_status (c_ws a) s) new | None => (s, []) end).
  set (pa := match aget String.eqb evn r1 with Some new => adj (c_graph a) (c_ws a) new | None => (wstatus (c_ws a), []) end).
  assert (Sb : tbl_step wf_table s evn = aget String.eqb evn r2) by (unfold tbl_step; rewrite R2; reflexivity).
  assert (Sa : tbl_step wf_table (wstatus (c_ws a)) evn = aget String.eqb evn r1) by (unfold tbl_step; rewrite R1; reflexivity).
  (* what is known of the two answers *)
  assert (Kb : (done (fst pb) = false -> pb = (fst pb, []) /\ failable (fst pb))).
  { unfold pb. destruct (aget String.eqb evn r2) as [nb|] eqn:A2.
    - rewrite adj_so. intro D. destruct (adj_fst_open _ _ _ D) as [A Dn]. rewrite A. cbn [fst]. split; [reflexivity|].
      destruct (F_targets _ _ _ Sb) as [X|X]; [rewrite Dn in X; discriminate X|exact X].
    - intros _. split; [reflexivity|exact Fs]. }
  assert (Ka : (done (fst pa) = false -> pa = (fst pa, []) /\ failable (fst pa))).
  { unfold pa. destruct (aget String.eqb evn r1) as [na|] eqn:A1.
    - intro D. destruct (adj_fst_open _ _ _ D) as [A Dn]. rewrite A. cbn [fst]. split; [reflexivity|].
      destruct (F_targets _ _ _ Sa) as [X|X]; [rewrite Dn in X; discriminate X|exact X].
    - intros _. split; [reflexivity|exact Fx]. }
  assert (Keq : fst pb = fst pa -> pb = pa).
  { unfold pb, pa. destruct (aget String.eqb evn r2) as [nb|], (aget String.eqb evn r1) as [na|]; rewrite ?adj_so; cbn [fst].
    - apply adj_fst_inj.
    - intro H. apply adj_fst_plain; [destruct Fx; assumption|exact H].
    - intro H. symmetry. apply adj_fst_plain; [destruct Fs; assumption|symmetry; exact H].
    - intro H. contradiction. }
  split; [rewrite <- Hi; apply strip_tl_init; apply land_strip|]. split; [rewrite !land_strip; reflexivity|]. split.
  - rewrite !land_status. intro H. rewrite (Keq H). reflexivity.
  - rewrite !land_status. intros Db Da. destruct (Kb Db) as [Eb Fb]. destruct (Ka Da) as [Ea Fa].
    rewrite Eb, Ea. unfold done in Db, Da. rewrite !land_open by assumption.
    change (wstatus (c_ws (so (fst pb) a))) with (fst pb). rewrite so_so. split; [reflexivity|].
    change (wstatus (c_ws (so (fst pa) a))) with (fst pa). right; split; assumption.
Qed.

(* ---- the final judgement over failable pairs ---- *)
Definition Jt (Q : cstate -> Prop) (m1 m2 : M unit) : Prop :=
  forall s a, c_init a = true -> PairF s (wstatus (c_ws a)) -> Q a ->
    snd (m1 (so s a)) = snd (m2 a) /\ Tri (fst (m1 (so s a))) (fst (m2 a)).

Lemma Jt_bind_run : forall A (Q : cstate -> Prop) (Q' : A -> cstate -> Prop) (VR : status -> A -> A -> Prop)
  (m1 m2 : M A) (f1 f2 : A -> M unit),
  Jcq Q VR m1 m2 -> (forall a a1 y, Q a -> m2 a = (a1, Val y) -> Q' y a1) ->
  (forall s x y, VR s x y -> Jt (Q' y) (f1 x) (f2 y)) -> Jt Q (bind m1 f1) (bind m2 f2).
Proof.
  intros A Q Q' VR m1 m2 f1 f2 Hm Hq Hf s a Hi Hp HQ. unfold bind.
  destruct (Hm s a Hi Hp HQ) as [s1 [E1 [I1 [P1 R1]]]].
  destruct (m2 a) as [a1 r2] eqn:E2. destruct (m1 (so s a)) as [b1 r1]. cbn [fst snd] in *. subst b1.
  destruct r1 as [x|e1], r2 as [y|e2]; cbn in R1; try contradiction.
  - apply (Hf s1 x y R1 s1 a1 I1 P1 (Hq a a1 y HQ E2)).
  - subst e2. cbn [fst snd]. split; [reflexivity|apply Tri_so; assumption].
Qed.

Lemma wf_end_Jt : forall Q t route idx st, Jt Q (wf_end t route idx st) (wf_end t route idx st).
Proof. intros Q t route idx st s a Hi Hp _. apply wf_end_Tri; assumption. Qed.

(* THE CALL DELIVERING AN ENGINE COMMAND, from any failable pair of statuses *)
Definition cmd_inert (t : string) (a : cstate) : Prop :=
  cmd_pre t a /\ g_next_transitions (c_graph a) t = [].

Lemma cmd_call : forall (rec : string -> nat -> event -> M unit) t route evt,
  Jt (cmd_inert t) (uts_body ev rec t route evt) (uts_body ev rec t route evt).
Proof.
  intros rec t route evt s a Hi Hp Hq. rewrite !body_eq.
  refine (Jt_bind_run _ (cmd_inert t) (fun _ a1 => g_next_transitions (c_graph a1) t = []) (Vconst pre_nf) _ _ _ _ _ _ _ s a Hi Hp Hq).
  - eapply Jcq_weaken_pre; [|apply jcq_prefix]. intros a0 [H _]; exact H.
  - intros a0 a1 y [_ H0] H. rewrite (pg_prefix ev t route evt _ _ _ H). exact H0.
  - intros s0 p1 p2 [[E1 [E2 [E3 [E4 Hc]]]] Hf]. unfold tail_of. rewrite E1, E2, E3, E4.
    generalize (po_ts p2) (po_idx p2) (po_old p2) (po_new p2). intros ts idx old new. unfold uts_tail.
    assert (Common : Jt (fun a1 => g_next_transitions (c_graph a1) t = [])
      (queue <- uts_queue ev t route idx ts old new (po_compl p1) ;;
        r <- get_rec idx ;;
        st <- (match r_status r with Some s => ret s | None => raise (exn_key "status") end) ;;
        unreachable <- wf_task_event_M t route st ;;
        log_unreachable unreachable ;;;
        forM_ queue (uts_call rec) ;;;
        w <- getws ;;
        if status_in (wstatus w) COMPLETED_STATUSES then upd_rec idx (fun r => r_set_term r true) else ret tt)
      (queue <- uts_queue ev t route idx ts old new (po_compl p2) ;;
        r <- get_rec idx ;;
        st <- (match r_status r with Some s => ret s | None => raise (exn_key "status") end) ;;
        unreachable <- wf_task_event_M t route st ;;
        log_unreachable unreachable ;;;
        forM_ queue (uts_call rec) ;;;
        w <- getws ;;
        if status_in (wstatus w) COMPLETED_STATUSES then upd_rec idx (fun r => r_set_term r true) else ret tt)).
    { eapply (Jt_bind_run _ _ (fun q _ => q = []) Veq).
      - apply Jcq_of_Jc. apply jc_queue; exact Hc.
      - intros a0 a1 q H0 H. eapply queue_nil; [exact H|right; exact H0].
      - intros s1 q1 q2 Eq. unfold Veq in Eq. subst q1. intros s2 a2 Hi2 Hp2 Hq2. subst q2.
        cut (Jt (fun _ => True)
          (r <- get_rec idx ;;
           st <- (match r_status r with Some s => ret s | None => raise (exn_key "status") end) ;; wf_end t route idx st)
          (r <- get_rec idx ;;
           st <- (match r_status r with Some s => ret s | None => raise (exn_key "status") end) ;; wf_end t route idx st)).
        { intro JJ. exact (JJ s2 a2 Hi2 Hp2 I). }
        eapply (Jt_bind_run _ _ (fun _ _ => True) Veq); [apply Jcq_of_Jc; apply jc_get_rec|trivial|].
        intros s3 r r' Er. unfold Veq in Er; subst r'.
        eapply (Jt_bind_run _ _ (fun _ _ => True) Veq).
        + apply Jcq_of_Jc. destruct (r_status r); [apply Jc_ret; intro; reflexivity|apply Jc_raise].
        + trivial.
        + intros s4 st st' Est. unfold Veq in Est; subst st'. apply wf_end_Jt. }
    destruct (po_compl p1) as [[x1 b1]|] eqn:C1, (po_compl p2) as [[x2 b2]|] eqn:C2; cbn in Hc; try contradiction.
    + destruct Hc as [_ <-]. rewrite (Hf x2 b1 eq_refl). exact Common.
    + exact Common.
Qed.

(* ================================================================== Part B: the reporting task's call, with a queue *)

(* the workflow-machine step and the closing step, separately (the queue runs between them) *)
Definition wf_mid (t : string) (route : nat) (st : status) : M unit :=
  unreachable <- wf_task_event_M t route st ;; log_unreachable unreachable.
Definition wf_fin (idx : nat) : M unit :=
  w <- getws ;; if status_in (wstatus w) COMPLETED_STATUSES then upd_rec idx (fun r => r_set_term r true) else ret tt.

Definition mid_land (x : cstate) (p : status * list stg) : cstate :=
  fst (log_unreachable (snd p) (set_ws x (ws_set_status (c_ws x) (fst p)))).

Lemma mid_land_eq : forall x p, exists E, mid_land x p = set_errors (set_ws x (ws_set_status (c_ws x) (fst p))) E.
Proof.
  intros x p. unfold mid_land. destruct (log_unreachable_only_errors (snd p) (set_ws x (ws_set_status (c_ws x) (fst p)))) as [E HE].
  rewrite HE. exists E. reflexivity.
Qed.
Lemma mid_land_strip : forall x p, strip_tl (mid_land x p) = strip_tl x.
Proof. intros x p. destruct (mid_land_eq x p) as [E ->]. reflexivity. Qed.
Lemma mid_land_so : forall s x p, mid_land (so s x) p = mid_land x p.
Proof. reflexivity. Qed.
Lemma mid_land_status : forall x p, wstatus (c_ws (mid_land x p)) = fst p.
Proof. intros x p. destruct (mid_land_eq x p) as [E ->]. reflexivity. Qed.
Lemma mid_land_open : forall x n, mid_land x (n, []) = so n x.
Proof. reflexivity. Qed.

Lemma wf_mid_run : forall t route st x,
  wf_mid t route st x =
  let evn := wf_task_event_name (c_graph x) (c_ws x) t route st in
  if negb (string_in evn TASK_EXECUTION_EVENTS) then (x, Exc (exn_invalid_event evn))
  else match tbl_row wf_table (wstatus (c_ws x)) with
       | None => (x, Exc (exn_invalid_wf_transition (wstatus (c_ws x)) evn))
       | Some row => (mid_land x (match aget String.eqb evn row with
                                  | None => (wstatus (c_ws x), [])
                                  | Some new => adj (c_graph x) (c_ws x) new
                                  end), Val tt)
       end.
Proof.
  intros t route st x. cbv zeta.
  unfold wf_mid, bind at 1, wf_task_event_M, wf_process_task_event.
  set (evn := wf_task_event_name (c_graph x) (c_ws x) t route st).
  destruct (negb (string_in evn TASK_EXECUTION_EVENTS)); [reflexivity|].
  destruct (tbl_row wf_table (wstatus (c_ws x))) as [row|]; [|reflexivity].
  assert (K : forall p, log_unreachable (snd p) (set_ws x (ws_set_status (c_ws x) (fst p))) = (mid_land x p, Val tt)).
  { intro p. unfold mid_land. destruct (log_unreachable_only_errors (snd p) (set_ws x (ws_set_status (c_ws x) (fst p)))) as [E HE].
    rewrite HE. reflexivity. }
  destruct (aget String.eqb evn row) as [new|].
  - unfold adj. destruct (status_in new COMPLETED_STATUSES && negb (status_eqb new S_CANCELED)).
    + destruct (fail_on_unreachable (c_graph x) (ws_set_status (c_ws x) new)) as [n u] eqn:E. exact (K (n, u)).
    + exact (K (new, [])).
  - exact (K (wstatus (c_ws x), [])).
Qed.

(* the two answers of the machine, for a failable pair, and what is known of them *)
Lemma two_answers : forall (L : cstate -> status * list stg -> cstate),
  (forall x p, strip_tl (L x p) = strip_tl x) -> (forall x p, wstatus (c_ws (L x p)) = fst p) ->
  (forall x n, done n = false -> L x (n, []) = so n x) ->
  forall a pb pa, c_init a = true ->
  (done (fst pb) = false -> pb = (fst pb, []) /\ failable (fst pb)) ->
  (done (fst pa) = false -> pa = (fst pa, []) /\ failable (fst pa)) ->
  (fst pb = fst pa -> pb = pa) -> Tri (L a pb) (L a pa).
Proof.
  intros L Ls Lst Lo a pb pa Hi Kb Ka Keq.
  split; [rewrite <- Hi; apply strip_tl_init; apply Ls|]. split; [rewrite !Ls; reflexivity|]. split.
  - rewrite !Lst. intro H. rewrite (Keq H). reflexivity.
  - rewrite !Lst. intros Db Da. destruct (Kb Db) as [Eb Fb]. destruct (Ka Da) as [Ea Fa].
    rewrite Eb, Ea. rewrite !Lo by assumption.
    change (wstatus (c_ws (so (fst pb) a))) with (fst pb). rewrite so_so. split; [reflexivity|].
    change (wstatus (c_ws (so (fst pa) a))) with (fst pa). right; split; assumption.
Qed.

Lemma wf_mid_Tri : forall t route st s a, c_init a = true -> PairF s (wstatus (c_ws a)) ->
  snd (wf_mid t route st (so s a)) = snd (wf_mid t route st a) /\
  Tri (fst (wf_mid t route st (so s a))) (fst (wf_mid t route st a)).
Proof.
  intros t route st s a Hi Hp. destruct (status_eqb s (wstatus (c_ws a))) eqn:Es.
  { apply status_eqb_eq in Es. subst s. rewrite so_same. split; [reflexivity|]. apply Tri_refl.
    rewrite <- Hi. apply strip_tl_init. rewrite wf_mid_run. cbv zeta.
    destruct (negb _); [reflexivity|]. destruct (tbl_row wf_table (wstatus (c_ws a))); [|reflexivity].
    cbn [fst]. apply mid_land_strip. }
  assert (Hne : s <> wstatus (c_ws a)) by (intro E; subst; rewrite status_eqb_refl in Es; discriminate).
  destruct Hp as [E|[Fs Fx]]; [contradiction|].
  destruct (failable_row _ Fs) as [r2 R2]. destruct (failable_row _ Fx) as [r1 R1].
  rewrite !wf_mid_run. cbv zeta. change (c_graph (so s a)) with (c_graph a).
  change (c_ws (so s a)) with (ws_set_status (c_ws a) s). rewrite q_wfname_so.
  change (wstatus (ws_set_status (c_ws a) s)) with s.
  set (evn := wf_task_event_name (c_graph a) (c_ws a) t route st).
  destruct (negb (string_in evn TASK_EXECUTION_EVENTS)) eqn:Ev.
  { cbn [fst snd]. split; [reflexivity|apply Tri_so; [exact Hi|right; split; assumption]]. }
  rewrite R1, R2. cbn [fst snd]. split; [reflexivity|]. rewrite mid_land_so.
  assert (Sb : tbl_step wf_table s evn = aget String.eqb evn r2) by (unfold tbl_step; rewrite R2; reflexivity).
  assert (Sa : tbl_step wf_table (wstatus (c_ws a)) evn = aget String.eqb evn r1) by (unfold tbl_step; rewrite R1; reflexivity).
  apply (two_answers mid_land mid_land_strip mid_land_status (fun x n _ => mid_land_open x n)); [exact Hi| | |].
  - destruct (aget String.eqb evn r2) as [nb|] eqn:A2.
    + rewrite adj_so. intro D. destruct (adj_fst_open _ _ _ D) as [A Dn]. rewrite A. cbn [fst]. split; [reflexivity|].
      destruct (F_targets _ _ _ Sb) as [X|X]; [rewrite Dn in X; discriminate X|exact X].
    + intros _. split; [reflexivity|exact Fs].
  - destruct (aget String.eqb evn r1) as [na|] eqn:A1.
    + intro D. destruct (adj_fst_open _ _ _ D) as [A Dn]. rewrite A. cbn [fst]. split; [reflexivity|].
      destruct (F_targets _ _ _ Sa) as [X|X]; [rewrite Dn in X; discriminate X|exact X].
    + intros _. split; [reflexivity|exact Fx].
  - destruct (aget String.eqb evn r2) as [nb|], (aget String.eqb evn r1) as [na|]; rewrite ?adj_so; cbn [fst].
    + apply adj_fst_inj.
    + intro H. apply adj_fst_plain; [destruct Fx; assumption|exact H].
    + intro H. symmetry. apply adj_fst_plain; [destruct Fs; assumption|symmetry; exact H].
    + intro H. contradiction.
Qed.

(* from pausing / resuming against running: when the plain run stays open, so does the other, or they meet *)
Lemma wf_mid_open : forall t route st s a, held_status s -> wstatus (c_ws a) = S_RUNNING ->
  done (wstatus (c_ws (fst (wf_mid t route st a)))) = false ->
  done (wstatus (c_ws (fst (wf_mid t route st (so s a))))) = false \/
  wstatus (c_ws (fst (wf_mid t route st (so s a)))) = wstatus (c_ws (fst (wf_mid t route st a))).
Proof.
  intros t route st s a Hs Hx.
  assert (Ho : done s = false) by (destruct Hs as [->| ->]; reflexivity).
  rewrite !wf_mid_run. cbv zeta. change (c_graph (so s a)) with (c_graph a).
  change (c_ws (so s a)) with (ws_set_status (c_ws a) s). rewrite q_wfname_so.
  change (wstatus (ws_set_status (c_ws a) s)) with s. rewrite Hx.
  set (evn := wf_task_event_name (c_graph a) (c_ws a) t route st).
  destruct (negb (string_in evn TASK_EXECUTION_EVENTS)) eqn:Ev.
  { cbn [fst]. intros _. left. exact Ho. }
  apply negb_false_iff in Ev.
  destruct (tbl_row wf_table S_RUNNING) as [r1|] eqn:R1; [|discriminate R1].
  destruct (tbl_row wf_table s) as [r2|] eqn:R2; [|destruct Hs as [->| ->]; discriminate R2].
  cbn [fst]. rewrite mid_land_so, !mid_land_status.
  assert (S1 : tbl_step wf_table S_RUNNING evn = aget String.eqb evn r1) by (unfold tbl_step; rewrite R1; reflexivity).
  assert (S2 : tbl_step wf_table s evn = aget String.eqb evn r2) by (unfold tbl_step; rewrite R2; reflexivity).
  destruct (aget String.eqb evn r1) as [na|] eqn:A1.
  - intro D. destruct (adj_fst_open _ _ _ D) as [Ea Dn]. rewrite Ea. cbn [fst].
    pose proof (F_pair_running s evn na Hs Ev S1) as P. rewrite S2 in P.
    destruct (aget String.eqb evn r2) as [nb|].
    + rewrite adj_so. destruct P as [E|[[_ Pb]|[Pa _]]].
      * subst nb. right. rewrite Ea. reflexivity.
      * left. rewrite (adj_open _ _ nb Pb). exact Pb.
      * rewrite Dn in Pa. discriminate Pa.
    + left. exact Ho.
  - intros _. destruct (aget String.eqb evn r2) as [nb|] eqn:A2.
    + pose proof (F_pair_held s evn nb Hs Ev S2 S1) as P. left. rewrite adj_so, (adj_open _ _ nb P). exact P.
    + left. exact Ho.
Qed.

(* the closing step keeps the relation *)
Lemma wf_fin_Tri : forall idx b a, Tri b a ->
  snd (wf_fin idx b) = snd (wf_fin idx a) /\ Tri (fst (wf_fin idx b)) (fst (wf_fin idx a)).
Proof.
  intros idx b a [Hi [Hs [He Ho]]]. unfold wf_fin, bind, getws. cbv beta iota.
  destruct (status_eqb (wstatus (c_ws b)) (wstatus (c_ws a))) eqn:Eq.
  { apply status_eqb_eq in Eq. rewrite (He Eq). split; [reflexivity|]. apply Tri_refl.
    destruct (status_in (wstatus (c_ws a)) COMPLETED_STATUSES); [|exact Hi]. exact Hi. }
  assert (Hne : wstatus (c_ws b) <> wstatus (c_ws a)) by (intro E; rewrite E, status_eqb_refl in Eq; discriminate).
  assert (Fb : forall x, snd ((if status_in (wstatus (c_ws x)) COMPLETED_STATUSES then upd_rec idx (fun r => r_set_term r true) else ret tt) x) = Val tt
               /\ strip_tl (fst ((if status_in (wstatus (c_ws x)) COMPLETED_STATUSES then upd_rec idx (fun r => r_set_term r true) else ret tt) x)) = strip_tl x
               /\ wstatus (c_ws (fst ((if status_in (wstatus (c_ws x)) COMPLETED_STATUSES then upd_rec idx (fun r => r_set_term r true) else ret tt) x))) = wstatus (c_ws x)
               /\ (status_in (wstatus (c_ws x)) COMPLETED_STATUSES = false ->
                   fst ((if status_in (wstatus (c_ws x)) COMPLETED_STATUSES then upd_rec idx (fun r => r_set_term r true) else ret tt) x) = x)).
  { intro x. destruct (status_in (wstatus (c_ws x)) COMPLETED_STATUSES).
    - unfold upd_rec, modws. cbn [fst snd]. split; [reflexivity|]. split; [apply strip_tl_term|]. split; [|discriminate].
      cbn [c_ws set_ws]. apply ws_update_rec_status.
    - cbn. repeat split; reflexivity. }
  destruct (Fb b) as [B1 [B2 [B3 B4]]]. destruct (Fb a) as [A1 [A2 [A3 A4]]].
  split; [rewrite B1, A1; reflexivity|]. split; [rewrite (strip_tl_init _ _ A2); exact Hi|].
  split; [rewrite B2, A2; exact Hs|]. split.
  - rewrite B3, A3. intro E. contradiction.
  - rewrite B3, A3. intros Db Da. unfold done in Db, Da. rewrite (B4 Db), (A4 Da). apply Ho; assumption.
Qed.

(* ---- stepping through a mirrored piece by hand ---- *)
Lemma bind_ret_pt : forall A B (x : A) (f : A -> M B) c, bind (ret x) f c = f x c.
Proof. reflexivity. Qed.

Lemma Jp_step : forall A (VR : status -> A -> A -> Prop) (m1 m2 : M A), Jp VR m1 m2 ->
  forall s a, c_init a = true -> PairOK s (wstatus (c_ws a)) ->
  exists s1 a1, c_init a1 = true /\ PairOK s1 (wstatus (c_ws a1)) /\
    ((exists x y, m1 (so s a) = (so s1 a1, Val x) /\ m2 a = (a1, Val y) /\ VR s1 x y) \/
     (exists e, m1 (so s a) = (so s1 a1, Exc e) /\ m2 a = (a1, Exc e))).
Proof.
  intros A VR m1 m2 H s a Hi Hp. destruct (H s a Hi Hp) as [s1 [E [I1 [P1 R]]]].
  destruct (m1 (so s a)) as [b1 r1], (m2 a) as [a1 r2]. cbn [fst snd] in *. subst b1.
  exists s1, a1. split; [exact I1|]. split; [exact P1|].
  destruct r1 as [x|e1], r2 as [y|e2]; cbn in R; try contradiction.
  - left. exists x, y. repeat split; assumption.
  - subst e2. right. exists e1. split; reflexivity.
Qed.

Lemma engine_event_cmd : forall n e, engine_event n = Some e -> is_engine_command n = true.
Proof.
  intros n e H. unfold engine_event in H. unfold is_engine_command, ahas.
  destruct (aget String.eqb n ENGINE_EVENT_MAP) as [[x y]|]; [reflexivity|discriminate H].
Qed.

(* one nested call, from states related by Tri that are not stuck *)
Lemma call_Tri : forall f n rt b a, Tri b a -> graph_commands_inert (c_graph a) ->
  (wstatus (c_ws b) = wstatus (c_ws a) \/ (done (wstatus (c_ws b)) = false /\ done (wstatus (c_ws a)) = false)) ->
  snd (uts_call (update_task_state_fuel ev f) (n, rt) b) = snd (uts_call (update_task_state_fuel ev f) (n, rt) a) /\
  Tri (fst (uts_call (update_task_state_fuel ev f) (n, rt) b)) (fst (uts_call (update_task_state_fuel ev f) (n, rt) a)).
Proof.
  intros f n rt b a [Hi [Hs [He Ho]]] Hg Hc.
  assert (X : exists s, b = so s a /\ PairF s (wstatus (c_ws a))).
  { destruct Hc as [E|[Db Da]].
    - exists (wstatus (c_ws a)). rewrite so_same. split; [apply He; exact E|left; reflexivity].
    - destruct (Ho Db Da) as [E P]. exists (wstatus (c_ws b)). split; assumption. }
  destruct X as [s [-> Hp]]. unfold uts_call.
  destruct (engine_event n) as [e|] eqn:Ee.
  2: { cbn [fst snd]. split; [reflexivity|apply Tri_so; assumption]. }
  destruct f as [|f'].
  - cbn [update_task_state_fuel]. split; [reflexivity|apply Tri_so; assumption].
  - rewrite !uts_unfold. apply cmd_call; [exact Hi|exact Hp|].
    pose proof (engine_event_cmd _ _ Ee) as Hcmd. destruct (Hg n Hcmd) as [G1 G2].
    split; [split; assumption|exact G1].
Qed.

(* the queue: at most one command *)
Lemma loop_Tri : forall f q b a, Tri b a -> graph_commands_inert (c_graph a) -> length q <= 1 ->
  (q <> [] -> wstatus (c_ws b) = wstatus (c_ws a) \/ (done (wstatus (c_ws b)) = false /\ done (wstatus (c_ws a)) = false)) ->
  snd (forM_ q (uts_call (update_task_state_fuel ev f)) b) = snd (forM_ q (uts_call (update_task_state_fuel ev f)) a) /\
  Tri (fst (forM_ q (uts_call (update_task_state_fuel ev f)) b)) (fst (forM_ q (uts_call (update_task_state_fuel ev f)) a)).
Proof.
  intros f q b a HT Hg Hl Hc. destruct q as [|[n rt] [|x q']].
  - cbn. split; [reflexivity|exact HT].
  - cbn [forM_]. unfold bind.
    destruct (call_Tri f n rt b a HT Hg (Hc ltac:(discriminate))) as [R T].
    destruct (uts_call (update_task_state_fuel ev f) (n, rt) b) as [b1 [u|e1]],
             (uts_call (update_task_state_fuel ev f) (n, rt) a) as [a1 [u'|e2]]; cbn [fst snd] in *; try discriminate R.
    + split; [reflexivity|exact T].
    + split; [exact R|exact T].
  - cbn [length] in Hl. lia.
Qed.

(* after the queue has been computed *)
Definition mid_rest (t : string) (route idx : nat) : M unit :=
  r <- get_rec idx ;;
  st <- (match r_status r with Some s => ret s | None => raise (exn_key "status") end) ;;
  wf_mid t route st.

Lemma rest_Tri : forall f t route idx q s a,
  c_init a = true -> PairOK s (wstatus (c_ws a)) -> graph_commands_inert (c_graph a) -> length q <= 1 ->
  (q <> [] -> forall a', mid_rest t route idx a = (a', Val tt) -> done (wstatus (c_ws a')) = false) ->
  snd (bind (mid_rest t route idx) (fun _ => forM_ q (uts_call (update_task_state_fuel ev f)) ;;; wf_fin idx) (so s a)) =
  snd (bind (mid_rest t route idx) (fun _ => forM_ q (uts_call (update_task_state_fuel ev f)) ;;; wf_fin idx) a) /\
  Tri (fst (bind (mid_rest t route idx) (fun _ => forM_ q (uts_call (update_task_state_fuel ev f)) ;;; wf_fin idx) (so s a)))
      (fst (bind (mid_rest t route idx) (fun _ => forM_ q (uts_call (update_task_state_fuel ev f)) ;;; wf_fin idx) a)).
Proof.
  intros f t route idx q s a Hi Hp Hg Hl Hopen.
  assert (HpF : PairF s (wstatus (c_ws a))) by (apply PairOK_PairF; exact Hp).
  (* the mirrored part of mid_rest *)
  assert (Mid : snd (mid_rest t route idx (so s a)) = snd (mid_rest t route idx a) /\
                Tri (fst (mid_rest t route idx (so s a))) (fst (mid_rest t route idx a)) /\
                (done (wstatus (c_ws (fst (mid_rest t route idx a)))) = false ->
                 snd (mid_rest t route idx a) = Val tt ->
                 wstatus (c_ws (fst (mid_rest t route idx (so s a)))) = wstatus (c_ws (fst (mid_rest t route idx a))) \/
                 done (wstatus (c_ws (fst (mid_rest t route idx (so s a))))) = false)).
  { unfold mid_rest.
    destruct (Jp_step _ _ _ _ (jp_get_rec idx) s a Hi Hp) as [s1 [a1 [I1 [P1 [[r [r' [E1 [E2 V]]]]|[e [E1 E2]]]]]]].
    2: { rewrite (bind_exc _ _ _ _ _ _ _ E1), (bind_exc _ _ _ _ _ _ _ E2). cbn [fst snd].
         split; [reflexivity|]. split; [apply Tri_so; [exact I1|apply PairOK_PairF; exact P1]|]. intros _ X; discriminate X. }
    unfold Veq in V; subst r'.
    rewrite (bind_step _ _ _ _ _ _ _ E1), (bind_step _ _ _ _ _ _ _ E2).
    apply get_rec_inv in E2. destruct E2 as [-> _].
    assert (s1 = s).
    { pose proof (get_rec_state _ _ _ _ E1) as X. apply (f_equal (fun c => wstatus (c_ws c))) in X. exact X. }
    subst s1.
    destruct (r_status r) as [st|].
    2: { unfold bind, raise. cbn [fst snd]. split; [reflexivity|]. split; [apply Tri_so; assumption|]. intros _ X; discriminate X. }
    rewrite !bind_ret_pt.
    destruct (wf_mid_Tri t route st s a Hi HpF) as [R T]. split; [exact R|]. split; [exact T|].
    intros D _. destruct Hp as [E|[Hx Hs]].
    - subst s. rewrite so_same. left; reflexivity.
    - destruct (wf_mid_open t route st s a Hs Hx D) as [X|X]; [right; exact X|left; exact X]. }
  destruct Mid as [R [T O]]. unfold bind at 1 3 5 7.
  destruct (mid_rest t route idx (so s a)) as [b1 rb] eqn:Eb, (mid_rest t route idx a) as [a1 ra] eqn:Ea.
  cbn [fst snd] in *. subst rb. destruct ra as [[]|e]; [|split; [reflexivity|exact T]].
  assert (G1 : c_graph a1 = c_graph a).
  { unfold mid_rest in Ea. apply bind_val_inv' in Ea. destruct Ea as [c1 [r [E1 Ea]]]. apply get_rec_inv in E1. destruct E1 as [-> _].
    apply bind_val_inv' in Ea. destruct Ea as [c2 [st [E2 Ea]]].
    assert (c2 = a) by (destruct (r_status r); inversion E2; reflexivity). subst c2.
    unfold wf_mid in Ea. apply bind_val_inv' in Ea. destruct Ea as [c3 [u [E3 Ea]]].
    rewrite (pg_log_unreachable _ _ _ _ Ea). eapply pg_wf_task_event; exact E3. }
  assert (Hc : q <> [] -> wstatus (c_ws b1) = wstatus (c_ws a1) \/ (done (wstatus (c_ws b1)) = false /\ done (wstatus (c_ws a1)) = false)).
  { intro Hq. pose proof (Hopen Hq a1 eq_refl) as D. destruct (O D eq_refl) as [X|X]; [left; exact X|right; split; assumption]. }
  assert (Hg1 : graph_commands_inert (c_graph a1)) by (rewrite G1; exact Hg).
  destruct (loop_Tri f q b1 a1 T Hg1 Hl Hc) as [R2 T2]. unfold bind.
  destruct (forM_ q (uts_call (update_task_state_fuel ev f)) b1) as [b2 rb2], (forM_ q (uts_call (update_task_state_fuel ev f)) a1) as [a2 ra2].
  cbn [fst snd] in *. subst rb2. destruct ra2 as [[]|e]; [|split; [reflexivity|exact T2]].
  apply wf_fin_Tri. exact T2.
Qed.

(* the model's tail, regrouped around the queue *)
Lemma tail_rest_eq : forall (rec : string -> nat -> event -> M unit) t route ts idx old new compl c,
  (forall x, compl <> Some (x, true)) ->
  uts_tail ev rec t route ts idx old new compl c =
  bind (uts_queue ev t route idx ts old new compl)
       (fun q => bind (mid_rest t route idx) (fun _ => forM_ q (uts_call rec) ;;; wf_fin idx)) c.
Proof.
  intros rec t route ts idx old new compl c Hc. unfold uts_tail.
  assert (K : forall q c0,
    (r <- get_rec idx ;;
     st <- (match r_status r with Some s => ret s | None => raise (exn_key "status") end) ;;
     unreachable <- wf_task_event_M t route st ;;
     log_unreachable unreachable ;;;
     forM_ q (uts_call rec) ;;;
     w <- getws ;;
     if status_in (wstatus w) COMPLETED_STATUSES then upd_rec idx (fun r => r_set_term r true) else ret tt) c0 =
    bind (mid_rest t route idx) (fun _ => forM_ q (uts_call rec) ;;; wf_fin idx) c0).
  { intros q c0. unfold mid_rest. rewrite bind_assoc_pt. apply bind_congr; intros c1 r _.
    rewrite bind_assoc_pt. apply bind_congr; intros c2 st _. unfold wf_mid. rewrite bind_assoc_pt. reflexivity. }
  destruct compl as [[x [|]]|].
  - exfalso. apply (Hc x). reflexivity.
  - apply bind_congr; intros c1 q _. apply K.
  - apply bind_congr; intros c1 q _. apply K.
Qed.

(* at most one transition of t targets an engine command *)
Definition cmd1 (t : string) (g : graph) : Prop :=
  length (filter (fun e => is_engine_command (e_dst e)) (g_next_transitions g t)) <= 1.

Lemma queue_len : forall t route idx ts old new compl a a1 q,
  uts_queue ev t route idx ts old new compl a = (a1, Val q) ->
  length q <= length (filter (fun e => is_engine_command (e_dst e)) (g_next_transitions (c_graph a) t)).
Proof.
  intros t route idx ts old new compl a a1 q H. unfold uts_queue in H.
  destruct compl as [[cctx b]|]; [|inversion H; cbn; lia].
  destruct (negb (status_eqb new old)); [|inversion H; cbn; lia].
  apply bind_val_inv' in H. destruct H as [c0 [cst [E0 H]]]. inversion E0; subst c0 cst; clear E0. cbv zeta in H.
  apply bind_val_inv' in H. destruct H as [c1 [u1 [_ H]]].
  apply bind_val_inv' in H. destruct H as [c2 [rs [E2 H]]].
  apply bind_val_inv' in H. destruct H as [c3 [u3 [_ H]]].
  apply bind_val_inv' in H. destruct H as [c4 [r4 [_ H]]].
  apply bind_val_inv' in H. destruct H as [c5 [u5 [_ H]]]. inversion H; subst. clear H.
  pose proof (vpost_mapM _ _ (fun e res => forall x, fst res = Some x -> is_engine_command (e_dst e) = true)
                 (process_transition ev t route idx ts cctx) (g_next_transitions (c_graph a) t)
                 (fun e => pt_cmd_dst ev t route idx ts cctx e) _ _ _ E2) as F.
  clear E2. induction F as [|e [q0 q1] l rs0 He F IH]; [cbn; lia|]. cbn [flat_map filter].
  destruct q0 as [x|].
  - rewrite (He x eq_refl). cbn [app length]. lia.
  - cbn [app]. destruct (is_engine_command (e_dst e)); cbn [length]; lia.
Qed.

(* the call delivering the retry event queues nothing *)
Lemma reentry_Tri : forall f t route s a,
  c_init a = true -> PairOK s (wstatus (c_ws a)) -> graph_commands_inert (c_graph a) ->
  snd (update_task_state_fuel ev f t route retry_event (so s a)) = snd (update_task_state_fuel ev f t route retry_event a) /\
  Tri (fst (update_task_state_fuel ev f t route retry_event (so s a))) (fst (update_task_state_fuel ev f t route retry_event a)).
Proof.
  intros f t route s a Hi Hp Hg. destruct f as [|f'].
  { cbn. split; [reflexivity|apply Tri_so; [exact Hi|apply PairOK_PairF; exact Hp]]. }
  rewrite !uts_unfold, !body_eq.
  destruct (Jp_step _ _ _ _ (jp_prefix ev Hblind t route retry_event) s a Hi Hp) as [s1 [a1 [I1 [P1 [[p1 [p2 [E1 [E2 V]]]]|[e [E1 E2]]]]]]].
  2: { rewrite (bind_exc _ _ _ _ _ _ _ E1), (bind_exc _ _ _ _ _ _ _ E2). cbn [fst snd].
       split; [reflexivity|apply Tri_so; [exact I1|apply PairOK_PairF; exact P1]]. }
  rewrite (bind_step _ _ _ _ _ _ _ E1), (bind_step _ _ _ _ _ _ _ E2).
  pose proof (prefix_retry_event ev t route a a1 p2 E2) as Hn.
  destruct V as [V1 [V2 [V3 [V4 Vc]]]]. unfold tail_of. rewrite V1, V2, V3, V4.
  assert (G1 : c_graph a1 = c_graph a) by (eapply pg_prefix; exact E2).
  assert (N1 : forall x, po_compl p1 <> Some (x, true)).
  { intros x X. rewrite X in Vc. destruct Hn as [Hn|[ctx [Hn _]]]; rewrite Hn in Vc; cbn in Vc; [contradiction|].
    destruct Vc as [_ Vb]. discriminate Vb. }
  assert (N2 : forall x, po_compl p2 <> Some (x, true)).
  { intros x X. destruct Hn as [Hn|[ctx [Hn _]]]; rewrite Hn in X; discriminate X. }
  rewrite (tail_rest_eq _ _ _ _ _ _ _ _ _ N1), (tail_rest_eq _ _ _ _ _ _ _ _ _ N2).
  destruct (Jp_step _ _ _ _ (jp_queue ev Hblind t route (po_idx p2) (po_ts p2) (po_old p2) (po_new p2) _ _ Vc) s1 a1 I1 P1)
    as [s2 [a2 [I2 [P2 [[q1 [q2 [E3 [E4 Vq]]]]|[e [E3 E4]]]]]]].
  2: { rewrite (bind_exc _ _ _ _ _ _ _ E3), (bind_exc _ _ _ _ _ _ _ E4). cbn [fst snd].
       split; [reflexivity|apply Tri_so; [exact I2|apply PairOK_PairF; exact P2]]. }
  unfold Veq in Vq. subst q1. rewrite (bind_step _ _ _ _ _ _ _ E3), (bind_step _ _ _ _ _ _ _ E4).
  assert (q2 = []).
  { destruct Hn as [Hn|[ctx [Hn Hd]]].
    - rewrite Hn in E4. cbn in E4. inversion E4; reflexivity.
    - eapply queue_nil; [exact E4|exact Hd]. }
  subst q2. apply rest_Tri; [exact I2|exact P2| |cbn; lia|intro X; contradiction].
  rewrite (pg_queue ev _ _ _ _ _ _ _ _ _ _ E4), G1. exact Hg.
Qed.

(* the plain run up to the workflow-machine step of the reporting task, returning the queue *)
Definition mid_m (t : string) (route : nat) (evt : event) : M (list (string * nat)) :=
  p <- uts_prefix ev t route evt ;;
  match po_compl p with
  | Some (_, true) => ret []
  | _ => q <- uts_queue ev t route (po_idx p) (po_ts p) (po_old p) (po_new p) (po_compl p) ;;
         mid_rest t route (po_idx p) ;;; ret q
  end.
(* ... when a command is queued, that step does not complete the workflow *)
Definition mid_open (t : string) (route : nat) (evt : event) (c : cstate) : Prop :=
  forall c' q, mid_m t route evt c = (c', Val q) -> q <> [] -> done (wstatus (c_ws c')) = false.

Lemma outer_Tri : forall f t route evt s a,
  c_init a = true -> PairOK s (wstatus (c_ws a)) -> graph_commands_inert (c_graph a) -> cmd1 t (c_graph a) ->
  mid_open t route evt a ->
  snd (update_task_state_fuel ev (S f) t route evt (so s a)) = snd (update_task_state_fuel ev (S f) t route evt a) /\
  Tri (fst (update_task_state_fuel ev (S f) t route evt (so s a))) (fst (update_task_state_fuel ev (S f) t route evt a)).
Proof.
  intros f t route evt s a Hi Hp Hg Hc1 Hmo.
  rewrite !uts_unfold, !body_eq.
  destruct (Jp_step _ _ _ _ (jp_prefix ev Hblind t route evt) s a Hi Hp) as [s1 [a1 [I1 [P1 [[p1 [p2 [E1 [E2 V]]]]|[e [E1 E2]]]]]]].
  2: { rewrite (bind_exc _ _ _ _ _ _ _ E1), (bind_exc _ _ _ _ _ _ _ E2). cbn [fst snd].
       split; [reflexivity|apply Tri_so; [exact I1|apply PairOK_PairF; exact P1]]. }
  rewrite (bind_step _ _ _ _ _ _ _ E1), (bind_step _ _ _ _ _ _ _ E2).
  destruct V as [V1 [V2 [V3 [V4 Vc]]]]. unfold tail_of. rewrite V1, V2, V3, V4.
  assert (G1 : c_graph a1 = c_graph a) by (eapply pg_prefix; exact E2).
  (* the re-entry *)
  destruct (po_compl p2) as [[x2 [|]]|] eqn:C2.
  { destruct (po_compl p1) as [[x1 b1]|] eqn:C1; cbn in Vc; [|contradiction]. destruct Vc as [_ ->].
    unfold uts_tail. apply reentry_Tri; [exact I1|exact P1|rewrite G1; exact Hg]. }
  - (* completed, not retried *)
    assert (N2 : forall x, Some (x2, false) <> Some (x, true)) by (intros x X; discriminate X).
    assert (N1 : forall x, po_compl p1 <> Some (x, true)).
    { intros x X. rewrite X in Vc. cbn in Vc. destruct Vc as [_ Vb]. discriminate Vb. }
    rewrite (tail_rest_eq _ _ _ _ _ _ _ _ _ N1), (tail_rest_eq _ _ _ _ _ _ _ _ _ N2).
    destruct (Jp_step _ _ _ _ (jp_queue ev Hblind t route (po_idx p2) (po_ts p2) (po_old p2) (po_new p2) _ _ Vc) s1 a1 I1 P1)
      as [s2 [a2 [I2 [P2 [[q1 [q2 [E3 [E4 Vq]]]]|[e [E3 E4]]]]]]].
    2: { rewrite (bind_exc _ _ _ _ _ _ _ E3), (bind_exc _ _ _ _ _ _ _ E4). cbn [fst snd].
         split; [reflexivity|apply Tri_so; [exact I2|apply PairOK_PairF; exact P2]]. }
    unfold Veq in Vq. subst q1. rewrite (bind_step _ _ _ _ _ _ _ E3), (bind_step _ _ _ _ _ _ _ E4).
    assert (G2 : c_graph a2 = c_graph a) by (rewrite (pg_queue ev _ _ _ _ _ _ _ _ _ _ E4); exact G1).
    apply rest_Tri; [exact I2|exact P2|rewrite G2; exact Hg| |].
    + pose proof (queue_len _ _ _ _ _ _ _ _ _ _ E4) as L. rewrite G1 in L. unfold cmd1 in Hc1. lia.
    + intros Hq a' Em. apply (Hmo a' q2); [|exact Hq]. unfold mid_m.
      rewrite (bind_step _ _ _ _ _ _ _ E2). rewrite C2. rewrite (bind_step _ _ _ _ _ _ _ E4).
      rewrite (bind_step _ _ _ _ _ _ _ Em). reflexivity.
  - (* not completed: nothing is queued *)
    destruct (po_compl p1) as [[x1 b1]|] eqn:C1; cbn in Vc; [contradiction|].
    assert (N : forall x, @None (dict * bool) <> Some (x, true)) by (intros x X; discriminate X).
    rewrite !(tail_rest_eq _ _ _ _ _ _ _ _ _ N).
    unfold uts_queue at 1 2. rewrite !bind_ret_pt.
    apply rest_Tri; [exact I1|exact P1|rewrite G1; exact Hg|cbn; lia|intro X; contradiction].
Qed.

(* ================================================================== the theorems *)

Theorem report_commutes_with_status_override_cmd : forall t route evt s c,
  c_init c = true -> PairOK s (wstatus (c_ws c)) ->
  graph_commands_inert (c_graph c) -> cmd1 t (c_graph c) -> mid_open t route evt c ->
  snd (update_task_state ev t route evt (so s c)) = snd (update_task_state ev t route evt c) /\
  Tri (fst (update_task_state ev t route evt (so s c))) (fst (update_task_state ev t route evt c)).
Proof. intros t route evt s c Hi Hp Hg H1 Hm. exact (outer_Tri 2 t route evt s c Hi Hp Hg H1 Hm). Qed.

Theorem report_commutes_with_pause_cmd : forall st t route evt c c_p r,
  c_init c = true -> wstatus (c_ws c) = S_RUNNING -> no_item_tables c ->
  graph_commands_inert (c_graph c) -> cmd1 t (c_graph c) -> mid_open t route evt c ->
  pause_class st -> request_workflow_status ev st c = (c_p, r) -> wstatus (c_ws c_p) = S_PAUSING ->
  snd (update_task_state ev t route evt c_p) = snd (update_task_state ev t route evt c) /\
  Tri (fst (update_task_state ev t route evt c_p)) (fst (update_task_state ev t route evt c)).
Proof.
  intros st t route evt c c_p r Hi Hr Hni Hg H1 Hm Hst H Hp.
  unfold request_workflow_status, bind in H. rewrite (ensure_ws_inited ev c Hi) in H.
  destruct (request_status_core st c) as [c1 r1] eqn:E. assert (c1 = c_p) by (destruct r1; inversion H; reflexivity). subst c1.
  pose proof (pause_of_plain_tasks_changes_workflow_status_only st c c_p r1 Hst Hni E) as Ec. rewrite Hp in Ec.
  change (c_p = so S_PAUSING c) in Ec. rewrite Ec.
  apply report_commutes_with_status_override_cmd; try assumption. right. split; [exact Hr|left; reflexivity].
Qed.

(* completed is final: the side condition follows when the plain call leaves the workflow not completed *)
Lemma reach_done : forall x u, wf_reach x u -> done x = true -> done u = true.
Proof.
  intros x u H. induction H as [s0|s0 e t0 u Hs Hr IH|s0 u Hc Hn Hr IH]; intro D; [exact D| |apply IH; reflexivity].
  apply IH.
  assert (T : table_forall wf_table (fun s _ t => negb (done s) || done t) = true) by (vm_compute; reflexivity).
  pose proof (table_forall_step _ _ T _ _ _ Hs) as P. cbv beta in P. rewrite D in P. exact P.
Qed.

Lemma mid_open_of_open_end : forall t route evt c,
  done (wstatus (c_ws (fst (update_task_state ev t route evt c)))) = false -> mid_open t route evt c.
Proof.
  intros t route evt c Hend c' q Em Hq. unfold mid_m in Em.
  apply bind_val_inv' in Em. destruct Em as [a1 [p [E2 Em]]].
  assert (N : forall x, po_compl p <> Some (x, true)).
  { intros x X. rewrite X in Em. inversion Em; subst. contradiction. }
  assert (Em' : (q0 <- uts_queue ev t route (po_idx p) (po_ts p) (po_old p) (po_new p) (po_compl p) ;;
                 mid_rest t route (po_idx p) ;;; ret q0) a1 = (c', Val q)).
  { destruct (po_compl p) as [[x [|]]|]; [exfalso; apply (N x); reflexivity|exact Em|exact Em]. }
  clear Em. apply bind_val_inv' in Em'. destruct Em' as [a2 [q0 [E4 Em]]].
  apply bind_val_inv' in Em. destruct Em as [a3 [[] [E5 Em]]]. inversion Em; subst a3 q0. clear Em.
  destruct (done (wstatus (c_ws c'))) eqn:D; [|reflexivity]. exfalso.
  unfold update_task_state in Hend. rewrite uts_unfold, body_eq, (bind_step _ _ _ _ _ _ _ E2) in Hend.
  unfold tail_of in Hend. rewrite (tail_rest_eq _ _ _ _ _ _ _ _ _ N) in Hend.
  rewrite (bind_step _ _ _ _ _ _ _ E4), (bind_step _ _ _ _ _ _ _ E5) in Hend.
  assert (P : preserves Rst (forM_ q (uts_call (update_task_state_fuel ev 2)) ;;; wf_fin (po_idx p))).
  { apply (preserves_bind _ Rst_trans).
    - apply (preserves_forM _ Rst_refl Rst_trans). intros [n rt]. unfold uts_call.
      destruct (engine_event n); [apply pres_update_task_state_fuel|apply (preserves_raise _ Rst_refl)].
    - intros _. unfold wf_fin. apply (preserves_bind _ Rst_trans); [apply (preserves_getws _ Rst_refl)|].
      intro w. destruct (status_in (wstatus w) COMPLETED_STATUSES); [apply pres_upd_rec|apply (preserves_ret _ Rst_refl)]. }
  destruct ((forM_ q (uts_call (update_task_state_fuel ev 2)) ;;; wf_fin (po_idx p)) c') as [cf rf] eqn:Ef.
  pose proof (P _ _ _ Ef) as R. cbn [fst] in Hend. rewrite (reach_done _ _ R D) in Hend. discriminate Hend.
Qed.

Theorem report_commutes_with_status_override_cmd_open : forall t route evt s c,
  c_init c = true -> PairOK s (wstatus (c_ws c)) ->
  graph_commands_inert (c_graph c) -> cmd1 t (c_graph c) ->
  done (wstatus (c_ws (fst (update_task_state ev t route evt c)))) = false ->
  snd (update_task_state ev t route evt (so s c)) = snd (update_task_state ev t route evt c) /\
  Tri (fst (update_task_state ev t route evt (so s c))) (fst (update_task_state ev t route evt c)).
Proof.
  intros t route evt s c Hi Hp Hg H1 He. apply report_commutes_with_status_override_cmd; try assumption.
  apply mid_open_of_open_end. exact He.
Qed.

(* the side conditions, decidably *)
Definition inert_b (g : graph) : bool :=
  forallb (fun cmd => match g_next_transitions g cmd with [] => true | _ => false end && negb (g_task_has_retry g cmd))
          (map fst ENGINE_EVENT_MAP).
Lemma inert_b_ok : forall g, inert_b g = true -> graph_commands_inert g.
Proof.
  intros g H cmd Hc. unfold inert_b in H. rewrite forallb_forall in H.
  assert (Hin : In cmd (map fst ENGINE_EVENT_MAP)).
  { unfold is_engine_command, ahas in Hc. destruct (aget String.eqb cmd ENGINE_EVENT_MAP) as [v|] eqn:E; [|discriminate Hc].
    apply aget_In in E. apply (in_map fst) in E. exact E. }
  specialize (H cmd Hin). apply andb_prop in H. destruct H as [A B]. split.
  - destruct (g_next_transitions g cmd); [reflexivity|discriminate A].
  - destruct (g_task_has_retry g cmd); [discriminate B|reflexivity].
Qed.
Definition cmd1_b (t : string) (g : graph) : bool :=
  Nat.leb (length (filter (fun e => is_engine_command (e_dst e)) (g_next_transitions g t))) 1.
Lemma cmd1_b_ok : forall t g, cmd1_b t g = true -> cmd1 t g.
Proof. intros t g H. apply Nat.leb_le. exact H. Qed.
Definition mid_open_b (t : string) (route : nat) (evt : event) (c : cstate) : bool :=
  match mid_m t route evt c with
  | (c', Val (_ :: _)) => negb (done (wstatus (c_ws c')))
  | _ => true
  end.
Lemma mid_open_b_ok : forall t route evt c, mid_open_b t route evt c = true -> mid_open t route evt c.
Proof.
  intros t route evt c H c' q Em Hq. unfold mid_open_b in H. rewrite Em in H.
  destruct q as [|x q]; [contradiction|]. destruct (done (wstatus (c_ws c'))); [discriminate H|reflexivity].
Qed.

(* ================================================================== several reports, resume, poll *)

(* along the run of reports: each reporting task has at most one command target, its machine step with a
   command queued leaves the unpaused workflow open, and between two reports the statuses still form a pair *)
Fixpoint steps_ok (evs : list report) (b a : cstate) : Prop :=
  match evs with
  | [] => True
  | r :: rest =>
      cmd1 (fst (fst r)) (c_graph a) /\ mid_open (fst (fst r)) (snd (fst r)) (snd r) a /\
      match rest with
      | [] => True
      | _ => let b1 := fst (api_exec ev (op_of r) b) in let a1 := fst (api_exec ev (op_of r) a) in
             PairOK (wstatus (c_ws b1)) (wstatus (c_ws a1)) /\ steps_ok rest b1 a1
      end
  end.

Theorem reports_commute_with_status_override_cmd : forall evs s a,
  c_init a = true -> PairOK s (wstatus (c_ws a)) -> graph_commands_inert (c_graph a) ->
  steps_ok evs (so s a) a ->
  run_trace ev (map op_of evs) (so s a) = run_trace ev (map op_of evs) a /\
  Tri (run_ops ev (map op_of evs) (so s a)) (run_ops ev (map op_of evs) a).
Proof.
  induction evs as [|[[t route] e] rest IH]; intros s a Hi Hp Hg Hs.
  - split; [reflexivity|]. apply Tri_so; [exact Hi|apply PairOK_PairF; exact Hp].
  - cbn [map op_of run_trace]. unfold run_ops. cbn [fold_left]. fold (run_ops ev (map op_of rest)).
    rewrite !(api_event_run ev). cbn [fst snd].
    cbn [steps_ok fst snd] in Hs. destruct Hs as [H1 [Hm Hs]].
    destruct (report_commutes_with_status_override_cmd t route e s a Hi Hp Hg H1 Hm) as [R T].
    rewrite R.
    destruct rest as [|r2 rest'].
    + split; [reflexivity|exact T].
    + cbn [op_of] in Hs. rewrite !(api_event_run ev) in Hs. cbn [fst] in Hs. destruct Hs as [Hp1 Hs1].
      set (a1 := fst (update_task_state ev t route e a)) in *.
      set (b1 := fst (update_task_state ev t route e (so s a))) in *.
      destruct T as [Hi1 [_ [He Ho]]].
      assert (Eb : b1 = so (wstatus (c_ws b1)) a1).
      { destruct Hp1 as [E|[Hx Hh]].
        - rewrite (He E) at 1. rewrite E. symmetry. apply so_same.
        - apply Ho; [destruct Hh as [->| ->]; reflexivity|rewrite Hx; reflexivity]. }
      assert (Hg1 : graph_commands_inert (c_graph a1)).
      { unfold a1, update_task_state. destruct (update_task_state_fuel ev 3 t route e a) as [a' ra] eqn:Ea. cbn [fst].
        rewrite (pg_uts_fuel ev 3 t route e _ _ _ Ea). exact Hg. }
      rewrite Eb in Hs1 |- *.
      destruct (IH (wstatus (c_ws b1)) a1 Hi1 Hp1 Hg1 Hs1) as [T' F']. rewrite T'. split; [reflexivity|exact F'].
Qed.

(* PAUSE ... REPORTS ... REST ... RESUME ... POLL against REPORTS ... POLL, command targets allowed *)
Theorem pause_reports_resume_poll_cmd : forall st evs c c_p r c_r rr,
  c_init c = true -> wstatus (c_ws c) = S_RUNNING -> no_item_tables c -> graph_commands_inert (c_graph c) ->
  pause_class st -> request_workflow_status ev st c = (c_p, r) -> wstatus (c_ws c_p) = S_PAUSING ->
  steps_ok evs c_p c ->
  let a_n := run_ops ev (map op_of evs) c in
  let b_n := run_ops ev (map op_of evs) c_p in
  wstatus (c_ws a_n) = S_RUNNING -> wstatus (c_ws b_n) = S_PAUSED ->
  ws_tasks_by_status (c_ws a_n) ACTIVE_STATUSES = [] ->
  request_workflow_status ev S_RESUMING b_n = (c_r, rr) -> wstatus (c_ws c_r) = S_RESUMING ->
  run_trace ev (map op_of evs) c_p = run_trace ev (map op_of evs) c /\
  b_n = so S_PAUSED a_n /\ c_r = so S_RESUMING a_n /\ rr = Val tt /\
  rrel (Forall2 offer_sim) (snd (get_next_tasks ev c_r)) (snd (get_next_tasks ev a_n)) /\
  exists s', fst (get_next_tasks ev c_r) = so s' (fst (get_next_tasks ev a_n)) /\
             PairOK s' (wstatus (c_ws (fst (get_next_tasks ev a_n)))).
Proof.
  intros st evs c c_p r c_r rr Hi Hr Hni Hg Hst H Hp Hsteps a_n b_n Han Hbn Hact Hres Hcr.
  unfold request_workflow_status, bind in H. rewrite (ensure_ws_inited ev c Hi) in H.
  destruct (request_status_core st c) as [c1 r1] eqn:E. assert (c1 = c_p) by (destruct r1; inversion H; reflexivity). subst c1.
  pose proof (pause_of_plain_tasks_changes_workflow_status_only st c c_p r1 Hst Hni E) as Ec. rewrite Hp in Ec.
  change (c_p = so S_PAUSING c) in Ec.
  assert (Hp0 : PairOK S_PAUSING (wstatus (c_ws c))) by (right; split; [exact Hr|left; reflexivity]).
  rewrite Ec in Hsteps. destruct (reports_commute_with_status_override_cmd evs S_PAUSING c Hi Hp0 Hg Hsteps) as [T F].
  rewrite <- Ec in T, F. fold a_n b_n in F.
  destruct F as [Hin [_ [_ Ho]]].
  assert (Eb : b_n = so S_PAUSED a_n).
  { rewrite <- Hbn. apply Ho; [rewrite Hbn; reflexivity|rewrite Han; reflexivity]. }
  split; [exact T|]. split; [exact Eb|].
  unfold request_workflow_status, bind in Hres.
  assert (Hib : c_init b_n = true) by (rewrite Eb; exact Hin).
  rewrite (ensure_ws_inited ev b_n Hib) in Hres.
  destruct (request_status_core S_RESUMING b_n) as [c2 r2] eqn:E2.
  assert (c2 = c_r) by (destruct r2; inversion Hres; reflexivity). subst c2.
  rewrite Eb in E2. destruct (resume_at_rest a_n c_r r2 Hact E2 Hcr) as [Ecr Er2]. subst r2.
  split; [exact Ecr|]. split; [inversion Hres; reflexivity|].
  rewrite Ecr. destruct (poll_commutes_with_resuming ev Hblind a_n Hin Han) as [R [s' [Es [Ps _]]]].
  split; [exact R|]. exists s'. split; assumption.
Qed.

End Commute2.

(* ================================================================== witnesses *)

(* t0 ;  t1 --> <cmd>     (t0 and t1 in flight; the evaluator is PauseCommuteProofs.q_ev) *)
Definition e_spec (cmd : string) : wf_spec :=
  {| wf_input := []; wf_vars := []; wf_output := [];
     wf_tasks := [("t0", q_task JNull []);
                  ("t1", q_task JNull [{| tr_when := JNull; tr_publish := []; tr_do := [cmd] |}])] |}.
Definition e_graph (cmd : string) : graph :=
  {| g_nodes := [q_node "t0" JNull; q_node "t1" JNull; q_node cmd JNull];
     g_edges := [{| e_src := "t1"; e_dst := cmd; e_key := 0; e_ref := 0; e_criteria := [] |}] |}.
Definition e_init (cmd : string) : cstate :=
  {| c_spec := e_spec cmd; c_graph := e_graph cmd; c_inputs := []; c_parent := []; c_init := false;
     c_ws := empty_ws; c_errors := []; c_log := []; c_output := None |}.
Definition e_pre : list api_op :=
  [OpRequest S_RUNNING; OpGetNext; OpEvent "t0" 0 (EvAction S_RUNNING JNull); OpEvent "t1" 0 (EvAction S_RUNNING JNull)].
(* t0 has finished: t1 is the last task in flight *)
Definition e_pre2 : list api_op := e_pre ++ [OpEvent "t0" 0 (EvAction S_SUCCEEDED JNull)].
Definition e_evt : event := EvAction S_SUCCEEDED JNull.
Definition e_c (cmd : string) (pre : list api_op) : cstate := run_ops q_ev pre (e_init cmd).
Definition e_cp (cmd : string) (pre : list api_op) : cstate := fst (request_workflow_status q_ev S_PAUSING (e_c cmd pre)).
Definition e_a' (cmd : string) (pre : list api_op) : cstate := fst (update_task_state q_ev "t1" 0 e_evt (e_c cmd pre)).
Definition e_b' (cmd : string) (pre : list api_op) : cstate := fst (update_task_state q_ev "t1" 0 e_evt (e_cp cmd pre)).

(* every hypothesis of report_commutes_with_pause_cmd, decidably *)
Definition e_hyps (cmd : string) (pre : list api_op) : bool :=
  c_init (e_c cmd pre) && status_eqb (wstatus (c_ws (e_c cmd pre))) S_RUNNING && no_item_tables_b (e_c cmd pre) &&
  inert_b (c_graph (e_c cmd pre)) && cmd1_b "t1" (c_graph (e_c cmd pre)) && mid_open_b q_ev "t1" 0 e_evt (e_c cmd pre) &&
  status_eqb (wstatus (c_ws (e_cp cmd pre))) S_PAUSING &&
  match snd (request_workflow_status q_ev S_PAUSING (e_c cmd pre)) with Val _ => true | Exc _ => false end.

Example e_hyps_hold :
  e_hyps "fail" e_pre = true /\ e_hyps "fail" e_pre2 = true /\ e_hyps "noop" e_pre = true /\ e_hyps "noop" e_pre2 = true /\
  e_hyps "continue" e_pre2 = true.
Proof. split; [|split; [|split; [|split]]]; vm_compute; reflexivity. Qed.

(* fail, whether or not t1 is the last task in flight: both runs end failed, in the SAME state *)
Example e_fail :
  wstatus (c_ws (e_a' "fail" e_pre)) = S_FAILED /\ e_b' "fail" e_pre = e_a' "fail" e_pre /\
  wstatus (c_ws (e_a' "fail" e_pre2)) = S_FAILED /\ e_b' "fail" e_pre2 = e_a' "fail" e_pre2.
Proof. split; [|split; [|split]]; vm_compute; reflexivity. Qed.

(* noop with another task in flight: lock step (running / pausing) *)
Example e_noop_busy :
  wstatus (c_ws (e_a' "noop" e_pre)) = S_RUNNING /\ e_b' "noop" e_pre = so S_PAUSING (e_a' "noop" e_pre).
Proof. split; vm_compute; reflexivity. Qed.

(* noop as the last task in flight: the nested call runs from paused against running; the unpaused run
   completes the workflow there, the paused one rests (the excluded case (E2) of C09c, now reached through a command) *)
Example e_noop_last :
  wstatus (c_ws (e_a' "noop" e_pre2)) = S_SUCCEEDED /\ wstatus (c_ws (e_b' "noop" e_pre2)) = S_PAUSED /\
  strip_tl (e_b' "noop" e_pre2) = strip_tl (e_a' "noop" e_pre2) /\
  map r_term (sequence (c_ws (e_a' "noop" e_pre2))) = [true; true; true] /\
  map r_term (sequence (c_ws (e_b' "noop" e_pre2))) = [true; false; true].
Proof. split; [|split; [|split; [|split]]]; vm_compute; reflexivity. Qed.

(* ------------------------------------------------------------------ with-items tasks: the commutation FAILS

   t0 ;  t1 with items xs = [1, 2] (no concurrency limit);  both items and t0 in flight.
   reports:  item 0 of t1 CANCELED (item 1 still running) ;  t0 FAILED ;  item 1 of t1 SUCCEEDED.
   Unpaused: the first report takes t1 to canceling and the workflow to canceling; the failure of t0 is
   absorbed by the canceling workflow; the last report cancels t1 and the workflow: CANCELED.
   Paused before the first report (request accepted: t1 and the workflow are pausing): the task table has no
   row for "action_canceled_task_active_items_incomplete" from pausing, so t1 STAYS pausing and the workflow
   stays pausing; the failure of t0 then FAILS the pausing workflow; the resume request is rejected.
   Same records, staged entries, contexts, errors (PauseProofs.strip is equal throughout) -- but the outcome is
   failed instead of canceled, and the workflow cannot be resumed. *)
Definition i_ev (s : string) (ctx : dict) : evalres :=
  if String.eqb s "xs" then EvOk (JList [JInt 1; JInt 2]) else EvOk JNull.
Lemma i_ev_blind : state_blind i_ev.
Proof. intros s a b H. reflexivity. Qed.
Definition i_spec : wf_spec :=
  {| wf_input := []; wf_vars := []; wf_output := [];
     wf_tasks := [("t0", q_task JNull []);
                  ("t1", {| ts_action := JNull; ts_input := JNull;
                            ts_with := Some {| it_expr := "xs"; it_keys := None; it_concurrency := JNull |};
                            ts_delay := JNull; ts_join := JNull; ts_next := [] |})] |}.
Definition i_graph : graph := {| g_nodes := [q_node "t0" JNull; q_node "t1" JNull]; g_edges := [] |}.
Definition i_init : cstate :=
  {| c_spec := i_spec; c_graph := i_graph; c_inputs := []; c_parent := []; c_init := false;
     c_ws := empty_ws; c_errors := []; c_log := []; c_output := None |}.
Definition i_pre : list api_op :=
  [OpRequest S_RUNNING; OpGetNext; OpEvent "t0" 0 (EvAction S_RUNNING JNull);
   OpEvent "t1" 0 (EvItem 0 S_RUNNING JNull (JList [])); OpEvent "t1" 0 (EvItem 1 S_RUNNING JNull (JList []))].
Definition i_reports : list api_op :=
  [OpEvent "t1" 0 (EvItem 0 S_CANCELED JNull (JList [JNull; JNull])); OpEvent "t0" 0 (EvAction S_FAILED JNull);
   OpEvent "t1" 0 (EvItem 1 S_SUCCEEDED JNull (JList [JNull; JNull]))].
(* (workflow status, record statuses, item tables, number of logged errors) *)
Definition i_obs (c : cstate) :=
  (wstatus (c_ws c), map (fun r => (r_id r, r_status r)) (sequence (c_ws c)),
   map (fun s => (s_id s, s_items s)) (staged (c_ws c)), length (c_errors c)).
Definition i_plain (k : nat) : cstate := run_ops i_ev (i_pre ++ firstn k i_reports) i_init.
Definition i_paused (k : nat) : cstate := run_ops i_ev (i_pre ++ [OpRequest S_PAUSING] ++ firstn k i_reports) i_init.

(* the pause request is accepted; every report is accepted in both runs *)
Example i_accepted :
  i_obs (i_paused 0) = (S_PAUSING, [("t0", Some S_RUNNING); ("t1", Some S_PAUSING)], [("t1", Some [S_RUNNING; S_RUNNING])], 0) /\
  run_trace i_ev ([OpRequest S_PAUSING] ++ i_reports) (i_plain 0) = [Val RUnit; Val RUnit; Val RUnit; Val RUnit] /\
  run_trace i_ev i_reports (i_plain 0) = [Val RUnit; Val RUnit; Val RUnit].
Proof. split; [|split]; vm_compute; reflexivity. Qed.

Example items_cancel_under_pause_diverges :
  (* after the canceled item: canceling against pausing *)
  i_obs (i_plain 1)  = (S_CANCELING, [("t0", Some S_RUNNING); ("t1", Some S_CANCELING)], [("t1", Some [S_CANCELED; S_RUNNING])], 0) /\
  i_obs (i_paused 1) = (S_PAUSING,   [("t0", Some S_RUNNING); ("t1", Some S_PAUSING)],   [("t1", Some [S_CANCELED; S_RUNNING])], 0) /\
  (* after the failure of t0: absorbed against failed *)
  i_obs (i_plain 2)  = (S_CANCELING, [("t0", Some S_FAILED); ("t1", Some S_CANCELING)], [("t1", Some [S_CANCELED; S_RUNNING])], 1) /\
  i_obs (i_paused 2) = (S_FAILED,    [("t0", Some S_FAILED); ("t1", Some S_PAUSING)],   [("t1", Some [S_CANCELED; S_RUNNING])], 1) /\
  (* at rest: canceled against failed *)
  i_obs (i_plain 3)  = (S_CANCELED, [("t0", Some S_FAILED); ("t1", Some S_CANCELED)], [], 1) /\
  i_obs (i_paused 3) = (S_FAILED,   [("t0", Some S_FAILED); ("t1", Some S_CANCELED)], [], 1) /\
  (* the states differ in statuses only ... *)
  strip (i_paused 3) = strip (i_plain 3) /\
  (* ... but the resume request is rejected and leaves the workflow failed *)
  (exists e, snd (api_exec i_ev (OpRequest S_RESUMING) (i_paused 3)) = Exc e) /\
  wstatus (c_ws (fst (api_exec i_ev (OpRequest S_RESUMING) (i_paused 3)))) = S_FAILED.
Proof.
  split; [vm_compute; reflexivity|]. split; [vm_compute; reflexivity|]. split; [vm_compute; reflexivity|].
  split; [vm_compute; reflexivity|]. split; [vm_compute; reflexivity|]. split; [vm_compute; reflexivity|].
  split; [vm_compute; reflexivity|]. split; [|vm_compute; reflexivity].
  eexists. vm_compute. reflexivity.
Qed.

(* the rows of the task table that cause it: on provider reports the pausing row mirrors the running row --
   same status, or running/pending against pausing/paused/resuming -- EXCEPT for the canceled item with other
   items still active, which takes a running task to canceling and leaves a pausing task pausing *)
Definition row_pair_ok (x y : status) : bool :=
  status_eqb x y || (status_in x [S_RUNNING; S_PENDING] && status_in y [S_PAUSING; S_PAUSED; S_RESUMING]).
Definition stepd (tbl : list (status * list (string * status))) (s : status) (e : string) : status :=
  match tbl_step tbl s e with Some y => y | None => s end.
Lemma F_items_rows_diverge_only_on_cancel :
  (forall s e x, tbl_step task_table s e = Some x -> (s = S_RUNNING \/ s = S_PAUSING) -> starts_with "action_" e = true ->
     e <> "action_canceled_task_active_items_incomplete" ->
     row_pair_ok (stepd task_table S_RUNNING e) (stepd task_table S_PAUSING e) = true) /\
  stepd task_table S_RUNNING "action_canceled_task_active_items_incomplete" = S_CANCELING /\
  stepd task_table S_PAUSING "action_canceled_task_active_items_incomplete" = S_PAUSING.
Proof.
  split; [|split; reflexivity].
  intros s e x H Hs He Hn.
  assert (T : table_forall task_table
     (fun s e _ => negb ((status_eqb s S_RUNNING || status_eqb s S_PAUSING) && starts_with "action_" e)
                   || String.eqb e "action_canceled_task_active_items_incomplete"
                   || row_pair_ok (stepd task_table S_RUNNING e) (stepd task_table S_PAUSING e)) = true)
    by (vm_compute; reflexivity).
  pose proof (table_forall_step _ _ T _ _ _ H) as P. cbv beta in P. rewrite He in P.
  assert (Es : status_eqb s S_RUNNING || status_eqb s S_PAUSING = true) by (destruct Hs as [->| ->]; reflexivity).
  rewrite Es in P. cbn [andb negb orb] in P.
  destruct (String.eqb e "action_canceled_task_active_items_incomplete") eqn:Ee; [apply String.eqb_eq in Ee; contradiction|].
  exact P.
Qed.

(* ------------------------------------------------------------------ a command and a successor:  t1 --> [noop, t2]
   pause while t1 is in flight; t1 succeeds (noop runs in the nested call, from paused against running);
   rest; resume; poll: t2 is offered by both *)
Definition f_spec : wf_spec :=
  {| wf_input := []; wf_vars := []; wf_output := [];
     wf_tasks := [("t1", q_task JNull [{| tr_when := JNull; tr_publish := []; tr_do := ["noop"; "t2"] |}]);
                  ("t2", q_task JNull [])] |}.
Definition f_graph : graph :=
  {| g_nodes := [q_node "t1" JNull; q_node "noop" JNull; q_node "t2" JNull];
     g_edges := [{| e_src := "t1"; e_dst := "noop"; e_key := 0; e_ref := 0; e_criteria := [] |};
                 {| e_src := "t1"; e_dst := "t2"; e_key := 0; e_ref := 0; e_criteria := [] |}] |}.
Definition f_init : cstate :=
  {| c_spec := f_spec; c_graph := f_graph; c_inputs := []; c_parent := []; c_init := false;
     c_ws := empty_ws; c_errors := []; c_log := []; c_output := None |}.
Definition f_pre : list api_op := [OpRequest S_RUNNING; OpGetNext; OpEvent "t1" 0 (EvAction S_RUNNING JNull)].
Definition f_reports : list report := [("t1", 0, EvAction S_SUCCEEDED JNull)].
Definition f_c : cstate := run_ops q_ev f_pre f_init.
Definition f_cp : cstate := fst (request_workflow_status q_ev S_PAUSING f_c).
Definition f_an : cstate := run_ops q_ev (map op_of f_reports) f_c.
Definition f_bn : cstate := run_ops q_ev (map op_of f_reports) f_cp.
Definition f_cr : cstate := fst (request_workflow_status q_ev S_RESUMING f_bn).

Example f_hypotheses :
  c_init f_c = true /\ wstatus (c_ws f_c) = S_RUNNING /\ no_item_tables f_c /\ graph_commands_inert (c_graph f_c) /\
  request_workflow_status q_ev S_PAUSING f_c = (f_cp, Val tt) /\ wstatus (c_ws f_cp) = S_PAUSING /\
  steps_ok q_ev f_reports f_cp f_c /\
  wstatus (c_ws f_an) = S_RUNNING /\ wstatus (c_ws f_bn) = S_PAUSED /\
  ws_tasks_by_status (c_ws f_an) ACTIVE_STATUSES = [] /\
  request_workflow_status q_ev S_RESUMING f_bn = (f_cr, Val tt) /\ wstatus (c_ws f_cr) = S_RESUMING.
Proof.
  split; [vm_compute; reflexivity|]. split; [vm_compute; reflexivity|].
  split; [apply no_item_tables_b_ok; vm_compute; reflexivity|].
  split; [apply inert_b_ok; vm_compute; reflexivity|].
  split; [vm_compute; reflexivity|]. split; [vm_compute; reflexivity|]. split.
  { cbn [steps_ok f_reports fst snd]. split; [apply cmd1_b_ok; vm_compute; reflexivity|].
    split; [apply mid_open_b_ok; vm_compute; reflexivity|exact I]. }
  split; [vm_compute; reflexivity|]. split; [vm_compute; reflexivity|]. split; [vm_compute; reflexivity|].
  split; vm_compute; reflexivity.
Qed.

Example f_conclusion :
  map (fun r => (r_id r, r_status r)) (sequence (c_ws f_an)) = [("t1", Some S_SUCCEEDED); ("noop", Some S_SUCCEEDED)] /\
  f_bn = so S_PAUSED f_an /\ f_cr = so S_RESUMING f_an /\
  offer_ids (snd (get_next_tasks q_ev f_cr)) = Some [("t2", 0)] /\
  offer_ids (snd (get_next_tasks q_ev f_an)) = Some [("t2", 0)].
Proof. split; [|split; [|split; [|split]]]; vm_compute; reflexivity. Qed.
