(* PauseCommuteProofs.v -- C09: a whole update_task_state call commutes with the pause request.

   Setting: a state a whose workflow status is running, and the same state with the status
   overridden to pausing ([so S_PAUSING a]) -- by PauseProofs this is exactly what an accepted pause
   request leaves when no active task carries an item table.  For an evaluator that does not read
   __state ([state_blind]) the two runs of update_task_state proceed in lock step: every piece of the
   call either ignores the workflow status (then the two states stay "equal up to the override"), or is
   request_status_core S_FAILED (both become failed: the states merge), or is the retry gate (running
   and pausing are both active), or is the workflow-machine step at the end, where the two statuses part
   according to the table (F_wf_pausing_mirrors_running and its completion).

   The relational judgement [Jp]: m1 run on the overridden state mirrors m2 run on the plain one; the
   override may change (merge) but the pair (override, plain status) stays [PairOK]; results are
   related by a value relation (equality, or equality up to the __state entry of contexts). *)
From Coq Require Import String List Bool ZArith Arith Lia.
From Orq Require Import GenStatuses GenEvents GenTables GenSpecMeta Base State Machines Codec Conductor Decode Api.
From Orq Require Import F_tables Hoare ValuePost StatusReach C04Proofs C05Proofs C09C10Proofs RetryProofs InertProofs QueryProofs PauseProofs.
Import ListNotations.
Open Scope string_scope.
Open Scope monad_scope.

(* ------------------------------------------------------------------ the override and the judgement *)

Definition so (s : status) (c : cstate) : cstate := set_ws c (ws_set_status (c_ws c) s).

Definition PairOK (s x : status) : Prop := s = x \/ (x = S_RUNNING /\ (s = S_PAUSING \/ s = S_RESUMING)).

Definition rrel {A} (VR : A -> A -> Prop) (r1 r2 : result A) : Prop :=
  match r1, r2 with
  | Val x, Val y => VR x y
  | Exc e, Exc e' => e = e'
  | _, _ => False
  end.

(* m1 on the overridden state mirrors m2 on the plain state *)
Definition Jp {A} (VR : status -> A -> A -> Prop) (m1 m2 : M A) : Prop :=
  forall s a, c_init a = true -> PairOK s (wstatus (c_ws a)) ->
    exists s', fst (m1 (so s a)) = so s' (fst (m2 a)) /\
               c_init (fst (m2 a)) = true /\ PairOK s' (wstatus (c_ws (fst (m2 a)))) /\
               rrel (VR s') (snd (m1 (so s a))) (snd (m2 a)).

Definition Veq {A} : status -> A -> A -> Prop := fun _ x y => x = y.

Lemma so_so : forall s s' c, so s (so s' c) = so s c.
Proof. reflexivity. Qed.

Lemma Jp_ret : forall A (VR : status -> A -> A -> Prop) x y, (forall s, VR s x y) -> Jp VR (ret x) (ret y).
Proof. intros A VR x y H s a Hi Hp. exists s. cbn. repeat split; auto. Qed.

Lemma Jp_raise : forall A (VR : status -> A -> A -> Prop) e, Jp VR (raise e) (raise e).
Proof. intros A VR e s a Hi Hp. exists s. cbn. repeat split; auto. Qed.

Lemma Jp_bind : forall A B (VR1 : status -> A -> A -> Prop) (VR2 : status -> B -> B -> Prop)
  (m1 m2 : M A) (f1 f2 : A -> M B),
  Jp VR1 m1 m2 -> (forall s x y, VR1 s x y -> Jp VR2 (f1 x) (f2 y)) -> Jp VR2 (bind m1 f1) (bind m2 f2).
Proof.
  intros A B VR1 VR2 m1 m2 f1 f2 Hm Hf s a Hi Hp. unfold bind.
  destruct (Hm s a Hi Hp) as [s1 [E1 [I1 [P1 R1]]]].
  destruct (m1 (so s a)) as [b1 r1], (m2 a) as [a1 r2]. cbn [fst snd] in *. subst b1.
  destruct r1 as [x|e1], r2 as [y|e2]; cbn in R1; try contradiction.
  - destruct (Hf s1 x y R1 s1 a1 I1 P1) as [s2 [E2 [I2 [P2 R2]]]]. exists s2. repeat split; assumption.
  - subst e2. exists s1. cbn. repeat split; auto.
Qed.

(* values read from the state *)
Definition VRws : status -> wstate -> wstate -> Prop :=
  fun s w1 w2 => w1 = ws_set_status w2 s /\ PairOK s (wstatus w2).
Definition VRcs : status -> cstate -> cstate -> Prop :=
  fun s c1 c2 => c1 = so s c2 /\ PairOK s (wstatus (c_ws c2)) /\ c_init c2 = true.

Lemma Jp_getws : Jp VRws getws getws.
Proof. intros s a Hi Hp. exists s. cbn. repeat split; auto. Qed.

Lemma Jp_get : Jp VRcs get get.
Proof. intros s a Hi Hp. exists s. cbn. repeat split; auto. Qed.

(* a state update that does not look at the workflow status *)
Lemma Jp_modws : forall f, (forall w s, f (ws_set_status w s) = ws_set_status (f w) s) ->
  (forall w, wstatus (f w) = wstatus w) -> Jp Veq (modws f) (modws f).
Proof.
  intros f Hf Hs s a Hi Hp. exists s. unfold modws, so. cbn [fst snd c_ws set_ws c_init].
  rewrite Hf, Hs. repeat split; auto.
Qed.

Lemma Jp_modify : forall f, (forall c s, f (so s c) = so s (f c)) ->
  (forall c, wstatus (c_ws (f c)) = wstatus (c_ws c)) -> (forall c, c_init (f c) = c_init c) ->
  Jp Veq (modify f) (modify f).
Proof.
  intros f Hf Hs Hi' s a Hi Hp. exists s. unfold modify. cbn [fst snd].
  rewrite Hf, Hs, Hi'. repeat split; auto.
Qed.

Lemma Jp_lift_res : forall A (VR : status -> A -> A -> Prop) (r1 r2 : result A),
  (forall s, rrel (VR s) r1 r2) -> Jp VR (lift_res r1) (lift_res r2).
Proof.
  intros A VR r1 r2 H s a Hi Hp. exists s. specialize (H s).
  destruct r1, r2; cbn in *; try contradiction; repeat split; auto.
Qed.

(* pure computations with equal results (QueryProofs.same) *)
Lemma Jp_same : forall A (m1 m2 : M A), state_pure m1 -> state_pure m2 -> same m1 m2 -> Jp Veq m1 m2.
Proof.
  intros A m1 m2 H1 H2 Hs s a Hi Hp. exists s. rewrite (H1 (so s a)), (H2 a).
  specialize (Hs (so s a) a). split; [reflexivity|]. split; [exact Hi|]. split; [exact Hp|].
  rewrite Hs. destruct (snd (m2 a)); cbn; reflexivity.
Qed.

Lemma Jp_weaken : forall A (VR VR' : status -> A -> A -> Prop) m1 m2,
  (forall s x y, VR s x y -> VR' s x y) -> Jp VR m1 m2 -> Jp VR' m1 m2.
Proof.
  intros A VR VR' m1 m2 H Hm s a Hi Hp. destruct (Hm s a Hi Hp) as [s' [E [I [P R]]]]. exists s'.
  repeat split; auto. destruct (snd (m1 (so s a))), (snd (m2 a)); cbn in *; auto.
Qed.

Lemma Jp_try_catch : forall A (VR : status -> A -> A -> Prop) (m1 m2 : M A) h1 h2,
  Jp VR m1 m2 -> (forall e, Jp VR (h1 e) (h2 e)) -> Jp VR (try_catch m1 h1) (try_catch m2 h2).
Proof.
  intros A VR m1 m2 h1 h2 Hm Hh s a Hi Hp. unfold try_catch.
  destruct (Hm s a Hi Hp) as [s1 [E1 [I1 [P1 R1]]]].
  destruct (m1 (so s a)) as [b1 r1], (m2 a) as [a1 r2]. cbn [fst snd] in *. subst b1.
  destruct r1 as [x|e1], r2 as [y|e2]; cbn in R1; try contradiction.
  - exists s1. cbn. repeat split; auto.
  - subst e2. destruct (Hh e1 s1 a1 I1 P1) as [s2 [E2 [I2 [P2 R2]]]]. exists s2. repeat split; assumption.
Qed.

Lemma Jp_try_catch_expr : forall A (VR : status -> A -> A -> Prop) (m1 m2 : M A) h1 h2,
  Jp VR m1 m2 -> (forall e, Jp VR (h1 e) (h2 e)) -> Jp VR (try_catch_expr m1 h1) (try_catch_expr m2 h2).
Proof.
  intros A VR m1 m2 h1 h2 Hm Hh s a Hi Hp. unfold try_catch_expr.
  destruct (Hm s a Hi Hp) as [s1 [E1 [I1 [P1 R1]]]].
  destruct (m1 (so s a)) as [b1 r1], (m2 a) as [a1 r2]. cbn [fst snd] in *. subst b1.
  destruct r1 as [x|e1], r2 as [y|e2]; cbn in R1; try contradiction.
  - exists s1. cbn. repeat split; auto.
  - subst e2. destruct (x_expr e1).
    + destruct (Hh e1 s1 a1 I1 P1) as [s2 [E2 [I2 [P2 R2]]]]. exists s2. repeat split; assumption.
    + exists s1. cbn. repeat split; auto.
Qed.

Definition VRlist {A} (VR : status -> A -> A -> Prop) : status -> list A -> list A -> Prop :=
  fun s l1 l2 => Forall2 (VR s) l1 l2.

(* value relations that do not depend on the override *)
Definition Vconst {A} (R : A -> A -> Prop) : status -> A -> A -> Prop := fun _ => R.

Lemma Jp_mapM : forall A B (R : B -> B -> Prop) (f1 f2 : A -> M B) l,
  (forall x, Jp (Vconst R) (f1 x) (f2 x)) -> Jp (Vconst (Forall2 R)) (mapM f1 l) (mapM f2 l).
Proof.
  intros A B R f1 f2 l Hf; induction l as [|x l IH]; cbn [mapM].
  - apply Jp_ret. intro; constructor.
  - eapply Jp_bind; [apply Hf|]. intros s y1 y2 Hy.
    eapply Jp_bind; [exact IH|]. intros s' l1 l2 Hl. apply Jp_ret. intro. constructor; assumption.
Qed.

Lemma Jp_forM : forall A (f1 f2 : A -> M unit) l, (forall x, Jp Veq (f1 x) (f2 x)) -> Jp Veq (forM_ l f1) (forM_ l f2).
Proof.
  intros A f1 f2 l Hf; induction l as [|x l IH]; cbn [forM_].
  - apply Jp_ret. intro; reflexivity.
  - eapply Jp_bind; [apply Hf|]. intros s u1 u2 _. exact IH.
Qed.

Lemma Forall2_eq_eq : forall A (l l' : list A), Forall2 eq l l' -> l = l'.
Proof. intros A l l' H; induction H; [reflexivity|subst; reflexivity]. Qed.

Lemma Jp_mapM_eq : forall A B (f1 f2 : A -> M B) l, (forall x, Jp Veq (f1 x) (f2 x)) -> Jp Veq (mapM f1 l) (mapM f2 l).
Proof.
  intros A B f1 f2 l Hf. eapply Jp_weaken; [|apply (Jp_mapM _ _ eq); exact Hf].
  intros s x y H. apply Forall2_eq_eq. exact H.
Qed.

(* ------------------------------------------------------------------ failing the workflow: the two states merge *)

Lemma so_same : forall c, so (wstatus (c_ws c)) c = c.
Proof. intro c. apply set_status_same. Qed.

Lemma rsc_failed_value : forall x, tbl_step wf_table (wstatus (c_ws x)) "workflow_failed" = Some S_FAILED ->
  wstatus (c_ws x) <> S_FAILED -> request_status_core S_FAILED x = (so S_FAILED x, Val tt).
Proof.
  intros x Ht Hnf. destruct (request_status_core S_FAILED x) as [x' r] eqn:H.
  pose proof H as H0. rewrite request_status_core_eq in H. unfold bind at 1 in H.
  assert (HL : forall i r0, In (i, r0) (ws_tasks_by_status (c_ws x) ACTIVE_STATUSES) ->
                 nth_error (sequence (c_ws x)) i = Some r0 /\ ostatus_in (r_status r0) ACTIVE_STATUSES = true)
    by (intros i r0 Hin; apply tasks_by_status_In; exact Hin).
  rewrite push_failed_noop in H by (intros i r0 Hin; exists r0; apply HL; exact Hin).
  unfold request_tail in H. unfold bind at 1 in H. unfold wf_workflow_event_M, wf_process_workflow_event in H.
  assert (En : wf_workflow_event_name (c_ws x) S_FAILED = "workflow_failed").
  { unfold wf_workflow_event_name.
    replace (status_in S_FAILED (PAUSE_STATUSES ++ CANCEL_STATUSES)) with false by (vm_compute; reflexivity).
    replace (status_in S_FAILED [S_RUNNING; S_RESUMING]) with false by (vm_compute; reflexivity).
    rewrite andb_false_r. reflexivity. }
  rewrite En in H.
  replace (string_in "workflow_failed" WORKFLOW_EXECUTION_EVENTS) with true in H by (vm_compute; reflexivity).
  cbn [negb] in H. unfold tbl_step in Ht.
  destruct (tbl_row wf_table (wstatus (c_ws x))) as [row|]; [|discriminate]. rewrite Ht in H.
  replace (status_eqb S_FAILED S_SUCCEEDED) with false in H by reflexivity. rewrite andb_false_r in H.
  unfold bind at 1 in H. unfold log_unreachable in H. cbn [forM_] in H. unfold ret at 1 in H.
  unfold bind at 1, getws in H. cbv beta iota in H. cbn [c_ws set_ws wstatus ws_set_status] in H.
  replace (status_eqb S_FAILED S_PAUSED) with false in H by reflexivity.
  replace (status_eqb S_FAILED S_CANCELED) with false in H by reflexivity. cbn [andb] in H.
  assert (Eu : status_eqb (wstatus (c_ws x)) S_FAILED = false).
  { destruct (status_eqb (wstatus (c_ws x)) S_FAILED) eqn:E2; [|reflexivity]. apply status_eqb_eq in E2. contradiction. }
  rewrite Eu, andb_false_r in H. inversion H; subst. reflexivity.
Qed.

Lemma PairOK_failed_row : forall s x, PairOK s x -> s <> x ->
  tbl_step wf_table x "workflow_failed" = Some S_FAILED /\ tbl_step wf_table s "workflow_failed" = Some S_FAILED /\
  x <> S_FAILED /\ s <> S_FAILED.
Proof. intros s x [E|[-> [->| ->]]] Hne; [contradiction| |]; repeat split; try reflexivity; discriminate. Qed.

Lemma Jp_rsc_failed : Jp Veq (request_status_core S_FAILED) (request_status_core S_FAILED).
Proof.
  intros s a Hi Hp. destruct (status_eqb s (wstatus (c_ws a))) eqn:Es.
  - apply status_eqb_eq in Es. subst s. rewrite so_same.
    exists (wstatus (c_ws (fst (request_status_core S_FAILED a)))). rewrite so_same.
    split; [reflexivity|]. split; [|split; [left; reflexivity|]].
    + destruct (request_status_core S_FAILED a) as [a1 r] eqn:E. cbn [fst].
      pose proof (presi_request_status_core S_FAILED a a1 r E Hi) as X. exact X.
    + destruct (snd (request_status_core S_FAILED a)); cbn; reflexivity.
  - assert (Hne : s <> wstatus (c_ws a)) by (intro E; subst; rewrite status_eqb_refl in Es; discriminate).
    destruct (PairOK_failed_row _ _ Hp Hne) as [T1 [T2 [N1 N2]]].
    rewrite (rsc_failed_value a T1 N1). rewrite (rsc_failed_value (so s a) T2 N2).
    exists S_FAILED. cbn [fst snd]. split; [reflexivity|]. split; [exact Hi|]. split; [left; reflexivity|reflexivity].
Qed.

(* ------------------------------------------------------------------ state updates commute with the override *)

Lemma upd_comm : forall w s i f, ws_update_rec (ws_set_status w s) i f = ws_set_status (ws_update_rec w i f) s.
Proof. intros. unfold ws_update_rec. cbn [sequence ws_set_status]. destruct (nth_error (sequence w) i); reflexivity. Qed.

Lemma rem_comm : forall w s t r, ws_remove_staged_task (ws_set_status w s) t r = ws_set_status (ws_remove_staged_task w t r) s.
Proof.
  intros. unfold ws_remove_staged_task, get_staged_task. cbn [staged ws_set_status].
  destruct (find (stg_matches t r) (staged w)) as [e|]; [|reflexivity]. destruct (items_any_active e); reflexivity.
Qed.

(* queries that do not look at the workflow status *)
Lemma q_staged_so : forall w s t r, get_staged_task (ws_set_status w s) t r = get_staged_task w t r.
Proof. reflexivity. Qed.
Lemma q_idx_so : forall w s t r, ws_task_idx (ws_set_status w s) t r = ws_task_idx w t r.
Proof. reflexivity. Qed.
Lemma q_entry_so : forall w s t r, ws_task_entry (ws_set_status w s) t r = ws_task_entry w t r.
Proof. reflexivity. Qed.
Lemma q_gics_so : forall g w s t r, get_inbound_criteria_status g (ws_set_status w s) t r = get_inbound_criteria_status g w t r.
Proof. reflexivity. Qed.
Lemma q_tpe_so : forall w s r e, task_process_event (ws_set_status w s) r e = task_process_event w r e.
Proof. intros. destruct e; reflexivity. Qed.
Lemma q_terminal_so : forall w s, get_terminal_tasks (ws_set_status w s) = get_terminal_tasks w.
Proof. reflexivity. Qed.

Ltac jleaf :=
  first
    [ apply Jp_modws; [intros; first [reflexivity|apply upd_comm|apply rem_comm]
                      |intros; first [reflexivity|apply ws_update_rec_status|apply ws_remove_staged_status]]
    | apply Jp_modify; [intros; unfold so; cbn [c_errors set_ws c_ws]; try reflexivity;
                        match goal with |- context [if ?b then _ else _] => destruct b end; reflexivity
                       |intros; try reflexivity; match goal with |- context [if ?b then _ else _] => destruct b end; reflexivity
                       |intros; try reflexivity; match goal with |- context [if ?b then _ else _] => destruct b end; reflexivity]
    | apply Jp_rsc_failed
    | assumption
    | solve [eauto 3 with presjp] ].

Ltac jnorm :=
  cbv zeta; unfold so in *;
  cbn [c_spec c_graph c_inputs c_parent c_init c_ws c_errors c_log c_output set_ws
       contexts routes sequence staged tasks reruns wstatus ws_set_status] in *;
  fold so in *;
  repeat first [rewrite q_staged_so | rewrite q_idx_so | rewrite q_entry_so | rewrite q_gics_so | rewrite q_tpe_so].

Ltac jw :=
  jnorm;
  lazymatch goal with
  | |- Jp _ (ret _) (ret _) => apply Jp_ret; intro; first [reflexivity|idtac]
  | |- Jp _ (raise _) (raise _) => apply Jp_raise
  | |- Jp _ (bind getws _) (bind getws _) =>
      eapply Jp_bind; [apply Jp_getws|]; let s := fresh "s" in let w1 := fresh "w1" in let w2 := fresh "w2" in
      let E := fresh "E" in let P := fresh "Pw" in intros s w1 w2 [E P]; subst w1; jw
  | |- Jp _ (bind get _) (bind get _) =>
      eapply Jp_bind; [apply Jp_get|]; let s := fresh "s" in let c1 := fresh "c1" in let c2 := fresh "c2" in
      let E := fresh "E" in let P := fresh "Pc" in let I := fresh "Ic" in intros s c1 c2 [E [P I]]; subst c1; jw
  | |- Jp _ (bind _ _) (bind _ _) =>
      eapply (Jp_bind _ _ Veq); [jw|]; let s := fresh "s" in let x := fresh "x" in let y := fresh "y" in
      let E := fresh "E" in intros s x y E; unfold Veq in E; subst x; jw
  | |- Jp _ (try_catch _ _) (try_catch _ _) => apply Jp_try_catch; [jw|intro; jw]
  | |- Jp _ (try_catch_expr _ _) (try_catch_expr _ _) => apply Jp_try_catch_expr; [jw|intro; jw]
  | |- Jp _ (forM_ _ _) (forM_ _ _) => apply Jp_forM; intro; jw
  | |- Jp _ (mapM _ _) (mapM _ _) => apply Jp_mapM_eq; intro; jw
  | |- Jp _ (lift_res _) (lift_res _) => apply Jp_lift_res; intro;
      match goal with |- rrel _ ?r1 ?r2 => replace r1 with r2 by reflexivity; destruct r2; cbn; reflexivity end
  | |- Jp _ (match ?x with _ => _ end) (match ?y with _ => _ end) =>
      first [unify x y | replace x with y by reflexivity]; destruct y; jw
  | |- Jp _ ?m1 ?m2 =>
      first [ solve [jleaf]
            | let h := head_of m1 in progress (unfold h); jw
            | progress (cbv beta); jw
            | idtac ]
  end.

Create HintDb presjp.

Section Commute.
Variable ev : string -> dict -> evalres.
Hypothesis Hblind : state_blind ev.

Lemma Jp_eval : forall stmt c1 c2, sim c1 c2 -> Jp Veq (evaluate ev stmt c1) (evaluate ev stmt c2).
Proof. intros. apply Jp_same; [apply evaluate_pure|apply evaluate_pure|apply evaluate_same; assumption]. Qed.

Lemma Jp_eval_same : forall stmt c, Jp Veq (evaluate ev stmt c) (evaluate ev stmt c).
Proof. intros. apply Jp_eval. apply sim_refl. Qed.
Hint Resolve Jp_eval_same : presjp.

Lemma jp_log_entry_error : forall m t r tr res, Jp Veq (log_entry_error m t r tr res) (log_entry_error m t r tr res).
Proof. intros; unfold log_entry_error; jw. Qed.
Hint Resolve jp_log_entry_error : presjp.
Lemma jp_log_error : forall e t r tr, Jp Veq (log_error e t r tr) (log_error e t r tr).
Proof. intros; unfold log_error; auto with presjp. Qed.
Hint Resolve jp_log_error : presjp.
Lemma jp_log_errors : forall es t r tr, Jp Veq (log_errors es t r tr) (log_errors es t r tr).
Proof. intros; unfold log_errors; jw. Qed.
Hint Resolve jp_log_errors : presjp.
Lemma jp_set_rec_status : forall j st, Jp Veq (set_rec_status j st) (set_rec_status j st).
Proof. intros; unfold set_rec_status; jw. Qed.
Hint Resolve jp_set_rec_status : presjp.
Lemma jp_upd_rec : forall j f, Jp Veq (upd_rec j f) (upd_rec j f).
Proof. intros; unfold upd_rec; jw. Qed.
Hint Resolve jp_upd_rec : presjp.
Lemma jp_get_rec : forall j, Jp Veq (get_rec j) (get_rec j).
Proof. intros; unfold get_rec; jw. Qed.
Hint Resolve jp_get_rec : presjp.
Lemma jp_get_task_context : forall idxs, Jp Veq (get_task_context idxs) (get_task_context idxs).
Proof. intros; unfold get_task_context; jw. Qed.
Hint Resolve jp_get_task_context : presjp.
Lemma jp_setup_retry : forall t idxs, Jp Veq (setup_retry ev t idxs) (setup_retry ev t idxs).
Proof. intros; unfold setup_retry; jw. Qed.
Hint Resolve jp_setup_retry : presjp.
Lemma jp_add_task_state : forall t r ins p, Jp Veq (add_task_state ev t r ins p) (add_task_state ev t r ins p).
Proof. intros; unfold add_task_state; jw. Qed.
Hint Resolve jp_add_task_state : presjp.


Hint Resolve sim_refl sim_dset sim_state_ctx : presjp.
Lemma Jp_eval_hint : forall stmt c1 c2, sim c1 c2 -> Jp Veq (evaluate ev stmt c1) (evaluate ev stmt c2).
Proof. exact Jp_eval. Qed.
Hint Resolve Jp_eval_hint : presjp.

Lemma jp_render_vars : forall specs r1 r2 rendered errs, sim r1 r2 ->
  Jp Veq (render_vars ev specs r1 rendered errs) (render_vars ev specs r2 rendered errs).
Proof.
  induction specs as [|[n d] specs IH]; intros r1 r2 rendered errs Hs; cbn [render_vars]; [apply Jp_ret; intro; reflexivity|].
  eapply (Jp_bind _ _ Veq).
  - apply Jp_try_catch_expr; [|intro; apply Jp_ret; intro; reflexivity].
    eapply (Jp_bind _ _ Veq); [apply Jp_eval; exact Hs|]. intros s x y E; unfold Veq in E; subst. apply Jp_ret; intro; reflexivity.
  - intros s x y E; unfold Veq in E; subst x. destruct y as [v|e]; apply IH; [apply sim_dset|]; exact Hs.
Qed.

Lemma jp_finalize_context : forall ts e c1 c2, sim c1 c2 -> Jp Veq (finalize_context ev ts e c1) (finalize_context ev ts e c2).
Proof.
  intros ts e c1 c2 Hs. unfold finalize_context. destruct (nth_error (ts_next ts) (e_ref e)) as [tr|]; [|apply Jp_raise].
  destruct (string_in (e_dst e) (tr_do tr)); [apply jp_render_vars; exact Hs|apply Jp_ret; intro; reflexivity].
Qed.

Lemma jp_evaluate_route : forall e r, Jp Veq (evaluate_route e r) (evaluate_route e r).
Proof. intros; unfold evaluate_route; jw. Qed.
Hint Resolve jp_evaluate_route : presjp.

Lemma jp_evaluate_task_retry : forall r c1 c2, sim c1 c2 -> Jp Veq (evaluate_task_retry ev r c1) (evaluate_task_retry ev r c2).
Proof.
  intros r c1 c2 Hs. unfold evaluate_task_retry. destruct (r_retry r) as [rr|]; [|apply Jp_ret; intro; reflexivity].
  destruct (negb (py_is_int (rr_count rr))); [apply Jp_raise|].
  destruct (Z.leb _ _); [apply Jp_ret; intro; reflexivity|].
  destruct (status_in (rstatus r) ABENDED_STATUSES && is_jnull (rr_when rr)); [apply Jp_ret; intro; reflexivity|].
  eapply (Jp_bind _ _ Veq); [apply Jp_eval; exact Hs|]. intros s x y E; unfold Veq in E; subst. apply Jp_ret; intro; reflexivity.
Qed.

(* one transition, on contexts that differ at __state only *)
Lemma jp_process_transition : forall t route idx ts c1 c2 e, sim c1 c2 ->
  Jp Veq (process_transition ev t route idx ts c1 e) (process_transition ev t route idx ts c2 e).
Proof.
  intros t route idx ts c1 c2 e Hs. unfold process_transition. cbv zeta.
  eapply (Jp_bind _ _ Veq).
  - apply Jp_try_catch.
    + eapply (Jp_bind _ _ Veq); [apply Jp_mapM_eq; intro cr; apply Jp_eval; exact Hs|].
      intros s x y E; unfold Veq in E; subst x. jw.
    + intro x. jw.
  - intros s x y E; unfold Veq in E; subst x. destruct y as [[|]|]; try (apply Jp_ret; intro; reflexivity).
    eapply (Jp_bind _ _ Veq); [apply jp_finalize_context; exact Hs|].
    intros s0 x y E; unfold Veq in E; subst x. destruct y as [new_ctx errors]. destruct errors as [|x0 errs]; jw.
Qed.


(* ---- the pieces of update_task_state ---- *)
Lemma jp_need_staged : forall s0, Jp Veq (uts_need_staged s0) (uts_need_staged s0).
Proof. intros; unfold uts_need_staged; jw. Qed.
Hint Resolve jp_need_staged : presjp.
Lemma jp_sel1 : forall t s0 e0, Jp Veq (uts_sel1 ev t s0 e0) (uts_sel1 ev t s0 e0).
Proof. intros; unfold uts_sel1; jw. Qed.
Hint Resolve jp_sel1 : presjp.
Lemma jp_sel2 : forall t evt s0 r1 j, Jp Veq (uts_sel2 ev t evt s0 r1 j) (uts_sel2 ev t evt s0 r1 j).
Proof. intros; unfold uts_sel2; jw. Qed.
Hint Resolve jp_sel2 : presjp.
Lemma jp_unstage : forall t route evt s0, Jp Veq (uts_unstage t route evt s0) (uts_unstage t route evt s0).
Proof. intros; unfold uts_unstage; jw. Qed.
Hint Resolve jp_unstage : presjp.
Lemma jp_item : forall t route evt s0, Jp Veq (uts_item t route evt s0) (uts_item t route evt s0).
Proof. intros; unfold uts_item; jw. Qed.
Hint Resolve jp_item : presjp.
Lemma jp_logfail : forall t evt, Jp Veq (uts_logfail t evt) (uts_logfail t evt).
Proof. intros; unfold uts_logfail; jw. Qed.
Hint Resolve jp_logfail : presjp.
Lemma jp_setst : forall idx ns, Jp Veq (uts_setst idx ns) (uts_setst idx ns).
Proof. intros; unfold uts_setst; jw. Qed.
Hint Resolve jp_setst : presjp.
Lemma jp_retrying : forall t route idx r ns, Jp Veq (uts_retrying t route idx r ns) (uts_retrying t route idx r ns).
Proof. intros; unfold uts_retrying; jw. Qed.
Hint Resolve jp_retrying : presjp.

(* the completion step: the retry gate and the context handed to the transitions *)
Definition compl_sim (c1 c2 : option (dict * bool)) : Prop :=
  match c1, c2 with
  | Some (x1, b1), Some (x2, b2) => sim x1 x2 /\ b1 = b2
  | None, None => True
  | _, _ => False
  end.

Lemma PairOK_active : forall s x, PairOK s x -> status_in s ACTIVE_STATUSES = status_in x ACTIVE_STATUSES.
Proof. intros s x [->|[-> [->| ->]]]; reflexivity. Qed.

Lemma jp_completion : forall t route evt ts idx new old,
  Jp (Vconst compl_sim) (uts_completion ev t route evt ts idx new old) (uts_completion ev t route evt ts idx new old).
Proof.
  intros t route evt ts idx new old. unfold uts_completion.
  destruct (status_in new COMPLETED_STATUSES); [|apply Jp_ret; intro; exact I].
  eapply (Jp_bind _ _ Veq); [jw|]. intros s0 u1 u2 _. cbv zeta.
  eapply (Jp_bind _ _ Veq); [apply jp_get_rec|]. intros s1 r r' E; unfold Veq in E; subst r'.
  eapply (Jp_bind _ _ Veq); [apply jp_get_task_context|]. intros s2 in_ctx in_ctx' E; unfold Veq in E; subst in_ctx'.
  eapply Jp_bind; [apply Jp_getws|]. intros s3 w1 w2 [E Pw]; subst w1.
  cbn [wstatus ws_set_status]. rewrite (PairOK_active _ _ Pw).
  eapply (Jp_bind _ _ Veq).
  - apply Jp_try_catch.
    + destruct (negb (status_eqb new old) && status_in (wstatus w2) ACTIVE_STATUSES
                && tbl_transition_valid task_table new S_RETRYING);
        [apply jp_evaluate_task_retry; apply sim_state_ctx|apply Jp_ret; intro; reflexivity].
    + intro x. jw.
  - intros s4 b b' E; unfold Veq in E; subst b'. apply Jp_ret. intro. unfold Vconst, compl_sim. cbv beta iota.
    split; [apply sim_state_ctx|reflexivity].
Qed.

(* everything update_task_state does before its tail *)
Definition pre_sim (p1 p2 : pre_out) : Prop :=
  po_ts p1 = po_ts p2 /\ po_idx p1 = po_idx p2 /\ po_old p1 = po_old p2 /\ po_new p1 = po_new p2 /\
  compl_sim (po_compl p1) (po_compl p2).

Lemma jp_pre_machine : forall t route evt ts idx,
  Jp (Vconst pre_sim) (pre_machine ev t route evt ts idx) (pre_machine ev t route evt ts idx).
Proof.
  intros t route evt ts idx. unfold pre_machine.
  eapply (Jp_bind _ _ Veq); [apply jp_get_rec|]. intros s0 r r' E; unfold Veq in E; subst r'.
  eapply Jp_bind; [apply Jp_getws|]. intros s1 w1 w2 [E Pw]; subst w1. rewrite q_tpe_so.
  eapply (Jp_bind _ _ Veq); [apply Jp_lift_res; intro; destruct (task_process_event w2 r evt); cbn; reflexivity|].
  intros s2 ns ns' E; unfold Veq in E; subst ns'.
  eapply (Jp_bind _ _ Veq); [apply jp_setst|]. intros s3 u u' _.
  eapply (Jp_bind _ _ Veq); [apply jp_get_rec|]. intros s4 r1 r1' E; unfold Veq in E; subst r1'.
  eapply (Jp_bind _ _ Veq); [apply jp_retrying|]. intros s5 u1 u1' _.
  eapply Jp_bind; [apply jp_completion|]. intros s6 c1 c2 Hc. apply Jp_ret. intro. repeat split; assumption.
Qed.

Lemma jp_pre_main : forall t route evt ts s0 e0,
  Jp (Vconst pre_sim) (pre_main ev t route evt ts s0 e0) (pre_main ev t route evt ts s0 e0).
Proof.
  intros. unfold pre_main.
  eapply (Jp_bind _ _ Veq); [apply jp_sel1|]. intros s1 i1 i1' E; unfold Veq in E; subst i1'.
  eapply (Jp_bind _ _ Veq); [apply jp_get_rec|]. intros s2 r1 r1' E; unfold Veq in E; subst r1'.
  eapply (Jp_bind _ _ Veq); [apply jp_sel2|]. intros s3 i i' E; unfold Veq in E; subst i'.
  eapply (Jp_bind _ _ Veq); [apply jp_unstage|]. intros s4 u4 u4' _.
  eapply (Jp_bind _ _ Veq); [apply jp_item|]. intros s5 u5 u5' _.
  eapply (Jp_bind _ _ Veq); [apply jp_logfail|]. intros s6 u6 u6' _.
  apply jp_pre_machine.
Qed.

Lemma Jp_ensure_ws : Jp Veq (ensure_ws ev) (ensure_ws ev).
Proof.
  intros s a Hi Hp. assert (Hi' : c_init (so s a) = true) by exact Hi.
  rewrite (ensure_ws_inited ev a Hi), (ensure_ws_inited ev (so s a) Hi'). exists s. cbn. repeat split; auto.
Qed.

Lemma jp_prefix : forall t route evt, Jp (Vconst pre_sim) (uts_prefix ev t route evt) (uts_prefix ev t route evt).
Proof.
  intros t route evt. unfold uts_prefix.
  eapply (Jp_bind _ _ Veq); [apply Jp_ensure_ws|]. intros s0 u u' _.
  eapply Jp_bind; [apply Jp_get|]. intros s1 c1 c2 [E [Pc Ic]]; subst c1. jnorm.
  destruct (negb (g_has_task (c_graph c2) t)); [apply Jp_raise|].
  eapply (Jp_bind _ _ Veq).
  { destruct (spec_get_task (c_spec c2) t); [apply Jp_ret; intro; reflexivity|apply Jp_raise]. }
  intros s2 ts ts' E; unfold Veq in E; subst ts'.
  destruct (get_staged_task (c_ws c2) t route), (ws_task_idx (c_ws c2) t route); try apply jp_pre_main. apply Jp_raise.
Qed.


(* the transitions of a completed task, on contexts that differ at __state only *)
Lemma jp_queue : forall t route idx ts old new c1 c2, compl_sim c1 c2 ->
  Jp Veq (uts_queue ev t route idx ts old new c1) (uts_queue ev t route idx ts old new c2).
Proof.
  intros t route idx ts old new c1 c2 Hc. unfold uts_queue.
  destruct c1 as [[x1 b1]|], c2 as [[x2 b2]|]; cbn in Hc; try contradiction; [|apply Jp_ret; intro; reflexivity].
  destruct Hc as [Hs _]. destruct (negb (status_eqb new old)); [|apply Jp_ret; intro; reflexivity].
  eapply Jp_bind; [apply Jp_get|]. intros s1 cc1 cc2 [E [Pc Ic]]; subst cc1. jnorm.
  eapply (Jp_bind _ _ Veq); [jw|]. intros s2 u u' _.
  eapply (Jp_bind _ _ Veq); [apply Jp_mapM_eq; intro e; apply jp_process_transition; exact Hs|].
  intros s3 rs rs' E; unfold Veq in E; subst rs'. jw.
Qed.

(* ------------------------------------------------------------------ the end of the call *)

(* forget what the end of the call may legitimately set differently: the workflow status, the
   terminal flags (set when the workflow is found completed) and the error log (unreachable joins) *)
Definition forget_ws (w : wstate) : wstate :=
  {| contexts := contexts w; routes := routes w;
     sequence := map (fun r => r_set_term r false) (sequence w);
     staged := staged w; wstatus := S_UNSET; tasks := tasks w; reruns := reruns w |}.
Definition strip_tl (c : cstate) : cstate := set_errors (set_ws c (forget_ws (c_ws c))) [].

Lemma strip_tl_so : forall s c, strip_tl (so s c) = strip_tl c.
Proof. reflexivity. Qed.

Lemma strip_tl_errors : forall c E, strip_tl (set_errors c E) = strip_tl c.
Proof. reflexivity. Qed.

Lemma map_term_set_nth : forall l i r b, nth_error l i = Some r ->
  map (fun r0 => r_set_term r0 false) (list_set_nth i (r_set_term r b) l) = map (fun r0 => r_set_term r0 false) l.
Proof.
  induction l as [|a l IH]; intros [|i] r b H; simpl in *; try discriminate.
  - inversion H; subst. reflexivity.
  - f_equal. eapply IH; exact H.
Qed.

Lemma strip_tl_term : forall c i b, strip_tl (set_ws c (ws_update_rec (c_ws c) i (fun r => r_set_term r b))) = strip_tl c.
Proof.
  intros c i b. unfold strip_tl, ws_update_rec. destruct (nth_error (sequence (c_ws c)) i) as [r|] eqn:E; [|reflexivity].
  unfold forget_ws, set_errors, set_ws. cbn [c_spec c_graph c_inputs c_parent c_init c_ws c_errors c_log c_output
    contexts routes sequence staged wstatus tasks reruns ws_set_sequence].
  rewrite (map_term_set_nth _ _ _ _ E). reflexivity.
Qed.

Lemma log_error_only_errors : forall e t r tr c, exists E, log_error e t r tr c = (set_errors c E, Val tt).
Proof.
  intros e t r tr c. unfold log_error, log_entry_error, modify.
  destruct (existsb _ (c_errors c)); eexists; [|reflexivity].
  instantiate (1 := c_errors c). destruct c; reflexivity.
Qed.

Lemma log_unreachable_only_errors : forall l c, exists E, log_unreachable l c = (set_errors c E, Val tt).
Proof.
  unfold log_unreachable. induction l as [|s l IH]; intro c; cbn [forM_].
  - exists (c_errors c). unfold ret. destruct c; reflexivity.
  - unfold bind.
    match goal with |- context [log_error ?e ?t ?r ?tr c] => destruct (log_error_only_errors e t r tr c) as [E1 H1] end.
    rewrite H1. destruct (IH (set_errors c E1)) as [E HE]. rewrite HE. exists E. reflexivity.
Qed.

Definition wf_end (t : string) (route idx : nat) (st : status) : M unit :=
  unreachable <- wf_task_event_M t route st ;;
  log_unreachable unreachable ;;;
  w <- getws ;;
  if status_in (wstatus w) COMPLETED_STATUSES then upd_rec idx (fun r => r_set_term r true) else ret tt.

(* after the workflow-machine step: only the error log and a terminal flag are written, never an exception *)
Lemma after_wf_step : forall idx unr c, exists c',
  (log_unreachable unr ;;;
   w <- getws ;;
   if status_in (wstatus w) COMPLETED_STATUSES then upd_rec idx (fun r => r_set_term r true) else ret tt) c = (c', Val tt)
  /\ strip_tl c' = strip_tl c.
Proof.
  intros idx unr c. unfold bind at 1. destruct (log_unreachable_only_errors unr c) as [E HE]. rewrite HE.
  unfold bind, getws. cbv beta iota.
  destruct (status_in (wstatus (c_ws (set_errors c E))) COMPLETED_STATUSES).
  - eexists. split; [reflexivity|]. unfold upd_rec, modws. cbn [fst]. rewrite strip_tl_term. apply strip_tl_errors.
  - eexists. split; [reflexivity|]. apply strip_tl_errors.
Qed.

Lemma q_wfname_so : forall g w s t route st, wf_task_event_name g (ws_set_status w s) t route st = wf_task_event_name g w t route st.
Proof. reflexivity. Qed.

(* ---- the end of the call, exactly ---- *)
Definition after_step (idx : nat) (unr : list stg) : M unit :=
  log_unreachable unr ;;;
  w <- getws ;;
  if status_in (wstatus w) COMPLETED_STATUSES then upd_rec idx (fun r => r_set_term r true) else ret tt.

(* the unreachable-join check applied to a new workflow status *)
Definition adj (g : graph) (w : wstate) (new : status) : status * list stg :=
  if status_in new COMPLETED_STATUSES && negb (status_eqb new S_CANCELED)
  then fail_on_unreachable g (ws_set_status w new) else (new, []).

(* the state the call leaves, given the machine's answer *)
Definition land (idx : nat) (x : cstate) (p : status * list stg) : cstate :=
  fst (after_step idx (snd p) (set_ws x (ws_set_status (c_ws x) (fst p)))).

Lemma after_step_val : forall idx unr c, snd (after_step idx unr c) = Val tt.
Proof. intros. destruct (after_wf_step idx unr c) as [c' [E _]]. unfold after_step. rewrite E. reflexivity. Qed.

Lemma wf_end_run : forall t route idx st x,
  wf_end t route idx st x =
  let evn := wf_task_event_name (c_graph x) (c_ws x) t route st in
  if negb (string_in evn TASK_EXECUTION_EVENTS) then (x, Exc (exn_invalid_event evn))
  else match tbl_row wf_table (wstatus (c_ws x)) with
       | None => (x, Exc (exn_invalid_wf_transition (wstatus (c_ws x)) evn))
       | Some row => (land idx x (match aget String.eqb evn row with
                                  | None => (wstatus (c_ws x), [])
                                  | Some new => adj (c_graph x) (c_ws x) new
                                  end), Val tt)
       end.
Proof.
  intros t route idx st x. cbv zeta.
  unfold wf_end, bind at 1, wf_task_event_M, wf_process_task_event.
  set (evn := wf_task_event_name (c_graph x) (c_ws x) t route st).
  destruct (negb (string_in evn TASK_EXECUTION_EVENTS)); [reflexivity|].
  destruct (tbl_row wf_table (wstatus (c_ws x))) as [row|]; [|reflexivity].
  assert (K : forall p, after_step idx (snd p) (set_ws x (ws_set_status (c_ws x) (fst p))) = (land idx x p, Val tt)).
  { intro p. unfold land. pose proof (after_step_val idx (snd p) (set_ws x (ws_set_status (c_ws x) (fst p)))) as V.
    destruct (after_step idx (snd p) (set_ws x (ws_set_status (c_ws x) (fst p)))) as [c' r]. cbn in V |- *. subst r. reflexivity. }
  destruct (aget String.eqb evn row) as [new|].
  - unfold adj. destruct (status_in new COMPLETED_STATUSES && negb (status_eqb new S_CANCELED)).
    + destruct (fail_on_unreachable (c_graph x) (ws_set_status (c_ws x) new)) as [n u] eqn:E.
      exact (K (n, u)).
    + exact (K (new, [])).
  - exact (K (wstatus (c_ws x), [])).
Qed.

Lemma land_strip : forall idx x p, strip_tl (land idx x p) = strip_tl x.
Proof.
  intros idx x p. unfold land. destruct (after_wf_step idx (snd p) (set_ws x (ws_set_status (c_ws x) (fst p)))) as [c' [E S]].
  unfold after_step. rewrite E. cbn [fst]. rewrite S. reflexivity.
Qed.

Lemma land_so : forall idx s x p, land idx (so s x) p = land idx x p.
Proof. reflexivity. Qed.

Lemma land_status : forall idx x p, wstatus (c_ws (land idx x p)) = fst p.
Proof.
  intros idx x p. unfold land, after_step, bind at 1.
  destruct (log_unreachable_only_errors (snd p) (set_ws x (ws_set_status (c_ws x) (fst p)))) as [E HE]. rewrite HE.
  unfold bind, getws. cbv beta iota.
  destruct (status_in (wstatus (c_ws (set_errors (set_ws x (ws_set_status (c_ws x) (fst p))) E))) COMPLETED_STATUSES).
  - unfold upd_rec, modws. cbn [fst]. unfold ws_update_rec.
    destruct (nth_error (sequence (c_ws (set_errors (set_ws x (ws_set_status (c_ws x) (fst p))) E))) idx); reflexivity.
  - reflexivity.
Qed.

Lemma land_open : forall idx x n, status_in n COMPLETED_STATUSES = false -> land idx x (n, []) = so n x.
Proof.
  intros idx x n Hn. unfold land, after_step. cbn [fst snd]. unfold log_unreachable. cbn [forM_].
  unfold bind, ret, getws. cbv beta iota.
  change (wstatus (c_ws (set_ws x (ws_set_status (c_ws x) n)))) with n. rewrite Hn. reflexivity.
Qed.

Lemma adj_so : forall g w s new, adj g (ws_set_status w s) new = adj g w new.
Proof. reflexivity. Qed.

Lemma adj_open : forall g w new, status_in new COMPLETED_STATUSES = false -> adj g w new = (new, []).
Proof. intros g w new H. unfold adj. rewrite H. reflexivity. Qed.

Lemma adj_closed : forall g w new, status_in new COMPLETED_STATUSES = true ->
  status_in (fst (adj g w new)) COMPLETED_STATUSES = true.
Proof.
  intros g w new H. unfold adj. destruct (status_in new COMPLETED_STATUSES && negb (status_eqb new S_CANCELED)); [|exact H].
  unfold fail_on_unreachable. destruct (get_unreachable_barriers g (ws_set_status w new)); [exact H|reflexivity].
Qed.

(* the pausing row against the running row, on task events *)
Definition done (s : status) : bool := status_in s COMPLETED_STATUSES.
Definition pair_out (na nb : status) : Prop :=
  na = nb \/ (done na = false /\ done nb = false) \/ (done na = true /\ nb = S_PAUSED).

Definition held_status (s : status) : Prop := s = S_PAUSING \/ s = S_RESUMING.

Lemma F_pair_running : forall s e na, held_status s -> string_in e TASK_EXECUTION_EVENTS = true ->
  tbl_step wf_table S_RUNNING e = Some na ->
  match tbl_step wf_table s e with Some nb => pair_out na nb | None => done na = false end.
Proof.
  intros s e na Hs He H.
  assert (T : table_forall wf_table
     (fun s0 e x => negb (status_eqb s0 S_RUNNING && string_in e TASK_EXECUTION_EVENTS) ||
        match tbl_step wf_table s e with
        | Some y => status_eqb x y || (negb (done x) && negb (done y)) || (done x && status_eqb y S_PAUSED)
        | None => negb (done x)
        end) = true) by (destruct Hs as [->| ->]; vm_compute; reflexivity).
  pose proof (table_forall_step _ _ T _ _ _ H) as P. cbv beta in P. rewrite status_eqb_refl, He in P.
  cbn [andb negb orb] in P. destruct (tbl_step wf_table s e) as [nb|].
  - unfold pair_out. destruct (status_eqb na nb) eqn:E1; [left; apply status_eqb_eq; exact E1|].
    cbn [orb] in P. destruct (done na), (done nb); cbn in P; try discriminate.
    + right; right. split; [reflexivity|]. apply status_eqb_eq; exact P.
    + right; right. split; [reflexivity|]. apply status_eqb_eq; exact P.
    + right; left. split; reflexivity.
  - destruct (done na); [discriminate|reflexivity].
Qed.

Lemma F_pair_held : forall s e nb, held_status s -> string_in e TASK_EXECUTION_EVENTS = true ->
  tbl_step wf_table s e = Some nb -> tbl_step wf_table S_RUNNING e = None -> done nb = false.
Proof.
  intros s e nb Hs He H Hn.
  assert (T : table_forall wf_table
     (fun s0 e y => negb (status_eqb s0 s && string_in e TASK_EXECUTION_EVENTS) ||
        match tbl_step wf_table S_RUNNING e with Some _ => true | None => negb (done y) end) = true)
    by (destruct Hs as [->| ->]; vm_compute; reflexivity).
  pose proof (table_forall_step _ _ T _ _ _ H) as P. cbv beta in P. rewrite status_eqb_refl, He, Hn in P.
  cbn [andb negb orb] in P. destruct (done nb); [discriminate|reflexivity].
Qed.

(* the final judgement: same result; same state up to workflow status, terminal flags and error log; and
   the two states differ by the workflow status alone unless the plain run has just completed the workflow
   while the overridden one came to rest as paused *)
Definition Fin3 (b a : cstate) : Prop :=
  strip_tl b = strip_tl a /\ c_init a = true /\
  (b = so (wstatus (c_ws b)) a \/
   (wstatus (c_ws b) = S_PAUSED /\ status_in (wstatus (c_ws a)) COMPLETED_STATUSES = true)).

(* ... and while the plain run is still running with an active task, the two statuses still form a pair *)
Definition Fin (b a : cstate) : Prop :=
  Fin3 b a /\
  (wstatus (c_ws a) = S_RUNNING -> has_active_tasks (c_ws a) = true -> PairOK (wstatus (c_ws b)) (wstatus (c_ws a))).

Lemma Fin_so : forall s a, c_init a = true -> PairOK s (wstatus (c_ws a)) -> Fin (so s a) a.
Proof.
  intros s a Hi Hp. split; [|intros _ _; exact Hp]. split; [apply strip_tl_so|]. split; [exact Hi|]. left. reflexivity.
Qed.

(* the active records are not affected by what strip_tl forgets *)
Lemma tasks_by_status_forget : forall w l,
  map fst (ws_tasks_by_status (forget_ws w) l) = map fst (ws_tasks_by_status w l).
Proof.
  intros w l. unfold ws_tasks_by_status, enumerate. cbn [sequence forget_ws].
  change (ws_pointed (forget_ws w)) with (ws_pointed w).
  generalize 0. induction (sequence w) as [|r sq IH]; intro n; [reflexivity|]. cbn [map enumerate_from filter].
  change (r_status (r_set_term r false)) with (r_status r).
  destruct (ostatus_in (r_status r) l && ws_pointed w n); cbn [map fst]; rewrite IH; reflexivity.
Qed.

Lemma has_active_forget : forall w, has_active_tasks (forget_ws w) = has_active_tasks w.
Proof.
  intro w. unfold has_active_tasks. pose proof (tasks_by_status_forget w ACTIVE_STATUSES) as H.
  destruct (ws_tasks_by_status (forget_ws w) ACTIVE_STATUSES), (ws_tasks_by_status w ACTIVE_STATUSES);
    try reflexivity; discriminate H.
Qed.

Lemma strip_tl_active : forall a b, strip_tl a = strip_tl b -> has_active_tasks (c_ws a) = has_active_tasks (c_ws b).
Proof.
  intros a b H. rewrite <- (has_active_forget (c_ws a)), <- (has_active_forget (c_ws b)).
  change (has_active_tasks (c_ws (strip_tl a)) = has_active_tasks (c_ws (strip_tl b))). rewrite H. reflexivity.
Qed.

Lemma strip_tl_init : forall a b, strip_tl a = strip_tl b -> c_init a = c_init b.
Proof. intros a b H. change (c_init (strip_tl a) = c_init (strip_tl b)). rewrite H. reflexivity. Qed.

Definition Jf (G : graph -> Prop) (m1 m2 : M unit) : Prop :=
  forall s a, c_init a = true -> PairOK s (wstatus (c_ws a)) -> G (c_graph a) ->
    snd (m1 (so s a)) = snd (m2 a) /\ Fin (fst (m1 (so s a))) (fst (m2 a)).

Lemma PairOK_rows : forall s x, PairOK s x -> s <> x ->
  (exists r1, tbl_row wf_table x = Some r1) /\ (exists r2, tbl_row wf_table s = Some r2).
Proof. intros s x [E|[-> [->| ->]]] Hne; [contradiction| |]; split; vm_compute; eexists; reflexivity. Qed.

Lemma land_pair : forall idx x g na nb, pair_out na nb ->
  Fin3 (land idx x (adj g (c_ws x) nb)) (land idx x (adj g (c_ws x) na)) \/ c_init x = false.
Proof.
  intros idx x g na nb HP. destruct (c_init x) eqn:Hi; [left|right; reflexivity].
  split; [rewrite !land_strip; reflexivity|]. split; [rewrite <- Hi; apply strip_tl_init; apply land_strip|].
  destruct HP as [E|[[Ha Hb]|[Ha Hb]]].
  - subst nb. left. rewrite so_same. reflexivity.
  - unfold done in Ha, Hb. rewrite (adj_open _ _ _ Ha), (adj_open _ _ _ Hb). rewrite !land_open by assumption.
    left. change (wstatus (c_ws (so nb x))) with nb. rewrite so_so. reflexivity.
  - subst nb. right. rewrite !land_status. rewrite (adj_open _ _ S_PAUSED eq_refl). split; [reflexivity|].
    apply adj_closed. exact Ha.
Qed.

Lemma wf_end_Fin3 : forall t route idx st s a, c_init a = true -> PairOK s (wstatus (c_ws a)) ->
  snd (wf_end t route idx st (so s a)) = snd (wf_end t route idx st a) /\
  Fin3 (fst (wf_end t route idx st (so s a))) (fst (wf_end t route idx st a)).
Proof.
  intros t route idx st s a Hi Hp. destruct (status_eqb s (wstatus (c_ws a))) eqn:Es.
  { apply status_eqb_eq in Es. subst s. rewrite so_same. split; [reflexivity|].
    split; [reflexivity|]. split.
    - rewrite <- Hi. apply strip_tl_init. rewrite wf_end_run. cbv zeta.
      destruct (negb _); [reflexivity|]. destruct (tbl_row wf_table (wstatus (c_ws a))); [|reflexivity].
      cbn [fst]. apply land_strip.
    - left. rewrite so_same. reflexivity. }
  assert (Hne : s <> wstatus (c_ws a)) by (intro E; subst; rewrite status_eqb_refl in Es; discriminate).
  destruct Hp as [E|[Hx Hs]]; [contradiction|]. change (held_status s) in Hs.
  assert (Ho : status_in s COMPLETED_STATUSES = false) by (destruct Hs as [->| ->]; reflexivity).
  rewrite !wf_end_run. cbv zeta. change (c_graph (so s a)) with (c_graph a).
  change (c_ws (so s a)) with (ws_set_status (c_ws a) s). rewrite q_wfname_so.
  change (wstatus (ws_set_status (c_ws a) s)) with s. rewrite Hx.
  set (evn := wf_task_event_name (c_graph a) (c_ws a) t route st).
  destruct (negb (string_in evn TASK_EXECUTION_EVENTS)) eqn:Ev.
  { cbn [fst snd]. split; [reflexivity|]. split; [apply strip_tl_so|]. split; [exact Hi|]. left. reflexivity. }
  apply negb_false_iff in Ev.
  destruct (tbl_row wf_table S_RUNNING) as [r1|] eqn:R1; [|discriminate R1].
  destruct (tbl_row wf_table s) as [r2|] eqn:R2; [|destruct Hs as [->| ->]; discriminate R2].
  cbn [fst snd]. split; [reflexivity|]. rewrite land_so.
  assert (S1 : tbl_step wf_table S_RUNNING evn = aget String.eqb evn r1) by (unfold tbl_step; rewrite R1; reflexivity).
  assert (S2 : tbl_step wf_table s evn = aget String.eqb evn r2) by (unfold tbl_step; rewrite R2; reflexivity).
  destruct (aget String.eqb evn r1) as [na|] eqn:A1.
  - pose proof (F_pair_running s evn na Hs Ev S1) as P. rewrite S2 in P.
    destruct (aget String.eqb evn r2) as [nb|] eqn:A2.
    + rewrite adj_so. destruct (land_pair idx a (c_graph a) na nb P) as [F|F]; [exact F|congruence].
    + assert (P' : pair_out na s) by (right; left; split; [exact P|exact Ho]).
      destruct (land_pair idx a (c_graph a) na s P') as [F|F]; [|congruence].
      rewrite (adj_open _ _ s Ho) in F. exact F.
  - destruct (aget String.eqb evn r2) as [nb|] eqn:A2.
    + pose proof (F_pair_held s evn nb Hs Ev S2 S1) as P. rewrite adj_so.
      assert (P' : pair_out S_RUNNING nb) by (right; left; split; [reflexivity|exact P]).
      destruct (land_pair idx a (c_graph a) S_RUNNING nb P') as [F|F]; [|congruence].
      rewrite (adj_open _ _ S_RUNNING eq_refl) in F. exact F.
    + assert (P' : pair_out S_RUNNING s) by (right; left; split; [reflexivity|exact Ho]).
      destruct (land_pair idx a (c_graph a) S_RUNNING s P') as [F|F]; [|congruence].
      rewrite (adj_open _ _ S_RUNNING eq_refl), (adj_open _ _ s Ho) in F. exact F.
Qed.



(* the pairing clause at the workflow-machine step *)
Definition stay_ok (s : status) (e : string) : bool :=
  negb (string_in e TASK_EXECUTION_EVENTS) ||
  negb (match tbl_step wf_table S_RUNNING e with Some x => status_eqb x S_RUNNING | None => true end) ||
  match tbl_step wf_table s e with Some y => status_eqb y s || status_eqb y S_RUNNING | None => true end.

Lemma F_stay_pausing : forall st rem c p m, stay_ok S_PAUSING (task_event_name_of st rem true c p m) = true.
Proof. intros st rem c p m. destruct st, rem, c, p, m; vm_compute; reflexivity. Qed.
Lemma F_stay_resuming : forall st rem c p m, stay_ok S_RESUMING (task_event_name_of st rem true c p m) = true.
Proof. intros st rem c p m. destruct st, rem, c, p, m; vm_compute; reflexivity. Qed.

Lemma land_active : forall idx x p, has_active_tasks (c_ws (land idx x p)) = has_active_tasks (c_ws x).
Proof. intros. apply strip_tl_active. apply land_strip. Qed.

Lemma adj_running : forall g w n, fst (adj g w n) = S_RUNNING -> n = S_RUNNING /\ adj g w n = (S_RUNNING, []).
Proof.
  intros g w n H. destruct (status_in n COMPLETED_STATUSES) eqn:E.
  - pose proof (adj_closed g w n E) as C. rewrite H in C. discriminate C.
  - rewrite (adj_open g w n E) in H |- *. cbn [fst] in H. subst n. split; reflexivity.
Qed.

Lemma wf_end_busy : forall t route idx st s a, held_status s -> wstatus (c_ws a) = S_RUNNING ->
  wstatus (c_ws (fst (wf_end t route idx st a))) = S_RUNNING ->
  has_active_tasks (c_ws (fst (wf_end t route idx st a))) = true ->
  PairOK (wstatus (c_ws (fst (wf_end t route idx st (so s a))))) (wstatus (c_ws (fst (wf_end t route idx st a)))).
Proof.
  intros t route idx st s a Hs Hx.
  assert (Ho : status_in s COMPLETED_STATUSES = false) by (destruct Hs as [->| ->]; reflexivity).
  assert (Hp0 : PairOK s S_RUNNING) by (right; split; [reflexivity|exact Hs]).
  rewrite !wf_end_run. cbv zeta. change (c_graph (so s a)) with (c_graph a).
  change (c_ws (so s a)) with (ws_set_status (c_ws a) s). rewrite q_wfname_so.
  change (wstatus (ws_set_status (c_ws a) s)) with s. rewrite Hx.
  set (evn := wf_task_event_name (c_graph a) (c_ws a) t route st).
  destruct (negb (string_in evn TASK_EXECUTION_EVENTS)) eqn:Ev.
  { cbn [fst]. intros _ _. rewrite Hx. exact Hp0. }
  apply negb_false_iff in Ev.
  destruct (tbl_row wf_table S_RUNNING) as [r1|] eqn:R1; [|discriminate R1].
  destruct (tbl_row wf_table s) as [r2|] eqn:R2; [|destruct Hs as [->| ->]; discriminate R2].
  cbn [fst]. rewrite land_so, !land_status, land_active. intros H1 H2.
  assert (S1 : tbl_step wf_table S_RUNNING evn = aget String.eqb evn r1) by (unfold tbl_step; rewrite R1; reflexivity).
  assert (S2 : tbl_step wf_table s evn = aget String.eqb evn r2) by (unfold tbl_step; rewrite R2; reflexivity).
  assert (K : stay_ok s evn = true).
  { unfold evn, wf_task_event_name. rewrite H2. destruct Hs as [->| ->]; [apply F_stay_pausing|apply F_stay_resuming]. }
  unfold stay_ok in K. rewrite Ev, S1, S2 in K. cbn [negb orb] in K. rewrite H1.
  assert (Ka : match aget String.eqb evn r1 with Some x => status_eqb x S_RUNNING | None => true end = true).
  { destruct (aget String.eqb evn r1) as [na|]; [|reflexivity].
    destruct (adj_running _ _ _ H1) as [-> _]. reflexivity. }
  rewrite Ka in K. cbn [negb orb] in K.
  destruct (aget String.eqb evn r2) as [nb|].
  - rewrite adj_so. apply orb_prop in K. destruct K as [K|K]; apply status_eqb_eq in K; subst nb.
    + rewrite (adj_open _ _ s Ho). exact Hp0.
    + rewrite (adj_open _ _ S_RUNNING eq_refl). left; reflexivity.
  - exact Hp0.
Qed.

Lemma wf_end_Jf : forall G t route idx st, Jf G (wf_end t route idx st) (wf_end t route idx st).
Proof.
  intros G t route idx st s a Hi Hp _. destruct (wf_end_Fin3 t route idx st s a Hi Hp) as [R F].
  split; [exact R|]. split; [exact F|]. intros H1 H2.
  destruct (status_eqb s (wstatus (c_ws a))) eqn:Es.
  { apply status_eqb_eq in Es. subst s. rewrite so_same. left; reflexivity. }
  assert (Hne : s <> wstatus (c_ws a)) by (intro E; subst; rewrite status_eqb_refl in Es; discriminate).
  destruct Hp as [E|[Hx Hs]]; [contradiction|]. apply wf_end_busy; assumption.
Qed.


(* ---- composing: a mirrored piece, then a final piece ---- *)
Lemma Jf_of_Jp : forall G (m1 m2 : M unit), Jp Veq m1 m2 -> Jf G m1 m2.
Proof.
  intros G m1 m2 H s a Hi Hp _. destruct (H s a Hi Hp) as [s' [E [I' [P' R]]]].
  split; [|rewrite E; apply Fin_so; [exact I'|exact P']].
  destruct (snd (m1 (so s a))) as [[]|e1], (snd (m2 a)) as [[]|e2]; cbn in R; try contradiction; congruence.
Qed.

Lemma Jf_bind_run : forall A (VR : status -> A -> A -> Prop) (m1 m2 : M A) (f1 f2 : A -> M unit) (G : graph -> Prop) (Qy : A -> Prop),
  Jp VR m1 m2 -> preserves Rg m2 -> (forall a a1 y, m2 a = (a1, Val y) -> G (c_graph a) -> Qy y) ->
  (forall s x y, VR s x y -> Qy y -> Jf G (f1 x) (f2 y)) -> Jf G (bind m1 f1) (bind m2 f2).
Proof.
  intros A VR m1 m2 f1 f2 G Qy Hm Hg Hq Hf s a Hi Hp HG. unfold bind.
  destruct (Hm s a Hi Hp) as [s1 [E1 [I1 [P1 R1]]]].
  destruct (m2 a) as [a1 r2] eqn:E2. destruct (m1 (so s a)) as [b1 r1]. cbn [fst snd] in *. subst b1.
  assert (HG1 : G (c_graph a1)) by (rewrite (Hg _ _ _ E2); exact HG).
  destruct r1 as [x|e1], r2 as [y|e2]; cbn in R1; try contradiction.
  - apply (Hf s1 x y R1 (Hq _ _ _ E2 HG) s1 a1 I1 P1 HG1).
  - subst e2. cbn [fst snd]. split; [reflexivity|apply Fin_so; [exact I1|exact P1]].
Qed.


(* ---- no engine command among the transitions of the task: nothing is queued ---- *)
Definition no_cmd (t : string) (g : graph) : Prop :=
  forall e, In e (g_next_transitions g t) -> is_engine_command (e_dst e) = false.

Lemma pt_cmd_dst : forall t route idx ts ctx e,
  vpost (fun res => forall x, fst res = Some x -> is_engine_command (e_dst e) = true)
        (process_transition ev t route idx ts ctx e).
Proof.
  intros; unfold process_transition. apply vpost_bind; intros [[|]|];
    try (apply vpost_ret; intros x Hx; discriminate).
  apply vpost_bind; intros [new_ctx errors]. destruct errors as [|e1 errs].
  2: { repeat (apply vpost_bind; intro). apply vpost_ret; intros x Hx; discriminate. }
  repeat (apply vpost_bind; intro).
  destruct (is_engine_command (e_dst e)) eqn:E.
  - apply vpost_ret; intros x Hx; reflexivity.
  - match goal with |- vpost _ (if ?b then _ else _) => destruct b end; apply vpost_ret; intros x Hx; discriminate.
Qed.

Lemma queue_nil_nocmd : forall t route idx ts old new compl a a1 q,
  uts_queue ev t route idx ts old new compl a = (a1, Val q) -> no_cmd t (c_graph a) -> q = [].
Proof.
  intros t route idx ts old new compl a a1 q H Hn. unfold uts_queue in H.
  destruct compl as [[cctx b]|]; [|inversion H; reflexivity].
  destruct (negb (status_eqb new old)); [|inversion H; reflexivity].
  apply bind_val_inv' in H. destruct H as [c0 [cst [E0 H]]]. inversion E0; subst c0 cst; clear E0. cbv zeta in H.
  apply bind_val_inv' in H. destruct H as [c1 [u1 [_ H]]].
  apply bind_val_inv' in H. destruct H as [c2 [rs [E2 H]]].
  apply bind_val_inv' in H. destruct H as [c3 [u3 [_ H]]].
  apply bind_val_inv' in H. destruct H as [c4 [r4 [_ H]]].
  apply bind_val_inv' in H. destruct H as [c5 [u5 [_ H]]]. inversion H; subst. clear H.
  pose proof (vpost_mapM _ _ (fun e res => forall x, fst res = Some x -> is_engine_command (e_dst e) = true)
                 (process_transition ev t route idx ts cctx) (g_next_transitions (c_graph a) t)
                 (fun e => pt_cmd_dst t route idx ts cctx e) _ _ _ E2) as F.
  clear E2.
  assert (G : forall l rs, Forall2 (fun e res => forall x, fst res = Some x -> is_engine_command (e_dst e) = true) l rs ->
              (forall e, In e l -> is_engine_command (e_dst e) = false) ->
              flat_map (fun (r : option (string * nat) * option (string * nat)) => let '(q0, _) := r in match q0 with Some x => [x] | None => [] end) rs = (@nil (string * nat))).
  { clear. intros l rs F; induction F as [|e [q0 q1] l rs He F IH]; intro Hl; [reflexivity|]. simpl.
    destruct q0 as [x|].
    - specialize (He x eq_refl). rewrite (Hl e (or_introl eq_refl)) in He. discriminate.
    - apply IH. intros e' He'. apply Hl. right; exact He'. }
  eapply G; [exact F|]. exact Hn.
Qed.


(* ---- the tail of the call, for a task with no engine-command transition ---- *)
Lemma tail_Jf : forall (rec : string -> nat -> event -> M unit) t route,
  (forall evt, Jf (no_cmd t) (rec t route evt) (rec t route evt)) ->
  forall p1 p2, pre_sim p1 p2 -> Jf (no_cmd t) (tail_of ev rec t route p1) (tail_of ev rec t route p2).
Proof.
  intros rec t route IH p1 p2 [E1 [E2 [E3 [E4 Hc]]]]. unfold tail_of. rewrite E1, E2, E3, E4.
  generalize (po_ts p2) (po_idx p2) (po_old p2) (po_new p2). intros ts idx old new.
  assert (Common : Jf (no_cmd t)
    (queue <- uts_queue ev t route idx ts old new (po_compl p1) ;;
      r <- get_rec idx ;;
      st <- (match r_status r with Some s => ret s | None => raise (exn_key "status") end) ;;
      unreachable <- wf_task_event_M t route st ;;
      log_unreachable unreachable ;;;
      forM_ queue (uts_call rec) ;;;
      w <- getws ;;
      if status_in (wstatus w) COMPLETED_STATUSES then upd_rec idx (fun r => r_set_term r true) else ret tt)
    (queue <- uts_queue ev t route idx ts old new (po_compl p2) ;;
      r <- get_rec idx ;;
      st <- (match r_status r with Some s => ret s | None => raise (exn_key "status") end) ;;
      unreachable <- wf_task_event_M t route st ;;
      log_unreachable unreachable ;;;
      forM_ queue (uts_call rec) ;;;
      w <- getws ;;
      if status_in (wstatus w) COMPLETED_STATUSES then upd_rec idx (fun r => r_set_term r true) else ret tt)).
  { eapply (Jf_bind_run _ Veq _ _ _ _ _ (fun q => q = [])).
    - apply jp_queue; exact Hc.
    - apply pg_queue.
    - intros a a1 q Hq Hg. eapply queue_nil_nocmd; eassumption.
    - intros s q1 q2 Eq Hq. unfold Veq in Eq. subst q1 q2.
      eapply (Jf_bind_run _ Veq _ _ _ _ _ (fun _ => True)); [apply jp_get_rec|apply pg_get_rec|trivial|].
      intros s0 r r' Er _. unfold Veq in Er; subst r'.
      eapply (Jf_bind_run _ Veq _ _ _ _ _ (fun _ => True)).
      + destruct (r_status r); [apply Jp_ret; intro; reflexivity|apply Jp_raise].
      + destruct (r_status r); intros c c' x Hx; inversion Hx; reflexivity.
      + trivial.
      + intros s1 st st' Est _. unfold Veq in Est; subst st'.
        exact (wf_end_Jf (no_cmd t) t route idx st). }
  unfold uts_tail.
  destruct (po_compl p1) as [[x1 b1]|] eqn:C1, (po_compl p2) as [[x2 b2]|] eqn:C2; cbn in Hc; try contradiction.
  - destruct Hc as [_ <-]. destruct b1; [apply IH|exact Common].
  - exact Common.
Qed.

(* ---- THE CALL: a report handled under the overridden workflow status mirrors the report handled plainly ---- *)
Lemma uts_Jf : forall fuel t route evt,
  Jf (no_cmd t) (update_task_state_fuel ev fuel t route evt) (update_task_state_fuel ev fuel t route evt).
Proof.
  induction fuel as [|fuel IH]; intros t route evt.
  - apply Jf_of_Jp. apply Jp_raise.
  - intros s a Hi Hp Hg. rewrite !uts_unfold, !body_eq.
    refine (Jf_bind_run _ (Vconst pre_sim) _ _ _ _ (no_cmd t) (fun _ => True) (jp_prefix t route evt) (pg_prefix ev t route evt) _ _ s a Hi Hp Hg).
    + trivial.
    + intros s0 p1 p2 Hps _. apply tail_Jf; [|exact Hps]. intro evt'. apply IH.
Qed.


(* ================================================================== the theorems *)

(* ONE REPORT.  [so s c] is c with the workflow status replaced by s. *)
Theorem report_commutes_with_status_override_partial : forall t route evt s c,
  c_init c = true -> PairOK s (wstatus (c_ws c)) -> no_cmd t (c_graph c) ->
  snd (update_task_state ev t route evt (so s c)) = snd (update_task_state ev t route evt c) /\
  Fin (fst (update_task_state ev t route evt (so s c))) (fst (update_task_state ev t route evt c)).
Proof. intros t route evt s c Hi Hp Hg. exact (uts_Jf 3 t route evt s c Hi Hp Hg). Qed.

(* ... against an accepted pause request *)
Theorem report_commutes_with_pause_partial : forall st t route evt c c_p r,
  c_init c = true -> wstatus (c_ws c) = S_RUNNING -> no_item_tables c -> no_cmd t (c_graph c) ->
  pause_class st -> request_workflow_status ev st c = (c_p, r) -> wstatus (c_ws c_p) = S_PAUSING ->
  snd (update_task_state ev t route evt c_p) = snd (update_task_state ev t route evt c) /\
  Fin (fst (update_task_state ev t route evt c_p)) (fst (update_task_state ev t route evt c)).
Proof.
  intros st t route evt c c_p r Hi Hr Hni Hg Hst H Hp.
  unfold request_workflow_status, bind in H. rewrite (ensure_ws_inited ev c Hi) in H.
  destruct (request_status_core st c) as [c1 r1] eqn:E. assert (c1 = c_p) by (destruct r1; inversion H; reflexivity). subst c1.
  pose proof (pause_of_plain_tasks_changes_workflow_status_only st c c_p r1 Hst Hni E) as Ec. rewrite Hp in Ec.
  change (c_p = so S_PAUSING c) in Ec. rewrite Ec.
  apply report_commutes_with_status_override_partial; [exact Hi| |exact Hg]. right. split; [exact Hr|left; reflexivity].
Qed.

(* what Fin gives when the plain run has not completed the workflow: equal up to the workflow status,
   in particular equal under PauseProofs.strip *)
Lemma Fin_open : forall b a, Fin b a -> status_in (wstatus (c_ws a)) COMPLETED_STATUSES = false ->
  b = so (wstatus (c_ws b)) a /\ strip b = strip a.
Proof.
  intros b a [[_ [_ [E|[_ E]]]] _] Hn; [|congruence]. split; [exact E|]. rewrite E. reflexivity.
Qed.

(* what Fin gives always *)
Lemma Fin_strip_tl : forall b a, Fin b a -> strip_tl b = strip_tl a.
Proof. intros b a [[E _] _]; exact E. Qed.

(* SEVERAL REPORTS. *)
Definition report : Type := (string * nat * event)%type.
Definition op_of (r : report) : api_op := let '(t, route, e) := r in OpEvent t route e.

Fixpoint run_trace (ops : list api_op) (c : cstate) : list (result api_result) :=
  match ops with
  | [] => []
  | op :: rest => snd (api_exec ev op c) :: run_trace rest (fst (api_exec ev op c))
  end.

(* between two reports the overridden run and the plain run still form a pair: neither has come to rest *)
Fixpoint in_step (evs : list report) (b a : cstate) : Prop :=
  match evs with
  | [] => True
  | r :: rest =>
      match rest with
      | [] => True
      | _ => let b1 := fst (api_exec ev (op_of r) b) in let a1 := fst (api_exec ev (op_of r) a) in
             PairOK (wstatus (c_ws b1)) (wstatus (c_ws a1)) /\ in_step rest b1 a1
      end
  end.

Lemma api_event_run : forall t route e c,
  api_exec ev (OpEvent t route e) c =
  (fst (update_task_state ev t route e c),
   match snd (update_task_state ev t route e c) with Val _ => Val RUnit | Exc x => Exc x end).
Proof.
  intros. cbn [api_exec]. unfold bind, ret. destruct (update_task_state ev t route e c) as [c' [u|x]]; reflexivity.
Qed.

Theorem reports_commute_with_status_override_partial : forall evs s a,
  c_init a = true -> PairOK s (wstatus (c_ws a)) ->
  (forall t route e, In (t, route, e) evs -> no_cmd t (c_graph a)) ->
  in_step evs (so s a) a ->
  run_trace (map op_of evs) (so s a) = run_trace (map op_of evs) a /\
  Fin (run_ops ev (map op_of evs) (so s a)) (run_ops ev (map op_of evs) a).
Proof.
  induction evs as [|[[t route] e] rest IH]; intros s a Hi Hp Hg Hs.
  - split; [reflexivity|]. apply Fin_so; [exact Hi|exact Hp].
  - cbn [map op_of run_trace]. unfold run_ops. cbn [fold_left]. fold (run_ops ev (map op_of rest)).
    rewrite !api_event_run. cbn [fst snd].
    destruct (report_commutes_with_status_override_partial t route e s a Hi Hp (Hg t route e (or_introl eq_refl))) as [R F].
    rewrite R.
    destruct rest as [|r2 rest'].
    + split; [reflexivity|exact F].
    + cbn [in_step op_of] in Hs. rewrite !api_event_run in Hs. cbn [fst] in Hs. destruct Hs as [Hp1 Hs1].
      destruct F as [[_ [Hi1 [Eb|[Eb1 Eb2]]]] _].
      2: { exfalso. rewrite Eb1 in Hp1. destruct Hp1 as [E|[_ [E|E]]]; [|discriminate E|discriminate E].
           rewrite <- E in Eb2. discriminate Eb2. }
      set (a1 := fst (update_task_state ev t route e a)) in *.
      set (b1 := fst (update_task_state ev t route e (so s a))) in *.
      assert (Hg1 : forall t0 route0 e0, In (t0, route0, e0) (r2 :: rest') -> no_cmd t0 (c_graph a1)).
      { intros t0 route0 e0 Hin. unfold a1, update_task_state.
        destruct (update_task_state_fuel ev 3 t route e a) as [a' ra] eqn:Ea. cbn [fst].
        rewrite (pg_uts_fuel ev 3 t route e _ _ _ Ea). apply (Hg t0 route0 e0). right; exact Hin. }
      rewrite Eb in Hs1 |- *.
      destruct (IH (wstatus (c_ws b1)) a1 Hi1 Hp1 Hg1 Hs1) as [T F']. rewrite T. split; [reflexivity|exact F'].
Qed.


(* ================================================================== the poll *)

Ltac je H := eapply (Jp_bind _ _ Veq); [apply Jp_eval; exact H|];
             let s := fresh "s" in let x := fresh "x" in let y := fresh "y" in let E := fresh "E" in
             intros s x y E; unfold Veq in E; subst x.

Lemma jp_render_task : forall ts c1 c2, sim c1 c2 -> Jp Veq (render_task ev ts c1) (render_task ev ts c2).
Proof.
  intros ts c1 c2 Hs. unfold render_task. destruct (ts_with ts) as [its|].
  - je Hs. destruct y; try apply Jp_raise.
    apply Jp_mapM_eq. intros [idx item].
    match goal with |- Jp _ (bind (evaluate _ _ (dset ?k ?v c1)) _) _ =>
      assert (Hs' : sim (dset k v c1) (dset k v c2)) by (apply sim_dset; exact Hs) end.
    je Hs'. je Hs'. apply Jp_ret; intro; reflexivity.
  - je Hs. je Hs. apply Jp_ret; intro; reflexivity.
Qed.

Lemma staged_update_so : forall w s f t r,
  ws_set_staged (ws_set_status w s) (staged_update f t r (staged (ws_set_status w s))) =
  ws_set_status (ws_set_staged w (staged_update f t r (staged w))) s.
Proof. reflexivity. Qed.

Lemma jp_next_task_for : forall e, Jp (Vconst oo_sim) (next_task_for ev e) (next_task_for ev e).
Proof.
  intro e. unfold next_task_for.
  eapply Jp_bind; [apply Jp_get|]. intros s0 c1 c2 [E [Pc Ic]]; subst c1. jnorm.
  eapply (Jp_bind _ _ Veq).
  { destruct (get_staged_task (c_ws c2) (s_id e) (s_route e)) as [s'|]; [apply jp_get_task_context|].
    destruct (ws_task_entry (c_ws c2) (s_id e) (s_route e)) as [r|]; [apply jp_get_task_context|].
    destruct (nth_error (contexts (c_ws c2)) 0); [apply Jp_ret; intro; reflexivity|apply Jp_raise]. }
  intros s1 ctx0 ctx0' E; unfold Veq in E; subst ctx0'.
  pose proof (sim_state_ctx (dset "__current_task" (current_task_json (s_id e) (s_route e) None) ctx0)
                (ws_set_status (c_ws c2) s0) (c_ws c2)) as Hs.
  set (k1 := merge_dicts _ (state_ctx (ws_set_status (c_ws c2) s0))) in *.
  set (k2 := merge_dicts _ (state_ctx (c_ws c2))) in *.
  eapply (Jp_bind _ _ Veq).
  { destruct (spec_get_task (c_spec c2) (s_id e)); [apply Jp_ret; intro; reflexivity|apply Jp_raise]. }
  intros s2 ts ts' E; unfold Veq in E; subst ts'.
  eapply (Jp_bind _ _ Veq); [apply jp_render_task; exact Hs|]. intros s3 actions actions' E; unfold Veq in E; subst actions'.
  eapply (Jp_bind _ _ Veq).
  { destruct (truthy (ts_delay ts)); [|apply Jp_ret; intro; reflexivity].
    eapply (Jp_bind _ _ Veq).
    - destruct (ts_delay ts); try (apply Jp_ret; intro; reflexivity). apply Jp_eval; exact Hs.
    - intros s4 d d' E; unfold Veq in E; subst d'. destruct (py_is_int d); [apply Jp_ret; intro; reflexivity|apply Jp_raise]. }
  intros s4 delay delay' E; unfold Veq in E; subst delay'.
  destruct (ts_with ts) as [its|].
  - je Hs.
    eapply Jp_bind; [apply Jp_getws|]. intros s6 w1 w2 [E Pw]; subst w1. jnorm.
    eapply (Jp_bind _ _ Veq).
    { destruct (get_staged_task w2 (s_id e) (s_route e)) as [s'|]; [|apply Jp_raise].
      destruct (s_items s') as [[|x xs]|]; try (apply Jp_ret; intro; reflexivity).
      - eapply (Jp_bind _ _ Veq); [|intros; apply Jp_ret; intro; reflexivity].
        apply Jp_modws; intros; reflexivity.
      - eapply (Jp_bind _ _ Veq); [|intros; apply Jp_ret; intro; reflexivity].
        apply Jp_modws; intros; reflexivity. }
    intros s7 sti sti' E; unfold Veq in E; subst sti'.
    eapply (Jp_bind _ _ Veq).
    { apply Jp_lift_res. intro. destruct (choose_items y (combine actions sti)); cbn; reflexivity. }
    intros s8 ch ch' E; unfold Veq in E; subst ch'. destruct ch as [acts conc'].
    apply Jp_ret. intro. unfold Vconst, oo_sim.
    destruct acts; [destruct (length actions)|]; cbn; repeat split; exact Hs.
  - apply Jp_ret. intro. unfold Vconst, oo_sim. destruct actions; cbn; repeat split; exact Hs.
Qed.

(* the part of get_next_tasks after the guard *)
Definition poll_body (todo : list stg) : M (list offer) :=
  rs <- mapM (fun s =>
                try_catch (o <- next_task_for ev s ;; ret (o, false))
                          (fun e => log_error e (Some (s_id s)) (Some (s_route s)) None ;;; ret (None, true)))
             todo ;;
  if existsb snd rs then request_status_core S_FAILED ;;; ret []
  else ret (sort_by offer_leb (flat_map (fun '(o, _) => match o with Some x => [x] | None => [] end) rs)).

Lemma jp_poll_body : forall todo, Jp (Vconst (Forall2 offer_sim)) (poll_body todo) (poll_body todo).
Proof.
  intro todo. unfold poll_body.
  eapply Jp_bind.
  { apply (Jp_mapM _ _ res_sim). intro s. apply Jp_try_catch.
    - eapply Jp_bind; [apply jp_next_task_for|]. intros s0 o1 o2 Ho. apply Jp_ret. intro. split; [exact Ho|reflexivity].
    - intro x. eapply (Jp_bind _ _ Veq); [apply jp_log_error|]. intros. apply Jp_ret. intro. split; [exact I|reflexivity]. }
  intros s0 rs1 rs2 Hr. unfold Vconst in Hr. destruct (offers_of_sim _ _ Hr) as [Ho He]. rewrite He.
  destruct (existsb snd rs2).
  - eapply (Jp_bind _ _ Veq); [apply Jp_rsc_failed|]. intros. apply Jp_ret. intro. constructor.
  - apply Jp_ret. intro. exact Ho.
Qed.


(* the same condition on the PLAIN run alone: after every report but the last the workflow is still
   running and a task is still active *)
Fixpoint busy (evs : list report) (a : cstate) : Prop :=
  match evs with
  | [] => True
  | r :: rest =>
      match rest with
      | [] => True
      | _ => let a1 := fst (api_exec ev (op_of r) a) in
             wstatus (c_ws a1) = S_RUNNING /\ has_active_tasks (c_ws a1) = true /\ busy rest a1
      end
  end.

Lemma busy_in_step : forall evs s a,
  c_init a = true -> PairOK s (wstatus (c_ws a)) ->
  (forall t route e, In (t, route, e) evs -> no_cmd t (c_graph a)) ->
  busy evs a -> in_step evs (so s a) a.
Proof.
  induction evs as [|[[t route] e] rest IH]; intros s a Hi Hp Hg Hb; [exact I|].
  destruct rest as [|r2 rest']; [exact I|].
  cbn [busy in_step op_of] in Hb |- *. rewrite !api_event_run in Hb. rewrite !api_event_run. cbn [fst] in Hb |- *.
  destruct Hb as [H1 [H2 Hb]].
  destruct (report_commutes_with_status_override_partial t route e s a Hi Hp (Hg t route e (or_introl eq_refl))) as [_ F].
  destruct F as [[_ [Hi1 D]] Cl]. specialize (Cl H1 H2). split; [exact Cl|].
  destruct D as [Eb|[_ Eb]]; [|rewrite H1 in Eb; discriminate Eb].
  rewrite Eb. apply IH; [exact Hi1|exact Cl| |exact Hb].
  intros t0 route0 e0 Hin. unfold update_task_state.
  destruct (update_task_state_fuel ev 3 t route e a) as [a' ra] eqn:Ea. cbn [fst].
  rewrite (pg_uts_fuel ev 3 t route e _ _ _ Ea). apply (Hg t0 route0 e0). right; exact Hin.
Qed.

(* the poll of a resuming workflow against the poll of the running one *)
Theorem poll_commutes_with_resuming : forall a,
  c_init a = true -> wstatus (c_ws a) = S_RUNNING ->
  rrel (Forall2 offer_sim) (snd (get_next_tasks ev (so S_RESUMING a))) (snd (get_next_tasks ev a)) /\
  exists s', fst (get_next_tasks ev (so S_RESUMING a)) = so s' (fst (get_next_tasks ev a)) /\
             PairOK s' (wstatus (c_ws (fst (get_next_tasks ev a)))) /\ c_init (fst (get_next_tasks ev a)) = true.
Proof.
  intros a Hi Hr.
  assert (Ea : get_next_tasks ev a = poll_body (staged_filtered (c_ws a)) a).
  { unfold get_next_tasks, bind at 1. rewrite (ensure_ws_inited ev a Hi). unfold bind at 1, getws. cbv beta iota zeta.
    rewrite Hr. reflexivity. }
  assert (Eb : get_next_tasks ev (so S_RESUMING a) = poll_body (staged_filtered (c_ws a)) (so S_RESUMING a)).
  { unfold get_next_tasks, bind at 1. rewrite (ensure_ws_inited ev (so S_RESUMING a) Hi). unfold bind at 1, getws.
    cbv beta iota zeta. reflexivity. }
  rewrite Ea, Eb.
  assert (Hp : PairOK S_RESUMING (wstatus (c_ws a))) by (right; split; [exact Hr|right; reflexivity]).
  destruct (jp_poll_body (staged_filtered (c_ws a)) S_RESUMING a Hi Hp) as [s' [E [I [P R]]]].
  split; [exact R|]. exists s'. repeat split; assumption.
Qed.

(* a resume request on a paused workflow at rest (no active record) that answers "resuming" changes the
   workflow status and nothing else *)
Lemma resume_at_rest : forall a c_r r,
  ws_tasks_by_status (c_ws a) ACTIVE_STATUSES = [] ->
  request_status_core S_RESUMING (so S_PAUSED a) = (c_r, r) -> wstatus (c_ws c_r) = S_RESUMING ->
  c_r = so S_RESUMING a /\ r = Val tt.
Proof.
  intros a c_r r Hact H Hs. rewrite request_status_core_eq in H.
  change (ws_tasks_by_status (c_ws (so S_PAUSED a)) ACTIVE_STATUSES) with (ws_tasks_by_status (c_ws a) ACTIVE_STATUSES) in H.
  rewrite Hact in H. cbn [forM_] in H. unfold bind at 1, ret at 1 in H.
  change (wstatus (c_ws (so S_PAUSED a))) with S_PAUSED in H.
  unfold request_tail, bind at 1, wf_workflow_event_M in H.
  destruct (wf_process_workflow_event (c_graph (so S_PAUSED a)) (c_ws (so S_PAUSED a)) S_RESUMING) as [[new unr]|e] eqn:W.
  2: { inversion H; subst. discriminate Hs. }
  change (set_ws (so S_PAUSED a) (ws_set_status (c_ws (so S_PAUSED a)) new)) with (so new a) in H.
  unfold bind at 1 in H. destruct (log_unreachable_only_errors unr (so new a)) as [E HE]. rewrite HE in H.
  unfold bind at 1, getws in H. cbv beta iota zeta in H.
  change (wstatus (c_ws (set_errors (so new a) E))) with new in H.
  assert (Hu : new = S_RESUMING -> unr = []).
  { intro En. subst new. unfold wf_process_workflow_event in W.
    destruct (negb (string_in _ WORKFLOW_EXECUTION_EVENTS)); [discriminate W|].
    destruct (tbl_row wf_table (wstatus (c_ws (so S_PAUSED a)))) as [row|]; [|discriminate W].
    destruct (aget String.eqb _ row) as [n0|]; [|inversion W; reflexivity].
    destruct (negb (status_eqb n0 (wstatus (c_ws (so S_PAUSED a)))) && status_eqb n0 S_SUCCEEDED) eqn:Eb.
    - apply andb_prop in Eb. destruct Eb as [_ Eb]. apply status_eqb_eq in Eb. subst n0.
      unfold fail_on_unreachable in W.
      destruct (get_unreachable_barriers _ _); inversion W.
    - inversion W; reflexivity. }
  cbn [status_eqb andb negb] in H.
  destruct (status_eqb S_PAUSED new) eqn:En.
  - apply status_eqb_eq in En. subst new. cbn [forM_] in H. unfold bind, ret, raise in H.
    inversion H; subst. discriminate Hs.
  - unfold ret in H. inversion H; subst c_r r. clear H.
    change (wstatus (c_ws (set_errors (so new a) E))) with new in Hs. subst new.
    specialize (Hu eq_refl). subst unr. split; [|reflexivity].
    unfold log_unreachable in HE. cbn [forM_] in HE. unfold ret in HE. inversion HE as [HE']. destruct a; reflexivity.
Qed.

(* PAUSE ... REPORTS ... REST ... RESUME ... POLL, against REPORTS ... POLL *)
Theorem pause_reports_resume_poll_partial : forall st evs c c_p r c_r rr,
  c_init c = true -> wstatus (c_ws c) = S_RUNNING -> no_item_tables c ->
  (forall t route e, In (t, route, e) evs -> no_cmd t (c_graph c)) ->
  pause_class st -> request_workflow_status ev st c = (c_p, r) -> wstatus (c_ws c_p) = S_PAUSING ->
  busy evs c ->
  let a_n := run_ops ev (map op_of evs) c in
  let b_n := run_ops ev (map op_of evs) c_p in
  wstatus (c_ws a_n) = S_RUNNING -> wstatus (c_ws b_n) = S_PAUSED ->
  ws_tasks_by_status (c_ws a_n) ACTIVE_STATUSES = [] ->
  request_workflow_status ev S_RESUMING b_n = (c_r, rr) -> wstatus (c_ws c_r) = S_RESUMING ->
  run_trace (map op_of evs) c_p = run_trace (map op_of evs) c /\
  b_n = so S_PAUSED a_n /\ c_r = so S_RESUMING a_n /\ rr = Val tt /\
  rrel (Forall2 offer_sim) (snd (get_next_tasks ev c_r)) (snd (get_next_tasks ev a_n)) /\
  exists s', fst (get_next_tasks ev c_r) = so s' (fst (get_next_tasks ev a_n)) /\
             PairOK s' (wstatus (c_ws (fst (get_next_tasks ev a_n)))).
Proof.
  intros st evs c c_p r c_r rr Hi Hr Hni Hg Hst H Hp Hstep a_n b_n Han Hbn Hact Hres Hcr.
  unfold request_workflow_status, bind in H. rewrite (ensure_ws_inited ev c Hi) in H.
  destruct (request_status_core st c) as [c1 r1] eqn:E. assert (c1 = c_p) by (destruct r1; inversion H; reflexivity). subst c1.
  pose proof (pause_of_plain_tasks_changes_workflow_status_only st c c_p r1 Hst Hni E) as Ec. rewrite Hp in Ec.
  change (c_p = so S_PAUSING c) in Ec.
  assert (Hp0 : PairOK S_PAUSING (wstatus (c_ws c))) by (right; split; [exact Hr|left; reflexivity]).
  pose proof (busy_in_step evs S_PAUSING c Hi Hp0 Hg Hstep) as Hstep'.
  destruct (reports_commute_with_status_override_partial evs S_PAUSING c Hi Hp0 Hg Hstep') as [T F].
  rewrite <- Ec in T, F. fold a_n b_n in F.
  assert (Ho : status_in (wstatus (c_ws a_n)) COMPLETED_STATUSES = false) by (rewrite Han; reflexivity).
  destruct (Fin_open _ _ F Ho) as [Eb _]. rewrite Hbn in Eb.
  destruct F as [[_ [Hin _]] _].
  split; [exact T|]. split; [exact Eb|].
  unfold request_workflow_status, bind in Hres.
  assert (Hib : c_init b_n = true) by (rewrite Eb; exact Hin).
  rewrite (ensure_ws_inited ev b_n Hib) in Hres.
  destruct (request_status_core S_RESUMING b_n) as [c2 r2] eqn:E2.
  assert (c2 = c_r) by (destruct r2; inversion Hres; reflexivity). subst c2.
  rewrite Eb in E2. destruct (resume_at_rest a_n c_r r2 Hact E2 Hcr) as [Ecr Er2]. subst r2.
  split; [exact Ecr|]. split; [inversion Hres; reflexivity|].
  rewrite Ecr. destruct (poll_commutes_with_resuming a_n Hin Han) as [R [s' [Es [Ps _]]]].
  split; [exact R|]. exists s'. split; assumption.
Qed.

(* the same over whole histories *)
Lemma api_request_fst : forall st c, fst (api_exec ev (OpRequest st) c) = fst (request_workflow_status ev st c).
Proof.
  intros. cbn [api_exec]. unfold bind, ret. destruct (request_workflow_status ev st c) as [c' [u|x]]; reflexivity.
Qed.

Lemma run_ops_app : forall l1 l2 c, run_ops ev (l1 ++ l2) c = run_ops ev l2 (run_ops ev l1 c).
Proof. intros. unfold run_ops. apply fold_left_app. Qed.

Theorem pause_resume_history_partial : forall st pre evs c0,
  let c := run_ops ev pre c0 in
  let c_p := run_ops ev (pre ++ [OpRequest st]) c0 in
  let plain := run_ops ev (pre ++ map op_of evs) c0 in
  let rest := run_ops ev (pre ++ [OpRequest st] ++ map op_of evs) c0 in
  let paused := run_ops ev (pre ++ [OpRequest st] ++ map op_of evs ++ [OpRequest S_RESUMING]) c0 in
  c_init c = true -> wstatus (c_ws c) = S_RUNNING -> no_item_tables c ->
  (forall t route e, In (t, route, e) evs -> no_cmd t (c_graph c)) ->
  pause_class st -> wstatus (c_ws c_p) = S_PAUSING -> busy evs c ->
  wstatus (c_ws plain) = S_RUNNING -> wstatus (c_ws rest) = S_PAUSED ->
  ws_tasks_by_status (c_ws plain) ACTIVE_STATUSES = [] ->
  wstatus (c_ws paused) = S_RESUMING ->
  run_trace (map op_of evs) c_p = run_trace (map op_of evs) c /\
  paused = so S_RESUMING plain /\ strip paused = strip plain /\
  rrel (Forall2 offer_sim) (snd (get_next_tasks ev paused)) (snd (get_next_tasks ev plain)) /\
  exists s', fst (get_next_tasks ev paused) = so s' (fst (get_next_tasks ev plain)) /\
             PairOK s' (wstatus (c_ws (fst (get_next_tasks ev plain)))).
Proof.
  intros st pre evs c0 c c_p plain rest paused Hi Hr Hni Hg Hst Hp Hstep Hpl Hre Hact Hpa.
  assert (Ecp : c_p = fst (request_workflow_status ev st c)).
  { unfold c_p. rewrite run_ops_app. fold c. unfold run_ops. cbn [fold_left]. apply api_request_fst. }
  assert (Epl : plain = run_ops ev (map op_of evs) c) by (unfold plain; rewrite run_ops_app; reflexivity).
  assert (Ere : rest = run_ops ev (map op_of evs) c_p).
  { unfold rest. rewrite app_assoc, run_ops_app. reflexivity. }
  assert (Epa : paused = fst (request_workflow_status ev S_RESUMING rest)).
  { unfold paused. rewrite !app_assoc, run_ops_app. rewrite <- !app_assoc. fold rest.
    unfold run_ops. cbn [fold_left]. apply api_request_fst. }
  destruct (request_workflow_status ev st c) as [cp0 r0] eqn:E0. cbn [fst] in Ecp. subst cp0.
  destruct (request_workflow_status ev S_RESUMING rest) as [cr0 rr0] eqn:E1. cbn [fst] in Epa. subst cr0.
  rewrite Ere in E1, Hre. rewrite Epl in Hpl, Hact |- *.
  destruct (pause_reports_resume_poll_partial st evs c c_p r0 paused rr0 Hi Hr Hni Hg Hst E0 Hp Hstep Hpl Hre Hact E1 Hpa)
    as [T [_ [Ecr [_ [R X]]]]].
  split; [exact T|]. split; [exact Ecr|]. split; [rewrite Ecr; reflexivity|]. split; [exact R|exact X].
Qed.

End Commute.


(* ================================================================== witnesses *)

(* the two side conditions, decidably *)
Definition no_item_tables_b (c : cstate) : bool :=
  forallb (fun p => match get_staged_task (c_ws c) (r_id (snd p)) (r_route (snd p)) with
                    | Some s => match s_items s with None => true | Some _ => false end
                    | None => true
                    end) (ws_tasks_by_status (c_ws c) ACTIVE_STATUSES).
Lemma no_item_tables_b_ok : forall c, no_item_tables_b c = true -> no_item_tables c.
Proof.
  intros c H i r Hin. unfold no_item_tables_b in H. rewrite forallb_forall in H. specialize (H (i, r) Hin).
  cbn [snd] in H. destruct (get_staged_task (c_ws c) (r_id r) (r_route r)) as [s|]; [|exact I].
  destruct (s_items s); [discriminate H|reflexivity].
Qed.
Definition no_cmd_b (t : string) (g : graph) : bool :=
  forallb (fun e => negb (is_engine_command (e_dst e))) (g_next_transitions g t).
Lemma no_cmd_b_ok : forall t g, no_cmd_b t g = true -> no_cmd t g.
Proof.
  intros t g H e Hin. unfold no_cmd_b in H. rewrite forallb_forall in H. specialize (H e Hin).
  destruct (is_engine_command (e_dst e)); [discriminate H|reflexivity].
Qed.

(* a state-blind evaluator: "no" is false, "y" looks the variable y up in the context, anything else is true *)
Definition q_ev (s : string) (ctx : dict) : evalres :=
  if String.eqb s "no" then EvOk (JBool false)
  else if String.eqb s "y" then EvOk (match dget "y" ctx with Some v => v | None => JNull end)
  else EvOk (JBool true).

Lemma q_ev_blind : state_blind q_ev.
Proof.
  intros s a b H. unfold q_ev. destruct (String.eqb s "no"); [reflexivity|].
  destruct (String.eqb s "y"); [|reflexivity]. rewrite (sim_dget "y" a b H); [reflexivity|discriminate].
Qed.

Definition q_task (join : json) (nx : list transition_spec) : task_spec :=
  {| ts_action := JNull; ts_input := JNull; ts_with := None; ts_delay := JNull; ts_join := join; ts_next := nx |}.
Definition q_node (n : string) (b : json) := {| n_id := n; n_barrier := b; n_splits := None; n_retry := JNull |}.

(* (A) the hypotheses are satisfiable and the conclusion is not trivial:   t1 --> t2 *)
Definition qa_spec : wf_spec :=
  {| wf_input := []; wf_vars := []; wf_output := [];
     wf_tasks := [("t1", q_task JNull [{| tr_when := JNull; tr_publish := [("y", JInt 7)]; tr_do := ["t2"] |}]);
                  ("t2", q_task JNull [])] |}.
Definition qa_graph : graph :=
  {| g_nodes := [q_node "t1" JNull; q_node "t2" JNull];
     g_edges := [{| e_src := "t1"; e_dst := "t2"; e_key := 0; e_ref := 0; e_criteria := [] |}] |}.
Definition qa_init : cstate :=
  {| c_spec := qa_spec; c_graph := qa_graph; c_inputs := []; c_parent := []; c_init := false;
     c_ws := empty_ws; c_errors := []; c_log := []; c_output := None |}.
Definition qa_pre : list api_op := [OpRequest S_RUNNING; OpGetNext; OpEvent "t1" 0 (EvAction S_RUNNING JNull)].
Definition qa_reports : list report := [("t1", 0, EvAction S_SUCCEEDED JNull)].
Definition qa_c : cstate := run_ops q_ev qa_pre qa_init.
Definition qa_cp : cstate := fst (request_workflow_status q_ev S_PAUSING qa_c).
Definition qa_an : cstate := run_ops q_ev (map op_of qa_reports) qa_c.
Definition qa_bn : cstate := run_ops q_ev (map op_of qa_reports) qa_cp.
Definition qa_cr : cstate := fst (request_workflow_status q_ev S_RESUMING qa_bn).
Definition offer_ids (r : result (list offer)) : option (list (string * nat)) :=
  match r with Val l => Some (map (fun o => (o_id o, o_route o)) l) | Exc _ => None end.

Example qa_hypotheses :
  c_init qa_c = true /\ wstatus (c_ws qa_c) = S_RUNNING /\ no_item_tables qa_c /\
  (forall t route e, In (t, route, e) qa_reports -> no_cmd t (c_graph qa_c)) /\
  request_workflow_status q_ev S_PAUSING qa_c = (qa_cp, Val tt) /\ wstatus (c_ws qa_cp) = S_PAUSING /\
  busy q_ev qa_reports qa_c /\
  wstatus (c_ws qa_an) = S_RUNNING /\ wstatus (c_ws qa_bn) = S_PAUSED /\
  ws_tasks_by_status (c_ws qa_an) ACTIVE_STATUSES = [] /\
  request_workflow_status q_ev S_RESUMING qa_bn = (qa_cr, Val tt) /\ wstatus (c_ws qa_cr) = S_RESUMING.
Proof.
  split; [vm_compute; reflexivity|]. split; [vm_compute; reflexivity|]. split.
  { apply no_item_tables_b_ok. vm_compute. reflexivity. }
  split.
  { intros t route e [E|[]]. inversion E; subst. apply no_cmd_b_ok. vm_compute. reflexivity. }
  split; [vm_compute; reflexivity|]. split; [vm_compute; reflexivity|]. split; [vm_compute; exact I|].
  split; [vm_compute; reflexivity|]. split; [vm_compute; reflexivity|]. split; [vm_compute; reflexivity|].
  split; vm_compute; reflexivity.
Qed.

(* ... and what the theorem then says, computed: the held task t2 is offered by both polls, and the
   published variable reached its context in both *)
Example qa_conclusion :
  offer_ids (snd (get_next_tasks q_ev qa_cr)) = Some [("t2", 0)] /\
  offer_ids (snd (get_next_tasks q_ev qa_an)) = Some [("t2", 0)] /\
  qa_bn = so S_PAUSED qa_an /\ qa_cr = so S_RESUMING qa_an /\ qa_cr <> qa_an.
Proof.
  split; [vm_compute; reflexivity|]. split; [vm_compute; reflexivity|]. split; [vm_compute; reflexivity|].
  split; [vm_compute; reflexivity|].
  intro E. pose proof (f_equal (fun c => wstatus (c_ws c)) E) as E'. vm_compute in E'. discriminate E'.
Qed.

(* (B) the excluded case is real: the report that COMPLETES the workflow.
       t0 --(publish y=7)--> t1 --> t3 (join all) <--(when "no")-- t2 ;   output r = y
   t2 succeeds first (its transition is not taken, the join becomes unreachable), then t1 reports.
   Unpaused: the workflow completes at t1's report (failed: unreachable join) and t1 is marked terminal;
   the output is rendered from the terminal contexts, r = 7.
   Paused before t1's report and resumed at rest: the resume request completes the workflow (failed, same
   error logged) but no call marks t1 terminal; the output is rendered without t1's context, r = null. *)
Definition qb_spec : wf_spec :=
  {| wf_input := []; wf_vars := []; wf_output := [("r", JStr "y")];
     wf_tasks := [("t0", q_task JNull [{| tr_when := JNull; tr_publish := [("y", JInt 7)]; tr_do := ["t1"] |}]);
                  ("t1", q_task JNull [{| tr_when := JNull; tr_publish := []; tr_do := ["t3"] |}]);
                  ("t2", q_task JNull [{| tr_when := JStr "no"; tr_publish := []; tr_do := ["t3"] |}]);
                  ("t3", q_task (JStr "all") [])] |}.
Definition qb_graph : graph :=
  {| g_nodes := [q_node "t0" JNull; q_node "t1" JNull; q_node "t2" JNull; q_node "t3" (JStr "*")];
     g_edges := [{| e_src := "t0"; e_dst := "t1"; e_key := 0; e_ref := 0; e_criteria := [] |};
                 {| e_src := "t1"; e_dst := "t3"; e_key := 0; e_ref := 0; e_criteria := [] |};
                 {| e_src := "t2"; e_dst := "t3"; e_key := 0; e_ref := 0; e_criteria := [JStr "no"] |}] |}.
Definition qb_init : cstate :=
  {| c_spec := qb_spec; c_graph := qb_graph; c_inputs := []; c_parent := []; c_init := false;
     c_ws := empty_ws; c_errors := []; c_log := []; c_output := None |}.
Definition qb_pre : list api_op :=
  [OpRequest S_RUNNING; OpGetNext; OpEvent "t0" 0 (EvAction S_RUNNING JNull); OpEvent "t2" 0 (EvAction S_RUNNING JNull);
   OpEvent "t0" 0 (EvAction S_SUCCEEDED JNull); OpGetNext; OpEvent "t1" 0 (EvAction S_RUNNING JNull);
   OpEvent "t2" 0 (EvAction S_SUCCEEDED JNull)].
Definition qb_last : api_op := OpEvent "t1" 0 (EvAction S_SUCCEEDED JNull).
Definition qb_plain : list api_op := qb_pre ++ [qb_last; OpRender].
Definition qb_paused : list api_op := qb_pre ++ [OpRequest S_PAUSING; qb_last; OpRequest S_RESUMING; OpRender].
Definition qb_obs (c : cstate) :=
  (wstatus (c_ws c), map (fun r => (r_id r, r_term r)) (sequence (c_ws c)), c_output c, length (c_errors c)).

Example completion_under_pause_is_not_transparent :
  qb_obs (run_ops q_ev qb_plain qb_init)
  = (S_FAILED, [("t0", false); ("t2", true); ("t1", true)], Some [("r", JInt 7)], 1) /\
  qb_obs (run_ops q_ev qb_paused qb_init)
  = (S_FAILED, [("t0", false); ("t2", true); ("t1", false)], Some [("r", JNull)], 1).
Proof. split; vm_compute; reflexivity. Qed.

(* the same at the level of the single report: every hypothesis of report_commutes_with_pause_partial
   holds, the conclusion holds through the SECOND alternative of Fin, and the states are not equal up to
   statuses (PauseProofs.strip): the terminal flag of t1 and the error log differ *)
Definition qb_c : cstate := run_ops q_ev qb_pre qb_init.
Definition qb_cp : cstate := fst (request_workflow_status q_ev S_PAUSING qb_c).
Definition qb_b' : cstate := fst (update_task_state q_ev "t1" 0 (EvAction S_SUCCEEDED JNull) qb_cp).
Definition qb_a' : cstate := fst (update_task_state q_ev "t1" 0 (EvAction S_SUCCEEDED JNull) qb_c).
Example qb_step :
  c_init qb_c = true /\ wstatus (c_ws qb_c) = S_RUNNING /\ no_item_tables qb_c /\ no_cmd "t1" (c_graph qb_c) /\
  request_workflow_status q_ev S_PAUSING qb_c = (qb_cp, Val tt) /\ wstatus (c_ws qb_cp) = S_PAUSING /\
  wstatus (c_ws qb_b') = S_PAUSED /\ wstatus (c_ws qb_a') = S_FAILED /\ strip qb_b' <> strip qb_a' /\
  map r_term (sequence (c_ws qb_b')) = [false; true; false] /\ map r_term (sequence (c_ws qb_a')) = [false; true; true] /\
  length (c_errors qb_b') = 0 /\ length (c_errors qb_a') = 1.
Proof.
  split; [vm_compute; reflexivity|]. split; [vm_compute; reflexivity|]. split.
  { apply no_item_tables_b_ok. vm_compute. reflexivity. }
  split.
  { apply no_cmd_b_ok. vm_compute. reflexivity. }
  split; [vm_compute; reflexivity|]. split; [vm_compute; reflexivity|].
  split; [vm_compute; reflexivity|]. split; [vm_compute; reflexivity|]. split.
  { intro E. pose proof (f_equal (fun c => length (c_errors c)) E) as E'. vm_compute in E'. discriminate E'. }
  split; [vm_compute; reflexivity|]. split; [vm_compute; reflexivity|]. split; vm_compute; reflexivity.
Qed.

(* (C) two reports between the pause and the rest:   t0 ;  t1 --> t2   (t0 and t1 in flight) *)
Definition qc_spec : wf_spec :=
  {| wf_input := []; wf_vars := []; wf_output := [];
     wf_tasks := [("t0", q_task JNull []);
                  ("t1", q_task JNull [{| tr_when := JNull; tr_publish := []; tr_do := ["t2"] |}]);
                  ("t2", q_task JNull [])] |}.
Definition qc_graph : graph :=
  {| g_nodes := [q_node "t0" JNull; q_node "t1" JNull; q_node "t2" JNull];
     g_edges := [{| e_src := "t1"; e_dst := "t2"; e_key := 0; e_ref := 0; e_criteria := [] |}] |}.
Definition qc_init : cstate :=
  {| c_spec := qc_spec; c_graph := qc_graph; c_inputs := []; c_parent := []; c_init := false;
     c_ws := empty_ws; c_errors := []; c_log := []; c_output := None |}.
Definition qc_pre : list api_op :=
  [OpRequest S_RUNNING; OpGetNext; OpEvent "t0" 0 (EvAction S_RUNNING JNull); OpEvent "t1" 0 (EvAction S_RUNNING JNull)].
Definition qc_reports : list report := [("t1", 0, EvAction S_SUCCEEDED JNull); ("t0", 0, EvAction S_SUCCEEDED JNull)].
Definition qc_c : cstate := run_ops q_ev qc_pre qc_init.
Definition qc_plain : cstate := run_ops q_ev (qc_pre ++ map op_of qc_reports) qc_init.
Definition qc_paused : cstate :=
  run_ops q_ev (qc_pre ++ [OpRequest S_PAUSING] ++ map op_of qc_reports ++ [OpRequest S_RESUMING]) qc_init.

Example qc_hypotheses :
  c_init qc_c = true /\ wstatus (c_ws qc_c) = S_RUNNING /\ no_item_tables qc_c /\
  (forall t route e, In (t, route, e) qc_reports -> no_cmd t (c_graph qc_c)) /\
  wstatus (c_ws (run_ops q_ev (qc_pre ++ [OpRequest S_PAUSING]) qc_init)) = S_PAUSING /\
  busy q_ev qc_reports qc_c /\
  wstatus (c_ws qc_plain) = S_RUNNING /\
  wstatus (c_ws (run_ops q_ev (qc_pre ++ [OpRequest S_PAUSING] ++ map op_of qc_reports) qc_init)) = S_PAUSED /\
  ws_tasks_by_status (c_ws qc_plain) ACTIVE_STATUSES = [] /\
  wstatus (c_ws qc_paused) = S_RESUMING.
Proof.
  split; [vm_compute; reflexivity|]. split; [vm_compute; reflexivity|]. split.
  { apply no_item_tables_b_ok. vm_compute. reflexivity. }
  split.
  { intros t route e [E|[E|[]]]; inversion E; subst; apply no_cmd_b_ok; vm_compute; reflexivity. }
  split; [vm_compute; reflexivity|]. split.
  { cbn [busy qc_reports]. split; [vm_compute; reflexivity|]. split; [vm_compute; reflexivity|exact I]. }
  split; [vm_compute; reflexivity|]. split; [vm_compute; reflexivity|]. split; vm_compute; reflexivity.
Qed.

Example qc_conclusion :
  qc_paused = so S_RESUMING qc_plain /\
  offer_ids (snd (get_next_tasks q_ev qc_paused)) = Some [("t2", 0)] /\
  offer_ids (snd (get_next_tasks q_ev qc_plain)) = Some [("t2", 0)].
Proof. split; [vm_compute; reflexivity|]. split; vm_compute; reflexivity. Qed.
