(* PauseProofs.v -- C09, step-level facts about pause / resume.

   What is proved here (every evaluator unless said otherwise):
   (1) a pause-class request (pausing, paused) changes NOTHING but the workflow status and the
       statuses of records, not even the error log -- as an equality of whole conductor states
       after forgetting those statuses ([pause_request_changes_statuses_only]); a resume-class request
       likewise, except that it may log unreachable joins when it completes the workflow
       ([status_request_changes_statuses_and_log_only]);
   (2) when no active task carries an item table, the pause request changes the workflow status only
       ([pause_of_plain_tasks_changes_workflow_status_only]);
   (3) the task machine treats a completion report the same way whether the record is running or
       was pushed to pausing: every event that completes the task from one completes it, with the same
       status, from the other ([F_task_completion_same_when_pausing]); the only differences are the
       held-back continuations (stay pausing / become paused instead of running);
   (4) the workflow machine: a task event fails / cancels the pausing workflow exactly when it fails /
       cancels the running one, never completes or continues it, and rests on a dormant event
       ([F_wf_pausing_mirrors_running]); the retry decision is gated on an ACTIVE workflow status and
       pausing is active ([pausing_is_active]);
   (5) resume-class requests on a paused workflow give resuming / running, or succeeded when nothing
       is left (F_tables.F_wf_resume_request), and the next poll works from exactly the staged entries
       the paused state held ([resume_polls_the_held_entries]).
   NOT proved: the commutation of a whole update_task_state call with the pause request (it needs a
   two-run simulation of the call).  It is FALSE for an evaluator that reads the workflow status out of
   __state ([pause_not_transparent_for_status_reading_condition], replayed on the engine). *)
From Coq Require Import String List Bool ZArith Arith Lia.
From Orq Require Import GenStatuses GenEvents GenTables GenSpecMeta Base State Machines Codec Conductor Decode Api.
From Orq Require Import F_tables Hoare ValuePost StatusReach C04Proofs C09C10Proofs RetryProofs InertProofs QueryProofs.
Import ListNotations.
Open Scope string_scope.
Open Scope monad_scope.

(* ------------------------------------------------------------------ (1) what a status request may touch *)

(* forget the workflow status and the status of every record *)
Definition strip_ws (w : wstate) : wstate :=
  {| contexts := contexts w; routes := routes w;
     sequence := map (fun r => r_set_status r None) (sequence w);
     staged := staged w; wstatus := S_UNSET; tasks := tasks w; reruns := reruns w |}.
Definition strip (c : cstate) : cstate := set_ws c (strip_ws (c_ws c)).
(* ... and the error log *)
Definition strip_log (c : cstate) : cstate := set_errors (strip c) [].

(* everything outside the workflow state and the error log *)
Definition Rmeta (c c' : cstate) : Prop :=
  c_spec c' = c_spec c /\ c_graph c' = c_graph c /\ c_inputs c' = c_inputs c /\ c_parent c' = c_parent c /\
  c_init c' = c_init c /\ c_log c' = c_log c /\ c_output c' = c_output c.
Lemma Rmeta_refl : forall c, Rmeta c c.
Proof. intro; repeat split. Qed.
Lemma Rmeta_trans : forall a b c, Rmeta a b -> Rmeta b c -> Rmeta a c.
Proof. unfold Rmeta; intros; intuition congruence. Qed.

Ltac leafm :=
  first
    [ apply (preserves_modws Rmeta); intro; repeat split
    | apply (preserves_modify Rmeta); intro; unfold Rmeta;
      match goal with |- context [if ?b then _ else _] => destruct b end; repeat split
    | apply (preserves_modify Rmeta); intro; repeat split ].

Lemma pm_set_rec_status : forall j s, preserves Rmeta (set_rec_status j s).
Proof. intros; unfold set_rec_status. leafm. Qed.
Lemma pm_wf_workflow_event : forall st, preserves Rmeta (wf_workflow_event_M st).
Proof.
  intros st c c' r H. unfold wf_workflow_event_M in H.
  destruct (wf_process_workflow_event (c_graph c) (c_ws c) st) as [[new unr]|e]; inversion H; subst; repeat split.
Qed.
Lemma pm_log_unreachable : forall l, preserves Rmeta (log_unreachable l).
Proof.
  intros l. unfold log_unreachable. apply (preserves_forM _ Rmeta_refl Rmeta_trans). intro s.
  unfold log_error, log_entry_error. leafm.
Qed.
Lemma pm_request_status_core : forall st, preserves Rmeta (request_status_core st).
Proof.
  intro st. unfold request_status_core.
  pw Rmeta_refl Rmeta_trans ltac:(first [apply pm_set_rec_status|apply pm_wf_workflow_event|apply pm_log_unreachable|leafm]).
Qed.

Lemma map_strip_F2 : forall l l', Forall2 rec_same_but_status l l' ->
  map (fun r => r_set_status r None) l' = map (fun r => r_set_status r None) l.
Proof.
  intros l l' F; induction F as [|x y l l' H F IH]; simpl; [reflexivity|]. rewrite IH. f_equal.
  destruct H as [H1 [H2 [H3 [H4 [H5 [H6 [H7 H8]]]]]]]. destruct x, y; simpl in *; subst; reflexivity.
Qed.

(* any status request, accepted or rejected: the state differs from the state before in statuses and
   in the error log only *)
Theorem status_request_changes_statuses_and_log_only : forall st c c' r,
  request_status_core st c = (c', r) -> strip_log c' = strip_log c.
Proof.
  intros st c c' r H.
  destruct (pctl_request_status_core st c c' r H) as [E1 [E2 [E3 [E4 [E5 [E6 F]]]]]].
  destruct (pm_request_status_core st c c' r H) as [M1 [M2 [M3 [M4 [M5 [M6 M7]]]]]].
  pose proof (map_strip_F2 _ _ F) as Es.
  unfold strip_log, strip, strip_ws, set_errors, set_ws. cbn [c_spec c_graph c_inputs c_parent c_init c_ws c_errors c_log c_output].
  rewrite M1, M2, M3, M4, M5, M6, M7, E1, E2, E3, E4, E5, Es. reflexivity.
Qed.

(* the error log: written by a status request only when it reports unreachable joins *)
Definition Rerr (c c' : cstate) : Prop := c_errors c' = c_errors c.
Lemma Rerr_refl : forall c, Rerr c c.
Proof. intro; reflexivity. Qed.
Lemma Rerr_trans : forall a b c, Rerr a b -> Rerr b c -> Rerr a c.
Proof. unfold Rerr; intros; congruence. Qed.

Lemma pe_set_rec_status : forall j s, preserves Rerr (set_rec_status j s).
Proof. intros; unfold set_rec_status. apply (preserves_modws Rerr). intro; reflexivity. Qed.

Lemma request_keeps_log : forall st c c' r,
  (forall g w p, wf_process_workflow_event g w st = Val p -> snd p = []) ->
  request_status_core st c = (c', r) -> c_errors c' = c_errors c.
Proof.
  intros st c c' r Hnu H. rewrite request_status_core_eq in H.
  apply bind_inv in H.
  assert (P1 : preserves Rerr (forM_ (ws_tasks_by_status (c_ws c) ACTIVE_STATUSES) (push_body st))).
  { apply (preserves_forM _ Rerr_refl Rerr_trans). intros [i r0]. unfold push_body.
    pw Rerr_refl Rerr_trans ltac:(apply pe_set_rec_status). }
  destruct H as [[c1 [u [E1 H]]]|[x [E1 _]]]; [|eapply P1; exact E1].
  transitivity (c_errors c1); [|eapply P1; exact E1].
  unfold request_tail in H. apply bind_inv in H.
  destruct H as [[c2 [unr [E2 H]]]|[x [E2 _]]].
  2: { unfold wf_workflow_event_M in E2.
       destruct (wf_process_workflow_event (c_graph c1) (c_ws c1) st) as [[new u2]|e]; inversion E2; reflexivity. }
  assert (Hunr : unr = [] /\ c_errors c2 = c_errors c1).
  { unfold wf_workflow_event_M in E2.
    destruct (wf_process_workflow_event (c_graph c1) (c_ws c1) st) as [[new u2]|e] eqn:Ew; inversion E2; subst.
    split; [exact (Hnu _ _ _ Ew)|reflexivity]. }
  destruct Hunr as [-> Ec2]. transitivity (c_errors c2); [|exact Ec2].
  match type of H with ?m c2 = _ => assert (P : preserves Rerr m) end.
  { unfold log_unreachable. cbn [forM_].
    pw Rerr_refl Rerr_trans ltac:(apply pe_set_rec_status). }
  eapply P; exact H.
Qed.

Definition pause_class (st : status) : Prop := st = S_PAUSING \/ st = S_PAUSED.

(* a pause-class workflow event never completes the workflow, so it reports no unreachable join *)
Lemma pause_event_reports_nothing : forall st g w p, pause_class st ->
  wf_process_workflow_event g w st = Val p -> snd p = [].
Proof.
  intros st g w p Hst H. unfold wf_process_workflow_event in H.
  destruct (negb (string_in (wf_workflow_event_name w st) WORKFLOW_EXECUTION_EVENTS)); [discriminate|].
  destruct (tbl_row wf_table (wstatus w)) as [row|] eqn:Er; [|discriminate].
  destruct (aget String.eqb (wf_workflow_event_name w st) row) as [new|] eqn:Ea; [|inversion H; reflexivity].
  destruct (negb (status_eqb new (wstatus w)) && status_eqb new S_SUCCEEDED) eqn:Eb; [|inversion H; reflexivity].
  exfalso. apply andb_prop in Eb. destruct Eb as [_ Es]. apply status_eqb_eq in Es. subst new.
  assert (St : tbl_step wf_table (wstatus w) (wf_workflow_event_name w st) = Some S_SUCCEEDED)
    by (unfold tbl_step; rewrite Er; exact Ea).
  apply F_wf_succeeded_only_when_completed in St.
  unfold wf_workflow_event_name in St.
  destruct Hst as [-> | ->];
    replace (status_in S_PAUSING (PAUSE_STATUSES ++ CANCEL_STATUSES)) with true in St by reflexivity;
    replace (status_in S_PAUSED (PAUSE_STATUSES ++ CANCEL_STATUSES)) with true in St by reflexivity;
    replace (status_in S_PAUSING [S_RUNNING; S_RESUMING]) with false in St by reflexivity;
    replace (status_in S_PAUSED [S_RUNNING; S_RESUMING]) with false in St by reflexivity;
    rewrite andb_false_r in St; cbn [andb] in St;
    destruct (has_active_tasks w); vm_compute in St; intuition discriminate.
Qed.

(* (1) a pause-class request changes nothing but the workflow status and record statuses *)
Theorem pause_request_changes_statuses_only : forall st c c' r, pause_class st ->
  request_status_core st c = (c', r) -> strip c' = strip c.
Proof.
  intros st c c' r Hst H.
  pose proof (status_request_changes_statuses_and_log_only st c c' r H) as Hs.
  pose proof (request_keeps_log st c c' r (fun g w p => pause_event_reports_nothing st g w p Hst) H) as He.
  destruct c as [sp g inp par ini w er lg out], c' as [sp' g' inp' par' ini' w' er' lg' out'].
  unfold strip_log, strip, set_errors, set_ws in *.
  cbn [c_spec c_graph c_inputs c_parent c_init c_ws c_errors c_log c_output] in *.
  pose proof (f_equal c_ws Hs) as Ew. cbn [c_ws] in Ew. inversion Hs; subst. rewrite Ew. reflexivity.
Qed.

Theorem pause_api_changes_statuses_only : forall ev st c c' r, pause_class st -> c_init c = true ->
  request_workflow_status ev st c = (c', r) -> strip c' = strip c.
Proof.
  intros ev st c c' r Hst Hi H. unfold request_workflow_status, bind in H.
  rewrite (ensure_ws_inited ev c Hi) in H. eapply pause_request_changes_statuses_only; eassumption.
Qed.

(* ------------------------------------------------------------------ (2) tasks without item tables *)

Lemma F_task_base_pause_absent : forall s st, pause_class st ->
  tbl_step task_table s (WORKFLOW_EVENT_PREFIX ++ status_name st) = None.
Proof. intros s st [-> | ->]; destruct s; vm_compute; reflexivity. Qed.

Lemma push_noop : forall st l x,
  (forall i r0, In (i, r0) l -> exists r, nth_error (sequence (c_ws x)) i = Some r /\
                                        task_process_event (c_ws x) r (EvWorkflow st) = Val None) ->
  forM_ l (push_body st) x = (x, Val tt).
Proof.
  intros st. induction l as [|[i r0] l IH]; intros x H; [reflexivity|]. cbn [forM_]. unfold bind.
  destruct (H i r0 (or_introl eq_refl)) as [r [Hn Et]].
  rewrite (push_body_run st i r0 x r None Hn Et). rewrite with_seq_same. apply IH.
  intros j rj Hj. apply (H j rj). right; exact Hj.
Qed.

(* no active task carries an item table *)
Definition no_item_tables (c : cstate) : Prop :=
  forall i r, In (i, r) (ws_tasks_by_status (c_ws c) ACTIVE_STATUSES) ->
    match get_staged_task (c_ws c) (r_id r) (r_route r) with Some s => s_items s = None | None => True end.

Theorem pause_of_plain_tasks_changes_workflow_status_only : forall st c c' r, pause_class st ->
  no_item_tables c -> request_status_core st c = (c', r) ->
  c' = set_ws c (ws_set_status (c_ws c) (wstatus (c_ws c'))).
Proof.
  intros st c c' r Hst Hni H. rewrite request_status_core_eq in H. unfold bind at 1 in H.
  assert (HL : forall i r0, In (i, r0) (ws_tasks_by_status (c_ws c) ACTIVE_STATUSES) ->
                 nth_error (sequence (c_ws c)) i = Some r0 /\ ostatus_in (r_status r0) ACTIVE_STATUSES = true)
    by (intros i r0 Hin; apply tasks_by_status_In; exact Hin).
  rewrite push_noop in H.
  2: { intros i r0 Hin. destruct (HL i r0 Hin) as [Hn Ha]. exists r0. split; [exact Hn|].
       unfold task_process_event. cbn [ev_name].
       assert (Ev : string_in (WORKFLOW_EVENT_PREFIX ++ status_name st) WORKFLOW_EXECUTION_EVENTS = true)
         by (destruct Hst as [-> | ->]; vm_compute; reflexivity).
       rewrite Ev. cbn [negb]. unfold task_workflow_event_name.
       assert (Ep : status_in st (PAUSE_STATUSES ++ CANCEL_STATUSES) = true) by (destruct Hst as [-> | ->]; reflexivity).
       rewrite Ep. specialize (Hni i r0 Hin).
       assert (En : (match get_staged_task (c_ws c) (r_id r0) (r_route r0) with
                     | Some s => match s_items s with
                                 | Some items =>
                                     ((WORKFLOW_EVENT_PREFIX ++ status_name st)
                                      ++ (if existsb (fun x => status_in x ACTIVE_STATUSES) items then "_task_active" else "_task_dormant")
                                      ++ (if existsb (fun x => negb (status_in x COMPLETED_STATUSES)) items then "_items_incomplete" else "_items_completed"))%string
                                 | None => (WORKFLOW_EVENT_PREFIX ++ status_name st)%string
                                 end
                     | None => (WORKFLOW_EVENT_PREFIX ++ status_name st)%string
                     end) = (WORKFLOW_EVENT_PREFIX ++ status_name st)%string).
       { destruct (get_staged_task (c_ws c) (r_id r0) (r_route r0)) as [s|]; [rewrite Hni|]; reflexivity. }
       rewrite En. destruct (active_record_has_row r0 Ha) as [row Hrow]. unfold task_table_step. rewrite Hrow.
       pose proof (F_task_base_pause_absent (rstatus r0) st Hst) as F. unfold tbl_step in F. rewrite Hrow in F.
       rewrite F. reflexivity. }
  unfold request_tail in H. unfold bind at 1 in H. unfold wf_workflow_event_M in H.
  destruct (wf_process_workflow_event (c_graph c) (c_ws c) st) as [[new unr]|e] eqn:Ew.
  2: { inversion H; subst. symmetry; apply set_status_same. }
  assert (unr = []) as -> by (exact (pause_event_reports_nothing st _ _ _ Hst Ew)).
  unfold log_unreachable in H. cbn [forM_] in H. unfold bind at 1, ret at 1 in H. cbv beta iota in H.
  unfold bind at 1, getws in H. cbv beta iota in H. cbn [c_ws set_ws wstatus ws_set_status] in H.
  assert (Hend : forall m : M unit, (m = ret tt \/
                   m = (forM_ (ws_tasks_by_status (c_ws c) ACTIVE_STATUSES) (fun '(i, r) => set_rec_status i (r_status r)) ;;;
                        raise (exn_invalid_wf_transition (wstatus (c_ws c)) (WORKFLOW_EVENT_PREFIX ++ status_name st)))) ->
                 m (set_ws c (ws_set_status (c_ws c) new)) = (c', r) ->
                 c' = set_ws c (ws_set_status (c_ws c) (wstatus (c_ws c')))).
  { intros m [-> | ->] Hm.
    - inversion Hm; subst. reflexivity.
    - unfold bind in Hm. rewrite restore_loop_run in Hm. inversion Hm; subst c' r.
      cbn [c_ws set_ws sequence wstatus ws_set_status ws_set_sequence].
      rewrite (restore_moved _ (sequence (c_ws c)) (sequence (c_ws c))); [|intros i r0 Hin; apply HL; exact Hin|apply moved_refl].
      destruct c as [sp g inp par ini w er lg out]; destruct w; reflexivity. }
  eapply Hend; [|exact H].
  repeat match goal with |- context [if ?b then _ else _] => destruct b end; auto.
Qed.

(* ------------------------------------------------------------------ (3) the task machine, running vs pausing *)

Definition ostatus_eqb (a b : option status) : bool :=
  match a, b with Some x, Some y => status_eqb x y | None, None => true | _, _ => false end.

(* a report that completes the task does so with the same status from running and from pausing *)
Lemma F_task_completion_same_when_pausing : forall e t, starts_with "action_" e = true ->
  status_in t COMPLETED_STATUSES = true ->
  (tbl_step task_table S_RUNNING e = Some t <-> tbl_step task_table S_PAUSING e = Some t).
Proof.
  intros e t Hp Hc.
  assert (T1 : table_forall task_table
                 (fun s e t => negb (status_eqb s S_RUNNING && starts_with "action_" e && status_in t COMPLETED_STATUSES)
                               || ostatus_eqb (tbl_step task_table S_PAUSING e) (Some t)) = true) by (vm_compute; reflexivity).
  assert (T2 : table_forall task_table
                 (fun s e t => negb (status_eqb s S_PAUSING && starts_with "action_" e && status_in t COMPLETED_STATUSES)
                               || ostatus_eqb (tbl_step task_table S_RUNNING e) (Some t)) = true) by (vm_compute; reflexivity).
  split; intro H.
  - pose proof (table_forall_step _ _ T1 _ _ _ H) as P. cbv beta in P. rewrite status_eqb_refl, Hp, Hc in P.
    cbn [andb negb orb] in P. destruct (tbl_step task_table S_PAUSING e) as [y|]; [|discriminate].
    simpl in P. apply status_eqb_eq in P. subst; reflexivity.
  - pose proof (table_forall_step _ _ T2 _ _ _ H) as P. cbv beta in P. rewrite status_eqb_refl, Hp, Hc in P.
    cbn [andb negb orb] in P. destruct (tbl_step task_table S_RUNNING e) as [y|]; [|discriminate].
    simpl in P. apply status_eqb_eq in P. subst; reflexivity.
Qed.

(* a report never takes a pausing task back to running *)
Lemma F_task_report_never_resumes : forall e t, starts_with "action_" e = true ->
  tbl_step task_table S_PAUSING e = Some t -> t <> S_RUNNING.
Proof.
  intros e t Hp H.
  assert (T : table_forall task_table
                (fun s e t => negb (status_eqb s S_PAUSING && starts_with "action_" e) || negb (status_eqb t S_RUNNING)) = true)
    by (vm_compute; reflexivity).
  pose proof (table_forall_step _ _ T _ _ _ H) as P. cbv beta in P. rewrite status_eqb_refl, Hp in P.
  cbn [andb negb orb] in P. intro E; subst. discriminate.
Qed.

Lemma item_event_name_action : forall w t route item st n,
  item_event_name w t route item st = Val n -> starts_with "action_" n = true.
Proof.
  intros w t route item st n H. unfold item_event_name in H. unfold starts_with.
  assert (B0 : String.prefix "action_" (ACTION_EVENT_PREFIX ++ status_name st) = true) by apply prefix_append.
  assert (B : forall x, String.prefix "action_" ((ACTION_EVENT_PREFIX ++ status_name st) ++ x) = true)
    by (intro x; rewrite append_assoc_l; apply prefix_append).
  assert (B2 : forall x y, String.prefix "action_" (((ACTION_EVENT_PREFIX ++ status_name st) ++ x) ++ y) = true)
    by (intros x y; rewrite !append_assoc_l; apply prefix_append).
  destruct (negb (status_in st item_requirements)); [injection H as <-; exact B0|].
  destruct (get_staged_task w t route) as [s|]; [|injection H as <-; exact B0].
  destruct (s_items s) as [items|]; [|injection H as <-; exact B0].
  destruct (negb (Nat.ltb item (length items))); [discriminate|]. cbv zeta in H.
  repeat match type of H with (if ?b then _ else _) = _ => destruct b end;
    injection H as <-; apply B2.
Qed.

Lemma item_event_name_staged : forall w w' t route item st, staged w' = staged w ->
  item_event_name w' t route item st = item_event_name w t route item st.
Proof. intros w w' t route item st E. unfold item_event_name, get_staged_task. rewrite E. reflexivity. Qed.

(* the task machine step of a provider report: whether the record is still running or was pushed to
   pausing by the request, the report completes the task in exactly the same cases, with the same
   status (the workflow status itself is not read by the task machine) *)
Theorem task_machine_commutes_with_pause : forall w w' r r' evt t,
  provider_event evt = true -> staged w' = staged w ->
  r_id r' = r_id r -> r_route r' = r_route r -> rstatus r = S_RUNNING -> rstatus r' = S_PAUSING ->
  status_in t COMPLETED_STATUSES = true ->
  (task_process_event w r evt = Val (Some t) <-> task_process_event w' r' evt = Val (Some t)).
Proof.
  intros w w' r r' evt t Hp Es Hi Hr Sr Sr' Hc.
  assert (Rr : exists row, tbl_row task_table S_RUNNING = Some row) by (vm_compute; eexists; reflexivity).
  assert (Rp : exists row, tbl_row task_table S_PAUSING = Some row) by (vm_compute; eexists; reflexivity).
  destruct Rr as [rowr Rr]. destruct Rp as [rowp Rp].
  assert (G : forall n, starts_with "action_" n = true ->
            (task_table_step S_RUNNING n = Val (Some t) <-> task_table_step S_PAUSING n = Val (Some t))).
  { intros n Hn. pose proof (F_task_completion_same_when_pausing n t Hn Hc) as F.
    unfold tbl_step in F. unfold task_table_step. rewrite Rr, Rp in *. destruct F as [F1 F2].
    split; intro H; injection H as H1; [pose proof (F1 H1)|pose proof (F2 H1)]; congruence. }
  unfold task_process_event. rewrite Sr, Sr'. destruct evt as [st|st res|item st res acc|n st]; simpl in Hp; try discriminate.
  - destruct (negb _); [split; intro; discriminate|]. apply G. cbn [ev_name]. apply prefix_append.
  - destruct (negb _); [split; intro; discriminate|]. rewrite Hi, Hr, (item_event_name_staged w w' _ _ _ _ Es).
    destruct (item_event_name w (r_id r) (r_route r) item st) as [n|x] eqn:En; [|split; intro; discriminate].
    apply G. eapply item_event_name_action; exact En.
Qed.

(* ------------------------------------------------------------------ (4) the workflow machine, running vs pausing *)

Lemma F_wf_pausing_mirrors_running : forall e x, starts_with "task_" e = true ->
  tbl_step wf_table S_RUNNING e = Some x ->
  match tbl_step wf_table S_PAUSING e with
  | Some y => (x = S_FAILED <-> y = S_FAILED) /\ (x = S_CANCELED <-> y = S_CANCELED) /\
              (x = S_SUCCEEDED -> y = S_PAUSED) /\ In y [S_PAUSING; S_PAUSED; S_FAILED; S_CANCELING; S_CANCELED]
  | None => x = S_RUNNING
  end.
Proof.
  intros e x Hp H.
  assert (T : table_forall wf_table
     (fun s e x => negb (status_eqb s S_RUNNING && starts_with "task_" e) ||
        match tbl_step wf_table S_PAUSING e with
        | Some y => Bool.eqb (status_eqb x S_FAILED) (status_eqb y S_FAILED) &&
                    Bool.eqb (status_eqb x S_CANCELED) (status_eqb y S_CANCELED) &&
                    (negb (status_eqb x S_SUCCEEDED) || status_eqb y S_PAUSED) &&
                    status_in y [S_PAUSING; S_PAUSED; S_FAILED; S_CANCELING; S_CANCELED]
        | None => status_eqb x S_RUNNING
        end) = true) by (vm_compute; reflexivity).
  pose proof (table_forall_step _ _ T _ _ _ H) as P. cbv beta in P. rewrite status_eqb_refl, Hp in P.
  cbn [andb negb orb] in P. destruct (tbl_step wf_table S_PAUSING e) as [y|]; [|apply status_eqb_eq; exact P].
  apply andb_prop in P; destruct P as [P P4]. apply andb_prop in P; destruct P as [P P3].
  apply andb_prop in P; destruct P as [P1 P2].
  apply Bool.eqb_prop in P1. apply Bool.eqb_prop in P2.
  split; [|split; [|split]].
  - split; intro E; apply status_eqb_eq; [rewrite <- P1|rewrite P1]; apply status_eqb_eq; exact E.
  - split; intro E; apply status_eqb_eq; [rewrite <- P2|rewrite P2]; apply status_eqb_eq; exact E.
  - intro E; subst x. cbn [negb orb] in P3. simpl in P3. apply status_eqb_eq; exact P3.
  - apply status_in_In; exact P4.
Qed.

Lemma pausing_is_active :
  status_in S_PAUSING ACTIVE_STATUSES = true /\ status_in S_RUNNING ACTIVE_STATUSES = true /\
  status_in S_PAUSED ACTIVE_STATUSES = false.
Proof. repeat split. Qed.

(* ------------------------------------------------------------------ (5) resume works from what was held *)

Theorem resume_polls_the_held_entries : forall st c c' r, request_status_core st c = (c', r) ->
  staged (c_ws c') = staged (c_ws c) /\ staged_filtered (c_ws c') = staged_filtered (c_ws c).
Proof.
  intros st c c' r H. destruct (pctl_request_status_core st c c' r H) as [_ [_ [E _]]].
  split; [exact E|]. unfold staged_filtered. rewrite E. reflexivity.
Qed.

(* ------------------------------------------------------------------ witnesses *)

(* t1 --(when "isrunning")--> t2.  The evaluator answers "isrunning" by reading the workflow status
   out of the __state entry of the context. *)
Definition p_ev (s : string) (ctx : dict) : evalres :=
  if String.eqb s "isrunning" then
    EvOk (JBool (match dget "__state" ctx with
                 | Some (JDict d) => match dget "status" d with Some (JStr x) => String.eqb x "running" | _ => false end
                 | _ => false
                 end))
  else EvOk (JBool true).
Definition p_task (nx : list transition_spec) : task_spec :=
  {| ts_action := JNull; ts_input := JNull; ts_with := None; ts_delay := JNull; ts_join := JNull; ts_next := nx |}.
Definition p_spec (cond : string) : wf_spec :=
  {| wf_input := []; wf_vars := []; wf_output := [];
     wf_tasks := [("t1", p_task [{| tr_when := JStr cond; tr_publish := []; tr_do := ["t2"] |}]); ("t2", p_task [])] |}.
Definition p_graph (cond : string) : graph :=
  {| g_nodes := [{| n_id := "t1"; n_barrier := JNull; n_splits := None; n_retry := JNull |};
                 {| n_id := "t2"; n_barrier := JNull; n_splits := None; n_retry := JNull |}];
     g_edges := [{| e_src := "t1"; e_dst := "t2"; e_key := 0; e_ref := 0; e_criteria := [JStr cond] |}] |}.
Definition p_init (cond : string) : cstate :=
  {| c_spec := p_spec cond; c_graph := p_graph cond; c_inputs := []; c_parent := []; c_init := false;
     c_ws := empty_ws; c_errors := []; c_log := []; c_output := None |}.
Definition p_start : list api_op := [OpRequest S_RUNNING; OpGetNext; OpEvent "t1" 0 (EvAction S_RUNNING JNull)].
Definition p_report : api_op := OpEvent "t1" 0 (EvAction S_SUCCEEDED JNull).
(* the unpaused run, and the run paused while t1 is in flight and resumed once at rest *)
Definition p_plain : list api_op := p_start ++ [p_report].
Definition p_paused : list api_op := p_start ++ [OpRequest S_PAUSING; p_report; OpRequest S_RESUMING].
Definition p_obs (c : cstate) := (wstatus (c_ws c), map s_id (staged (c_ws c)), map r_status (sequence (c_ws c))).

(* REFUTED for a condition that reads the workflow status: unpaused, t2 is staged and the workflow
   goes on; paused, the condition is evaluated while the status is "pausing", t2 is never staged, and
   the resume finds nothing left and completes the workflow *)
Theorem pause_not_transparent_for_status_reading_condition :
  p_obs (run_ops p_ev p_plain (p_init "isrunning")) = (S_RUNNING, ["t2"], [Some S_SUCCEEDED]) /\
  p_obs (run_ops p_ev p_paused (p_init "isrunning")) = (S_SUCCEEDED, [], [Some S_SUCCEEDED]).
Proof. split; vm_compute; reflexivity. Qed.

(* the same workflow with a condition that does not read __state: the paused-and-resumed run ends in
   exactly the state of the unpaused run, statuses apart (resuming instead of running) *)
Example pause_transparent_on_blind_example :
  strip (run_ops p_ev p_paused (p_init "ok")) = strip (run_ops p_ev p_plain (p_init "ok")) /\
  p_obs (run_ops p_ev p_paused (p_init "ok")) = (S_RESUMING, ["t2"], [Some S_SUCCEEDED]) /\
  p_obs (run_ops p_ev p_plain (p_init "ok")) = (S_RUNNING, ["t2"], [Some S_SUCCEEDED]).
Proof. repeat split; vm_compute; reflexivity. Qed.

(* and at rest in between: paused, with the report fully processed -- t2 staged, nothing offered *)
Example pause_holds_back_on_blind_example :
  let c := run_ops p_ev (p_start ++ [OpRequest S_PAUSING; p_report]) (p_init "ok") in
  p_obs c = (S_PAUSED, ["t2"], [Some S_SUCCEEDED]) /\ get_next_tasks p_ev c = (c, Val []).
Proof. split; vm_compute; reflexivity. Qed.

Lemma strip_unfold : forall c,
  strip c = set_ws c {| contexts := contexts (c_ws c); routes := routes (c_ws c);
                        sequence := map (fun r => r_set_status r None) (sequence (c_ws c));
                        staged := staged (c_ws c); wstatus := S_UNSET; tasks := tasks (c_ws c);
                        reruns := reruns (c_ws c) |}.
Proof. reflexivity. Qed.
