(* PersistStatus.v -- what the persist round trip keeps, as far as the status theorems need. *)
From Coq Require Import String List Bool ZArith Arith Lia.
From Orq Require Import GenStatuses GenEvents GenTables GenSpecMeta Base State Machines Codec Conductor Decode Api.
From Orq Require Import F_tables Hoare.
Import ListNotations.
Open Scope string_scope.

Lemma status_name_roundtrip : forall s, status_of_name (status_name s) = Some s.
Proof. intro s; destruct s; vm_compute; reflexivity. Qed.

Lemma obind_some : forall A B (o : option A) (f : A -> option B) b,
  obind o f = Some b -> exists a, o = Some a /\ f a = Some b.
Proof. intros A B [a|] f b H; simpl in H; [eauto|discriminate]. Qed.

Lemma dec_wstate_status : forall w w', dec_wstate (enc_wstate w) = Some w' -> wstatus w' = wstatus w.
Proof.
  intros w w' H. unfold dec_wstate in H.
  repeat (apply obind_some in H; destruct H as [? [? H]]).
  inversion H; subst; clear H. simpl.
  match goal with Hs : as_status _ = Some ?x |- ?x = _ => rename Hs into Hst end.
  unfold enc_wstate, jfield_or_null, jfield in Hst. simpl in Hst.
  unfold as_status, enc_status in Hst. simpl in Hst.
  rewrite status_name_roundtrip in Hst. inversion Hst; reflexivity.
Qed.

Lemma dec_cstate_status : forall sp g c c', dec_cstate sp g (enc_cstate c) = Some c' ->
  wstatus (c_ws c') = wstatus (c_ws c).
Proof.
  intros sp g c c' H. unfold dec_cstate in H.
  repeat (apply obind_some in H; destruct H as [? [? H]]).
  inversion H; subst; clear H. simpl.
  match goal with Hs : dec_wstate _ = Some ?x |- wstatus ?x = _ => rename Hs into Hw end.
  unfold enc_cstate, jfield_or_null, jfield in Hw. simpl in Hw.
  apply dec_wstate_status; exact Hw.
Qed.
