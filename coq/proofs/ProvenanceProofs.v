(* ProvenanceProofs.v -- C06, the provenance clause: every context index in the list a task is
   rendered with (s_in of its staged entry, r_in of its record) is 0 -- the initial context: inputs
   and vars -- or was created by a transition INTO that task, or is inherited from the list of a
   record of the same task (retry, rerun, the record made from the staged entry) or of a task
   with an edge into it.  Following the inheritance down (it goes to strictly earlier records) ends
   at the creating transition: so the task is reachable, along edges of the graph, from the
   target of the transition that published the delta ([delta_reaches_only_downstream]).

   The engine keeps no record of which transition created which snapshot (r_out holds the last one
   only), so the invariant is stated with a ghost list [G], one entry per context snapshot, naming the
   (record, edge) that created it: for every history there IS such a list ([reachable_provenance]).
   No hypothesis on events, orders or the graph is needed (every evaluator, late and duplicate and
   malformed events, reruns, persists, calls that raise).

   Also: the exact recurrence of the lists ([in_list_recurrence]: arrival order, each arriving
   branch contributes its whole list minus its first 0, nothing is deduplicated -- the statement
   known finding D11 is a consequence of), and which snapshots the workflow output folds
   ([terminal_context_reads]). *)
From Coq Require Import String List Bool ZArith Arith Lia.
From Orq Require Import GenStatuses GenEvents GenTables GenSpecMeta Base State Machines Codec Conductor Decode Api.
From Orq Require Import F_tables Hoare ValuePost C05Proofs C18Proofs RetryProofs FrozenProofs JustifiedProofs.
Import ListNotations.
Open Scope string_scope.
Open Scope monad_scope.

(* ------------------------------------------------------------------ the invariant *)

(* who created a context snapshot: nobody we track (the initial context), or transition e of record j *)
Definition creator : Type := option (nat * gedge).

Section Prov.
Variable g : graph.

(* control can pass from a record of task a to an entry of task b: same task (the entry is a retry,
   a rerun or the record itself) or an edge of the graph *)
Definition task_step (a b : string) : Prop :=
  a = b \/ exists e, In e (g_edges g) /\ e_src e = a /\ e_dst e = b.

Definition src_ok (G : list creator) (sq : list trec) (bound : nat) (dst : string) (i : nat) : Prop :=
  exists j r', nth_error sq j = Some r' /\ j < bound /\
    ((In i (r_in r') /\ task_step (r_id r') dst) \/
     (exists e, nth_error G i = Some (Some (j, e)) /\ In e (g_edges g) /\ e_src e = r_id r' /\ e_dst e = dst)).

Definition in_ok (G : list creator) (sq : list trec) (bound : nat) (dst : string) (L : list nat) : Prop :=
  forall i, In i L -> i = 0 \/ src_ok G sq bound dst i.

Definition Provenance (G : list creator) (c : cstate) : Prop :=
  c_graph c = g /\ length G = length (contexts (c_ws c)) /\ ptr_ok (c_ws c) /\
  (forall s, In s (staged (c_ws c)) ->
     in_ok G (sequence (c_ws c)) (length (sequence (c_ws c))) (s_id s) (s_in s)) /\
  (forall n r, nth_error (sequence (c_ws c)) n = Some r -> in_ok G (sequence (c_ws c)) n (r_id r) (r_in r)).

(* records keep their task and their context list *)
Definition seq_in_keeps (sq sq' : list trec) : Prop :=
  forall j r, nth_error sq j = Some r -> exists r', nth_error sq' j = Some r' /\ r_id r' = r_id r /\ r_in r' = r_in r.

Lemma sik_refl : forall sq, seq_in_keeps sq sq.
Proof. intros sq j r H; exists r; repeat split; exact H. Qed.
Lemma sik_trans : forall a b c, seq_in_keeps a b -> seq_in_keeps b c -> seq_in_keeps a c.
Proof.
  intros a b c H1 H2 j r H. destruct (H1 j r H) as [r1 [A [B C]]]. destruct (H2 j r1 A) as [r2 [A2 [B2 C2]]].
  exists r2; repeat split; congruence.
Qed.
Lemma sik_length : forall a b, seq_in_keeps a b -> length a <= length b.
Proof.
  intros a b H. destruct (Nat.le_gt_cases (length a) (length b)) as [L|L]; [exact L|exfalso].
  destruct (nth_error a (length b)) as [r|] eqn:E; [|apply nth_error_None in E; lia].
  destruct (H _ _ E) as [r' [E' _]]. assert (nth_error b (length b) = None) by (apply nth_error_None; lia). congruence.
Qed.

Lemma prefix_nth : forall A (l l' : list A) i x, prefix l l' -> nth_error l i = Some x -> nth_error l' i = Some x.
Proof.
  intros A l l' i x [t ->] H. rewrite nth_error_app1; [exact H|]. apply nth_error_Some; congruence.
Qed.

Lemma src_ok_mono : forall G G' sq sq' b b' dst i, prefix G G' -> seq_in_keeps sq sq' -> b <= b' ->
  src_ok G sq b dst i -> src_ok G' sq' b' dst i.
Proof.
  intros G G' sq sq' b b' dst i Hp Hk Hb [j [r [Hn [Hj H]]]].
  destruct (Hk _ _ Hn) as [r' [Hn' [Hi Hin]]]. exists j, r'. split; [exact Hn'|]. split; [lia|].
  destruct H as [[H1 H2]|[e [H1 [H2 [H3 H4]]]]].
  - left. rewrite Hin, Hi. split; assumption.
  - right. exists e. split; [eapply prefix_nth; eassumption|]. split; [exact H2|]. split; [congruence|exact H4].
Qed.

Lemma in_ok_mono : forall G G' sq sq' b b' dst L, prefix G G' -> seq_in_keeps sq sq' -> b <= b' ->
  in_ok G sq b dst L -> in_ok G' sq' b' dst L.
Proof.
  intros G G' sq sq' b b' dst L Hp Hk Hb H i Hi. destruct (H i Hi) as [E|S]; [left; exact E|right].
  eapply src_ok_mono; eassumption.
Qed.

(* the general step *)
Lemma Prov_shape : forall G G' c c', Provenance G c -> prefix G G' -> c_graph c' = g ->
  length G' = length (contexts (c_ws c')) -> ptr_ok (c_ws c') ->
  seq_in_keeps (sequence (c_ws c)) (sequence (c_ws c')) ->
  (forall s', In s' (staged (c_ws c')) ->
     (exists s, In s (staged (c_ws c)) /\ s_id s' = s_id s /\ s_in s' = s_in s) \/
     in_ok G' (sequence (c_ws c')) (length (sequence (c_ws c'))) (s_id s') (s_in s')) ->
  (forall n r', nth_error (sequence (c_ws c')) n = Some r' ->
     (exists r, nth_error (sequence (c_ws c)) n = Some r /\ r_id r' = r_id r /\ r_in r' = r_in r) \/
     in_ok G' (sequence (c_ws c')) n (r_id r') (r_in r')) ->
  Provenance G' c'.
Proof.
  intros G G' c c' [Hg [Hl [Hp [Hs Hr]]]] Hpre Hg' Hl' Hp' Hk Hs' Hr'.
  pose proof (sik_length _ _ Hk) as Hlen.
  split; [exact Hg'|]. split; [exact Hl'|]. split; [exact Hp'|]. split.
  - intros s' Hin. destruct (Hs' s' Hin) as [[s [Hi [E1 E2]]]|H]; [|exact H].
    rewrite E1, E2. eapply in_ok_mono; [exact Hpre|exact Hk|exact Hlen|apply Hs; exact Hi].
  - intros n r' Hn. destruct (Hr' n r' Hn) as [[r [Hi [E1 E2]]]|H]; [|exact H].
    rewrite E1, E2. eapply in_ok_mono; [exact Hpre|exact Hk|apply Nat.le_refl|eapply Hr; exact Hi].
Qed.

Lemma Prov_eq : forall G c c', Provenance G c -> c_graph c' = c_graph c ->
  contexts (c_ws c') = contexts (c_ws c) -> sequence (c_ws c') = sequence (c_ws c) ->
  staged (c_ws c') = staged (c_ws c) -> tasks (c_ws c') = tasks (c_ws c) -> Provenance G c'.
Proof.
  intros G c c' [Hg [Hl [Hp [Hs Hr]]]] E1 E2 E3 E4 E5. unfold Provenance.
  split; [congruence|]. split; [congruence|]. split; [|split].
  - intros t route j Hj. unfold ws_task_idx in Hj. rewrite E5 in Hj. rewrite E3. exact (Hp t route j Hj).
  - rewrite E3, E4. exact Hs.
  - rewrite E3. exact Hr.
Qed.

Lemma Prov_staged : forall G c l, Provenance G c ->
  (forall s', In s' l -> exists s, In s (staged (c_ws c)) /\ s_id s' = s_id s /\ s_in s' = s_in s) ->
  Provenance G (set_ws c (ws_set_staged (c_ws c) l)).
Proof.
  intros G c l H Hl. pose proof H as [Hg [Hlen [Hp _]]].
  apply (Prov_shape G G c); [exact H|apply prefix_refl|exact Hg|exact Hlen|exact Hp|apply sik_refl| |].
  - intros s' Hin. left. apply Hl; exact Hin.
  - intros n r' Hn. left. exists r'; repeat split; exact Hn.
Qed.

Lemma Prov_staged_update : forall G c f t r, Provenance G c ->
  (forall s, s_id (f s) = s_id s /\ s_in (f s) = s_in s) ->
  Provenance G (set_ws c (ws_set_staged (c_ws c) (staged_update f t r (staged (c_ws c))))).
Proof.
  intros G c f t r H Hf. apply Prov_staged; [exact H|]. intros s' Hin.
  apply In_staged_update in Hin. destruct Hin as [Hin|[s [Hin [_ ->]]]].
  - exists s'; repeat split; exact Hin.
  - exists s; split; [exact Hin|apply Hf].
Qed.

Lemma Prov_remove_staged : forall G c t r, Provenance G c ->
  Provenance G (set_ws c (ws_remove_staged_task (c_ws c) t r)).
Proof.
  intros G c t r H. unfold ws_remove_staged_task.
  destruct (get_staged_task (c_ws c) t r) as [s|]; [|eapply Prov_eq; [exact H|reflexivity..]].
  destruct (items_any_active s); [eapply Prov_eq; [exact H|reflexivity..]|].
  apply Prov_staged; [exact H|]. intros s' Hin. apply In_staged_remove_first in Hin.
  exists s'; repeat split; exact Hin.
Qed.

Lemma sik_update : forall w j f, (forall r, r_id (f r) = r_id r /\ r_in (f r) = r_in r) ->
  seq_in_keeps (sequence w) (sequence (ws_update_rec w j f)).
Proof.
  intros w j f Hf k r Hn. destruct (Nat.eq_dec j k) as [<-|Hne].
  - exists (f r). split; [apply nth_update_rec_same; exact Hn|apply Hf].
  - exists r. split; [rewrite nth_update_rec_other by exact Hne; exact Hn|split; reflexivity].
Qed.

Lemma Prov_update : forall G c j f, Provenance G c ->
  (forall r, r_id (f r) = r_id r /\ r_in (f r) = r_in r) ->
  Provenance G (set_ws c (ws_update_rec (c_ws c) j f)).
Proof.
  intros G c j f H Hf. pose proof H as [Hg [Hlen [Hp _]]].
  pose proof (sik_update (c_ws c) j f Hf) as Hk.
  apply (Prov_shape G G c); [exact H|apply prefix_refl|exact Hg| | |exact Hk| |]; cbn [c_ws set_ws].
  - unfold ws_update_rec. destruct (nth_error (sequence (c_ws c)) j); exact Hlen.
  - apply ptr_ok_update; [intro r; apply Hf|exact Hp].
  - intros s' Hin. left. exists s'. split; [|split; reflexivity].
    unfold ws_update_rec in Hin. destruct (nth_error (sequence (c_ws c)) j); exact Hin.
  - intros n r' Hn. left. destruct (Nat.eq_dec j n) as [<-|Hne].
    + destruct (nth_error (sequence (c_ws c)) j) as [rj|] eqn:Ej.
      * rewrite (nth_update_rec_same _ _ _ _ Ej) in Hn; inversion Hn; subst r'. exists rj. split; [reflexivity|apply Hf].
      * unfold ws_update_rec in Hn. rewrite Ej in Hn. congruence.
    + rewrite nth_update_rec_other in Hn by exact Hne. exists r'; repeat split; exact Hn.
Qed.

Lemma sik_append : forall sq r, seq_in_keeps sq (app sq [r]).
Proof.
  intros sq r k rk Hn. exists rk. split; [rewrite nth_error_app1; [exact Hn|apply nth_error_Some; congruence]|].
  split; reflexivity.
Qed.

Lemma Prov_append : forall G c r route, Provenance G c ->
  in_ok G (sequence (c_ws c)) (length (sequence (c_ws c))) (r_id r) (r_in r) ->
  Provenance G (set_ws c (ws_set_tasks (ws_set_sequence (c_ws c) (app (sequence (c_ws c)) [r]))
                                       (aset tkey_eqb (r_id r, route) (length (sequence (c_ws c))) (tasks (c_ws c))))).
Proof.
  intros G c r route H Hj. pose proof H as [Hg [Hlen [Hp _]]].
  pose proof (sik_append (sequence (c_ws c)) r) as Hk.
  apply (Prov_shape G G c); [exact H|apply prefix_refl|exact Hg|exact Hlen| |exact Hk| |];
    cbn [c_ws set_ws sequence staged ws_set_tasks ws_set_sequence].
  - unfold ptr_ok. cbn [sequence ws_set_tasks ws_set_sequence].
    intros t rt k Hkk. unfold ws_task_idx in Hkk. cbn [tasks ws_set_tasks ws_set_sequence] in Hkk.
    destruct (tkey_eqb (t, rt) (r_id r, route)) eqn:E.
    + apply tkey_eqb_eq in E. inversion E; subst t rt.
      rewrite (aget_aset_eq tkey_eqb tkey_eqb_eq) in Hkk. inversion Hkk; subst k.
      exists r. split; [|reflexivity]. rewrite nth_error_app2 by apply Nat.le_refl. rewrite Nat.sub_diag. reflexivity.
    + rewrite (aget_aset_neq tkey_eqb tkey_eqb_eq) in Hkk.
      2: { intro E'. rewrite <- E' in E. rewrite (proj2 (tkey_eqb_eq _ _) eq_refl) in E. discriminate. }
      destruct (Hp t rt k Hkk) as [rk [Hn Hi]]. exists rk. split; [|exact Hi].
      rewrite nth_error_app1; [exact Hn|apply nth_error_Some; congruence].
  - intros s' Hin. left. exists s'; repeat split; exact Hin.
  - intros k rk Hn. destruct (Nat.lt_ge_cases k (length (sequence (c_ws c)))) as [Hlt|Hge].
    + rewrite nth_error_app1 in Hn by exact Hlt. left. exists rk; repeat split; exact Hn.
    + rewrite nth_error_app2 in Hn by exact Hge. destruct (k - length (sequence (c_ws c))) as [|m] eqn:Ek; simpl in Hn.
      * inversion Hn; subst rk. right. assert (k = length (sequence (c_ws c))) as -> by lia.
        eapply in_ok_mono; [apply prefix_refl|exact Hk|apply Nat.le_refl|exact Hj].
      * destruct m; discriminate.
Qed.

Lemma Prov_add_staged : forall G c s, Provenance G c ->
  in_ok G (sequence (c_ws c)) (length (sequence (c_ws c))) (s_id s) (s_in s) ->
  Provenance G (set_ws c (ws_add_staged (c_ws c) s)).
Proof.
  intros G c s H Hj. pose proof H as [Hg [Hlen [Hp _]]].
  apply (Prov_shape G G c); [exact H|apply prefix_refl|exact Hg|exact Hlen|exact Hp|apply sik_refl| |];
    cbn [c_ws set_ws sequence staged ws_add_staged ws_set_staged].
  - intros s' Hin. apply in_app_or in Hin. destruct Hin as [Hin|[<-|[]]].
    + left. exists s'; repeat split; exact Hin.
    + right. exact Hj.
  - intros k rk Hn. left. exists rk; repeat split; exact Hn.
Qed.

(* a staged entry whose list is extended by indices that are justified for its task *)
Lemma Prov_staged_gain : forall G c f t r extra, Provenance G c ->
  (forall s, s_id (f s) = s_id s /\ s_in (f s) = app (s_in s) extra) ->
  in_ok G (sequence (c_ws c)) (length (sequence (c_ws c))) t extra ->
  Provenance G (set_ws c (ws_set_staged (c_ws c) (staged_update f t r (staged (c_ws c))))).
Proof.
  intros G c f t r extra H Hf Hx. pose proof H as [Hg [Hlen [Hp [Hs _]]]].
  apply (Prov_shape G G c); [exact H|apply prefix_refl|exact Hg|exact Hlen|exact Hp|apply sik_refl| |];
    cbn [c_ws set_ws sequence staged ws_set_staged].
  - intros s' Hin. apply In_staged_update in Hin. destruct Hin as [Hin|[s [Hin [Hm ->]]]].
    + left. exists s'; repeat split; exact Hin.
    + right. destruct (Hf s) as [F1 F2]. rewrite F1, F2. apply stg_matches_id in Hm. destruct Hm as [Hid _].
      intros i Hi. apply in_app_or in Hi. destruct Hi as [Hi|Hi]; [apply (Hs s Hin); exact Hi|].
      rewrite Hid. apply Hx; exact Hi.
  - intros k rk Hn. left. exists rk; repeat split; exact Hn.
Qed.

(* a new snapshot, with its creator *)
Lemma Prov_new_context : forall G c d x, Provenance G c ->
  Provenance (app G [x]) (set_ws c (ws_set_contexts (c_ws c) (app (contexts (c_ws c)) [d]))).
Proof.
  intros G c d x H. pose proof H as [Hg [Hlen [Hp _]]].
  apply (Prov_shape G (app G [x]) c); [exact H|apply prefix_app|exact Hg| |exact Hp|apply sik_refl| |];
    cbn [c_ws set_ws contexts sequence staged ws_set_contexts].
  - rewrite !app_length, Hlen. reflexivity.
  - intros s' Hin. left. exists s'; repeat split; exact Hin.
  - intros k rk Hn. left. exists rk; repeat split; exact Hn.
Qed.


(* ------------------------------------------------------------------ preservation, piece by piece *)

(* a step: records keep task and list, and a ghost list for the state before extends to one after *)
Definition R2 (c c' : cstate) : Prop :=
  seq_in_keeps (sequence (c_ws c)) (sequence (c_ws c')) /\
  forall G, Provenance G c -> exists G', prefix G G' /\ Provenance G' c'.

Lemma R2_refl : forall c, R2 c c.
Proof. intro c; split; [apply sik_refl|intros G H; exists G; split; [apply prefix_refl|exact H]]. Qed.
Lemma R2_trans : forall a b c, R2 a b -> R2 b c -> R2 a c.
Proof.
  intros a b c [K1 P1] [K2 P2]. split; [eapply sik_trans; eassumption|].
  intros G H. destruct (P1 G H) as [G1 [E1 H1]]. destruct (P2 G1 H1) as [G2 [E2 H2]].
  exists G2. split; [eapply prefix_trans; eassumption|exact H2].
Qed.

Lemma R2_same_ghost : forall c c', seq_in_keeps (sequence (c_ws c)) (sequence (c_ws c')) ->
  (forall G, Provenance G c -> Provenance G c') -> R2 c c'.
Proof. intros c c' K H. split; [exact K|intros G HG; exists G; split; [apply prefix_refl|apply H; exact HG]]. Qed.

Lemma sik_eq : forall c c', sequence (c_ws c') = sequence (c_ws c) ->
  seq_in_keeps (sequence (c_ws c)) (sequence (c_ws c')).
Proof. intros c c' E; rewrite E; apply sik_refl. Qed.

Lemma R2_eq : forall c c', c_graph c' = c_graph c -> contexts (c_ws c') = contexts (c_ws c) ->
  sequence (c_ws c') = sequence (c_ws c) -> staged (c_ws c') = staged (c_ws c) ->
  tasks (c_ws c') = tasks (c_ws c) -> R2 c c'.
Proof. intros c c' E1 E2 E3 E4 E5. apply R2_same_ghost; [apply sik_eq; exact E3|intros G H; eapply Prov_eq; eassumption]. Qed.

Lemma R2_remove_staged : forall c t r, R2 c (set_ws c (ws_remove_staged_task (c_ws c) t r)).
Proof.
  intros c t r. apply R2_same_ghost; [apply sik_eq; cbn [c_ws set_ws]; apply seq_remove_staged|].
  intros G H; apply Prov_remove_staged; exact H.
Qed.

Lemma R2_staged_update : forall c f t r, (forall s, s_id (f s) = s_id s /\ s_in (f s) = s_in s) ->
  R2 c (set_ws c (ws_set_staged (c_ws c) (staged_update f t r (staged (c_ws c))))).
Proof.
  intros c f t r Hf. apply R2_same_ghost; [apply sik_eq; reflexivity|].
  intros G H; apply Prov_staged_update; assumption.
Qed.

Lemma R2_update : forall c j f, (forall r, r_id (f r) = r_id r /\ r_in (f r) = r_in r) ->
  R2 c (set_ws c (ws_update_rec (c_ws c) j f)).
Proof.
  intros c j f Hf. apply R2_same_ghost; [cbn [c_ws set_ws]; apply sik_update; exact Hf|].
  intros G H; apply Prov_update; assumption.
Qed.

Lemma R2_init_context : forall c d,
  R2 c (set_ws c (ws_set_routes (ws_set_contexts (c_ws c) (app (contexts (c_ws c)) [d])) (app (routes (c_ws c)) [[]]))).
Proof.
  intros c d. split; [apply sik_eq; reflexivity|]. intros G H. exists (app G [None]). split; [apply prefix_app|].
  eapply Prov_eq; [apply (Prov_new_context G c d None H)|reflexivity..].
Qed.

Lemma R2_add_root : forall c t, R2 c (set_ws c (ws_add_staged (c_ws c) (mk_staged t 0 [0] [] true None))).
Proof.
  intros c t. apply R2_same_ghost; [apply sik_eq; reflexivity|]. intros G H. apply Prov_add_staged; [exact H|].
  cbn [mk_staged s_id s_in]. intros i [<-|[]]. left; reflexivity.
Qed.

Section WithEval.
Variable ev : string -> dict -> evalres.

Ltac leaf2 :=
  first
    [ apply (preserves_modws R2); intro; apply R2_eq; reflexivity
    | apply (preserves_modws R2); intro; apply R2_remove_staged
    | apply (preserves_modws R2); intro; apply R2_staged_update; intro; split; reflexivity
    | apply (preserves_modws R2); intro; apply R2_update; intro; split; reflexivity
    | apply (preserves_modws R2); intro; apply R2_init_context
    | apply (preserves_modws R2); intro; apply R2_add_root
    | apply (preserves_modify R2); intro; apply R2_eq; reflexivity
    | apply (preserves_modify R2); intro;
      match goal with |- context [if ?b then _ else _] => destruct b end; first [apply R2_refl|apply R2_eq; reflexivity]
    | assumption
    | match goal with IH : forall _ _ _ _, preserves _ _ |- _ => apply IH end
    | eauto 3 with pres2p ].
Ltac walk2 := pw R2_refl R2_trans leaf2.

Lemma p2_wf_workflow_event : forall st, preserves R2 (wf_workflow_event_M st).
Proof.
  intros st c c' r H. unfold wf_workflow_event_M in H.
  destruct (wf_process_workflow_event (c_graph c) (c_ws c) st) as [[new unr]|e]; inversion H; subst;
    [apply R2_eq; reflexivity|apply R2_refl].
Qed.
Hint Resolve p2_wf_workflow_event : pres2p.
Lemma p2_wf_task_event : forall t route st, preserves R2 (wf_task_event_M t route st).
Proof.
  intros t route st c c' r H. unfold wf_task_event_M in H.
  destruct (wf_process_task_event (c_graph c) (c_ws c) t route st) as [[new unr]|e]; inversion H; subst;
    [apply R2_eq; reflexivity|apply R2_refl].
Qed.
Hint Resolve p2_wf_task_event : pres2p.
Lemma p2_log_entry_error : forall m t r tr res, preserves R2 (log_entry_error m t r tr res).
Proof. intros; unfold log_entry_error; walk2. Qed.
Hint Resolve p2_log_entry_error : pres2p.
Lemma p2_log_error : forall e t r tr, preserves R2 (log_error e t r tr).
Proof. intros; unfold log_error; auto with pres2p. Qed.
Hint Resolve p2_log_error : pres2p.
Lemma p2_log_errors : forall es t r tr, preserves R2 (log_errors es t r tr).
Proof. intros; unfold log_errors; walk2. Qed.
Hint Resolve p2_log_errors : pres2p.
Lemma p2_log_unreachable : forall l, preserves R2 (log_unreachable l).
Proof. intros; unfold log_unreachable; walk2. Qed.
Hint Resolve p2_log_unreachable : pres2p.
Lemma p2_set_rec_status : forall j s, preserves R2 (set_rec_status j s).
Proof. intros; unfold set_rec_status; walk2. Qed.
Hint Resolve p2_set_rec_status : pres2p.
Lemma p2_request_status_core : forall st, preserves R2 (request_status_core st).
Proof. intros; unfold request_status_core; walk2. Qed.
Hint Resolve p2_request_status_core : pres2p.
Lemma p2_render_input : forall specs rt rolling errs, preserves R2 (render_input ev specs rt rolling errs).
Proof. induction specs as [|[n d] specs IH]; intros; simpl; walk2. Qed.
Hint Resolve p2_render_input : pres2p.
Lemma p2_render_vars : forall specs rolling rendered errs, preserves R2 (render_vars ev specs rolling rendered errs).
Proof. induction specs as [|[n d] specs IH]; intros; simpl; walk2. Qed.
Hint Resolve p2_render_vars : pres2p.
Lemma p2_ensure_ws : preserves R2 (ensure_ws ev).
Proof. unfold ensure_ws; walk2. Qed.
Hint Resolve p2_ensure_ws : pres2p.
Lemma p2_request_workflow_status : forall st, preserves R2 (request_workflow_status ev st).
Proof. intros; unfold request_workflow_status; walk2. Qed.
Lemma p2_get_task_context : forall idxs, preserves R2 (get_task_context idxs).
Proof. intros; unfold get_task_context; walk2. Qed.
Hint Resolve p2_get_task_context : pres2p.
Lemma p2_render_task : forall ts ctx, preserves R2 (render_task ev ts ctx).
Proof. intros; unfold render_task; walk2. Qed.
Hint Resolve p2_render_task : pres2p.
Lemma p2_next_task_for : forall s, preserves R2 (next_task_for ev s).
Proof. intros; unfold next_task_for; walk2. Qed.
Hint Resolve p2_next_task_for : pres2p.
Lemma p2_get_next_tasks : preserves R2 (get_next_tasks ev).
Proof. unfold get_next_tasks; walk2. Qed.
Lemma p2_setup_retry : forall t idxs, preserves R2 (setup_retry ev t idxs).
Proof. intros; unfold setup_retry; walk2. Qed.
Hint Resolve p2_setup_retry : pres2p.
Lemma p2_evaluate_route : forall e r, preserves R2 (evaluate_route e r).
Proof. intros; unfold evaluate_route; walk2. Qed.
Hint Resolve p2_evaluate_route : pres2p.
Lemma p2_evaluate_task_retry : forall r ctx, preserves R2 (evaluate_task_retry ev r ctx).
Proof. intros; unfold evaluate_task_retry; walk2. Qed.
Hint Resolve p2_evaluate_task_retry : pres2p.
Lemma p2_finalize_context : forall ts e ctx, preserves R2 (finalize_context ev ts e ctx).
Proof. intros; unfold finalize_context; walk2. Qed.
Hint Resolve p2_finalize_context : pres2p.
Lemma p2_get_rec : forall j, preserves R2 (get_rec j).
Proof. intros; unfold get_rec; walk2. Qed.
Hint Resolve p2_get_rec : pres2p.
Lemma p2_upd_term : forall j b, preserves R2 (upd_rec j (fun r => r_set_term r b)).
Proof. intros; unfold upd_rec; walk2. Qed.
Hint Resolve p2_upd_term : pres2p.
Lemma p2_merge_term_contexts : forall l acc, preserves R2 (merge_term_contexts l acc).
Proof. induction l as [|[j r] l IH]; intros; simpl; walk2. Qed.
Hint Resolve p2_merge_term_contexts : pres2p.
Lemma p2_render_workflow_output : preserves R2 (render_workflow_output ev).
Proof. unfold render_workflow_output, get_workflow_terminal_context; walk2. Qed.
Lemma p2_unstage : forall t route evt s0, preserves R2 (uts_unstage t route evt s0).
Proof. intros; unfold uts_unstage; walk2. Qed.
Lemma p2_item : forall t route evt s0, preserves R2 (uts_item t route evt s0).
Proof. intros; unfold uts_item; walk2. Qed.
Lemma p2_logfail : forall t evt, preserves R2 (uts_logfail t evt).
Proof. intros; unfold uts_logfail; walk2. Qed.
Lemma p2_setst : forall idx ns, preserves R2 (uts_setst idx ns).
Proof. intros idx [s|]; unfold uts_setst; walk2. Qed.
Lemma p2_completion : forall t route evt ts idx new o0, preserves R2 (uts_completion ev t route evt ts idx new o0).
Proof. intros; unfold uts_completion; walk2. Qed.
Lemma p2_step1 : forall t route idx ctx e, preserves R2 (pt_step1 ev t route idx ctx e).
Proof. intros; unfold pt_step1, upd_rec; walk2. Qed.


(* ------------------------------------------------------------------ the pieces that need facts *)

Lemma R18_sik : forall c c', R18 c c' -> seq_in_keeps (sequence (c_ws c)) (sequence (c_ws c')).
Proof.
  intros c c' [_ [_ H]] j r Hn. destruct (H j r Hn) as [r' [Hn' [I1 [_ [I3 _]]]]]. exists r'; repeat split; assumption.
Qed.

(* the outcome of a step, for a ghost list G of the state before *)
Definition Post (G : list creator) (c c' : cstate) : Prop :=
  seq_in_keeps (sequence (c_ws c)) (sequence (c_ws c')) /\ exists G', prefix G G' /\ Provenance G' c'.

Lemma Post_refl : forall G c, Provenance G c -> Post G c c.
Proof. intros G c H; split; [apply sik_refl|exists G; split; [apply prefix_refl|exact H]]. Qed.

Lemma Post_trans : forall G G1 c c1 c', prefix G G1 -> seq_in_keeps (sequence (c_ws c)) (sequence (c_ws c1)) ->
  Post G1 c1 c' -> Post G c c'.
Proof.
  intros G G1 c c1 c' Hp Hk [K [G' [Hp' H]]]. split; [eapply sik_trans; eassumption|].
  exists G'; split; [eapply prefix_trans; eassumption|exact H].
Qed.

Lemma Post_of_R2 : forall G c c', R2 c c' -> Provenance G c -> Post G c c'.
Proof. intros G c c' [K P] H; split; [exact K|apply P; exact H]. Qed.

(* sequencing: run m (a piece that preserves R2), continue from the state and ghost it reached *)
Lemma bind_G : forall A B (m : M A) (f : A -> M B) (Q : cstate -> result B -> Prop) G c c' res,
  bind m f c = (c', res) -> Provenance G c -> preserves R2 m ->
  (forall c1 G1 e, prefix G G1 -> seq_in_keeps (sequence (c_ws c)) (sequence (c_ws c1)) -> Provenance G1 c1 -> Q c1 (Exc e)) ->
  (forall c1 G1 a, m c = (c1, Val a) -> prefix G G1 -> seq_in_keeps (sequence (c_ws c)) (sequence (c_ws c1)) ->
                   Provenance G1 c1 -> f a c1 = (c', res) -> Q c' res) ->
  Q c' res.
Proof.
  intros A B m f Q G c c' res H HP Hm He Hk. apply bind_inv in H.
  destruct H as [[c1 [a [E H]]]|[e [E ->]]].
  - destruct (Hm _ _ _ E) as [K P1]. destruct (P1 G HP) as [G1 [Hp H1]]. eapply Hk; eassumption.
  - destruct (Hm _ _ _ E) as [K P1]. destruct (P1 G HP) as [G1 [Hp H1]]. eapply He; eassumption.
Qed.

Definition Kid (c : cstate) (idx : nat) (t : string) : Prop :=
  exists r, nth_error (sequence (c_ws c)) idx = Some r /\ r_id r = t.

Lemma Kid_keeps : forall c c' idx t, seq_in_keeps (sequence (c_ws c)) (sequence (c_ws c')) -> Kid c idx t -> Kid c' idx t.
Proof. intros c c' idx t K [r [Hn Hi]]. destruct (K _ _ Hn) as [r' [Hn' [Hi' _]]]. exists r'; split; [exact Hn'|congruence]. Qed.

(* ---- a new record, with a list that is justified for its task ---- *)
Lemma add_task_state_P : forall G t rt ins prev c c' res,
  add_task_state ev t rt ins prev c = (c', res) -> Provenance G c ->
  in_ok G (sequence (c_ws c)) (length (sequence (c_ws c))) t ins -> Post G c c'.
Proof.
  intros G t rt ins prev c c' res H HP Hin.
  split; [apply R18_sik; eapply (p18_add_task_state ev); exact H|].
  unfold add_task_state in H. unfold bind at 1, get in H. cbv beta iota in H.
  destruct (negb (g_has_task (c_graph c) t)); [inversion H; subst; exists G; split; [apply prefix_refl|exact HP]|].
  cbv zeta in H. apply bind_inv in H.
  match type of H with (exists c1 a, ?m c = _ /\ _) \/ _ => assert (P1 : preserves R2 m) by walk2 end.
  destruct H as [[c1 [retry [E H]]]|[e [E _]]].
  2: { destruct (P1 _ _ _ E) as [_ P]. apply P; exact HP. }
  destruct (P1 _ _ _ E) as [K1 P]. destruct (P G HP) as [G1 [Hp1 HP1]].
  unfold bind at 1, getws in H. cbv beta iota in H.
  unfold bind, modws, ret in H. inversion H; subst c' res; clear H.
  exists G1. split; [exact Hp1|].
  match goal with |- Provenance G1 (set_ws c1 (ws_set_tasks (ws_set_sequence _ (app _ [?r])) _)) =>
    apply (Prov_append G1 c1 r rt HP1) end.
  cbn [r_id r_in].
  assert (Hin1 : in_ok G1 (sequence (c_ws c1)) (length (sequence (c_ws c1))) t ins)
    by (eapply in_ok_mono; [exact Hp1|exact K1|apply sik_length; exact K1|exact Hin]).
  destruct ins as [|x xs]; [intros i [<-|[]]; left; reflexivity|exact Hin1].
Qed.

Lemma add_from_staged_P : forall G t route s0 c c' res,
  (s <- uts_need_staged s0 ;; add_task_state ev t (s_route s) (s_in s) (s_prev s)) c = (c', res) ->
  Provenance G c ->
  (forall s, s0 = Some s -> in_ok G (sequence (c_ws c)) (length (sequence (c_ws c))) t (s_in s) /\ s_route s = route) ->
  Post G c c' /\ forall idx, res = Val idx -> Kid c' idx t.
Proof.
  intros G t route s0 c c' res H HP Hs. destruct s0 as [s|]; cbn [uts_need_staged] in H.
  - unfold bind at 1, ret in H. cbv beta iota in H. destruct (Hs s eq_refl) as [Hin Hr].
    pose proof (add_task_state_P _ _ _ _ _ _ _ _ H HP Hin) as HPost. split; [exact HPost|].
    intros idx E; subst res. destruct (add_task_state_inv _ _ _ _ _ _ _ _ H) as [r [Hn [_ [_ [_ Hptr]]]]].
    destruct HPost as [_ [G' [_ [_ [_ [Hpt _]]]]]]. destruct (Hpt _ _ _ Hptr) as [r' [Hn' Hi']].
    exists r'. split; assumption.
  - unfold bind, raise in H. inversion H; subst. split; [apply Post_refl; exact HP|intros idx E; discriminate].
Qed.

(* ---- the retry staging: the task is staged again with the record's own list ---- *)
Lemma in_ok_self : forall G sq n r t b, nth_error sq n = Some r -> r_id r = t -> n < b ->
  in_ok G sq b t (match r_in r with [] => [0] | _ => r_in r end).
Proof.
  intros G sq n r t b Hn Hi Hb i Hin. destruct (r_in r) as [|x xs] eqn:E.
  - destruct Hin as [<-|[]]. left; reflexivity.
  - right. exists n, r. split; [exact Hn|]. split; [exact Hb|]. left. split; [rewrite E; exact Hin|left; exact Hi].
Qed.

Lemma retrying_P : forall G t route idx r ns c c' res,
  uts_retrying t route idx r ns c = (c', res) -> Provenance G c ->
  nth_error (sequence (c_ws c)) idx = Some r -> r_id r = t -> Post G c c'.
Proof.
  intros G t route idx r ns c c' res H HP Hn Hid. unfold uts_retrying in H.
  destruct (status_eqb ns S_RETRYING); [|inversion H; subst; apply Post_refl; exact HP].
  destruct (r_retry r) as [rr|]; [|inversion H; subst; apply Post_refl; exact HP].
  cbv zeta in H. unfold upd_rec, bind, modws in H. inversion H; subst c' res; clear H.
  match goal with |- Post G c (set_ws ?c2 (ws_add_staged _ ?s)) =>
    assert (H2 : Provenance G c2 /\ seq_in_keeps (sequence (c_ws c)) (sequence (c_ws c2)) /\
                 exists r2, nth_error (sequence (c_ws c2)) idx = Some r2 /\ r_id r2 = t /\ r_in r2 = r_in r) end.
  { split; [apply Prov_remove_staged; apply Prov_update; [exact HP|intro; split; reflexivity]|].
    split.
    - cbn [c_ws set_ws]. rewrite seq_remove_staged. apply sik_update. intro; split; reflexivity.
    - eexists. split; [cbn [c_ws set_ws]; rewrite seq_remove_staged; exact (nth_update_rec_same (c_ws c) idx _ r Hn)|].
      split; [exact Hid|reflexivity]. }
  destruct H2 as [HP2 [K2 [r2 [Hn2 [Hi2 Hin2]]]]].
  split; [exact K2|]. exists G. split; [apply prefix_refl|].
  apply Prov_add_staged; [exact HP2|]. cbn [mk_staged s_id s_in]. rewrite <- Hin2.
  eapply in_ok_self; [exact Hn2|exact Hi2|]. apply nth_error_Some. congruence.
Qed.

(* ---- the task machine on the addressed record (a record of task t) ---- *)
Lemma pre_machine_P : forall G t route evt ts idx c c' res,
  pre_machine ev t route evt ts idx c = (c', res) -> Provenance G c -> Kid c idx t -> Post G c c'.
Proof.
  intros G t route evt ts idx c c' res H HP Hk. unfold pre_machine in H.
  apply bind_inv in H. destruct H as [[c0 [r [E H]]]|[x [E ->]]];
    [|apply get_rec_state in E; subst; apply Post_refl; exact HP].
  apply get_rec_inv in E; destruct E as [-> Hr].
  unfold bind at 1, getws in H. cbv beta iota in H.
  apply bind_inv in H. destruct H as [[c0 [ns [E H]]]|[x [E ->]]];
    apply lift_res_inv in E; destruct E as [-> Ens]; [|apply Post_refl; exact HP].
  eapply (bind_G _ _ _ _ (fun c' _ => Post G c c') G c c' res H HP (p2_setst idx ns)).
  { intros c1 G1 e Hp K1 HP1. split; [exact K1|exists G1; split; assumption]. }
  intros c1 G1 u1 _ Hp1 K1 HP1 H1.
  apply bind_inv in H1. destruct H1 as [[c1' [r1 [E H1]]]|[x [E ->]]];
    [|apply get_rec_state in E; subst; split; [exact K1|exists G1; split; assumption]].
  apply get_rec_inv in E; destruct E as [-> Hr1].
  assert (Hid1 : r_id r1 = t).
  { destruct (Kid_keeps _ _ _ _ K1 Hk) as [r1' [Hn1' Hi1']]. congruence. }
  apply bind_inv in H1.
  assert (HR : forall c2 r2, uts_retrying t route idx r1 (rstatus r1) c1 = (c2, r2) -> Post G c c2).
  { intros c2 r2 E2. eapply Post_trans; [exact Hp1|exact K1|]. eapply retrying_P; eassumption. }
  destruct H1 as [[c2 [u2 [E2 H2]]]|[x [E2 ->]]]; [|eapply HR; exact E2].
  destruct (HR _ _ E2) as [K2 [G2 [Hp2 HP2]]].
  eapply (bind_G _ _ _ _ (fun c' _ => Post G c c') G2 c2 c' res H2 HP2 (p2_completion _ _ _ _ _ _ _)).
  { intros c3 G3 e Hp3 K3 HP3. split; [eapply sik_trans; eassumption|exists G3; split; [eapply prefix_trans; eassumption|exact HP3]]. }
  intros c3 G3 compl _ Hp3 K3 HP3 H3. inversion H3; subst c' res.
  split; [eapply sik_trans; eassumption|exists G3; split; [eapply prefix_trans; eassumption|exact HP3]].
Qed.

(* ---- selecting the record ---- *)
Definition PostK (G : list creator) (t : string) (c c' : cstate) (res : result pre_out) : Prop :=
  Post G c c' /\ forall p, res = Val p -> Kid c' (po_idx p) t.

Lemma PostK_exc : forall G t c c' e, Post G c c' -> PostK G t c c' (Exc e).
Proof. intros G t c c' e H; split; [exact H|intros p E; discriminate]. Qed.

Lemma pre_main_P : forall G t route evt ts s0 e0 c c' res,
  pre_main ev t route evt ts s0 e0 c = (c', res) -> Provenance G c ->
  (forall s, s0 = Some s -> in_ok G (sequence (c_ws c)) (length (sequence (c_ws c))) t (s_in s) /\ s_route s = route) ->
  e0 = ws_task_idx (c_ws c) t route ->
  PostK G t c c' res.
Proof.
  intros G t route evt ts s0 e0 c c' res H HP Hs He0. unfold pre_main in H.
  apply bind_inv in H.
  assert (S1 : forall c2 r1, uts_sel1 ev t s0 e0 c = (c2, r1) ->
            Post G c c2 /\ forall idx1, r1 = Val idx1 -> Kid c2 idx1 t).
  { intros c2 r1 E. unfold uts_sel1 in E. destruct e0 as [i0|].
    - destruct (is_engine_command t) eqn:Ec; [eapply add_from_staged_P; eassumption|].
      inversion E; subst. split; [apply Post_refl; exact HP|]. intros idx1 Er; inversion Er; subst.
      destruct HP as [_ [_ [Hpt _]]]. destruct (Hpt _ _ _ (eq_sym He0)) as [r [Hn Hi]]. exists r; split; assumption.
    - eapply add_from_staged_P; eassumption. }
  destruct H as [[c2 [idx1 [E1 H]]]|[x [E1 ->]]]; [|apply PostK_exc; apply (S1 _ _ E1)].
  destruct (S1 _ _ E1) as [[K2 [G2 [Hp2 HP2]]] D1]. specialize (D1 idx1 eq_refl).
  apply bind_inv in H. destruct H as [[c2' [r1 [E H]]]|[x [E ->]]];
    [|apply get_rec_state in E; subst; apply PostK_exc; split; [exact K2|exists G2; split; assumption]].
  apply get_rec_inv in E; destruct E as [-> Hr1].
  apply bind_inv in H.
  assert (Hs2 : forall s, s0 = Some s ->
            in_ok G2 (sequence (c_ws c2)) (length (sequence (c_ws c2))) t (s_in s) /\ s_route s = route).
  { intros s E. destruct (Hs s E) as [A B]. split; [|exact B].
    eapply in_ok_mono; [exact Hp2|exact K2|apply sik_length; exact K2|exact A]. }
  assert (S2 : forall c3 r2, uts_sel2 ev t evt s0 r1 idx1 c2 = (c3, r2) ->
            Post G2 c2 c3 /\ forall idx, r2 = Val idx -> Kid c3 idx t).
  { intros c3 r2 E. unfold uts_sel2 in E.
    match type of E with (if ?b then _ else _) _ = _ => destruct b end; [eapply add_from_staged_P; eassumption|].
    inversion E; subst. split; [apply Post_refl; exact HP2|]. intros idx Er; inversion Er; subst. exact D1. }
  destruct H as [[c3 [idx [E2 H]]]|[x [E2 ->]]].
  2: { apply PostK_exc. eapply Post_trans; [exact Hp2|exact K2|apply (S2 _ _ E2)]. }
  destruct (S2 _ _ E2) as [[K3 [G3 [Hp3 HP3]]] D2]. specialize (D2 idx eq_refl).
  assert (T3 : forall c4, Post G3 c3 c4 -> Post G c c4).
  { intros c4 HPo. eapply Post_trans; [exact Hp2|exact K2|]. eapply Post_trans; [exact Hp3|exact K3|exact HPo]. }
  eapply (bind_G _ _ _ _ (fun c' res => PostK G t c c' res) G3 c3 c' res H HP3 (p2_unstage _ _ _ _)).
  { intros c4 G4 e Hp4 K4 HP4. apply PostK_exc. apply T3. split; [exact K4|exists G4; split; assumption]. }
  intros c4 G4 u4 _ Hp4 K4 HP4 H4.
  eapply (bind_G _ _ _ _ (fun c' res => PostK G t c c' res) G4 c4 c' res H4 HP4 (p2_item _ _ _ _)).
  { intros c5 G5 e Hp5 K5 HP5. apply PostK_exc. apply T3.
    split; [eapply sik_trans; eassumption|exists G5; split; [eapply prefix_trans; eassumption|exact HP5]]. }
  intros c5 G5 u5 _ Hp5 K5 HP5 H5.
  eapply (bind_G _ _ _ _ (fun c' res => PostK G t c c' res) G5 c5 c' res H5 HP5 (p2_logfail _ _)).
  { intros c6 G6 e Hp6 K6 HP6. apply PostK_exc. apply T3.
    split; [eapply sik_trans; [exact K4|eapply sik_trans; eassumption]|].
    exists G6; split; [eapply prefix_trans; [exact Hp4|eapply prefix_trans; eassumption]|exact HP6]. }
  intros c6 G6 u6 _ Hp6 K6 HP6 H6.
  assert (K36 : seq_in_keeps (sequence (c_ws c3)) (sequence (c_ws c6)))
    by (eapply sik_trans; [exact K4|eapply sik_trans; eassumption]).
  assert (Hp36 : prefix G3 G6) by (eapply prefix_trans; [exact Hp4|eapply prefix_trans; eassumption]).
  assert (Hk6 : Kid c6 idx t) by (eapply Kid_keeps; [exact K36|exact D2]).
  pose proof (pre_machine_P _ _ _ _ _ _ _ _ _ H6 HP6 Hk6) as HPo.
  split; [apply T3; eapply Post_trans; [exact Hp36|exact K36|exact HPo]|].
  intros p Ep; subst res. destruct (pre_machine_inv _ _ _ _ _ _ _ _ _ H6) as [ra [nsa [ca [cb Hx]]]].
  decompose [and] Hx. destruct HPo as [K7 _].
  match goal with Hi : po_idx p = idx |- _ => rewrite Hi end. eapply Kid_keeps; [exact K7|exact Hk6].
Qed.

Lemma prefix_P : forall G t route evt c c' res,
  uts_prefix ev t route evt c = (c', res) -> Provenance G c -> PostK G t c c' res.
Proof.
  intros G t route evt c c' res H HP. unfold uts_prefix in H.
  eapply (bind_G _ _ _ _ (fun c' res => PostK G t c c' res) G c c' res H HP p2_ensure_ws).
  { intros c1 G1 e Hp K1 HP1. apply PostK_exc. split; [exact K1|exists G1; split; assumption]. }
  intros c1 G1 u _ Hp1 K1 HP1 H1.
  assert (T1 : forall c4 r4, PostK G1 t c1 c4 r4 -> PostK G t c c4 r4).
  { intros c4 r4 [HPo Hv]. split; [eapply Post_trans; eassumption|exact Hv]. }
  unfold bind at 1, get in H1. cbv beta iota in H1.
  destruct (negb (g_has_task (c_graph c1) t));
    [inversion H1; subst; apply T1; apply PostK_exc; apply Post_refl; exact HP1|].
  cbv zeta in H1. apply bind_inv in H1.
  assert (Ets : forall c2 r2, (match spec_get_task (c_spec c1) t with Some ts => ret ts | None => raise (exn_key t) end) c1 = (c2, r2) -> c2 = c1)
    by (intros c2 r2 E; destruct (spec_get_task (c_spec c1) t); inversion E; reflexivity).
  destruct H1 as [[c2 [ts [E2 H2]]]|[x [E2 ->]]]; apply Ets in E2;
    [subst c2|subst c'; apply T1; apply PostK_exc; apply Post_refl; exact HP1].
  assert (Hs : forall s, get_staged_task (c_ws c1) t route = Some s ->
                 in_ok G1 (sequence (c_ws c1)) (length (sequence (c_ws c1))) t (s_in s) /\ s_route s = route).
  { intros s Es. pose proof (get_staged_matches _ _ _ _ Es) as [Hid Hrt]. split; [|exact Hrt].
    unfold get_staged_task in Es. apply find_some in Es. destruct Es as [Hin _].
    destruct HP1 as [_ [_ [_ [Hst _]]]]. rewrite <- Hid. apply Hst; exact Hin. }
  apply T1.
  destruct (get_staged_task (c_ws c1) t route) as [s|] eqn:Es, (ws_task_idx (c_ws c1) t route) as [j|] eqn:Ee;
    try (eapply pre_main_P; [exact H2|exact HP1|exact Hs|symmetry; exact Ee]).
  inversion H2; subst. apply PostK_exc; apply Post_refl; exact HP1.
Qed.

(* ------------------------------------------------------------------ acting on a true decision *)

Lemma nat_remove_first_In : forall n l l' x, nat_remove_first n l = Some l' -> In x l' -> In x l.
Proof.
  intros n l; induction l as [|m l IH]; intros l' x H Hx; simpl in H; [discriminate|].
  destruct (Nat.eqb n m); [inversion H; subst; right; exact Hx|].
  destruct (nat_remove_first n l) as [l0|]; [|discriminate]. inversion H; subst.
  destruct Hx as [<-|Hx]; [left; reflexivity|right; eapply IH; [reflexivity|exact Hx]].
Qed.

Lemma pt_cont_P : forall G t route idx ts ctx e ok c c' res,
  pt_cont ev t route idx ts ctx e ok c = (c', res) -> Provenance G c -> Kid c idx t ->
  In e (g_edges g) -> e_src e = t -> Post G c c'.
Proof.
  intros G t route idx ts ctx e ok c c' res H HP Hk Hedge Hsrc.
  destruct ok as [[|]|]; try (unfold pt_cont in H; inversion H; subst; apply Post_refl; exact HP).
  unfold pt_cont in H. cbv zeta in H.
  eapply (bind_G _ _ _ _ (fun c' _ => Post G c c') G c c' res H HP (p2_finalize_context _ _ _)).
  { intros c1 G1 x Hp K1 HP1. split; [exact K1|exists G1; split; assumption]. }
  intros c1 G1 [new_ctx errors] _ Hp1 K1 HP1 H1.
  assert (T1 : forall c4, Post G1 c1 c4 -> Post G c c4) by (intros c4 X; eapply Post_trans; eassumption).
  destruct errors as [|x errs].
  2: { apply T1. match type of H1 with ?m c1 = _ => assert (P : preserves R2 m) by walk2 end.
       eapply Post_of_R2; [eapply P; exact H1|exact HP1]. }
  apply bind_inv in H1. destruct H1 as [[c1' [r [E H1]]]|[x [E ->]]];
    [|apply get_rec_state in E; subst; apply T1; apply Post_refl; exact HP1].
  apply get_rec_inv in E; destruct E as [-> Hr].
  assert (Hid : r_id r = t).
  { destruct (Kid_keeps _ _ _ _ K1 Hk) as [r' [Hn' Hi']]. congruence. }
  unfold bind at 1, getws in H1. cbv beta iota in H1.
  (* the list handed to the target, and the ghost after a publish *)
  apply bind_inv in H1.
  assert (Hout : forall c2 ro,
            (match new_ctx with
             | [] => ret (r_in r)
             | _ => modws (fun w => ws_set_contexts w (app (contexts w) [new_ctx])) ;;;
                    upd_rec idx (fun r0 => r_set_out r0 (Some ((e_dst e, e_key e), length (contexts (c_ws c1))))) ;;;
                    ret (app (r_in r) [length (contexts (c_ws c1))])
             end) c1 = (c2, ro) ->
            exists G2 out, ro = Val out /\ prefix G1 G2 /\ Provenance G2 c2 /\
              seq_in_keeps (sequence (c_ws c1)) (sequence (c_ws c2)) /\
              forall i, In i out -> In i (r_in r) \/ nth_error G2 i = Some (Some (idx, e))).
  { intros c2 ro E. destruct new_ctx as [|kv d].
    - inversion E; subst. exists G1, (r_in r). split; [reflexivity|]. split; [apply prefix_refl|].
      split; [exact HP1|]. split; [apply sik_refl|]. intros i Hi; left; exact Hi.
    - unfold upd_rec, bind, modws, ret in E. inversion E; subst c2 ro; clear E.
      exists (app G1 [Some (idx, e)]), (app (r_in r) [length (contexts (c_ws c1))]).
      split; [reflexivity|]. split; [apply prefix_app|]. split; [|split].
      + pose proof (Prov_new_context G1 c1 (kv :: d) (Some (idx, e)) HP1) as HA.
        exact (Prov_update _ _ idx (fun r0 => r_set_out r0 (Some ((e_dst e, e_key e), length (contexts (c_ws c1)))))
                           HA (fun r0 => conj eq_refl eq_refl)).
      + exact (sik_update (ws_set_contexts (c_ws c1) (app (contexts (c_ws c1)) [kv :: d])) idx (fun r0 => r_set_out r0 (Some ((e_dst e, e_key e), length (contexts (c_ws c1)))))
                          (fun r0 => conj eq_refl eq_refl)).
      + intros i Hi. apply in_app_or in Hi. destruct Hi as [Hi|[<-|[]]]; [left; exact Hi|right].
        destruct HP1 as [_ [Hlen _]]. rewrite <- Hlen. rewrite nth_error_app2 by apply Nat.le_refl.
        rewrite Nat.sub_diag. reflexivity. }
  destruct H1 as [[c2 [out [E2 H2]]]|[x [E2 ->]]].
  2: { destruct (Hout _ _ E2) as [G2 [out [Ero _]]]. discriminate. }
  destruct (Hout _ _ E2) as [G2 [out' [Ero [Hp2 [HP2 [K2 Hmem]]]]]]. inversion Ero; subst out'; clear Ero.
  assert (T2 : forall c4, Post G2 c2 c4 -> Post G c c4) by (intros c4 X; apply T1; eapply Post_trans; eassumption).
  eapply (bind_G _ _ _ _ (fun c' _ => Post G c c') G2 c2 c' res H2 HP2 (p2_evaluate_route _ _)).
  { intros c3 G3 x Hp3 K3 HP3. apply T2. split; [exact K3|exists G3; split; assumption]. }
  intros c3 G3 nr _ Hp3 K3 HP3 H3.
  assert (T3 : forall c4, Post G3 c3 c4 -> Post G c c4) by (intros c4 X; apply T2; eapply Post_trans; eassumption).
  (* every index handed over is justified for the target in the state where it is staged *)
  assert (Hok : in_ok G3 (sequence (c_ws c3)) (length (sequence (c_ws c3))) (e_dst e) out).
  { intros i Hi. destruct (Nat.eq_dec i 0) as [->|Hnz]; [left; reflexivity|right].
    destruct (K2 _ _ Hr) as [r2 [Hn2 [Hi2 Hin2]]]. destruct (K3 _ _ Hn2) as [r3 [Hn3 [Hi3 Hin3]]].
    exists idx, r3. split; [exact Hn3|]. split; [apply nth_error_Some; congruence|].
    destruct (Hmem i Hi) as [Hm|Hm].
    - left. split; [rewrite Hin3, Hin2; exact Hm|]. right. exists e. split; [exact Hedge|]. split; [congruence|reflexivity].
    - right. exists e. split; [eapply prefix_nth; eassumption|]. split; [exact Hedge|]. split; [congruence|reflexivity]. }
  unfold bind at 1, getws in H3. cbv beta iota in H3.
  apply bind_inv in H3.
  assert (Hstage : forall c4 r4,
            (match get_staged_task (c_ws c3) (e_dst e) nr with
             | Some _ =>
                 match nat_remove_first 0 out with
                 | None => raise (mkexn "ValueError" "list.remove(x): x not in list")
                 | Some out' =>
                     modws (fun w => ws_set_staged w
                              (staged_update
                                 (fun s => s_set_completed
                                             (s_set_items (s_set_in_prev s (app (s_in s) out')
                                                                         (aset trid_eqb (t, e_key e) idx (s_prev s)))
                                                          None) false)
                                 (e_dst e) nr (staged w)))
                 end
             | None =>
                 modws (fun w => ws_add_staged w (mk_staged (e_dst e) nr out [((t, e_key e), idx)] false None))
             end) c3 = (c4, r4) ->
            Provenance G3 c4 /\ seq_in_keeps (sequence (c_ws c3)) (sequence (c_ws c4))).
  { intros c4 r4 E. destruct (get_staged_task (c_ws c3) (e_dst e) nr).
    - destruct (nat_remove_first 0 out) as [out'|] eqn:Er; [|inversion E; subst; split; [exact HP3|apply sik_refl]].
      unfold modws in E. inversion E; subst c4 r4. split; [|apply sik_eq; reflexivity].
      eapply Prov_staged_gain; [exact HP3|intro s1; split; reflexivity|].
      intros i Hi. apply Hok. eapply nat_remove_first_In; eassumption.
    - unfold modws in E. inversion E; subst c4 r4. split; [|apply sik_eq; reflexivity].
      apply Prov_add_staged; [exact HP3|]. cbn [mk_staged s_id s_in].
      destruct out as [|o os]; [intros i [<-|[]]; left; reflexivity|exact Hok]. }
  destruct H3 as [[c4 [u4 [E4 H4]]]|[x [E4 ->]]].
  2: { apply T3. destruct (Hstage _ _ E4) as [A B]. split; [exact B|exists G3; split; [apply prefix_refl|exact A]]. }
  destruct (Hstage _ _ E4) as [HP4 K4].
  assert (T4 : forall c5, Post G3 c4 c5 -> Post G c c5).
  { intros c5 X. apply T3. eapply Post_trans; [apply prefix_refl|exact K4|exact X]. }
  apply T4. match type of H4 with ?m c4 = _ => assert (P : preserves R2 m) by walk2 end.
  eapply Post_of_R2; [eapply P; exact H4|exact HP4].
Qed.

Lemma process_transition_P : forall G t route idx ts ctx e c c' res,
  process_transition ev t route idx ts ctx e c = (c', res) -> Provenance G c -> Kid c idx t ->
  In e (g_edges g) -> e_src e = t -> Post G c c'.
Proof.
  intros G t route idx ts ctx e c c' res H HP Hk Hedge Hsrc. rewrite pt_eq in H.
  eapply (bind_G _ _ _ _ (fun c' _ => Post G c c') G c c' res H HP (p2_step1 _ _ _ _ _)).
  { intros c1 G1 x Hp K1 HP1. split; [exact K1|exists G1; split; assumption]. }
  intros c1 G1 ok _ Hp1 K1 HP1 H1. eapply Post_trans; [exact Hp1|exact K1|].
  eapply pt_cont_P; [exact H1|exact HP1|eapply Kid_keeps; eassumption|exact Hedge|exact Hsrc].
Qed.

Lemma transitions_P : forall t route idx ts ctx l G c c' res,
  (forall e, In e l -> In e (g_edges g) /\ e_src e = t) ->
  mapM (process_transition ev t route idx ts ctx) l c = (c', res) -> Provenance G c -> Kid c idx t -> Post G c c'.
Proof.
  intros t route idx ts ctx. induction l as [|e l IH]; intros G c c' res Hl H HP Hk; cbn [mapM] in H.
  - inversion H; subst. apply Post_refl; exact HP.
  - destruct (Hl e (or_introl eq_refl)) as [Hedge Hsrc].
    apply bind_inv in H. destruct H as [[c1 [y [E1 H]]]|[x [E1 _]]];
      [|eapply process_transition_P; eassumption].
    destruct (process_transition_P _ _ _ _ _ _ _ _ _ _ E1 HP Hk Hedge Hsrc) as [K1 [G1 [Hp1 HP1]]].
    assert (Hk1 : Kid c1 idx t) by (eapply Kid_keeps; eassumption).
    assert (Hl' : forall e', In e' l -> In e' (g_edges g) /\ e_src e' = t) by (intros e' He'; apply Hl; right; exact He').
    apply bind_inv in H. destruct H as [[c2 [ys [E2 H]]]|[x [E2 _]]].
    + inversion H; subst. eapply Post_trans; [exact Hp1|exact K1|eapply IH; eassumption].
    + eapply Post_trans; [exact Hp1|exact K1|eapply IH; eassumption].
Qed.

Lemma next_transitions_edges_g : forall t e, In e (g_next_transitions g t) -> In e (g_edges g) /\ e_src e = t.
Proof. intros t e H. eapply next_transitions_edges; exact H. Qed.

Lemma queue_P : forall G t route idx ts old new compl c c' res,
  uts_queue ev t route idx ts old new compl c = (c', res) -> Provenance G c -> Kid c idx t -> Post G c c'.
Proof.
  intros G t route idx ts old new compl c c' res H HP Hk. unfold uts_queue in H.
  destruct compl as [[cctx b]|]; [|inversion H; subst; apply Post_refl; exact HP].
  destruct (negb (status_eqb new old)); [|inversion H; subst; apply Post_refl; exact HP].
  unfold bind at 1, get in H. cbv beta iota zeta in H.
  assert (Hg : c_graph c = g) by (destruct HP; assumption). rewrite Hg in H.
  match type of H with bind ?m _ c = _ => assert (P0 : preserves R2 m) by (unfold upd_rec; walk2) end.
  eapply (bind_G _ _ _ _ (fun c' _ => Post G c c') G c c' res H HP P0).
  { intros c1 G1 x Hp K1 HP1. split; [exact K1|exists G1; split; assumption]. }
  intros c1 G1 u1 _ Hp1 K1 HP1 H1.
  assert (T1 : forall c4, Post G1 c1 c4 -> Post G c c4) by (intros c4 X; eapply Post_trans; eassumption).
  apply bind_inv in H1.
  assert (Htr : forall c2 r2, mapM (process_transition ev t route idx ts cctx) (g_next_transitions g t) c1 = (c2, r2) ->
                  Post G1 c1 c2).
  { intros c2 r2 E. eapply transitions_P; [apply next_transitions_edges_g|exact E|exact HP1|eapply Kid_keeps; eassumption]. }
  destruct H1 as [[c2 [rs [E2 H2]]]|[x [E2 _]]]; [|apply T1; eapply Htr; exact E2].
  destruct (Htr _ _ E2) as [K2 [G2 [Hp2 HP2]]].
  apply T1. eapply Post_trans; [exact Hp2|exact K2|].
  match type of H2 with ?m c2 = _ => assert (P : preserves R2 m) by (unfold upd_rec; walk2) end.
  eapply Post_of_R2; [eapply P; exact H2|exact HP2].
Qed.

(* ---- the tail, the recursion, update_task_state ---- *)
Lemma tail_P : forall rec, (forall t route evt, preserves R2 (rec t route evt)) ->
  forall G t route p c c' res, tail_of ev rec t route p c = (c', res) -> Provenance G c -> Kid c (po_idx p) t ->
  Post G c c'.
Proof.
  intros rec IH G t route p c c' res H HP Hk. unfold tail_of, uts_tail in H.
  assert (Hcall : forall q, preserves R2 (uts_call rec q)).
  { intros [n rt]. unfold uts_call. destruct (engine_event n); [apply IH|apply (preserves_raise _ R2_refl)]. }
  assert (Hnr : forall compl,
            (queue <- uts_queue ev t route (po_idx p) (po_ts p) (po_old p) (po_new p) compl ;;
             r <- get_rec (po_idx p) ;;
             st <- (match r_status r with Some s => ret s | None => raise (exn_key "status") end) ;;
             unreachable <- wf_task_event_M t route st ;;
             log_unreachable unreachable ;;;
             forM_ queue (uts_call rec) ;;;
             w <- getws ;;
             if status_in (wstatus w) COMPLETED_STATUSES
             then upd_rec (po_idx p) (fun r => r_set_term r true)
             else ret tt) c = (c', res) -> Post G c c').
  { intros compl Hb. apply bind_inv in Hb.
    destruct Hb as [[c1 [q [E Hb]]]|[x [E _]]]; [|eapply queue_P; eassumption].
    destruct (queue_P _ _ _ _ _ _ _ _ _ _ _ E HP Hk) as [K1 [G1 [Hp1 HP1]]].
    eapply Post_trans; [exact Hp1|exact K1|].
    match type of Hb with ?m c1 = _ => assert (P : preserves R2 m) end.
    { apply (preserves_bind _ R2_trans); [apply p2_get_rec|intro r].
      apply (preserves_bind _ R2_trans);
        [destruct (r_status r); [apply (preserves_ret _ R2_refl)|apply (preserves_raise _ R2_refl)]|intro st].
      apply (preserves_bind _ R2_trans); [apply p2_wf_task_event|intro unr].
      apply (preserves_bind _ R2_trans); [apply p2_log_unreachable|intros _].
      apply (preserves_bind _ R2_trans); [apply (preserves_forM _ R2_refl R2_trans); exact Hcall|intros _].
      apply (preserves_bind _ R2_trans); [apply (preserves_getws _ R2_refl)|intro w].
      destruct (status_in (wstatus w) COMPLETED_STATUSES); [apply p2_upd_term|apply (preserves_ret _ R2_refl)]. }
    eapply Post_of_R2; [eapply P; exact Hb|exact HP1]. }
  destruct (po_compl p) as [[cctx b]|].
  - destruct b; [eapply Post_of_R2; [eapply IH; exact H|exact HP]|eapply Hnr; exact H].
  - eapply Hnr; exact H.
Qed.

Lemma uts_P : forall fuel t route evt, preserves R2 (update_task_state_fuel ev fuel t route evt).
Proof.
  induction fuel as [|fuel IH]; intros t route evt; [simpl; apply (preserves_raise _ R2_refl)|].
  intros c c' res H. split; [apply R18_sik; eapply (p18_update_task_state_fuel ev); exact H|].
  intros G HP. rewrite uts_unfold, body_eq in H. apply bind_inv in H.
  destruct H as [[c1 [p [E H]]]|[e [E _]]].
  - destruct (prefix_P _ _ _ _ _ _ _ E HP) as [[K1 [G1 [Hp1 HP1]]] Hk]. specialize (Hk p eq_refl).
    destruct (tail_P _ IH _ _ _ _ _ _ _ H HP1 Hk) as [_ [G2 [Hp2 HP2]]].
    exists G2. split; [eapply prefix_trans; eassumption|exact HP2].
  - destruct (prefix_P _ _ _ _ _ _ _ E HP) as [[_ HPo] _]. exact HPo.
Qed.

(* ---- rerun ---- *)
Lemma request_task_rerun_P : forall t route b, preserves R2 (request_task_rerun ev t route b).
Proof.
  intros t route b c c' res H. split; [apply R18_sik; eapply (p18_request_task_rerun ev); exact H|].
  intros G HP. unfold request_task_rerun in H.
  unfold bind at 1, get in H. cbv beta iota in H.
  destruct (ws_task_idx (c_ws c) t route) as [idx|] eqn:Ep;
    [|unfold bind, raise in H; inversion H; subst; exists G; split; [apply prefix_refl|exact HP]].
  unfold bind at 1, ret in H. cbv beta iota in H.
  apply bind_inv in H. destruct H as [[c0 [r [E H]]]|[x [E ->]]];
    [|apply get_rec_state in E; subst; exists G; split; [apply prefix_refl|exact HP]].
  apply get_rec_inv in E; destruct E as [-> Hn].
  assert (Hid : r_id r = t).
  { destruct HP as [_ [_ [Hpt _]]]. destruct (Hpt _ _ _ Ep) as [r' [Hn' Hi']]. congruence. }
  apply bind_inv in H.
  assert (Ets : forall c2 r2, (match spec_get_task (c_spec c) t with Some ts => ret ts | None => raise (exn_key t) end) c = (c2, r2) -> c2 = c)
    by (intros c2 r2 E; destruct (spec_get_task (c_spec c) t); inversion E; reflexivity).
  destruct H as [[c2 [ts [E2 H]]]|[x [E2 ->]]]; apply Ets in E2;
    [subst c2|subst c'; exists G; split; [apply prefix_refl|exact HP]].
  (* three steps that keep records and lists *)
  match type of H with bind ?m1 _ c = _ => assert (P1 : preserves R2 m1) by (unfold upd_rec; walk2) end.
  apply (bind_G _ _ _ _ (fun c' _ => exists G', prefix G G' /\ Provenance G' c') G c c' res H HP P1).
  { intros c1 G1 x Hp K1 HP1. exists G1; split; assumption. }
  intros c3 G3 u3 _ Hp3 K3 HP3 H3.
  match type of H3 with bind ?m1 _ c3 = _ => assert (P3 : preserves R2 m1) by walk2 end.
  apply (bind_G _ _ _ _ (fun c' _ => exists G', prefix G G' /\ Provenance G' c') G3 c3 c' res H3 HP3 P3).
  { intros c1 G1 x Hp K1 HP1. exists G1; split; [eapply prefix_trans; eassumption|exact HP1]. }
  intros c4 G4 u4 _ Hp4 K4 HP4 H4.
  match type of H4 with bind ?m1 _ c4 = _ => assert (P4 : preserves R2 m1) by walk2 end.
  apply (bind_G _ _ _ _ (fun c' _ => exists G', prefix G G' /\ Provenance G' c') G4 c4 c' res H4 HP4 P4).
  { intros c1 G1 x Hp K1 HP1. exists G1; split; [eapply prefix_trans; [exact Hp3|eapply prefix_trans; eassumption]|exact HP1]. }
  intros c5 G5 u5 _ Hp5 K5 HP5 H5.
  assert (Hp05 : prefix G G5) by (eapply prefix_trans; [exact Hp3|eapply prefix_trans; eassumption]).
  assert (K05 : seq_in_keeps (sequence (c_ws c)) (sequence (c_ws c5)))
    by (eapply sik_trans; [exact K3|eapply sik_trans; eassumption]).
  destruct (K05 _ _ Hn) as [r5 [Hn5 [Hi5 Hin5]]].
  assert (Hself : in_ok G5 (sequence (c_ws c5)) (length (sequence (c_ws c5))) t (r_in r)).
  { intros i Hi. right. exists idx, r5. split; [exact Hn5|]. split; [apply nth_error_Some; congruence|].
    left. split; [rewrite Hin5; exact Hi|left; congruence]. }
  unfold bind at 1 in H5. unfold getws at 1 in H5. cbv beta iota in H5.
  apply bind_inv in H5.
  assert (Hmid : forall c6 r6,
            (if task_has_items ts && match get_staged_task (c_ws c5) t route with Some _ => true | None => false end
             then modws (fun w => ws_set_staged w
                    (staged_update
                       (fun s => s_set_items s
                                   (match s_items s with
                                    | Some l => Some (map (fun st => if b || status_in st ABENDED_STATUSES then S_UNSET else st) l)
                                    | None => None end))
                       t route (staged w)))
             else add_task_state ev t route (r_in r) (r_prev r) ;;;
                  modws (fun w => ws_add_staged w (mk_staged t route (r_in r) (r_prev r) true None))) c5 = (c6, r6) ->
            exists G6, prefix G5 G6 /\ Provenance G6 c6).
  { intros c6 r6 E6.
    destruct (task_has_items ts && match get_staged_task (c_ws c5) t route with Some _ => true | None => false end).
    - unfold modws in E6. inversion E6; subst. exists G5. split; [apply prefix_refl|].
      apply Prov_staged_update; [exact HP5|intro; split; reflexivity].
    - apply bind_inv in E6. destruct E6 as [[c7 [i7 [E7 E6]]]|[x [E7 _]]].
      + destruct (add_task_state_P _ _ _ _ _ _ _ _ E7 HP5 Hself) as [K7 [G7 [Hp7 HP7]]].
        unfold modws in E6. inversion E6; subst. exists G7. split; [exact Hp7|].
        apply Prov_add_staged; [exact HP7|]. cbn [mk_staged s_id s_in].
        destruct (K7 _ _ Hn5) as [r7 [Hn7 [Hi7 Hin7]]].
        rewrite <- Hin5, <- Hin7. eapply in_ok_self; [exact Hn7|congruence|apply nth_error_Some; congruence].
      + destruct (add_task_state_P _ _ _ _ _ _ _ _ E7 HP5 Hself) as [_ HPo]. exact HPo. }
  destruct H5 as [[c6 [u6 [E6 H6]]]|[x [E6 _]]].
  2: { destruct (Hmid _ _ E6) as [G6 [Hp6 HP6]]. exists G6; split; [eapply prefix_trans; eassumption|exact HP6]. }
  destruct (Hmid _ _ E6) as [G6 [Hp6 HP6]].
  match type of H6 with ?m c6 = _ => assert (P : preserves R2 m) by (unfold upd_rec; walk2) end.
  destruct (P _ _ _ H6) as [_ P6]. destruct (P6 G6 HP6) as [G7 [Hp7 HP7]].
  exists G7. split; [eapply prefix_trans; [exact Hp05|eapply prefix_trans; eassumption]|exact HP7].
Qed.
Hint Resolve request_task_rerun_P : pres2p.

Lemma p2_request_workflow_rerun : forall reqs, preserves R2 (request_workflow_rerun ev reqs).
Proof. intros; unfold request_workflow_rerun, upd_rec; walk2. Qed.

Lemma p2_persist : preserves R2 (persist ev).
Proof.
  intros c c' res H. unfold persist in H. apply bind_inv in H.
  destruct H as [[c1 [u [E H]]]|[x [E _]]]; [|eapply p2_ensure_ws; eauto].
  rewrite (dec_cstate_enc c1 (ensure_ws_init_after ev _ _ _ E)) in H. inversion H; subst.
  eapply p2_ensure_ws; eauto.
Qed.

(* ---- every API operation, no hypothesis ---- *)
Theorem api_provenance : forall op, preserves R2 (api_exec ev op).
Proof.
  intros op. destruct op; cbn [api_exec];
    (apply (preserves_bind _ R2_trans); [|intro; apply (preserves_ret _ R2_refl)]).
  - apply p2_ensure_ws.
  - apply p2_request_workflow_status.
  - apply p2_get_next_tasks.
  - unfold update_task_state. apply uts_P.
  - apply p2_render_workflow_output.
  - apply p2_request_workflow_rerun.
  - apply p2_persist.
Qed.

Theorem history_provenance : forall ops c G, Provenance G c ->
  exists G', prefix G G' /\ Provenance G' (run_ops ev ops c).
Proof.
  induction ops as [|op ops IH]; intros c G HP; cbn [run_ops fold_left].
  - exists G; split; [apply prefix_refl|exact HP].
  - destruct (api_exec ev op c) as [c1 r] eqn:E. cbn [fst].
    destruct (api_provenance op _ _ _ E) as [_ P]. destruct (P G HP) as [G1 [Hp1 HP1]].
    destruct (IH c1 G1 HP1) as [G2 [Hp2 HP2]]. exists G2. split; [eapply prefix_trans; eassumption|exact HP2].
Qed.
End WithEval.
End Prov.

(* ------------------------------------------------------------------ from a fresh conductor *)

Lemma fresh_provenance : forall sp g inputs parent, Provenance g [] (fresh_state sp g inputs parent).
Proof.
  intros. split; [reflexivity|]. split; [reflexivity|]. split; [intros t route j H; discriminate|].
  split; [intros s []|intros n r H; destruct n; discriminate].
Qed.

Theorem reachable_provenance : forall ev sp g inputs parent ops,
  exists G, Provenance g G (run_ops ev ops (fresh_state sp g inputs parent)).
Proof.
  intros. destruct (history_provenance g ev ops _ [] (fresh_provenance sp g inputs parent)) as [G [_ H]].
  exists G; exact H.
Qed.

(* ------------------------------------------------------------------ the property's words *)

(* b is reachable from a along edges of the graph *)
Inductive reach (g : graph) : string -> string -> Prop :=
  | reach_refl : forall a, reach g a a
  | reach_step : forall a b c, reach g a b -> task_step g b c -> reach g a c.

(* a delta (snapshot i, created by edge e of record j) occurs only in the lists of tasks reachable
   from the target of e: it is visible only downstream of the transition that published it *)
Theorem delta_reaches_only_downstream : forall g G c i j e, Provenance g G c -> i <> 0 ->
  nth_error G i = Some (Some (j, e)) ->
  (forall n r, nth_error (sequence (c_ws c)) n = Some r -> In i (r_in r) -> reach g (e_dst e) (r_id r)) /\
  (forall s, In s (staged (c_ws c)) -> In i (s_in s) -> reach g (e_dst e) (s_id s)).
Proof.
  intros g G c i j e [_ [_ [_ [Hs Hr]]]] Hnz HG.
  assert (Hrec : forall n r, nth_error (sequence (c_ws c)) n = Some r -> In i (r_in r) -> reach g (e_dst e) (r_id r)).
  { induction n as [n IH] using lt_wf_ind. intros r Hn Hi.
    destruct (Hr n r Hn i Hi) as [E|[j' [r' [Hn' [Hlt H]]]]]; [congruence|].
    destruct H as [[Hin Hstep]|[e' [HG' [_ [_ Hd]]]]].
    - eapply reach_step; [eapply IH; eassumption|exact Hstep].
    - rewrite HG in HG'. inversion HG'; subst. rewrite Hd. apply reach_refl. }
  split; [exact Hrec|]. intros s Hin Hi.
  destruct (Hs s Hin i Hi) as [E|[j' [r' [Hn' [_ H]]]]]; [congruence|].
  destruct H as [[Hin' Hstep]|[e' [HG' [_ [_ Hd]]]]].
  - eapply reach_step; [eapply Hrec; eassumption|exact Hstep].
  - rewrite HG in HG'. inversion HG'; subst. rewrite Hd. apply reach_refl.
Qed.

Corollary delta_invisible_off_path : forall g G c i j e y, Provenance g G c -> i <> 0 ->
  nth_error G i = Some (Some (j, e)) -> ~ reach g (e_dst e) y ->
  (forall n r, nth_error (sequence (c_ws c)) n = Some r -> r_id r = y -> ~ In i (r_in r)) /\
  (forall s, In s (staged (c_ws c)) -> s_id s = y -> ~ In i (s_in s)).
Proof.
  intros g G c i j e y HP Hnz HG Hnr. destruct (delta_reaches_only_downstream g G c i j e HP Hnz HG) as [A B].
  split; [intros n r Hn Hy Hi; apply Hnr; rewrite <- Hy; eapply A; eassumption|].
  intros s Hin Hy Hi; apply Hnr; rewrite <- Hy; eapply B; eassumption.
Qed.

(* every index other than 0 in any list has a creator: some transition published it *)
Theorem every_delta_has_a_creator : forall g G c i, Provenance g G c -> i <> 0 ->
  ((exists n r, nth_error (sequence (c_ws c)) n = Some r /\ In i (r_in r)) \/
   (exists s, In s (staged (c_ws c)) /\ In i (s_in s))) ->
  exists j e, nth_error G i = Some (Some (j, e)) /\ In e (g_edges g).
Proof.
  intros g G c i [_ [_ [_ [Hs Hr]]]] Hnz.
  assert (Hrec : forall n r, nth_error (sequence (c_ws c)) n = Some r -> In i (r_in r) ->
                   exists j e, nth_error G i = Some (Some (j, e)) /\ In e (g_edges g)).
  { induction n as [n IH] using lt_wf_ind. intros r Hn Hi.
    destruct (Hr n r Hn i Hi) as [E|[j' [r' [Hn' [Hlt H]]]]]; [congruence|].
    destruct H as [[Hin _]|[e' [HG' [He' _]]]]; [eapply IH; eassumption|exists j', e'; split; assumption]. }
  intros [[n [r [Hn Hi]]]|[s [Hin Hi]]]; [eapply Hrec; eassumption|].
  destruct (Hs s Hin i Hi) as [E|[j' [r' [Hn' [_ H]]]]]; [congruence|].
  destruct H as [[Hin' _]|[e' [HG' [He' _]]]]; [eapply Hrec; eassumption|exists j', e'; split; assumption].
Qed.

(* ------------------------------------------------------------------ the workflow output *)

Fixpoint term_fold (ctxs : list dict) (l : list (nat * trec)) (acc : dict) : result dict :=
  match l with
  | [] => Val acc
  | (_, r) :: l' =>
      match nat_remove_first 0 (r_in r) with
      | None => Exc (mkexn "ValueError" "list.remove(x): x not in list")
      | Some idxs =>
          match get_task_context_from ctxs idxs [] with
          | Val d => term_fold ctxs l' (merge_dicts acc d)
          | Exc e => Exc e
          end
      end
  end.

Lemma get_task_context_run : forall idxs c,
  get_task_context idxs c = (c, get_task_context_from (contexts (c_ws c)) idxs []).
Proof.
  intros idxs c. unfold get_task_context, bind, getws, lift_res.
  destruct (get_task_context_from (contexts (c_ws c)) idxs []); reflexivity.
Qed.

Lemma merge_term_contexts_run : forall l acc c,
  merge_term_contexts l acc c = (c, term_fold (contexts (c_ws c)) l acc).
Proof.
  induction l as [|[j r] l IH]; intros acc c; simpl; [reflexivity|].
  destruct (nat_remove_first 0 (r_in r)) as [idxs|]; [|reflexivity].
  unfold bind. rewrite get_task_context_run.
  destruct (get_task_context_from (contexts (c_ws c)) idxs []) as [d|e]; [apply IH|reflexivity].
Qed.

(* the context the output is rendered on reads the snapshots listed in the r_in of the records
   flagged terminal, in sequence order: the first record's whole list, each further record's list
   minus its first 0; the state is not changed *)
Theorem terminal_context_reads : forall c,
  get_workflow_terminal_context c =
  (c, match get_terminal_tasks (c_ws c) with
      | [] => Val []
      | (_, first) :: others =>
          match get_task_context_from (contexts (c_ws c)) (r_in first) [] with
          | Val c0 => term_fold (contexts (c_ws c)) others c0
          | Exc e => Exc e
          end
      end).
Proof.
  intro c. unfold get_workflow_terminal_context, bind at 1, getws. cbv beta iota.
  destruct (get_terminal_tasks (c_ws c)) as [|[j first] others]; [reflexivity|].
  unfold bind. rewrite get_task_context_run.
  destruct (get_task_context_from (contexts (c_ws c)) (r_in first) []) as [c0|e]; [apply merge_term_contexts_run|reflexivity].
Qed.

Lemma terminal_tasks_are_records : forall w j r, In (j, r) (get_terminal_tasks w) ->
  nth_error (sequence w) j = Some r /\ r_term r = true.
Proof.
  intros w j r H. unfold get_terminal_tasks in H. apply filter_In in H. destruct H as [Hin Ht].
  split; [apply InertProofs.In_enumerate; exact Hin|exact Ht].
Qed.

(* ------------------------------------------------------------------ the recurrence of the lists *)

Lemma find_staged_update_map : forall f t r l, (forall s, stg_matches t r (f s) = stg_matches t r s) ->
  find (stg_matches t r) (staged_update f t r l) = option_map f (find (stg_matches t r) l).
Proof.
  intros f t r l Hf; induction l as [|s l IH]; simpl; [reflexivity|].
  destruct (stg_matches t r s) eqn:E; simpl; [rewrite Hf, E; reflexivity|rewrite E; exact IH].
Qed.

Lemma find_app_last : forall A (p : A -> bool) l x, find p l = None -> p x = true -> find p (app l [x]) = Some x.
Proof.
  intros A p l x; induction l as [|a l IH]; simpl; intros H Hx; [rewrite Hx; reflexivity|].
  destruct (p a); [discriminate|apply IH; assumption].
Qed.

(* what a satisfied transition does to the list of its target's staged entry.  [out] is the list
   of the completed record followed by the index of the snapshot just published (if anything was
   published).  No entry yet: the new entry gets [out].  An entry already there (a later arrival,
   typically at a join): its list is extended by [out] minus its first 0 -- the whole list of the
   arriving branch, inherited snapshots included, nothing is deduplicated.  Hence the order inside a
   list is arrival order, and a snapshot inherited by a late branch is merged again AFTER newer ones
   (known finding D11). *)
Theorem in_list_recurrence : forall ev t route idx ts ctx e c c' res,
  pt_cont ev t route idx ts ctx e (Some true) c = (c', Val res) ->
  (exists cf new_ctx x errs, finalize_context ev ts e ctx c = (cf, Val (new_ctx, x :: errs))) \/
  (exists cf new_ctx r c3 nr,
     finalize_context ev ts e ctx c = (cf, Val (new_ctx, [])) /\ nth_error (sequence (c_ws cf)) idx = Some r /\
     let out := app (r_in r) (match new_ctx with [] => [] | _ => [length (contexts (c_ws cf))] end) in
     match get_staged_task (c_ws c3) (e_dst e) nr with
     | None => exists s', get_staged_task (c_ws c') (e_dst e) nr = Some s' /\
                          s_in s' = match out with [] => [0] | _ => out end
     | Some s => exists out' s', nat_remove_first 0 out = Some out' /\
                                 get_staged_task (c_ws c') (e_dst e) nr = Some s' /\ s_in s' = app (s_in s) out'
     end).
Proof.
  intros ev t route idx ts ctx e c c' res H. unfold pt_cont in H. cbv zeta in H.
  apply bind_val_inv' in H. destruct H as [c1 [[new_ctx errors] [E1 H]]].
  destruct errors as [|x errs]; [|left; exists c1, new_ctx, x, errs; exact E1]. right.
  apply bind_val_inv' in H. destruct H as [c2 [r [E2 H]]]. apply get_rec_inv in E2; destruct E2 as [-> Hr].
  apply bind_val_inv' in H. destruct H as [c3 [w [E3 H]]]. inversion E3; subst c3 w; clear E3.
  apply bind_val_inv' in H. destruct H as [c4 [out [E4 H]]].
  assert (Eout : out = app (r_in r) (match new_ctx with [] => [] | _ => [length (contexts (c_ws c1))] end)).
  { destruct new_ctx as [|kv d]; [inversion E4; rewrite app_nil_r; reflexivity|].
    apply bind_val_inv' in E4. destruct E4 as [ca [ua [_ E4]]].
    apply bind_val_inv' in E4. destruct E4 as [cb [ub [_ E4]]]. inversion E4; reflexivity. }
  apply bind_val_inv' in H. destruct H as [c5 [nr [_ H]]].
  apply bind_val_inv' in H. destruct H as [c6 [w6 [E6 H]]]. inversion E6; subst c6 w6; clear E6.
  apply bind_val_inv' in H. destruct H as [c7 [u7 [E7 H]]].
  unfold bind at 1, get in H. cbv beta iota zeta in H.
  apply bind_val_inv' in H. destruct H as [c8 [u8 [E8 H]]].
  unfold modws in E8. inversion E8; subst c8; clear E8.
  assert (Ec' : exists b, c' = set_ws c7 (ws_set_staged (c_ws c7)
                   (staged_update (fun s => s_set_ready s b) (e_dst e) nr (staged (c_ws c7))))).
  { eexists. destruct (is_engine_command (e_dst e)); [inversion H; reflexivity|].
    match type of H with (if ?b then _ else _) _ = _ => destruct b eqn:Eb end; inversion H; rewrite <- Eb; reflexivity. }
  destruct Ec' as [b ->].
  exists c1, new_ctx, r, c5, nr. split; [exact E1|]. split; [exact Hr|]. cbv zeta. rewrite <- Eout.
  unfold get_staged_task in *. cbn [c_ws set_ws staged ws_set_staged].
  rewrite find_staged_update_map by (intro s; reflexivity).
  destruct (find (stg_matches (e_dst e) nr) (staged (c_ws c5))) as [s|] eqn:Ef.
  - destruct (nat_remove_first 0 out) as [out'|]; [|inversion E7].
    unfold modws in E7. inversion E7; subst c7. cbn [c_ws set_ws staged ws_set_staged].
    rewrite find_staged_update_map by (intro s0; reflexivity). rewrite Ef. cbn [option_map].
    exists out'. eexists. split; [reflexivity|]. split; reflexivity.
  - unfold modws in E7. inversion E7; subst c7. cbn [c_ws set_ws staged ws_set_staged ws_add_staged].
    rewrite (find_app_last _ _ _ _ Ef).
    2: { unfold stg_matches, mk_staged; cbn [s_id s_route]. rewrite String.eqb_refl, Nat.eqb_refl. reflexivity. }
    cbn [option_map]. eexists. split; reflexivity.
Qed.

(* ------------------------------------------------------------------ examples *)

(* s --(x := old)--> t0 ; t0 --(y)--> a ; t0 --> b ; a --(x := new)--> c ; b --> c ; c joins all *)
Definition pv_ev (s : string) (ctx : dict) : evalres :=
  if String.eqb s "old" then EvOk (JInt 1) else if String.eqb s "new" then EvOk (JInt 2)
  else if String.eqb s "why" then EvOk (JStr "y") else EvOk (JBool true).
Definition pv_tr (pub : list (string * json)) (d : string) : transition_spec :=
  {| tr_when := JStr "ok"; tr_publish := pub; tr_do := [d] |}.
Definition pv_task (nx : list transition_spec) (j : json) : task_spec :=
  {| ts_action := JNull; ts_input := JNull; ts_with := None; ts_delay := JNull; ts_join := j; ts_next := nx |}.
Definition pv_spec : wf_spec :=
  {| wf_input := []; wf_vars := []; wf_output := [];
     wf_tasks := [("s", pv_task [pv_tr [("x", JStr "old")] "t0"] JNull);
                  ("t0", pv_task [pv_tr [("y", JStr "why")] "a"; pv_tr [] "b"] JNull);
                  ("a", pv_task [pv_tr [("x", JStr "new")] "c"] JNull);
                  ("b", pv_task [pv_tr [] "c"] JNull);
                  ("c", pv_task [] (JStr "all"))] |}.
Definition pv_node (n : string) (b : json) : gnode := {| n_id := n; n_barrier := b; n_splits := None; n_retry := JNull |}.
Definition pv_edge (a b : string) (rf : nat) : gedge :=
  {| e_src := a; e_dst := b; e_key := 0; e_ref := rf; e_criteria := [JStr "ok"] |}.
Definition pv_graph : graph :=
  {| g_nodes := [pv_node "s" JNull; pv_node "t0" JNull; pv_node "a" JNull; pv_node "b" JNull; pv_node "c" (JStr "*")];
     g_edges := [pv_edge "s" "t0" 0; pv_edge "t0" "a" 0; pv_edge "t0" "b" 1; pv_edge "a" "c" 0; pv_edge "b" "c" 0] |}.
Definition pv_run (t : string) : list api_op :=
  [OpEvent t 0 (EvAction S_RUNNING JNull); OpEvent t 0 (EvAction S_SUCCEEDED JNull)].
Definition pv_fork_ops : list api_op := [OpRequest S_RUNNING; OpGetNext] ++ pv_run "s" ++ pv_run "t0".
Definition pv_ops : list api_op := pv_fork_ops ++ pv_run "a" ++ pv_run "b".
Definition pv_obs (c : cstate) :=
  (map (fun r => (r_id r, r_in r)) (sequence (c_ws c)), map (fun s => (s_id s, s_in s)) (staged (c_ws c)),
   contexts (c_ws c)).

(* the fork: snapshot 2 (y, published on t0 -> a) is in a's list and not in its sibling b's *)
Example pv_fork :
  pv_obs (run_ops pv_ev pv_fork_ops (fresh_state pv_spec pv_graph [] []))
  = ([("s", [0]); ("t0", [0; 1])], [("a", [0; 1; 2]); ("b", [0; 1])],
     [[]; [("x", JInt 1)]; [("y", JStr "y")]]).
Proof. vm_compute. reflexivity. Qed.

(* the join receives both branches, in arrival order and without deduplication: a arrives with
   [0;1;2;3] (3 = x := new), then b contributes its list minus the first 0, i.e. [1] again *)
Example pv_join :
  pv_obs (run_ops pv_ev pv_ops (fresh_state pv_spec pv_graph [] []))
  = ([("s", [0]); ("t0", [0; 1]); ("a", [0; 1; 2]); ("b", [0; 1])], [("c", [0; 1; 2; 3; 1])],
     [[]; [("x", JInt 1)]; [("y", JStr "y")]; [("x", JInt 2)]]).
Proof. vm_compute. reflexivity. Qed.

(* known finding D11 as a consequence of that order: c is offered x = 1, the older value that
   branch b merely inherited, although a published x = 2 later *)
Example pv_join_D11 :
  match get_next_tasks pv_ev (run_ops pv_ev pv_ops (fresh_state pv_spec pv_graph [] [])) with
  | (_, Val l) => map (fun o => (o_id o, dget "x" (o_ctx o), dget "y" (o_ctx o))) l
  | _ => []
  end = [("c", Some (JInt 1), Some (JStr "y"))].
Proof. vm_compute. reflexivity. Qed.

(* the hypothesis of [delta_invisible_off_path] is satisfiable: nothing is downstream of c, so
   the snapshot published on a -> c can never reach b (nor a, t0, s) *)
Example pv_nothing_downstream_of_c : forall y, reach pv_graph "c" y -> y = "c".
Proof.
  assert (G : forall x y, reach pv_graph x y -> x = "c" -> y = "c").
  { intros x y H. induction H as [a|a b c0 H IH Hs]; intro Ex; [exact Ex|].
    specialize (IH Ex). destruct Hs as [<-|[e [Hin [Hsrc _]]]]; [exact IH|].
    exfalso. simpl in Hin. rewrite IH in Hsrc.
    destruct Hin as [<-|[<-|[<-|[<-|[<-|[]]]]]]; discriminate. }
  intros y H. exact (G _ _ H eq_refl).
Qed.

(* the definitions, spelled out *)
Lemma provenance_unfold : forall g G c,
  Provenance g G c <->
  (c_graph c = g /\ length G = length (contexts (c_ws c)) /\ ptr_ok (c_ws c) /\
   (forall s, In s (staged (c_ws c)) ->
      in_ok g G (sequence (c_ws c)) (length (sequence (c_ws c))) (s_id s) (s_in s)) /\
   (forall n r, nth_error (sequence (c_ws c)) n = Some r -> in_ok g G (sequence (c_ws c)) n (r_id r) (r_in r))).
Proof. intros; split; intro H; exact H. Qed.

Lemma in_ok_unfold : forall g G sq bound dst L,
  in_ok g G sq bound dst L <->
  (forall i, In i L -> i = 0 \/
     exists j r', nth_error sq j = Some r' /\ j < bound /\
       ((In i (r_in r') /\ task_step g (r_id r') dst) \/
        (exists e, nth_error G i = Some (Some (j, e)) /\ In e (g_edges g) /\ e_src e = r_id r' /\ e_dst e = dst))).
Proof. intros; split; intro H; exact H. Qed.

Lemma task_step_unfold : forall g a b,
  task_step g a b <-> (a = b \/ exists e, In e (g_edges g) /\ e_src e = a /\ e_dst e = b).
Proof. intros; split; intro H; exact H. Qed.

Lemma R2_unfold : forall g c c',
  R2 g c c' <->
  (seq_in_keeps (sequence (c_ws c)) (sequence (c_ws c')) /\
   forall G, Provenance g G c -> exists G', prefix G G' /\ Provenance g G' c').
Proof. intros; split; intro H; exact H. Qed.
