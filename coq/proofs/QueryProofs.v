(* QueryProofs.v -- C19, "asking for the next tasks again, without an intervening event, returns the
   same answer and leaves the persisted state as the first call left it".

   On the model (= the engine) this is FALSE for an arbitrary evaluator: every expression is rendered
   against a context that contains __state, the serialized workflow state, and the first call may
   change that state (it creates the item table of a with-items entry; on a rendering failure it
   fails the workflow).  An expression that reads that bookkeeping renders differently the second
   time ([query_not_idempotent_for_state_reading_expression]).  The offered context itself contains
   __state, so two answers can only be compared modulo that entry.

   Proved: for every evaluator that does not look at the __state entry of its context
   ([state_blind]), every initialised state in which no clean-up (run_on_fail) entry is staged
   unless the workflow has already failed: the second call leaves the state EXACTLY as the first
   left it and returns the same answer -- the same exception, or the same offers (ids, routes,
   rendered actions, delay, items_count, concurrency; contexts equal except for __state).  The second
   hypothesis is needed too ([query_not_idempotent_with_cleanup_staged]). *)
From Coq Require Import String List Bool ZArith Arith Lia.
From Orq Require Import GenStatuses GenEvents GenTables GenSpecMeta Base State Machines Codec Conductor Decode Api.
From Orq Require Import F_tables Hoare ValuePost StatusReach C04Proofs C05Proofs RetryProofs InertProofs.
Import ListNotations.
Open Scope string_scope.
Open Scope monad_scope.

(* ------------------------------------------------------------------ contexts that differ at __state only *)

Definition sim (a b : dict) : Prop :=
  Forall2 (fun p q => fst p = fst q /\ (fst p = "__state" \/ snd p = snd q)) a b.

Lemma sim_refl : forall a, sim a a.
Proof. induction a as [|[k v] a IH]; constructor; [split; [reflexivity|right; reflexivity]|exact IH]. Qed.

Lemma sim_dset : forall k v a b, sim a b -> sim (dset k v a) (dset k v b).
Proof.
  intros k v a b H; induction H as [|[k1 v1] [k2 v2] a b [Hk Hv] H IH]; simpl.
  - constructor; [split; [reflexivity|right; reflexivity]|constructor].
  - simpl in Hk; subst k2. destruct (String.eqb k k1).
    + constructor; [split; [reflexivity|right; reflexivity]|exact H].
    + constructor; [split; [reflexivity|exact Hv]|exact IH].
Qed.

Lemma sim_dget : forall k a b, sim a b -> k <> "__state" -> dget k a = dget k b.
Proof.
  intros k a b H Hk; induction H as [|[k1 v1] [k2 v2] a b [Hk1 Hv] H IH]; simpl; [reflexivity|].
  simpl in Hk1; subst k2. destruct (String.eqb k k1) eqn:E.
  - apply String.eqb_eq in E; subst k1. simpl in Hv. destruct Hv as [Hv|Hv]; [congruence|rewrite Hv; reflexivity].
  - exact IH.
Qed.

Lemma sim_app_state : forall a v v', sim (app a [("__state", v)]) (app a [("__state", v')]).
Proof.
  induction a as [|[k x] a IH]; intros v v'; simpl.
  - constructor; [split; [reflexivity|left; reflexivity]|constructor].
  - constructor; [split; [reflexivity|right; reflexivity]|apply IH].
Qed.

Lemma sim_dset_state : forall a v v', sim (dset "__state" v a) (dset "__state" v' a).
Proof.
  unfold dset. induction a as [|[k x] a IH]; intros v v'; cbn [aset].
  - rewrite String.eqb_refl || idtac. constructor; [split; [reflexivity|left; reflexivity]|constructor].
  - destruct (String.eqb "__state" k) eqn:E.
    + apply String.eqb_eq in E; subst k. constructor; [split; [reflexivity|left; reflexivity]|apply sim_refl].
    + constructor; [split; [reflexivity|right; reflexivity]|apply IH].
Qed.

(* the context of an expression: the task's context overlaid with the serialized workflow state *)
Lemma sim_state_ctx : forall d w w', sim (merge_dicts d (state_ctx w)) (merge_dicts d (state_ctx w')).
Proof.
  intros d w w'. unfold merge_dicts, state_ctx. cbn [merge_json].
  destruct (dget "__state" d) as [lv|]; [apply sim_dset_state|apply sim_app_state].
Qed.

(* the evaluator does not look at the __state entry of the context *)
Definition state_blind (ev : string -> dict -> evalres) : Prop :=
  forall s a b, sim a b -> ev s a = ev s b.

(* ------------------------------------------------------------------ computations with equal results *)

(* m and m' return the same result, whatever states they are run in *)
Definition same {A} (m m' : M A) : Prop := forall c c', snd (m c) = snd (m' c').

Lemma same_ret : forall A (a : A), same (ret a) (ret a).
Proof. intros A a c c'; reflexivity. Qed.
Lemma same_raise : forall A e, same (@raise A e) (raise e).
Proof. intros A e c c'; reflexivity. Qed.
Lemma same_bind : forall A B (m m' : M A) (f f' : A -> M B),
  state_pure m -> state_pure m' -> same m m' -> (forall a, same (f a) (f' a)) -> same (bind m f) (bind m' f').
Proof.
  intros A B m m' f f' Hp Hp' Hm Hf c c'. unfold bind. specialize (Hm c c'). specialize (Hp c). specialize (Hp' c').
  destruct (m c) as [c1 [a|e]], (m' c') as [c1' [a'|e']]; simpl in *; try discriminate.
  - inversion Hm; subst. apply Hf.
  - inversion Hm; reflexivity.
Qed.
Lemma same_lift_eval : forall r, same (lift_eval r) (lift_eval r).
Proof. intros [v|e] c c'; reflexivity. Qed.

Section Blind.
Variable ev : string -> dict -> evalres.
Hypothesis Hblind : state_blind ev.

Lemma eval_list_pure : forall cx l,
  state_pure ((fix go (l0 : list json) : M (list json) :=
                 match l0 with [] => ret [] | x0 :: l' => y0 <- evaluate ev x0 cx ;; ys <- go l' ;; ret (y0 :: ys) end) l).
Proof.
  intros cx l. induction l as [|x0 l IHl0]; [apply state_pure_ret|].
  apply state_pure_bind; [apply evaluate_pure|intro]. apply state_pure_bind; [exact IHl0|intro; apply state_pure_ret].
Qed.

Lemma evaluate_same : forall stmt ctx ctx', sim ctx ctx' -> same (evaluate ev stmt ctx) (evaluate ev stmt ctx').
Proof.
  intro stmt; induction stmt as [| | | |s|l IH|kv IH] using json_ind'; intros ctx ctx' Hs;
    try (simpl; apply same_ret).
  - simpl. rewrite (Hblind s ctx ctx' Hs). apply same_lift_eval.
  - simpl. apply same_bind; [| | |intro; apply same_ret].
    + apply eval_list_pure.
    + apply eval_list_pure.
    + induction IH as [|x l Hx Hl IHl]; [apply same_ret|].
      apply same_bind; [apply evaluate_pure|apply evaluate_pure|apply Hx; exact Hs|intro y].
      apply same_bind; [apply eval_list_pure|apply eval_list_pure|exact IHl|intro; apply same_ret].
  - simpl.
    assert (Pk : forall cx kv0 acc, state_pure ((fix go (kv1 : list (string * json)) (acc0 : dict) : M dict :=
               match kv1 with
               | [] => ret acc0
               | (k, v) :: kv' =>
                   k' <- lift_eval (ev k cx) ;;
                   (match k' with
                    | JList _ => raise (exn_unhashable_key "list" k)
                    | JDict _ => raise (exn_unhashable_key "dict" k)
                    | _ => ret tt
                    end) ;;;
                   v' <- evaluate ev v cx ;;
                   match k' with
                   | JStr ks => go kv' (dset ks v' acc0)
                   | _ => raise (mkexn "TypeError" "unsupported dictionary key produced by expression")
                   end
               end) kv0 acc)).
    { intros cx kv0. induction kv0 as [|[k v] kv0 IHk]; intro acc; [apply state_pure_ret|].
      apply state_pure_bind; [apply state_pure_lift_eval|intro k'].
      apply state_pure_bind; [destruct k'; first [apply state_pure_raise|apply state_pure_ret]|intros _].
      apply state_pure_bind; [apply evaluate_pure|intro v'].
      destruct k'; try apply state_pure_raise. apply IHk. }
    apply same_bind; [apply Pk|apply Pk| |intro; apply same_ret].
    generalize (@nil (string * json)) as acc.
    induction IH as [|[k v] kv' Hx Hl IHl]; intro acc; [apply same_ret|].
    apply same_bind; [apply state_pure_lift_eval|apply state_pure_lift_eval| |intro k'].
    { rewrite (Hblind k ctx ctx' Hs). apply same_lift_eval. }
    apply same_bind.
    + destruct k'; first [apply state_pure_raise|apply state_pure_ret].
    + destruct k'; first [apply state_pure_raise|apply state_pure_ret].
    + destruct k'; first [apply same_raise|apply same_ret].
    + intros _. apply same_bind; [apply evaluate_pure|apply evaluate_pure|apply Hx; exact Hs|intro v'].
      destruct k'; try apply same_raise. apply IHl.
Qed.


Lemma state_pure_mapM : forall A B (f : A -> M B) l, (forall a, state_pure (f a)) -> state_pure (mapM f l).
Proof.
  intros A B f l Hf; induction l as [|x l IH]; simpl; [apply state_pure_ret|].
  apply state_pure_bind; [apply Hf|intro]. apply state_pure_bind; [exact IH|intro; apply state_pure_ret].
Qed.

Lemma same_mapM : forall A B (f f' : A -> M B) l, (forall a, state_pure (f a)) -> (forall a, state_pure (f' a)) ->
  (forall a, same (f a) (f' a)) -> same (mapM f l) (mapM f' l).
Proof.
  intros A B f f' l Hp Hp' Hf; induction l as [|x l IH]; simpl; [apply same_ret|].
  apply same_bind; [apply Hp|apply Hp'|apply Hf|intro y].
  apply same_bind; [apply state_pure_mapM; exact Hp|apply state_pure_mapM; exact Hp'|exact IH|intro; apply same_ret].
Qed.

Lemma render_task_pure : forall ts ctx, state_pure (render_task ev ts ctx).
Proof.
  intros ts ctx. unfold render_task. destruct (ts_with ts) as [its|].
  - apply state_pure_bind; [apply evaluate_pure|intro items]. destruct items; try apply state_pure_raise.
    apply state_pure_mapM. intros [idx item]. cbv zeta.
    apply state_pure_bind; [apply evaluate_pure|intro]. apply state_pure_bind; [apply evaluate_pure|intro; apply state_pure_ret].
  - apply state_pure_bind; [apply evaluate_pure|intro]. apply state_pure_bind; [apply evaluate_pure|intro; apply state_pure_ret].
Qed.

Lemma render_task_same : forall ts ctx ctx', sim ctx ctx' -> same (render_task ev ts ctx) (render_task ev ts ctx').
Proof.
  intros ts ctx ctx' Hs. unfold render_task. destruct (ts_with ts) as [its|].
  - apply same_bind; [apply evaluate_pure|apply evaluate_pure|apply evaluate_same; exact Hs|intro items].
    destruct items; try apply same_raise.
    apply same_mapM.
    + intros [idx item]. cbv zeta.
      apply state_pure_bind; [apply evaluate_pure|intro]. apply state_pure_bind; [apply evaluate_pure|intro; apply state_pure_ret].
    + intros [idx item]. cbv zeta.
      apply state_pure_bind; [apply evaluate_pure|intro]. apply state_pure_bind; [apply evaluate_pure|intro; apply state_pure_ret].
    + intros [idx item]. cbv zeta.
      apply same_bind; [apply evaluate_pure|apply evaluate_pure|apply evaluate_same; apply sim_dset; exact Hs|intro].
      apply same_bind; [apply evaluate_pure|apply evaluate_pure|apply evaluate_same; apply sim_dset; exact Hs|intro; apply same_ret].
  - apply same_bind; [apply evaluate_pure|apply evaluate_pure|apply evaluate_same; exact Hs|intro].
    apply same_bind; [apply evaluate_pure|apply evaluate_pure|apply evaluate_same; exact Hs|intro; apply same_ret].
Qed.

(* ------------------------------------------------------------------ next_task_for in two parts *)

Definition nt_mkctx (t : string) (route : nat) (ctx0 : dict) (w : wstate) : dict :=
  merge_dicts (dset "__current_task" (current_task_json t route None) ctx0) (state_ctx w).

Definition nt_ctx0 (t : string) (route : nat) (c : cstate) : M dict :=
  match get_staged_task (c_ws c) t route with
  | Some s' => get_task_context (s_in s')
  | None => match ws_task_entry (c_ws c) t route with
            | Some r => get_task_context (r_in r)
            | None => match nth_error (contexts (c_ws c)) 0 with
                      | Some d => ret d
                      | None => raise exn_index
                      end
            end
  end.

Definition nt_delay (ts : task_spec) (task_ctx : dict) : M (option json) :=
  if truthy (ts_delay ts) then
    d <- (match ts_delay ts with JStr _ => evaluate ev (ts_delay ts) task_ctx | v => ret v end) ;;
    if py_is_int d then ret (Some d)
    else raise (exn_type "The value of task delay is not type of integer.")
  else ret None.

(* what is read and rendered: nothing is written *)
Definition nt_pre (t : string) (route : nat) (c : cstate) : M (dict * task_spec * list action_spec * option json) :=
  ctx0 <- nt_ctx0 t route c ;;
  let task_ctx := nt_mkctx t route ctx0 (c_ws c) in
  ts <- (match spec_get_task (c_spec c) t with Some ts => ret ts | None => raise (exn_key t) end) ;;
  actions <- render_task ev ts task_ctx ;;
  delay <- nt_delay ts task_ctx ;;
  ret (ctx0, ts, actions, delay).

Definition nt_delay' (retry : option retry_rec) (delay : option json) : option json :=
  match retry with
  | Some rr => Some (match rr_delay rr with
                     | Some d => if truthy d then d else JInt 0
                     | None => JInt 0 end)
  | None => delay end.

(* the item table of the entry and the choice of items *)
Definition nt_post (t : string) (route : nat) (retry : option retry_rec) (c : cstate)
           (p : dict * task_spec * list action_spec * option json) : M (option offer) :=
  let '(ctx0, ts, actions, delay) := p in
  let task_ctx := nt_mkctx t route ctx0 (c_ws c) in
  match ts_with ts with
  | None =>
      ret (match actions with
           | [] => None
           | _ => Some {| o_id := t; o_route := route; o_ctx := task_ctx; o_actions := actions;
                          o_delay := nt_delay' retry delay; o_items_count := None; o_concurrency := None |}
           end)
  | Some its =>
      conc <- evaluate ev (it_concurrency its) task_ctx ;;
      let count := length actions in
      w <- getws ;;
      st_items <- (match get_staged_task w t route with
                   | None => raise (exn_type "argument of type 'NoneType' is not iterable")
                   | Some s' =>
                       match s_items s' with
                       | Some (x :: xs) => ret (x :: xs)
                       | _ =>
                           let fresh := repeat S_UNSET count in
                           modws (fun w => ws_set_staged w
                                    (staged_update (fun e => s_set_items e (Some fresh)) t route (staged w))) ;;;
                           ret fresh
                       end
                   end) ;;
      chosen <- lift_res (choose_items conc (combine actions st_items)) ;;
      let '(acts, conc') := chosen in
      ret (match acts, count with
           | [], S _ => None
           | _, _ => Some {| o_id := t; o_route := route; o_ctx := task_ctx; o_actions := acts;
                             o_delay := nt_delay' retry delay; o_items_count := Some count;
                             o_concurrency := Some conc' |}
           end)
  end.

Lemma nt_eq : forall s c,
  next_task_for ev s c = bind (nt_pre (s_id s) (s_route s) c) (nt_post (s_id s) (s_route s) (s_retry s) c) c.
Proof.
  intros s c. unfold next_task_for, nt_pre. unfold bind at 1, get. cbv beta iota zeta.
  fold (nt_ctx0 (s_id s) (s_route s) c).
  rewrite bind_assoc_pt. apply bind_congr; intros c1 ctx0 _. cbv zeta.
  fold (nt_mkctx (s_id s) (s_route s) ctx0 (c_ws c)).
  rewrite bind_assoc_pt. apply bind_congr; intros c2 ts _.
  rewrite bind_assoc_pt. apply bind_congr; intros c3 actions _.
  fold (nt_delay ts (nt_mkctx (s_id s) (s_route s) ctx0 (c_ws c))).
  rewrite bind_assoc_pt. apply bind_congr; intros c4 delay _.
  rewrite (bind_step _ _ (ret (ctx0, ts, actions, delay)) _ c4 c4 _ eq_refl).
  unfold nt_post, nt_delay'. cbv beta iota zeta.
  destruct (ts_with ts); reflexivity.
Qed.


(* ------------------------------------------------------------------ one entry, explicitly *)

Definition offer_plain (t : string) (route : nat) (retry : option retry_rec) (x : cstate) (ctx0 : dict)
           (actions : list action_spec) (delay : option json) : option offer :=
  match actions with
  | [] => None
  | _ => Some {| o_id := t; o_route := route; o_ctx := nt_mkctx t route ctx0 (c_ws x); o_actions := actions;
                 o_delay := nt_delay' retry delay; o_items_count := None; o_concurrency := None |}
  end.

Definition offer_items (t : string) (route : nat) (retry : option retry_rec) (x : cstate) (ctx0 : dict)
           (count : nat) (delay : option json) (acts : list action_spec) (conc' : json) : option offer :=
  match acts, count with
  | [], S _ => None
  | _, _ => Some {| o_id := t; o_route := route; o_ctx := nt_mkctx t route ctx0 (c_ws x); o_actions := acts;
                    o_delay := nt_delay' retry delay; o_items_count := Some count; o_concurrency := Some conc' |}
  end.

Definition set_tbl (x : cstate) (t : string) (route : nat) (T : option (list status)) : cstate :=
  set_ws x (ws_set_staged (c_ws x) (staged_update (fun e => s_set_items e T) t route (staged (c_ws x)))).

Definition items_of (T : option (list status)) (n : nat) : list status :=
  match T with Some (y :: ys) => y :: ys | _ => repeat S_UNSET n end.

Definition delta (T : option (list status)) (n : nat) : option (list status) :=
  match T with Some (y :: ys) => T | _ => Some (repeat S_UNSET n) end.

Lemma nt_ctx0_pure : forall t route c, state_pure (nt_ctx0 t route c).
Proof.
  intros t route c x. unfold nt_ctx0.
  assert (G : forall idxs, fst (get_task_context idxs x) = x).
  { intro idxs. unfold get_task_context, bind, getws, lift_res.
    destruct (get_task_context_from (contexts (c_ws x)) idxs []); reflexivity. }
  destruct (get_staged_task (c_ws c) t route); [apply G|].
  destruct (ws_task_entry (c_ws c) t route); [apply G|]. destruct (nth_error (contexts (c_ws c)) 0); reflexivity.
Qed.

Lemma nt_delay_pure : forall ts ctx, state_pure (nt_delay ts ctx).
Proof.
  intros ts ctx. unfold nt_delay. destruct (truthy (ts_delay ts)); [|apply state_pure_ret].
  apply state_pure_bind.
  - destruct (ts_delay ts); try apply state_pure_ret. apply evaluate_pure.
  - intro d. destruct (py_is_int d); [apply state_pure_ret|apply state_pure_raise].
Qed.

Lemma nt_delay_same : forall ts ctx ctx', sim ctx ctx' -> same (nt_delay ts ctx) (nt_delay ts ctx').
Proof.
  intros ts ctx ctx' Hs. unfold nt_delay. destruct (truthy (ts_delay ts)); [|apply same_ret].
  apply same_bind.
  - destruct (ts_delay ts); try apply state_pure_ret. apply evaluate_pure.
  - destruct (ts_delay ts); try apply state_pure_ret. apply evaluate_pure.
  - destruct (ts_delay ts) eqn:E; try apply same_ret. rewrite <- E. apply evaluate_same; exact Hs.
  - intro d. destruct (py_is_int d); [apply same_ret|apply same_raise].
Qed.

Lemma nt_pre_pure : forall t route c, state_pure (nt_pre t route c).
Proof.
  intros t route c. unfold nt_pre.
  apply state_pure_bind; [apply nt_ctx0_pure|intro ctx0]. cbv zeta.
  apply state_pure_bind; [destruct (spec_get_task (c_spec c) t); [apply state_pure_ret|apply state_pure_raise]|intro ts].
  apply state_pure_bind; [apply render_task_pure|intro actions].
  apply state_pure_bind; [apply nt_delay_pure|intro delay; apply state_pure_ret].
Qed.

Definition pre_res (t : string) (route : nat) (x : cstate) := snd (nt_pre t route x x).

Lemma nt_pre_run : forall t route x, nt_pre t route x x = (x, pre_res t route x).
Proof.
  intros t route x. unfold pre_res. pose proof (nt_pre_pure t route x x) as H.
  destruct (nt_pre t route x x) as [x' r]; simpl in *; subst; reflexivity.
Qed.

Definition conc_res (t : string) (route : nat) (x : cstate) (ctx0 : dict) (its : items_spec) : result json :=
  snd (evaluate ev (it_concurrency its) (nt_mkctx t route ctx0 (c_ws x)) x).

Definition type_err_none : exn := exn_type "argument of type 'NoneType' is not iterable".

(* the whole of next_task_for on a state x, as a value *)
Definition nt_value (t : string) (route : nat) (retry : option retry_rec) (x : cstate) : cstate * result (option offer) :=
  match pre_res t route x with
  | Exc e => (x, Exc e)
  | Val (ctx0, ts, actions, delay) =>
      match ts_with ts with
      | None => (x, Val (offer_plain t route retry x ctx0 actions delay))
      | Some its =>
          match conc_res t route x ctx0 its with
          | Exc e => (x, Exc e)
          | Val cv =>
              match get_staged_task (c_ws x) t route with
              | None => (x, Exc type_err_none)
              | Some e =>
                  let n := length actions in
                  (match s_items e with Some (_ :: _) => x | _ => set_tbl x t route (Some (repeat S_UNSET n)) end,
                   match choose_items cv (combine actions (items_of (s_items e) n)) with
                   | Exc ex => Exc ex
                   | Val (acts, conc') => Val (offer_items t route retry x ctx0 n delay acts conc')
                   end)
              end
          end
      end
  end.

Lemma nt_run : forall s x, next_task_for ev s x = nt_value (s_id s) (s_route s) (s_retry s) x.
Proof.
  intros s x. rewrite nt_eq. unfold bind at 1. rewrite nt_pre_run. unfold nt_value.
  destruct (pre_res (s_id s) (s_route s) x) as [[[[ctx0 ts] actions] delay]|e]; [|reflexivity].
  unfold nt_post. cbv zeta. destruct (ts_with ts) as [its|]; [|reflexivity].
  unfold bind at 1. unfold conc_res.
  pose proof (evaluate_pure ev (it_concurrency its) (nt_mkctx (s_id s) (s_route s) ctx0 (c_ws x)) x) as Hp.
  destruct (evaluate ev (it_concurrency its) (nt_mkctx (s_id s) (s_route s) ctx0 (c_ws x)) x) as [x1 [cv|e]];
    simpl in Hp; subst x1; cbn [snd]; [|reflexivity].
  unfold bind at 1, getws. cbv beta iota.
  destruct (get_staged_task (c_ws x) (s_id s) (s_route s)) as [e|]; [|reflexivity]. cbv zeta.
  destruct (s_items e) as [[|y ys]|]; cbn [items_of];
    unfold bind, modws, ret, lift_res;
    match goal with |- context [choose_items ?a ?b] => destruct (choose_items a b) as [[acts conc']|ex] end; reflexivity.
Qed.


(* ------------------------------------------------------------------ states that differ in bookkeeping only *)

Definition stg_core (s s' : stg) : Prop :=
  s_id s' = s_id s /\ s_route s' = s_route s /\ s_in s' = s_in s /\ s_prev s' = s_prev s /\
  s_ready s' = s_ready s /\ s_retry s' = s_retry s /\ s_completed s' = s_completed s /\
  s_run_on_fail s' = s_run_on_fail s.

(* same definition, same snapshots, same staged entries up to their item tables *)
Definition Q (a b : cstate) : Prop :=
  c_spec a = c_spec b /\ contexts (c_ws a) = contexts (c_ws b) /\
  Forall2 stg_core (staged (c_ws a)) (staged (c_ws b)).

Lemma stg_core_refl : forall s, stg_core s s.
Proof. intro; repeat split. Qed.
Lemma stg_core_sym : forall s s', stg_core s s' -> stg_core s' s.
Proof. unfold stg_core; intros; intuition congruence. Qed.
Lemma stg_core_trans : forall a b c, stg_core a b -> stg_core b c -> stg_core a c.
Proof. unfold stg_core; intros; intuition congruence. Qed.

Lemma F2_refl : forall A (R : A -> A -> Prop), (forall x, R x x) -> forall l, Forall2 R l l.
Proof. intros A R H l; induction l; constructor; auto. Qed.
Lemma F2_sym : forall A (R : A -> A -> Prop), (forall x y, R x y -> R y x) -> forall l l', Forall2 R l l' -> Forall2 R l' l.
Proof. intros A R H l l' F; induction F; constructor; auto. Qed.
Lemma F2_trans : forall A (R : A -> A -> Prop), (forall x y z, R x y -> R y z -> R x z) ->
  forall a b c, Forall2 R a b -> Forall2 R b c -> Forall2 R a c.
Proof. intros A R H a b c F; revert c; induction F; intros c0 G; inversion G; subst; constructor; eauto. Qed.

Lemma Q_refl : forall a, Q a a.
Proof. intro; repeat split; apply F2_refl; apply stg_core_refl. Qed.
Lemma Q_sym : forall a b, Q a b -> Q b a.
Proof. intros a b [A [B C]]; repeat split; [congruence|congruence|apply F2_sym; [apply stg_core_sym|exact C]]. Qed.
Lemma Q_trans : forall a b c, Q a b -> Q b c -> Q a c.
Proof.
  intros a b c [A1 [B1 C1]] [A2 [B2 C2]]; repeat split; [congruence|congruence|].
  eapply F2_trans; [apply stg_core_trans|eassumption|eassumption].
Qed.

Lemma find_core : forall t r l l', Forall2 stg_core l l' ->
  match find (stg_matches t r) l, find (stg_matches t r) l' with
  | Some e, Some e' => stg_core e e'
  | None, None => True
  | _, _ => False
  end.
Proof.
  intros t r l l' F; induction F as [|x y l l' Hxy F IH]; simpl; [exact I|].
  assert (E : stg_matches t r y = stg_matches t r x).
  { destruct Hxy as [H1 [H2 _]]. unfold stg_matches. rewrite H1, H2. reflexivity. }
  rewrite E. destruct (stg_matches t r x); [exact Hxy|exact IH].
Qed.

Definition found (x : cstate) (t : string) (route : nat) : Prop := get_staged_task (c_ws x) t route <> None.

Lemma found_Q : forall a b t route, Q a b -> found a t route -> found b t route.
Proof.
  intros a b t route [_ [_ F]] H. unfold found, get_staged_task in *. pose proof (find_core t route _ _ F) as G.
  destruct (find (stg_matches t route) (staged (c_ws a))); [|congruence].
  destruct (find (stg_matches t route) (staged (c_ws b))); [discriminate|contradiction].
Qed.

Lemma snd_bind_pure : forall A B (m m' : M A) (f f' : A -> M B) a b,
  state_pure m -> state_pure m' -> snd (m a) = snd (m' b) -> (forall v, snd (f v a) = snd (f' v b)) ->
  snd (bind m f a) = snd (bind m' f' b).
Proof.
  intros A B m m' f f' a b Hp Hp' Hm Hf. unfold bind. specialize (Hp a). specialize (Hp' b).
  destruct (m a) as [a1 [v|e]], (m' b) as [b1 [v'|e']]; simpl in *; subst; try discriminate.
  - inversion Hm; subst. apply Hf.
  - inversion Hm; reflexivity.
Qed.

(* what is read and rendered for an entry is the same in two such states *)
Lemma pre_res_Q : forall a b t route, Q a b -> found a t route -> pre_res t route a = pre_res t route b.
Proof.
  intros a b t route HQ Hf. pose proof HQ as [Hsp [Hctx F]]. unfold pre_res, nt_pre.
  apply snd_bind_pure; [apply nt_ctx0_pure|apply nt_ctx0_pure| |].
  - unfold nt_ctx0. unfold found, get_staged_task in *. pose proof (find_core t route _ _ F) as G.
    destruct (find (stg_matches t route) (staged (c_ws a))) as [e|]; [|congruence].
    destruct (find (stg_matches t route) (staged (c_ws b))) as [e'|]; [|contradiction].
    destruct G as [_ [_ [Hin _]]]. rewrite Hin.
    unfold get_task_context, bind, getws, lift_res. rewrite Hctx.
    destruct (get_task_context_from (contexts (c_ws b)) (s_in e) []); reflexivity.
  - intro ctx0. cbv zeta. rewrite Hsp.
    apply snd_bind_pure.
    + destruct (spec_get_task (c_spec b) t); [apply state_pure_ret|apply state_pure_raise].
    + destruct (spec_get_task (c_spec b) t); [apply state_pure_ret|apply state_pure_raise].
    + destruct (spec_get_task (c_spec b) t); reflexivity.
    + intro ts. apply snd_bind_pure; [apply render_task_pure|apply render_task_pure| |].
      * apply render_task_same. apply sim_state_ctx.
      * intro actions. apply snd_bind_pure; [apply nt_delay_pure|apply nt_delay_pure| |intro; reflexivity].
        apply nt_delay_same. apply sim_state_ctx.
Qed.

Lemma conc_res_Q : forall a b t route ctx0 its, conc_res t route a ctx0 its = conc_res t route b ctx0 its.
Proof. intros. unfold conc_res. apply evaluate_same. apply sim_state_ctx. Qed.

(* how many item actions the entry renders to, when its item table is reached at all *)
Definition kappa (x : cstate) (t : string) (route : nat) : option nat :=
  match pre_res t route x with
  | Val (ctx0, ts, actions, _) =>
      match ts_with ts with
      | Some its => match conc_res t route x ctx0 its with Val _ => Some (length actions) | Exc _ => None end
      | None => None
      end
  | Exc _ => None
  end.

Lemma kappa_Q : forall a b t route, Q a b -> found a t route -> kappa a t route = kappa b t route.
Proof.
  intros a b t route HQ Hf. unfold kappa. rewrite (pre_res_Q a b t route HQ Hf).
  destruct (pre_res t route b) as [[[[ctx0 ts] actions] delay]|e]; [|reflexivity].
  destruct (ts_with ts) as [its|]; [|reflexivity]. rewrite (conc_res_Q a b). reflexivity.
Qed.


(* ------------------------------------------------------------------ one step of the query, as a value *)

Definition tblv (x : cstate) (t : string) (route : nat) : option (list status) :=
  match get_staged_task (c_ws x) t route with Some e => s_items e | None => None end.

Definition dk (k : option nat) (T : option (list status)) : option (list status) :=
  match k with Some n => delta T n | None => T end.

Lemma dk_idem : forall k T, dk k (dk k T) = dk k T.
Proof. intros [n|] T; [|reflexivity]. simpl. unfold delta. destruct T as [[|y ys]|]; try reflexivity; destruct n; reflexivity. Qed.

Definition err_of (e : exn) (t : string) (route : nat) : errent :=
  mk_errent "error" (x_cls e ++ ": " ++ x_msg e) (Some t) (Some route) None JNull.

Definition log_val (e : exn) (t : string) (route : nat) (x : cstate) : cstate :=
  if existsb (errent_eqb (err_of e t route)) (c_errors x) then x
  else set_errors x (app (c_errors x) [err_of e t route]).

Definition key3 (s : stg) : string * nat * option retry_rec := (s_id s, s_route s, s_retry s).

Definition step_value (k : string * nat * option retry_rec) (x : cstate) : cstate * (option offer * bool) :=
  let '(t, route, retry) := k in
  match nt_value t route retry x with
  | (x1, Val o) => (x1, (o, false))
  | (x1, Exc e) => (log_val e t route x1, (None, true))
  end.

Lemma step_run : forall s x,
  try_catch (o <- next_task_for ev s ;; ret (o, false))
            (fun e => log_error e (Some (s_id s)) (Some (s_route s)) None ;;; ret (None, true)) x
  = (fst (step_value (key3 s) x), Val (snd (step_value (key3 s) x))).
Proof.
  intros s x. unfold try_catch, bind at 1. rewrite nt_run. unfold step_value, key3.
  destruct (nt_value (s_id s) (s_route s) (s_retry s) x) as [x1 [o|e]]; [reflexivity|].
  unfold bind, log_error, log_entry_error, modify, ret. reflexivity.
Qed.

Fixpoint steps (K : list (string * nat * option retry_rec)) (x : cstate) : cstate * list (option offer * bool) :=
  match K with
  | [] => (x, [])
  | k :: K' => let '(x1, r) := step_value k x in let '(x2, rs) := steps K' x1 in (x2, r :: rs)
  end.

Lemma mapM_steps : forall l x,
  mapM (fun s => try_catch (o <- next_task_for ev s ;; ret (o, false))
                           (fun e => log_error e (Some (s_id s)) (Some (s_route s)) None ;;; ret (None, true))) l x
  = (fst (steps (map key3 l) x), Val (snd (steps (map key3 l) x))).
Proof.
  induction l as [|s l IH]; intro x; [reflexivity|]. cbn [mapM map steps]. unfold bind at 1. rewrite step_run.
  destruct (step_value (key3 s) x) as [x1 r] eqn:E. cbn [fst snd]. unfold bind at 1. rewrite IH.
  destruct (steps (map key3 l) x1) as [x2 rs]. reflexivity.
Qed.

(* ---- facts about one step ---- *)

Definition errs_sub (x y : cstate) : Prop := forall E, In E (c_errors x) -> In E (c_errors y).

Lemma find_staged_update_same : forall f t r l, (forall s, stg_matches t r (f s) = stg_matches t r s) ->
  find (stg_matches t r) (staged_update f t r l) = option_map f (find (stg_matches t r) l).
Proof.
  intros f t r l Hf; induction l as [|s l IH]; simpl; [reflexivity|].
  destruct (stg_matches t r s) eqn:E; simpl; [rewrite Hf, E; reflexivity|rewrite E; exact IH].
Qed.

Lemma stg_matches_other : forall t r t' r' s, (t', r') <> (t, r) -> stg_matches t r s = true -> stg_matches t' r' s = false.
Proof.
  intros t r t' r' s Hne H. unfold stg_matches in *. apply andb_prop in H. destruct H as [H1 H2].
  apply String.eqb_eq in H1. apply Nat.eqb_eq in H2. subst.
  destruct (String.eqb (s_id s) t') eqn:E1; [|reflexivity]. destruct (Nat.eqb (s_route s) r') eqn:E2; [|reflexivity].
  apply String.eqb_eq in E1. apply Nat.eqb_eq in E2. subst. congruence.
Qed.

Lemma find_staged_update_other : forall f t r t' r' l, (t', r') <> (t, r) ->
  (forall s, s_id (f s) = s_id s /\ s_route (f s) = s_route s) ->
  find (stg_matches t' r') (staged_update f t r l) = find (stg_matches t' r') l.
Proof.
  intros f t r t' r' l Hne Hf; induction l as [|s l IH]; simpl; [reflexivity|].
  destruct (stg_matches t r s) eqn:E; simpl.
  - assert (E1 : stg_matches t' r' s = false) by (eapply stg_matches_other; eassumption).
    assert (E2 : stg_matches t' r' (f s) = false).
    { unfold stg_matches in *. destruct (Hf s) as [A B]. rewrite A, B. exact E1. }
    rewrite E1, E2. reflexivity.
  - destruct (stg_matches t' r' s); [reflexivity|exact IH].
Qed.

Lemma F2_staged_update_core : forall f t r l, (forall s, stg_core s (f s)) -> Forall2 stg_core l (staged_update f t r l).
Proof.
  intros f t r l Hf; induction l as [|s l IH]; simpl; [constructor|].
  destruct (stg_matches t r s); constructor; [apply Hf|apply F2_refl; apply stg_core_refl|apply stg_core_refl|exact IH].
Qed.

Lemma set_tbl_facts : forall x t route T,
  Q x (set_tbl x t route T) /\ errs_sub x (set_tbl x t route T) /\
  wstatus (c_ws (set_tbl x t route T)) = wstatus (c_ws x) /\ c_init (set_tbl x t route T) = c_init x /\
  (found x t route -> tblv (set_tbl x t route T) t route = T) /\
  (forall t' r', (t', r') <> (t, route) -> tblv (set_tbl x t route T) t' r' = tblv x t' r').
Proof.
  intros x t route T. unfold set_tbl. split; [|split; [|split; [|split; [|split]]]].
  - repeat split. cbn [c_ws set_ws staged ws_set_staged]. apply F2_staged_update_core. intro s; repeat split.
  - intros E H; exact H.
  - reflexivity.
  - reflexivity.
  - intro Hf. unfold tblv, found, get_staged_task in *. cbn [c_ws set_ws staged ws_set_staged].
    rewrite find_staged_update_same by (intro s; reflexivity).
    destruct (find (stg_matches t route) (staged (c_ws x))); [reflexivity|congruence].
  - intros t' r' Hne. unfold tblv, get_staged_task. cbn [c_ws set_ws staged ws_set_staged].
    rewrite find_staged_update_other; [reflexivity|exact Hne|intro s; split; reflexivity].
Qed.

Lemma log_val_facts : forall e t route x,
  Q x (log_val e t route x) /\ errs_sub x (log_val e t route x) /\
  wstatus (c_ws (log_val e t route x)) = wstatus (c_ws x) /\ c_init (log_val e t route x) = c_init x /\
  (forall t' r', tblv (log_val e t route x) t' r' = tblv x t' r') /\
  existsb (errent_eqb (err_of e t route)) (c_errors (log_val e t route x)) = true.
Proof.
  intros e t route x. unfold log_val.
  destruct (existsb (errent_eqb (err_of e t route)) (c_errors x)) eqn:Ex.
  - repeat split; try reflexivity; [apply F2_refl; apply stg_core_refl|intros E H; exact H|exact Ex].
  - repeat split; try reflexivity; [apply F2_refl; apply stg_core_refl|intros E H; cbn [c_errors set_errors]; apply in_or_app; left; exact H|].
    cbn [c_errors set_errors]. rewrite existsb_app. apply orb_true_iff; right. cbn [existsb].
    apply orb_true_iff; left. unfold errent_eqb, err_of, mk_errent. cbn [er_type er_message er_task er_route er_trans er_result opt_eqb].
    rewrite !String.eqb_refl, Nat.eqb_refl. reflexivity.
Qed.


Definition step_ok (x x1 : cstate) (t : string) (route : nat) : Prop :=
  Q x x1 /\ errs_sub x x1 /\ wstatus (c_ws x1) = wstatus (c_ws x) /\ c_init x1 = c_init x /\
  tblv x1 t route = dk (kappa x t route) (tblv x t route) /\
  (forall t' r', (t', r') <> (t, route) -> tblv x1 t' r' = tblv x t' r').

Lemma step_ok_refl_none : forall x t route, kappa x t route = None -> step_ok x x t route.
Proof.
  intros x t route Hk. unfold step_ok. rewrite Hk. repeat split; try reflexivity;
    [apply F2_refl; apply stg_core_refl|intros E H; exact H].
Qed.

Lemma nt_value_facts : forall t route retry x, found x t route ->
  step_ok x (fst (nt_value t route retry x)) t route.
Proof.
  intros t route retry x Hf. unfold nt_value.
  destruct (pre_res t route x) as [[[[ctx0 ts] actions] delay]|e] eqn:Ep;
    [|cbn [fst]; apply step_ok_refl_none; unfold kappa; rewrite Ep; reflexivity].
  destruct (ts_with ts) as [its|] eqn:Ew;
    [|cbn [fst]; apply step_ok_refl_none; unfold kappa; rewrite Ep, Ew; reflexivity].
  destruct (conc_res t route x ctx0 its) as [cv|e] eqn:Ec;
    [|cbn [fst]; apply step_ok_refl_none; unfold kappa; rewrite Ep, Ew, Ec; reflexivity].
  assert (Hk : kappa x t route = Some (length actions)) by (unfold kappa; rewrite Ep, Ew, Ec; reflexivity).
  unfold found in Hf. destruct (get_staged_task (c_ws x) t route) as [e|] eqn:Eg; [|congruence].
  cbv zeta. cbn [fst]. unfold step_ok. rewrite Hk. cbn [dk].
  assert (Ht : tblv x t route = s_items e) by (unfold tblv; rewrite Eg; reflexivity). rewrite Ht.
  destruct (s_items e) as [[|y ys]|] eqn:Ei; cbn [delta].
  - destruct (set_tbl_facts x t route (Some (repeat S_UNSET (length actions)))) as [A [B [C [D [E F]]]]].
    repeat split; try assumption; try apply A. apply E. unfold found; congruence.
  - repeat split; try reflexivity; [apply F2_refl; apply stg_core_refl|intros E H; exact H|exact Ht].
  - destruct (set_tbl_facts x t route (Some (repeat S_UNSET (length actions)))) as [A [B [C [D [E F]]]]].
    repeat split; try assumption; try apply A. apply E. unfold found; congruence.
Qed.

Lemma step_facts : forall t route retry x, found x t route ->
  step_ok x (fst (step_value (t, route, retry) x)) t route.
Proof.
  intros t route retry x Hf. pose proof (nt_value_facts t route retry x Hf) as H. unfold step_value.
  destruct (nt_value t route retry x) as [x1 [o|e]]; cbn [fst] in *; [exact H|].
  destruct H as [A [B [C [D [E F]]]]]. destruct (log_val_facts e t route x1) as [A' [B' [C' [D' [E' _]]]]].
  unfold step_ok. split; [eapply Q_trans; eassumption|]. split; [intros X HX; apply B', B; exact HX|].
  split; [congruence|]. split; [congruence|]. split; [rewrite E'; exact E|].
  intros t' r' Hne. rewrite E'. apply F; exact Hne.
Qed.

(* ---- the same step, taken again in a state that already holds its bookkeeping ---- *)

Definition offer_sim (o o' : offer) : Prop :=
  o_id o' = o_id o /\ o_route o' = o_route o /\ o_actions o' = o_actions o /\ o_delay o' = o_delay o /\
  o_items_count o' = o_items_count o /\ o_concurrency o' = o_concurrency o /\ sim (o_ctx o) (o_ctx o').

Definition oo_sim (o o' : option offer) : Prop :=
  match o, o' with Some a, Some b => offer_sim a b | None, None => True | _, _ => False end.

Definition res_sim (r r' : option offer * bool) : Prop := oo_sim (fst r) (fst r') /\ snd r = snd r'.

Lemma set_tbl_same : forall x t route e, get_staged_task (c_ws x) t route = Some e ->
  set_tbl x t route (s_items e) = x.
Proof.
  intros x t route e H. unfold set_tbl.
  assert (E : staged_update (fun e0 => s_set_items e0 (s_items e)) t route (staged (c_ws x)) = staged (c_ws x)).
  { unfold get_staged_task in H. induction (staged (c_ws x)) as [|s l IH]; [reflexivity|]. simpl in *.
    destruct (stg_matches t route s).
    - inversion H; subst. destruct e; reflexivity.
    - rewrite IH; [reflexivity|exact H]. }
  rewrite E. destruct x as [sp g inp par ini w er lg out]; destruct w; reflexivity.
Qed.

Lemma existsb_sub : forall E l l', existsb (errent_eqb E) l = true -> (forall X, In X l -> In X l') ->
  existsb (errent_eqb E) l' = true.
Proof.
  intros E l l' H Hs. apply existsb_exists in H. destruct H as [X [Hin HX]].
  apply existsb_exists. exists X; split; [apply Hs; exact Hin|exact HX].
Qed.

Lemma step_again : forall t route retry a b, Q a b -> found a t route ->
  tblv b t route = dk (kappa a t route) (tblv a t route) ->
  errs_sub (fst (step_value (t, route, retry) a)) b ->
  fst (step_value (t, route, retry) b) = b /\
  res_sim (snd (step_value (t, route, retry) a)) (snd (step_value (t, route, retry) b)).
Proof.
  intros t route retry a b HQ Hf Ht He. pose proof (found_Q _ _ _ _ HQ Hf) as Hfb.
  unfold step_value, nt_value in *. unfold kappa in Ht. rewrite <- (pre_res_Q a b t route HQ Hf).
  assert (Hlog : forall e a1, errs_sub (log_val e t route a1) b -> log_val e t route b = b).
  { intros e a1 Hs. unfold log_val at 1.
    rewrite (existsb_sub _ _ _ (proj2 (proj2 (proj2 (proj2 (proj2 (log_val_facts e t route a1)))))) Hs). reflexivity. }
  destruct (pre_res t route a) as [[[[ctx0 ts] actions] delay]|e]; [|cbn [fst snd] in *].
  2: { split; [eapply Hlog; exact He|split; [exact I|reflexivity]]. }
  destruct (ts_with ts) as [its|].
  2: { cbn [fst snd]. split; [reflexivity|]. split; [|reflexivity]. unfold offer_plain.
       destruct actions; [exact I|]. repeat split. apply sim_state_ctx. }
  rewrite <- (conc_res_Q a b). destruct (conc_res t route a ctx0 its) as [cv|e]; [|cbn [fst snd] in *].
  2: { split; [eapply Hlog; exact He|split; [exact I|reflexivity]]. }
  unfold found in Hf, Hfb. unfold tblv in Ht.
  destruct (get_staged_task (c_ws a) t route) as [ea|] eqn:Ea; [|congruence].
  destruct (get_staged_task (c_ws b) t route) as [eb|] eqn:Eb; [|congruence].
  cbv zeta in *. cbn [dk] in Ht.
  (* the item list both calls work with, and the second call's state *)
  assert (Hit : items_of (s_items eb) (length actions) = items_of (s_items ea) (length actions) /\
                (match s_items eb with Some (_ :: _) => b | _ => set_tbl b t route (Some (repeat S_UNSET (length actions))) end) = b).
  { pose proof (set_tbl_same b t route eb Eb) as X. rewrite Ht in X. rewrite Ht. clear Ht.
    unfold delta in *. destruct (s_items ea) as [[|y ys]|]; cbn [items_of].
    - destruct (length actions) as [|n]; cbn [repeat items_of] in *; [split; [reflexivity|exact X]|split; reflexivity].
    - split; reflexivity.
    - destruct (length actions) as [|n]; cbn [repeat items_of] in *; [split; [reflexivity|exact X]|split; reflexivity]. }
  destruct Hit as [Hi Hb]. rewrite Hi, Hb.
  destruct (choose_items cv (combine actions (items_of (s_items ea) (length actions)))) as [[acts conc']|ex];
    cbn [fst snd] in *.
  - split; [reflexivity|]. split; [|reflexivity]. unfold offer_items.
    destruct acts as [|a0 acts]; [destruct (length actions); [|exact I]|]; repeat split; apply sim_state_ctx.
  - split; [eapply Hlog; exact He|split; [exact I|reflexivity]].
Qed.


(* ------------------------------------------------------------------ all entries, twice *)

Definition key2 (k : string * nat * option retry_rec) : string * nat := fst k.
Definition kfound (x : cstate) (k : string * nat * option retry_rec) : Prop := found x (fst (fst k)) (snd (fst k)).

Definition adv (x y : cstate) (t : string) (route : nat) : Prop :=
  tblv y t route = tblv x t route \/ tblv y t route = dk (kappa x t route) (tblv x t route).
Definition stable (y : cstate) (t : string) (route : nat) : Prop :=
  dk (kappa y t route) (tblv y t route) = tblv y t route.

Lemma key_dec : forall a b : string * nat, {a = b} + {a <> b}.
Proof. intros [a1 a2] [b1 b2]. destruct (string_dec a1 b1); destruct (Nat.eq_dec a2 b2); subst; auto; right; congruence. Qed.

Lemma errs_sub_refl : forall x, errs_sub x x.
Proof. intros x E H; exact H. Qed.
Lemma errs_sub_trans : forall a b c, errs_sub a b -> errs_sub b c -> errs_sub a c.
Proof. intros a b c H1 H2 E H; apply H2, H1, H. Qed.

Lemma steps_cons : forall k K x,
  steps (k :: K) x = (fst (steps K (fst (step_value k x))), snd (step_value k x) :: snd (steps K (fst (step_value k x)))).
Proof.
  intros k K x. cbn [steps]. destruct (step_value k x) as [x1 r]. cbn [fst snd].
  destruct (steps K x1) as [x2 rs]. reflexivity.
Qed.

Lemma steps_facts : forall K x, (forall k, In k K -> kfound x k) ->
  Q x (fst (steps K x)) /\ errs_sub x (fst (steps K x)) /\
  wstatus (c_ws (fst (steps K x))) = wstatus (c_ws x) /\ c_init (fst (steps K x)) = c_init x /\
  (forall t r, found x t r -> adv x (fst (steps K x)) t r) /\
  (forall k, In k K -> stable (fst (steps K x)) (fst (fst k)) (snd (fst k))).
Proof.
  induction K as [|[[t route] retry] K IH]; intros x Hf.
  - cbn [steps fst]. split; [apply Q_refl|]. split; [apply errs_sub_refl|]. split; [reflexivity|].
    split; [reflexivity|]. split; [intros t r _; left; reflexivity|intros k []].
  - rewrite steps_cons. cbn [fst].
    assert (Hfk : found x t route) by (apply (Hf (t, route, retry)); left; reflexivity).
    destruct (step_facts t route retry x Hfk) as [Q1 [E1 [S1 [I1 [T1 O1]]]]].
    set (x1 := fst (step_value (t, route, retry) x)) in *.
    assert (Hf1 : forall k, In k K -> kfound x1 k).
    { intros k Hk. unfold kfound. eapply found_Q; [exact Q1|]. apply (Hf k). right; exact Hk. }
    destruct (IH x1 Hf1) as [Q2 [E2 [S2 [I2 [A2 B2]]]]].
    set (xn := fst (steps K x1)) in *.
    assert (Hadv : forall t' r', found x t' r' -> adv x xn t' r').
    { intros t' r' Hf'. pose proof (found_Q _ _ _ _ Q1 Hf') as Hf1'.
      specialize (A2 t' r' Hf1'). unfold adv in *. rewrite <- (kappa_Q x x1 t' r' Q1 Hf') in A2.
      destruct (key_dec (t', r') (t, route)) as [E|N].
      - inversion E; subst t' r'. rewrite T1 in A2. rewrite dk_idem in A2. right. destruct A2; assumption.
      - rewrite (O1 t' r' N) in A2. exact A2. }
    split; [eapply Q_trans; eassumption|]. split; [eapply errs_sub_trans; eassumption|].
    split; [congruence|]. split; [congruence|]. split; [exact Hadv|].
    intros k [<-|Hk]; [|apply B2; exact Hk]. cbn [fst snd]. unfold stable.
    assert (QX : Q x xn) by (eapply Q_trans; eassumption).
    rewrite <- (kappa_Q x xn t route QX Hfk).
    assert (Ht : tblv xn t route = dk (kappa x t route) (tblv x t route)).
    { pose proof (found_Q _ _ _ _ Q1 Hfk) as Hf1'. specialize (A2 t route Hf1'). unfold adv in A2.
      rewrite <- (kappa_Q x x1 t route Q1 Hfk) in A2. rewrite T1 in A2. rewrite dk_idem in A2. destruct A2; assumption. }
    rewrite Ht. apply dk_idem.
Qed.

Lemma steps_again : forall K a b, (forall k, In k K -> kfound a k) -> Q a b ->
  errs_sub (fst (steps K a)) b ->
  (forall k, In k K -> adv a b (fst (fst k)) (snd (fst k))) ->
  (forall k, In k K -> stable b (fst (fst k)) (snd (fst k))) ->
  fst (steps K b) = b /\ Forall2 res_sim (snd (steps K a)) (snd (steps K b)).
Proof.
  induction K as [|[[t route] retry] K IH]; intros a b Hf HQ He Ha Hs.
  - cbn [steps fst snd]. split; [reflexivity|constructor].
  - rewrite !steps_cons. cbn [fst snd]. rewrite steps_cons in He. cbn [fst] in He.
    assert (Hfk : found a t route) by (apply (Hf (t, route, retry)); left; reflexivity).
    destruct (step_facts t route retry a Hfk) as [Q1 [E1 [S1 [I1 [T1 O1]]]]].
    set (a1 := fst (step_value (t, route, retry) a)) in *.
    assert (Hf1 : forall k, In k K -> kfound a1 k).
    { intros k Hk. unfold kfound. eapply found_Q; [exact Q1|]. apply (Hf k). right; exact Hk. }
    destruct (steps_facts K a1 Hf1) as [_ [E2 _]].
    assert (Htb : tblv b t route = dk (kappa a t route) (tblv a t route)).
    { destruct (Ha (t, route, retry) (or_introl eq_refl)) as [H|H]; [|exact H]. cbn [fst snd] in H.
      pose proof (Hs (t, route, retry) (or_introl eq_refl)) as St. cbn [fst snd] in St. unfold stable in St.
      rewrite <- (kappa_Q a b t route HQ Hfk) in St. rewrite H in St. rewrite St. exact H. }
    destruct (step_again t route retry a b HQ Hfk Htb) as [Sb Rb].
    { eapply errs_sub_trans; [exact E2|exact He]. }
    rewrite Sb.
    assert (Q1b : Q a1 b) by (eapply Q_trans; [apply Q_sym; exact Q1|exact HQ]).
    destruct (IH a1 b Hf1 Q1b He) as [Sn Rn].
    + intros k Hk. pose proof (Ha k (or_intror Hk)) as Hk'. unfold adv in *.
      assert (Hfk' : found a (fst (fst k)) (snd (fst k))) by (apply (Hf k); right; exact Hk).
      rewrite <- (kappa_Q a a1 _ _ Q1 Hfk').
      destruct (key_dec (fst (fst k), snd (fst k)) (t, route)) as [E|N].
      * inversion E as [[E1' E2']]. rewrite E1', E2'. left. rewrite T1. exact Htb.
      * rewrite (O1 _ _ N). exact Hk'.
    + intros k Hk. apply Hs. right; exact Hk.
    + split; [exact Sn|]. constructor; [exact Rb|exact Rn].
Qed.

Theorem steps_idempotent : forall K x, (forall k, In k K -> kfound x k) ->
  fst (steps K (fst (steps K x))) = fst (steps K x) /\
  Forall2 res_sim (snd (steps K x)) (snd (steps K (fst (steps K x)))).
Proof.
  intros K x Hf. destruct (steps_facts K x Hf) as [HQ [_ [_ [_ [Ha Hs]]]]].
  apply steps_again; [exact Hf|exact HQ|apply errs_sub_refl| |exact Hs].
  intros k Hk. apply Ha. apply (Hf k Hk).
Qed.


(* ------------------------------------------------------------------ failing the workflow from the query *)

Lemma F_task_no_workflow_failed : forall s, tbl_step task_table s "workflow_failed" = None.
Proof.
  intro s. destruct (tbl_step task_table s "workflow_failed") as [t|] eqn:E; [|reflexivity]. exfalso.
  assert (T : table_forall task_table (fun _ e _ => negb (String.eqb e "workflow_failed")) = true) by (vm_compute; reflexivity).
  pose proof (table_forall_step _ _ T _ _ _ E) as P. cbv beta in P. rewrite String.eqb_refl in P. discriminate.
Qed.

Lemma F_wf_workflow_failed_target : forall s t, tbl_step wf_table s "workflow_failed" = Some t -> t = S_FAILED.
Proof.
  intros s t E.
  assert (T : table_forall wf_table (fun _ e t => negb (String.eqb e "workflow_failed") || status_eqb t S_FAILED) = true)
    by (vm_compute; reflexivity).
  pose proof (table_forall_step _ _ T _ _ _ E) as P. cbv beta in P. rewrite String.eqb_refl in P.
  cbn [negb orb] in P. apply status_eqb_eq; exact P.
Qed.

Lemma push_failed_noop : forall l x,
  (forall i r0, In (i, r0) l -> exists r, nth_error (sequence (c_ws x)) i = Some r /\ ostatus_in (r_status r) ACTIVE_STATUSES = true) ->
  forM_ l (push_body S_FAILED) x = (x, Val tt).
Proof.
  induction l as [|[i r0] l IH]; intros x H; [reflexivity|]. cbn [forM_]. unfold bind.
  destruct (H i r0 (or_introl eq_refl)) as [r [Hn Ha]].
  assert (Et : task_process_event (c_ws x) r (EvWorkflow S_FAILED) = Val None).
  { unfold task_process_event. cbn [ev_name].
    replace (string_in (WORKFLOW_EVENT_PREFIX ++ status_name S_FAILED) WORKFLOW_EXECUTION_EVENTS) with true by (vm_compute; reflexivity).
    cbn [negb]. unfold task_workflow_event_name.
    replace (status_in S_FAILED (PAUSE_STATUSES ++ CANCEL_STATUSES)) with false by (vm_compute; reflexivity).
    destruct (active_record_has_row r Ha) as [row Hrow]. unfold task_table_step. rewrite Hrow.
    pose proof (F_task_no_workflow_failed (rstatus r)) as F. unfold tbl_step in F. rewrite Hrow in F.
    change (WORKFLOW_EVENT_PREFIX ++ status_name S_FAILED) with "workflow_failed". rewrite F. reflexivity. }
  rewrite (push_body_run S_FAILED i r0 x r None Hn Et). rewrite with_seq_same. apply IH.
  intros j rj Hj. apply (H j rj). right; exact Hj.
Qed.

(* request_status_core S_FAILED: the state is unchanged (already failed, or the request is
   refused), or only the workflow status becomes failed *)
Lemma rsc_failed_cases : forall x x' r, request_status_core S_FAILED x = (x', r) ->
  x' = x \/ (x' = set_ws x (ws_set_status (c_ws x) S_FAILED) /\ wstatus (c_ws x) <> S_FAILED /\ r = Val tt).
Proof.
  intros x x' r H. rewrite request_status_core_eq in H. unfold bind at 1 in H.
  assert (HL : forall i r0, In (i, r0) (ws_tasks_by_status (c_ws x) ACTIVE_STATUSES) ->
                 nth_error (sequence (c_ws x)) i = Some r0 /\ ostatus_in (r_status r0) ACTIVE_STATUSES = true)
    by (intros i r0 Hin; apply tasks_by_status_In; exact Hin).
  rewrite push_failed_noop in H by (intros i r0 Hin; exists r0; apply HL; exact Hin).
  unfold request_tail in H. unfold bind at 1 in H. unfold wf_workflow_event_M, wf_process_workflow_event in H.
  assert (En : wf_workflow_event_name (c_ws x) S_FAILED = "workflow_failed").
  { unfold wf_workflow_event_name.
    replace (status_in S_FAILED (PAUSE_STATUSES ++ CANCEL_STATUSES)) with false by (vm_compute; reflexivity).
    replace (status_in S_FAILED [S_RUNNING; S_RESUMING]) with false by (vm_compute; reflexivity).
    rewrite andb_false_r. reflexivity. }
  rewrite En in H.
  replace (string_in "workflow_failed" WORKFLOW_EXECUTION_EVENTS) with true in H by (vm_compute; reflexivity).
  cbn [negb] in H.
  destruct (tbl_row wf_table (wstatus (c_ws x))) as [row|] eqn:Er; [|inversion H; left; reflexivity].
  assert (Hrest : forall new, 
            (new = wstatus (c_ws x) \/ new = S_FAILED) ->
            (log_unreachable [] ;;;
             w1 <- getws ;;
             (if status_eqb S_FAILED S_PAUSED && status_eqb (wstatus (c_ws x)) S_PAUSING && status_eqb (wstatus w1) S_PAUSING then ret tt
              else if status_eqb S_FAILED S_CANCELED && status_eqb (wstatus (c_ws x)) S_CANCELING && status_eqb (wstatus w1) S_CANCELING
              then ret tt
              else if negb (status_eqb S_FAILED (wstatus (c_ws x))) && status_eqb (wstatus (c_ws x)) (wstatus w1) then
                forM_ (ws_tasks_by_status (c_ws x) ACTIVE_STATUSES) (fun '(i, r) => set_rec_status i (r_status r)) ;;;
                raise (exn_invalid_wf_transition (wstatus (c_ws x)) (WORKFLOW_EVENT_PREFIX ++ status_name S_FAILED))
              else ret tt)) (set_ws x (ws_set_status (c_ws x) new)) = (x', r) ->
            x' = x \/ (x' = set_ws x (ws_set_status (c_ws x) S_FAILED) /\ wstatus (c_ws x) <> S_FAILED /\ r = Val tt)).
  { intros new Hnew Hb. unfold log_unreachable in Hb. cbn [forM_] in Hb.
    unfold bind at 1, ret at 1 in Hb. cbv beta iota in Hb.
    unfold bind at 1, getws in Hb. cbv beta iota in Hb. cbn [c_ws set_ws wstatus ws_set_status] in Hb.
    replace (status_eqb S_FAILED S_PAUSED) with false in Hb by reflexivity.
    replace (status_eqb S_FAILED S_CANCELED) with false in Hb by reflexivity. cbn [andb] in Hb.
    destruct (status_eqb S_FAILED (wstatus (c_ws x))) eqn:Ec.
    - cbn [negb andb] in Hb. inversion Hb; subst x' r. left. apply status_eqb_eq in Ec.
      destruct Hnew as [->| ->]; [apply set_status_same|rewrite Ec; apply set_status_same].
    - cbn [negb andb] in Hb. destruct Hnew as [->| ->].
      + rewrite status_eqb_refl in Hb. unfold bind in Hb. rewrite restore_loop_run in Hb.
        inversion Hb; subst x' r. left. cbn [c_ws set_ws sequence ws_set_status].
        rewrite (restore_moved _ (sequence (c_ws x)) (sequence (c_ws x))).
        * destruct x as [sp g inp par ini w er lg out]; destruct w; reflexivity.
        * intros i r0 Hin. apply HL; exact Hin.
        * apply moved_refl.
      + assert (Eu : status_eqb (wstatus (c_ws x)) S_FAILED = false).
        { destruct (status_eqb (wstatus (c_ws x)) S_FAILED) eqn:E2; [|reflexivity].
          apply status_eqb_eq in E2. rewrite E2 in Ec. discriminate. }
        rewrite Eu in Hb. inversion Hb; subst x' r. right. split; [reflexivity|]. split; [|reflexivity].
        intro E2. rewrite E2 in Eu. discriminate. }
  destruct (aget String.eqb "workflow_failed" row) as [new|] eqn:Ea.
  - assert (new = S_FAILED) as -> by (eapply F_wf_workflow_failed_target; unfold tbl_step; rewrite Er; exact Ea).
    replace (status_eqb S_FAILED S_SUCCEEDED) with false in H by reflexivity. rewrite andb_false_r in H.
    eapply Hrest; [right; reflexivity|exact H].
  - eapply Hrest; [left; reflexivity|exact H].
Qed.


(* ------------------------------------------------------------------ the query, as a value *)

Definition todo_of (w : wstate) : list stg :=
  let st := staged_filtered w in
  let rem := if status_eqb (wstatus w) S_FAILED then filter s_run_on_fail st else [] in
  match rem with [] => st | _ => rem end.

Definition held (w : wstate) : bool :=
  let st := staged_filtered w in
  let rem := if status_eqb (wstatus w) S_FAILED then filter s_run_on_fail st else [] in
  negb (status_in (wstatus w) RUNNING_STATUSES) && match rem with [] => true | _ => false end.

Definition offers_of (rs : list (option offer * bool)) : list offer :=
  sort_by offer_leb (flat_map (fun '(o, _) => match o with Some x => [x] | None => [] end) rs).

Definition gnt_value (x : cstate) : cstate * result (list offer) :=
  if held (c_ws x) then (x, Val [])
  else
    let '(xn, rs) := steps (map key3 (todo_of (c_ws x))) x in
    if existsb snd rs then
      match request_status_core S_FAILED xn with
      | (x', Val _) => (x', Val [])
      | (x', Exc e) => (x', Exc e)
      end
    else (xn, Val (offers_of rs)).

Lemma gnt_run : forall x, c_init x = true -> get_next_tasks ev x = gnt_value x.
Proof.
  intros x Hi. unfold get_next_tasks, bind at 1. rewrite (ensure_ws_inited ev x Hi).
  unfold bind at 1, getws. cbv beta iota zeta. unfold gnt_value, held, todo_of. cbv zeta.
  match goal with |- (if ?b then _ else _) _ = (if ?b' then _ else _) => change b' with b; destruct b end; [reflexivity|].
  unfold bind at 1. rewrite mapM_steps.
  destruct (steps (map key3 _) x) as [xn rs]. cbn [fst snd].
  destruct (existsb snd rs); [|reflexivity].
  unfold bind. destruct (request_status_core S_FAILED xn) as [x' [u|e]]; reflexivity.
Qed.

(* ---- lists ---- *)

Lemma filter_F2 : forall A (R : A -> A -> Prop) (p : A -> bool) l l', Forall2 R l l' ->
  (forall x y, R x y -> p x = p y) -> Forall2 R (filter p l) (filter p l').
Proof.
  intros A R p l l' F Hp; induction F as [|x y l l' Hxy F IH]; simpl; [constructor|].
  rewrite <- (Hp x y Hxy). destruct (p x); [constructor; assumption|exact IH].
Qed.

Lemma key3_core : forall l l', Forall2 stg_core l l' -> map key3 l = map key3 l'.
Proof.
  intros l l' F; induction F as [|x y l l' [H1 [H2 [_ [_ [_ [H6 _]]]]]] F IH]; simpl; [reflexivity|].
  unfold key3 at 1 3. rewrite H1, H2, H6, IH. reflexivity.
Qed.

Lemma F2_nil_iff : forall A B (R : A -> B -> Prop) l l', Forall2 R l l' -> (l = [] <-> l' = []).
Proof. intros A B R l l' F; destruct F; split; intro; congruence. Qed.

Lemma todo_core : forall a b, Q a b -> wstatus (c_ws a) = wstatus (c_ws b) ->
  Forall2 stg_core (todo_of (c_ws a)) (todo_of (c_ws b)) /\ held (c_ws a) = held (c_ws b).
Proof.
  intros a b [_ [_ F]] Hs. unfold todo_of, held, staged_filtered. cbv zeta. rewrite <- Hs.
  assert (F1 : Forall2 stg_core (filter (fun s => s_ready s && negb (s_completed s)) (staged (c_ws a)))
                                (filter (fun s => s_ready s && negb (s_completed s)) (staged (c_ws b)))).
  { apply filter_F2; [exact F|]. intros x y [_ [_ [_ [_ [H5 [_ [H7 _]]]]]]]. rewrite H5, H7. reflexivity. }
  destruct (status_eqb (wstatus (c_ws a)) S_FAILED).
  - assert (F2 : Forall2 stg_core (filter s_run_on_fail (filter (fun s => s_ready s && negb (s_completed s)) (staged (c_ws a))))
                                  (filter s_run_on_fail (filter (fun s => s_ready s && negb (s_completed s)) (staged (c_ws b))))).
    { apply filter_F2; [exact F1|]. intros x y [_ [_ [_ [_ [_ [_ [_ H8]]]]]]]. symmetry; exact H8. }
    inversion F2 as [|x y l l' Hxy Fl E1 E2]; [split; [exact F1|reflexivity]|].
    split; [constructor; assumption|reflexivity].
  - split; [exact F1|reflexivity].
Qed.

Lemma In_find : forall A (p : A -> bool) l x, In x l -> p x = true -> find p l <> None.
Proof.
  intros A p l x; induction l as [|a l IH]; simpl; intros Hin Hp; [destruct Hin|].
  destruct (p a) eqn:E; [discriminate|]. destruct Hin as [->|Hin]; [congruence|apply IH; assumption].
Qed.

Lemma todo_found : forall x k, In k (map key3 (todo_of (c_ws x))) -> kfound x k.
Proof.
  intros x k Hk. apply in_map_iff in Hk. destruct Hk as [s [<- Hin]]. unfold kfound, key3, found, get_staged_task. cbn [fst snd].
  assert (Hs : In s (staged (c_ws x))).
  { unfold todo_of, staged_filtered in Hin. cbv zeta in Hin.
    destruct (status_eqb (wstatus (c_ws x)) S_FAILED).
    - destruct (filter s_run_on_fail _) eqn:Ef; [apply filter_In in Hin; tauto|].
      rewrite <- Ef in Hin. apply filter_In in Hin. destruct Hin as [Hin _]. apply filter_In in Hin; tauto.
    - apply filter_In in Hin; tauto. }
  eapply In_find; [exact Hs|]. unfold stg_matches. rewrite String.eqb_refl, Nat.eqb_refl. reflexivity.
Qed.

(* ---- answers that differ in the __state entry of the offered contexts only ---- *)

Definition ans_sim (r r' : result (list offer)) : Prop :=
  match r, r' with
  | Val l, Val l' => Forall2 offer_sim l l'
  | Exc e, Exc e' => e = e'
  | _, _ => False
  end.

Lemma offer_leb_sim : forall a a' b b', offer_sim a a' -> offer_sim b b' -> offer_leb a b = offer_leb a' b'.
Proof.
  intros a a' b b' [A1 [A2 _]] [B1 [B2 _]]. unfold offer_leb. rewrite A1, A2, B1, B2. reflexivity.
Qed.

Lemma insert_sim : forall x x' l l', offer_sim x x' -> Forall2 offer_sim l l' ->
  Forall2 offer_sim (insert_sorted offer_leb x l) (insert_sorted offer_leb x' l').
Proof.
  intros x x' l l' Hx F; induction F as [|y y' l l' Hy F IH]; simpl; [constructor; [exact Hx|constructor]|].
  rewrite <- (offer_leb_sim y y' x x' Hy Hx). destruct (offer_leb y x).
  - constructor; [exact Hy|exact IH].
  - constructor; [exact Hx|constructor; assumption].
Qed.

Lemma sort_sim : forall l l', Forall2 offer_sim l l' -> Forall2 offer_sim (sort_by offer_leb l) (sort_by offer_leb l').
Proof.
  intros l l' F. unfold sort_by.
  assert (G : forall acc acc', Forall2 offer_sim acc acc' ->
            Forall2 offer_sim (fold_left (fun acc x => insert_sorted offer_leb x acc) l acc)
                              (fold_left (fun acc x => insert_sorted offer_leb x acc) l' acc')).
  { induction F as [|x x' l l' Hx F IH]; intros acc acc' Ha; simpl; [exact Ha|].
    apply IH. apply insert_sim; assumption. }
  apply G. constructor.
Qed.

Lemma offers_of_sim : forall rs rs', Forall2 res_sim rs rs' ->
  Forall2 offer_sim (offers_of rs) (offers_of rs') /\ existsb snd rs = existsb snd rs'.
Proof.
  intros rs rs' F. split.
  - unfold offers_of. apply sort_sim. induction F as [|[o b] [o' b'] rs rs' [Ho Hb] F IH]; simpl; [constructor|].
    cbn [fst] in Ho. destruct o as [x|], o' as [x'|]; simpl in Ho; try contradiction; [constructor; assumption|exact IH].
  - induction F as [|[o b] [o' b'] rs rs' [Ho Hb] F IH]; simpl; [reflexivity|]. cbn [snd] in Hb. rewrite Hb, IH. reflexivity.
Qed.

Lemma ans_sim_refl : forall r, ans_sim r r.
Proof.
  intros [l|e]; simpl; [|reflexivity]. apply F2_refl. intro o. repeat split. apply sim_refl.
Qed.

(* ------------------------------------------------------------------ the theorem *)

(* no clean-up entry is staged unless the workflow has already failed *)
Definition no_cleanup_pending (c : cstate) : Prop :=
  wstatus (c_ws c) <> S_FAILED -> filter s_run_on_fail (staged_filtered (c_ws c)) = [].

Theorem query_idempotent : forall c c1 r1, c_init c = true -> no_cleanup_pending c ->
  get_next_tasks ev c = (c1, r1) ->
  exists r2, get_next_tasks ev c1 = (c1, r2) /\ ans_sim r1 r2.
Proof.
  intros c c1 r1 Hi Hnc H. rewrite (gnt_run c Hi) in H. unfold gnt_value in H.
  destruct (held (c_ws c)) eqn:Eh.
  { inversion H; subst c1 r1. exists (Val []). split; [|apply ans_sim_refl].
    rewrite (gnt_run c Hi). unfold gnt_value. rewrite Eh. reflexivity. }
  pose proof (steps_facts (map key3 (todo_of (c_ws c))) c (todo_found c)) as [HQ [_ [Hst [Hin _]]]].
  pose proof (steps_idempotent (map key3 (todo_of (c_ws c))) c (todo_found c)) as [Hfix Hres].
  destruct (steps (map key3 (todo_of (c_ws c))) c) as [xn rs] eqn:Es. cbn [fst snd] in *.
  destruct (todo_core c xn HQ (eq_sym Hst)) as [Htodo Hheld].
  assert (HK : map key3 (todo_of (c_ws xn)) = map key3 (todo_of (c_ws c))) by (symmetry; apply key3_core; exact Htodo).
  assert (Hixn : c_init xn = true) by congruence.
  (* the second query, when it starts from xn *)
  assert (Hsecond : gnt_value xn =
            let '(xn', rs') := steps (map key3 (todo_of (c_ws c))) xn in
            if existsb snd rs' then
              match request_status_core S_FAILED xn' with (x', Val _) => (x', Val []) | (x', Exc e) => (x', Exc e) end
            else (xn', Val (offers_of rs'))).
  { unfold gnt_value. rewrite <- Hheld, Eh, HK. reflexivity. }
  destruct (steps (map key3 (todo_of (c_ws c))) xn) as [xn' rs'] eqn:Es'. cbn [fst snd] in *. subst xn'.
  destruct (offers_of_sim rs rs' Hres) as [Hoff Hex].
  destruct (existsb snd rs) eqn:Ef.
  - (* a rendering failure: the workflow is failed from the query *)
    destruct (request_status_core S_FAILED xn) as [x' rr] eqn:Er.
    destruct (rsc_failed_cases xn x' rr Er) as [->|[-> [Hnf ->]]].
    + (* state unchanged by the failing request: the second query repeats the first *)
      assert (E1 : (c1, r1) = match rr with Val _ => (xn, Val []) | Exc e => (xn, Exc e) end)
        by (destruct rr; symmetry; exact H).
      assert (c1 = xn) as -> by (destruct rr; inversion E1; reflexivity).
      exists r1. split; [|apply ans_sim_refl].
      rewrite (gnt_run xn Hixn), Hsecond. cbv beta iota zeta. rewrite <- Hex. symmetry; exact E1.
    + (* the workflow became failed: nothing to clean up, the second query answers [] at once *)
      inversion H; subst c1 r1. exists (Val []). split; [|apply ans_sim_refl].
      assert (Hi' : c_init (set_ws xn (ws_set_status (c_ws xn) S_FAILED)) = true) by exact Hixn.
      rewrite (gnt_run _ Hi'). unfold gnt_value, held. cbn [c_ws set_ws wstatus ws_set_status staged_filtered staged].
      replace (status_eqb S_FAILED S_FAILED) with true by reflexivity.
      replace (status_in S_FAILED RUNNING_STATUSES) with false by reflexivity. cbn [negb andb].
      assert (Hrem : filter s_run_on_fail (staged_filtered (c_ws xn)) = []).
      { assert (Hc : filter s_run_on_fail (staged_filtered (c_ws c)) = []) by (apply Hnc; congruence).
        destruct HQ as [_ [_ F]]. unfold staged_filtered in *.
        assert (F2 : Forall2 stg_core (filter s_run_on_fail (filter (fun s => s_ready s && negb (s_completed s)) (staged (c_ws c))))
                                      (filter s_run_on_fail (filter (fun s => s_ready s && negb (s_completed s)) (staged (c_ws xn))))).
        { apply filter_F2; [apply filter_F2; [exact F|]|].
          - intros x y [_ [_ [_ [_ [H5 [_ [H7 _]]]]]]]. rewrite H5, H7. reflexivity.
          - intros x y [_ [_ [_ [_ [_ [_ [_ H8]]]]]]]. symmetry; exact H8. }
        rewrite Hc in F2. inversion F2. reflexivity. }
      change (staged_filtered (ws_set_status (c_ws xn) S_FAILED)) with (staged_filtered (c_ws xn)). rewrite Hrem. reflexivity.
  - (* no failure: the offers *)
    inversion H; subst c1 r1. exists (Val (offers_of rs')). split; [|exact Hoff].
    rewrite (gnt_run xn Hixn), Hsecond. cbv beta iota zeta. rewrite <- Hex. reflexivity.
Qed.


(* the first call of all, on a conductor whose workflow state does not exist yet: provided its lazy
   creation does not itself raise, the same holds from the state it creates *)
Corollary query_idempotent_from_creation : forall c c0 c1 r1, ensure_ws ev c = (c0, Val tt) ->
  no_cleanup_pending c0 -> get_next_tasks ev c = (c1, r1) ->
  exists r2, get_next_tasks ev c1 = (c1, r2) /\ ans_sim r1 r2.
Proof.
  intros c c0 c1 r1 E Hnc H. pose proof (ensure_ws_init_after ev _ _ _ E) as Hi.
  assert (G : get_next_tasks ev c = get_next_tasks ev c0).
  { unfold get_next_tasks. rewrite (bind_step _ _ _ _ _ _ _ E). rewrite (bind_step _ _ _ _ _ _ _ (ensure_ws_inited ev c0 Hi)). reflexivity. }
  rewrite G in H. eapply query_idempotent; eassumption.
Qed.

End Blind.

(* ------------------------------------------------------------------ the two hypotheses are needed *)

(* an evaluator that reads __state: "peek" returns the staged list of the serialized workflow state *)
Definition q_ev (s : string) (ctx : dict) : evalres :=
  if String.eqb s "xs" then EvOk (JList [JInt 1; JInt 2])
  else if String.eqb s "peek" then
    EvOk (match dget "__state" ctx with
          | Some (JDict d) => match dget "staged" d with Some x => x | None => JNull end
          | _ => JNull
          end)
  else if String.eqb s "bad" then EvErr {| x_cls := "YaqlEvaluationException"; x_msg := "boom"; x_expr := true |}
  else EvOk JNull.
Definition q_task (act : json) (w : option items_spec) : task_spec :=
  {| ts_action := act; ts_input := JNull; ts_with := w; ts_delay := JNull; ts_join := JNull; ts_next := [] |}.
Definition q_spec : wf_spec :=
  {| wf_input := []; wf_vars := []; wf_output := [];
     wf_tasks := [("w", q_task (JStr "peek") (Some {| it_expr := "xs"; it_keys := None; it_concurrency := JNull |}));
                  ("t1", q_task (JStr "bad") None); ("t2", q_task JNull None)] |}.
Definition q_node (n : string) : gnode := {| n_id := n; n_barrier := JNull; n_splits := None; n_retry := JNull |}.
Definition q_fresh (g : graph) : cstate :=
  {| c_spec := q_spec; c_graph := g; c_inputs := []; c_parent := []; c_init := false;
     c_ws := empty_ws; c_errors := []; c_log := []; c_output := None |}.
(* a with-items task w whose action reads the bookkeeping; the workflow has just been started *)
Definition q_c0 : cstate := run_ops q_ev [OpRequest S_RUNNING] (q_fresh {| g_nodes := [q_node "w"]; g_edges := [] |}).

Definition q_actions (r : result (list offer)) : list (list json) :=
  match r with Val l => map (fun o => map a_action (o_actions o)) l | Exc _ => [] end.

(* REFUTED for an evaluator that reads __state: the first query renders the action before the item
   table exists, the second one after; the state is the same after both, the answers differ *)
Theorem query_not_idempotent_for_state_reading_expression :
  c_init q_c0 = true /\ no_cleanup_pending q_c0 /\
  let '(c1, r1) := get_next_tasks q_ev q_c0 in
  let '(c2, r2) := get_next_tasks q_ev c1 in
  c2 = c1 /\ q_actions r1 <> q_actions r2.
Proof.
  split; [reflexivity|]. split; [intros _; vm_compute; reflexivity|].
  destruct (get_next_tasks q_ev q_c0) as [c1 r1] eqn:E1. destruct (get_next_tasks q_ev c1) as [c2 r2] eqn:E2.
  vm_compute in E1. inversion E1; subst c1 r1; clear E1. vm_compute in E2. inversion E2; subst c2 r2; clear E2.
  split; [reflexivity|]. vm_compute. intro H. discriminate.
Qed.

(* a hand-made state (no history of API calls produces it: a clean-up entry exists only once the
   workflow has failed): running, t1 staged (its action fails to render) and t2 staged as clean-up *)
Definition q_stg (t : string) (rof : bool) : stg :=
  {| s_id := t; s_route := 0; s_in := [0]; s_prev := []; s_ready := true; s_retry := None; s_items := None;
     s_completed := false; s_run_on_fail := rof |}.
Definition q_c1 : cstate :=
  {| c_spec := q_spec; c_graph := {| g_nodes := [q_node "t1"; q_node "t2"]; g_edges := [] |};
     c_inputs := []; c_parent := []; c_init := true;
     c_ws := {| contexts := [[]]; routes := [[]]; sequence := []; staged := [q_stg "t1" false; q_stg "t2" true];
                wstatus := S_RUNNING; tasks := []; reruns := [] |};
     c_errors := []; c_log := []; c_output := None |}.

(* REFUTED when a clean-up entry is staged while the workflow runs: the first query fails the
   workflow and answers [], the second one, now in failed status, offers the clean-up task *)
Theorem query_not_idempotent_with_cleanup_staged :
  c_init q_c1 = true /\ ~ no_cleanup_pending q_c1 /\
  let '(c1, r1) := get_next_tasks q_ev q_c1 in
  let '(c2, r2) := get_next_tasks q_ev c1 in
  (match r1 with Val l => map o_id l | Exc _ => ["?"] end) = [] /\
  (match r2 with Val l => map o_id l | Exc _ => ["?"] end) = ["t2"].
Proof.
  split; [reflexivity|]. split.
  - intro H. assert (X : wstatus (c_ws q_c1) <> S_FAILED) by (vm_compute; discriminate).
    specialize (H X). vm_compute in H. discriminate.
  - destruct (get_next_tasks q_ev q_c1) as [c1 r1] eqn:E1. destruct (get_next_tasks q_ev c1) as [c2 r2] eqn:E2.
    vm_compute in E1. inversion E1; subst c1 r1; clear E1. vm_compute in E2. inversion E2; subst c2 r2; clear E2.
    split; reflexivity.
Qed.

(* non-vacuity of the theorem: a state-blind evaluator on the same with-items workflow *)
Definition q_ev_blind (s : string) (ctx : dict) : evalres :=
  if String.eqb s "xs" then EvOk (JList [JInt 1; JInt 2]) else EvOk (JStr s).

Lemma q_ev_blind_is_blind : state_blind q_ev_blind.
Proof. intros s a b _. reflexivity. Qed.

Example q_blind_query_creates_table_then_is_idempotent :
  let c0 := run_ops q_ev_blind [OpRequest S_RUNNING] (q_fresh {| g_nodes := [q_node "w"]; g_edges := [] |}) in
  let '(c1, r1) := get_next_tasks q_ev_blind c0 in
  let '(c2, r2) := get_next_tasks q_ev_blind c1 in
  map s_items (staged (c_ws c0)) = [None] /\ map s_items (staged (c_ws c1)) = [Some [S_UNSET; S_UNSET]] /\
  c2 = c1 /\ q_actions r1 = q_actions r2 /\ q_actions r1 = [[JStr "peek"; JStr "peek"]].
Proof. vm_compute. repeat split. Qed.

(* the definitions, spelled out *)
Lemma state_blind_unfold : forall ev, state_blind ev <-> (forall s a b, sim a b -> ev s a = ev s b).
Proof. intros; split; intro H; exact H. Qed.
Lemma sim_unfold : forall a b,
  sim a b <-> Forall2 (fun p q => fst p = fst q /\ (fst p = "__state" \/ snd p = snd q)) a b.
Proof. intros; split; intro H; exact H. Qed.
Lemma ans_sim_unfold : forall r r',
  ans_sim r r' <-> match r, r' with
                   | Val l, Val l' => Forall2 offer_sim l l'
                   | Exc e, Exc e' => e = e'
                   | _, _ => False
                   end.
Proof. intros; split; intro H; exact H. Qed.
Lemma offer_sim_unfold : forall o o',
  offer_sim o o' <->
  (o_id o' = o_id o /\ o_route o' = o_route o /\ o_actions o' = o_actions o /\ o_delay o' = o_delay o /\
   o_items_count o' = o_items_count o /\ o_concurrency o' = o_concurrency o /\ sim (o_ctx o) (o_ctx o')).
Proof. intros; split; intro H; exact H. Qed.
