(* RecordedProofs.v -- C11, second sentence: an expression that fails to evaluate at run time is RECORDED
   (an error entry naming the task / transition concerned), the workflow FAILS (or stays canceled), and
   NOTHING MORE IS OFFERED (but clean-up tasks flagged for a failed workflow).
   Plan: (1) what the engine's own request "fail the workflow" does, from every lifecycle status;
   (2) each handler that contains an evaluation failure records it and settles the workflow;
   (3) error entries are never lost and a settled workflow stays settled within a call, so (2) lifts to whole
   API calls; (4) get_next_tasks returns nothing in the call in which a staged task fails to render, and
   nothing but clean-up afterwards. *)
From Coq Require Import String List Bool ZArith Arith Lia.
From Orq Require Import GenStatuses GenEvents GenTables GenSpecMeta Base State Machines Codec Conductor Decode Api.
From Orq Require Import F_tables Hoare ValuePost StatusReach C04Proofs C05Proofs C11Proofs InertProofs OffersProofs RetryProofs.
Import ListNotations.
Open Scope string_scope.
Open Scope monad_scope.

Create HintDb presf.

(* ------------------------------------------------------------------ (1) failing the workflow *)

(* failed, or canceled: the two statuses a failure request leaves the workflow in, both final *)
Definition settled (c : cstate) : Prop := wstatus (c_ws c) = S_FAILED \/ wstatus (c_ws c) = S_CANCELED.

Definition lifecycle (c : cstate) : Prop := In (wstatus (c_ws c)) wf_statuses.

Lemma wev_failed_in_vocab : wev_in_vocab S_FAILED = true.
Proof. vm_compute; reflexivity. Qed.

(* the workflow machine on the event "failed": failed from every lifecycle status but canceled (which stays) *)
Lemma wpwe_failed : forall g w, In (wstatus w) wf_statuses ->
  wf_process_workflow_event g w S_FAILED
  = Val (if status_eqb (wstatus w) S_CANCELED then S_CANCELED else S_FAILED, []).
Proof.
  intros g w H. unfold wf_process_workflow_event, wf_workflow_event_name. cbv zeta.
  change (status_in S_FAILED (app PAUSE_STATUSES CANCEL_STATUSES)) with false.
  change (status_in S_FAILED [S_RUNNING; S_RESUMING]) with false. cbv iota.
  rewrite andb_false_r. cbn [andb]. cbv iota.
  remember (wstatus w) as s eqn:Es. clear Es.
  destruct s; simpl in H; try (exfalso; intuition discriminate); vm_compute; reflexivity.
Qed.

Lemma with_seq_fields : forall c s, c_errors (with_seq c s) = c_errors c /\ wstatus (c_ws (with_seq c s)) = wstatus (c_ws c)
  /\ c_graph (with_seq c s) = c_graph c /\ staged (c_ws (with_seq c s)) = staged (c_ws c).
Proof. intros; repeat split. Qed.

(* the request the handlers make: it never touches the error log; it leaves the workflow failed, or canceled if
   it was canceled -- and only in that last case does it answer with an exception (the documented refusal) *)
Lemma fail_request : forall c c' r, lifecycle c -> request_status_core S_FAILED c = (c', r) ->
  c_errors c' = c_errors c /\ staged (c_ws c') = staged (c_ws c) /\
  ((wstatus (c_ws c) = S_CANCELED /\ wstatus (c_ws c') = S_CANCELED) \/
   (wstatus (c_ws c) <> S_CANCELED /\ wstatus (c_ws c') = S_FAILED /\ r = Val tt)).
Proof.
  intros c c' r Hl H. rewrite request_status_core_eq in H.
  destruct (push_loop_outcome S_FAILED c) as [[e Hp]|[s2 [Hp [_ _]]]].
  - (* the loop cannot raise: the event name is in the vocabulary *)
    exfalso.
    destruct (push_loop_run S_FAILED (ws_tasks_by_status (c_ws c) ACTIVE_STATUSES) (sequence (c_ws c)) wev_failed_in_vocab)
      with (l := ws_tasks_by_status (c_ws c) ACTIVE_STATUSES) (c := c) as [s3 [Hrun _]].
    + intros j rj Hj. apply tasks_by_status_In; exact Hj.
    + apply incl_refl.
    + apply tasks_by_status_NoDup.
    + intros j rj Hj. apply (tasks_by_status_In _ _ _ _ Hj).
    + apply moved_refl.
    + rewrite Hrun in Hp. inversion Hp.
  - unfold bind at 1 in H. rewrite Hp in H. unfold request_tail in H.
    set (c1 := with_seq c s2) in *.
    assert (Hl1 : In (wstatus (c_ws c1)) wf_statuses) by exact Hl.
    unfold wf_workflow_event_M in H. unfold bind at 1 in H. rewrite (wpwe_failed (c_graph c1) (c_ws c1) Hl1) in H.
    cbv beta iota in H. change (wstatus (c_ws c1)) with (wstatus (c_ws c)) in H.
    change (log_unreachable []) with (@ret unit tt) in H. unfold bind at 1, ret at 1 in H. cbv beta iota in H.
    unfold bind at 1, getws at 1 in H. cbv beta iota zeta in H. cbn [wstatus c_ws set_ws ws_set_status] in H.
    change (status_eqb S_FAILED S_PAUSED) with false in H. change (status_eqb S_FAILED S_CANCELED) with false in H.
    cbn [andb] in H. cbv iota in H.
    destruct (status_eqb (wstatus (c_ws c)) S_CANCELED) eqn:Ec.
    + apply status_eqb_eq in Ec. rewrite Ec in H. change (status_eqb S_FAILED S_CANCELED) with false in H.
      change (status_eqb S_CANCELED S_CANCELED) with true in H. cbn [negb andb] in H. cbv iota in H.
      unfold bind at 1 in H. rewrite restore_loop_run in H. inversion H; subst c' r.
      split; [reflexivity|]. split; [reflexivity|]. left. split; [exact Ec|reflexivity].
    + assert (Hne : wstatus (c_ws c) <> S_CANCELED) by (intro E; rewrite E in Ec; discriminate).
      assert (Hno : negb (status_eqb S_FAILED (wstatus (c_ws c))) && status_eqb (wstatus (c_ws c)) S_FAILED = false).
      { destruct (wstatus (c_ws c)); reflexivity. }
      rewrite Hno in H. inversion H; subst c' r. split; [reflexivity|]. split; [reflexivity|]. right. auto.
Qed.

Lemma fail_request_settled : forall c c' r, lifecycle c -> request_status_core S_FAILED c = (c', r) ->
  settled c' /\ c_errors c' = c_errors c.
Proof.
  intros c c' r Hl H. destruct (fail_request _ _ _ Hl H) as [He [_ [[_ Hc]|[_ [Hf _]]]]]; split; auto; [right|left]; assumption.
Qed.

(* ------------------------------------------------------------------ (2) error entries and the relation of a call *)

Definition entry_of (e : exn) (task : option string) (route : option nat) (trans : option trid) : errent :=
  mk_errent "error" (x_cls e ++ ": " ++ x_msg e) task route trans JNull.

(* recorded: the error log holds the entry (the log drops an entry equal to one it already has) *)
Definition recorded (c : cstate) (en : errent) : Prop := existsb (errent_eqb en) (c_errors c) = true.

(* entries that do not stem from a contained failure: the note beside a failed action, and the
   unreachable-join note the workflow machine asks for when it fails the workflow itself *)
Definition note_failed : string := "Execution failed. See result for details.".
Definition handled_entry (en : errent) : Prop :=
  er_message en <> note_failed /\ starts_with "UnreachableJoinError: " (er_message en) = false.

Lemma lifecycle_reach : forall s u, wf_reach s u -> In s wf_statuses -> In u wf_statuses.
Proof.
  intros s u H; induction H as [s|s e t u Hs Hr IH|s u Hc Hn Hr IH]; intro Hin; [exact Hin| |].
  - apply IH. eapply F_wf_closed; exact Hs.
  - apply IH. simpl; tauto.
Qed.

Lemma settled_reach : forall c c', Rst c c' -> settled c -> settled c'.
Proof.
  intros c c' R [H|H]; unfold Rst in R; rewrite H in R;
    [left; apply reach_from_failed; exact R|right; apply reach_from_canceled; exact R].
Qed.

(* what one call may do: move the status along the table, append error entries, and -- if an appended entry stems
   from a contained failure -- leave the workflow settled *)
Definition Rf (c c' : cstate) : Prop :=
  Rst c c' /\ exists l, c_errors c' = app (c_errors c) l /\
                        (lifecycle c -> (exists en, In en l /\ handled_entry en) -> settled c').

Lemma Rf_refl : forall c, Rf c c.
Proof. intro c; split; [apply Rst_refl|]. exists []. rewrite app_nil_r. split; [reflexivity|]. intros _ [en [[] _]]. Qed.
Lemma Rf_trans : forall a b c, Rf a b -> Rf b c -> Rf a c.
Proof.
  intros a b c [R1 [l1 [E1 S1]]] [R2 [l2 [E2 S2]]]. split; [eapply Rst_trans; eassumption|].
  exists (app l1 l2). split; [rewrite E2, E1, app_assoc; reflexivity|]. intros Hl [en [Hin Hh]].
  apply in_app_or in Hin. destruct Hin as [Hin|Hin].
  - eapply settled_reach; [exact R2|]. apply S1; [exact Hl|exists en; auto].
  - apply S2; [|exists en; auto]. unfold lifecycle in *. eapply lifecycle_reach; [exact R1|exact Hl].
Qed.

(* no entry appended: only the status relation matters *)
Lemma Rf_quiet : forall c c', Rst c c' -> c_errors c' = c_errors c -> Rf c c'.
Proof. intros c c' R E; split; [exact R|]. exists []. rewrite app_nil_r. split; [exact E|]. intros _ [en [[] _]]. Qed.

Lemma Rf_errors_prefix : forall c c' en, Rf c c' -> recorded c en -> recorded c' en.
Proof.
  intros c c' en [_ [l [E _]]] H. unfold recorded in *. rewrite E, existsb_app, H. reflexivity.
Qed.

Lemma errent_eqb_refl : forall en, er_result en = None -> errent_eqb en en = true.
Proof.
  intros [ty msg t r tr res] Hres. simpl in Hres. subst res. unfold errent_eqb; simpl.
  rewrite !String.eqb_refl. cbn [andb].
  assert (O1 : opt_eqb String.eqb t t = true) by (destruct t; simpl; [apply String.eqb_refl|reflexivity]).
  assert (O2 : opt_eqb Nat.eqb r r = true) by (destruct r; simpl; [apply Nat.eqb_refl|reflexivity]).
  assert (O3 : opt_eqb trid_eqb tr tr = true).
  { destruct tr as [[a b]|]; simpl; [|reflexivity]. unfold trid_eqb; simpl. rewrite String.eqb_refl, Nat.eqb_refl; reflexivity. }
  rewrite O1, O2, O3. reflexivity.
Qed.

(* logging: the workflow state is untouched, the entry is in the log afterwards, nothing else is appended *)
Lemma log_error_spec : forall e t r tr c, exists c1,
  log_error e t r tr c = (c1, Val tt) /\ c_ws c1 = c_ws c /\ recorded c1 (entry_of e t r tr) /\
  (c_errors c1 = c_errors c \/ c_errors c1 = app (c_errors c) [entry_of e t r tr]).
Proof.
  intros e t r tr c. unfold log_error, log_entry_error, modify. cbv zeta. fold (entry_of e t r tr).
  destruct (existsb (errent_eqb (entry_of e t r tr)) (c_errors c)) eqn:E.
  - exists c. repeat split; auto.
  - eexists. split; [reflexivity|]. split; [reflexivity|]. split; [|right; reflexivity].
    unfold recorded; simpl. rewrite existsb_app. simpl. rewrite errent_eqb_refl by reflexivity. rewrite orb_true_r. reflexivity.
Qed.

(* computations that only log *)
Definition logs_only (m : M unit) : Prop :=
  forall c, exists c1 l, m c = (c1, Val tt) /\ c_ws c1 = c_ws c /\ c_errors c1 = app (c_errors c) l.

Lemma logs_only_log_error : forall e t r tr, logs_only (log_error e t r tr).
Proof.
  intros e t r tr c. destruct (log_error_spec e t r tr c) as [c1 [H1 [H2 [_ [H3|H3]]]]].
  - exists c1, []. rewrite app_nil_r. auto.
  - exists c1, [entry_of e t r tr]. auto.
Qed.

Lemma logs_only_log_errors : forall es t r tr, logs_only (log_errors es t r tr).
Proof.
  intros es t r tr. unfold log_errors. induction es as [|e es IH]; intro c; cbn [forM_].
  - exists c, []. rewrite app_nil_r. auto.
  - destruct (logs_only_log_error e t r tr c) as [c1 [l1 [H1 [W1 E1]]]]. destruct (IH c1) as [c2 [l2 [H2 [W2 E2]]]].
    exists c2, (app l1 l2). unfold bind. rewrite H1, H2. split; [reflexivity|]. split; [congruence|]. rewrite E2, E1, app_assoc; reflexivity.
Qed.

Lemma log_errors_records : forall es t r tr c c1 res, log_errors es t r tr c = (c1, res) ->
  forall e, In e es -> recorded c1 (entry_of e t r tr).
Proof.
  intros es t r tr. unfold log_errors. induction es as [|e0 es IH]; intros c c1 res H e Hin; [destruct Hin|].
  cbn [forM_] in H. destruct (log_error_spec e0 t r tr c) as [ca [Ha [_ [Ra _]]]]. unfold bind in H. rewrite Ha in H.
  destruct Hin as [<-|Hin]; [|eapply IH; eassumption].
  destruct (logs_only_log_errors es t r tr ca) as [cb [l [Hb [_ Eb]]]]. unfold log_errors in Hb. rewrite Hb in H. inversion H; subst.
  unfold recorded in *. rewrite Eb, existsb_app, Ra. reflexivity.
Qed.

(* appending only notes *)
Definition Rben (c c' : cstate) : Prop :=
  exists l, c_errors c' = app (c_errors c) l /\ Forall (fun en => ~ handled_entry en) l.
Lemma Rben_refl : forall c, Rben c c.
Proof. intro c; exists []; rewrite app_nil_r; split; [reflexivity|constructor]. Qed.
Lemma Rben_trans : forall a b c, Rben a b -> Rben b c -> Rben a c.
Proof.
  intros a b c [l1 [E1 F1]] [l2 [E2 F2]]. exists (app l1 l2). split; [rewrite E2, E1, app_assoc; reflexivity|].
  apply Forall_app; split; assumption.
Qed.

Lemma Rben_same : forall c c', c_errors c' = c_errors c -> Rben c c'.
Proof. intros c c' E; exists []; rewrite app_nil_r; split; [exact E|constructor]. Qed.

Lemma Rf_of_ben : forall c c', Rst c c' -> Rben c c' -> Rf c c'.
Proof.
  intros c c' R [l [E F]]. split; [exact R|]. exists l. split; [exact E|]. intros _ [en [Hin Hh]].
  rewrite Forall_forall in F. exfalso. exact (F en Hin Hh).
Qed.

Lemma pben_log_unreachable : forall l, preserves Rben (log_unreachable l).
Proof.
  intro l. unfold log_unreachable. apply (preserves_forM _ Rben_refl Rben_trans). intros s c c' r H.
  match type of H with log_error ?e ?t ?ro ?tr _ = _ => destruct (log_error_spec e t ro tr c) as [c1 [H1 [_ [_ [E|E]]]]] end;
    rewrite H1 in H; inversion H; subst c'.
  - exists []. rewrite app_nil_r. split; [exact E|constructor].
  - eexists. split; [exact E|]. constructor; [|constructor]. intros [_ Hh]. unfold entry_of, mk_errent in Hh. simpl in Hh. discriminate Hh.
Qed.

Lemma pben_request_status_core : forall st, preserves Rben (request_status_core st).
Proof.
  intro st. unfold request_status_core, set_rec_status.
  pw Rben_refl Rben_trans
     ltac:(first [ apply (preserves_modws Rben); intro; apply Rben_same; reflexivity | apply pben_log_unreachable
                 | intros c0 c1 r0 H0; unfold wf_workflow_event_M in H0;
                   destruct (wf_process_workflow_event (c_graph c0) (c_ws c0) st) as [[? ?]|?]; inversion H0; subst;
                   apply Rben_same; reflexivity ]).
Qed.

Lemma Rf_request_status_core : forall st, preserves Rf (request_status_core st).
Proof.
  intros st c c' r H. apply Rf_of_ben; [eapply pres_request_status_core; exact H|eapply pben_request_status_core; exact H].
Qed.

(* the unit every handler is built from: log, then fail the workflow.  Whatever was logged, the workflow is
   settled afterwards (and stays so through the continuation) *)
Lemma unit_fail : forall A (pre : M unit) (k : unit -> M A), logs_only pre -> (forall u, preserves Rf (k u)) ->
  preserves Rf (pre ;;; (u <- request_status_core S_FAILED ;; k u)).
Proof.
  intros A pre k Hpre Hk c c' r H. destruct (Hpre c) as [c1 [l [H1 [W1 E1]]]].
  unfold bind at 1 in H. rewrite H1 in H.
  assert (Step : forall c2 r2, request_status_core S_FAILED c1 = (c2, r2) -> Rf c c2).
  { intros c2 r2 H2. split.
    - unfold Rst. rewrite <- W1. eapply pres_request_status_core; exact H2.
    - destruct (pben_request_status_core _ _ _ _ H2) as [l2 [E2 _]].
      exists (app l l2). split; [rewrite E2, E1, app_assoc; reflexivity|].
      intros Hl _. apply (fail_request_settled c1 c2 r2); [unfold lifecycle in *; rewrite W1; exact Hl|exact H2]. }
  apply bind_inv in H. destruct H as [[c2 [u [E2 H]]]|[x [E2 ->]]].
  - eapply Rf_trans; [eapply Step; exact E2|eapply Hk; exact H].
  - eapply Step; exact E2.
Qed.

Lemma unit_fail0 : forall (pre : M unit), logs_only pre -> preserves Rf (pre ;;; request_status_core S_FAILED).
Proof.
  intros pre Hpre c c' r H. destruct (Hpre c) as [c1 [l [H1 [W1 E1]]]].
  unfold bind at 1 in H. rewrite H1 in H. split.
  - unfold Rst. rewrite <- W1. eapply pres_request_status_core; exact H.
  - destruct (pben_request_status_core _ _ _ _ H) as [l2 [E2 _]].
    exists (app l l2). split; [rewrite E2, E1, app_assoc; reflexivity|].
    intros Hl _. apply (fail_request_settled c1 c' r); [unfold lifecycle in *; rewrite W1; exact Hl|exact H].
Qed.

(* ------------------------------------------------------------------ (3) every function of the engine *)

Ltac fw leaf :=
  lazymatch goal with
  | |- preserves Rf (bind (log_error ?e ?t ?r ?tr) (fun _ => bind (request_status_core S_FAILED) ?k)) =>
      apply (unit_fail _ (log_error e t r tr) k (logs_only_log_error e t r tr)); intro; fw leaf
  | |- preserves Rf (bind (log_errors ?es ?t ?r ?tr) (fun _ => bind (request_status_core S_FAILED) ?k)) =>
      apply (unit_fail _ (log_errors es t r tr) k (logs_only_log_errors es t r tr)); intro; fw leaf
  | |- preserves Rf (bind (log_errors ?es ?t ?r ?tr) (fun _ => request_status_core S_FAILED)) =>
      apply (unit_fail0 (log_errors es t r tr) (logs_only_log_errors es t r tr))
  | |- preserves _ (ret _) => apply (preserves_ret _ Rf_refl)
  | |- preserves _ (raise _) => apply (preserves_raise _ Rf_refl)
  | |- preserves _ get => apply (preserves_get _ Rf_refl)
  | |- preserves _ getws => apply (preserves_getws _ Rf_refl)
  | |- preserves _ (bind _ _) => apply (preserves_bind _ Rf_trans); [ fw leaf | intro; fw leaf ]
  | |- preserves _ (try_catch _ _) => apply (preserves_try_catch _ Rf_trans); [ fw leaf | intro; fw leaf ]
  | |- preserves _ (try_catch_expr _ _) => apply (preserves_try_catch_expr _ Rf_trans); [ fw leaf | intro; fw leaf ]
  | |- preserves _ (mapM _ _) => apply (preserves_mapM _ Rf_refl Rf_trans); intro; fw leaf
  | |- preserves _ (forM_ _ _) => apply (preserves_forM _ Rf_refl Rf_trans); intro; fw leaf
  | |- preserves _ (lift_res _) => apply (preserves_lift_res _ Rf_refl)
  | |- preserves _ (lift_eval _) => apply (preserves_lift_eval _ Rf_refl)
  | |- preserves _ (evaluate _ _ _) => apply (state_pure_preserves _ Rf_refl); apply evaluate_pure
  | |- preserves _ (match ?x with _ => _ end) => destruct x; fw leaf
  | |- preserves _ ?m =>
      first [ solve [leaf]
            | let h := head_of m in progress (unfold h); fw leaf
            | progress (cbv beta); fw leaf
            | idtac ]
  end.

Lemma Rf_modws : forall f, (forall w, wstatus (f w) = wstatus w) -> preserves Rf (modws f).
Proof.
  intros f Hf. apply (preserves_modws Rf); intro c. apply Rf_quiet; [|reflexivity].
  unfold Rst; simpl. rewrite Hf. apply wr_refl.
Qed.

Section Everywhere.
Variable ev : string -> dict -> evalres.

Ltac leaf :=
  first
    [ apply Rf_modws; intro; first [reflexivity | apply ws_update_rec_status | apply ws_remove_staged_status]
    | apply (preserves_modify Rf); intro; apply Rf_quiet; [unfold Rst; simpl; apply wr_refl|reflexivity]
    | assumption
    | match goal with IH : forall _ _ _, preserves _ _ |- _ => apply IH end
    | match goal with IH : forall _ _, preserves _ _ |- _ => apply IH end
    | match goal with IH : forall _ _ _ _, preserves _ _ |- _ => apply IH end
    | eauto 3 with presf ].
Ltac walk := fw leaf.

Lemma pf_wf_workflow_event : forall st, preserves Rf (wf_workflow_event_M st).
Proof.
  intros st c c' r H. apply Rf_quiet; [eapply pres_wf_workflow_event; exact H|].
  unfold wf_workflow_event_M in H. destruct (wf_process_workflow_event (c_graph c) (c_ws c) st) as [[n u]|e]; inversion H; reflexivity.
Qed.
Hint Resolve pf_wf_workflow_event : presf.
Lemma pf_wf_task_event : forall t route st, preserves Rf (wf_task_event_M t route st).
Proof.
  intros t route st c c' r H. apply Rf_quiet; [eapply pres_wf_task_event; exact H|].
  unfold wf_task_event_M in H. destruct (wf_process_task_event (c_graph c) (c_ws c) t route st) as [[n u]|e]; inversion H; reflexivity.
Qed.
Hint Resolve pf_wf_task_event : presf.
Lemma pf_log_unreachable : forall l, preserves Rf (log_unreachable l).
Proof. intros l c c' r H. apply Rf_of_ben; [eapply pres_log_unreachable; exact H|eapply pben_log_unreachable; exact H]. Qed.
Hint Resolve pf_log_unreachable : presf.
Lemma pf_request_status_core : forall st, preserves Rf (request_status_core st).
Proof. exact Rf_request_status_core. Qed.
Hint Resolve pf_request_status_core : presf.
Lemma pf_upd_rec : forall i f, preserves Rf (upd_rec i f).
Proof. intros; unfold upd_rec; walk. Qed.
Hint Resolve pf_upd_rec : presf.
Lemma pf_set_rec_status : forall i s, preserves Rf (set_rec_status i s).
Proof. intros; unfold set_rec_status; walk. Qed.
Hint Resolve pf_set_rec_status : presf.
Lemma pf_get_rec : forall i, preserves Rf (get_rec i).
Proof. intros; unfold get_rec; walk. Qed.
Hint Resolve pf_get_rec : presf.
Lemma pf_render_input : forall specs rt rolling errs, preserves Rf (render_input ev specs rt rolling errs).
Proof. induction specs as [|[n d] specs IH]; intros; simpl; walk. Qed.
Hint Resolve pf_render_input : presf.
Lemma pf_render_vars : forall specs rolling rendered errs, preserves Rf (render_vars ev specs rolling rendered errs).
Proof. induction specs as [|[n d] specs IH]; intros; simpl; walk. Qed.
Hint Resolve pf_render_vars : presf.
Lemma pf_ensure_ws : preserves Rf (ensure_ws ev).
Proof. unfold ensure_ws; walk. Qed.
Hint Resolve pf_ensure_ws : presf.
Theorem pf_request_workflow_status : forall st, preserves Rf (request_workflow_status ev st).
Proof. intros; unfold request_workflow_status; walk. Qed.
Lemma pf_get_task_context : forall idxs, preserves Rf (get_task_context idxs).
Proof. intros; unfold get_task_context; walk. Qed.
Hint Resolve pf_get_task_context : presf.
Lemma pf_setup_retry : forall t idxs, preserves Rf (setup_retry ev t idxs).
Proof. intros; unfold setup_retry; walk. Qed.
Hint Resolve pf_setup_retry : presf.
Lemma pf_add_task_state : forall t r i p, preserves Rf (add_task_state ev t r i p).
Proof. intros; unfold add_task_state; walk. Qed.
Hint Resolve pf_add_task_state : presf.
Lemma pf_evaluate_route : forall e r, preserves Rf (evaluate_route e r).
Proof. intros; unfold evaluate_route; walk. Qed.
Hint Resolve pf_evaluate_route : presf.
Lemma pf_evaluate_task_retry : forall r ctx, preserves Rf (evaluate_task_retry ev r ctx).
Proof. intros; unfold evaluate_task_retry; walk. Qed.
Hint Resolve pf_evaluate_task_retry : presf.
Lemma pf_finalize_context : forall ts e ctx, preserves Rf (finalize_context ev ts e ctx).
Proof. intros; unfold finalize_context; walk. Qed.
Hint Resolve pf_finalize_context : presf.
Lemma pf_process_transition : forall t route idx ts ctx e, preserves Rf (process_transition ev t route idx ts ctx e).
Proof. intros; unfold process_transition; walk. Qed.
Hint Resolve pf_process_transition : presf.

(* the note beside a failed action is not a contained failure *)
Lemma pf_logfail : forall t evt, preserves Rf (uts_logfail t evt).
Proof.
  intros t evt c c' r H. unfold uts_logfail in H. destruct (status_eqb (ev_status evt) S_FAILED); [|inversion H; apply Rf_refl].
  unfold log_entry_error, modify in H. inversion H; subst c' r. cbv zeta.
  destruct (existsb _ (c_errors c)); [apply Rf_refl|]. apply Rf_of_ben; [unfold Rst; simpl; apply wr_refl|].
  eexists. split; [reflexivity|]. constructor; [|constructor]. intros [Hm _]. apply Hm. reflexivity.
Qed.

Lemma pf_update_task_state_fuel : forall fuel t route evt, preserves Rf (update_task_state_fuel ev fuel t route evt).
Proof.
  induction fuel as [|fuel IH]; intros t route evt; [apply (preserves_raise _ Rf_refl)|].
  rewrite uts_unfold. unfold uts_body, uts_main, uts_machine, uts_sel1, uts_sel2, uts_need_staged, uts_unstage, uts_item,
    uts_setst, uts_retrying, uts_completion, uts_tail, uts_queue, uts_call.
  pose proof pf_logfail. walk.
Qed.
Theorem pf_update_task_state : forall t route evt, preserves Rf (update_task_state ev t route evt).
Proof. intros; unfold update_task_state; apply pf_update_task_state_fuel. Qed.

End Everywhere.

(* ------------------------------------------------------------------ get_next_tasks: the rendering loop *)

Definition Re (c c' : cstate) : Prop := c_errors c' = c_errors c /\ wstatus (c_ws c') = wstatus (c_ws c).
Lemma Re_refl : forall c, Re c c.
Proof. intro; split; reflexivity. Qed.
Lemma Re_trans : forall a b c, Re a b -> Re b c -> Re a c.
Proof. intros a b c [A1 A2] [B1 B2]; split; congruence. Qed.

Section NextTasks.
Variable ev : string -> dict -> evalres.

Lemma pe_next_task_for : forall s, preserves Re (next_task_for ev s).
Proof.
  intros; unfold next_task_for, render_task, get_task_context.
  pw Re_refl Re_trans ltac:(first [apply (preserves_modws Re); intro; split; reflexivity]).
Qed.

(* the protected preparation of one staged task *)
Definition gnt_elem (s : stg) : M (option offer * bool) :=
  try_catch (o <- next_task_for ev s ;; ret (o, false))
            (fun e => log_error e (Some (s_id s)) (Some (s_route s)) None ;;; ret (None, true)).

(* flag false: the preparation returned and nothing was logged; flag true: it raised, and the failure is recorded
   with the task's id and route *)
Lemma gnt_elem_spec : forall s c c1 res, gnt_elem s c = (c1, res) ->
  exists v, res = Val v /\ wstatus (c_ws c1) = wstatus (c_ws c) /\
    ((snd v = false /\ c_errors c1 = c_errors c /\ next_task_for ev s c = (c1, Val (fst v))) \/
     (v = (None, true) /\ exists c0 e, next_task_for ev s c = (c0, Exc e) /\
        recorded c1 (entry_of e (Some (s_id s)) (Some (s_route s)) None) /\
        exists l, c_errors c1 = app (c_errors c) l)).
Proof.
  intros s c c1 res H. unfold gnt_elem, try_catch in H. unfold bind at 1 in H.
  destruct (next_task_for ev s c) as [c0 [o|e]] eqn:En.
  - inversion H; subst. exists (o, false). destruct (pe_next_task_for s _ _ _ En) as [E1 E2].
    split; [reflexivity|]. split; [exact E2|]. left. auto.
  - destruct (pe_next_task_for s _ _ _ En) as [E1 E2].
    destruct (log_error_spec e (Some (s_id s)) (Some (s_route s)) None c0) as [ca [Ha [Wa [Ra Ea]]]].
    unfold bind in H. rewrite Ha in H. inversion H; subst. exists (None, true). split; [reflexivity|].
    split; [rewrite Wa; exact E2|]. right. split; [reflexivity|]. exists c0, e. split; [reflexivity|]. split; [exact Ra|].
    destruct Ea as [Ea|Ea]; [exists []; rewrite app_nil_r; congruence|eexists; rewrite Ea, E1; reflexivity].
Qed.

Lemma gnt_loop_spec : forall todo c c' res, mapM gnt_elem todo c = (c', res) ->
  exists rs l, res = Val rs /\ wstatus (c_ws c') = wstatus (c_ws c) /\ c_errors c' = app (c_errors c) l /\
    (existsb snd rs = false -> l = []) /\
    Forall2 (fun s v => snd v = true ->
               exists cx c0 e, next_task_for ev s cx = (c0, Exc e) /\
                               recorded c' (entry_of e (Some (s_id s)) (Some (s_route s)) None)) todo rs.
Proof.
  induction todo as [|s todo IH]; intros c c' res H.
  - inversion H; subst. exists [], []. rewrite app_nil_r. repeat split; auto.
  - cbn [mapM] in H. apply bind_inv in H. destruct H as [[c1 [v [E1 H]]]|[x [E1 ->]]].
    2: { destruct (gnt_elem_spec _ _ _ _ E1) as [v [Hv _]]. discriminate Hv. }
    destruct (gnt_elem_spec _ _ _ _ E1) as [v' [Hv [W1 Hd]]]. inversion Hv; subst v'.
    apply bind_inv in H. destruct H as [[c2 [vs [E2 H]]]|[x [E2 ->]]].
    2: { destruct (IH _ _ _ E2) as [rs [l [Hr _]]]. discriminate Hr. }
    destruct (IH _ _ _ E2) as [rs [l2 [Hr [W2 [Er [Hn F2]]]]]]. inversion Hr; subst vs. inversion H; subst c' res.
    assert (Pre : exists l1, c_errors c1 = app (c_errors c) l1 /\ (snd v = false -> l1 = [])).
    { destruct Hd as [[Hf [He _]]|[Hv' [_ [_ [_ [_ [l1 El]]]]]]].
      - exists []. rewrite app_nil_r. auto.
      - exists l1. split; [exact El|]. subst v. simpl. discriminate. }
    destruct Pre as [l1 [E1' N1]].
    exists (v :: rs), (app l1 l2). split; [reflexivity|]. split; [congruence|]. split; [rewrite Er, E1', app_assoc; reflexivity|].
    split.
    + simpl. intro Hx. apply orb_false_elim in Hx. destruct Hx as [Hx1 Hx2]. rewrite (N1 Hx1), (Hn Hx2). reflexivity.
    + constructor; [|exact F2]. intro Hs. destruct Hd as [[Hf _]|[_ [c0 [e [En [Rc _]]]]]]; [congruence|].
      exists c, c0, e. split; [exact En|]. unfold recorded in *. rewrite Er, existsb_app, Rc. reflexivity.
Qed.

(* the whole call *)
Theorem get_next_tasks_spec : forall c c' res, c_init c = true -> get_next_tasks ev c = (c', res) ->
  Rf c c' /\
  (forall offers, res = Val offers -> c_errors c' <> c_errors c -> offers = [] /\ (lifecycle c -> settled c')).
Proof.
  intros c c' res Hi H. unfold get_next_tasks in H.
  rewrite (bind_step _ _ _ _ _ _ _ (ensure_ws_inited ev c Hi)) in H.
  rewrite (bind_step _ _ _ _ _ _ _ (eq_refl : getws c = (c, Val (c_ws c)))) in H. cbv zeta in H.
  match type of H with (if ?b then _ else _) _ = _ => destruct b end.
  { inversion H; subst. split; [apply Rf_refl|]. intros offers _ Hne. exfalso; apply Hne; reflexivity. }
  fold gnt_elem in H.
  match type of H with bind (mapM ?f ?todo) _ _ = _ => change f with gnt_elem in H; set (td := todo) in * end.
  apply bind_inv in H. destruct H as [[c1 [rs [E1 H]]]|[x [E1 ->]]].
  2: { destruct (gnt_loop_spec _ _ _ _ E1) as [rs [l [Hr _]]]. discriminate Hr. }
  destruct (gnt_loop_spec _ _ _ _ E1) as [rs' [l [Hr [W1 [El [Hn _]]]]]]. inversion Hr; subst rs'.
  destruct (existsb snd rs) eqn:Ex.
  - assert (U : preserves Rf (request_status_core S_FAILED ;;; ret (@nil offer))).
    { intros cx cy ry Hx. apply bind_inv in Hx. destruct Hx as [[cz [u [Ez Hx]]]|[x [Ez _]]];
        [inversion Hx; subst|]; eapply Rf_request_status_core; exact Ez. }
    assert (S : lifecycle c -> settled c').
    { intro Hl. apply bind_inv in H. destruct H as [[cz [u [Ez H]]]|[x [Ez _]]]; [inversion H; subst|];
        (eapply fail_request_settled; [unfold lifecycle in *; rewrite W1; exact Hl|exact Ez]). }
    destruct (U _ _ _ H) as [R2 [l2 [E2 _]]]. split.
    + split; [unfold Rst in *; rewrite W1 in R2; exact R2|]. exists (app l l2).
      split; [rewrite E2, El, app_assoc; reflexivity|]. intros Hl _. exact (S Hl).
    + intros offers -> _. apply bind_inv in H. destruct H as [[cz [u [Ez H]]]|[x [Ez Hx]]]; [|discriminate Hx].
      inversion H. split; [reflexivity|exact S].
  - inversion H; subst c' res. rewrite (Hn eq_refl), app_nil_r in El. split.
    + apply Rf_quiet; [unfold Rst; rewrite W1; apply wr_refl|exact El].
    + intros offers _ Hne. exfalso; apply Hne; exact El.
Qed.

End NextTasks.

(* ------------------------------------------------------------------ the handler sites, generically *)

Section Sites.
Variable ev : string -> dict -> evalres.

(* (a)+(b) at a guarded site: if the guarded computation ends in an exception, the handler records it under the
   site's task / route / transition and the workflow is settled; the handler itself answers with its default, or
   -- only when the workflow was canceled -- with the documented refusal of the failure request *)
Lemma guarded_site : forall A (m : M A) t r tr (d : A) c c0 e c' res,
  m c = (c0, Exc e) ->
  try_catch m (fun x => log_error x t r tr ;;; request_status_core S_FAILED ;;; ret d) c = (c', res) ->
  recorded c' (entry_of e t r tr) /\
  (lifecycle c0 -> settled c' /\ (res = Val d \/ (exists x, res = Exc x) /\ wstatus (c_ws c0) = S_CANCELED)).
Proof.
  intros A m t r tr d c c0 e c' res Hm H. unfold try_catch in H. rewrite Hm in H.
  destruct (log_error_spec e t r tr c0) as [ca [Ha [Wa [Ra _]]]]. unfold bind at 1 in H. rewrite Ha in H.
  assert (L : lifecycle c0 -> lifecycle ca) by (unfold lifecycle; rewrite Wa; auto).
  assert (Rec : forall cb rb, request_status_core S_FAILED ca = (cb, rb) -> recorded cb (entry_of e t r tr)).
  { intros cb rb Eb. destruct (pben_request_status_core _ _ _ _ Eb) as [l [E _]]. unfold recorded in *. rewrite E, existsb_app, Ra. reflexivity. }
  apply bind_inv in H. destruct H as [[cb [u [Eb H]]]|[x [Eb ->]]].
  - inversion H; subst c' res. split; [eapply Rec; exact Eb|]. intro Hl.
    split; [apply (fail_request_settled _ _ _ (L Hl) Eb)|left; reflexivity].
  - split; [eapply Rec; exact Eb|]. intro Hl. split; [apply (fail_request_settled _ _ _ (L Hl) Eb)|].
    right. split; [eexists; reflexivity|]. destruct (fail_request _ _ _ (L Hl) Eb) as [_ [_ [[Hc _]|[_ [_ Hv]]]]]; [|discriminate Hv].
    rewrite <- Wa; exact Hc.
Qed.

(* the same for the collecting sites: every collected failure is recorded, and the workflow is settled *)
Lemma collected_site : forall es t r tr c c' res, es <> [] ->
  (log_errors es t r tr ;;; request_status_core S_FAILED) c = (c', res) ->
  (forall e, In e es -> recorded c' (entry_of e t r tr)) /\ (lifecycle c -> settled c').
Proof.
  intros es t r tr c c' res Hne H. destruct (logs_only_log_errors es t r tr c) as [ca [l [Ha [Wa Ea]]]].
  unfold bind at 1 in H. rewrite Ha in H. split.
  - intros e Hin. pose proof (log_errors_records _ _ _ _ _ _ _ Ha e Hin) as Ra.
    destruct (pben_request_status_core _ _ _ _ H) as [l2 [E _]]. unfold recorded in *. rewrite E, existsb_app, Ra. reflexivity.
  - intro Hl. apply (fail_request_settled ca c' res); [unfold lifecycle in *; rewrite Wa; exact Hl|exact H].
Qed.

(* the collectors: an expression failure is appended to the list they return; other exceptions pass *)
Lemma render_vars_step : forall name expr specs rolling rendered errs c,
  render_vars ev ((name, expr) :: specs) rolling rendered errs c =
  match evaluate ev expr rolling c with
  | (c1, Val x) => render_vars ev specs (dset name x rolling) (dset name x rendered) errs c1
  | (c1, Exc e) => if x_expr e then render_vars ev specs rolling rendered (app errs [e]) c1 else (c1, Exc e)
  end.
Proof.
  intros. cbn [render_vars]. unfold bind at 1, try_catch_expr, bind at 1.
  destruct (evaluate ev expr rolling c) as [c1 [x|e]]; [reflexivity|]. destruct (x_expr e); reflexivity.
Qed.

Lemma render_input_step : forall name dflt specs runtime rolling errs c,
  render_input ev ((name, dflt) :: specs) runtime rolling errs c =
  match evaluate ev (match dget name runtime with Some x => x | None => dflt end) rolling c with
  | (c1, Val x) => render_input ev specs runtime (dset name x rolling) errs c1
  | (c1, Exc e) => if x_expr e then render_input ev specs runtime rolling (app errs [e]) c1 else (c1, Exc e)
  end.
Proof.
  intros. cbn [render_input]. cbv zeta. unfold bind at 1, try_catch_expr, bind at 1.
  destruct (evaluate ev _ rolling c) as [c1 [x|e]]; [reflexivity|]. destruct (x_expr e); reflexivity.
Qed.

Lemma render_vars_keeps : forall specs rolling rendered errs c c' out errs',
  render_vars ev specs rolling rendered errs c = (c', Val (out, errs')) -> exists l, errs' = app errs l.
Proof.
  induction specs as [|[name expr] specs IH]; intros rolling rendered errs c c' out errs' H.
  - inversion H; subst. exists []; rewrite app_nil_r; reflexivity.
  - rewrite render_vars_step in H. destruct (evaluate ev expr rolling c) as [c1 [x|e]]; [eapply IH; exact H|].
    destruct (x_expr e); [|inversion H]. destruct (IH _ _ _ _ _ _ _ H) as [l E]. exists (e :: l). rewrite E, <- app_assoc. reflexivity.
Qed.

Lemma render_input_keeps : forall specs runtime rolling errs c c' out errs',
  render_input ev specs runtime rolling errs c = (c', Val (out, errs')) -> exists l, errs' = app errs l.
Proof.
  induction specs as [|[name dflt] specs IH]; intros runtime rolling errs c c' out errs' H.
  - inversion H; subst. exists []; rewrite app_nil_r; reflexivity.
  - rewrite render_input_step in H. destruct (evaluate ev _ rolling c) as [c1 [x|e]]; [eapply IH; exact H|].
    destruct (x_expr e); [|inversion H]. destruct (IH _ _ _ _ _ _ _ H) as [l E]. exists (e :: l). rewrite E, <- app_assoc. reflexivity.
Qed.

(* ---- the sites, named ---- *)

(* retry set-up (count / delay expressions) when a record is created *)
Lemma retry_setup_recorded : forall t rt ins prev c c0 e c' res,
  g_has_task (c_graph c) t = true -> g_task_has_retry (c_graph c) t = true ->
  setup_retry ev t (match ins with [] => [0] | _ => ins end) c = (c0, Exc e) ->
  add_task_state ev t rt ins prev c = (c', res) ->
  recorded c' (entry_of e (Some t) (Some rt) None) /\ (lifecycle c -> settled c').
Proof.
  intros t rt ins prev c c0 e c' res Hg Hr Hs H. unfold add_task_state in H.
  rewrite (bind_step _ _ _ _ _ _ _ (eq_refl : get c = (c, Val c))) in H. rewrite Hg, Hr in H. cbn [negb] in H. cbv zeta in H.
  assert (Hl0 : lifecycle c -> lifecycle c0).
  { intro Hl. unfold lifecycle in *. pose proof (pres_setup_retry ev _ _ _ _ _ Hs) as R. eapply lifecycle_reach; [exact R|exact Hl]. }
  apply bind_inv in H. destruct H as [[c1 [retry [E1 H]]]|[x [E1 ->]]].
  - assert (Hm : (r <- setup_retry ev t (match ins with [] => [0] | _ => ins end) ;; ret (Some r)) c = (c0, Exc e))
      by (unfold bind; rewrite Hs; reflexivity).
    destruct (guarded_site _ _ _ _ _ _ _ _ _ _ _ Hm E1) as [R1 S1].
    rewrite (bind_step _ _ _ _ _ _ _ (eq_refl : getws c1 = (c1, Val (c_ws c1)))) in H.
    unfold bind at 1, modws at 1 in H. inversion H; subst c' res. split.
    + unfold recorded in *. simpl. exact R1.
    + intro Hl. destruct (S1 (Hl0 Hl)) as [[Sf|Sc] _]; [left|right]; simpl; assumption.
  - assert (Hm : (r <- setup_retry ev t (match ins with [] => [0] | _ => ins end) ;; ret (Some r)) c = (c0, Exc e))
      by (unfold bind; rewrite Hs; reflexivity).
    destruct (guarded_site _ _ _ _ _ _ _ _ _ _ _ Hm E1) as [R1 S1]. split; [exact R1|]. intro Hl. apply (S1 (Hl0 Hl)).
Qed.

Lemma criteria_pure : forall ctx l, state_pure (mapM (fun cr => evaluate ev cr ctx) l).
Proof.
  intros ctx l; induction l as [|x l IH]; simpl; [apply state_pure_ret|].
  apply state_pure_bind; [apply evaluate_pure|intro]. apply state_pure_bind; [exact IH|intro; apply state_pure_ret].
Qed.

(* a transition criterion *)
Lemma criteria_failure_recorded : forall t route idx ts ctx e0 c c0 e c' res,
  mapM (fun cr => evaluate ev cr ctx) (e_criteria e0) c = (c0, Exc e) ->
  process_transition ev t route idx ts ctx e0 c = (c', res) ->
  recorded c' (entry_of e (Some t) (Some route) (Some (e_dst e0, e_key e0))) /\ (lifecycle c -> settled c').
Proof.
  intros t route idx ts ctx e0 c c0 e c' res Hm H. unfold process_transition in H.
  assert (Hc0 : c0 = c).
  { pose proof (criteria_pure ctx (e_criteria e0) c) as P. rewrite Hm in P. exact P. }
  subst c0.
  apply bind_inv in H. destruct H as [[c1 [ok [E1 H]]]|[x [E1 ->]]].
  - assert (Hb : (vs <- mapM (fun cr => evaluate ev cr ctx) (e_criteria e0) ;;
                  upd_rec idx (fun r => r_set_next r (aset trid_eqb (e_dst e0, e_key e0) (forallb truthy vs) (r_next r))) ;;;
                  ret (Some (forallb truthy vs))) c = (c, Exc e)) by (unfold bind at 1; rewrite Hm; reflexivity).
    destruct (guarded_site _ _ _ _ _ _ _ _ _ _ _ Hb E1) as [R1 S1].
    assert (Hok : ok = None).
    { unfold try_catch in E1. rewrite Hb in E1. apply bind_inv in E1. destruct E1 as [[ca [u [_ E1]]]|[x [_ Hx]]]; [|discriminate Hx].
      apply bind_inv in E1. destruct E1 as [[cb [u2 [_ E1]]]|[x [_ Hx]]]; [|discriminate Hx]. inversion E1; reflexivity. }
    subst ok. inversion H; subst c' res. split; [exact R1|]. intro Hl. apply (S1 Hl).
  - assert (Hb : (vs <- mapM (fun cr => evaluate ev cr ctx) (e_criteria e0) ;;
                  upd_rec idx (fun r => r_set_next r (aset trid_eqb (e_dst e0, e_key e0) (forallb truthy vs) (r_next r))) ;;;
                  ret (Some (forallb truthy vs))) c = (c, Exc e)) by (unfold bind at 1; rewrite Hm; reflexivity).
    destruct (guarded_site _ _ _ _ _ _ _ _ _ _ _ Hb E1) as [R1 S1]. split; [exact R1|]. intro Hl. apply (S1 Hl).
Qed.

End Sites.

(* ------------------------------------------------------------------ publish, input/vars, output; every API call *)

Section Calls.
Variable ev : string -> dict -> evalres.

Lemma collected_site_k : forall A (d : A) es t r tr c c' res,
  (log_errors es t r tr ;;; request_status_core S_FAILED ;;; ret d) c = (c', res) ->
  (forall e, In e es -> recorded c' (entry_of e t r tr)) /\ (lifecycle c -> settled c').
Proof.
  intros A d es t r tr c c' res H. destruct (logs_only_log_errors es t r tr c) as [ca [l [Ha [Wa Ea]]]].
  unfold bind at 1 in H. rewrite Ha in H.
  assert (G : forall cb rb, request_status_core S_FAILED ca = (cb, rb) ->
            (forall e, In e es -> recorded cb (entry_of e t r tr)) /\ (lifecycle c -> settled cb)).
  { intros cb rb Eb. split.
    - intros e Hin. pose proof (log_errors_records _ _ _ _ _ _ _ Ha e Hin) as Ra.
      destruct (pben_request_status_core _ _ _ _ Eb) as [l2 [E _]]. unfold recorded in *. rewrite E, existsb_app, Ra. reflexivity.
    - intro Hl. apply (fail_request_settled ca cb rb); [unfold lifecycle in *; rewrite Wa; exact Hl|exact Eb]. }
  apply bind_inv in H. destruct H as [[cb [u [Eb H]]]|[x [Eb ->]]]; [inversion H; subst|]; eapply G; exact Eb.
Qed.

(* a publish expression of a transition that is taken *)
Lemma publish_failure_recorded : forall t route idx ts ctx e0 c c1 c2 new_ctx x xs c' res,
  try_catch
    (vs <- mapM (fun cr => evaluate ev cr ctx) (e_criteria e0) ;;
     upd_rec idx (fun r => r_set_next r (aset trid_eqb (e_dst e0, e_key e0) (forallb truthy vs) (r_next r))) ;;;
     ret (Some (forallb truthy vs)))
    (fun x => log_error x (Some t) (Some route) (Some (e_dst e0, e_key e0)) ;;; request_status_core S_FAILED ;;; ret None)
    c = (c1, Val (Some true)) ->
  finalize_context ev ts e0 ctx c1 = (c2, Val (new_ctx, x :: xs)) ->
  process_transition ev t route idx ts ctx e0 c = (c', res) ->
  (forall y, In y (x :: xs) -> recorded c' (entry_of y (Some t) (Some route) (Some (e_dst e0, e_key e0)))) /\
  (lifecycle c2 -> settled c').
Proof.
  intros t route idx ts ctx e0 c c1 c2 new_ctx x xs c' res Ht Hf H. unfold process_transition in H.
  rewrite (bind_step _ _ _ _ _ _ _ Ht) in H. rewrite (bind_step _ _ _ _ _ _ _ Hf) in H.
  eapply collected_site_k; exact H.
Qed.

(* the retry condition, evaluated when a task completes *)
Lemma retry_condition_recorded : forall r ctx t route c c0 e c' res,
  evaluate_task_retry ev r ctx c = (c0, Exc e) ->
  try_catch (evaluate_task_retry ev r ctx)
            (fun x => log_error x (Some t) (Some route) None ;;; request_status_core S_FAILED ;;; ret false) c = (c', res) ->
  recorded c' (entry_of e (Some t) (Some route) None) /\
  (lifecycle c0 -> settled c' /\ (res = Val false \/ (exists x, res = Exc x) /\ wstatus (c_ws c0) = S_CANCELED)).
Proof. intros r ctx t route c c0 e c' res Hm H. exact (guarded_site _ _ _ _ _ _ _ _ _ _ _ Hm H). Qed.

(* workflow input and vars, rendered when the workflow state is created *)
Lemma input_vars_failures_recorded : forall c c' res, c_init c = false -> ensure_ws ev c = (c', res) ->
  forall c1 rin ierrs c2 rv verrs,
    render_input ev (wf_input (c_spec c)) (c_inputs c) (c_parent c) [] (set_init c true) = (c1, Val (rin, ierrs)) ->
    render_vars ev (wf_vars (c_spec c)) (merge_dicts (c_parent c) rin) [] [] c1 = (c2, Val (rv, verrs)) ->
    app ierrs verrs <> [] ->
    (forall e, In e (app ierrs verrs) -> recorded c' (entry_of e None None None)) /\ (lifecycle c2 -> settled c').
Proof.
  intros c c' res Hi H c1 rin ierrs c2 rv verrs H1 H2 Hne. unfold ensure_ws in H.
  rewrite (bind_step _ _ _ _ _ _ _ (eq_refl : get c = (c, Val c))) in H. rewrite Hi in H.
  unfold bind at 1 in H. unfold modify at 1 in H. cbv beta iota zeta in H.
  rewrite (bind_step _ _ _ _ _ _ _ H1) in H. cbv beta iota zeta in H.
  rewrite (bind_step _ _ _ _ _ _ _ H2) in H. cbv beta iota zeta in H.
  destruct (app ierrs verrs) as [|e0 es] eqn:Ee; [congruence|].
  apply bind_inv in H. destruct H as [[c3 [u [E3 H]]]|[x [E3 ->]]].
  - destruct (collected_site (e0 :: es) None None None c2 c3 (Val u)) as [R S]; [discriminate|exact E3|].
    assert (T : Rf c3 c').
    { match type of H with ?m _ = _ => assert (P : preserves Rf m) end; [|eapply P; exact H].
      fw ltac:(first [apply Rf_modws; intro; reflexivity]). }
    split; [intros e Hin; eapply Rf_errors_prefix; [exact T|apply R; exact Hin]|].
    intro Hl. destruct T as [T _]. eapply settled_reach; [exact T|apply S; exact Hl].
  - destruct (collected_site (e0 :: es) None None None c2 c' (Exc x)) as [R S]; [discriminate|exact E3|]. split; assumption.
Qed.

(* ---- render_workflow_output ---- *)

Lemma pe_terminal_context : preserves Re get_workflow_terminal_context.
Proof.
  unfold get_workflow_terminal_context, get_task_context.
  assert (Pm : forall l acc, preserves Re (merge_term_contexts l acc)).
  { induction l as [|[i r] l IH]; intros; simpl; unfold get_task_context; pw Re_refl Re_trans ltac:(first [apply IH]). }
  pw Re_refl Re_trans ltac:(first [apply Pm]).
Qed.
Lemma pe_render_vars : forall specs rolling rendered errs, preserves Re (render_vars ev specs rolling rendered errs).
Proof. induction specs as [|[n d] specs IH]; intros; simpl; pw Re_refl Re_trans ltac:(first [apply IH]). Qed.

(* output expressions: recorded without a task; the workflow fails unless it is canceled *)
Lemma render_output_core : forall c c' res,
  (c0 <- get ;;
   let st := wstatus (c_ws c0) in
   if status_in st COMPLETED_STATUSES && match c_output c0 with None => true | Some _ => false end then
     tctx <- get_workflow_terminal_context ;;
     let wctx := merge_dicts tctx (state_ctx (c_ws c0)) in
     ro <- render_vars ev (wf_output (c_spec c0)) wctx [] [] ;;
     let '(outputs, errors) := ro in
     (match outputs with [] => ret tt | _ => modify (fun c => set_output c (Some outputs)) end) ;;;
     match errors with
     | [] => ret tt
     | _ => log_errors errors None None None ;;;
            if status_in st [S_EXPIRED; S_ABANDONED; S_CANCELED] then ret tt else request_status_core S_FAILED
     end
   else ret tt) c = (c', res) ->
  Rf c c' /\
  forall c1 tctx c2 outputs errors,
    status_in (wstatus (c_ws c)) COMPLETED_STATUSES && match c_output c with None => true | Some _ => false end = true ->
    get_workflow_terminal_context c = (c1, Val tctx) ->
    render_vars ev (wf_output (c_spec c)) (merge_dicts tctx (state_ctx (c_ws c))) [] [] c1 = (c2, Val (outputs, errors)) ->
    errors <> [] ->
    (forall e, In e errors -> recorded c' (entry_of e None None None)) /\ (lifecycle c -> settled c').
Proof.
  intros c c' res H. rewrite (bind_step _ _ _ _ _ _ _ (eq_refl : get c = (c, Val c))) in H. cbv zeta in H.
  destruct (status_in (wstatus (c_ws c)) COMPLETED_STATUSES && match c_output c with None => true | Some _ => false end) eqn:Eg.
  2: { inversion H; subst. split; [apply Rf_refl|]. intros; discriminate. }
  apply bind_inv in H. destruct H as [[c1 [tctx [E1 H]]]|[x [E1 ->]]].
  2: { destruct (pe_terminal_context _ _ _ E1) as [A B]. split; [apply Rf_quiet; [unfold Rst; rewrite B; apply wr_refl|exact A]|].
       intros ? ? ? ? ? _ Hg. rewrite Hg in E1. discriminate. }
  destruct (pe_terminal_context _ _ _ E1) as [A1 B1].
  apply bind_inv in H. destruct H as [[c2 [ro [E2 H]]]|[x [E2 ->]]].
  2: { destruct (pe_render_vars _ _ _ _ _ _ _ E2) as [A B].
       split; [apply Rf_quiet; [unfold Rst; rewrite B, B1; apply wr_refl|congruence]|].
       intros ? ? ? ? ? _ Hg Hr. rewrite Hg in E1. inversion E1; subst. rewrite Hr in E2. discriminate. }
  destruct (pe_render_vars _ _ _ _ _ _ _ E2) as [A2 B2]. destruct ro as [outputs errors].
  apply bind_inv in H. destruct H as [[c3 [u3 [E3 H]]]|[x [E3 ->]]].
  2: { exfalso. destruct outputs; [|unfold modify in E3]; inversion E3. }
  assert (Q3 : c_errors c3 = c_errors c /\ c_ws c3 = c_ws c2).
  { destruct outputs; [inversion E3; subst; split; [congruence|reflexivity]|]. unfold modify in E3. inversion E3; subst. simpl. split; [congruence|reflexivity]. }
  destruct Q3 as [A3 W3].
  assert (St3 : wstatus (c_ws c3) = wstatus (c_ws c)) by (rewrite W3; congruence).
  assert (Core : Rf c c' /\ (errors <> [] -> (forall e, In e errors -> recorded c' (entry_of e None None None)) /\ (lifecycle c -> settled c'))).
  { destruct errors as [|e0 es].
    - inversion H; subst. split; [apply Rf_quiet; [unfold Rst; rewrite St3; apply wr_refl|exact A3]|]. intro Hn; congruence.
    - destruct (logs_only_log_errors (e0 :: es) None None None c3) as [ca [l [Ha [Wa Ea]]]].
      pose proof (log_errors_records _ _ _ _ _ _ _ Ha) as Ra.
      unfold bind at 1 in H. rewrite Ha in H.
      destruct (status_in (wstatus (c_ws c)) [S_EXPIRED; S_ABANDONED; S_CANCELED]) eqn:Ecx.
      + inversion H; subst c' res.
        assert (Hs : lifecycle c -> settled ca).
        { intro Hl. right. rewrite Wa, St3. unfold lifecycle in Hl. destruct (wstatus (c_ws c)); simpl in Hl, Ecx; try discriminate;
            try reflexivity; exfalso; intuition discriminate. }
        split; [|intros _; split; [exact Ra|exact Hs]].
        split; [unfold Rst; rewrite Wa, St3; apply wr_refl|]. exists l. split; [rewrite Ea, A3; reflexivity|]. intros Hl _; exact (Hs Hl).
      + assert (Hs : lifecycle c -> settled c').
        { intro Hl. apply (fail_request_settled ca c' res); [unfold lifecycle in *; rewrite Wa, St3; exact Hl|exact H]. }
        destruct (pben_request_status_core _ _ _ _ H) as [l2 [E2' _]].
        split.
        * split; [unfold Rst; rewrite <- St3, <- Wa; eapply pres_request_status_core; exact H|].
          exists (app l l2). split; [rewrite E2', Ea, A3, app_assoc; reflexivity|]. intros Hl _; exact (Hs Hl).
        * intros _. split; [|exact Hs]. intros e Hin. specialize (Ra e Hin). unfold recorded in *. rewrite E2', existsb_app, Ra. reflexivity. }
  destruct Core as [C1 C2]. split; [exact C1|].
  intros c1' tctx' c2' outputs' errors' _ Hg Hr Hne. rewrite Hg in E1. inversion E1; subst c1' tctx'.
  rewrite Hr in E2. inversion E2; subst. apply C2; exact Hne.
Qed.

Lemma pf_render_workflow_output : preserves Rf (render_workflow_output ev).
Proof.
  unfold render_workflow_output. apply (preserves_bind _ Rf_trans); [apply pf_ensure_ws|intros _].
  intros c c' res H. apply (render_output_core _ _ _ H).
Qed.

Lemma pf_get_next_tasks : preserves Rf (get_next_tasks ev).
Proof.
  intros c c' res H. unfold get_next_tasks in H.
  apply bind_inv in H. destruct H as [[c1 [u [E1 H]]]|[x [E1 ->]]]; [|eapply pf_ensure_ws; exact E1].
  eapply Rf_trans; [eapply pf_ensure_ws; exact E1|].
  assert (Hi : c_init c1 = true) by (eapply ensure_ws_init_after; exact E1).
  assert (H' : get_next_tasks ev c1 = (c', res)).
  { unfold get_next_tasks. rewrite (bind_step _ _ _ _ _ _ _ (ensure_ws_inited ev c1 Hi)). exact H. }
  apply (get_next_tasks_spec ev c1 c' res Hi H').
Qed.

Lemma pf_persist : preserves Rf (persist ev).
Proof.
  intros c c' r H. unfold persist in H. apply bind_inv in H. destruct H as [[c1 [u [E1 H]]]|[e [E1 ->]]]; [|eapply pf_ensure_ws; exact E1].
  eapply Rf_trans; [eapply pf_ensure_ws; exact E1|]. rewrite dec_cstate_enc_total in H. inversion H; subst.
  apply Rf_quiet; [unfold Rst; simpl; apply wr_refl|reflexivity].
Qed.

(* (b) every API call but rerun *)
Theorem api_exec_Rf : forall op, is_rerun op = false -> preserves Rf (api_exec ev op).
Proof.
  intros op Hop. destruct op; try discriminate; cbn [api_exec];
    (apply (preserves_bind _ Rf_trans); [|intro; apply (preserves_ret _ Rf_refl)]).
  - apply pf_ensure_ws.
  - apply pf_request_workflow_status.
  - apply pf_get_next_tasks.
  - apply pf_update_task_state.
  - apply pf_render_workflow_output.
  - apply pf_persist.
Qed.

Theorem contained_failure_fails : forall op c c' r l, is_rerun op = false -> lifecycle c ->
  api_exec ev op c = (c', r) -> c_errors c' = app (c_errors c) l ->
  (exists en, In en l /\ handled_entry en) -> settled c'.
Proof.
  intros op c c' r l Hop Hl H El Hen. destruct (api_exec_Rf op Hop _ _ _ H) as [_ [l' [E S]]].
  rewrite E in El. apply app_inv_head in El. subst l'. apply S; assumption.
Qed.

Theorem errors_only_appended : forall op c c' r, is_rerun op = false -> api_exec ev op c = (c', r) ->
  exists l, c_errors c' = app (c_errors c) l.
Proof. intros op c c' r Hop H. destruct (api_exec_Rf op Hop _ _ _ H) as [_ [l [E _]]]. exists l; exact E. Qed.

Theorem lifecycle_kept : forall op c c' r, is_rerun op = false -> lifecycle c -> api_exec ev op c = (c', r) -> lifecycle c'.
Proof. intros op c c' r Hop Hl H. destruct (api_exec_Rf op Hop _ _ _ H) as [R _]. eapply lifecycle_reach; [exact R|exact Hl]. Qed.

(* (c) nothing further is offered: in the call itself (get_next_tasks_spec), and afterwards *)
Theorem settled_offers_only_cleanup : forall c c' l, c_init c = true -> settled c -> get_next_tasks ev c = (c', Val l) ->
  forall o, In o l -> wstatus (c_ws c) = S_FAILED /\
                      exists s, In s (staged (c_ws c)) /\ s_run_on_fail s = true /\ o_id o = s_id s /\ o_route o = s_route s.
Proof.
  intros c c' l Hi Hs H o Ho. destruct Hs as [Hs|Hs].
  2: { rewrite (no_offers_when_done ev c Hi) in H; [inversion H; subst; destruct Ho|]. rewrite Hs; simpl; tauto. }
  split; [exact Hs|].
  unfold get_next_tasks, bind in H. rewrite (ensure_ws_inited ev c Hi) in H. unfold getws in H. cbv beta iota in H.
  rewrite Hs in H. change (status_eqb S_FAILED S_FAILED) with true in H. cbv iota in H.
  change (status_in S_FAILED RUNNING_STATUSES) with false in H. cbn [negb andb] in H.
  destruct (filter s_run_on_fail (staged_filtered (c_ws c))) as [|s0 rem] eqn:Er; [inversion H; subst; destruct Ho|].
  cbv iota in H. rewrite <- Er in H.
  match type of H with context [mapM ?f ?todo] => destruct (mapM f todo c) as [c1 [rs|e]] eqn:Em; [|inversion H] end.
  destruct (existsb snd rs).
  { destruct (request_status_core S_FAILED c1) as [c2 [u|e]]; inversion H; subst; destruct Ho. }
  inversion H; subst c' l; clear H. apply In_sort_by in Ho.
  assert (Hf : Forall2 (fun s (r : option offer * bool) => offer_of s (fst r))
                       (filter s_run_on_fail (staged_filtered (c_ws c))) rs).
  { eapply (vpost_mapM _ _ (fun s (r : option offer * bool) => offer_of s (fst r))); [|exact Em].
    intro s. apply vpost_try_catch.
    - eapply vpost_bind_strong; [apply (next_task_for_id ev)|]. intros a Ha. apply vpost_ret; exact Ha.
    - intro e. apply vpost_bind; intro. apply vpost_ret. intros o' Ho'; discriminate. }
  destruct (Forall2_offers _ _ Hf o Ho) as [s [Hin [E1 E2]]]. apply filter_In in Hin. destruct Hin as [Hin Hrf].
  unfold staged_filtered in Hin. apply filter_In in Hin. exists s. tauto.
Qed.

End Calls.
