(* RerunProofs.v -- C17: what an accepted rerun does, exactly.
   (a) which executions are re-run: [cand_of] is the candidate list as a pure function of the workflow state and
       the request dictionary; the model computes exactly it, without touching the state ([rerun_accepted_inv]).
       Default request: per (task, route) key the LAST terminal abended record ([default_cand_iff]).  Explicit
       request: the requested keys minus the collapsed ones ([collapsed_iff]: with two or more requests a request
       survives iff SOME request's sequence does not contain all of its own -- not "every other"; see
       props/C17b.v, Example three_requests_not_collapsed).
   (b) what re-running one candidate does ([rerun_plain_exact], [rerun_items_exact]: equations between states).
   (c) what else changes: contexts, routes, graph, definition never; staged entries of other keys never
       ([rerun_staged_frame]; stale entries survive -- finding D21); records only lose the terminal flag or are
       appended; the rerun log gets one entry.
   (e) an empty candidate set is accepted and only flips the status ([empty_rerun_exact]; finding D9). *)
From Coq Require Import String List Bool ZArith Arith Lia.
From Orq Require Import GenStatuses GenEvents GenTables GenSpecMeta Base State Machines Codec Conductor Decode Api.
From Orq Require Import F_tables Hoare ValuePost StatusReach C04Proofs C05Proofs C17Proofs C18Proofs OffersProofs
  InertProofs RetryProofs NoInternalProofs.
Import ListNotations.
Open Scope string_scope.
Open Scope monad_scope.

(* ------------------------------------------------------------------ (a) the candidates, as a pure function *)

Definition cand := (tkey * (nat * trec))%type.

Definition rkey (r : trec) : tkey := (r_id r, r_route r).

Definition default_cands (w : wstate) : list cand :=
  fold_left (fun acc '(i, r) => if ostatus_in (r_status r) ABENDED_STATUSES then aset tkey_eqb (rkey r) (i, r) acc else acc)
            (get_terminal_tasks w) [].

Definition seq_of (w : wstate) (q : rerun_req) : list nat :=
  match get_task_sequence w (rq_task q) (rq_route q) with Val s => s | Exc _ => [] end.

Definition seqs_of (w : wstate) (tasks_d : list (tkey * rerun_req)) : list (tkey * list nat) :=
  map (fun '(k, q) => (k, seq_of w q)) tasks_d.

Definition collapse (tasks_d : list (tkey * rerun_req)) (seqs : list (tkey * list nat)) : list (tkey * list nat) :=
  match tasks_d with
  | [_] => seqs
  | _ => filter (fun '(_, i) => negb (existsb (fun '(_, j) => nat_list_proper_subset i j) seqs)) seqs
  end.

Definition explicit_cands (w : wstate) (tasks_d : list (tkey * rerun_req)) : list cand :=
  let collapsed := collapse tasks_d (seqs_of w tasks_d) in
  flat_map (fun '(k, q) =>
              if ahas tkey_eqb k collapsed then
                match ws_task_idx w (rq_task q) (rq_route q) with
                | Some i => match nth_error (sequence w) i with Some r => [(k, (i, r))] | None => [] end
                | None => []
                end
              else []) tasks_d.

Definition cand_of (w : wstate) (tasks_d : list (tkey * rerun_req)) : list cand :=
  match tasks_d with [] => default_cands w | _ => explicit_cands w tasks_d end.

Definition cand_leb : cand -> cand -> bool :=
  fun '(_, (_, a)) '(_, (_, b)) =>
    if String.eqb (r_id a) (r_id b) then Nat.leb (r_route a) (r_route b) else String.leb (r_id a) (r_id b).

(* what follows once the candidates are known *)
Definition rerun_rest (ev : string -> dict -> evalres) (tasks_d : list (tkey * rerun_req)) (cands : list cand) : M unit :=
  modws (fun w => ws_set_reruns w (app (reruns w) [map (fun '(_, (i, _)) => i) cands])) ;;;
  forM_ (sort_by cand_leb cands) (fun '(_, (_, r)) =>
    let reset := match aget tkey_eqb (r_id r, r_route r) tasks_d with Some q => rq_reset_items q | None => false end in
    request_task_rerun ev (r_id r) (r_route r) reset) ;;;
  w <- getws ;;
  let continuable :=
    fold_left (fun acc '(i, r) => if existsb (fun '(_, b) => b) (r_next r) then aset tkey_eqb (r_id r, r_route r) i acc else acc)
              (get_terminal_tasks w) [] in
  forM_ continuable (fun '(_, i) => upd_rec i (fun r => r_set_term r false)) ;;;
  modify (fun c => set_output c None) ;;;
  modws (fun w => ws_set_status w S_RESUMING).

(* the request dictionary: keys are the requests' own (task, route) *)
Lemma reqs_dict_keys : forall reqs k q, In (k, q) (reqs_dict reqs) -> k = (rq_task q, rq_route q).
Proof.
  intro reqs. unfold reqs_dict.
  assert (G : forall acc, (forall k q, In (k, q) acc -> k = (rq_task q, rq_route q)) ->
              forall k q, In (k, q) (fold_left (fun acc q => aset tkey_eqb (rq_task q, rq_route q) q acc) reqs acc) ->
              k = (rq_task q, rq_route q)).
  { induction reqs as [|q0 reqs IH]; intros acc Hacc k q Hin; [apply Hacc; exact Hin|].
    simpl in Hin. eapply IH; [|exact Hin]. clear -Hacc. intros k q Hin.
    induction acc as [|[k1 q1] acc IHa]; simpl in Hin.
    - destruct Hin as [Hin|[]]. inversion Hin; subst; reflexivity.
    - destruct (tkey_eqb (rq_task q0, rq_route q0) k1) eqn:E; simpl in Hin.
      + destruct Hin as [Hin|Hin]; [inversion Hin; subst; apply tkey_eqb_eq in E; symmetry; exact E|apply Hacc; right; exact Hin].
      + destruct Hin as [Hin|Hin]; [apply Hacc; left; exact Hin|]. apply IHa; [intros; apply Hacc; right; assumption|exact Hin]. }
  apply G. intros k q [].
Qed.

Section Candidates.
Variable ev : string -> dict -> evalres.

Lemma seqs_pure : forall w tasks_d c,
  (forall k q, In (k, q) tasks_d -> ws_task_idx w (rq_task q) (rq_route q) <> None) ->
  mapM (fun '(k, q) => s <- lift_res (get_task_sequence w (rq_task q) (rq_route q)) ;; ret (k, s)) tasks_d c
  = (c, Val (seqs_of w tasks_d)).
Proof.
  intros w tasks_d c; induction tasks_d as [|[k q] l IH]; intro H; [reflexivity|].
  assert (E : exists s, get_task_sequence w (rq_task q) (rq_route q) = Val s).
  { unfold get_task_sequence. destruct (ws_task_idx w (rq_task q) (rq_route q)) eqn:Ei; [eexists; reflexivity|].
    exfalso. apply (H k q); [left; reflexivity|exact Ei]. }
  destruct E as [s Es].
  assert (E1 : (let '(k, q) := (k, q) in s <- lift_res (get_task_sequence w (rq_task q) (rq_route q)) ;; ret (k, s)) c
               = (c, Val (k, s))) by (cbv beta iota; unfold bind; rewrite Es; reflexivity).
  cbn [mapM]. rewrite (bind_step _ _ _ _ _ _ _ E1). rewrite (bind_step _ _ _ _ _ _ _ (IH (fun k' q' Hin => H k' q' (or_intror Hin)))).
  cbn [seqs_of map]. unfold seq_of at 1. rewrite Es. reflexivity.
Qed.

(* an accepted rerun: the workflow was completed, every requested execution exists, the candidates are [cand_of],
   computed without touching the state, and the rest runs from the unchanged state *)
Theorem rerun_accepted_inv : forall reqs c c', c_init c = true ->
  request_workflow_rerun ev reqs c = (c', Val tt) ->
  status_in (wstatus (c_ws c)) COMPLETED_STATUSES = true /\
  (forall k q, In (k, q) (reqs_dict reqs) -> ahas tkey_eqb k (tasks (c_ws c)) = true) /\
  rerun_rest ev (reqs_dict reqs) (cand_of (c_ws c) (reqs_dict reqs)) c = (c', Val tt).
Proof.
  intros reqs c c' Hi H. unfold request_workflow_rerun in H.
  rewrite (bind_step _ _ _ _ _ _ _ (ensure_ws_inited ev c Hi)) in H.
  rewrite (bind_step _ _ _ _ _ _ _ (eq_refl : getws c = (c, Val (c_ws c)))) in H.
  destruct (status_in (wstatus (c_ws c)) COMPLETED_STATUSES) eqn:Es; [|inversion H]. cbn [negb] in H. cbv zeta in H.
  fold (reqs_dict reqs) in H.
  destruct (filter (fun '(k, _) => negb (ahas tkey_eqb k (tasks (c_ws c)))) (reqs_dict reqs)) as [|x l] eqn:Ef; [|inversion H].
  assert (Hall : forall k q, In (k, q) (reqs_dict reqs) -> ahas tkey_eqb k (tasks (c_ws c)) = true).
  { intros k q Hin. destruct (ahas tkey_eqb k (tasks (c_ws c))) eqn:Ea; [reflexivity|]. exfalso.
    assert (Hx : In (k, q) (filter (fun '(k, _) => negb (ahas tkey_eqb k (tasks (c_ws c)))) (reqs_dict reqs)))
      by (apply filter_In; split; [exact Hin|rewrite Ea; reflexivity]).
    rewrite Ef in Hx. destruct Hx. }
  split; [reflexivity|]. split; [exact Hall|].
  assert (Hc : forall (K : list cand -> M unit),
    (candidates <- (match reqs_dict reqs with
                    | [] => ret (default_cands (c_ws c))
                    | _ => seqs <- mapM (fun '(k, q) => s <- lift_res (get_task_sequence (c_ws c) (rq_task q) (rq_route q)) ;; ret (k, s))
                                        (reqs_dict reqs) ;;
                           ret (flat_map (fun '(k, q) =>
                                  if ahas tkey_eqb k (collapse (reqs_dict reqs) seqs) then
                                    match ws_task_idx (c_ws c) (rq_task q) (rq_route q) with
                                    | Some i => match nth_error (sequence (c_ws c)) i with Some r => [(k, (i, r))] | None => [] end
                                    | None => []
                                    end
                                  else []) (reqs_dict reqs))
                    end) ;; K candidates) c = K (cand_of (c_ws c) (reqs_dict reqs)) c).
  { intro K. unfold cand_of. destruct (reqs_dict reqs) as [|p l0] eqn:Ed; [reflexivity|].
    unfold bind at 1. unfold bind at 1. rewrite seqs_pure; [reflexivity|].
    intros k q Hin. specialize (Hall k q Hin). rewrite (reqs_dict_keys reqs k q) in Hall by (rewrite Ed; exact Hin).
    unfold ahas, ws_task_idx in *. destruct (aget tkey_eqb (rq_task q, rq_route q) (tasks (c_ws c))); [discriminate|discriminate Hall]. }
  rewrite Hc in H. exact H.
Qed.

End Candidates.

(* ---- dictionaries built by insertion ---- *)

Lemma tkey_eqb_sym : forall a b, tkey_eqb a b = tkey_eqb b a.
Proof. intros [t r] [t' r']; unfold tkey_eqb; simpl. rewrite String.eqb_sym, Nat.eqb_sym. reflexivity. Qed.

Lemma aget_aset_t : forall V k k' (v : V) d,
  aget tkey_eqb k (aset tkey_eqb k' v d) = if tkey_eqb k k' then Some v else aget tkey_eqb k d.
Proof.
  intros V k k' v d; induction d as [|[k1 v1] d IH]; simpl; [reflexivity|].
  destruct (tkey_eqb k' k1) eqn:E1; simpl.
  - apply tkey_eqb_eq in E1; subst k1. destruct (tkey_eqb k k'); reflexivity.
  - destruct (tkey_eqb k k1) eqn:E2; [|exact IH]. apply tkey_eqb_eq in E2; subst k1.
    rewrite tkey_eqb_sym, E1. reflexivity.
Qed.

(* looking a key up in a dictionary built by conditional insertion = the last inserted value for that key *)
Lemma aget_fold_aset : forall X V (L : list X) (key : X -> tkey) (val : X -> V) (p : X -> bool) acc k,
  aget tkey_eqb k (fold_left (fun acc x => if p x then aset tkey_eqb (key x) (val x) acc else acc) L acc) =
  fold_left (fun o x => if p x && tkey_eqb k (key x) then Some (val x) else o) L (aget tkey_eqb k acc).
Proof.
  intros X V L key val p; induction L as [|x L IH]; intros acc k; simpl; [reflexivity|].
  rewrite IH. f_equal. destruct (p x); simpl; [|reflexivity]. apply aget_aset_t.
Qed.

Lemma fold_last_iff : forall X V (cond : X -> bool) (val : X -> V) (L : list X) o0 v,
  fold_left (fun o x => if cond x then Some (val x) else o) L o0 = Some v <->
  (exists L1 x L2, L = app L1 (x :: L2) /\ cond x = true /\ val x = v /\ forall y, In y L2 -> cond y = false) \/
  (o0 = Some v /\ forall y, In y L -> cond y = false).
Proof.
  intros X V cond val L; induction L as [|x L IH]; intros o0 v; simpl.
  - split; [intro H; right; split; [exact H|intros y []]|intros [[L1 [x [L2 [H _]]]]|[H _]]; [destruct L1; discriminate|exact H]].
  - rewrite IH. split.
    + intros [[L1 [y [L2 [E [C [Vv Hn]]]]]]|[Ho Hn]].
      * left. exists (x :: L1), y, L2. rewrite E. auto.
      * destruct (cond x) eqn:Cx.
        -- inversion Ho; subst. left. exists [], x, L. auto.
        -- right. split; [exact Ho|]. intros y [<-|Hy]; auto.
    + intros [[L1 [y [L2 [E [C [Vv Hn]]]]]]|[Ho Hn]].
      * destruct L1 as [|z L1]; simpl in E; inversion E; subst.
        -- right. rewrite C. split; [reflexivity|exact Hn].
        -- left. exists L1, y, L2. auto.
      * right. rewrite (Hn x (or_introl eq_refl)). split; [exact Ho|]. intros y Hy; apply Hn; right; exact Hy.
Qed.

Lemma fold_left_ext : forall A B (f g : A -> B -> A) l a, (forall a b, f a b = g a b) -> fold_left f l a = fold_left g l a.
Proof. intros A B f g l; induction l as [|x l IH]; intros a H; simpl; [reflexivity|]. rewrite H. apply IH; exact H. Qed.

(* ---- the default request: per key, the last terminal record with an abended status ---- *)

Theorem default_cand_iff : forall w k i r,
  aget tkey_eqb k (default_cands w) = Some (i, r) <->
  exists L1 L2, get_terminal_tasks w = app L1 ((i, r) :: L2) /\
                ostatus_in (r_status r) ABENDED_STATUSES = true /\ rkey r = k /\
                forall j r', In (j, r') L2 -> ostatus_in (r_status r') ABENDED_STATUSES && tkey_eqb k (rkey r') = false.
Proof.
  intros w k i r. unfold default_cands.
  rewrite (fold_left_ext _ _ _ (fun acc (x : nat * trec) => if ostatus_in (r_status (snd x)) ABENDED_STATUSES
                                                         then aset tkey_eqb (rkey (snd x)) x acc else acc))
    by (intros acc [j r0]; reflexivity).
  rewrite (aget_fold_aset _ _ (get_terminal_tasks w) (fun x => rkey (snd x)) (fun x => x)
             (fun x => ostatus_in (r_status (snd x)) ABENDED_STATUSES) [] k).
  simpl. rewrite (fold_last_iff _ _ (fun x => ostatus_in (r_status (snd x)) ABENDED_STATUSES && tkey_eqb k (rkey (snd x))) (fun x => x)).
  split.
  - intros [[L1 [[j r0] [L2 [E [C [V Hn]]]]]]|[Ho _]]; [|discriminate]. inversion V; subst j r0. simpl in C.
    apply andb_prop in C. destruct C as [C1 C2]. apply tkey_eqb_eq in C2.
    exists L1, L2. split; [exact E|]. split; [exact C1|]. split; [symmetry; exact C2|]. intros j r' Hin. apply (Hn (j, r') Hin).
  - intros [L1 [L2 [E [C1 [C2 Hn]]]]]. left. exists L1, (i, r), L2. split; [exact E|]. simpl. rewrite C1, <- C2, tkey_eqb_refl.
    split; [reflexivity|]. split; [reflexivity|]. intros [j r'] Hin. rewrite C2. apply (Hn j r' Hin).
Qed.

(* terminal tasks: the records flagged terminal, with their indices, in index order *)
Lemma terminal_tasks_In : forall w i r, In (i, r) (get_terminal_tasks w) <-> nth_error (sequence w) i = Some r /\ r_term r = true.
Proof.
  intros w i r. unfold get_terminal_tasks. rewrite filter_In. split.
  - intros [H1 H2]. split; [apply In_enumerate; exact H1|exact H2].
  - intros [H1 H2]. split; [|exact H2]. unfold enumerate.
    assert (G : forall (l : list trec) n j x, nth_error l j = Some x -> In (n + j, x) (enumerate_from n l)).
    { induction l as [|a l IH]; intros n j x Hn; [destruct j; discriminate|]. destruct j; simpl in *.
      - inversion Hn; subst. left. f_equal. lia.
      - right. replace (n + S j) with (S n + j) by lia. apply IH; exact Hn. }
    apply (G _ 0 i r H1).
Qed.

(* ---- explicit requests: what collapsing drops ---- *)

Lemma nat_in_iff : forall x l, nat_in x l = true <-> In x l.
Proof.
  intros x l; split; [apply nat_in_In|]. induction l as [|m l IH]; [intros []|]. simpl.
  intros [->|H]; [rewrite Nat.eqb_refl; reflexivity|rewrite IH by exact H; apply orb_true_r].
Qed.

Definition proper_subset (s s' : list nat) : Prop := (forall x, In x s -> In x s') /\ exists y, In y s' /\ ~ In y s.

Lemma diff_nonempty_iff : forall a b, nat_list_diff_nonempty a b = true <-> exists x, In x a /\ ~ In x b.
Proof.
  intros a b. unfold nat_list_diff_nonempty. rewrite existsb_exists. split.
  - intros [x [Hx Hn]]. exists x. split; [exact Hx|]. apply negb_true_iff in Hn. intro Hc. apply nat_in_iff in Hc. congruence.
  - intros [x [Hx Hn]]. exists x. split; [exact Hx|]. apply negb_true_iff. destruct (nat_in x b) eqn:E; [|reflexivity].
    exfalso. apply Hn. apply nat_in_iff; exact E.
Qed.

Lemma proper_subset_iff : forall s s', nat_list_proper_subset s s' = true <-> proper_subset s s'.
Proof.
  intros s s'. unfold nat_list_proper_subset, proper_subset. rewrite andb_true_iff, negb_true_iff, diff_nonempty_iff. split.
  - intros [H1 H2]. split; [|exact H2]. intros x Hx. destruct (nat_in x s') eqn:E; [apply nat_in_iff; exact E|].
    exfalso. assert (Hd : nat_list_diff_nonempty s s' = true); [|congruence].
    apply diff_nonempty_iff. exists x. split; [exact Hx|]. intro Hc. apply nat_in_iff in Hc. congruence.
  - intros [H1 H2]. split; [|exact H2]. destruct (nat_list_diff_nonempty s s') eqn:E; [|reflexivity].
    apply diff_nonempty_iff in E. destruct E as [x [Hx Hn]]. exfalso. exact (Hn (H1 x Hx)).
Qed.

(* a single request always survives; otherwise a request is dropped iff its sequence (its record and everything
   downstream that already ran) is a proper subset of another request's sequence *)
Theorem collapsed_iff : forall tasks_d seqs k s, In (k, s) (collapse tasks_d seqs) <->
  In (k, s) seqs /\ (length tasks_d = 1 \/ ~ exists k' s', In (k', s') seqs /\ proper_subset s s').
Proof.
  intros tasks_d seqs k s. unfold collapse.
  assert (F : In (k, s) (filter (fun '(_, i) => negb (existsb (fun '(_, j) => nat_list_proper_subset i j) seqs)) seqs) <->
              In (k, s) seqs /\ ~ exists k' s', In (k', s') seqs /\ proper_subset s s').
  { rewrite filter_In. split; intros [H1 H2]; (split; [exact H1|]).
    - apply negb_true_iff in H2. intros [k' [s' [Hin Hp]]].
      assert (existsb (fun '(_, j) => nat_list_proper_subset s j) seqs = true); [|congruence].
      apply existsb_exists. exists (k', s'). split; [exact Hin|apply proper_subset_iff; exact Hp].
    - apply negb_true_iff. destruct (existsb (fun '(_, j) => nat_list_proper_subset s j) seqs) eqn:E; [|reflexivity].
      exfalso. apply H2. apply existsb_exists in E. destruct E as [[k' s'] [Hin Hp]]. exists k', s'. split; [exact Hin|apply proper_subset_iff; exact Hp]. }
  destruct tasks_d as [|p [|p2 l]].
  - rewrite F. split; intros [H1 H2]; (split; [exact H1|]); [right; exact H2|destruct H2 as [H2|H2]; [discriminate|exact H2]].
  - split; [intro H; split; [exact H|left; reflexivity]|intros [H _]; exact H].
  - rewrite F. split; intros [H1 H2]; (split; [exact H1|]); [right; exact H2|destruct H2 as [H2|H2]; [discriminate|exact H2]].
Qed.

Theorem explicit_cand_iff : forall w tasks_d k i r, In (k, (i, r)) (explicit_cands w tasks_d) <->
  exists q, In (k, q) tasks_d /\ ahas tkey_eqb k (collapse tasks_d (seqs_of w tasks_d)) = true /\
            ws_task_idx w (rq_task q) (rq_route q) = Some i /\ nth_error (sequence w) i = Some r.
Proof.
  intros w tasks_d k i r. unfold explicit_cands. cbv zeta. rewrite in_flat_map. split.
  - intros [[k' q] [Hin H]]. destruct (ahas tkey_eqb k' (collapse tasks_d (seqs_of w tasks_d))) eqn:Ea; [|destruct H].
    destruct (ws_task_idx w (rq_task q) (rq_route q)) as [j|] eqn:Ei; [|destruct H].
    destruct (nth_error (sequence w) j) as [r0|] eqn:En; [|destruct H]. destruct H as [H|[]]. inversion H; subst.
    exists q. auto.
  - intros [q [Hin [Ha [Hi Hn]]]]. exists (k, q). split; [exact Hin|]. rewrite Ha, Hi, Hn. left; reflexivity.
Qed.

(* ------------------------------------------------------------------ (b) re-running one candidate, exactly *)

Definition clear_term (c : cstate) (i : nat) : cstate :=
  set_ws c (ws_update_rec (c_ws c) i (fun r => r_set_term r false)).
Definition clear_terms (l : list nat) (c : cstate) : cstate := fold_left clear_term l c.

Lemma forM_clear_run : forall l c, forM_ l (fun i => upd_rec i (fun r => r_set_term r false)) c = (clear_terms l c, Val tt).
Proof.
  induction l as [|i l IH]; intro c; [reflexivity|]. cbn [forM_ clear_terms fold_left].
  unfold bind, upd_rec at 1, modws. rewrite IH. reflexivity.
Qed.

Definition drop_task_errors (t : string) (c : cstate) : cstate :=
  set_errors c (filter (fun e => negb (opt_eqb String.eqb (er_task e) (Some t))) (c_errors c)).
Definition uncomplete (t : string) (route : nat) (c : cstate) : cstate :=
  set_ws c (ws_set_staged (c_ws c) (staged_update (fun s => s_set_completed s false) t route (staged (c_ws c)))).
(* common to both kinds: the record loses its terminal flag, the staged entry (if any) its completed flag, the error
   log every entry of the task (of ANY route and execution of that task id) *)
Definition rerun_prep (t : string) (route idx : nat) (c : cstate) : cstate :=
  drop_task_errors t (uncomplete t route (clear_term c idx)).

Definition new_rec (t : string) (route : nat) (r : trec) : trec :=
  {| r_id := t; r_route := route; r_in := match r_in r with [] => [0] | _ => r_in r end; r_out := None; r_prev := r_prev r;
     r_next := []; r_status := None; r_term := false; r_retry := None |}.

Definition downstream (c : cstate) (t : string) (route : nat) : list nat :=
  match get_task_sequence (c_ws c) t route with Val s => s | Exc _ => [] end.

(* a task without retry policy that is not a staged with-items task: a new record (same id, route, inbound contexts
   and predecessors as the old one; no status, no transition decision, no retry bookkeeping) is appended, the pointer
   moves to it, a ready staged entry is appended, and the terminal flag is cleared down the old record's branch *)
Definition rerun_plain_state (t : string) (route idx : nat) (r : trec) (c : cstate) : cstate :=
  let c1 := rerun_prep t route idx c in
  let w := c_ws c1 in
  let c2 := set_ws c1 (ws_set_tasks (ws_set_sequence w (app (sequence w) [new_rec t route r]))
                                     (aset tkey_eqb (t, route) (length (sequence w)) (tasks w))) in
  let c3 := set_ws c2 (ws_add_staged (c_ws c2) (mk_staged t route (r_in r) (r_prev r) true None)) in
  clear_terms (downstream c3 t route) c3.

(* a with-items task whose staged entry is still there (it failed): nothing is appended; the abended items (all items
   with reset_items) become unset *)
Definition reset_items_state (t : string) (route : nat) (reset : bool) (c : cstate) : cstate :=
  set_ws c (ws_set_staged (c_ws c)
    (staged_update (fun s => s_set_items s (match s_items s with
                                             | Some l => Some (map (fun st => if reset || status_in st ABENDED_STATUSES then S_UNSET else st) l)
                                             | None => None end)) t route (staged (c_ws c)))).
Definition rerun_items_state (t : string) (route idx : nat) (reset : bool) (c : cstate) : cstate :=
  let c2 := reset_items_state t route reset (rerun_prep t route idx c) in
  clear_terms (downstream c2 t route) c2.

Lemma find_staged_update_some : forall f t r t' r' l s,
  (forall x, s_id (f x) = s_id x /\ s_route (f x) = s_route x) ->
  find (stg_matches t' r') l = Some s -> exists s', find (stg_matches t' r') (staged_update f t r l) = Some s'.
Proof.
  intros f t r t' r' l s Hf H.
  destruct (find (stg_matches t' r') (staged_update f t r l)) eqn:E; [eexists; reflexivity|].
  exfalso. eapply (find_staged_update_present f t r t' r' l Hf); [rewrite H; discriminate|exact E].
Qed.

Lemma find_staged_update_none : forall f t r t' r' l,
  (forall x, s_id (f x) = s_id x /\ s_route (f x) = s_route x) ->
  find (stg_matches t' r') l = None -> find (stg_matches t' r') (staged_update f t r l) = None.
Proof.
  intros f t r t' r' l Hf; induction l as [|s l IH]; simpl; [reflexivity|].
  assert (E : stg_matches t' r' (f s) = stg_matches t' r' s) by (unfold stg_matches; destruct (Hf s) as [-> ->]; reflexivity).
  destruct (stg_matches t' r' s) eqn:Em; [discriminate|]. intro H. destruct (stg_matches t r s); simpl; rewrite ?E, ?Em; auto.
Qed.

Section OneCandidate.
Variable ev : string -> dict -> evalres.

Theorem rerun_plain_exact : forall t route reset idx r ts c,
  ws_task_idx (c_ws c) t route = Some idx -> nth_error (sequence (c_ws c)) idx = Some r ->
  spec_get_task (c_spec c) t = Some ts ->
  (task_has_items ts = false \/ get_staged_task (c_ws c) t route = None) ->
  g_has_task (c_graph c) t = true -> g_task_has_retry (c_graph c) t = false ->
  request_task_rerun ev t route reset c = (rerun_plain_state t route idx r c, Val tt).
Proof.
  intros t route reset idx r ts c Hp Hn Hts Hplain Hg Hnr. unfold request_task_rerun.
  rewrite (bind_step _ _ _ _ _ _ _ (eq_refl : get c = (c, Val c))). rewrite Hp.
  rewrite (bind_step _ _ _ _ _ _ _ (eq_refl : ret idx c = (c, Val idx))).
  assert (Eg : get_rec idx c = (c, Val r)) by (unfold get_rec, bind, getws; rewrite Hn; reflexivity).
  rewrite (bind_step _ _ _ _ _ _ _ Eg). rewrite Hts. rewrite (bind_step _ _ _ _ _ _ _ (eq_refl : ret ts c = (c, Val ts))).
  unfold bind at 1, upd_rec at 1, modws at 1. unfold bind at 1, modws at 1. unfold bind at 1, modify at 1.
  fold (clear_term c idx). fold (uncomplete t route (clear_term c idx)). fold (drop_task_errors t (uncomplete t route (clear_term c idx))).
  fold (rerun_prep t route idx c). set (c1 := rerun_prep t route idx c).
  rewrite (bind_step _ _ _ _ _ _ _ (eq_refl : getws c1 = (c1, Val (c_ws c1)))).
  assert (Hbr : task_has_items ts && match get_staged_task (c_ws c1) t route with Some _ => true | None => false end = false).
  { destruct Hplain as [Hi|Hs]; [rewrite Hi; reflexivity|]. apply andb_false_intro2.
    unfold c1, rerun_prep, drop_task_errors, uncomplete, clear_term, get_staged_task in *. simpl. rewrite staged_update_rec.
    rewrite find_staged_update_none; [reflexivity|intro; split; reflexivity|exact Hs]. }
  rewrite Hbr.
  assert (Hg1 : c_graph c1 = c_graph c) by reflexivity.
  (* the new record: no retry policy, so the evaluator is not consulted *)
  assert (Ea : add_task_state ev t route (r_in r) (r_prev r) c1 =
               (set_ws c1 (ws_set_tasks (ws_set_sequence (c_ws c1) (app (sequence (c_ws c1)) [new_rec t route r]))
                                        (aset tkey_eqb (t, route) (length (sequence (c_ws c1))) (tasks (c_ws c1)))),
                Val (length (sequence (c_ws c1))))).
  { unfold add_task_state. rewrite (bind_step _ _ _ _ _ _ _ (eq_refl : get c1 = (c1, Val c1))). rewrite Hg1, Hg, Hnr. cbn [negb]. cbv zeta.
    rewrite (bind_step _ _ _ _ _ _ _ (eq_refl : ret (@None retry_rec) c1 = (c1, Val None))).
    rewrite (bind_step _ _ _ _ _ _ _ (eq_refl : getws c1 = (c1, Val (c_ws c1)))). unfold bind, modws. reflexivity. }
  set (c2 := set_ws c1 (ws_set_tasks (ws_set_sequence (c_ws c1) (app (sequence (c_ws c1)) [new_rec t route r]))
                                     (aset tkey_eqb (t, route) (length (sequence (c_ws c1))) (tasks (c_ws c1))))) in *.
  set (c3 := set_ws c2 (ws_add_staged (c_ws c2) (mk_staged t route (r_in r) (r_prev r) true None))).
  assert (Eb : (add_task_state ev t route (r_in r) (r_prev r) ;;;
                modws (fun w => ws_add_staged w (mk_staged t route (r_in r) (r_prev r) true None))) c1 = (c3, Val tt))
    by (unfold bind; rewrite Ea; reflexivity).
  rewrite (bind_step _ _ _ _ _ _ _ Eb).
  rewrite (bind_step _ _ _ _ _ _ _ (eq_refl : getws c3 = (c3, Val (c_ws c3)))).
  assert (Es : exists s, get_task_sequence (c_ws c3) t route = Val s).
  { unfold get_task_sequence. destruct (ws_task_idx (c_ws c3) t route) eqn:E; [eexists; reflexivity|].
    exfalso. unfold c3, ws_task_idx in E. simpl in E. rewrite (aget_aset_same _ _ tkey_eqb (t, route)) in E by apply tkey_eqb_refl. discriminate. }
  destruct Es as [s Es]. unfold bind at 1. unfold lift_res. rewrite Es. unfold ret. rewrite forM_clear_run.
  unfold rerun_plain_state. cbv zeta. fold c1. fold c2. fold c3. unfold downstream. rewrite Es. reflexivity.
Qed.

Theorem rerun_items_exact : forall t route reset idx r ts c s0,
  ws_task_idx (c_ws c) t route = Some idx -> nth_error (sequence (c_ws c)) idx = Some r ->
  spec_get_task (c_spec c) t = Some ts -> task_has_items ts = true -> get_staged_task (c_ws c) t route = Some s0 ->
  request_task_rerun ev t route reset c = (rerun_items_state t route idx reset c, Val tt).
Proof.
  intros t route reset idx r ts c s0 Hp Hn Hts Hi Hs. unfold request_task_rerun.
  rewrite (bind_step _ _ _ _ _ _ _ (eq_refl : get c = (c, Val c))). rewrite Hp.
  rewrite (bind_step _ _ _ _ _ _ _ (eq_refl : ret idx c = (c, Val idx))).
  assert (Eg : get_rec idx c = (c, Val r)) by (unfold get_rec, bind, getws; rewrite Hn; reflexivity).
  rewrite (bind_step _ _ _ _ _ _ _ Eg). rewrite Hts. rewrite (bind_step _ _ _ _ _ _ _ (eq_refl : ret ts c = (c, Val ts))).
  unfold bind at 1, upd_rec at 1, modws at 1. unfold bind at 1, modws at 1. unfold bind at 1, modify at 1.
  fold (clear_term c idx). fold (uncomplete t route (clear_term c idx)). fold (drop_task_errors t (uncomplete t route (clear_term c idx))).
  fold (rerun_prep t route idx c). set (c1 := rerun_prep t route idx c).
  rewrite (bind_step _ _ _ _ _ _ _ (eq_refl : getws c1 = (c1, Val (c_ws c1)))).
  assert (Hbr : task_has_items ts && match get_staged_task (c_ws c1) t route with Some _ => true | None => false end = true).
  { rewrite Hi. cbn [andb]. unfold c1, rerun_prep, drop_task_errors, uncomplete, clear_term, get_staged_task in *. simpl.
    rewrite staged_update_rec. destruct (find_staged_update_some (fun s => s_set_completed s false) t route t route (staged (c_ws c)) s0) as [s' E];
      [intro; split; reflexivity|exact Hs|rewrite E; reflexivity]. }
  rewrite Hbr. unfold bind at 1, modws at 1. fold (reset_items_state t route reset c1). set (c2 := reset_items_state t route reset c1).
  rewrite (bind_step _ _ _ _ _ _ _ (eq_refl : getws c2 = (c2, Val (c_ws c2)))).
  assert (Es : exists s, get_task_sequence (c_ws c2) t route = Val s).
  { unfold get_task_sequence. assert (E : ws_task_idx (c_ws c2) t route = Some idx).
    { unfold c2, reset_items_state, c1, rerun_prep, drop_task_errors, uncomplete, clear_term, ws_task_idx in *. simpl. rewrite tasks_update_rec. exact Hp. }
    rewrite E. eexists; reflexivity. }
  destruct Es as [s Es]. unfold bind at 1. unfold lift_res. rewrite Es. unfold ret. rewrite forM_clear_run.
  unfold rerun_items_state. cbv zeta. fold c1. fold c2. unfold downstream. rewrite Es. reflexivity.
Qed.

End OneCandidate.

(* ------------------------------------------------------------------ (c) what a rerun does not touch *)

(* contexts, routes, graph, definition, rerun log (after its one new entry) *)
Definition Rcr (c c' : cstate) : Prop :=
  contexts (c_ws c') = contexts (c_ws c) /\ routes (c_ws c') = routes (c_ws c) /\ reruns (c_ws c') = reruns (c_ws c) /\
  c_graph c' = c_graph c /\ c_spec c' = c_spec c /\ c_inputs c' = c_inputs c /\ c_parent c' = c_parent c /\ c_init c' = c_init c.
Lemma Rcr_refl : forall c, Rcr c c.
Proof. intro; repeat split. Qed.
Lemma Rcr_trans : forall a b c, Rcr a b -> Rcr b c -> Rcr a c.
Proof. unfold Rcr; intros a b c H1 H2; intuition congruence. Qed.

Lemma reruns_update_rec : forall w i f, reruns (ws_update_rec w i f) = reruns w.
Proof. intros; unfold ws_update_rec; destruct (nth_error (sequence w) i); reflexivity. Qed.

(* staged entries of keys outside K *)
Definition outside (K : list tkey) (s : stg) : bool := negb (existsb (tkey_eqb (s_id s, s_route s)) K).
Definition Rsk (K : list tkey) (c c' : cstate) : Prop :=
  filter (outside K) (staged (c_ws c')) = filter (outside K) (staged (c_ws c)).
Lemma Rsk_refl : forall K c, Rsk K c c.
Proof. intros; reflexivity. Qed.
Lemma Rsk_trans : forall K a b c, Rsk K a b -> Rsk K b c -> Rsk K a c.
Proof. unfold Rsk; intros; congruence. Qed.

Lemma filter_staged_update_in : forall K f t r l, (forall s, s_id (f s) = s_id s /\ s_route (f s) = s_route s) ->
  existsb (tkey_eqb (t, r)) K = true -> filter (outside K) (staged_update f t r l) = filter (outside K) l.
Proof.
  intros K f t r l Hf HK; induction l as [|s l IH]; simpl; [reflexivity|].
  destruct (stg_matches t r s) eqn:Em; simpl.
  - assert (E1 : outside K (f s) = false /\ outside K s = false).
    { unfold stg_matches in Em. apply andb_prop in Em. destruct Em as [A B]. apply String.eqb_eq in A. apply Nat.eqb_eq in B.
      unfold outside. destruct (Hf s) as [-> ->]. rewrite A, B, HK. split; reflexivity. }
    destruct E1 as [-> ->]. reflexivity.
  - destruct (outside K s); [f_equal|]; exact IH.
Qed.

Section Frames.
Variable ev : string -> dict -> evalres.

Ltac leafc :=
  first
    [ apply (preserves_modws Rcr); intro; repeat split; simpl;
      first [reflexivity | apply contexts_update_rec | apply routes_update_rec | apply reruns_update_rec]
    | apply (preserves_modify Rcr); intro; cbv zeta;
      try match goal with |- context [if ?b then _ else _] => destruct b end; repeat split; reflexivity
    | assumption ].

Lemma pcr_wf_workflow_event : forall st, preserves Rcr (wf_workflow_event_M st).
Proof.
  intros st c c' r H. unfold wf_workflow_event_M in H.
  destruct (wf_process_workflow_event (c_graph c) (c_ws c) st) as [[n u]|e]; inversion H; subst; repeat split.
Qed.
Lemma pcr_request_status_core : forall st, preserves Rcr (request_status_core st).
Proof.
  intros; unfold request_status_core, set_rec_status, log_unreachable, log_error, log_entry_error.
  pw Rcr_refl Rcr_trans ltac:(first [apply pcr_wf_workflow_event | leafc]).
Qed.
Lemma pcr_request_task_rerun : forall t route b, preserves Rcr (request_task_rerun ev t route b).
Proof.
  intros; unfold request_task_rerun, upd_rec, add_task_state, setup_retry, get_task_context, get_rec, log_error, log_entry_error.
  pw Rcr_refl Rcr_trans ltac:(first [apply pcr_request_status_core | leafc]).
Qed.

Lemma psk_request_status_core : forall K st, preserves (Rsk K) (request_status_core st).
Proof. intros K st c c' r H. destruct (pst_request_status_core st _ _ _ H) as [E _]. unfold Rsk. rewrite E. reflexivity. Qed.

(* re-running one candidate touches the staged entries of its own key only *)
Lemma psk_request_task_rerun : forall K t route b, existsb (tkey_eqb (t, route)) K = true ->
  preserves (Rsk K) (request_task_rerun ev t route b).
Proof.
  intros K t route b HK. unfold request_task_rerun, upd_rec, add_task_state, setup_retry, get_task_context, get_rec, log_error, log_entry_error.
  pw (Rsk_refl K) (Rsk_trans K)
     ltac:(first [ apply psk_request_status_core
                 | apply (preserves_modws (Rsk K)); intro; unfold Rsk; simpl; first
                     [ reflexivity
                     | rewrite staged_update_rec; reflexivity
                     | apply filter_staged_update_in; [intro; split; reflexivity|exact HK]
                     | rewrite filter_app; simpl; unfold outside at 2; simpl; rewrite HK; simpl; apply app_nil_r ]
                 | apply (preserves_modify (Rsk K)); intro; reflexivity
                 | apply (preserves_modify (Rsk K)); intro; cbv zeta; match goal with |- context [if ?b then _ else _] => destruct b end; reflexivity
                 | assumption ]).
Qed.

Definition cand_keys (cands : list cand) : list tkey := map (fun '(_, (_, r)) => rkey r) cands.

Lemma cand_key_in : forall cands k i r, In (k, (i, r)) cands -> existsb (tkey_eqb (rkey r)) (cand_keys cands) = true.
Proof.
  intros cands k i r H. apply existsb_exists. exists (rkey r). split; [|apply tkey_eqb_refl].
  unfold cand_keys. apply in_map_iff. exists (k, (i, r)). split; [reflexivity|exact H].
Qed.

(* the whole rest of an accepted rerun *)
Theorem rerun_rest_frame : forall tasks_d cands c c' res, rerun_rest ev tasks_d cands c = (c', res) ->
  contexts (c_ws c') = contexts (c_ws c) /\ routes (c_ws c') = routes (c_ws c) /\
  c_graph c' = c_graph c /\ c_spec c' = c_spec c /\ c_init c' = c_init c /\
  reruns (c_ws c') = app (reruns (c_ws c)) [map (fun '(_, (i, _)) => i) cands] /\
  Rsk (cand_keys cands) c c'.
Proof.
  intros tasks_d cands c c' res H. unfold rerun_rest in H.
  unfold bind at 1, modws at 1 in H.
  set (c1 := set_ws c (ws_set_reruns (c_ws c) (app (reruns (c_ws c)) [map (fun '(_, (i, _)) => i) cands]))) in *.
  assert (Loop : forall cx cy ry,
            forM_ (sort_by cand_leb cands) (fun '(_, (_, r)) =>
              request_task_rerun ev (r_id r) (r_route r)
                match aget tkey_eqb (r_id r, r_route r) tasks_d with Some q => rq_reset_items q | None => false end) cx = (cy, ry) ->
            Rcr cx cy /\ Rsk (cand_keys cands) cx cy).
  { intros cx cy ry E. split.
    - revert E. apply (preserves_forM _ Rcr_refl Rcr_trans). intros [k [i r]]. apply pcr_request_task_rerun.
    - revert E. apply (preserves_forM_In _ (Rsk_refl _) (Rsk_trans _)). intros [k [i r]] Hin.
      apply In_sort_by in Hin. apply psk_request_task_rerun. exact (cand_key_in _ _ _ _ Hin). }
  assert (Tail : forall cx cy ry,
            (w <- getws ;;
             forM_ (fold_left (fun acc '(i, r) => if existsb (fun '(_, b) => b) (r_next r) then aset tkey_eqb (r_id r, r_route r) i acc else acc)
                              (get_terminal_tasks w) [])
                   (fun '(_, i) => upd_rec i (fun r => r_set_term r false)) ;;;
             modify (fun c => set_output c None) ;;; modws (fun w => ws_set_status w S_RESUMING)) cx = (cy, ry) ->
            Rcr cx cy /\ Rsk (cand_keys cands) cx cy).
  { intros cx cy ry E. split.
    - match type of E with ?m _ = _ => assert (P : preserves Rcr m) by (unfold upd_rec; pw Rcr_refl Rcr_trans ltac:(first [leafc])) end.
      eapply P; exact E.
    - match type of E with ?m _ = _ => assert (P : preserves (Rsk (cand_keys cands)) m) end; [|eapply P; exact E].
      unfold upd_rec.
      pw (Rsk_refl (cand_keys cands)) (Rsk_trans (cand_keys cands))
         ltac:(first [ apply (preserves_modws (Rsk (cand_keys cands))); intro; unfold Rsk; simpl; first [reflexivity|rewrite staged_update_rec; reflexivity]
                     | apply (preserves_modify (Rsk (cand_keys cands))); intro; reflexivity ]). }
  assert (All : Rcr c1 c' /\ Rsk (cand_keys cands) c1 c').
  { apply bind_inv in H. destruct H as [[c2 [u [E2 H]]]|[x [E2 ->]]]; [|apply (Loop _ _ _ E2)].
    destruct (Loop _ _ _ E2) as [A1 A2]. destruct (Tail _ _ _ H) as [B1 B2].
    split; [eapply Rcr_trans; eassumption|eapply Rsk_trans; eassumption]. }
  destruct All as [[A1 [A2 [A3 [A4 [A5 [_ [_ A8]]]]]]] B]. simpl in *.
  repeat (split; [assumption|]). exact B.
Qed.

End Frames.

(* ------------------------------------------------------------------ (e) nothing to re-run; (c),(d) for a whole accepted rerun *)

Definition continuable (w : wstate) : list (tkey * nat) :=
  fold_left (fun acc '(i, r) => if existsb (fun '(_, b) => b) (r_next r) then aset tkey_eqb (r_id r, r_route r) i acc else acc)
            (get_terminal_tasks w) [].

(* what a rerun with no candidate leaves behind: the input state with one empty entry in the rerun log, the terminal
   flag cleared on the continuable records (per key the last terminal record that has a satisfied transition), the
   output reset and the status resuming -- nothing staged, nothing appended (finding D9) *)
Definition empty_rerun_state (c : cstate) : cstate :=
  let c1 := set_ws c (ws_set_reruns (c_ws c) (app (reruns (c_ws c)) [[]])) in
  let c2 := clear_terms (map snd (continuable (c_ws c1))) c1 in
  let c3 := set_output c2 None in
  set_ws c3 (ws_set_status (c_ws c3) S_RESUMING).

Section Whole.
Variable ev : string -> dict -> evalres.

Lemma forM_continuable_run : forall (l : list (tkey * nat)) c,
  forM_ l (fun '(_, i) => upd_rec i (fun r => r_set_term r false)) c = (clear_terms (map snd l) c, Val tt).
Proof.
  induction l as [|[k i] l IH]; intro c; [reflexivity|]. cbn [forM_ map snd clear_terms fold_left].
  unfold bind, upd_rec at 1, modws. rewrite IH. reflexivity.
Qed.

Theorem empty_rerun_exact : forall reqs c, c_init c = true ->
  status_in (wstatus (c_ws c)) COMPLETED_STATUSES = true ->
  (forall k q, In (k, q) (reqs_dict reqs) -> ahas tkey_eqb k (tasks (c_ws c)) = true) ->
  cand_of (c_ws c) (reqs_dict reqs) = [] ->
  request_workflow_rerun ev reqs c = (empty_rerun_state c, Val tt).
Proof.
  intros reqs c Hi Hs Hall He. unfold request_workflow_rerun.
  rewrite (bind_step _ _ _ _ _ _ _ (ensure_ws_inited ev c Hi)).
  rewrite (bind_step _ _ _ _ _ _ _ (eq_refl : getws c = (c, Val (c_ws c)))). rewrite Hs. cbn [negb]. cbv zeta.
  fold (reqs_dict reqs).
  assert (Ef : filter (fun '(k, _) => negb (ahas tkey_eqb k (tasks (c_ws c)))) (reqs_dict reqs) = []).
  { destruct (filter _ (reqs_dict reqs)) as [|[k q] l] eqn:E; [reflexivity|]. exfalso.
    assert (Hin : In (k, q) (filter (fun '(k, _) => negb (ahas tkey_eqb k (tasks (c_ws c)))) (reqs_dict reqs))) by (rewrite E; left; reflexivity).
    apply filter_In in Hin. destruct Hin as [Hin Hb]. rewrite (Hall k q Hin) in Hb. discriminate. }
  rewrite Ef.
  assert (Hc : forall (K : list cand -> M unit),
    (candidates <- (match reqs_dict reqs with
                    | [] => ret (default_cands (c_ws c))
                    | _ => seqs <- mapM (fun '(k, q) => s <- lift_res (get_task_sequence (c_ws c) (rq_task q) (rq_route q)) ;; ret (k, s))
                                        (reqs_dict reqs) ;;
                           ret (flat_map (fun '(k, q) =>
                                  if ahas tkey_eqb k (collapse (reqs_dict reqs) seqs) then
                                    match ws_task_idx (c_ws c) (rq_task q) (rq_route q) with
                                    | Some i => match nth_error (sequence (c_ws c)) i with Some r => [(k, (i, r))] | None => [] end
                                    | None => []
                                    end
                                  else []) (reqs_dict reqs))
                    end) ;; K candidates) c = K (cand_of (c_ws c) (reqs_dict reqs)) c).
  { intro K. unfold cand_of. destruct (reqs_dict reqs) as [|p l0] eqn:Ed; [reflexivity|].
    unfold bind at 1. unfold bind at 1. rewrite seqs_pure; [reflexivity|].
    intros k q Hin. specialize (Hall k q Hin). rewrite (reqs_dict_keys reqs k q) in Hall by (rewrite Ed; exact Hin).
    unfold ahas, ws_task_idx in *. destruct (aget tkey_eqb (rq_task q, rq_route q) (tasks (c_ws c))); [discriminate|discriminate Hall]. }
  rewrite Hc. rewrite He. cbn [map sort_by fold_left forM_].
  unfold bind at 1, modws at 1. unfold bind at 1, ret at 1.
  set (c1 := set_ws c (ws_set_reruns (c_ws c) (app (reruns (c_ws c)) [[]]))).
  rewrite (bind_step _ _ _ _ _ _ _ (eq_refl : getws c1 = (c1, Val (c_ws c1)))). cbv zeta. fold (continuable (c_ws c1)).
  unfold bind at 1. rewrite forM_continuable_run. unfold bind, modify, modws. reflexivity.
Qed.

(* (c) for an accepted rerun, with the candidates named *)
Theorem rerun_accepted_frame : forall reqs c c', c_init c = true -> request_workflow_rerun ev reqs c = (c', Val tt) ->
  let cands := cand_of (c_ws c) (reqs_dict reqs) in
  contexts (c_ws c') = contexts (c_ws c) /\ routes (c_ws c') = routes (c_ws c) /\
  c_graph c' = c_graph c /\ c_spec c' = c_spec c /\ c_init c' = true /\
  reruns (c_ws c') = app (reruns (c_ws c)) [map (fun '(_, (i, _)) => i) cands] /\
  filter (outside (cand_keys cands)) (staged (c_ws c')) = filter (outside (cand_keys cands)) (staged (c_ws c)) /\
  wstatus (c_ws c') = S_RESUMING /\ c_output c' = None.
Proof.
  intros reqs c c' Hi H. cbv zeta. destruct (rerun_accepted_inv ev reqs c c' Hi H) as [_ [_ Hr]].
  destruct (rerun_rest_frame ev _ _ _ _ _ Hr) as [A1 [A2 [A3 [A4 [A5 [A6 A7]]]]]].
  destruct (rerun_accepted_effect ev reqs c c' H) as [B1 B2].
  repeat (split; [first [assumption|congruence]|]). exact B2.
Qed.

(* every staged entry after the rerun is an entry of a candidate's key or an untouched entry from before *)
Corollary rerun_staged_origin : forall reqs c c' s, c_init c = true -> request_workflow_rerun ev reqs c = (c', Val tt) ->
  In s (staged (c_ws c')) ->
  existsb (tkey_eqb (s_id s, s_route s)) (cand_keys (cand_of (c_ws c) (reqs_dict reqs))) = true \/ In s (staged (c_ws c)).
Proof.
  intros reqs c c' s Hi H Hin. destruct (rerun_accepted_frame reqs c c' Hi H) as [_ [_ [_ [_ [_ [_ [F _]]]]]]].
  destruct (existsb (tkey_eqb (s_id s, s_route s)) (cand_keys (cand_of (c_ws c) (reqs_dict reqs)))) eqn:E; [left; reflexivity|right].
  assert (Hf : In s (filter (outside (cand_keys (cand_of (c_ws c) (reqs_dict reqs)))) (staged (c_ws c')))).
  { apply filter_In. split; [exact Hin|]. unfold outside. rewrite E. reflexivity. }
  rewrite F in Hf. apply filter_In in Hf. apply Hf.
Qed.

(* (d) what the next poll can offer: ready, not-completed staged entries -- each of a candidate's key or staged ready
   before the rerun already (this is where stale entries of the first attempt come back: finding D21) *)
Corollary offers_after_rerun : forall reqs c c' c'' l, c_init c = true -> request_workflow_rerun ev reqs c = (c', Val tt) ->
  get_next_tasks ev c' = (c'', Val l) ->
  forall o, In o l -> exists s, In s (staged (c_ws c')) /\ s_ready s = true /\ s_completed s = false /\
    o_id o = s_id s /\ o_route o = s_route s /\
    (existsb (tkey_eqb (s_id s, s_route s)) (cand_keys (cand_of (c_ws c) (reqs_dict reqs))) = true \/ In s (staged (c_ws c))).
Proof.
  intros reqs c c' c'' l Hi H Hn o Ho.
  assert (Hi' : c_init c' = true) by (destruct (rerun_accepted_frame reqs c c' Hi H) as [_ [_ [_ [_ [X _]]]]]; exact X).
  destruct (offers_are_staged ev c' c'' l Hi' Hn o Ho) as [s [S1 [S2 [S3 [S4 S5]]]]].
  exists s. repeat (split; [assumption|]). eapply rerun_staged_origin; eassumption.
Qed.

End Whole.
