(* RetryBoundProofs.v -- the unconditional retry bound, stated on ENTRIES into the status `retrying`
   (each entry is one more execution of the task).  No protocol hypothesis: a tally that runs ahead
   under duplicate or ignored reports only costs retries.
   (a) [Rmono]  records are append-only; id, route and retry count of a record never change and its
       tally never decreases -- in every API operation, for every event;
   (b) [Rent]   an operation takes a record from not-retrying (or absent) to retrying only if its tally
       before was below its count, and its tally after is at least one more;
   (c) over a history the number of entries of a record plus its initial tally is at most its count.
   The quiet part of the engine (everything but the task-machine step, the increment and the nested
   calls) satisfies the stronger [Rq]: retry information untouched, nothing becomes retrying. *)
From Coq Require Import String List Bool ZArith Arith Lia.
From Orq Require Import GenStatuses GenEvents GenTables GenSpecMeta Base State Machines Codec Conductor Decode Api.
From Orq Require Import F_tables Hoare ValuePost C13Proofs C05Proofs RetryProofs.
Import ListNotations.
Open Scope string_scope.
Open Scope monad_scope.

(* ------------------------------------------------------------------ views of one record slot *)

Definition rec_at (c : cstate) (idx : nat) : option trec := nth_error (sequence (c_ws c)) idx.
Definition retrying_of (o : option trec) : bool :=
  match o with
  | Some r => match r_status r with Some s => status_eqb s S_RETRYING | None => false end
  | None => false
  end.
Definition tally_of (o : option trec) : nat :=
  match o with
  | Some r => match r_retry r with Some rr => rr_tally rr | None => 0 end
  | None => 0
  end.
Definition retr (c : cstate) (idx : nat) : bool := retrying_of (rec_at c idx).
Definition tal (c : cstate) (idx : nat) : nat := tally_of (rec_at c idx).

Definition retry_mono (o o' : option retry_rec) : Prop :=
  match o, o' with
  | Some rr, Some rr' => rr_count rr' = rr_count rr /\ rr_tally rr <= rr_tally rr'
  | None, None => True
  | _, _ => False
  end.

Lemma retry_mono_refl : forall o, retry_mono o o.
Proof. intros [rr|]; simpl; auto. Qed.
Lemma retry_mono_trans : forall a b c, retry_mono a b -> retry_mono b c -> retry_mono a c.
Proof.
  intros [x|] [y|] [z|]; simpl; try tauto. intros [H1 H2] [H3 H4]; split; [congruence|lia].
Qed.
Lemma retry_mono_eq : forall a b, b = a -> retry_mono a b.
Proof. intros a b ->; apply retry_mono_refl. Qed.

(* (a) *)
Definition Rmono (c c' : cstate) : Prop :=
  forall idx r, rec_at c idx = Some r ->
    exists r', rec_at c' idx = Some r' /\ r_id r' = r_id r /\ r_route r' = r_route r /\
               retry_mono (r_retry r) (r_retry r').

Lemma Rmono_refl : forall c, Rmono c c.
Proof. intros c idx r H; exists r; repeat split; [exact H|apply retry_mono_refl]. Qed.
Lemma Rmono_trans : forall a b c, Rmono a b -> Rmono b c -> Rmono a c.
Proof.
  intros a b c H1 H2 idx r H. destruct (H1 _ _ H) as [r1 [Hr1 [I1 [O1 M1]]]].
  destruct (H2 _ _ Hr1) as [r2 [Hr2 [I2 [O2 M2]]]].
  exists r2; repeat split; [exact Hr2|congruence|congruence|eapply retry_mono_trans; eassumption].
Qed.

Lemma tal_mono : forall c c' idx, Rmono c c' -> tal c idx <= tal c' idx.
Proof.
  intros c c' idx H. unfold tal. destruct (rec_at c idx) as [r|] eqn:E; [|simpl; lia].
  destruct (H _ _ E) as [r' [Hr' [_ [_ M]]]]. rewrite Hr'. simpl.
  destruct (r_retry r), (r_retry r'); simpl in M; try tauto; lia.
Qed.

(* the quiet relation *)
Definition Rq (c c' : cstate) : Prop :=
  (forall idx r, rec_at c idx = Some r ->
     exists r', rec_at c' idx = Some r' /\ r_id r' = r_id r /\ r_route r' = r_route r /\ r_retry r' = r_retry r) /\
  (forall idx, retr c' idx = true -> retr c idx = true).

Lemma Rq_refl : forall c, Rq c c.
Proof. intro c; split; [intros idx r H; exists r; auto|auto]. Qed.
Lemma Rq_trans : forall a b c, Rq a b -> Rq b c -> Rq a c.
Proof.
  intros a b c [H1 S1] [H2 S2]; split; [|auto]. intros idx r H.
  destruct (H1 _ _ H) as [r1 [Hr1 [I1 [O1 M1]]]]. destruct (H2 _ _ Hr1) as [r2 [Hr2 [I2 [O2 M2]]]].
  exists r2; repeat split; congruence.
Qed.

(* (b) *)
Definition entered_at (c c' : cstate) (idx : nat) : Prop :=
  exists r' rr', rec_at c' idx = Some r' /\ r_retry r' = Some rr' /\ py_is_int (rr_count rr') = true /\
                 (Z.of_nat (tal c idx) < py_int_value (rr_count rr'))%Z /\ tal c idx + 1 <= rr_tally rr'.

Definition Rent (c c' : cstate) : Prop :=
  Rmono c c' /\ forall idx, retr c idx = false -> retr c' idx = true -> entered_at c c' idx.

Lemma Rent_refl : forall c, Rent c c.
Proof. intro c; split; [apply Rmono_refl|]. intros idx H1 H2; congruence. Qed.

Lemma Rent_trans : forall a b c, Rent a b -> Rent b c -> Rent a c.
Proof.
  intros a b c [M1 E1] [M2 E2]; split; [eapply Rmono_trans; eassumption|].
  intros idx Ha Hc. destruct (retr b idx) eqn:Hb.
  - destruct (E1 idx Ha Hb) as [r1 [rr1 [Hr1 [Hrr1 [Hi [Hlt Hge]]]]]].
    destruct (M2 _ _ Hr1) as [r2 [Hr2 [_ [_ Mo]]]]. rewrite Hrr1 in Mo.
    destruct (r_retry r2) as [rr2|] eqn:Hrr2; simpl in Mo; [|tauto]. destruct Mo as [Mc Mt].
    exists r2, rr2. rewrite Mc. repeat split; try assumption. lia.
  - destruct (E2 idx Hb Hc) as [r2 [rr2 [Hr2 [Hrr2 [Hi [Hlt Hge]]]]]].
    pose proof (tal_mono _ _ idx M1) as Ht.
    exists r2, rr2. repeat split; try assumption; lia.
Qed.

Lemma Rq_Rmono : forall c c', Rq c c' -> Rmono c c'.
Proof.
  intros c c' [H _] idx r Hr. destruct (H _ _ Hr) as [r' [Hr' [I [O M]]]].
  exists r'; repeat split; try assumption. apply retry_mono_eq; exact M.
Qed.
Lemma Rq_Rent : forall c c', Rq c c' -> Rent c c'.
Proof.
  intros c c' H; split; [apply Rq_Rmono; exact H|]. destruct H as [_ S]. intros idx H1 H2.
  rewrite (S _ H2) in H1; discriminate.
Qed.
Lemma Rent_Rmono : forall c c', Rent c c' -> Rmono c c'.
Proof. intros c c' [H _]; exact H. Qed.

Lemma preserves_weaken : forall (R1 R2 : cstate -> cstate -> Prop), (forall c c', R1 c c' -> R2 c c') ->
  forall A (m : M A), preserves R1 m -> preserves R2 m.
Proof. intros R1 R2 H A m Hm c c' r E; apply H; eapply Hm; exact E. Qed.

(* ------------------------------------------------------------------ point updates and appends *)

Definition upd_at (c c' : cstate) (idx : nat) (r2 : trec) : Prop :=
  rec_at c' idx = Some r2 /\ forall j, j <> idx -> rec_at c' j = rec_at c j.

Lemma upd_at_trans : forall a b c idx x y, upd_at a b idx x -> upd_at b c idx y -> upd_at a c idx y.
Proof. intros a b c idx x y [_ H1] [H2 H3]; split; [exact H2|]. intros j Hj; rewrite H3, H1; auto. Qed.

Lemma upd_at_update_rec : forall c i f r, rec_at c i = Some r ->
  upd_at c (set_ws c (ws_update_rec (c_ws c) i f)) i (f r).
Proof.
  intros c i f r H; split; unfold rec_at; simpl.
  - apply nth_update_rec_same; exact H.
  - intros j Hj. apply nth_update_rec_other; auto.
Qed.

Lemma update_rec_absent : forall w i f, nth_error (sequence w) i = None -> ws_update_rec w i f = w.
Proof. intros w i f H; unfold ws_update_rec; rewrite H; reflexivity. Qed.

Lemma retr_other : forall c c' idx r2 j, upd_at c c' idx r2 -> j <> idx -> retr c' j = retr c j.
Proof. intros c c' idx r2 j [_ H] Hj; unfold retr; rewrite H; auto. Qed.

Lemma Rq_upd_at : forall c c' idx r r2, rec_at c idx = Some r -> upd_at c c' idx r2 ->
  r_id r2 = r_id r -> r_route r2 = r_route r -> r_retry r2 = r_retry r ->
  (retrying_of (Some r2) = true -> retrying_of (Some r) = true) -> Rq c c'.
Proof.
  intros c c' idx r r2 Hr [H2 Ho] Hi Hro Hre Hs; split.
  - intros j x Hx. destruct (Nat.eq_dec j idx) as [->|Hj].
    + rewrite Hr in Hx; inversion Hx; subst x. exists r2; auto.
    + exists x; rewrite Ho by exact Hj; auto.
  - intros j. unfold retr. destruct (Nat.eq_dec j idx) as [->|Hj]; [rewrite H2, Hr; exact Hs|rewrite Ho; auto].
Qed.

Lemma Rq_same : forall c c', sequence (c_ws c') = sequence (c_ws c) -> Rq c c'.
Proof.
  intros c c' H; split; unfold retr, rec_at; rewrite H; [intros idx r Hr; exists r; auto|auto].
Qed.

Lemma Rq_append : forall c c' r, sequence (c_ws c') = app (sequence (c_ws c)) [r] -> r_status r = None -> Rq c c'.
Proof.
  intros c c' r H Hs; split; unfold retr, rec_at; rewrite H.
  - intros idx x Hx. exists x. rewrite nth_error_app1 by (apply nth_error_Some; congruence). auto.
  - intros idx Hr. destruct (Nat.lt_ge_cases idx (length (sequence (c_ws c)))) as [Hl|Hl].
    + rewrite nth_error_app1 in Hr by exact Hl. exact Hr.
    + rewrite nth_error_app2 in Hr by exact Hl. destruct (idx - length (sequence (c_ws c))) as [|n]; simpl in Hr.
      * rewrite Hs in Hr; discriminate.
      * destruct n; discriminate.
Qed.

Definition quiet (f : trec -> trec) : Prop :=
  forall r, r_id (f r) = r_id r /\ r_route (f r) = r_route r /\ r_retry (f r) = r_retry r /\ r_status (f r) = r_status r.

Lemma Rq_update_rec : forall c i f, quiet f -> Rq c (set_ws c (ws_update_rec (c_ws c) i f)).
Proof.
  intros c i f Hf. destruct (rec_at c i) as [r|] eqn:E.
  - destruct (Hf r) as [H1 [H2 [H3 H4]]].
    eapply Rq_upd_at; [exact E|apply upd_at_update_rec; exact E|assumption..|]. simpl; rewrite H4; auto.
  - unfold rec_at in E. rewrite update_rec_absent by exact E. destruct c; apply Rq_refl.
Qed.

Lemma Rq_set_status : forall c i s, s <> S_RETRYING ->
  Rq c (set_ws c (ws_update_rec (c_ws c) i (fun r => r_set_status r (Some s)))).
Proof.
  intros c i s Hs. destruct (rec_at c i) as [r|] eqn:E.
  - eapply Rq_upd_at; [exact E|apply (upd_at_update_rec c i (fun r => r_set_status r (Some s))); exact E|reflexivity..|].
    simpl. intro H; apply status_eqb_eq in H; contradiction.
  - unfold rec_at in E. rewrite update_rec_absent by exact E. destruct c; apply Rq_refl.
Qed.

(* ------------------------------------------------------------------ the quiet part of the engine *)

Create HintDb presq.

Section Quiet.
Variable ev : string -> dict -> evalres.

Ltac quiet_side := intro; repeat split; reflexivity.

Ltac leaf :=
  first
    [ apply (preserves_modws Rq); intro; apply Rq_same; simpl; first [reflexivity|apply seq_remove_staged]
    | apply (preserves_modws Rq); intro; eapply Rq_append; [simpl; reflexivity|reflexivity]
    | apply (preserves_modify Rq); intro; apply Rq_same; simpl; reflexivity
    | apply (preserves_modify Rq); intro; apply Rq_same;
      match goal with |- context [if ?b then _ else _] => destruct b end; reflexivity
    | assumption
    | match goal with IH : forall _ _ _, preserves _ _ |- _ => apply IH end
    | match goal with IH : forall _ _, preserves _ _ |- _ => apply IH end
    | match goal with IH : forall _ _ _ _, preserves _ _ |- _ => apply IH end
    | eauto 3 with presq ].
Ltac walk := pw Rq_refl Rq_trans leaf.

Lemma pq_upd_rec : forall i f, quiet f -> preserves Rq (upd_rec i f).
Proof. intros i f Hf; unfold upd_rec. apply (preserves_modws Rq); intro c. apply Rq_update_rec; exact Hf. Qed.
Lemma pq_upd_term : forall i b, preserves Rq (upd_rec i (fun r => r_set_term r b)).
Proof. intros; apply pq_upd_rec; quiet_side. Qed.
Hint Resolve pq_upd_term : presq.
Lemma pq_upd_next : forall i (g : trec -> list (trid * bool)), preserves Rq (upd_rec i (fun r => r_set_next r (g r))).
Proof. intros; apply pq_upd_rec; quiet_side. Qed.
Hint Resolve pq_upd_next : presq.
Lemma pq_upd_out : forall i o, preserves Rq (upd_rec i (fun r => r_set_out r o)).
Proof. intros; apply pq_upd_rec; quiet_side. Qed.
Hint Resolve pq_upd_out : presq.

Lemma pq_set_status : forall i s, s <> S_RETRYING -> preserves Rq (set_rec_status i (Some s)).
Proof. intros i s Hs; unfold set_rec_status. apply (preserves_modws Rq); intro c. apply Rq_set_status; exact Hs. Qed.

Lemma pq_wf_workflow_event : forall st, preserves Rq (wf_workflow_event_M st).
Proof.
  intros st c c' r H. unfold wf_workflow_event_M in H.
  destruct (wf_process_workflow_event (c_graph c) (c_ws c) st) as [[new unr]|e]; inversion H; subst;
    [apply Rq_same; reflexivity|apply Rq_refl].
Qed.
Hint Resolve pq_wf_workflow_event : presq.
Lemma pq_wf_task_event : forall t route st, preserves Rq (wf_task_event_M t route st).
Proof.
  intros t route st c c' r H. unfold wf_task_event_M in H.
  destruct (wf_process_task_event (c_graph c) (c_ws c) t route st) as [[new unr]|e]; inversion H; subst;
    [apply Rq_same; reflexivity|apply Rq_refl].
Qed.
Hint Resolve pq_wf_task_event : presq.
Lemma pq_log_entry_error : forall m t r tr res, preserves Rq (log_entry_error m t r tr res).
Proof. intros; unfold log_entry_error; walk. Qed.
Hint Resolve pq_log_entry_error : presq.
Lemma pq_log_error : forall e t r tr, preserves Rq (log_error e t r tr).
Proof. intros; unfold log_error; auto with presq. Qed.
Hint Resolve pq_log_error : presq.
Lemma pq_log_errors : forall es t r tr, preserves Rq (log_errors es t r tr).
Proof. intros; unfold log_errors; walk. Qed.
Hint Resolve pq_log_errors : presq.
Lemma pq_log_unreachable : forall l, preserves Rq (log_unreachable l).
Proof. intros; unfold log_unreachable; walk. Qed.
Hint Resolve pq_log_unreachable : presq.
Lemma pq_get_rec : forall i, preserves Rq (get_rec i).
Proof. intros; unfold get_rec; walk. Qed.
Hint Resolve pq_get_rec : presq.

(* a status request moves task statuses by workflow events (never into retrying) and, when refused,
   puts the statuses of the then active tasks back *)
Lemma pq_request_status_core : forall st, preserves Rq (request_status_core st).
Proof.
  intros st; unfold request_status_core.
  apply (preserves_bind _ Rq_trans); [apply (preserves_getws _ Rq_refl)|intro w0]. cbv zeta.
  apply (preserves_bind _ Rq_trans).
  { apply (preserves_forM _ Rq_refl Rq_trans); intros [i r0].
    apply (preserves_bind _ Rq_trans); [apply (preserves_getws _ Rq_refl)|intro w].
    destruct (nth_error (sequence w) i) as [r|]; [|apply (preserves_ret _ Rq_refl)].
    apply (preserves_bind_v _ Rq_trans _ _ (fun ns => forall s, ns = Some s -> s <> S_RETRYING)).
    - intros c c' ns H s Hs; subst ns. apply lift_res_inv in H; destruct H as [_ H].
      eapply workflow_event_never_retrying; symmetry; exact H.
    - apply (preserves_lift_res _ Rq_refl).
    - intros [s|] Hns; [apply pq_set_status; apply Hns; reflexivity|apply (preserves_ret _ Rq_refl)]. }
  intros _.
  apply (preserves_bind _ Rq_trans); [apply pq_wf_workflow_event|intro unr].
  apply (preserves_bind _ Rq_trans); [apply pq_log_unreachable|intros _].
  apply (preserves_bind _ Rq_trans); [apply (preserves_getws _ Rq_refl)|intro w1].
  destruct (_ && _ && _); [apply (preserves_ret _ Rq_refl)|].
  destruct (_ && _ && _); [apply (preserves_ret _ Rq_refl)|].
  destruct (_ && _); [|apply (preserves_ret _ Rq_refl)].
  apply (preserves_bind _ Rq_trans); [|intro; apply (preserves_raise _ Rq_refl)].
  apply (preserves_forM_In _ Rq_refl Rq_trans). intros [i r] Hin.
  unfold ws_tasks_by_status in Hin. apply filter_In in Hin. destruct Hin as [_ Hin].
  apply andb_prop in Hin; destruct Hin as [Hin _].
  destruct (r_status r) as [s|]; [|discriminate].
  apply pq_set_status. intro; subst s. discriminate Hin.
Qed.
Hint Resolve pq_request_status_core : presq.

Lemma pq_render_input : forall specs rt rolling errs, preserves Rq (render_input ev specs rt rolling errs).
Proof. induction specs as [|[n d] specs IH]; intros; simpl; walk. Qed.
Hint Resolve pq_render_input : presq.
Lemma pq_render_vars : forall specs rolling rendered errs, preserves Rq (render_vars ev specs rolling rendered errs).
Proof. induction specs as [|[n d] specs IH]; intros; simpl; walk. Qed.
Hint Resolve pq_render_vars : presq.
Lemma pq_ensure_ws : preserves Rq (ensure_ws ev).
Proof. unfold ensure_ws; walk. Qed.
Hint Resolve pq_ensure_ws : presq.
Theorem pq_request_workflow_status : forall st, preserves Rq (request_workflow_status ev st).
Proof. intros; unfold request_workflow_status; walk. Qed.
Lemma pq_get_task_context : forall idxs, preserves Rq (get_task_context idxs).
Proof. intros; unfold get_task_context; walk. Qed.
Hint Resolve pq_get_task_context : presq.
Lemma pq_render_task : forall ts ctx, preserves Rq (render_task ev ts ctx).
Proof. intros; unfold render_task; walk. Qed.
Hint Resolve pq_render_task : presq.
Lemma pq_next_task_for : forall s, preserves Rq (next_task_for ev s).
Proof. intros; unfold next_task_for; walk. Qed.
Hint Resolve pq_next_task_for : presq.
Theorem pq_get_next_tasks : preserves Rq (get_next_tasks ev).
Proof. unfold get_next_tasks; walk. Qed.
Lemma pq_setup_retry : forall t idxs, preserves Rq (setup_retry ev t idxs).
Proof. intros; unfold setup_retry; walk. Qed.
Hint Resolve pq_setup_retry : presq.
Lemma pq_add_task_state : forall t r i p, preserves Rq (add_task_state ev t r i p).
Proof. intros; unfold add_task_state; walk. Qed.
Hint Resolve pq_add_task_state : presq.
Lemma pq_evaluate_route : forall e r, preserves Rq (evaluate_route e r).
Proof. intros; unfold evaluate_route; walk. Qed.
Hint Resolve pq_evaluate_route : presq.
Lemma pq_evaluate_task_retry : forall r ctx, preserves Rq (evaluate_task_retry ev r ctx).
Proof. intros; unfold evaluate_task_retry; walk. Qed.
Hint Resolve pq_evaluate_task_retry : presq.
Lemma pq_finalize_context : forall ts e ctx, preserves Rq (finalize_context ev ts e ctx).
Proof. intros; unfold finalize_context; walk. Qed.
Hint Resolve pq_finalize_context : presq.
Lemma pq_process_transition : forall t route idx ts ctx e, preserves Rq (process_transition ev t route idx ts ctx e).
Proof. intros; unfold process_transition; walk. Qed.
Hint Resolve pq_process_transition : presq.
Lemma pq_merge_term_contexts : forall l acc, preserves Rq (merge_term_contexts l acc).
Proof. induction l as [|[i r] l IH]; intros; simpl; walk. Qed.
Hint Resolve pq_merge_term_contexts : presq.
Theorem pq_render_workflow_output : preserves Rq (render_workflow_output ev).
Proof. unfold render_workflow_output, get_workflow_terminal_context; walk. Qed.
Lemma pq_request_task_rerun : forall t r b, preserves Rq (request_task_rerun ev t r b).
Proof. intros; unfold request_task_rerun; walk. Qed.
Hint Resolve pq_request_task_rerun : presq.
Theorem pq_request_workflow_rerun : forall reqs, preserves Rq (request_workflow_rerun ev reqs).
Proof. intros; unfold request_workflow_rerun; walk. Qed.

Lemma pq_persist : preserves Rq (persist ev).
Proof.
  intros c c' r H. unfold persist in H. apply bind_inv in H. destruct H as [[c1 [u [E1 H]]]|[e [E1 ->]]].
  - eapply Rq_trans; [eapply pq_ensure_ws; exact E1|].
    rewrite dec_cstate_enc_total in H. inversion H; subst. apply Rq_same; reflexivity.
  - eapply pq_ensure_ws; exact E1.
Qed.

Lemma pq_need_staged : forall s0, preserves Rq (uts_need_staged s0).
Proof. intros; unfold uts_need_staged; walk. Qed.
Hint Resolve pq_need_staged : presq.
Lemma pq_sel1 : forall t s0 e0, preserves Rq (uts_sel1 ev t s0 e0).
Proof. intros; unfold uts_sel1; walk. Qed.
Lemma pq_sel2 : forall t evt s0 r1 i, preserves Rq (uts_sel2 ev t evt s0 r1 i).
Proof. intros; unfold uts_sel2; walk. Qed.
Lemma pq_unstage : forall t route evt s0, preserves Rq (uts_unstage t route evt s0).
Proof. intros; unfold uts_unstage; walk. Qed.
Lemma pq_item : forall t route evt s0, preserves Rq (uts_item t route evt s0).
Proof. intros; unfold uts_item; walk. Qed.
Lemma pq_logfail : forall t evt, preserves Rq (uts_logfail t evt).
Proof. intros; unfold uts_logfail; walk. Qed.
Lemma pq_completion : forall t route evt ts idx ns o0, preserves Rq (uts_completion ev t route evt ts idx ns o0).
Proof. intros; unfold uts_completion; walk. Qed.
Lemma pq_queue : forall t route idx ts o n compl, preserves Rq (uts_queue ev t route idx ts o n compl).
Proof. intros; unfold uts_queue; walk. Qed.

End Quiet.

(* ------------------------------------------------------------------ the task-machine step and the increment *)

Lemma Rmono_upd_at : forall c c' idx r r2, rec_at c idx = Some r -> upd_at c c' idx r2 ->
  r_id r2 = r_id r -> r_route r2 = r_route r -> retry_mono (r_retry r) (r_retry r2) -> Rmono c c'.
Proof.
  intros c c' idx r r2 Hr [H2 Ho] Hi Hro Hm j x Hx. destruct (Nat.eq_dec j idx) as [->|Hj].
  - rewrite Hr in Hx; inversion Hx; subst x. exists r2; auto.
  - exists x; rewrite Ho by exact Hj. repeat split; auto. apply retry_mono_refl.
Qed.

Lemma Rent_upd_at : forall c c' idx r r2, rec_at c idx = Some r -> upd_at c c' idx r2 ->
  r_id r2 = r_id r -> r_route r2 = r_route r -> retry_mono (r_retry r) (r_retry r2) ->
  (retrying_of (Some r) = false -> retrying_of (Some r2) = true ->
   exists rr2, r_retry r2 = Some rr2 /\ py_is_int (rr_count rr2) = true /\
               (Z.of_nat (tally_of (Some r)) < py_int_value (rr_count rr2))%Z /\ tally_of (Some r) + 1 <= rr_tally rr2) ->
  Rent c c'.
Proof.
  intros c c' idx r r2 Hr Hu Hi Hro Hm He. split; [eapply Rmono_upd_at; eassumption|].
  intros j H1 H2. destruct (Nat.eq_dec j idx) as [->|Hj].
  - unfold retr in H1, H2. destruct Hu as [Hu _]. rewrite Hr in H1. rewrite Hu in H2.
    destruct (He H1 H2) as [rr2 [E1 [E2 [E3 E4]]]]. exists r2, rr2. unfold tal. rewrite Hr. auto.
  - rewrite (retr_other _ _ _ _ _ Hu Hj) in H2. congruence.
Qed.

Definition allowed (r : trec) : Prop := retry_allowed r true.

Lemma allowed_retry_eq : forall r r', r_retry r' = r_retry r -> allowed r -> allowed r'.
Proof. intros r r' E H Ht. destruct (H Ht) as [rr Hrr]. exists rr. rewrite E; exact Hrr. Qed.

Lemma setst_upd_at : forall idx ns c c1 res r, rec_at c idx = Some r -> uts_setst idx ns c = (c1, res) ->
  upd_at c c1 idx (stepped r ns) /\ tasks (c_ws c1) = tasks (c_ws c).
Proof.
  intros idx ns c c1 res r Hr H. unfold uts_setst in H. destruct ns as [s|].
  - unfold set_rec_status, modws in H; inversion H; subst. split.
    + exact (upd_at_update_rec c idx (fun r => r_set_status r (Some s)) r Hr).
    + simpl. apply tasks_update_rec.
  - inversion H; subst. split; [split; [exact Hr|auto]|reflexivity].
Qed.

Lemma retrying_upd_at : forall t route idx r st c c' res, rec_at c idx = Some r ->
  uts_retrying t route idx r st c = (c', res) ->
  tasks (c_ws c') = tasks (c_ws c) /\
  exists r2, upd_at c c' idx r2 /\ r_id r2 = r_id r /\ r_route r2 = r_route r /\ r_status r2 = r_status r /\
    (r_retry r2 = r_retry r \/
     (st = S_RETRYING /\ exists rr rr2, r_retry r = Some rr /\ r_retry r2 = Some rr2 /\
                                         rr_count rr2 = rr_count rr /\ rr_tally rr2 = S (rr_tally rr))) /\
    (st = S_RETRYING -> r_retry r <> None -> r_retry r2 <> r_retry r).
Proof.
  intros t route idx r st c c' res Hr H. unfold uts_retrying in H.
  assert (Same : c' = c -> tasks (c_ws c') = tasks (c_ws c) /\
     exists r2, upd_at c c' idx r2 /\ r_id r2 = r_id r /\ r_route r2 = r_route r /\ r_status r2 = r_status r /\
       (r_retry r2 = r_retry r \/
        (st = S_RETRYING /\ exists rr rr2, r_retry r = Some rr /\ r_retry r2 = Some rr2 /\
                                            rr_count rr2 = rr_count rr /\ rr_tally rr2 = S (rr_tally rr)))).
  { intros ->. split; [reflexivity|]. exists r. split; [split; [exact Hr|auto]|]. do 3 (split; [reflexivity|]). left; reflexivity. }
  destruct (status_eqb st S_RETRYING) eqn:E.
  2: { inversion H; subst. destruct (Same eq_refl) as [S1 [r2 [S2 [S3 [S4 [S5 S6]]]]]].
       split; [exact S1|]. exists r2. do 5 (split; [assumption|]).
       intros Hs; subst st. rewrite status_eqb_refl in E; discriminate. }
  apply status_eqb_eq in E.
  destruct (r_retry r) as [rr|] eqn:Er.
  2: { inversion H; subst. destruct (Same eq_refl) as [S1 [r2 [S2 [S3 [S4 [S5 S6]]]]]].
       split; [exact S1|]. exists r2. do 5 (split; [assumption|]). intros _ Hn; congruence. }
  cbv zeta in H. unfold bind, upd_rec, modws in H. cbv beta iota in H. inversion H; subst c' res; clear H.
  split; [simpl; rewrite tasks_remove_staged; simpl; apply tasks_update_rec|].
  eexists. split; [|split; [|split; [|split; [|split]]]].
  - pose proof (upd_at_update_rec c idx (fun r0 => r_set_retry r0 (Some {| rr_when := rr_when rr; rr_count := rr_count rr;
                  rr_delay := rr_delay rr; rr_tally := S (rr_tally rr) |})) r Hr) as [U1 U2].
    split; unfold rec_at in *; simpl; rewrite seq_remove_staged; [exact U1|exact U2].
  - reflexivity.
  - reflexivity.
  - reflexivity.
  - right. split; [exact E|]. eexists; eexists; split; [reflexivity|]. split; [simpl; reflexivity|].
    split; reflexivity.
  - intros _ _. simpl. intro Hc.
    apply (f_equal (fun o => match o with Some x => rr_tally x | None => 0 end)) in Hc. simpl in Hc. lia.
Qed.

(* the two steps together: status set by the machine, tally incremented if the status is then retrying *)
Lemma step_rel : forall t route idx ns c c1 res1 c2 res2 r, rec_at c idx = Some r ->
  uts_setst idx ns c = (c1, res1) ->
  uts_retrying t route idx (stepped r ns) (rstatus (stepped r ns)) c1 = (c2, res2) ->
  tasks (c_ws c2) = tasks (c_ws c) /\ Rmono c c2 /\ ((ns = Some S_RETRYING -> allowed r) -> Rent c c2).
Proof.
  intros t route idx ns c c1 res1 c2 res2 r Hr E1 E2.
  destruct (setst_upd_at _ _ _ _ _ _ Hr E1) as [U1 T1].
  destruct (retrying_upd_at _ _ _ _ _ _ _ _ (proj1 U1) E2) as [T2 [r2 [U2 [I2 [O2 [S2 [D2 N2]]]]]]].
  pose proof (upd_at_trans _ _ _ _ _ _ U1 U2) as U.
  assert (Hid : r_id r2 = r_id r) by (rewrite I2; destruct ns; reflexivity).
  assert (Hro : r_route r2 = r_route r) by (rewrite O2; destruct ns; reflexivity).
  assert (Hm : retry_mono (r_retry r) (r_retry r2)).
  { destruct D2 as [D2|[_ [rr [rr2 [A1 [A2 [A3 A4]]]]]]].
    - apply retry_mono_eq. rewrite D2. apply stepped_retry.
    - rewrite stepped_retry in A1. rewrite A1, A2. simpl. split; [exact A3|lia]. }
  split; [congruence|]. split; [eapply Rmono_upd_at; eassumption|].
  intro Hal. eapply Rent_upd_at; try eassumption.
  intros Hb Ha. simpl in Hb, Ha. rewrite S2 in Ha.
  assert (Hns : ns = Some S_RETRYING).
  { destruct ns as [s|]; simpl in Ha; [apply status_eqb_eq in Ha; subst; reflexivity|]. congruence. }
  specialize (Hal Hns). destruct (Hal eq_refl) as [rr [Hrr [Hint Hlt]]].
  assert (Hst : rstatus (stepped r ns) = S_RETRYING) by (subst ns; reflexivity).
  destruct D2 as [D2|[_ [rr' [rr2 [A1 [A2 [A3 A4]]]]]]].
  - exfalso. apply (N2 Hst); [rewrite stepped_retry, Hrr; discriminate|exact D2].
  - rewrite stepped_retry, Hrr in A1; inversion A1; subst rr'.
    exists rr2. simpl. rewrite Hrr. rewrite A3, A4. repeat split; try assumption; lia.
Qed.

(* ------------------------------------------------------------------ which calls may enter retrying *)

(* events from outside: anything but the engine's own retry request *)
Definition external_event (evt : event) : bool :=
  match evt with EvEngine n _ => negb (String.eqb n EV_TASK_RETRY_REQUESTED) | _ => true end.

Lemma provider_external : forall evt, provider_event evt = true -> external_event evt = true.
Proof. intros [| | |]; simpl; intro H; try reflexivity; discriminate. Qed.

Definition rec_ok2 (evt : event) (r : trec) : Prop :=
  r_status r = None \/ external_event evt = true \/ allowed r.

Definition entry2 (evt : event) (c : cstate) (t : string) (route : nat) : Prop :=
  external_event evt = true \/ is_engine_command t = true \/
  forall i r, ws_task_idx (c_ws c) t route = Some i -> rec_at c i = Some r -> allowed r.

Lemma entry2_Rnr : forall evt c c' t route, entry2 evt c t route -> Rnr c c' -> entry2 evt c' t route.
Proof.
  intros evt c c' t route [H|[H|H]] [Ht Hs]; [left; exact H|right; left; exact H|right; right].
  intros i r' Hp Hn. unfold ws_task_idx in *. rewrite Ht in Hp. destruct (Hs _ _ Hn) as [r [Hr [Er _]]].
  eapply allowed_retry_eq; [exact Er|]. eapply H; eassumption.
Qed.

(* the machine sets retrying only on a record for which the retry was decided *)
Lemma machine_enters_allowed : forall w r evt, rec_ok2 evt r ->
  task_process_event w r evt = Val (Some S_RETRYING) -> allowed r.
Proof.
  intros w r evt Hok H. destruct Hok as [Hnone|[Hext|Hal]]; [exfalso|exfalso|exact Hal].
  - destruct (tpe_step _ _ _ _ H) as [name Hn]. unfold rstatus in Hn. rewrite Hnone in Hn.
    apply F_task_retrying_only_by_retry in Hn. destruct Hn as [_ Hn]. exact (unset_not_completed Hn).
  - destruct evt as [st|st res|item st res acc|n st].
    + exact (workflow_event_never_retrying _ _ _ _ H eq_refl).
    + destruct (tpe_provider w r (EvAction st res) _ eq_refl H) as [name [Hn [Hne _]]].
      apply F_task_retrying_only_by_retry in Hn. exact (Hne (proj1 Hn)).
    + destruct (tpe_provider w r (EvItem item st res acc) _ eq_refl H) as [name [Hn [Hne _]]].
      apply F_task_retrying_only_by_retry in Hn. exact (Hne (proj1 Hn)).
    + apply tpe_engine in H. apply F_task_retrying_only_by_retry in H. destruct H as [H _]. subst n.
      vm_compute in Hext. discriminate.
Qed.

Section Entries.
Variable ev : string -> dict -> evalres.

Ltac binv H c1 a E :=
  apply bind_inv in H; destruct H as [[c1 [a [E H]]]|[?e [E ->]]].

Definition decided2 (c : cstate) (t : string) (route : nat) (p : pre_out) : Prop :=
  forall ctx, po_compl p = Some (ctx, true) ->
    ws_task_idx (c_ws c) t route = Some (po_idx p) /\ exists r, rec_at c (po_idx p) = Some r /\ allowed r.

Lemma machine_both : forall t route evt ts idx c c' res,
  pre_machine ev t route evt ts idx c = (c', res) ->
  Rmono c c' /\
  ((forall r, rec_at c idx = Some r -> rec_ok2 evt r) -> ws_task_idx (c_ws c) t route = Some idx ->
   Rent c c' /\ forall p, res = Val p -> decided2 c' t route p).
Proof.
  intros t route evt ts idx c c' res H. unfold pre_machine in H.
  assert (Stop : forall x, c' = c -> res = Exc x ->
    Rmono c c' /\ ((forall r, rec_at c idx = Some r -> rec_ok2 evt r) -> ws_task_idx (c_ws c) t route = Some idx ->
                   Rent c c' /\ forall p, res = Val p -> decided2 c' t route p)).
  { intros x -> ->. split; [apply Rmono_refl|]. intros _ _. split; [apply Rent_refl|discriminate]. }
  binv H c0 r E0; [|apply get_rec_state in E0; eapply Stop; [exact E0|reflexivity]].
  apply get_rec_inv in E0; destruct E0 as [-> Hr].
  binv H c0 w E0; [|inversion E0]. inversion E0; subst c0 w; clear E0.
  binv H c0 ns E0; [|apply lift_res_inv in E0; destruct E0 as [-> _]; eapply Stop; reflexivity].
  apply lift_res_inv in E0; destruct E0 as [-> Ens]. symmetry in Ens.
  binv H c1 u1 E1; [|destruct (setst_inv _ _ _ _ _ _ E1 Hr) as [F _]; discriminate F].
  destruct (setst_inv _ _ _ _ _ _ E1 Hr) as [_ [_ [_ Hn1]]]. fold (stepped r ns) in Hn1.
  binv H c0 r' E0.
  2: { unfold get_rec, bind, getws in E0. rewrite Hn1 in E0. inversion E0. }
  apply get_rec_inv in E0; destruct E0 as [-> Hr']. rewrite Hn1 in Hr'; inversion Hr'; subst r'; clear Hr'.
  assert (Both : forall c2 res2, uts_retrying t route idx (stepped r ns) (rstatus (stepped r ns)) c1 = (c2, res2) ->
     tasks (c_ws c2) = tasks (c_ws c) /\ Rmono c c2 /\
     ((forall r, rec_at c idx = Some r -> rec_ok2 evt r) -> Rent c c2)).
  { intros c2 res2 E2. destruct (step_rel _ _ _ _ _ _ _ _ _ _ Hr E1 E2) as [T [Mo En]].
    split; [exact T|]. split; [exact Mo|]. intro Hok. apply En. intro Hns; subst ns.
    eapply machine_enters_allowed; [apply Hok; exact Hr|exact Ens]. }
  binv H c2 u2 E2.
  2: { destruct (Both _ _ E2) as [_ [Mo En]]. split; [exact Mo|]. intros Hok _. split; [apply En; exact Hok|discriminate]. }
  destruct (Both _ _ E2) as [T2 [Mo2 En2]].
  binv H c3 compl E3.
  2: { pose proof (pq_completion ev _ _ _ _ _ _ _ _ _ _ E3) as Q. split; [eapply Rmono_trans; [exact Mo2|apply Rq_Rmono; exact Q]|].
       intros Hok _. split; [eapply Rent_trans; [apply En2; exact Hok|apply Rq_Rent; exact Q]|discriminate]. }
  pose proof (pq_completion ev _ _ _ _ _ _ _ _ _ _ E3) as Q.
  inversion H; subst c' res; clear H.
  split; [eapply Rmono_trans; [exact Mo2|apply Rq_Rmono; exact Q]|].
  intros Hok Hp. split; [eapply Rent_trans; [apply En2; exact Hok|apply Rq_Rent; exact Q]|].
  intros p Hpv; inversion Hpv; subst p; clear Hpv. intros ctx Hc; simpl in *.
  destruct (completion_inv _ _ _ _ _ _ _ _ _ _ _ E3) as [[_ [Hn0 _]]|[_ [c4 [r4 [ctx4 [b4 [[Ks Kt] [_ [Hr4 [Hc4 [Hb4 _]]]]]]]]]]].
  - rewrite Hn0 in Hc; discriminate.
  - rewrite Hc4 in Hc; inversion Hc; subst ctx4 b4. destruct (Hb4 eq_refl) as [-> [_ Hal]].
    split; [|exists r4; split; [exact Hr4|exact Hal]].
    unfold ws_task_idx in *. rewrite Kt, T2. exact Hp.
Qed.

Lemma main_both : forall t route evt ts s0 e0 c c' res,
  pre_main ev t route evt ts s0 e0 c = (c', res) ->
  Rmono c c' /\
  ((forall s, s0 = Some s -> s_route s = route) -> e0 = ws_task_idx (c_ws c) t route -> entry2 evt c t route ->
   Rent c c' /\ forall p, res = Val p -> decided2 c' t route p).
Proof.
  intros t route evt ts s0 e0 c c' res H. unfold pre_main in H.
  assert (Stop : forall x, Rq c c' -> res = Exc x ->
    Rmono c c' /\ ((forall s, s0 = Some s -> s_route s = route) -> e0 = ws_task_idx (c_ws c) t route -> entry2 evt c t route ->
                   Rent c c' /\ forall p, res = Val p -> decided2 c' t route p)).
  { intros x Q ->. split; [apply Rq_Rmono; exact Q|]. intros _ _ _. split; [apply Rq_Rent; exact Q|discriminate]. }
  binv H c1 idx1 E1; [|eapply Stop; [eapply pq_sel1; exact E1|reflexivity]].
  pose proof (pq_sel1 ev _ _ _ _ _ _ E1) as Q1.
  binv H c0 r1 E0; [|apply get_rec_state in E0; subst; eapply Stop; [exact Q1|reflexivity]].
  apply get_rec_inv in E0; destruct E0 as [-> Hr1].
  binv H c2 idx E2; [|eapply Stop; [eapply Rq_trans; [exact Q1|eapply pq_sel2; exact E2]|reflexivity]].
  pose proof (Rq_trans _ _ _ Q1 (pq_sel2 ev _ _ _ _ _ _ _ _ E2)) as Q2.
  binv H c3 u3 E3; [|eapply Stop; [eapply Rq_trans; [exact Q2|eapply pq_unstage; exact E3]|reflexivity]].
  pose proof (Rq_trans _ _ _ Q2 (pq_unstage _ _ _ _ _ _ _ E3)) as Q3.
  binv H c4 u4 E4; [|eapply Stop; [eapply Rq_trans; [exact Q3|eapply pq_item; exact E4]|reflexivity]].
  pose proof (Rq_trans _ _ _ Q3 (pq_item _ _ _ _ _ _ _ E4)) as Q4.
  binv H c5 u5 E5; [|eapply Stop; [eapply Rq_trans; [exact Q4|eapply pq_logfail; exact E5]|reflexivity]].
  pose proof (Rq_trans _ _ _ Q4 (pq_logfail _ _ _ _ _ E5)) as Q5.
  destruct (machine_both _ _ _ _ _ _ _ _ H) as [Mo En].
  split; [eapply Rmono_trans; [apply Rq_Rmono; exact Q5|exact Mo]|].
  intros Hroute He0 Hok.
  assert (K : Rk c2 c5).
  { eapply Rk_trans; [eapply pk_unstage; exact E3|]. eapply Rk_trans; [eapply pk_item; exact E4|eapply pk_logfail; exact E5]. }
  destruct (select_inv ev _ _ _ _ _ _ _ _ _ _ _ _ Hroute He0 E1 Hr1 E2 K) as [r [Hn [Hp Hd]]].
  assert (G : Rent c5 c' /\ forall p, res = Val p -> decided2 c' t route p).
  { apply En; [|exact Hp]. intros r' Hr'. unfold rec_at in Hr'. rewrite Hn in Hr'; inversion Hr'; subst r'; clear Hr'.
    destruct Hd as [[He [Hc [Ks Kt]]]|[Hd _]]; [|left; exact Hd].
    destruct Hok as [Hok|[Hok|Hok]]; [right; left; exact Hok|congruence|right; right].
    apply (Hok idx); [rewrite <- He0; exact He|unfold rec_at; rewrite <- Ks; exact Hn]. }
  destruct G as [G1 G2]. split; [eapply Rent_trans; [apply Rq_Rent; exact Q5|exact G1]|exact G2].
Qed.

Lemma prefix_both : forall t route evt c c' res,
  uts_prefix ev t route evt c = (c', res) ->
  Rmono c c' /\ (entry2 evt c t route -> Rent c c' /\ forall p, res = Val p -> decided2 c' t route p).
Proof.
  intros t route evt c c' res H. unfold uts_prefix in H.
  assert (Stop : forall x, Rq c c' -> res = Exc x ->
    Rmono c c' /\ (entry2 evt c t route -> Rent c c' /\ forall p, res = Val p -> decided2 c' t route p)).
  { intros x Q ->. split; [apply Rq_Rmono; exact Q|]. intros _. split; [apply Rq_Rent; exact Q|discriminate]. }
  binv H c1 u1 E1; [|eapply Stop; [eapply pq_ensure_ws; exact E1|reflexivity]].
  pose proof (pq_ensure_ws ev _ _ _ E1) as Q1.
  binv H c0 cst E0; [|inversion E0]. inversion E0; subst c0 cst; clear E0.
  destruct (negb (g_has_task (c_graph c1) t)); [inversion H; subst; eapply Stop; [exact Q1|reflexivity]|].
  cbv zeta in H.
  binv H c2 ts E2.
  2: { destruct (spec_get_task (c_spec c1) t); inversion E2; subst. eapply Stop; [exact Q1|reflexivity]. }
  assert (c2 = c1) as -> by (destruct (spec_get_task (c_spec c1) t); inversion E2; reflexivity).
  assert (Hroute : forall s, get_staged_task (c_ws c1) t route = Some s -> s_route s = route)
    by (intros s Hs; apply get_staged_matches in Hs; apply Hs).
  remember (get_staged_task (c_ws c1) t route) as s0 eqn:Es0.
  remember (ws_task_idx (c_ws c1) t route) as e0 eqn:Ee0.
  assert (G : pre_main ev t route evt ts s0 e0 c1 = (c', res) ->
    Rmono c c' /\ (entry2 evt c t route -> Rent c c' /\ forall p, res = Val p -> decided2 c' t route p)).
  { intro Hm. destruct (main_both _ _ _ _ _ _ _ _ _ Hm) as [Mo En].
    split; [eapply Rmono_trans; [apply Rq_Rmono; exact Q1|exact Mo]|]. intro Hok.
    destruct (En Hroute Ee0 (entry2_Rnr _ _ _ _ _ Hok (pn_ensure_ws ev _ _ _ E1))) as [G1 G2].
    split; [eapply Rent_trans; [apply Rq_Rent; exact Q1|exact G1]|exact G2]. }
  destruct s0, e0; try (apply G; exact H). inversion H; subst; eapply Stop; [exact Q1|reflexivity].
Qed.

(* the rest of the tail, for any preorder that contains the quiet relation *)
Lemma tail_rest_pres : forall (R : cstate -> cstate -> Prop), (forall c, R c c) -> (forall x y z, R x y -> R y z -> R x z) ->
  (forall c c', Rq c c' -> R c c') ->
  forall rec, (forall q, Forall cmd_pair q -> preserves R (forM_ q (uts_call rec))) ->
  forall t route ts idx old new compl,
  preserves R
   (queue <- uts_queue ev t route idx ts old new compl ;;
    r <- get_rec idx ;;
    st <- (match r_status r with Some s => ret s | None => raise (exn_key "status") end) ;;
    unreachable <- wf_task_event_M t route st ;;
    log_unreachable unreachable ;;;
    forM_ queue (uts_call rec) ;;;
    w <- getws ;;
    if status_in (wstatus w) COMPLETED_STATUSES then upd_rec idx (fun r => r_set_term r true) else ret tt).
Proof.
  intros R Rr Rtr Hsub rec Hloop t route ts idx old new compl.
  assert (W : forall A (m : M A), preserves Rq m -> preserves R m) by (intros A m; apply preserves_weaken; exact Hsub).
  apply (preserves_bind_v _ Rtr _ _ (Forall cmd_pair)); [apply queue_cmds|apply W; apply pq_queue|intros q Hq].
  apply (preserves_bind _ Rtr); [apply W; apply pq_get_rec|intro r].
  apply (preserves_bind _ Rtr);
    [destruct (r_status r); [apply (preserves_ret _ Rr)|apply (preserves_raise _ Rr)]|intro st].
  apply (preserves_bind _ Rtr); [apply W; apply pq_wf_task_event|intro unr].
  apply (preserves_bind _ Rtr); [apply W; apply pq_log_unreachable|intros _].
  apply (preserves_bind _ Rtr); [apply Hloop; exact Hq|intros _].
  apply (preserves_bind _ Rtr); [apply (preserves_getws _ Rr)|intro w].
  destruct (status_in (wstatus w) COMPLETED_STATUSES); [apply W; apply pq_upd_term|apply (preserves_ret _ Rr)].
Qed.

(* (a) for the re-entrant call: every event, every state *)
Definition callm (rec : string -> nat -> event -> M unit) : Prop := forall t route evt, preserves Rmono (rec t route evt).

Lemma body_mono : forall rec, callm rec -> callm (uts_body ev rec).
Proof.
  intros rec Hrec t route evt c c' r H. rewrite body_eq in H.
  binv H c1 p E1; [|apply (proj1 (prefix_both _ _ _ _ _ _ E1))].
  eapply Rmono_trans; [apply (proj1 (prefix_both _ _ _ _ _ _ E1))|]. unfold tail_of, uts_tail in H.
  assert (P : forall compl', preserves Rmono
     (queue <- uts_queue ev t route (po_idx p) (po_ts p) (po_old p) (po_new p) compl' ;;
      r <- get_rec (po_idx p) ;;
      st <- (match r_status r with Some s => ret s | None => raise (exn_key "status") end) ;;
      unreachable <- wf_task_event_M t route st ;;
      log_unreachable unreachable ;;;
      forM_ queue (uts_call rec) ;;;
      w <- getws ;;
      if status_in (wstatus w) COMPLETED_STATUSES then upd_rec (po_idx p) (fun r => r_set_term r true) else ret tt)).
  { intro compl'. apply (tail_rest_pres Rmono Rmono_refl Rmono_trans Rq_Rmono).
    intros q _. apply (preserves_forM _ Rmono_refl Rmono_trans). intros [n rt]. unfold uts_call.
    destruct (engine_event n); [apply Hrec|apply (preserves_raise _ Rmono_refl)]. }
  destruct (po_compl p) as [[ctx [|]]|]; [eapply Hrec; exact H|exact (P _ _ _ _ H)|exact (P _ _ _ _ H)].
Qed.

Lemma uts_fuel_mono : forall fuel, callm (update_task_state_fuel ev fuel).
Proof.
  induction fuel as [|fuel IH]; [intros t route evt; apply (preserves_raise _ Rmono_refl)|].
  intros t route evt. rewrite uts_unfold. apply body_mono; exact IH.
Qed.

(* (b) for the re-entrant call *)
Definition call2 (rec : string -> nat -> event -> M unit) : Prop :=
  forall t route evt c c' r, entry2 evt c t route -> rec t route evt c = (c', r) -> Rent c c'.

Lemma body_ent : forall rec, call2 rec -> call2 (uts_body ev rec).
Proof.
  intros rec Hrec t route evt c c' r Hok H. rewrite body_eq in H.
  binv H c1 p E1; [|apply (proj2 (prefix_both _ _ _ _ _ _ E1) Hok)].
  destruct (proj2 (prefix_both _ _ _ _ _ _ E1) Hok) as [En Hd]. specialize (Hd p eq_refl).
  eapply Rent_trans; [exact En|]. unfold tail_of, uts_tail in H.
  assert (P : forall compl', preserves Rent
     (queue <- uts_queue ev t route (po_idx p) (po_ts p) (po_old p) (po_new p) compl' ;;
      r <- get_rec (po_idx p) ;;
      st <- (match r_status r with Some s => ret s | None => raise (exn_key "status") end) ;;
      unreachable <- wf_task_event_M t route st ;;
      log_unreachable unreachable ;;;
      forM_ queue (uts_call rec) ;;;
      w <- getws ;;
      if status_in (wstatus w) COMPLETED_STATUSES then upd_rec (po_idx p) (fun r => r_set_term r true) else ret tt)).
  { intro compl'. apply (tail_rest_pres Rent Rent_refl Rent_trans Rq_Rent).
    intros q Hq. apply (preserves_forM_In _ Rent_refl Rent_trans). intros [n rt] Hin.
    rewrite Forall_forall in Hq. specialize (Hq _ Hin). unfold uts_call.
    destruct (engine_event n); [|apply (preserves_raise _ Rent_refl)].
    intros x x' rr Hx. eapply Hrec; [right; left; exact Hq|exact Hx]. }
  destruct (po_compl p) as [[ctx [|]]|] eqn:Ec; [|exact (P _ _ _ _ H)|exact (P _ _ _ _ H)].
  eapply Hrec; [|exact H]. right; right. intros i x Hp Hx.
  destruct (Hd ctx Ec) as [Hp' [x' [Hx' Hal]]].
  rewrite Hp in Hp'; inversion Hp'; subst i. rewrite Hx in Hx'; inversion Hx'; subst x'. exact Hal.
Qed.

Lemma uts_fuel_ent : forall fuel, call2 (update_task_state_fuel ev fuel).
Proof.
  induction fuel as [|fuel IH]; [intros t route evt c c' r _ H; inversion H; subst; apply Rent_refl|].
  intros t route evt. rewrite uts_unfold. apply body_ent; exact IH.
Qed.

End Entries.

(* ------------------------------------------------------------------ API operations and histories *)

Section History.
Variable ev : string -> dict -> evalres.

Definition op_external (op : api_op) : Prop :=
  match op with OpEvent _ _ e => external_event e = true | _ => True end.

Lemma bind_ret_pres : forall (R : cstate -> cstate -> Prop), (forall c, R c c) -> (forall x y z, R x y -> R y z -> R x z) ->
  forall A B (m : M A) (k : A -> B), preserves R m -> preserves R (a <- m ;; ret (k a)).
Proof. intros R Rr Rtr A B m k Hm. apply (preserves_bind _ Rtr); [exact Hm|intro; apply (preserves_ret _ Rr)]. Qed.

Lemma api_exec_quiet : forall op, (forall t r e, op <> OpEvent t r e) -> preserves Rq (api_exec ev op).
Proof.
  intros op Hne. destruct op; cbn [api_exec].
  - apply (bind_ret_pres _ Rq_refl Rq_trans _ _ _ (fun _ => RUnit)); apply pq_ensure_ws.
  - apply (bind_ret_pres _ Rq_refl Rq_trans _ _ _ (fun _ => RUnit)); apply pq_request_workflow_status.
  - apply (bind_ret_pres _ Rq_refl Rq_trans _ _ _ ROffers); apply pq_get_next_tasks.
  - exfalso; eapply Hne; reflexivity.
  - apply (bind_ret_pres _ Rq_refl Rq_trans _ _ _ (fun _ => RUnit)); apply pq_render_workflow_output.
  - apply (bind_ret_pres _ Rq_refl Rq_trans _ _ _ (fun _ => RUnit)); apply pq_request_workflow_rerun.
  - apply (bind_ret_pres _ Rq_refl Rq_trans _ _ _ (fun _ => RUnit)); apply pq_persist.
Qed.

(* (a) every API operation, every event *)
Theorem api_exec_mono : forall op, preserves Rmono (api_exec ev op).
Proof.
  intro op. destruct op; try (apply (preserves_weaken _ _ Rq_Rmono); apply api_exec_quiet; intros; discriminate).
  cbn [api_exec]. apply (bind_ret_pres _ Rmono_refl Rmono_trans _ _ _ (fun _ => RUnit)).
  unfold update_task_state. apply uts_fuel_mono.
Qed.

(* (b) every API operation whose event (if any) comes from outside *)
Theorem api_exec_ent : forall op, op_external op -> preserves Rent (api_exec ev op).
Proof.
  intros op Hx. destruct op; try (apply (preserves_weaken _ _ Rq_Rent); apply api_exec_quiet; intros; discriminate).
  cbn [api_exec]. apply (bind_ret_pres _ Rent_refl Rent_trans _ _ _ (fun _ => RUnit)).
  unfold update_task_state. intros c c' r H. eapply uts_fuel_ent; [left; exact Hx|exact H].
Qed.

(* (c) counting entries over a history *)
Definition entry_bit (c c' : cstate) (idx : nat) : nat :=
  if negb (retr c idx) && retr c' idx then 1 else 0.

Fixpoint entries (ops : list api_op) (c : cstate) (idx : nat) : nat :=
  match ops with
  | [] => 0
  | op :: ops' => let c' := fst (api_exec ev op c) in entry_bit c c' idx + entries ops' c' idx
  end.

(* t0: the tally when counting started; k: entries counted so far *)
Definition good (t0 k : nat) (c : cstate) (idx : nat) : Prop :=
  t0 + k <= tal c idx /\
  (k = 0 \/ exists r rr, rec_at c idx = Some r /\ r_retry r = Some rr /\ py_is_int (rr_count rr) = true /\
                         (Z.of_nat (t0 + k) <= py_int_value (rr_count rr))%Z).

Lemma good_step : forall t0 k c c' idx, Rent c c' -> good t0 k c idx -> good t0 (k + entry_bit c c' idx) c' idx.
Proof.
  intros t0 k c c' idx [Mo En] [G1 G2]. unfold entry_bit.
  pose proof (tal_mono _ _ idx Mo) as Ht.
  destruct (retr c idx) eqn:Rc; cbn [negb andb]; [|destruct (retr c' idx) eqn:Rc'].
  - rewrite Nat.add_0_r. split; [lia|]. destruct G2 as [G2|[r [rr [Hr [Hrr [Hi Hle]]]]]]; [left; exact G2|right].
    destruct (Mo _ _ Hr) as [r' [Hr' [_ [_ Hm]]]]. rewrite Hrr in Hm.
    destruct (r_retry r') as [rr'|] eqn:Hrr'; simpl in Hm; [|tauto]. destruct Hm as [Hc _].
    exists r', rr'. rewrite Hc. auto.
  - destruct (En idx Rc Rc') as [r' [rr' [Hr' [Hrr' [Hi [Hlt Hge]]]]]].
    split; [unfold tal at 1; rewrite Hr'; simpl; rewrite Hrr'; lia|].
    right. exists r', rr'. repeat split; try assumption. lia.
  - rewrite Nat.add_0_r. split; [lia|]. destruct G2 as [G2|[r [rr [Hr [Hrr [Hi Hle]]]]]]; [left; exact G2|right].
    destruct (Mo _ _ Hr) as [r' [Hr' [_ [_ Hm]]]]. rewrite Hrr in Hm.
    destruct (r_retry r') as [rr'|] eqn:Hrr'; simpl in Hm; [|tauto]. destruct Hm as [Hc _].
    exists r', rr'. rewrite Hc. auto.
Qed.

Lemma entries_inv : forall idx t0 ops c k, Forall op_external ops -> good t0 k c idx ->
  good t0 (k + entries ops c idx) (run_ops ev ops c) idx.
Proof.
  intros idx t0; induction ops as [|op ops IH]; intros c k Hx Hg; simpl.
  - rewrite Nat.add_0_r; exact Hg.
  - inversion Hx as [|x l Hop Hops]; subst. unfold run_ops; simpl. rewrite Nat.add_assoc.
    apply IH; [exact Hops|]. apply good_step; [|exact Hg].
    destruct (api_exec ev op c) as [c' r] eqn:E. simpl. eapply api_exec_ent; eassumption.
Qed.

(* from any state on: the initial tally plus the number of entries into retrying never exceeds the tally
   reached, and -- when there was an entry at all -- never exceeds the (integer) count *)
Theorem retry_entries_bounded : forall ops c idx, Forall op_external ops ->
  good (tal c idx) (entries ops c idx) (run_ops ev ops c) idx.
Proof.
  intros ops c idx Hx. apply (entries_inv idx (tal c idx) ops c 0 Hx). split; [lia|left; reflexivity].
Qed.

(* the form of the property text: at most max(count, 0) retried executions of a record that starts at
   tally 0 (in particular every record of a history that starts with no record) *)
Corollary retry_entries_at_most_count : forall ops c idx r rr, Forall op_external ops -> tal c idx = 0 ->
  rec_at (run_ops ev ops c) idx = Some r -> r_retry r = Some rr ->
  (Z.of_nat (entries ops c idx) <= Z.max (py_int_value (rr_count rr)) 0)%Z /\ entries ops c idx <= rr_tally rr.
Proof.
  intros ops c idx r rr Hx H0 Hr Hrr. destruct (retry_entries_bounded ops c idx Hx) as [G1 G2].
  rewrite H0 in *. cbn [Nat.add] in *. unfold tal in G1. rewrite Hr in G1. simpl in G1. rewrite Hrr in G1.
  split; [|exact G1]. destruct G2 as [G2|[r' [rr' [Hr' [Hrr' [_ Hle]]]]]]; [rewrite G2; simpl; lia|].
  rewrite Hr in Hr'; inversion Hr'; subst r'. rewrite Hrr in Hrr'; inversion Hrr'; subst rr'. lia.
Qed.

Corollary no_retry_no_entries : forall ops c idx, Forall op_external ops ->
  (forall r, rec_at (run_ops ev ops c) idx = Some r -> r_retry r = None) -> entries ops c idx = 0.
Proof.
  intros ops c idx Hx Hn. destruct (retry_entries_bounded ops c idx Hx) as [_ [G|[r [rr [Hr [Hrr _]]]]]]; [exact G|].
  rewrite (Hn _ Hr) in Hrr; discriminate.
Qed.

Lemma empty_tal : forall c idx, sequence (c_ws c) = [] -> tal c idx = 0.
Proof. intros c idx H; unfold tal, rec_at; rewrite H. destruct idx; reflexivity. Qed.

(* new records start at tally 0 *)
Theorem new_record_tally_zero : forall t rt ins prev c c' idx,
  add_task_state ev t rt ins prev c = (c', Val idx) ->
  exists r, rec_at c' idx = Some r /\ r_status r = None /\ tal c' idx = 0.
Proof.
  intros t rt ins prev c c' idx H. destruct (add_task_state_inv _ _ _ _ _ _ _ _ H) as [r [Hn [Hs [Hf _]]]].
  exists r. split; [exact Hn|]. split; [exact Hs|]. unfold tal, rec_at. rewrite Hn. simpl.
  destruct (r_retry r) as [rr|] eqn:E; [apply Hf; reflexivity|reflexivity].
Qed.

End History.

(* decidable form of the hypothesis on histories *)
Definition op_external_b (op : api_op) : bool :=
  match op with OpEvent _ _ e => external_event e | _ => true end.
Lemma ops_external_b_sound : forall ops, forallb op_external_b ops = true -> Forall op_external ops.
Proof.
  intros ops H. apply Forall_forall. intros op Hin. rewrite forallb_forall in H. specialize (H _ Hin).
  destruct op; simpl in *; auto.
Qed.
