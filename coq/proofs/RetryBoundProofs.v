(* RetryBoundProofs.v -- the unconditional retry bound, stated on ENTRIES into the status `retrying`
   (each entry is one more execution of the task).  No protocol hypothesis: a tally that runs ahead
   under duplicate or ignored reports only costs retries.
   (a) [Rmono]  records are append-only; id, route and retry count of a record never change and its
       tally never decreases -- in every API operation, for every event;
   (b) [Rent]   an operation takes a record from not-retrying (or absent) to retrying only if its tally
       before was below its count, and its tally after is at least one more;
   (c) over a history the number of entries of a record plus its initial tally is at most its count.
   The quiet part of the engine (everything but the task-machine step, the increment and the nested
   calls) satisfies the stronger [Rq]: retry information untouched, nothing becomes retrying. *)
From Coq Require Import String List Bool ZArith Arith Lia.
From Orq Require Import GenStatuses GenEvents GenTables GenSpecMeta Base State Machines Codec Conductor Decode Api.
From Orq Require Import F_tables Hoare ValuePost C13Proofs C05Proofs RetryProofs.
Import ListNotations.
Open Scope string_scope.
Open Scope monad_scope.

(* ------------------------------------------------------------------ views of one record slot *)

Definition rec_at (c : cstate) (idx : nat) : option trec := nth_error (sequence (c_ws c)) idx.
Definition retrying_of (o : option trec) : bool :=
  match o with
  | Some r => match r_status r with Some s => status_eqb s S_RETRYING | None => false end
  | None => false
  end.
Definition tally_of (o : option trec) : nat :=
  match o with
  | Some r => match r_retry r with Some rr => rr_tally rr | None => 0 end
  | None => 0
  end.
Definition retr (c : cstate) (idx : nat) : bool := retrying_of (rec_at c idx).
Definition tal (c : cstate) (idx : nat) : nat := tally_of (rec_at c idx).

Definition retry_mono (o o' : option retry_rec) : Prop :=
  match o, o' with
  | Some rr, Some rr' => rr_count rr' = rr_count rr /\ rr_tally rr <= rr_tally rr'
  | None, None => True
  | _, _ => False
  end.

Lemma retry_mono_refl : forall o, retry_mono o o.
Proof. intros [rr|]; simpl; auto. Qed.
Lemma retry_mono_trans : forall a b c, retry_mono a b -> retry_mono b c -> retry_mono a c.
Proof.
  intros [x|] [y|] [z|]; simpl; try tauto. intros [H1 H2] [H3 H4]; split; [congruence|lia].
Qed.
Lemma retry_mono_eq : forall a b, b = a -> retry_mono a b.
Proof. intros a b ->; apply retry_mono_refl. Qed.

(* (a) *)
Definition Rmono (c c' : cstate) : Prop :=
  forall idx r, rec_at c idx = Some r ->
    exists r', rec_at c' idx = Some r' /\ r_id r' = r_id r /\ r_route r' = r_route r /\
               retry_mono (r_retry r) (r_retry r').

Lemma Rmono_refl : forall c, Rmono c c.
Proof. intros c idx r H; exists r; repeat split; [exact H|apply retry_mono_refl]. Qed.
Lemma Rmono_trans : forall a b c, Rmono a b -> Rmono b c -> Rmono a c.
Proof.
  intros a b c H1 H2 idx r H. destruct (H1 _ _ H) as [r1 [Hr1 [I1 [O1 M1]]]].
  destruct (H2 _ _ Hr1) as [r2 [Hr2 [I2 [O2 M2]]]].
  exists r2; repeat split; [exact Hr2|congruence|congruence|eapply retry_mono_trans; eassumption].
Qed.

Lemma tal_mono : forall c c' idx, Rmono c c' -> tal c idx <= tal c' idx.
Proof.
  intros c c' idx H. unfold tal. destruct (rec_at c idx) as [r|] eqn:E; [|simpl; lia].
  destruct (H _ _ E) as [r' [Hr' [_ [_ M]]]]. rewrite Hr'. simpl.
  destruct (r_retry r), (r_retry r'); simpl in M; try tauto; lia.
Qed.

(* the quiet relation *)
Definition Rq (c c' : cstate) : Prop :=
  (forall idx r, rec_at c idx = Some r ->
     exists r', rec_at c' idx = Some r' /\ r_id r' = r_id r /\ r_route r' = r_route r /\ r_retry r' = r_retry r) /\
  (forall idx, retr c' idx = true -> retr c idx = true).

Lemma Rq_refl : forall c, Rq c c.
Proof. intro c; split; [intros idx r H; exists r; auto|auto]. Qed.
Lemma Rq_trans : forall a b c, Rq a b -> Rq b c -> Rq a c.
Proof.
  intros a b c [H1 S1] [H2 S2]; split; [|auto]. intros idx r H.
  destruct (H1 _ _ H) as [r1 [Hr1 [I1 [O1 M1]]]]. destruct (H2 _ _ Hr1) as [r2 [Hr2 [I2 [O2 M2]]]].
  exists r2; repeat split; congruence.
Qed.

(* (b) *)
Definition entered_at (c c' : cstate) (idx : nat) : Prop :=
  exists r' rr', rec_at c' idx = Some r' /\ r_retry r' = Some rr' /\ py_is_int (rr_count rr') = true /\
                 (Z.of_nat (tal c idx) < py_int_value (rr_count rr'))%Z /\ tal c idx + 1 <= rr_tally rr'.

Definition Rent (c c' : cstate) : Prop :=
  Rmono c c' /\ forall idx, retr c idx = false -> retr c' idx = true -> entered_at c c' idx.

Lemma Rent_refl : forall c, Rent c c.
Proof. intro c; split; [apply Rmono_refl|]. intros idx H1 H2; congruence. Qed.

Lemma Rent_trans : forall a b c, Rent a b -> Rent b c -> Rent a c.
Proof.
  intros a b c [M1 E1] [M2 E2]; split; [eapply Rmono_trans; eassumption|].
  intros idx Ha Hc. destruct (retr b idx) eqn:Hb.
  - destruct (E1 idx Ha Hb) as [r1 [rr1 [Hr1 [Hrr1 [Hi [Hlt Hge]]]]]].
    destruct (M2 _ _ Hr1) as [r2 [Hr2 [_ [_ Mo]]]]. rewrite Hrr1 in Mo.
    destruct (r_retry r2) as [rr2|] eqn:Hrr2; simpl in Mo; [|tauto]. destruct Mo as [Mc Mt].
    exists r2, rr2. rewrite Mc. repeat split; try assumption. lia.
  - destruct (E2 idx Hb Hc) as [r2 [rr2 [Hr2 [Hrr2 [Hi [Hlt Hge]]]]]].
    pose proof (tal_mono _ _ idx M1) as Ht.
    exists r2, rr2. repeat split; try assumption; lia.
Qed.

Lemma Rq_Rmono : forall c c', Rq c c' -> Rmono c c'.
Proof.
  intros c c' [H _] idx r Hr. destruct (H _ _ Hr) as [r' [Hr' [I [O M]]]].
  exists r'; repeat split; try assumption. apply retry_mono_eq; exact M.
Qed.
Lemma Rq_Rent : forall c c', Rq c c' -> Rent c c'.
Proof.
  intros c c' H; split; [apply Rq_Rmono; exact H|]. destruct H as [_ S]. intros idx H1 H2.
  rewrite (S _ H2) in H1; discriminate.
Qed.
Lemma Rent_Rmono : forall c c', Rent c c' -> Rmono c c'.
Proof. intros c c' [H _]; exact H. Qed.

Lemma preserves_weaken : forall (R1 R2 : cstate -> cstate -> Prop), (forall c c', R1 c c' -> R2 c c') ->
  forall A (m : M A), preserves R1 m -> preserves R2 m.
Proof. intros R1 R2 H A m Hm c c' r E; apply H; eapply Hm; exact E. Qed.

(* ------------------------------------------------------------------ point updates and appends *)

Definition upd_at (c c' : cstate) (idx : nat) (r2 : trec) : Prop :=
  rec_at c' idx = Some r2 /\ forall j, j <> idx -> rec_at c' j = rec_at c j.

Lemma upd_at_trans : forall a b c idx x y, upd_at a b idx x -> upd_at b c idx y -> upd_at a c idx y.
Proof. intros a b c idx x y [_ H1] [H2 H3]; split; [exact H2|]. intros j Hj; rewrite H3, H1; auto. Qed.

Lemma upd_at_update_rec : forall c i f r, rec_at c i = Some r ->
  upd_at c (set_ws c (ws_update_rec (c_ws c) i f)) i (f r).
Proof.
  intros c i f r H; split; unfold rec_at; simpl.
  - apply nth_update_rec_same; exact H.
  - intros j Hj. apply nth_update_rec_other; auto.
Qed.

Lemma update_rec_absent : forall w i f, nth_error (sequence w) i = None -> ws_update_rec w i f = w.
Proof. intros w i f H; unfold ws_update_rec; rewrite H; reflexivity. Qed.

Lemma retr_other : forall c c' idx r2 j, upd_at c c' idx r2 -> j <> idx -> retr c' j = retr c j.
Proof. intros c c' idx r2 j [_ H] Hj; unfold retr; rewrite H; auto. Qed.

Lemma Rq_upd_at : forall c c' idx r r2, rec_at c idx = Some r -> upd_at c c' idx r2 ->
  r_id r2 = r_id r -> r_route r2 = r_route r -> r_retry r2 = r_retry r ->
  (retrying_of (Some r2) = true -> retrying_of (Some r) = true) -> Rq c c'.
Proof.
  intros c c' idx r r2 Hr [H2 Ho] Hi Hro Hre Hs; split.
  - intros j x Hx. destruct (Nat.eq_dec j idx) as [->|Hj].
    + rewrite Hr in Hx; inversion Hx; subst x. exists r2; auto.
    + exists x; rewrite Ho by exact Hj; auto.
  - intros j. unfold retr. destruct (Nat.eq_dec j idx) as [->|Hj]; [rewrite H2, Hr; exact Hs|rewrite Ho; auto].
Qed.

Lemma Rq_same : forall c c', sequence (c_ws c') = sequence (c_ws c) -> Rq c c'.
Proof.
  intros c c' H; split; unfold retr, rec_at; rewrite H; [intros idx r Hr; exists r; auto|auto].
Qed.

Lemma Rq_append : forall c c' r, sequence (c_ws c') = app (sequence (c_ws c)) [r] -> r_status r = None -> Rq c c'.
Proof.
  intros c c' r H Hs; split; unfold retr, rec_at; rewrite H.
  - intros idx x Hx. exists x. rewrite nth_error_app1 by (apply nth_error_Some; congruence). auto.
  - intros idx Hr. destruct (Nat.lt_ge_cases idx (length (sequence (c_ws c)))) as [Hl|Hl].
    + rewrite nth_error_app1 in Hr by exact Hl. exact Hr.
    + rewrite nth_error_app2 in Hr by exact Hl. destruct (idx - length (sequence (c_ws c))) as [|n]; simpl in Hr.
      * rewrite Hs in Hr; discriminate.
      * destruct n; discriminate.
Qed.

Definition quiet (f : trec -> trec) : Prop :=
  forall r, r_id (f r) = r_id r /\ r_route (f r) = r_route r /\ r_retry (f r) = r_retry r /\ r_status (f r) = r_status r.

Lemma Rq_update_rec : forall c i f, quiet f -> Rq c (set_ws c (ws_update_rec (c_ws c) i f)).
Proof.
  intros c i f Hf. destruct (rec_at c i) as [r|] eqn:E.
  - destruct (Hf r) as [H1 [H2 [H3 H4]]].
    eapply Rq_upd_at; [exact E|apply upd_at_update_rec; exact E|assumption..|]. simpl; rewrite H4; auto.
  - unfold rec_at in E. rewrite update_rec_absent by exact E. destruct c; apply Rq_refl.
Qed.

Lemma Rq_set_status : forall c i s, s <> S_RETRYING ->
  Rq c (set_ws c (ws_update_rec (c_ws c) i (fun r => r_set_status r (Some s)))).
Proof.
  intros c i s Hs. destruct (rec_at c i) as [r|] eqn:E.
  - eapply Rq_upd_at; [exact E|apply (upd_at_update_rec c i (fun r => r_set_status r (Some s))); exact E|reflexivity..|].
    simpl. intro H; apply status_eqb_eq in H; contradiction.
  - unfold rec_at in E. rewrite update_rec_absent by exact E. destruct c; apply Rq_refl.
Qed.
