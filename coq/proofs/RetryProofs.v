(* RetryProofs.v -- the re-entrant call of update_task_state.
   (1) Termination: over a graph whose engine commands have no transitions and no retry policy, a nested
       call (the retry re-entry, or the call for a queued engine command) never calls again, so no call
       is ever made at depth 3: more fuel never changes a result ([fuel_irrelevant], every evaluator), and
       the model never answers "OutOfFuel" ([update_task_state_never_out_of_fuel]; needs that the
       evaluator itself has no exception class of that name, since its classes are passed through).
   (2) The retry bound: the tally of every record stays within max(count, 0) over a call under the
       provider protocol ([retry_tally_bounded_step]), over every API operation and over histories.

   Method.  The body of [update_task_state_fuel] is restated here as named pieces with the recursive
   callee abstracted ([uts_body rec]; equal to the model's body by [reflexivity], so a change of the
   model breaks this file, not the claim).  The body is then split ([body_eq]) into a prefix that never
   calls back ([uts_prefix], returns what the rest needs) and the tail that does ([uts_tail rec]).
   Facts about the prefix are proved once, by inversion of its successful and failing runs, and used by
   both theorems; whole-function invariants use the frame rule and walk of Hoare.v. *)
From Coq Require Import String List Bool ZArith Arith Lia.
From Orq Require Import GenStatuses GenEvents GenTables GenSpecMeta Base State Machines Codec Conductor Decode Api.
From Orq Require Import F_tables Hoare ValuePost C13Proofs C05Proofs.
Import ListNotations.
Open Scope string_scope.
Open Scope monad_scope.

(* ------------------------------------------------------------------ the body, in pieces *)

Record pre_out := {
  po_ts : task_spec; po_idx : nat; po_old : status; po_new : status; po_compl : option (dict * bool) }.

Definition retry_event : event := EvEngine EV_TASK_RETRY_REQUESTED S_RETRYING.

Section Pieces.
Variable ev : string -> dict -> evalres.

Definition uts_need_staged (staged0 : option stg) : M stg :=
  match staged0 with
  | Some s => ret s
  | None => raise (exn_type "'NoneType' object is not subscriptable")
  end.

Definition uts_sel1 (t : string) (staged0 : option stg) (entry0 : option nat) : M nat :=
  match entry0 with
  | Some i => if is_engine_command t
              then s <- uts_need_staged staged0 ;; add_task_state ev t (s_route s) (s_in s) (s_prev s)
              else ret i
  | None => s <- uts_need_staged staged0 ;; add_task_state ev t (s_route s) (s_in s) (s_prev s)
  end.

Definition uts_sel2 (t : string) (evt : event) (staged0 : option stg) (r1 : trec) (idx1 : nat) : M nat :=
  if ostatus_in (r_status r1) COMPLETED_STATUSES && status_in (ev_status evt) STARTING_STATUSES
     && match staged0 with Some s0 => negb (s_completed s0) | None => false end
  then s <- uts_need_staged staged0 ;; add_task_state ev t (s_route s) (s_in s) (s_prev s)
  else ret idx1.

Definition uts_unstage (t : string) (route : nat) (evt : event) (staged0 : option stg) : M unit :=
  match staged0 with
  | Some s => match s_items s with
              | None => match evt with
                        | EvItem _ _ _ _ => ret tt
                        | _ => modws (fun w => ws_remove_staged_task w t route)
                        end
              | Some _ => ret tt
              end
  | None => ret tt
  end.

Definition uts_item (t : string) (route : nat) (evt : event) (staged0 : option stg) : M unit :=
  match staged0, evt with
  | Some s, EvItem item st _ _ =>
      match s_items s with
      | None => ret tt
      | Some its =>
          if Nat.ltb item (length its) then
            modws (fun w => ws_set_staged w
                     (staged_update
                        (fun e => s_set_items e (match s_items e with
                                                 | Some l => Some (list_set_nth item st l)
                                                 | None => None end))
                        t route (staged w)))
          else raise (mkexn "IndexError" "list assignment index out of range")
      end
  | _, _ => ret tt
  end.

Definition uts_logfail (t : string) (evt : event) : M unit :=
  if status_eqb (ev_status evt) S_FAILED
  then log_entry_error "Execution failed. See result for details." (Some t) None None (ev_result evt)
  else ret tt.

Definition uts_setst (idx : nat) (ns : option status) : M unit :=
  match ns with Some s => set_rec_status idx (Some s) | None => ret tt end.

Definition uts_retrying (t : string) (route idx : nat) (r : trec) (new_status : status) : M unit :=
  if status_eqb new_status S_RETRYING then
    match r_retry r with
    | None => raise (exn_key "retry")
    | Some rr =>
        let rr' := {| rr_when := rr_when rr; rr_count := rr_count rr; rr_delay := rr_delay rr;
                      rr_tally := S (rr_tally rr) |} in
        upd_rec idx (fun r => r_set_retry r (Some rr')) ;;;
        modws (fun w => ws_remove_staged_task w t route) ;;;
        modws (fun w => ws_add_staged w (mk_staged t route (r_in r) (r_prev r) true (Some rr')))
    end
  else ret tt.

Definition uts_completion (t : string) (route : nat) (evt : event) (ts : task_spec) (idx : nat)
           (new_status old_status : status) : M (option (dict * bool)) :=
  if status_in new_status COMPLETED_STATUSES then
    (if negb (task_has_items ts && status_in new_status ABENDED_STATUSES)
     then modws (fun w => ws_remove_staged_task w t route)
     else
       w <- getws ;;
       match get_staged_task w t route with
       | None => raise (exn_type "'NoneType' object does not support item assignment")
       | Some _ => modws (fun w => ws_set_staged w
                            (staged_update (fun s => s_set_completed s true) t route (staged w)))
       end) ;;;
    let task_result :=
      if negb (task_has_items ts) then ev_result evt
      else match evt with
           | EvItem _ _ _ acc => if truthy acc then acc else JList []
           | _ => if truthy (ev_result evt) then ev_result evt else JList []
           end in
    r <- get_rec idx ;;
    in_ctx <- get_task_context (r_in r) ;;
    w <- getws ;;
    let current_ctx :=
      merge_dicts (dset "__current_task" (current_task_json (r_id r) (r_route r) (Some task_result)) in_ctx)
                  (state_ctx w) in
    retry_task <- try_catch
                    (if negb (status_eqb new_status old_status)
                        && status_in (wstatus w) ACTIVE_STATUSES
                        && tbl_transition_valid task_table new_status S_RETRYING
                     then evaluate_task_retry ev r current_ctx else ret false)
                    (fun x => log_error x (Some t) (Some route) None ;;;
                              request_status_core S_FAILED ;;; ret false) ;;
    ret (Some (current_ctx, retry_task))
  else ret None.

Definition uts_queue (t : string) (route idx : nat) (ts : task_spec) (old_status new_status : status)
           (completion : option (dict * bool)) : M (list (string * nat)) :=
  match completion with
  | Some (current_ctx, _) =>
      if negb (status_eqb new_status old_status) then
        c <- get ;;
        let transitions := g_next_transitions (c_graph c) t in
        (match transitions with
         | [] => upd_rec idx (fun r => r_set_term r true)
         | _ => ret tt
         end) ;;;
        rs <- mapM (process_transition ev t route idx ts current_ctx) transitions ;;
        let cmds := flat_map (fun '(q, _) => match q with Some x => [x] | None => [] end) rs in
        let readies := flat_map (fun '(_, q) => match q with Some x => [x] | None => [] end) rs in
        (if existsb (fun '(n, _) => String.eqb n "fail") cmds then
           forM_ readies (fun '(n, rt) =>
             modws (fun w => ws_set_staged w
                      (staged_update (fun s => s_set_run_on_fail s true) n rt (staged w))))
         else ret tt) ;;;
        r <- get_rec idx ;;
        (match transitions with
         | [] => ret tt
         | _ => if existsb (fun '(_, b) => b) (r_next r) then ret tt
                else upd_rec idx (fun r => r_set_term r true)
         end) ;;;
        ret cmds
      else ret []
  | None => ret []
  end.

Section Rec.
Variable rec : string -> nat -> event -> M unit.

Definition uts_call (p : string * nat) : M unit :=
  let '(n, rt) := p in
  match engine_event n with
  | Some e => rec n rt e
  | None => raise (exn_key n)
  end.

Definition uts_tail (t : string) (route : nat) (ts : task_spec) (idx : nat) (old_status new_status : status)
           (completion : option (dict * bool)) : M unit :=
  match completion with
  | Some (_, true) => rec t route retry_event
  | _ =>
      queue <- uts_queue t route idx ts old_status new_status completion ;;
      r <- get_rec idx ;;
      st <- (match r_status r with Some s => ret s | None => raise (exn_key "status") end) ;;
      unreachable <- wf_task_event_M t route st ;;
      log_unreachable unreachable ;;;
      forM_ queue uts_call ;;;
      w <- getws ;;
      if status_in (wstatus w) COMPLETED_STATUSES
      then upd_rec idx (fun r => r_set_term r true)
      else ret tt
  end.

(* continuation-passing restatement, definitionally the model's body *)
Definition uts_machine (t : string) (route : nat) (evt : event) (ts : task_spec) (idx : nat) : M unit :=
  r <- get_rec idx ;;
  w <- getws ;;
  ns <- lift_res (task_process_event w r evt) ;;
  uts_setst idx ns ;;;
  r' <- get_rec idx ;;
  uts_retrying t route idx r' (rstatus r') ;;;
  completion <- uts_completion t route evt ts idx (rstatus r') (rstatus r) ;;
  uts_tail t route ts idx (rstatus r) (rstatus r') completion.

Definition uts_main (t : string) (route : nat) (evt : event) (ts : task_spec)
           (staged0 : option stg) (entry0 : option nat) : M unit :=
  idx1 <- uts_sel1 t staged0 entry0 ;;
  r1 <- get_rec idx1 ;;
  idx <- uts_sel2 t evt staged0 r1 idx1 ;;
  uts_unstage t route evt staged0 ;;;
  uts_item t route evt staged0 ;;;
  uts_logfail t evt ;;;
  uts_machine t route evt ts idx.

Definition uts_body (t : string) (route : nat) (evt : event) : M unit :=
  ensure_ws ev ;;;
  c <- get ;;
  if negb (g_has_task (c_graph c) t) then raise (exn_invalid_task t)
  else
    let w := c_ws c in
    let staged0 := get_staged_task w t route in
    let entry0 := ws_task_idx w t route in
    ts <- (match spec_get_task (c_spec c) t with Some ts => ret ts | None => raise (exn_key t) end) ;;
    match staged0, entry0 with
    | None, None =>
        raise (mkexn "InvalidTaskStateEntry" ("Task """ ++ t ++ """ is not staged or has not started yet."))
    | _, _ => uts_main t route evt ts staged0 entry0
    end.

End Rec.

(* the model's function is this body applied to itself with one unit of fuel less *)
Lemma uts_unfold : forall fuel t route evt,
  update_task_state_fuel ev (S fuel) t route evt = uts_body (update_task_state_fuel ev fuel) t route evt.
Proof. intros; reflexivity. Qed.

(* the part of the body that never calls back, returning what the tail needs *)
Definition pre_machine (t : string) (route : nat) (evt : event) (ts : task_spec) (idx : nat) : M pre_out :=
  r <- get_rec idx ;;
  w <- getws ;;
  ns <- lift_res (task_process_event w r evt) ;;
  uts_setst idx ns ;;;
  r' <- get_rec idx ;;
  uts_retrying t route idx r' (rstatus r') ;;;
  completion <- uts_completion t route evt ts idx (rstatus r') (rstatus r) ;;
  ret {| po_ts := ts; po_idx := idx; po_old := rstatus r; po_new := rstatus r'; po_compl := completion |}.

Definition pre_main (t : string) (route : nat) (evt : event) (ts : task_spec)
           (staged0 : option stg) (entry0 : option nat) : M pre_out :=
  idx1 <- uts_sel1 t staged0 entry0 ;;
  r1 <- get_rec idx1 ;;
  idx <- uts_sel2 t evt staged0 r1 idx1 ;;
  uts_unstage t route evt staged0 ;;;
  uts_item t route evt staged0 ;;;
  uts_logfail t evt ;;;
  pre_machine t route evt ts idx.

Definition uts_prefix (t : string) (route : nat) (evt : event) : M pre_out :=
  ensure_ws ev ;;;
  c <- get ;;
  if negb (g_has_task (c_graph c) t) then raise (exn_invalid_task t)
  else
    let w := c_ws c in
    let staged0 := get_staged_task w t route in
    let entry0 := ws_task_idx w t route in
    ts <- (match spec_get_task (c_spec c) t with Some ts => ret ts | None => raise (exn_key t) end) ;;
    match staged0, entry0 with
    | None, None =>
        raise (mkexn "InvalidTaskStateEntry" ("Task """ ++ t ++ """ is not staged or has not started yet."))
    | _, _ => pre_main t route evt ts staged0 entry0
    end.

Definition tail_of (rec : string -> nat -> event -> M unit) (t : string) (route : nat) (p : pre_out) : M unit :=
  uts_tail rec t route (po_ts p) (po_idx p) (po_old p) (po_new p) (po_compl p).

End Pieces.

(* ------------------------------------------------------------------ monad laws, pointwise *)

Lemma bind_assoc_pt : forall A B C (m : M A) (f : A -> M B) (g : B -> M C) c,
  bind (bind m f) g c = bind m (fun a => bind (f a) g) c.
Proof. intros; unfold bind. destruct (m c) as [c1 [a|e]]; reflexivity. Qed.

Lemma bind_congr : forall A B (m : M A) (f1 f2 : A -> M B) c,
  (forall c1 a, m c = (c1, Val a) -> f1 a c1 = f2 a c1) -> bind m f1 c = bind m f2 c.
Proof. intros A B m f1 f2 c H; unfold bind. destruct (m c) as [c1 [a|e]] eqn:E; [apply H; reflexivity|reflexivity]. Qed.

Lemma bind_inv : forall A B (m : M A) (f : A -> M B) c c' r, bind m f c = (c', r) ->
  (exists c1 a, m c = (c1, Val a) /\ f a c1 = (c', r)) \/ (exists e, m c = (c', Exc e) /\ r = Exc e).
Proof.
  intros A B m f c c' r H; unfold bind in H. destruct (m c) as [c1 [a|e]] eqn:E.
  - left; exists c1, a; split; [reflexivity|exact H].
  - right; inversion H; subst; exists e; split; reflexivity.
Qed.

Lemma bind_val_inv' : forall A B (m : M A) (f : A -> M B) c c' b,
  bind m f c = (c', Val b) -> exists c1 a, m c = (c1, Val a) /\ f a c1 = (c', Val b).
Proof.
  intros A B m f c c' b H. unfold bind in H. destruct (m c) as [c1 [a|e]] eqn:E; [|inversion H].
  exists c1, a; split; [reflexivity|exact H].
Qed.

Lemma bind_step : forall A B (m : M A) (f : A -> M B) c c1 a, m c = (c1, Val a) -> bind m f c = f a c1.
Proof. intros A B m f c c1 a H; unfold bind; rewrite H; reflexivity. Qed.

Lemma bind_exc : forall A B (m : M A) (f : A -> M B) c c1 e, m c = (c1, Exc e) -> bind m f c = (c1, Exc e).
Proof. intros A B m f c c1 e H; unfold bind; rewrite H; reflexivity. Qed.

Section BodyEq.
Variable ev : string -> dict -> evalres.
Variable rec : string -> nat -> event -> M unit.

Lemma machine_eq : forall t route evt ts idx c,
  uts_machine ev rec t route evt ts idx c = bind (pre_machine ev t route evt ts idx) (tail_of ev rec t route) c.
Proof.
  intros; unfold uts_machine, pre_machine.
  repeat (rewrite bind_assoc_pt; apply bind_congr; intros ? ? _).
  reflexivity.
Qed.

Lemma main_eq : forall t route evt ts staged0 entry0 c,
  uts_main ev rec t route evt ts staged0 entry0 c
  = bind (pre_main ev t route evt ts staged0 entry0) (tail_of ev rec t route) c.
Proof.
  intros; unfold uts_main, pre_main.
  repeat (rewrite bind_assoc_pt; apply bind_congr; intros ? ? _).
  apply machine_eq.
Qed.

(* the body is the prefix followed by the tail *)
Lemma body_eq : forall t route evt c,
  uts_body ev rec t route evt c = bind (uts_prefix ev t route evt) (tail_of ev rec t route) c.
Proof.
  intros; unfold uts_body, uts_prefix.
  rewrite bind_assoc_pt; apply bind_congr; intros c1 u _.
  rewrite bind_assoc_pt; apply bind_congr; intros c2 cst _.
  destruct (negb (g_has_task (c_graph cst) t)); [reflexivity|]. cbv zeta.
  rewrite bind_assoc_pt; apply bind_congr; intros c3 ts _.
  destruct (get_staged_task (c_ws cst) t route), (ws_task_idx (c_ws cst) t route);
    try apply main_eq; reflexivity.
Qed.

End BodyEq.

(* ------------------------------------------------------------------ the graph never changes *)

Definition Rg (c c' : cstate) : Prop := c_graph c' = c_graph c.
Lemma Rg_refl : forall c, Rg c c.
Proof. intro; reflexivity. Qed.
Lemma Rg_trans : forall a b c, Rg a b -> Rg b c -> Rg a c.
Proof. unfold Rg; intros; congruence. Qed.

Create HintDb presg.

Section GraphKept.
Variable ev : string -> dict -> evalres.

Ltac leaf :=
  first
    [ apply (preserves_modws Rg); intro; reflexivity
    | apply (preserves_modify Rg); intro; unfold Rg; simpl; reflexivity
    | apply (preserves_modify Rg); intro; unfold Rg;
      match goal with |- context [if ?b then _ else _] => destruct b end; reflexivity
    | assumption
    | match goal with IH : forall _ _ _, preserves _ _ |- _ => apply IH end
    | match goal with IH : forall _ _, preserves _ _ |- _ => apply IH end
    | match goal with IH : forall _ _ _ _, preserves _ _ |- _ => apply IH end
    | eauto 3 with presg ].
Ltac walk := pw Rg_refl Rg_trans leaf.

Lemma pg_wf_workflow_event : forall st, preserves Rg (wf_workflow_event_M st).
Proof.
  intros st c c' r H. unfold wf_workflow_event_M in H.
  destruct (wf_process_workflow_event (c_graph c) (c_ws c) st) as [[new unr]|e]; inversion H; subst; reflexivity.
Qed.
Hint Resolve pg_wf_workflow_event : presg.
Lemma pg_wf_task_event : forall t route st, preserves Rg (wf_task_event_M t route st).
Proof.
  intros t route st c c' r H. unfold wf_task_event_M in H.
  destruct (wf_process_task_event (c_graph c) (c_ws c) t route st) as [[new unr]|e]; inversion H; subst; reflexivity.
Qed.
Hint Resolve pg_wf_task_event : presg.

Lemma pg_log_entry_error : forall m t r tr res, preserves Rg (log_entry_error m t r tr res).
Proof. intros; unfold log_entry_error; walk. Qed.
Hint Resolve pg_log_entry_error : presg.
Lemma pg_log_error : forall e t r tr, preserves Rg (log_error e t r tr).
Proof. intros; unfold log_error; auto with presg. Qed.
Hint Resolve pg_log_error : presg.
Lemma pg_log_errors : forall es t r tr, preserves Rg (log_errors es t r tr).
Proof. intros; unfold log_errors; walk. Qed.
Hint Resolve pg_log_errors : presg.
Lemma pg_log_unreachable : forall l, preserves Rg (log_unreachable l).
Proof. intros; unfold log_unreachable; walk. Qed.
Hint Resolve pg_log_unreachable : presg.
Lemma pg_set_rec_status : forall i s, preserves Rg (set_rec_status i s).
Proof. intros; unfold set_rec_status; walk. Qed.
Hint Resolve pg_set_rec_status : presg.
Lemma pg_upd_rec : forall i f, preserves Rg (upd_rec i f).
Proof. intros; unfold upd_rec; walk. Qed.
Hint Resolve pg_upd_rec : presg.
Lemma pg_get_rec : forall i, preserves Rg (get_rec i).
Proof. intros; unfold get_rec; walk. Qed.
Hint Resolve pg_get_rec : presg.
Lemma pg_request_status_core : forall st, preserves Rg (request_status_core st).
Proof. intros; unfold request_status_core; walk. Qed.
Hint Resolve pg_request_status_core : presg.
Lemma pg_render_input : forall specs rt rolling errs, preserves Rg (render_input ev specs rt rolling errs).
Proof. induction specs as [|[n d] specs IH]; intros; simpl; walk. Qed.
Hint Resolve pg_render_input : presg.
Lemma pg_render_vars : forall specs rolling rendered errs, preserves Rg (render_vars ev specs rolling rendered errs).
Proof. induction specs as [|[n d] specs IH]; intros; simpl; walk. Qed.
Hint Resolve pg_render_vars : presg.
Lemma pg_ensure_ws : preserves Rg (ensure_ws ev).
Proof. unfold ensure_ws; walk. Qed.
Hint Resolve pg_ensure_ws : presg.
Lemma pg_get_task_context : forall idxs, preserves Rg (get_task_context idxs).
Proof. intros; unfold get_task_context; walk. Qed.
Hint Resolve pg_get_task_context : presg.
Lemma pg_setup_retry : forall t idxs, preserves Rg (setup_retry ev t idxs).
Proof. intros; unfold setup_retry; walk. Qed.
Hint Resolve pg_setup_retry : presg.
Lemma pg_add_task_state : forall t r i p, preserves Rg (add_task_state ev t r i p).
Proof. intros; unfold add_task_state; walk. Qed.
Hint Resolve pg_add_task_state : presg.
Lemma pg_evaluate_route : forall e r, preserves Rg (evaluate_route e r).
Proof. intros; unfold evaluate_route; walk. Qed.
Hint Resolve pg_evaluate_route : presg.
Lemma pg_evaluate_task_retry : forall r ctx, preserves Rg (evaluate_task_retry ev r ctx).
Proof. intros; unfold evaluate_task_retry; walk. Qed.
Hint Resolve pg_evaluate_task_retry : presg.
Lemma pg_finalize_context : forall ts e ctx, preserves Rg (finalize_context ev ts e ctx).
Proof. intros; unfold finalize_context; walk. Qed.
Hint Resolve pg_finalize_context : presg.
Lemma pg_process_transition : forall t route idx ts ctx e, preserves Rg (process_transition ev t route idx ts ctx e).
Proof. intros; unfold process_transition; walk. Qed.
Hint Resolve pg_process_transition : presg.

Lemma pg_need_staged : forall s0, preserves Rg (uts_need_staged s0).
Proof. intros; unfold uts_need_staged; walk. Qed.
Hint Resolve pg_need_staged : presg.
Lemma pg_sel1 : forall t s0 e0, preserves Rg (uts_sel1 ev t s0 e0).
Proof. intros; unfold uts_sel1; walk. Qed.
Hint Resolve pg_sel1 : presg.
Lemma pg_sel2 : forall t evt s0 r1 i, preserves Rg (uts_sel2 ev t evt s0 r1 i).
Proof. intros; unfold uts_sel2; walk. Qed.
Hint Resolve pg_sel2 : presg.
Lemma pg_unstage : forall t route evt s0, preserves Rg (uts_unstage t route evt s0).
Proof. intros; unfold uts_unstage; walk. Qed.
Hint Resolve pg_unstage : presg.
Lemma pg_item : forall t route evt s0, preserves Rg (uts_item t route evt s0).
Proof. intros; unfold uts_item; walk. Qed.
Hint Resolve pg_item : presg.
Lemma pg_logfail : forall t evt, preserves Rg (uts_logfail t evt).
Proof. intros; unfold uts_logfail; walk. Qed.
Hint Resolve pg_logfail : presg.
Lemma pg_setst : forall i ns, preserves Rg (uts_setst i ns).
Proof. intros; unfold uts_setst; walk. Qed.
Hint Resolve pg_setst : presg.
Lemma pg_retrying : forall t route idx r ns, preserves Rg (uts_retrying t route idx r ns).
Proof. intros; unfold uts_retrying; walk. Qed.
Hint Resolve pg_retrying : presg.
Lemma pg_completion : forall t route evt ts idx ns o0, preserves Rg (uts_completion ev t route evt ts idx ns o0).
Proof. intros; unfold uts_completion; walk. Qed.
Hint Resolve pg_completion : presg.
Lemma pg_queue : forall t route idx ts o n compl, preserves Rg (uts_queue ev t route idx ts o n compl).
Proof. intros; unfold uts_queue; walk. Qed.
Hint Resolve pg_queue : presg.
Lemma pg_pre_machine : forall t route evt ts idx, preserves Rg (pre_machine ev t route evt ts idx).
Proof. intros; unfold pre_machine; walk. Qed.
Hint Resolve pg_pre_machine : presg.
Lemma pg_pre_main : forall t route evt ts s0 e0, preserves Rg (pre_main ev t route evt ts s0 e0).
Proof. intros; unfold pre_main; walk. Qed.
Hint Resolve pg_pre_main : presg.
Lemma pg_prefix : forall t route evt, preserves Rg (uts_prefix ev t route evt).
Proof. intros; unfold uts_prefix; walk. Qed.

Lemma pg_tail : forall rec, (forall t route evt, preserves Rg (rec t route evt)) ->
  forall t route ts idx o n compl, preserves Rg (uts_tail ev rec t route ts idx o n compl).
Proof. intros rec Hrec; intros; unfold uts_tail, uts_call; walk. Qed.

Lemma pg_body : forall rec, (forall t route evt, preserves Rg (rec t route evt)) ->
  forall t route evt, preserves Rg (uts_body ev rec t route evt).
Proof.
  intros rec Hrec t route evt c c' r H. rewrite body_eq in H.
  revert c c' r H. apply (preserves_bind _ Rg_trans); [apply pg_prefix|intro p; apply pg_tail; exact Hrec].
Qed.

Lemma pg_uts_fuel : forall fuel t route evt, preserves Rg (update_task_state_fuel ev fuel t route evt).
Proof.
  induction fuel as [|fuel IH]; intros; [apply (preserves_raise _ Rg_refl)|].
  rewrite uts_unfold. apply pg_body; exact IH.
Qed.

End GraphKept.

(* ------------------------------------------------------------------ table facts used here *)

(* the retry event leads nowhere but to retrying *)
Lemma F_retry_event_target : forall s t, tbl_step task_table s EV_TASK_RETRY_REQUESTED = Some t -> t = S_RETRYING.
Proof.
  intros s t H.
  assert (T : table_forall task_table
                (fun _ e t => negb (String.eqb e EV_TASK_RETRY_REQUESTED) || status_eqb t S_RETRYING) = true)
    by (vm_compute; reflexivity).
  pose proof (table_forall_step _ _ T _ _ _ H) as P; cbv beta in P.
  rewrite String.eqb_refl in P; cbn [negb orb] in P. apply status_eqb_eq; exact P.
Qed.

Lemma retrying_not_completed : status_in S_RETRYING COMPLETED_STATUSES = false.
Proof. reflexivity. Qed.

Lemma task_table_step_val : forall cur n ns, task_table_step cur n = Val ns -> tbl_step task_table cur n = ns.
Proof.
  intros cur n ns H; unfold task_table_step in H; unfold tbl_step.
  destruct (tbl_row task_table cur); inversion H; reflexivity.
Qed.

Lemma tpe_engine : forall w r n st ns, task_process_event w r (EvEngine n st) = Val ns ->
  tbl_step task_table (rstatus r) n = ns.
Proof.
  intros w r n st ns H; unfold task_process_event in H. cbn [ev_name] in H.
  destruct (negb (string_in n (app ACTION_EXECUTION_EVENTS ENGINE_OPERATION_EVENTS))); [discriminate|].
  apply task_table_step_val; exact H.
Qed.

(* ------------------------------------------------------------------ small inversions *)

Lemma get_rec_inv : forall i c c' r, get_rec i c = (c', Val r) -> c' = c /\ nth_error (sequence (c_ws c)) i = Some r.
Proof.
  intros i c c' r H; unfold get_rec, bind, getws in H.
  destruct (nth_error (sequence (c_ws c)) i); inversion H; subst; split; reflexivity.
Qed.

Lemma get_rec_state : forall i c c' r, get_rec i c = (c', r) -> c' = c.
Proof.
  intros i c c' r H; unfold get_rec, bind, getws in H.
  destruct (nth_error (sequence (c_ws c)) i); inversion H; subst; reflexivity.
Qed.

Lemma lift_res_inv : forall A (x : result A) c c' r, lift_res x c = (c', r) -> c' = c /\ r = x.
Proof. intros A x c c' r H; destruct x; inversion H; subst; split; reflexivity. Qed.

Lemma nth_error_set_nth_same : forall A (l : list A) i x y, nth_error l i = Some y ->
  nth_error (list_set_nth i x l) i = Some x.
Proof. induction l as [|a l IH]; intros [|i] x y H; simpl in *; try discriminate; eauto. Qed.
Lemma nth_error_set_nth_other : forall A (l : list A) i j x, i <> j ->
  nth_error (list_set_nth i x l) j = nth_error l j.
Proof. induction l as [|a l IH]; intros [|i] [|j] x H; simpl; auto; try congruence. Qed.

Lemma nth_update_rec_same : forall w i f r, nth_error (sequence w) i = Some r ->
  nth_error (sequence (ws_update_rec w i f)) i = Some (f r).
Proof.
  intros w i f r H; unfold ws_update_rec; rewrite H; simpl. eapply nth_error_set_nth_same; exact H.
Qed.
Lemma nth_update_rec_other : forall w i j f, i <> j ->
  nth_error (sequence (ws_update_rec w i f)) j = nth_error (sequence w) j.
Proof.
  intros w i j f H; unfold ws_update_rec. destruct (nth_error (sequence w) i); [|reflexivity].
  simpl; apply nth_error_set_nth_other; exact H.
Qed.
Lemma tasks_update_rec : forall w i f, tasks (ws_update_rec w i f) = tasks w.
Proof. intros; unfold ws_update_rec; destruct (nth_error (sequence w) i); reflexivity. Qed.

(* what the status update does to the addressed record *)
Lemma setst_inv : forall idx ns c c' res r, uts_setst idx ns c = (c', res) ->
  nth_error (sequence (c_ws c)) idx = Some r ->
  res = Val tt /\ tasks (c_ws c') = tasks (c_ws c) /\ c_graph c' = c_graph c /\
  nth_error (sequence (c_ws c')) idx = Some (match ns with Some s => r_set_status r (Some s) | None => r end).
Proof.
  intros idx ns c c' res r H Hn; unfold uts_setst in H. destruct ns as [s|].
  - unfold set_rec_status, modws in H; inversion H; subst; simpl.
    rewrite tasks_update_rec. repeat split.
    exact (nth_update_rec_same (c_ws c) idx (fun r => r_set_status r (Some s)) r Hn).
  - inversion H; subst. repeat split; exact Hn.
Qed.

Lemma rstatus_set : forall r s, rstatus (r_set_status r (Some s)) = s.
Proof. reflexivity. Qed.

(* ------------------------------------------------------------------ records and pointers kept *)

Definition Rk (c c' : cstate) : Prop :=
  sequence (c_ws c') = sequence (c_ws c) /\ tasks (c_ws c') = tasks (c_ws c).
Lemma Rk_refl : forall c, Rk c c.
Proof. intro; split; reflexivity. Qed.
Lemma Rk_trans : forall a b c, Rk a b -> Rk b c -> Rk a c.
Proof. unfold Rk; intros a b c [H1 H2] [H3 H4]; split; congruence. Qed.

Lemma seq_remove_staged : forall w t r, sequence (ws_remove_staged_task w t r) = sequence w.
Proof.
  intros; unfold ws_remove_staged_task. destruct (get_staged_task w t r); [|reflexivity].
  destruct (items_any_active s); reflexivity.
Qed.
Lemma tasks_remove_staged : forall w t r, tasks (ws_remove_staged_task w t r) = tasks w.
Proof.
  intros; unfold ws_remove_staged_task. destruct (get_staged_task w t r); [|reflexivity].
  destruct (items_any_active s); reflexivity.
Qed.

Ltac leafk :=
  first
    [ apply (preserves_modws Rk); intro; split; simpl; first [reflexivity|apply seq_remove_staged|apply tasks_remove_staged]
    | apply (preserves_modify Rk); intro; split; simpl; reflexivity
    | apply (preserves_modify Rk); intro; unfold Rk;
      match goal with |- context [if ?b then _ else _] => destruct b end; split; reflexivity
    | assumption ].
Ltac walkk := pw Rk_refl Rk_trans leafk.

Lemma pk_unstage : forall t route evt s0, preserves Rk (uts_unstage t route evt s0).
Proof. intros; unfold uts_unstage; walkk. Qed.
Lemma pk_item : forall t route evt s0, preserves Rk (uts_item t route evt s0).
Proof. intros; unfold uts_item; walkk. Qed.
Lemma pk_logfail : forall t evt, preserves Rk (uts_logfail t evt).
Proof. intros; unfold uts_logfail, log_entry_error; walkk. Qed.

(* ------------------------------------------------------------------ the completion step *)

Section Completion.
Variable ev : string -> dict -> evalres.

Lemma evaluate_task_retry_pure : forall r ctx, state_pure (evaluate_task_retry ev r ctx).
Proof.
  intros r ctx; unfold evaluate_task_retry. destruct (r_retry r) as [rr|]; [|apply state_pure_ret].
  destruct (negb (py_is_int (rr_count rr))); [apply state_pure_raise|].
  destruct (Z.leb _ _); [apply state_pure_ret|].
  destruct (status_in (rstatus r) ABENDED_STATUSES && is_jnull (rr_when rr)); [apply state_pure_ret|].
  apply state_pure_bind; [apply evaluate_pure|intro; apply state_pure_ret].
Qed.

Lemma try_true_inv : forall (m : M bool) h c c' b, state_pure m -> (forall e, vpost (fun b => b = false) (h e)) ->
  try_catch m h c = (c', Val b) -> b = true -> c' = c /\ m c = (c, Val true).
Proof.
  intros m h c c' b Hp Hh H Hb; unfold try_catch in H. pose proof (Hp c) as Hc.
  destruct (m c) as [c1 [a|e]] eqn:E; simpl in Hc; subst c1.
  - inversion H; subst; split; reflexivity.
  - pose proof (Hh e _ _ _ H); congruence.
Qed.

Definition bounded (r : trec) : Prop :=
  forall rr, r_retry r = Some rr -> py_is_int (rr_count rr) = true ->
             (Z.of_nat (rr_tally rr) < py_int_value (rr_count rr))%Z.

Lemma retry_allowed_bounded : forall r, retry_allowed r true -> bounded r.
Proof.
  intros r H rr Hr Hi. destruct (H eq_refl) as [rr' [Hr' [_ Hlt]]]. rewrite Hr in Hr'; inversion Hr'; subst; exact Hlt.
Qed.

(* what the completion step returns, and in which state: a positive retry decision leaves the state
   as it was when the record was read, is taken only when the table allows retrying from the new
   status, and the record read has tally < count *)
Lemma completion_inv : forall t route evt ts idx new old c c' compl,
  uts_completion ev t route evt ts idx new old c = (c', Val compl) ->
  (status_in new COMPLETED_STATUSES = false /\ compl = None /\ c' = c) \/
  (status_in new COMPLETED_STATUSES = true /\
   exists c1 r ctx b, Rk c c1 /\ c_graph c1 = c_graph c /\ nth_error (sequence (c_ws c1)) idx = Some r /\
     compl = Some (ctx, b) /\
     (b = true -> c' = c1 /\ tbl_transition_valid task_table new S_RETRYING = true /\ retry_allowed r true) /\
     (r_retry r = None -> b = false) /\ (b = true -> new <> old)).
Proof.
  intros t route evt ts idx new old c c' compl H. unfold uts_completion in H.
  destruct (status_in new COMPLETED_STATUSES) eqn:Ec; [right; split; [reflexivity|]|left; inversion H; auto].
  apply bind_val_inv' in H. destruct H as [c1 [u [E1 H]]].
  assert (K1 : Rk c c1 /\ c_graph c1 = c_graph c).
  { match type of E1 with ?m _ = _ =>
      assert (P1 : preserves Rk m) by walkk;
      assert (P2 : preserves Rg m) by (pw Rg_refl Rg_trans ltac:(first [apply (preserves_modws Rg); intro; reflexivity])) end.
    split; [eapply P1; exact E1|eapply P2; exact E1]. }
  cbv zeta in H.
  apply bind_val_inv' in H. destruct H as [c2 [r [E2 H]]].
  apply get_rec_inv in E2; destruct E2 as [-> Hr].
  apply bind_val_inv' in H. destruct H as [c3 [in_ctx [E3 H]]].
  assert (c3 = c1) as ->.
  { unfold get_task_context, bind, getws in E3. apply lift_res_inv in E3; destruct E3; assumption. }
  apply bind_val_inv' in H. destruct H as [c4 [w [E4 H]]]. inversion E4; subst c4 w; clear E4.
  apply bind_val_inv' in H. destruct H as [c5 [b [E5 H]]]. inversion H; subst c' compl; clear H.
  destruct K1 as [K1 K2].
  eexists c1, r, _, b.
  split; [exact K1|]. split; [exact K2|]. split; [exact Hr|]. split; [reflexivity|].
  assert (Guard : b = true -> c5 = c1 /\
            negb (status_eqb new old) && status_in (wstatus (c_ws c1)) ACTIVE_STATUSES
              && tbl_transition_valid task_table new S_RETRYING = true /\ retry_allowed r true).
  { intro Hb; subst b. apply try_true_inv in E5; try reflexivity.
    + destruct E5 as [-> E5]. split; [reflexivity|].
      destruct (negb (status_eqb new old) && status_in (wstatus (c_ws c1)) ACTIVE_STATUSES
                && tbl_transition_valid task_table new S_RETRYING) eqn:Eg; [|inversion E5].
      split; [reflexivity|]. eapply evaluate_task_retry_bound; exact E5.
    + match goal with |- state_pure (if ?g then _ else _) => destruct g end;
        [apply evaluate_task_retry_pure|apply state_pure_ret].
    + intro e. apply vpost_bind; intro. apply vpost_bind; intro. apply vpost_ret; reflexivity. }
  split; [|split].
  - intro Hb. destruct (Guard Hb) as [G1 [G2 G3]]. split; [exact G1|]. split; [|exact G3].
    apply andb_prop in G2; destruct G2 as [_ G2]; exact G2.
  - intro Hn. unfold try_catch in E5.
    assert (G : forall ctx, evaluate_task_retry ev r ctx c1 = (c1, Val false)) by (intro; unfold evaluate_task_retry; rewrite Hn; reflexivity).
    match type of E5 with context [if ?g then _ else _] => destruct g end;
      [rewrite G in E5|unfold ret in E5]; inversion E5; reflexivity.
  - intros Hb Heq. destruct (Guard Hb) as [_ [G2 _]]. apply andb_prop in G2; destruct G2 as [G2 _].
    apply andb_prop in G2; destruct G2 as [G2 _]. subst old. rewrite status_eqb_refl in G2. discriminate G2.
Qed.

End Completion.

(* ------------------------------------------------------------------ the task-machine step *)

Section Machine.
Variable ev : string -> dict -> evalres.

Definition stepped (r : trec) (ns : option status) : trec :=
  match ns with Some s => r_set_status r (Some s) | None => r end.

Lemma stepped_retry : forall r ns, r_retry (stepped r ns) = r_retry r.
Proof. intros r [s|]; reflexivity. Qed.
Lemma stepped_status : forall r ns, rstatus (stepped r ns) = match ns with Some s => s | None => rstatus r end.
Proof. intros r [s|]; reflexivity. Qed.

Lemma pre_machine_inv : forall t route evt ts idx c c' p,
  pre_machine ev t route evt ts idx c = (c', Val p) ->
  exists r ns c1 c2,
    nth_error (sequence (c_ws c)) idx = Some r /\
    task_process_event (c_ws c) r evt = Val ns /\
    uts_setst idx ns c = (c1, Val tt) /\
    nth_error (sequence (c_ws c1)) idx = Some (stepped r ns) /\
    tasks (c_ws c1) = tasks (c_ws c) /\ c_graph c1 = c_graph c /\
    uts_retrying t route idx (stepped r ns) (rstatus (stepped r ns)) c1 = (c2, Val tt) /\
    uts_completion ev t route evt ts idx (rstatus (stepped r ns)) (rstatus r) c2 = (c', Val (po_compl p)) /\
    po_ts p = ts /\ po_idx p = idx /\ po_old p = rstatus r /\ po_new p = rstatus (stepped r ns).
Proof.
  intros t route evt ts idx c c' p H. unfold pre_machine in H.
  apply bind_val_inv' in H. destruct H as [c0 [r [E0 H]]]. apply get_rec_inv in E0; destruct E0 as [-> Hr].
  apply bind_val_inv' in H. destruct H as [c0 [w [E0 H]]]. inversion E0; subst c0 w; clear E0.
  apply bind_val_inv' in H. destruct H as [c0 [ns [E0 H]]]. apply lift_res_inv in E0; destruct E0 as [-> Ens].
  apply bind_val_inv' in H. destruct H as [c1 [u1 [E1 H]]].
  destruct (setst_inv _ _ _ _ _ _ E1 Hr) as [_ [Ht [Hg Hn]]]. destruct u1.
  apply bind_val_inv' in H. destruct H as [c0 [r' [E0 H]]]. apply get_rec_inv in E0; destruct E0 as [-> Hr'].
  fold (stepped r ns) in Hn. rewrite Hn in Hr'; inversion Hr'; subst r'; clear Hr'.
  apply bind_val_inv' in H. destruct H as [c2 [u2 [E2 H]]]. destruct u2.
  apply bind_val_inv' in H. destruct H as [c3 [compl [E3 H]]]. inversion H; subst c3 p; clear H.
  exists r, ns, c1, c2. simpl. repeat (split; [first [assumption|reflexivity|symmetry; assumption]|]). reflexivity.
Qed.

(* when does the tail make no call at all *)
Definition norec_cond (c : cstate) (t : string) (p : pre_out) : Prop :=
  po_compl p = None \/
  exists ctx, po_compl p = Some (ctx, false) /\ (po_new p = po_old p \/ g_next_transitions (c_graph c) t = []).

(* the retry event: whatever the state, the call it is delivered in makes no further call *)
Lemma pre_machine_retry_event : forall t route ts idx c c' p,
  pre_machine ev t route retry_event ts idx c = (c', Val p) -> norec_cond c' t p.
Proof.
  intros t route ts idx c c' p H.
  destruct (pre_machine_inv _ _ _ _ _ _ _ _ H) as [r [ns [c1 [c2 [Hr [Ens [_ [_ [_ [_ [_ [Ec [_ [_ [Ho Hn]]]]]]]]]]]]]]].
  apply tpe_engine in Ens. rewrite stepped_status in Hn, Ec.
  destruct (completion_inv _ _ _ _ _ _ _ _ _ _ _ Ec) as [[_ [Hc _]]|[Hcomp [c3 [r3 [ctx [b [_ [_ [_ [Hc [Hb _]]]]]]]]]]];
    [left; exact Hc|].
  destruct ns as [s|].
  - apply F_retry_event_target in Ens; subst s. rewrite retrying_not_completed in Hcomp; discriminate.
  - right; exists ctx. destruct b.
    + exfalso. destruct (Hb eq_refl) as [_ [Hv _]].
      destruct (F_task_retry_valid _ Hv) as [E|E].
      * rewrite E in Hcomp; rewrite retrying_not_completed in Hcomp; discriminate.
      * rewrite Ens in E; discriminate.
    + split; [exact Hc|left; congruence].
Qed.

End Machine.

(* ------------------------------------------------------------------ the queue of engine commands *)

Section Queue.
Variable ev : string -> dict -> evalres.

Definition cmd_pair (p : string * nat) : Prop := is_engine_command (fst p) = true.
Definition cmd_res (res : option (string * nat) * option (string * nat)) : Prop :=
  forall x, fst res = Some x -> cmd_pair x.

Lemma process_transition_cmd : forall t route idx ts ctx e,
  vpost cmd_res (process_transition ev t route idx ts ctx e).
Proof.
  intros; unfold process_transition. apply vpost_bind; intros [[|]|];
    try (apply vpost_ret; intros x Hx; discriminate).
  apply vpost_bind; intros [new_ctx errors]. destruct errors as [|e1 errs].
  2: { repeat (apply vpost_bind; intro). apply vpost_ret; intros x Hx; discriminate. }
  repeat (apply vpost_bind; intro).
  destruct (is_engine_command (e_dst e)) eqn:E.
  - apply vpost_ret; intros x Hx; inversion Hx; subst; exact E.
  - match goal with |- vpost _ (if ?b then _ else _) => destruct b end; apply vpost_ret; intros x Hx; discriminate.
Qed.

Lemma cmds_of_results : forall A (l : list A) rs, Forall2 (fun _ res => cmd_res res) l rs ->
  Forall cmd_pair (flat_map (fun '(q, _) => match q with Some x => [x] | None => [] end) rs).
Proof.
  intros A l rs H; induction H as [|a [q q'] l rs Hq Hl IH]; simpl; [constructor|].
  destruct q as [x|]; simpl; [constructor; [apply Hq; reflexivity|exact IH]|exact IH].
Qed.

(* only engine commands are queued *)
Lemma queue_cmds : forall t route idx ts old new compl,
  vpost (Forall cmd_pair) (uts_queue ev t route idx ts old new compl).
Proof.
  intros; unfold uts_queue. destruct compl as [[ctx b]|]; [|apply vpost_ret; constructor].
  destruct (negb (status_eqb new old)); [|apply vpost_ret; constructor].
  apply vpost_bind; intro c0. cbv zeta. apply vpost_bind; intro.
  eapply vpost_bind_strong;
    [apply (vpost_mapM _ _ (fun _ res => cmd_res res)); intro; apply process_transition_cmd | intros rs Hrs].
  repeat (apply vpost_bind; intro). apply vpost_ret. eapply cmds_of_results; exact Hrs.
Qed.

(* nothing is queued when the status did not change or the task has no outgoing transition *)
Lemma queue_nil : forall t route idx ts old new compl c c' q,
  uts_queue ev t route idx ts old new compl c = (c', Val q) ->
  (new = old \/ g_next_transitions (c_graph c) t = []) -> q = [].
Proof.
  intros t route idx ts old new compl c c' q H Hc. unfold uts_queue in H.
  destruct compl as [[ctx b]|]; [|inversion H; reflexivity].
  destruct (negb (status_eqb new old)) eqn:En; [|inversion H; reflexivity].
  destruct Hc as [Hc|Hc]; [subst; rewrite status_eqb_refl in En; discriminate|].
  apply bind_val_inv' in H. destruct H as [c0 [cst [E0 H]]]. inversion E0; subst c0 cst; clear E0.
  cbv zeta in H. rewrite Hc in H.
  apply bind_val_inv' in H. destruct H as [c1 [u1 [_ H]]].
  apply bind_val_inv' in H. destruct H as [c2 [rs [E2 H]]]. simpl in E2. inversion E2; subst c2 rs; clear E2.
  apply bind_val_inv' in H. destruct H as [c3 [u3 [_ H]]].
  apply bind_val_inv' in H. destruct H as [c4 [r4 [_ H]]].
  apply bind_val_inv' in H. destruct H as [c5 [u5 [_ H]]]. inversion H; reflexivity.
Qed.

(* ... and then the tail does not depend on the callee *)
Lemma tail_norec_eq : forall rec1 rec2 t route ts idx old new compl c,
  (compl = None \/ exists ctx, compl = Some (ctx, false) /\ (new = old \/ g_next_transitions (c_graph c) t = [])) ->
  uts_tail ev rec1 t route ts idx old new compl c = uts_tail ev rec2 t route ts idx old new compl c.
Proof.
  intros rec1 rec2 t route ts idx old new compl c H. unfold uts_tail.
  destruct H as [->|[ctx [-> H]]].
  - apply bind_congr; intros c1 q E. inversion E; subst. reflexivity.
  - apply bind_congr; intros c1 q E. rewrite (queue_nil _ _ _ _ _ _ _ _ _ _ E H). reflexivity.
Qed.

End Queue.

(* ------------------------------------------------------------------ selecting the record *)

Lemma aget_aset_same : forall K V (keqb : K -> K -> bool) k (v : V) d,
  keqb k k = true -> aget keqb k (aset keqb k v d) = Some v.
Proof.
  intros K V keqb k v d Hk; induction d as [|[k' v'] d IH]; simpl.
  - rewrite Hk; reflexivity.
  - destruct (keqb k k') eqn:E; simpl; rewrite E; [reflexivity|exact IH].
Qed.

Lemma tkey_eqb_refl : forall k, tkey_eqb k k = true.
Proof. intros [t r]; unfold tkey_eqb; simpl. rewrite String.eqb_refl, Nat.eqb_refl; reflexivity. Qed.

Lemma get_staged_matches : forall w t route s, get_staged_task w t route = Some s -> s_id s = t /\ s_route s = route.
Proof.
  intros w t route s H; unfold get_staged_task in H. apply find_some in H; destruct H as [_ H].
  unfold stg_matches in H. apply andb_prop in H; destruct H as [H1 H2].
  apply String.eqb_eq in H1; apply Nat.eqb_eq in H2; split; assumption.
Qed.

Section Select.
Variable ev : string -> dict -> evalres.

Lemma setup_retry_fresh : forall t idxs, vpost (fun rr => rr_tally rr = 0) (setup_retry ev t idxs).
Proof. intros; unfold setup_retry. vw ltac:(reflexivity). Qed.

Definition fresh_retry (o : option retry_rec) : Prop := forall rr, o = Some rr -> rr_tally rr = 0.

(* a new record: appended, pointed to, without status, its retry tally 0 (no retry when the graph has none) *)
Lemma add_task_state_inv : forall t rt ins prev c c' idx,
  add_task_state ev t rt ins prev c = (c', Val idx) ->
  exists r, nth_error (sequence (c_ws c')) idx = Some r /\ r_status r = None /\ fresh_retry (r_retry r) /\
            (g_task_has_retry (c_graph c) t = false -> r_retry r = None) /\
            ws_task_idx (c_ws c') t rt = Some idx.
Proof.
  intros t rt ins prev c c' idx H. unfold add_task_state in H.
  apply bind_val_inv' in H. destruct H as [c0 [cst [E0 H]]]. inversion E0; subst c0 cst; clear E0.
  destruct (negb (g_has_task (c_graph c) t)); [inversion H|]. cbv zeta in H.
  apply bind_val_inv' in H. destruct H as [cm [retry [Er H]]].
  apply bind_val_inv' in H. destruct H as [c0 [w [E0 H]]]. inversion E0; subst c0 w; clear E0.
  apply bind_val_inv' in H. destruct H as [c1 [u [E1 H]]]. inversion E1; subst c1; clear E1.
  inversion H; subst c' idx; clear H.
  eexists. simpl. split; [|split; [|split; [|split]]].
  - rewrite nth_error_app2 by apply Nat.le_refl. rewrite Nat.sub_diag. reflexivity.
  - reflexivity.
  - simpl. match type of Er with ?m _ = _ => assert (V : vpost fresh_retry m) end; [|exact (V _ _ _ Er)].
    destruct (g_task_has_retry (c_graph c) t); [|apply vpost_ret; intros rr Hrr; discriminate].
    apply vpost_try_catch.
    + eapply vpost_bind_strong; [apply setup_retry_fresh|intros rr Hrr]. apply vpost_ret.
      intros rr' E; inversion E; subst; exact Hrr.
    + intro e. apply vpost_bind; intro. apply vpost_bind; intro. apply vpost_ret; intros rr Hrr; discriminate.
  - simpl. intro Hg. rewrite Hg in Er. inversion Er; reflexivity.
  - unfold ws_task_idx; simpl. apply aget_aset_same. apply tkey_eqb_refl.
Qed.

Lemma sel1_inv : forall t s0 e0 c c' idx1, uts_sel1 ev t s0 e0 c = (c', Val idx1) ->
  (e0 = Some idx1 /\ is_engine_command t = false /\ c' = c) \/
  (exists s, s0 = Some s /\ add_task_state ev t (s_route s) (s_in s) (s_prev s) c = (c', Val idx1)).
Proof.
  intros t s0 e0 c c' idx1 H. unfold uts_sel1 in H.
  assert (G : forall m, (s <- uts_need_staged s0 ;; m s) c = (c', Val idx1) ->
                        exists s, s0 = Some s /\ m s c = (c', Val idx1)).
  { intros m Hm. apply bind_val_inv' in Hm. destruct Hm as [c1 [s [E1 Hm]]].
    destruct s0 as [s'|]; inversion E1; subst. exists s; split; [reflexivity|exact Hm]. }
  destruct e0 as [i|].
  - destruct (is_engine_command t) eqn:Ec.
    + right. apply (G (fun s => add_task_state ev t (s_route s) (s_in s) (s_prev s))); exact H.
    + left. inversion H; subst; repeat split.
  - right. apply (G (fun s => add_task_state ev t (s_route s) (s_in s) (s_prev s))); exact H.
Qed.

Lemma sel2_inv : forall t evt s0 r1 idx1 c c' idx, uts_sel2 ev t evt s0 r1 idx1 c = (c', Val idx) ->
  (idx = idx1 /\ c' = c) \/
  (ostatus_in (r_status r1) COMPLETED_STATUSES = true /\
   exists s, s0 = Some s /\ add_task_state ev t (s_route s) (s_in s) (s_prev s) c = (c', Val idx)).
Proof.
  intros t evt s0 r1 idx1 c c' idx H. unfold uts_sel2 in H.
  destruct (ostatus_in (r_status r1) COMPLETED_STATUSES) eqn:Eo; cbn [andb] in H.
  - destruct (status_in (ev_status evt) STARTING_STATUSES); cbn [andb] in H.
    + destruct s0 as [s|]; [|left; inversion H; subst; split; reflexivity].
      destruct (negb (s_completed s)); [|left; inversion H; subst; split; reflexivity].
      right; split; [reflexivity|]. apply bind_val_inv' in H. destruct H as [c1 [s' [E1 H]]].
      inversion E1; subst. exists s'; split; [reflexivity|exact H].
    + left; inversion H; subst; split; reflexivity.
  - left; inversion H; subst; split; reflexivity.
Qed.

(* the record the machine step works on: either the one the pointer named at entry (and then no
   record was created in this call) or one created in this call, still without status *)
Lemma select_inv : forall t route evt s0 e0 c c1 idx1 r1 c2 idx c5,
  (forall s, s0 = Some s -> s_route s = route) -> e0 = ws_task_idx (c_ws c) t route ->
  uts_sel1 ev t s0 e0 c = (c1, Val idx1) -> nth_error (sequence (c_ws c1)) idx1 = Some r1 ->
  uts_sel2 ev t evt s0 r1 idx1 c1 = (c2, Val idx) -> Rk c2 c5 ->
  exists r, nth_error (sequence (c_ws c5)) idx = Some r /\ ws_task_idx (c_ws c5) t route = Some idx /\
    ((e0 = Some idx /\ is_engine_command t = false /\ Rk c c5) \/
     (r_status r = None /\ fresh_retry (r_retry r) /\ (g_task_has_retry (c_graph c) t = false -> r_retry r = None))).
Proof.
  intros t route evt s0 e0 c c1 idx1 r1 c2 idx c5 Hroute He0 E1 Hr1 E2 [Ks Kt].
  assert (G1 : c_graph c1 = c_graph c) by (eapply pg_sel1; exact E1).
  assert (New : forall s ca cb i, s0 = Some s -> add_task_state ev t (s_route s) (s_in s) (s_prev s) ca = (cb, Val i) ->
                  c_graph ca = c_graph c -> Rk cb c5 ->
                  exists r, nth_error (sequence (c_ws c5)) i = Some r /\ ws_task_idx (c_ws c5) t route = Some i /\
                    r_status r = None /\ fresh_retry (r_retry r) /\ (g_task_has_retry (c_graph c) t = false -> r_retry r = None)).
  { intros s ca cb i Hs Ha Hg [Hk1 Hk2]. destruct (add_task_state_inv _ _ _ _ _ _ _ Ha) as [r [Hn [Hst [Hf [Hnr Hp]]]]].
    exists r. rewrite (Hroute _ Hs) in Hp. unfold ws_task_idx in *. rewrite Hk1, Hk2, Hg in *. repeat (split; [assumption|]). assumption. }
  destruct (sel2_inv _ _ _ _ _ _ _ _ E2) as [[-> ->]|[_ [s [Hs Ha]]]].
  - destruct (sel1_inv _ _ _ _ _ _ E1) as [[-> [Hc ->]]|[s [Hs Ha]]].
    + exists r1. split; [rewrite Ks; exact Hr1|]. split; [unfold ws_task_idx in *; rewrite Kt; symmetry; exact He0|].
      left; split; [reflexivity|split; [exact Hc|split; assumption]].
    + destruct (New s c c1 idx1 Hs Ha eq_refl (conj Ks Kt)) as [r [Hn [Hp Hrest]]].
      exists r. split; [exact Hn|]. split; [exact Hp|right; exact Hrest].
  - destruct (New s c1 c2 idx Hs Ha G1 (conj Ks Kt)) as [r [Hn [Hp Hrest]]].
    exists r. split; [exact Hn|]. split; [exact Hp|right; exact Hrest].
Qed.

Lemma pre_main_inv : forall t route evt ts s0 e0 c c' p,
  pre_main ev t route evt ts s0 e0 c = (c', Val p) ->
  (forall s, s0 = Some s -> s_route s = route) -> e0 = ws_task_idx (c_ws c) t route ->
  exists idx c3 r,
    pre_machine ev t route evt ts idx c3 = (c', Val p) /\
    c_graph c3 = c_graph c /\
    nth_error (sequence (c_ws c3)) idx = Some r /\
    ws_task_idx (c_ws c3) t route = Some idx /\
    ((e0 = Some idx /\ is_engine_command t = false /\ Rk c c3) \/
     (r_status r = None /\ fresh_retry (r_retry r) /\ (g_task_has_retry (c_graph c) t = false -> r_retry r = None))).
Proof.
  intros t route evt ts s0 e0 c c' p H Hroute He0. unfold pre_main in H.
  apply bind_val_inv' in H. destruct H as [c1 [idx1 [E1 H]]].
  apply bind_val_inv' in H. destruct H as [c0 [r1 [E0 H]]]. apply get_rec_inv in E0; destruct E0 as [-> Hr1].
  apply bind_val_inv' in H. destruct H as [c2 [idx [E2 H]]].
  apply bind_val_inv' in H. destruct H as [c3 [u3 [E3 H]]].
  apply bind_val_inv' in H. destruct H as [c4 [u4 [E4 H]]].
  apply bind_val_inv' in H. destruct H as [c5 [u5 [E5 H]]].
  assert (K : Rk c2 c5).
  { eapply Rk_trans; [eapply pk_unstage; exact E3|]. eapply Rk_trans; [eapply pk_item; exact E4|eapply pk_logfail; exact E5]. }
  assert (G : c_graph c5 = c_graph c).
  { transitivity (c_graph c4); [eapply pg_logfail; exact E5|]. transitivity (c_graph c3); [eapply pg_item; exact E4|].
    transitivity (c_graph c2); [eapply pg_unstage; exact E3|]. transitivity (c_graph c1); [eapply pg_sel2; exact E2|].
    eapply pg_sel1; exact E1. }
  destruct (select_inv _ _ _ _ _ _ _ _ _ _ _ _ Hroute He0 E1 Hr1 E2 K) as [r [Hn [Hp Hd]]].
  exists idx, c5, r. split; [exact H|]. split; [exact G|]. split; [exact Hn|]. split; [exact Hp|exact Hd].
Qed.

End Select.

(* ------------------------------------------------------------------ (1) termination of the re-entrant call *)

(* engine commands have no outgoing transitions and no retry policy (true of every composed graph) *)
Definition graph_commands_inert (g : graph) : Prop :=
  forall cmd, is_engine_command cmd = true -> g_next_transitions g cmd = [] /\ g_task_has_retry g cmd = false.

Section Termination.
Variable ev : string -> dict -> evalres.

Lemma prefix_inv : forall t route evt c c' p, uts_prefix ev t route evt c = (c', Val p) ->
  exists c1 ts, ensure_ws ev c = (c1, Val tt) /\
    pre_main ev t route evt ts (get_staged_task (c_ws c1) t route) (ws_task_idx (c_ws c1) t route) c1 = (c', Val p).
Proof.
  intros t route evt c c' p H. unfold uts_prefix in H.
  apply bind_val_inv' in H. destruct H as [c1 [[] [E1 H]]].
  apply bind_val_inv' in H. destruct H as [c0 [cst [E0 H]]]. inversion E0; subst c0 cst; clear E0.
  destruct (negb (g_has_task (c_graph c1) t)); [inversion H|]. cbv zeta in H.
  apply bind_val_inv' in H. destruct H as [c2 [ts [E2 H]]].
  assert (c2 = c1) as -> by (destruct (spec_get_task (c_spec c1) t); inversion E2; reflexivity).
  exists c1, ts. split; [exact E1|].
  destruct (get_staged_task (c_ws c1) t route), (ws_task_idx (c_ws c1) t route); try exact H. inversion H.
Qed.

Lemma prefix_to_machine : forall t route evt c c' p, uts_prefix ev t route evt c = (c', Val p) ->
  exists c1 ts idx c3 r,
    ensure_ws ev c = (c1, Val tt) /\
    pre_machine ev t route evt ts idx c3 = (c', Val p) /\
    c_graph c3 = c_graph c1 /\
    nth_error (sequence (c_ws c3)) idx = Some r /\
    ws_task_idx (c_ws c3) t route = Some idx /\
    ((ws_task_idx (c_ws c1) t route = Some idx /\ is_engine_command t = false /\ Rk c1 c3) \/
     (r_status r = None /\ fresh_retry (r_retry r) /\ (g_task_has_retry (c_graph c1) t = false -> r_retry r = None))).
Proof.
  intros t route evt c c' p H. destruct (prefix_inv _ _ _ _ _ _ H) as [c1 [ts [E1 Hm]]].
  apply pre_main_inv in Hm; [|intros s Hs; apply get_staged_matches in Hs; apply Hs|reflexivity].
  destruct Hm as [idx [c3 [r Hm]]]. exists c1, ts, idx, c3, r. split; [exact E1|exact Hm].
Qed.

(* (A) the call delivering the retry event never calls back, in any state *)
Lemma prefix_retry_event : forall t route c c' p,
  uts_prefix ev t route retry_event c = (c', Val p) -> norec_cond c' t p.
Proof.
  intros t route c c' p H. destruct (prefix_to_machine _ _ _ _ _ _ H) as [c1 [ts [idx [c3 [r [_ [Hm _]]]]]]].
  eapply pre_machine_retry_event; exact Hm.
Qed.

Lemma retrying_none_inv : forall t route idx r st c c', r_retry r = None ->
  uts_retrying t route idx r st c = (c', Val tt) -> c' = c.
Proof.
  intros t route idx r st c c' Hn H. unfold uts_retrying in H. rewrite Hn in H.
  destruct (status_eqb st S_RETRYING); inversion H; reflexivity.
Qed.

(* (B) a call on an engine command without retry policy never decides to retry *)
Lemma prefix_cmd_no_retry : forall t route evt c c' p,
  is_engine_command t = true -> g_task_has_retry (c_graph c) t = false ->
  uts_prefix ev t route evt c = (c', Val p) -> forall ctx b, po_compl p = Some (ctx, b) -> b = false.
Proof.
  intros t route evt c c' p Hcmd Hnr H ctx b Hc.
  destruct (prefix_to_machine _ _ _ _ _ _ H) as [c1 [ts [idx [c3 [r [E1 [Hm [Hg [Hr [_ Hd]]]]]]]]]].
  assert (G1 : c_graph c1 = c_graph c) by (eapply pg_ensure_ws; exact E1).
  destruct Hd as [[_ [Hd _]]|[_ [_ Hd]]]; [congruence|]. rewrite G1 in Hd. specialize (Hd Hnr).
  destruct (pre_machine_inv _ _ _ _ _ _ _ _ _ Hm) as [r0 [ns [c4 [c5 [Hr0 [_ [_ [Hn [_ [_ [Ert [Ec _]]]]]]]]]]]].
  rewrite Hr in Hr0; inversion Hr0; subst r0; clear Hr0.
  assert (Hs : r_retry (stepped r ns) = None) by (rewrite stepped_retry; exact Hd).
  apply (retrying_none_inv _ _ _ _ _ _ _ Hs) in Ert; subst c5.
  destruct (completion_inv _ _ _ _ _ _ _ _ _ _ _ Ec) as [[_ [Hn0 _]]|[_ [c6 [r6 [ctx6 [b6 [[Ks _] [_ [Hr6 [Hc6 [_ Hb6]]]]]]]]]]].
  - rewrite Hn0 in Hc; discriminate.
  - rewrite Hc6 in Hc; inversion Hc; subst. apply Hb6. rewrite Ks, Hn in Hr6. inversion Hr6; subst; exact Hs.
Qed.

Lemma body_norec_retry : forall rec1 rec2 t route c,
  uts_body ev rec1 t route retry_event c = uts_body ev rec2 t route retry_event c.
Proof.
  intros. rewrite !body_eq. apply bind_congr; intros c1 p E. unfold tail_of.
  apply tail_norec_eq. exact (prefix_retry_event _ _ _ _ _ E).
Qed.

Lemma body_norec_cmd : forall rec1 rec2 n rt e c, graph_commands_inert (c_graph c) -> is_engine_command n = true ->
  uts_body ev rec1 n rt e c = uts_body ev rec2 n rt e c.
Proof.
  intros rec1 rec2 n rt e c Hi Hn. rewrite !body_eq. apply bind_congr; intros c1 p E. unfold tail_of.
  destruct (Hi n Hn) as [Ht Hr]. apply tail_norec_eq.
  destruct (po_compl p) as [[ctx b]|] eqn:Ec; [right|left; reflexivity].
  rewrite (prefix_cmd_no_retry _ _ _ _ _ _ Hn Hr E ctx b Ec). exists ctx; split; [reflexivity|right].
  rewrite (pg_prefix ev _ _ _ _ _ _ E). exact Ht.
Qed.

(* two callees that agree on the two kinds of call the body makes *)
Definition agree (rec1 rec2 : string -> nat -> event -> M unit) : Prop :=
  (forall t route c, rec1 t route retry_event c = rec2 t route retry_event c) /\
  (forall n rt e c, graph_commands_inert (c_graph c) -> is_engine_command n = true -> rec1 n rt e c = rec2 n rt e c).

Lemma bind_congr_m : forall A B (m1 m2 : M A) (f : A -> M B) c, m1 c = m2 c -> bind m1 f c = bind m2 f c.
Proof. intros A B m1 m2 f c H; unfold bind; rewrite H; reflexivity. Qed.

Lemma forM_agree : forall rec1 rec2, agree rec1 rec2 -> (forall t r e, preserves Rg (rec1 t r e)) ->
  forall q c, Forall cmd_pair q -> graph_commands_inert (c_graph c) ->
  forM_ q (uts_call rec1) c = forM_ q (uts_call rec2) c.
Proof.
  intros rec1 rec2 [HA HB] Hg q; induction q as [|[n rt] q IH]; intros c Hq Hi; [reflexivity|].
  inversion Hq as [|x l Hx Hl]; subst. cbn [forM_].
  assert (E : uts_call rec1 (n, rt) c = uts_call rec2 (n, rt) c).
  { unfold uts_call. destruct (engine_event n); [apply HB; [exact Hi|exact Hx]|reflexivity]. }
  unfold bind. rewrite <- E. destruct (uts_call rec1 (n, rt) c) as [c1 [u|x]] eqn:E1; [|reflexivity].
  apply IH; [exact Hl|].
  assert (G : c_graph c1 = c_graph c).
  { unfold uts_call in E1. destruct (engine_event n); [eapply Hg; exact E1|inversion E1]. }
  rewrite G; exact Hi.
Qed.

Lemma tail_agree : forall rec1 rec2, agree rec1 rec2 -> (forall t r e, preserves Rg (rec1 t r e)) ->
  forall t route ts idx old new compl c, graph_commands_inert (c_graph c) ->
  uts_tail ev rec1 t route ts idx old new compl c = uts_tail ev rec2 t route ts idx old new compl c.
Proof.
  intros rec1 rec2 Ha Hg t route ts idx old new compl c Hi. unfold uts_tail.
  assert (G : forall compl',
    (queue <- uts_queue ev t route idx ts old new compl' ;;
     r <- get_rec idx ;;
     st <- (match r_status r with Some s => ret s | None => raise (exn_key "status") end) ;;
     unreachable <- wf_task_event_M t route st ;;
     log_unreachable unreachable ;;;
     forM_ queue (uts_call rec1) ;;;
     w <- getws ;;
     if status_in (wstatus w) COMPLETED_STATUSES then upd_rec idx (fun r => r_set_term r true) else ret tt) c
    = (queue <- uts_queue ev t route idx ts old new compl' ;;
     r <- get_rec idx ;;
     st <- (match r_status r with Some s => ret s | None => raise (exn_key "status") end) ;;
     unreachable <- wf_task_event_M t route st ;;
     log_unreachable unreachable ;;;
     forM_ queue (uts_call rec2) ;;;
     w <- getws ;;
     if status_in (wstatus w) COMPLETED_STATUSES then upd_rec idx (fun r => r_set_term r true) else ret tt) c).
  { intro compl'. apply bind_congr; intros c1 q E1.
    pose proof (queue_cmds ev _ _ _ _ _ _ _ _ _ _ E1) as Hq.
    assert (G1 : c_graph c1 = c_graph c) by (eapply pg_queue; exact E1).
    apply bind_congr; intros c2 r E2. apply get_rec_state in E2; subst c2.
    apply bind_congr; intros c3 st E3.
    assert (c3 = c1) as -> by (destruct (r_status r); inversion E3; reflexivity).
    apply bind_congr; intros c4 unr E4.
    assert (G4 : c_graph c4 = c_graph c1) by (eapply pg_wf_task_event; exact E4).
    apply bind_congr; intros c5 u E5.
    assert (G5 : c_graph c5 = c_graph c4) by (eapply pg_log_unreachable; exact E5).
    apply bind_congr_m. apply forM_agree; try assumption. rewrite G5, G4, G1; exact Hi. }
  destruct compl as [[ctx [|]]|]; [apply (proj1 Ha)|apply G|apply G].
Qed.

Lemma body_agree : forall rec1 rec2, agree rec1 rec2 -> (forall t r e, preserves Rg (rec1 t r e)) ->
  forall t route evt c, graph_commands_inert (c_graph c) ->
  uts_body ev rec1 t route evt c = uts_body ev rec2 t route evt c.
Proof.
  intros rec1 rec2 Ha Hg t route evt c Hi. rewrite !body_eq. apply bind_congr; intros c1 p E. unfold tail_of.
  apply tail_agree; try assumption. rewrite (pg_prefix ev _ _ _ _ _ _ E); exact Hi.
Qed.

Lemma uts_agree : forall m k, agree (update_task_state_fuel ev (S m)) (update_task_state_fuel ev (S k)).
Proof.
  intros m k; split; intros.
  - rewrite (uts_unfold ev m), (uts_unfold ev k). apply body_norec_retry.
  - rewrite (uts_unfold ev m), (uts_unfold ev k). apply body_norec_cmd; assumption.
Qed.

(* more fuel than 3 never changes the outcome of a call: the recursion bound of the model is never
   the reason for a result (for every evaluator, every event, every state over an inert-command graph).
   In fact no call is made at depth 3: already fuel 2 gives the same result. *)
Theorem fuel_irrelevant : forall n t route evt c, graph_commands_inert (c_graph c) ->
  update_task_state_fuel ev (2 + n) t route evt c = update_task_state_fuel ev 2 t route evt c.
Proof.
  intros n t route evt c Hi. cbn [Nat.add].
  rewrite (uts_unfold ev (S n)), (uts_unfold ev 1). apply body_agree; [apply uts_agree| |exact Hi].
  intros; apply pg_uts_fuel.
Qed.

Corollary fuel_irrelevant_3 : forall n t route evt c, graph_commands_inert (c_graph c) ->
  update_task_state_fuel ev (3 + n) t route evt c = update_task_state ev t route evt c.
Proof.
  intros n t route evt c Hi. unfold update_task_state.
  rewrite (fuel_irrelevant (S n) _ _ _ _ Hi), (fuel_irrelevant 1 _ _ _ _ Hi). reflexivity.
Qed.

End Termination.

(* ------------------------------------------------------------------ no computation raises the fuel error *)

Definition oof (e : exn) : Prop := x_cls e = "OutOfFuel".
Definition nf {A} (m : M A) : Prop := forall c c' e, m c = (c', Exc e) -> ~ oof e.

(* the evaluator has no exception class of that name (the classes it reports are Python class names) *)
Definition ev_no_fuel_exn (ev : string -> dict -> evalres) : Prop :=
  forall s ctx e, ev s ctx = EvErr e -> ~ oof e.

Lemma nf_ret : forall A (a : A), nf (ret a).
Proof. intros A a c c' e H; inversion H. Qed.
Lemma nf_raise : forall A e, ~ oof e -> nf (@raise A e).
Proof. intros A e He c c' e' H; inversion H; subst; exact He. Qed.
Lemma nf_get : nf get.
Proof. intros c c' e H; inversion H. Qed.
Lemma nf_getws : nf getws.
Proof. intros c c' e H; inversion H. Qed.
Lemma nf_modify : forall f, nf (modify f).
Proof. intros f c c' e H; inversion H. Qed.
Lemma nf_modws : forall f, nf (modws f).
Proof. intros f c c' e H; inversion H. Qed.
Lemma nf_bind : forall A B (m : M A) (f : A -> M B), nf m -> (forall a, nf (f a)) -> nf (bind m f).
Proof.
  intros A B m f Hm Hf c c' e H. unfold bind in H. destruct (m c) as [c1 [a|x]] eqn:E.
  - eapply Hf; exact H.
  - inversion H; subst. eapply Hm; exact E.
Qed.
Lemma nf_try_catch : forall A (m : M A) h, (forall e, nf (h e)) -> nf (try_catch m h).
Proof.
  intros A m h Hh c c' e H. unfold try_catch in H. destruct (m c) as [c1 [a|x]] eqn:E; [inversion H|].
  eapply Hh; exact H.
Qed.
Lemma nf_try_catch_expr : forall A (m : M A) h, nf m -> (forall e, nf (h e)) -> nf (try_catch_expr m h).
Proof.
  intros A m h Hm Hh c c' e H. unfold try_catch_expr in H. destruct (m c) as [c1 [a|x]] eqn:E; [inversion H|].
  destruct (x_expr x); [eapply Hh; exact H|inversion H; subst; eapply Hm; exact E].
Qed.
Lemma nf_mapM : forall A B (f : A -> M B) l, (forall a, nf (f a)) -> nf (mapM f l).
Proof.
  intros A B f l Hf; induction l as [|x l IH]; simpl; [apply nf_ret|].
  apply nf_bind; [apply Hf|intro]. apply nf_bind; [exact IH|intro; apply nf_ret].
Qed.
Lemma nf_forM : forall A (l : list A) f, (forall a, nf (f a)) -> nf (forM_ l f).
Proof.
  intros A l f Hf; induction l as [|x l IH]; simpl; [apply nf_ret|].
  apply nf_bind; [apply Hf|intro; exact IH].
Qed.
Lemma nf_lift_res : forall A (r : result A), (forall e, r = Exc e -> ~ oof e) -> nf (lift_res r).
Proof. intros A r H c c' e E. destruct r; inversion E; subst. apply H; reflexivity. Qed.

Ltac not_oof := unfold oof; cbn; discriminate.

Ltac nw leaf :=
  lazymatch goal with
  | |- nf (ret _) => apply nf_ret
  | |- nf (raise _) => apply nf_raise; not_oof
  | |- nf get => apply nf_get
  | |- nf getws => apply nf_getws
  | |- nf (modify _) => apply nf_modify
  | |- nf (modws _) => apply nf_modws
  | |- nf (bind _ _) => apply nf_bind; [ nw leaf | intro; nw leaf ]
  | |- nf (try_catch _ _) => apply nf_try_catch; intro; nw leaf
  | |- nf (try_catch_expr _ _) => apply nf_try_catch_expr; [ nw leaf | intro; nw leaf ]
  | |- nf (mapM _ _) => apply nf_mapM; intro; nw leaf
  | |- nf (forM_ _ _) => apply nf_forM; intro; nw leaf
  | |- nf (match ?x with _ => _ end) => destruct x; nw leaf
  | |- nf ?m =>
      first [ solve [leaf]
            | let h := head_of m in progress (unfold h); nw leaf
            | progress (cbv beta); nw leaf
            | idtac ]
  end.

Create HintDb nfdb.

Section NoFuelError.
Variable ev : string -> dict -> evalres.
Hypothesis Hev : ev_no_fuel_exn ev.

Lemma nf_lift_eval : forall s ctx, nf (lift_eval (ev s ctx)).
Proof.
  intros s ctx c c' e H. destruct (ev s ctx) as [v|x] eqn:E; inversion H; subst. eapply Hev; exact E.
Qed.

Lemma nf_evaluate : forall stmt ctx, nf (evaluate ev stmt ctx).
Proof.
  intro stmt; induction stmt as [| | | |s|l IH|kv IH] using json_ind'; intro ctx;
    try (simpl; apply nf_ret).
  - simpl; apply nf_lift_eval.
  - simpl. apply nf_bind; [|intro; apply nf_ret].
    induction IH as [|x l Hx Hl IHl]; [apply nf_ret|].
    apply nf_bind; [apply Hx|intro y]. apply nf_bind; [exact IHl|intro; apply nf_ret].
  - simpl. apply nf_bind; [|intro; apply nf_ret].
    generalize (@nil (string * json)) as acc.
    induction IH as [|[k v] kv' Hx Hl IHl]; intro acc; [apply nf_ret|].
    apply nf_bind; [apply nf_lift_eval|intro k'].
    apply nf_bind; [destruct k'; first [apply nf_raise; not_oof|apply nf_ret]|intros _].
    apply nf_bind; [apply Hx|intro v'].
    destruct k'; try (apply nf_raise; not_oof). apply IHl.
Qed.

Ltac leaf :=
  first
    [ assumption
    | apply nf_evaluate
    | apply nf_lift_eval
    | match goal with IH : forall _ _ _, nf _ |- _ => apply IH end
    | match goal with IH : forall _ _, nf _ |- _ => apply IH end
    | match goal with IH : forall _ _ _ _, nf _ |- _ => apply IH end
    | eauto 3 with nfdb ].
Ltac walk := nw leaf.

Lemma nf_wf_workflow_event : forall st, nf (wf_workflow_event_M st).
Proof.
  intros st c c' e H. unfold wf_workflow_event_M in H.
  destruct (wf_process_workflow_event (c_graph c) (c_ws c) st) as [[new unr]|x] eqn:E; inversion H; subst.
  unfold wf_process_workflow_event in E.
  destruct (negb (string_in _ _)); [inversion E; not_oof|].
  destruct (tbl_row wf_table _); [|inversion E; not_oof].
  destruct (aget _ _ _); [|discriminate]. destruct (_ && _); discriminate.
Qed.
Hint Resolve nf_wf_workflow_event : nfdb.

Lemma nf_wf_task_event : forall t route st, nf (wf_task_event_M t route st).
Proof.
  intros t route st c c' e H. unfold wf_task_event_M in H.
  destruct (wf_process_task_event (c_graph c) (c_ws c) t route st) as [[new unr]|x] eqn:E; inversion H; subst.
  unfold wf_process_task_event in E.
  destruct (negb (string_in _ _)); [inversion E; not_oof|].
  destruct (tbl_row wf_table _); [|inversion E; not_oof].
  destruct (aget _ _ _); [|discriminate]. destruct (_ && _); discriminate.
Qed.
Hint Resolve nf_wf_task_event : nfdb.

Lemma task_table_step_nf : forall cur n e, task_table_step cur n = Exc e -> ~ oof e.
Proof. intros cur n e H; unfold task_table_step in H. destruct (tbl_row task_table cur); inversion H; not_oof. Qed.

Lemma tpe_nf : forall w r evt e, task_process_event w r evt = Exc e -> ~ oof e.
Proof.
  intros w r evt e H; unfold task_process_event in H. destruct evt.
  - destruct (negb _); [inversion H; not_oof|eapply task_table_step_nf; exact H].
  - destruct (negb _); [inversion H; not_oof|eapply task_table_step_nf; exact H].
  - destruct (negb _); [inversion H; not_oof|].
    destruct (item_event_name w (r_id r) (r_route r) item st) as [n|x] eqn:En; [eapply task_table_step_nf; exact H|].
    inversion H; subst x. unfold item_event_name in En.
    destruct (negb (status_in st item_requirements)); [discriminate|].
    destruct (get_staged_task w (r_id r) (r_route r)); [|discriminate].
    destruct (s_items s); [|inversion En; not_oof].
    destruct (negb (Nat.ltb item (length l))); [inversion En; not_oof|].
    repeat match type of En with (if ?b then _ else _) = _ => destruct b end; discriminate.
  - destruct (negb _); [inversion H; not_oof|eapply task_table_step_nf; exact H].
Qed.

Lemma nf_tpe : forall w r evt, nf (lift_res (task_process_event w r evt)).
Proof. intros; apply nf_lift_res; intros e H; eapply tpe_nf; exact H. Qed.
Hint Resolve nf_tpe : nfdb.

Lemma nf_get_task_context : forall idxs, nf (get_task_context idxs).
Proof.
  intros; unfold get_task_context. apply nf_bind; [apply nf_getws|intro w]. apply nf_lift_res.
  generalize (@nil (string * json)). induction idxs as [|i idxs IH]; intros acc e H; simpl in H; [discriminate|].
  destruct (nth_error (contexts w) i); [eapply IH; exact H|inversion H; not_oof].
Qed.
Hint Resolve nf_get_task_context : nfdb.

Lemma nf_log_entry_error : forall m t r tr res, nf (log_entry_error m t r tr res).
Proof. intros; unfold log_entry_error; walk. Qed.
Hint Resolve nf_log_entry_error : nfdb.
Lemma nf_log_error : forall e t r tr, nf (log_error e t r tr).
Proof. intros; unfold log_error; auto with nfdb. Qed.
Hint Resolve nf_log_error : nfdb.
Lemma nf_log_errors : forall es t r tr, nf (log_errors es t r tr).
Proof. intros; unfold log_errors; walk. Qed.
Hint Resolve nf_log_errors : nfdb.
Lemma nf_log_unreachable : forall l, nf (log_unreachable l).
Proof. intros; unfold log_unreachable; walk. Qed.
Hint Resolve nf_log_unreachable : nfdb.
Lemma nf_set_rec_status : forall i s, nf (set_rec_status i s).
Proof. intros; unfold set_rec_status; walk. Qed.
Hint Resolve nf_set_rec_status : nfdb.
Lemma nf_upd_rec : forall i f, nf (upd_rec i f).
Proof. intros; unfold upd_rec; walk. Qed.
Hint Resolve nf_upd_rec : nfdb.
Lemma nf_get_rec : forall i, nf (get_rec i).
Proof. intros; unfold get_rec; walk. Qed.
Hint Resolve nf_get_rec : nfdb.
Lemma nf_request_status_core : forall st, nf (request_status_core st).
Proof. intros; unfold request_status_core; walk. Qed.
Hint Resolve nf_request_status_core : nfdb.
Lemma nf_render_input : forall specs rt rolling errs, nf (render_input ev specs rt rolling errs).
Proof. induction specs as [|[n d] specs IH]; intros; simpl; walk. Qed.
Hint Resolve nf_render_input : nfdb.
Lemma nf_render_vars : forall specs rolling rendered errs, nf (render_vars ev specs rolling rendered errs).
Proof. induction specs as [|[n d] specs IH]; intros; simpl; walk. Qed.
Hint Resolve nf_render_vars : nfdb.
Lemma nf_ensure_ws : nf (ensure_ws ev).
Proof. unfold ensure_ws; walk. Qed.
Hint Resolve nf_ensure_ws : nfdb.
Lemma nf_setup_retry : forall t idxs, nf (setup_retry ev t idxs).
Proof. intros; unfold setup_retry; walk. Qed.
Hint Resolve nf_setup_retry : nfdb.
Lemma nf_add_task_state : forall t r i p, nf (add_task_state ev t r i p).
Proof. intros; unfold add_task_state; walk. Qed.
Hint Resolve nf_add_task_state : nfdb.
Lemma nf_evaluate_route : forall e r, nf (evaluate_route e r).
Proof. intros; unfold evaluate_route; walk. Qed.
Hint Resolve nf_evaluate_route : nfdb.
Lemma nf_evaluate_task_retry : forall r ctx, nf (evaluate_task_retry ev r ctx).
Proof. intros; unfold evaluate_task_retry; walk. Qed.
Hint Resolve nf_evaluate_task_retry : nfdb.
Lemma nf_finalize_context : forall ts e ctx, nf (finalize_context ev ts e ctx).
Proof. intros; unfold finalize_context; walk. Qed.
Hint Resolve nf_finalize_context : nfdb.
Lemma nf_process_transition : forall t route idx ts ctx e, nf (process_transition ev t route idx ts ctx e).
Proof. intros; unfold process_transition; walk. Qed.
Hint Resolve nf_process_transition : nfdb.

Lemma nf_prefix : forall t route evt, nf (uts_prefix ev t route evt).
Proof.
  intros; unfold uts_prefix, pre_main, pre_machine, uts_sel1, uts_sel2, uts_need_staged, uts_unstage, uts_item,
    uts_logfail, uts_setst, uts_retrying, uts_completion; walk.
Qed.

Lemma nf_tail : forall rec, (forall t route evt, nf (rec t route evt)) ->
  forall t route ts idx o n compl, nf (uts_tail ev rec t route ts idx o n compl).
Proof. intros rec Hrec; intros; unfold uts_tail, uts_call, uts_queue; walk. Qed.

Lemma nf_body : forall rec, (forall t route evt, nf (rec t route evt)) ->
  forall t route evt, nf (uts_body ev rec t route evt).
Proof.
  intros rec Hrec t route evt c c' e H. rewrite body_eq in H. revert c c' e H.
  apply nf_bind; [apply nf_prefix|intro p; apply nf_tail; exact Hrec].
Qed.

(* TERMINATION, as asked: the bounded model of update_task_state never answers "out of fuel" *)
Theorem update_task_state_never_out_of_fuel : forall t route evt c c' e,
  graph_commands_inert (c_graph c) ->
  update_task_state ev t route evt c = (c', Exc e) -> x_cls e <> "OutOfFuel".
Proof.
  intros t route evt c c' e Hi H. unfold update_task_state in H.
  assert (E : update_task_state_fuel ev 2 t route evt c
              = uts_body ev (uts_body ev (fun _ _ _ => ret tt)) t route evt c).
  { rewrite (uts_unfold ev 1). apply body_agree; [| |exact Hi].
    - split; intros; rewrite (uts_unfold ev 0); [apply body_norec_retry|apply body_norec_cmd; assumption].
    - intros; apply pg_uts_fuel. }
  rewrite <- (fuel_irrelevant ev 1 _ _ _ _ Hi) in E. cbn [Nat.add] in E. rewrite E in H.
  revert H. apply nf_body. intros; apply nf_body. intros; apply nf_ret.
Qed.

End NoFuelError.

(* ------------------------------------------------------------------ (2) the retry bound *)

(* every record with an integer retry count has made at most max(count, 0) retries *)
Definition tally_inv (c : cstate) : Prop :=
  forall rec rr, In rec (sequence (c_ws c)) -> r_retry rec = Some rr -> py_is_int (rr_count rr) = true ->
                 (Z.of_nat (rr_tally rr) <= Z.max (py_int_value (rr_count rr)) 0)%Z.

Definition Rt (c c' : cstate) : Prop := tally_inv c -> tally_inv c'.
Lemma Rt_refl : forall c, Rt c c.
Proof. intros c H; exact H. Qed.
Lemma Rt_trans : forall a b c, Rt a b -> Rt b c -> Rt a c.
Proof. unfold Rt; intros; auto. Qed.

Lemma tally_seq_eq : forall c c', sequence (c_ws c') = sequence (c_ws c) -> Rt c c'.
Proof. intros c c' H Hi; unfold tally_inv; rewrite H; exact Hi. Qed.

Lemma In_set_nth : forall A (l : list A) i x y, In x (list_set_nth i y l) -> x = y \/ In x l.
Proof.
  induction l as [|a l IH]; intros [|i] x y H; simpl in *; try tauto.
  - destruct H as [H|H]; [left; symmetry; exact H|right; right; exact H].
  - destruct H as [H|H]; [right; left; exact H|]. destruct (IH _ _ _ H); [left|right; right]; assumption.
Qed.

Lemma tally_update_rec : forall c i f, (forall r, r_retry (f r) = r_retry r) ->
  Rt c (set_ws c (ws_update_rec (c_ws c) i f)).
Proof.
  intros c i f Hf Hi. unfold tally_inv, ws_update_rec. destruct (nth_error (sequence (c_ws c)) i) as [r0|] eqn:E; [|exact Hi].
  simpl. intros r rr Hin Hr Hint. apply In_set_nth in Hin. destruct Hin as [->|Hin].
  - rewrite Hf in Hr. eapply Hi; [eapply nth_error_In; exact E|exact Hr|exact Hint].
  - eapply Hi; eassumption.
Qed.

Lemma preserves_bind_v : forall (R : cstate -> cstate -> Prop), (forall x y z, R x y -> R y z -> R x z) ->
  forall A B (Q : A -> Prop) (m : M A) (f : A -> M B),
  vpost Q m -> preserves R m -> (forall a, Q a -> preserves R (f a)) -> preserves R (bind m f).
Proof.
  intros R Rtr A B Q m f Hq Hm Hf c c' r H. unfold bind in H. destruct (m c) as [c1 [a|e]] eqn:E.
  - eapply Rtr; [eapply Hm; exact E|eapply Hf; [eapply Hq; exact E|exact H]].
  - inversion H; subst. eapply Hm; exact E.
Qed.

Lemma preserves_forM_In : forall (R : cstate -> cstate -> Prop), (forall c, R c c) -> (forall x y z, R x y -> R y z -> R x z) ->
  forall A (l : list A) f, (forall a, In a l -> preserves R (f a)) -> preserves R (forM_ l f).
Proof.
  intros R Rr Rtr A l f; induction l as [|x l IH]; intro Hf; simpl; [apply (preserves_ret _ Rr)|].
  apply (preserves_bind _ Rtr); [apply Hf; left; reflexivity|intros _; apply IH; intros y Hy; apply Hf; right; exact Hy].
Qed.

Create HintDb prest.
Create HintDb presnr.

Section TallyKept.
Variable ev : string -> dict -> evalres.

Ltac leaf :=
  first
    [ apply (preserves_modws Rt); intro; apply tally_seq_eq; simpl; first [reflexivity|apply seq_remove_staged]
    | apply (preserves_modify Rt); intro; apply tally_seq_eq; simpl; reflexivity
    | apply (preserves_modify Rt); intro; apply tally_seq_eq;
      match goal with |- context [if ?b then _ else _] => destruct b end; reflexivity
    | assumption
    | match goal with IH : forall _ _ _, preserves _ _ |- _ => apply IH end
    | match goal with IH : forall _ _, preserves _ _ |- _ => apply IH end
    | match goal with IH : forall _ _ _ _, preserves _ _ |- _ => apply IH end
    | eauto 3 with prest ].
Ltac walk := pw Rt_refl Rt_trans leaf.

Lemma pt_upd_rec : forall i f, (forall r, r_retry (f r) = r_retry r) -> preserves Rt (upd_rec i f).
Proof. intros i f Hf; unfold upd_rec. apply (preserves_modws Rt); intro c. apply tally_update_rec; exact Hf. Qed.
Hint Resolve pt_upd_rec : prest.
Lemma pt_set_rec_status : forall i s, preserves Rt (set_rec_status i s).
Proof. intros; unfold set_rec_status. apply (preserves_modws Rt); intro c. apply tally_update_rec; reflexivity. Qed.
Hint Resolve pt_set_rec_status : prest.
Lemma pt_wf_workflow_event : forall st, preserves Rt (wf_workflow_event_M st).
Proof.
  intros st c c' r H. unfold wf_workflow_event_M in H.
  destruct (wf_process_workflow_event (c_graph c) (c_ws c) st) as [[new unr]|e]; inversion H; subst;
    [apply tally_seq_eq; reflexivity|apply Rt_refl].
Qed.
Hint Resolve pt_wf_workflow_event : prest.
Lemma pt_wf_task_event : forall t route st, preserves Rt (wf_task_event_M t route st).
Proof.
  intros t route st c c' r H. unfold wf_task_event_M in H.
  destruct (wf_process_task_event (c_graph c) (c_ws c) t route st) as [[new unr]|e]; inversion H; subst;
    [apply tally_seq_eq; reflexivity|apply Rt_refl].
Qed.
Hint Resolve pt_wf_task_event : prest.
Lemma pt_log_entry_error : forall m t r tr res, preserves Rt (log_entry_error m t r tr res).
Proof. intros; unfold log_entry_error; walk. Qed.
Hint Resolve pt_log_entry_error : prest.
Lemma pt_log_error : forall e t r tr, preserves Rt (log_error e t r tr).
Proof. intros; unfold log_error; auto with prest. Qed.
Hint Resolve pt_log_error : prest.
Lemma pt_log_errors : forall es t r tr, preserves Rt (log_errors es t r tr).
Proof. intros; unfold log_errors; walk. Qed.
Hint Resolve pt_log_errors : prest.
Lemma pt_log_unreachable : forall l, preserves Rt (log_unreachable l).
Proof. intros; unfold log_unreachable; walk. Qed.
Hint Resolve pt_log_unreachable : prest.
Lemma pt_get_rec : forall i, preserves Rt (get_rec i).
Proof. intros; unfold get_rec; walk. Qed.
Hint Resolve pt_get_rec : prest.
Lemma pt_request_status_core : forall st, preserves Rt (request_status_core st).
Proof. intros; unfold request_status_core; walk. Qed.
Hint Resolve pt_request_status_core : prest.
Lemma pt_render_input : forall specs rt rolling errs, preserves Rt (render_input ev specs rt rolling errs).
Proof. induction specs as [|[n d] specs IH]; intros; simpl; walk. Qed.
Hint Resolve pt_render_input : prest.
Lemma pt_render_vars : forall specs rolling rendered errs, preserves Rt (render_vars ev specs rolling rendered errs).
Proof. induction specs as [|[n d] specs IH]; intros; simpl; walk. Qed.
Hint Resolve pt_render_vars : prest.
Lemma pt_ensure_ws : preserves Rt (ensure_ws ev).
Proof. unfold ensure_ws; walk. Qed.
Hint Resolve pt_ensure_ws : prest.
Theorem pt_request_workflow_status : forall st, preserves Rt (request_workflow_status ev st).
Proof. intros; unfold request_workflow_status; walk. Qed.
Lemma pt_get_task_context : forall idxs, preserves Rt (get_task_context idxs).
Proof. intros; unfold get_task_context; walk. Qed.
Hint Resolve pt_get_task_context : prest.
Lemma pt_render_task : forall ts ctx, preserves Rt (render_task ev ts ctx).
Proof. intros; unfold render_task; walk. Qed.
Hint Resolve pt_render_task : prest.
Lemma pt_next_task_for : forall s, preserves Rt (next_task_for ev s).
Proof. intros; unfold next_task_for; walk. Qed.
Hint Resolve pt_next_task_for : prest.
Theorem pt_get_next_tasks : preserves Rt (get_next_tasks ev).
Proof. unfold get_next_tasks; walk. Qed.
Lemma pt_setup_retry : forall t idxs, preserves Rt (setup_retry ev t idxs).
Proof. intros; unfold setup_retry; walk. Qed.
Hint Resolve pt_setup_retry : prest.

(* a new record starts with tally 0 *)
Lemma pt_add_task_state : forall t rt ins prev, preserves Rt (add_task_state ev t rt ins prev).
Proof.
  intros; unfold add_task_state. apply (preserves_bind _ Rt_trans); [apply (preserves_get _ Rt_refl)|intro c0].
  destruct (negb (g_has_task (c_graph c0) t)); [apply (preserves_raise _ Rt_refl)|]. cbv zeta.
  apply (preserves_bind_v _ Rt_trans _ _ fresh_retry).
  - destruct (g_task_has_retry (c_graph c0) t); [|apply vpost_ret; intros rr Hrr; discriminate].
    apply vpost_try_catch.
    + eapply vpost_bind_strong; [apply setup_retry_fresh|intros rr Hrr]. apply vpost_ret.
      intros rr' E; inversion E; subst; exact Hrr.
    + intro e. apply vpost_bind; intro. apply vpost_bind; intro. apply vpost_ret; intros rr Hrr; discriminate.
  - walk.
  - intros retry Hf. apply (preserves_bind _ Rt_trans); [apply (preserves_getws _ Rt_refl)|intro w].
    apply (preserves_bind _ Rt_trans); [|intro; apply (preserves_ret _ Rt_refl)].
    apply (preserves_modws Rt); intros c Hi. unfold tally_inv; simpl. intros r rr Hin Hr Hint.
    apply in_app_or in Hin. destruct Hin as [Hin|[<-|[]]]; [eapply Hi; eassumption|].
    simpl in Hr. rewrite (Hf _ Hr). simpl. lia.
Qed.
Hint Resolve pt_add_task_state : prest.

Lemma pt_evaluate_route : forall e r, preserves Rt (evaluate_route e r).
Proof. intros; unfold evaluate_route; walk. Qed.
Hint Resolve pt_evaluate_route : prest.
Lemma pt_evaluate_task_retry : forall r ctx, preserves Rt (evaluate_task_retry ev r ctx).
Proof. intros; unfold evaluate_task_retry; walk. Qed.
Hint Resolve pt_evaluate_task_retry : prest.
Lemma pt_finalize_context : forall ts e ctx, preserves Rt (finalize_context ev ts e ctx).
Proof. intros; unfold finalize_context; walk. Qed.
Hint Resolve pt_finalize_context : prest.
Lemma pt_process_transition : forall t route idx ts ctx e, preserves Rt (process_transition ev t route idx ts ctx e).
Proof. intros; unfold process_transition; walk. Qed.
Hint Resolve pt_process_transition : prest.
Lemma pt_merge_term_contexts : forall l acc, preserves Rt (merge_term_contexts l acc).
Proof. induction l as [|[i r] l IH]; intros; simpl; walk. Qed.
Hint Resolve pt_merge_term_contexts : prest.
Theorem pt_render_workflow_output : preserves Rt (render_workflow_output ev).
Proof. unfold render_workflow_output, get_workflow_terminal_context; walk. Qed.
Lemma pt_request_task_rerun : forall t r b, preserves Rt (request_task_rerun ev t r b).
Proof. intros; unfold request_task_rerun; walk. Qed.
Hint Resolve pt_request_task_rerun : prest.
Theorem pt_request_workflow_rerun : forall reqs, preserves Rt (request_workflow_rerun ev reqs).
Proof. intros; unfold request_workflow_rerun; walk. Qed.

Lemma pt_need_staged : forall s0, preserves Rt (uts_need_staged s0).
Proof. intros; unfold uts_need_staged; walk. Qed.
Hint Resolve pt_need_staged : prest.
Lemma pt_sel1 : forall t s0 e0, preserves Rt (uts_sel1 ev t s0 e0).
Proof. intros; unfold uts_sel1; walk. Qed.
Lemma pt_sel2 : forall t evt s0 r1 i, preserves Rt (uts_sel2 ev t evt s0 r1 i).
Proof. intros; unfold uts_sel2; walk. Qed.
Lemma pt_unstage : forall t route evt s0, preserves Rt (uts_unstage t route evt s0).
Proof. intros; unfold uts_unstage; walk. Qed.
Lemma pt_item : forall t route evt s0, preserves Rt (uts_item t route evt s0).
Proof. intros; unfold uts_item; walk. Qed.
Lemma pt_logfail : forall t evt, preserves Rt (uts_logfail t evt).
Proof. intros; unfold uts_logfail; walk. Qed.
Lemma pt_setst : forall i ns, preserves Rt (uts_setst i ns).
Proof. intros; unfold uts_setst; walk. Qed.
Lemma pt_completion : forall t route evt ts idx ns o0, preserves Rt (uts_completion ev t route evt ts idx ns o0).
Proof. intros; unfold uts_completion; walk. Qed.
Lemma pt_queue : forall t route idx ts o n compl, preserves Rt (uts_queue ev t route idx ts o n compl).
Proof. intros; unfold uts_queue; walk. Qed.

End TallyKept.

(* ---- creating the lazy state changes statuses by workflow events only: no record becomes retrying,
   no retry information changes, no pointer moves ---- *)

Definition Rnr (c c' : cstate) : Prop :=
  tasks (c_ws c') = tasks (c_ws c) /\
  forall i r', nth_error (sequence (c_ws c')) i = Some r' ->
    exists r, nth_error (sequence (c_ws c)) i = Some r /\ r_retry r' = r_retry r /\
              (rstatus r' = S_RETRYING -> rstatus r = S_RETRYING).
Lemma Rnr_refl : forall c, Rnr c c.
Proof. intro c; split; [reflexivity|]. intros i r H; exists r; auto. Qed.
Lemma Rnr_trans : forall a b c, Rnr a b -> Rnr b c -> Rnr a c.
Proof.
  intros a b c [T1 H1] [T2 H2]; split; [congruence|]. intros i r' H.
  destruct (H2 _ _ H) as [r1 [Hr1 [E1 S1]]]. destruct (H1 _ _ Hr1) as [r0 [Hr0 [E0 S0]]].
  exists r0; repeat split; [exact Hr0|congruence|auto].
Qed.

Lemma Rnr_same : forall c c', sequence (c_ws c') = sequence (c_ws c) -> tasks (c_ws c') = tasks (c_ws c) -> Rnr c c'.
Proof. intros c c' Hs Ht; split; [exact Ht|]. rewrite Hs. intros i r H; exists r; auto. Qed.

Lemma workflow_event_never_retrying : forall w r st s,
  task_process_event w r (EvWorkflow st) = Val (Some s) -> s <> S_RETRYING.
Proof.
  intros w r st s H Hs; subst s. unfold task_process_event in H.
  destruct (negb (string_in (ev_name (EvWorkflow st)) WORKFLOW_EXECUTION_EVENTS)); [discriminate|].
  apply task_table_step_val in H. apply F_task_retrying_only_by_retry in H. destruct H as [H _].
  unfold task_workflow_event_name in H.
  repeat match type of H with context [if ?b then _ else _] => destruct b end;
    repeat match type of H with context [match ?x with _ => _ end] => destruct x end;
    cbn in H; discriminate H.
Qed.

Section LazyState.
Variable ev : string -> dict -> evalres.

Ltac leaf :=
  first
    [ apply (preserves_modws Rnr); intro; apply Rnr_same; reflexivity
    | apply (preserves_modify Rnr); intro; apply Rnr_same; reflexivity
    | apply (preserves_modify Rnr); intro;
      match goal with |- context [if ?b then _ else _] => destruct b end; apply Rnr_same; reflexivity
    | assumption
    | match goal with IH : forall _ _ _, preserves _ _ |- _ => apply IH end
    | match goal with IH : forall _ _, preserves _ _ |- _ => apply IH end
    | match goal with IH : forall _ _ _ _, preserves _ _ |- _ => apply IH end
    | eauto 3 with presnr ].
Ltac walk := pw Rnr_refl Rnr_trans leaf.

Lemma pn_set_status : forall i s, s <> S_RETRYING -> preserves Rnr (set_rec_status i (Some s)).
Proof.
  intros i s Hs. unfold set_rec_status. apply (preserves_modws Rnr); intro c. split.
  - simpl. apply tasks_update_rec.
  - simpl. intros j r' H. destruct (Nat.eq_dec i j) as [<-|Hn].
    + destruct (nth_error (sequence (c_ws c)) i) as [r|] eqn:E.
      * rewrite (nth_update_rec_same _ _ (fun r => r_set_status r (Some s)) _ E) in H. inversion H; subst.
        exists r; repeat split. simpl. intro; contradiction.
      * unfold ws_update_rec in H. rewrite E in H. congruence.
    + rewrite nth_update_rec_other in H by exact Hn. exists r'; auto.
Qed.

Lemma pn_wf_workflow_event : forall st, preserves Rnr (wf_workflow_event_M st).
Proof.
  intros st c c' r H. unfold wf_workflow_event_M in H.
  destruct (wf_process_workflow_event (c_graph c) (c_ws c) st) as [[new unr]|e]; inversion H; subst;
    [apply Rnr_same; reflexivity|apply Rnr_refl].
Qed.
Lemma pn_log_error : forall e t r tr, preserves Rnr (log_error e t r tr).
Proof. intros; unfold log_error, log_entry_error; walk. Qed.
Lemma pn_log_errors : forall es t r tr, preserves Rnr (log_errors es t r tr).
Proof. intros; unfold log_errors. apply (preserves_forM _ Rnr_refl Rnr_trans); intro; apply pn_log_error. Qed.
Lemma pn_log_unreachable : forall l, preserves Rnr (log_unreachable l).
Proof. intros; unfold log_unreachable. apply (preserves_forM _ Rnr_refl Rnr_trans); intro; apply pn_log_error. Qed.

Lemma pn_request_status_core : forall st, preserves Rnr (request_status_core st).
Proof.
  intros st; unfold request_status_core.
  apply (preserves_bind _ Rnr_trans); [apply (preserves_getws _ Rnr_refl)|intro w0]. cbv zeta.
  apply (preserves_bind _ Rnr_trans).
  { apply (preserves_forM _ Rnr_refl Rnr_trans); intros [i r0].
    apply (preserves_bind _ Rnr_trans); [apply (preserves_getws _ Rnr_refl)|intro w].
    destruct (nth_error (sequence w) i) as [r|]; [|apply (preserves_ret _ Rnr_refl)].
    apply (preserves_bind_v _ Rnr_trans _ _ (fun ns => forall s, ns = Some s -> s <> S_RETRYING)).
    - intros c c' ns H s Hs; subst ns. apply lift_res_inv in H; destruct H as [_ H].
      eapply workflow_event_never_retrying; symmetry; exact H.
    - apply (preserves_lift_res _ Rnr_refl).
    - intros [s|] Hns; [apply pn_set_status; apply Hns; reflexivity|apply (preserves_ret _ Rnr_refl)]. }
  intros _.
  apply (preserves_bind _ Rnr_trans); [apply pn_wf_workflow_event|intro unr].
  apply (preserves_bind _ Rnr_trans); [apply pn_log_unreachable|intros _].
  apply (preserves_bind _ Rnr_trans); [apply (preserves_getws _ Rnr_refl)|intro w1].
  destruct (_ && _ && _); [apply (preserves_ret _ Rnr_refl)|].
  destruct (_ && _ && _); [apply (preserves_ret _ Rnr_refl)|].
  destruct (_ && _); [|apply (preserves_ret _ Rnr_refl)].
  apply (preserves_bind _ Rnr_trans); [|intro; apply (preserves_raise _ Rnr_refl)].
  apply (preserves_forM_In _ Rnr_refl Rnr_trans). intros [i r] Hin.
  unfold ws_tasks_by_status in Hin. apply filter_In in Hin. destruct Hin as [_ Hin].
  apply andb_prop in Hin; destruct Hin as [Hin _].
  destruct (r_status r) as [s|]; [|discriminate].
  apply pn_set_status. intro; subst s. discriminate Hin.
Qed.

Lemma pn_render_input : forall specs rt rolling errs, preserves Rnr (render_input ev specs rt rolling errs).
Proof. induction specs as [|[n d] specs IH]; intros; simpl; walk. Qed.
Lemma pn_render_vars : forall specs rolling rendered errs, preserves Rnr (render_vars ev specs rolling rendered errs).
Proof. induction specs as [|[n d] specs IH]; intros; simpl; walk. Qed.

Lemma pn_ensure_ws : preserves Rnr (ensure_ws ev).
Proof.
  pose proof pn_request_status_core. pose proof pn_render_input. pose proof pn_render_vars. pose proof pn_log_errors.
  unfold ensure_ws; walk.
Qed.

End LazyState.

(* ---- which records may be driven to retrying by which events ---- *)

Definition rec_ok0 (evt : event) (r : trec) : Prop :=
  bounded r \/ (provider_event evt = true /\ (ev_status evt = S_RUNNING \/ rstatus r <> S_RETRYING)).
Definition rec_ok (evt : event) (r : trec) : Prop := r_status r = None \/ rec_ok0 evt r.

(* what a call needs of the record its (task, route) pointer names: nothing if the task is an engine
   command (those always get a new record) *)
Definition entry_ok (evt : event) (c : cstate) (t : string) (route : nat) : Prop :=
  is_engine_command t = true \/
  forall i r, ws_task_idx (c_ws c) t route = Some i -> nth_error (sequence (c_ws c)) i = Some r -> rec_ok0 evt r.

Lemma entry_ok_Rnr : forall evt c c' t route, entry_ok evt c t route -> Rnr c c' -> entry_ok evt c' t route.
Proof.
  intros evt c c' t route [H|H] [Ht Hs]; [left; exact H|right]. intros i r' Hp Hn.
  unfold ws_task_idx in *. rewrite Ht in Hp. destruct (Hs _ _ Hn) as [r [Hr [Er Est]]].
  destruct (H _ _ Hp Hr) as [Hb|[Hpe Hd]].
  - left. intros rr Hrr; apply Hb; congruence.
  - right; split; [exact Hpe|]. destruct Hd as [Hd|Hd]; [left; exact Hd|right; intro E; apply Hd; apply Est; exact E].
Qed.

Lemma tpe_step : forall w r evt ns, task_process_event w r evt = Val ns ->
  exists name, tbl_step task_table (rstatus r) name = ns.
Proof.
  intros w r evt ns H; unfold task_process_event in H. destruct evt.
  - destruct (negb _); [discriminate|]. eexists; apply task_table_step_val; exact H.
  - destruct (negb _); [discriminate|]. eexists; apply task_table_step_val; exact H.
  - destruct (negb _); [discriminate|]. destruct (item_event_name _ _ _ _ _); [|discriminate].
    eexists; apply task_table_step_val; exact H.
  - destruct (negb _); [discriminate|]. eexists; apply task_table_step_val; exact H.
Qed.

Lemma tpe_provider : forall w r evt ns, provider_event evt = true -> task_process_event w r evt = Val ns ->
  exists name, tbl_step task_table (rstatus r) name = ns /\ name <> EV_TASK_RETRY_REQUESTED /\
               (ev_status evt = S_RUNNING -> name = "action_running").
Proof.
  intros w r evt ns Hp H; unfold task_process_event in H. destruct evt; try discriminate Hp.
  - destruct (negb _); [discriminate|]. eexists; split; [apply task_table_step_val; exact H|]. split.
    + cbn; discriminate.
    + cbn; intro Hs; subst st; reflexivity.
  - destruct (negb _); [discriminate|].
    destruct (item_event_name w (r_id r) (r_route r) item st) as [n|x] eqn:En; [|discriminate].
    exists n. split; [apply task_table_step_val; exact H|].
    unfold item_event_name in En. cbv zeta in En.
    destruct (negb (status_in st item_requirements)) eqn:Eq.
    + inversion En; subst n. split; [cbn; discriminate|cbn; intro Hs; subst st; reflexivity].
    + split; [|cbn; intro Hs; subst st; discriminate Eq].
      destruct (get_staged_task w (r_id r) (r_route r)); [|inversion En; cbn; discriminate].
      destruct (s_items s); [|inversion En; cbn; discriminate]. destruct (negb (Nat.ltb item (length l))); [discriminate|].
      repeat match type of En with (if ?b then _ else _) = _ => destruct b end; inversion En; cbn; discriminate.
Qed.

Lemma unset_not_completed : ~ In S_UNSET COMPLETED_STATUSES.
Proof. simpl; intuition discriminate. Qed.

Lemma retrying_running : tbl_step task_table S_RETRYING "action_running" = Some S_RUNNING.
Proof. vm_compute; reflexivity. Qed.

(* the status becomes (or stays) retrying only for a record whose tally is below its count *)
Lemma machine_no_overrun : forall w r evt ns, rec_ok evt r -> task_process_event w r evt = Val ns ->
  rstatus (stepped r ns) = S_RETRYING -> bounded r.
Proof.
  intros w r evt ns Hok H Hs. rewrite stepped_status in Hs.
  destruct Hok as [Hnone|[Hb|[Hp Hd]]]; [exfalso| exact Hb |exfalso].
  - destruct (tpe_step _ _ _ _ H) as [name Hn]. unfold rstatus in Hn, Hs. rewrite Hnone in Hn, Hs.
    destruct ns as [s|]; [subst s|discriminate Hs].
    apply F_task_retrying_only_by_retry in Hn. destruct Hn as [_ Hn]. exact (unset_not_completed Hn).
  - destruct (tpe_provider _ _ _ _ Hp H) as [name [Hn [Hne Hrun]]].
    destruct ns as [s|].
    + subst s. apply F_task_retrying_only_by_retry in Hn. destruct Hn as [Hn _]. exact (Hne Hn).
    + destruct Hd as [Hd|Hd]; [|exact (Hd Hs)].
      rewrite (Hrun Hd), Hs, retrying_running in Hn. discriminate Hn.
Qed.

Lemma bounded_stepped : forall r ns, bounded r -> bounded (stepped r ns).
Proof. intros r ns H rr Hr; apply H. rewrite stepped_retry in Hr; exact Hr. Qed.

Section RetryBound.
Variable ev : string -> dict -> evalres.

(* the increment: only of the addressed record, and only when its tally is below its count *)
Lemma retrying_tally : forall t route idx r st c c' res,
  tally_inv c -> nth_error (sequence (c_ws c)) idx = Some r -> (st = S_RETRYING -> bounded r) ->
  uts_retrying t route idx r st c = (c', res) ->
  tally_inv c' /\ tasks (c_ws c') = tasks (c_ws c).
Proof.
  intros t route idx r st c c' res Hi Hn Hb H. unfold uts_retrying in H.
  destruct (status_eqb st S_RETRYING) eqn:E; [|inversion H; subst; split; [exact Hi|reflexivity]].
  apply status_eqb_eq in E. specialize (Hb E).
  destruct (r_retry r) as [rr|] eqn:Er; [|inversion H; subst; split; [exact Hi|reflexivity]].
  cbv zeta in H. unfold bind, upd_rec, modws in H. cbv beta iota in H. inversion H; subst c' res; clear H.
  split.
  - apply (tally_seq_eq (set_ws c (ws_update_rec (c_ws c) idx
             (fun r0 => r_set_retry r0 (Some {| rr_when := rr_when rr; rr_count := rr_count rr;
                                                rr_delay := rr_delay rr; rr_tally := S (rr_tally rr) |}))))).
    + simpl. rewrite seq_remove_staged. reflexivity.
    + unfold tally_inv, ws_update_rec. rewrite Hn. simpl. intros x rrx Hin Hr Hint.
      apply In_set_nth in Hin. destruct Hin as [->|Hin]; [|eapply Hi; eassumption].
      cbn [r_retry r_set_retry] in Hr. inversion Hr; subst rrx; clear Hr. cbn [rr_tally rr_count] in *.
      specialize (Hb rr Er Hint). rewrite Nat2Z.inj_succ. lia.
  - simpl. rewrite tasks_remove_staged. simpl. apply tasks_update_rec.
Qed.

Ltac binv H c1 a E :=
  apply bind_inv in H; destruct H as [[c1 [a [E H]]]|[?e [E ->]]].

Definition decided (c : cstate) (t : string) (route : nat) (p : pre_out) : Prop :=
  forall ctx, po_compl p = Some (ctx, true) ->
    ws_task_idx (c_ws c) t route = Some (po_idx p) /\
    exists r, nth_error (sequence (c_ws c)) (po_idx p) = Some r /\ bounded r.

Lemma machine_tally : forall t route evt ts idx c c' res,
  ws_task_idx (c_ws c) t route = Some idx ->
  (forall r, nth_error (sequence (c_ws c)) idx = Some r -> rec_ok evt r) -> tally_inv c ->
  pre_machine ev t route evt ts idx c = (c', res) ->
  tally_inv c' /\ forall p, res = Val p -> decided c' t route p.
Proof.
  intros t route evt ts idx c c' res Hp Hok Hi H. unfold pre_machine in H.
  binv H c0 r E0; [|apply get_rec_state in E0; subst; split; [exact Hi|discriminate]].
  apply get_rec_inv in E0; destruct E0 as [-> Hr].
  binv H c0 w E0; [|inversion E0]. inversion E0; subst c0 w; clear E0.
  binv H c0 ns E0; [|apply lift_res_inv in E0; destruct E0 as [-> _]; split; [exact Hi|discriminate]].
  apply lift_res_inv in E0; destruct E0 as [-> Ens]. symmetry in Ens.
  binv H c1 u1 E1; [|destruct (setst_inv _ _ _ _ _ _ E1 Hr) as [F _]; discriminate F].
  destruct (setst_inv _ _ _ _ _ _ E1 Hr) as [_ [Ht1 [_ Hn1]]]. fold (stepped r ns) in Hn1.
  assert (Hi1 : tally_inv c1) by (eapply pt_setst; [exact E1|exact Hi]).
  binv H c0 r' E0; [|apply get_rec_state in E0; subst; split; [exact Hi1|discriminate]].
  apply get_rec_inv in E0; destruct E0 as [-> Hr']. rewrite Hn1 in Hr'; inversion Hr'; subst r'; clear Hr'.
  assert (Hb : rstatus (stepped r ns) = S_RETRYING -> bounded (stepped r ns)).
  { intro Hs. apply bounded_stepped. eapply machine_no_overrun; [apply Hok; exact Hr|exact Ens|exact Hs]. }
  binv H c2 u2 E2.
  2: { destruct (retrying_tally _ _ _ _ _ _ _ _ Hi1 Hn1 Hb E2) as [Hi2 _]. split; [exact Hi2|discriminate]. }
  destruct (retrying_tally _ _ _ _ _ _ _ _ Hi1 Hn1 Hb E2) as [Hi2 Ht2].
  binv H c3 compl E3; [|split; [eapply pt_completion; [exact E3|exact Hi2]|discriminate]].
  assert (Hi3 : tally_inv c3) by (eapply pt_completion; [exact E3|exact Hi2]).
  inversion H; subst c' res; clear H. split; [exact Hi3|].
  intros p Hpv; inversion Hpv; subst p; clear Hpv. intros ctx Hc; simpl in *.
  destruct (completion_inv _ _ _ _ _ _ _ _ _ _ _ E3) as [[_ [Hn0 _]]|[_ [c4 [r4 [ctx4 [b4 [[Ks Kt] [_ [Hr4 [Hc4 [Hb4 _]]]]]]]]]]].
  - rewrite Hn0 in Hc; discriminate.
  - rewrite Hc4 in Hc; inversion Hc; subst ctx4 b4. destruct (Hb4 eq_refl) as [-> [_ Hbd]].
    split; [|exists r4; split; [exact Hr4|apply retry_allowed_bounded; exact Hbd]].
    unfold ws_task_idx in *. rewrite Kt, Ht2, Ht1. exact Hp.
Qed.

Lemma main_tally : forall t route evt ts s0 e0 c c' res,
  (forall s, s0 = Some s -> s_route s = route) -> e0 = ws_task_idx (c_ws c) t route ->
  entry_ok evt c t route -> tally_inv c ->
  pre_main ev t route evt ts s0 e0 c = (c', res) ->
  tally_inv c' /\ forall p, res = Val p -> decided c' t route p.
Proof.
  intros t route evt ts s0 e0 c c' res Hroute He0 Hok Hi H. unfold pre_main in H.
  binv H c1 idx1 E1; [|split; [eapply pt_sel1; [exact E1|exact Hi]|discriminate]].
  assert (Hi1 : tally_inv c1) by (eapply pt_sel1; [exact E1|exact Hi]).
  binv H c0 r1 E0; [|apply get_rec_state in E0; subst; split; [exact Hi1|discriminate]].
  apply get_rec_inv in E0; destruct E0 as [-> Hr1].
  binv H c2 idx E2; [|split; [eapply pt_sel2; [exact E2|exact Hi1]|discriminate]].
  assert (Hi2 : tally_inv c2) by (eapply pt_sel2; [exact E2|exact Hi1]).
  binv H c3 u3 E3; [|split; [eapply pt_unstage; [exact E3|exact Hi2]|discriminate]].
  assert (Hi3 : tally_inv c3) by (eapply pt_unstage; [exact E3|exact Hi2]).
  binv H c4 u4 E4; [|split; [eapply pt_item; [exact E4|exact Hi3]|discriminate]].
  assert (Hi4 : tally_inv c4) by (eapply pt_item; [exact E4|exact Hi3]).
  binv H c5 u5 E5; [|split; [eapply pt_logfail; [exact E5|exact Hi4]|discriminate]].
  assert (Hi5 : tally_inv c5) by (eapply pt_logfail; [exact E5|exact Hi4]).
  assert (K : Rk c2 c5).
  { eapply Rk_trans; [eapply pk_unstage; exact E3|]. eapply Rk_trans; [eapply pk_item; exact E4|eapply pk_logfail; exact E5]. }
  destruct (select_inv ev _ _ _ _ _ _ _ _ _ _ _ _ Hroute He0 E1 Hr1 E2 K) as [r [Hn [Hp Hd]]].
  eapply machine_tally; [exact Hp| |exact Hi5|exact H].
  intros r' Hr'. rewrite Hn in Hr'; inversion Hr'; subst r'; clear Hr'.
  destruct Hd as [[He [Hc [Ks Kt]]]|[Hd _]]; [right|left; exact Hd].
  destruct Hok as [Hok|Hok]; [congruence|]. apply (Hok idx); [rewrite <- He0; exact He|rewrite <- Ks; exact Hn].
Qed.

Lemma prefix_tally : forall t route evt c c' res,
  entry_ok evt c t route -> tally_inv c -> uts_prefix ev t route evt c = (c', res) ->
  tally_inv c' /\ forall p, res = Val p -> decided c' t route p.
Proof.
  intros t route evt c c' res Hok Hi H. unfold uts_prefix in H.
  binv H c1 u1 E1; [|split; [eapply pt_ensure_ws; [exact E1|exact Hi]|discriminate]].
  assert (Hi1 : tally_inv c1) by (eapply pt_ensure_ws; [exact E1|exact Hi]).
  assert (Hok1 : entry_ok evt c1 t route) by (eapply entry_ok_Rnr; [exact Hok|eapply pn_ensure_ws; exact E1]).
  binv H c0 cst E0; [|inversion E0]. inversion E0; subst c0 cst; clear E0.
  destruct (negb (g_has_task (c_graph c1) t)); [inversion H; subst; split; [exact Hi1|discriminate]|].
  cbv zeta in H.
  binv H c2 ts E2.
  2: { destruct (spec_get_task (c_spec c1) t); inversion E2; subst. split; [exact Hi1|discriminate]. }
  assert (c2 = c1) as -> by (destruct (spec_get_task (c_spec c1) t); inversion E2; reflexivity).
  assert (Hroute : forall s, get_staged_task (c_ws c1) t route = Some s -> s_route s = route)
    by (intros s Hs; apply get_staged_matches in Hs; apply Hs).
  remember (get_staged_task (c_ws c1) t route) as s0 eqn:Es0.
  remember (ws_task_idx (c_ws c1) t route) as e0 eqn:Ee0.
  assert (G : pre_main ev t route evt ts s0 e0 c1 = (c', res) -> tally_inv c' /\ forall p, res = Val p -> decided c' t route p).
  { intro Hm. eapply main_tally; [exact Hroute|exact Ee0|exact Hok1|exact Hi1|exact Hm]. }
  destruct s0, e0; try (apply G; exact H). inversion H; subst; split; [exact Hi1|discriminate].
Qed.

(* a callee that keeps the bound whenever it is entered properly *)
Definition call_ok (rec : string -> nat -> event -> M unit) : Prop :=
  forall t route evt c c' r, entry_ok evt c t route -> tally_inv c -> rec t route evt c = (c', r) -> tally_inv c'.

Lemma forM_calls_tally : forall rec, call_ok rec -> forall q, Forall cmd_pair q -> preserves Rt (forM_ q (uts_call rec)).
Proof.
  intros rec Hrec q; induction q as [|[n rt] q IH]; intro Hq; simpl; [apply (preserves_ret _ Rt_refl)|].
  inversion Hq as [|x l Hx Hl]; subst.
  apply (preserves_bind _ Rt_trans); [|intro; apply IH; exact Hl].
  intros c c' r H Hi. destruct (engine_event n); [|inversion H; subst; exact Hi].
  eapply Hrec; [left; exact Hx|exact Hi|exact H].
Qed.

Lemma tail_tally : forall rec, call_ok rec -> forall t route ts idx old new compl c c' res,
  tally_inv c ->
  (forall ctx, compl = Some (ctx, true) ->
     ws_task_idx (c_ws c) t route = Some idx /\ exists r, nth_error (sequence (c_ws c)) idx = Some r /\ bounded r) ->
  uts_tail ev rec t route ts idx old new compl c = (c', res) -> tally_inv c'.
Proof.
  intros rec Hrec t route ts idx old new compl c c' res Hi Hc H. unfold uts_tail in H.
  assert (P : forall compl',
    preserves Rt
     (queue <- uts_queue ev t route idx ts old new compl' ;;
      r <- get_rec idx ;;
      st <- (match r_status r with Some s => ret s | None => raise (exn_key "status") end) ;;
      unreachable <- wf_task_event_M t route st ;;
      log_unreachable unreachable ;;;
      forM_ queue (uts_call rec) ;;;
      w <- getws ;;
      if status_in (wstatus w) COMPLETED_STATUSES then upd_rec idx (fun r => r_set_term r true) else ret tt)).
  { intro compl'. apply (preserves_bind_v _ Rt_trans _ _ (Forall cmd_pair)); [apply queue_cmds|apply pt_queue|intros q Hq].
    apply (preserves_bind _ Rt_trans); [apply pt_get_rec|intro r].
    apply (preserves_bind _ Rt_trans);
      [destruct (r_status r); [apply (preserves_ret _ Rt_refl)|apply (preserves_raise _ Rt_refl)]|intro st].
    apply (preserves_bind _ Rt_trans); [apply pt_wf_task_event|intro unr].
    apply (preserves_bind _ Rt_trans); [apply pt_log_unreachable|intros _].
    apply (preserves_bind _ Rt_trans); [apply forM_calls_tally; assumption|intros _].
    apply (preserves_bind _ Rt_trans); [apply (preserves_getws _ Rt_refl)|intro w].
    destruct (status_in (wstatus w) COMPLETED_STATUSES); [apply pt_upd_rec; reflexivity|apply (preserves_ret _ Rt_refl)]. }
  destruct compl as [[ctx [|]]|]; [|exact (P _ _ _ _ H Hi)|exact (P _ _ _ _ H Hi)].
  eapply Hrec; [|exact Hi|exact H]. right. intros i r Hp Hn.
  destruct (Hc ctx eq_refl) as [Hp' [r' [Hn' Hb]]].
  rewrite Hp in Hp'; inversion Hp'; subst i. rewrite Hn in Hn'; inversion Hn'; subst r'. left; exact Hb.
Qed.

Lemma body_tally : forall rec, call_ok rec -> call_ok (uts_body ev rec).
Proof.
  intros rec Hrec t route evt c c' r Hok Hi H. rewrite body_eq in H.
  binv H c1 p E1; [|destruct (prefix_tally _ _ _ _ _ _ Hok Hi E1) as [G _]; exact G].
  destruct (prefix_tally _ _ _ _ _ _ Hok Hi E1) as [Hi1 Hd]. unfold tail_of in H.
  eapply tail_tally; [exact Hrec|exact Hi1| |exact H]. exact (Hd p eq_refl).
Qed.

Lemma uts_fuel_tally : forall fuel, call_ok (update_task_state_fuel ev fuel).
Proof.
  induction fuel as [|fuel IH]; [intros t route evt c c' r _ Hi H; inversion H; subst; exact Hi|].
  intros t route evt. rewrite uts_unfold. apply body_tally; exact IH.
Qed.

(* THE PROTOCOL HYPOTHESIS.  The record the event is addressed to is not retrying, or the event is the
   acknowledgement `running` (which takes a retrying record to running).  It is needed: any other event
   delivered to a record that is retrying leaves it retrying, and the code then counts one more retry
   (a duplicate report of the failed attempt increments the tally past the count; see the Example
   [duplicate_report_overruns] in props/C13b.v). *)
Definition not_retrying_target (c : cstate) (t : string) (route : nat) (evt : event) : Prop :=
  ev_status evt = S_RUNNING \/
  forall i r, ws_task_idx (c_ws c) t route = Some i -> nth_error (sequence (c_ws c)) i = Some r ->
              rstatus r <> S_RETRYING.

Theorem retry_tally_bounded_step : forall t route evt c c' r,
  provider_event evt = true -> tally_inv c -> not_retrying_target c t route evt ->
  update_task_state ev t route evt c = (c', r) -> tally_inv c'.
Proof.
  intros t route evt c c' r Hp Hi Hn H. unfold update_task_state in H.
  eapply uts_fuel_tally; [|exact Hi|exact H]. right. intros i rec Hpt Hnth. right; split; [exact Hp|].
  destruct Hn as [Hn|Hn]; [left; exact Hn|right; eapply Hn; eassumption].
Qed.

End RetryBound.

(* ------------------------------------------------------------------ every API operation, and histories *)

Section Histories.
Variable ev : string -> dict -> evalres.

(* what the provider protocol asks of one operation in the state it is applied to *)
Definition op_ok (c : cstate) (op : api_op) : Prop :=
  match op with
  | OpEvent t route evt => provider_event evt = true /\ not_retrying_target c t route evt
  | _ => True
  end.

Lemma persist_tally : preserves Rt (persist ev).
Proof.
  intros c c' r H. unfold persist in H. apply bind_inv in H. destruct H as [[c1 [u [E1 H]]]|[e [E1 ->]]].
  - eapply Rt_trans; [eapply pt_ensure_ws; exact E1|].
    rewrite C05Proofs.dec_cstate_enc_total in H. inversion H; subst. apply tally_seq_eq; reflexivity.
  - eapply pt_ensure_ws; exact E1.
Qed.

Theorem api_exec_tally : forall op c c' r, op_ok c op -> tally_inv c -> api_exec ev op c = (c', r) -> tally_inv c'.
Proof.
  intros op c c' r Hok Hi H.
  assert (G : forall (m : M unit) (k : api_result), preserves Rt m -> preserves Rt (m ;;; ret k)).
  { intros m k Hm. apply (preserves_bind _ Rt_trans); [exact Hm|intro; apply (preserves_ret _ Rt_refl)]. }
  destruct op; cbn [api_exec] in H.
  - exact (G _ _ (pt_ensure_ws ev) _ _ _ H Hi).
  - exact (G _ _ (pt_request_workflow_status ev st) _ _ _ H Hi).
  - revert H Hi. apply (preserves_bind _ Rt_trans); [apply pt_get_next_tasks|intro; apply (preserves_ret _ Rt_refl)].
  - destruct Hok as [Hp Hn]. apply bind_inv in H. destruct H as [[c1 [u [E1 H]]]|[x [E1 ->]]].
    + inversion H; subst. eapply retry_tally_bounded_step; eassumption.
    + eapply retry_tally_bounded_step; eassumption.
  - exact (G _ _ (pt_render_workflow_output ev) _ _ _ H Hi).
  - exact (G _ _ (pt_request_workflow_rerun ev reqs) _ _ _ H Hi).
  - exact (G _ _ persist_tally _ _ _ H Hi).
Qed.

(* a history in which every event obeys the protocol in the state it meets *)
Fixpoint hist_ok (ops : list api_op) (c : cstate) : Prop :=
  match ops with
  | [] => True
  | op :: ops' => op_ok c op /\ hist_ok ops' (fst (api_exec ev op c))
  end.

Theorem retry_tally_bounded_history : forall ops c, hist_ok ops c -> tally_inv c -> tally_inv (run_ops ev ops c).
Proof.
  induction ops as [|op ops IH]; intros c Hh Hi; [exact Hi|].
  destruct Hh as [Hop Hh]. unfold run_ops; simpl. apply IH; [exact Hh|].
  destruct (api_exec ev op c) as [c' r] eqn:E. simpl. eapply api_exec_tally; eassumption.
Qed.

End Histories.

(* ------------------------------------------------------------------ decidable forms of the hypotheses
   (used to show, by computation on concrete runs, that they are satisfiable -- and what happens when not) *)

Definition inert_b (g : graph) : bool :=
  forallb (fun '(cmd, _) => match g_next_transitions g cmd with [] => true | _ => false end
                            && negb (g_task_has_retry g cmd)) ENGINE_EVENT_MAP.

Lemma inert_b_sound : forall g, inert_b g = true -> graph_commands_inert g.
Proof.
  intros g H cmd Hc. unfold is_engine_command, ahas in Hc.
  destruct (aget String.eqb cmd ENGINE_EVENT_MAP) as [v|] eqn:E; [|discriminate].
  apply aget_In in E. unfold inert_b in H. rewrite forallb_forall in H. specialize (H _ E). cbv beta iota in H.
  apply andb_prop in H; destruct H as [H1 H2]. split.
  - destruct (g_next_transitions g cmd); [reflexivity|discriminate].
  - apply negb_true_iff in H2; exact H2.
Qed.

Definition tally_ok_b (r : trec) : bool :=
  match r_retry r with
  | Some rr => negb (py_is_int (rr_count rr))
               || Z.leb (Z.of_nat (rr_tally rr)) (Z.max (py_int_value (rr_count rr)) 0)
  | None => true
  end.
Definition tally_inv_b (c : cstate) : bool := forallb tally_ok_b (sequence (c_ws c)).

Lemma tally_inv_b_iff : forall c, tally_inv_b c = true <-> tally_inv c.
Proof.
  intro c; unfold tally_inv_b, tally_inv; rewrite forallb_forall; split.
  - intros H r rr Hin Hr Hint. specialize (H _ Hin). unfold tally_ok_b in H. rewrite Hr, Hint in H.
    cbn [negb orb] in H. apply Z.leb_le; exact H.
  - intros H r Hin. unfold tally_ok_b. destruct (r_retry r) as [rr|] eqn:Er; [|reflexivity].
    destruct (py_is_int (rr_count rr)) eqn:Ei; [|reflexivity]. cbn [negb orb]. apply Z.leb_le. eapply H; eassumption.
Qed.

Definition nrt_b (c : cstate) (t : string) (route : nat) (evt : event) : bool :=
  status_eqb (ev_status evt) S_RUNNING ||
  match ws_task_idx (c_ws c) t route with
  | Some i => match nth_error (sequence (c_ws c)) i with
              | Some r => negb (status_eqb (rstatus r) S_RETRYING)
              | None => true
              end
  | None => true
  end.

Lemma nrt_b_sound : forall c t route evt, nrt_b c t route evt = true -> not_retrying_target c t route evt.
Proof.
  intros c t route evt H. unfold nrt_b in H. apply orb_prop in H. destruct H as [H|H].
  - left; apply status_eqb_eq; exact H.
  - right. intros i r Hp Hn. rewrite Hp, Hn in H. apply negb_true_iff in H. intro E; rewrite E in H; discriminate.
Qed.

Section HistoriesB.
Variable ev : string -> dict -> evalres.

Definition op_ok_b (c : cstate) (op : api_op) : bool :=
  match op with
  | OpEvent t route evt => provider_event evt && nrt_b c t route evt
  | _ => true
  end.

Fixpoint hist_ok_b (ops : list api_op) (c : cstate) : bool :=
  match ops with
  | [] => true
  | op :: ops' => op_ok_b c op && hist_ok_b ops' (fst (api_exec ev op c))
  end.

Lemma hist_ok_b_sound : forall ops c, hist_ok_b ops c = true -> hist_ok ev ops c.
Proof.
  induction ops as [|op ops IH]; intros c H; simpl in *; [exact I|].
  apply andb_prop in H; destruct H as [H1 H2]. split; [|apply IH; exact H2].
  destruct op; simpl in *; try exact I. apply andb_prop in H1; destruct H1 as [Hp Hn].
  split; [exact Hp|apply nrt_b_sound; exact Hn].
Qed.

End HistoriesB.
